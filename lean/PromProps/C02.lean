import PromModel.Tsdb.Appendable
/-
  C02 — Append admission and commit apply the documented ordering rules.
  Property theorems about the transcribed mechanism `PromModel/Tsdb/Appendable.lean`.
-/
namespace Prom.C02
open Prom.Admit

/-- in-order admissible -/
def InOrderOK (k : Kind) (t : Int) (v : Nat) (s : View) (w : Window) : Prop :=
  t ≥ w.minValid ∧ (s.hasHead = false ∨ t > s.maxT ∨ (t = s.maxT ∧ s.lastKind = k ∧ s.lastV = v))

def DupZone (k : Kind) (t : Int) (v : Nat) (s : View) (w : Window) : Prop :=
  t ≥ w.minValid ∧ s.hasHead = true ∧ t = s.maxT ∧ ¬ (s.lastKind = k ∧ s.lastV = v)

theorem appendable_table (k : Kind) (t : Int) (v : Nat) (s : View) (w : Window) :
    (appendable k t v s w = .ok .inOrder ↔ InOrderOK k t v s w) ∧
    (appendable k t v s w = .ok .ooo ↔
        ¬ InOrderOK k t v s w ∧ ¬ DupZone k t v s w ∧ w.oooWin > 0 ∧ t ≥ w.headMaxt - w.oooWin) ∧
    (appendable k t v s w = .error .dup ↔ DupZone k t v s w) ∧
    (appendable k t v s w = .error .tooOld ↔
        ¬ InOrderOK k t v s w ∧ ¬ DupZone k t v s w ∧ w.oooWin > 0 ∧ t < w.headMaxt - w.oooWin) ∧
    (appendable k t v s w = .error .oob ↔
        ¬ InOrderOK k t v s w ∧ ¬ DupZone k t v s w ∧ ¬ w.oooWin > 0 ∧ t < w.minValid) ∧
    (appendable k t v s w = .error .ooo ↔
        ¬ InOrderOK k t v s w ∧ ¬ DupZone k t v s w ∧ ¬ w.oooWin > 0 ∧ t ≥ w.minValid) := by
  unfold appendable InOrderOK DupZone dupEqual
  rcases Int.lt_trichotomy t s.maxT with h | h | h
  · have h2 : ¬ t > s.maxT := by omega
    have h3 : ¬ t = s.maxT := by omega
    by_cases h1 : t ≥ w.minValid <;> by_cases h4 : w.oooWin > 0 <;>
    by_cases h5 : t ≥ w.headMaxt - w.oooWin <;> cases hh : s.hasHead <;>
    (have h1' : (t < w.minValid) = ¬ (t ≥ w.minValid) := by (apply propext; omega)) <;>
    simp [h1', h1, h2, h3, h4, h5] <;> omega
  · subst h
    by_cases h1 : s.maxT ≥ w.minValid <;> by_cases h4 : w.oooWin > 0 <;>
    by_cases h5 : s.maxT ≥ w.headMaxt - w.oooWin <;> cases hh : s.hasHead <;>
    by_cases h6 : s.lastKind = k <;> by_cases h7 : s.lastV = v <;>
    (have h1' : (s.maxT < w.minValid) = ¬ (s.maxT ≥ w.minValid) := by (apply propext; omega)) <;>
    simp [h1', h1, h4, h5, h6, h7] <;> omega
  · have h2 : t > s.maxT := by omega
    have h3 : ¬ t = s.maxT := by omega
    by_cases h1 : t ≥ w.minValid <;> by_cases h4 : w.oooWin > 0 <;>
    by_cases h5 : t ≥ w.headMaxt - w.oooWin <;> cases hh : s.hasHead <;>
    (have h1' : (t < w.minValid) = ¬ (t ≥ w.minValid) := by (apply propext; omega)) <;>
    simp [h1', h1, h2, h3, h4, h5] <;> omega
end Prom.C02
