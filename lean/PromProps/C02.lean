import PromModel.Tsdb.Appendable
import PromProofs.Admit
/-
  C02 — Append admission and commit apply the documented ordering rules.
  Property theorems about the transcribed mechanism `PromModel/Tsdb/Appendable.lean`.
-/
namespace Prom.C02
open Prom.Admit

/-- in-order admissible -/
def InOrderOK (k : Kind) (t : Int) (v : Nat) (s : View) (w : Window) : Prop :=
  t ≥ w.minValid ∧ (s.hasHead = false ∨ t > s.maxT ∨ (t = s.maxT ∧ s.lastKind = k ∧ s.lastV = v))

def DupZone (k : Kind) (t : Int) (v : Nat) (s : View) (w : Window) : Prop :=
  t ≥ w.minValid ∧ s.hasHead = true ∧ t = s.maxT ∧ ¬ (s.lastKind = k ∧ s.lastV = v)

theorem appendable_table (k : Kind) (t : Int) (v : Nat) (s : View) (w : Window) :
    (appendable k t v s w = .ok .inOrder ↔ InOrderOK k t v s w) ∧
    (appendable k t v s w = .ok .ooo ↔
        ¬ InOrderOK k t v s w ∧ ¬ DupZone k t v s w ∧ w.oooWin > 0 ∧ t ≥ w.headMaxt - w.oooWin) ∧
    (appendable k t v s w = .error .dup ↔ DupZone k t v s w) ∧
    (appendable k t v s w = .error .tooOld ↔
        ¬ InOrderOK k t v s w ∧ ¬ DupZone k t v s w ∧ w.oooWin > 0 ∧ t < w.headMaxt - w.oooWin) ∧
    (appendable k t v s w = .error .oob ↔
        ¬ InOrderOK k t v s w ∧ ¬ DupZone k t v s w ∧ ¬ w.oooWin > 0 ∧ t < w.minValid) ∧
    (appendable k t v s w = .error .ooo ↔
        ¬ InOrderOK k t v s w ∧ ¬ DupZone k t v s w ∧ ¬ w.oooWin > 0 ∧ t ≥ w.minValid) := by
  unfold appendable InOrderOK DupZone dupEqual
  rcases Int.lt_trichotomy t s.maxT with h | h | h
  · have h2 : ¬ t > s.maxT := by omega
    have h3 : ¬ t = s.maxT := by omega
    by_cases h1 : t ≥ w.minValid <;> by_cases h4 : w.oooWin > 0 <;>
    by_cases h5 : t ≥ w.headMaxt - w.oooWin <;> cases hh : s.hasHead <;>
    (have h1' : (t < w.minValid) = ¬ (t ≥ w.minValid) := by (apply propext; omega)) <;>
    simp [h1', h1, h2, h3, h4, h5] <;> omega
  · subst h
    by_cases h1 : s.maxT ≥ w.minValid <;> by_cases h4 : w.oooWin > 0 <;>
    by_cases h5 : s.maxT ≥ w.headMaxt - w.oooWin <;> cases hh : s.hasHead <;>
    by_cases h6 : s.lastKind = k <;> by_cases h7 : s.lastV = v <;>
    (have h1' : (s.maxT < w.minValid) = ¬ (s.maxT ≥ w.minValid) := by (apply propext; omega)) <;>
    simp [h1', h1, h4, h5, h6, h7] <;> omega
  · have h2 : t > s.maxT := by omega
    have h3 : ¬ t = s.maxT := by omega
    by_cases h1 : t ≥ w.minValid <;> by_cases h4 : w.oooWin > 0 <;>
    by_cases h5 : t ≥ w.headMaxt - w.oooWin <;> cases hh : s.hasHead <;>
    (have h1' : (t < w.minValid) = ¬ (t ≥ w.minValid) := by (apply propext; omega)) <;>
    simp [h1', h1, h2, h3, h4, h5] <;> omega
example : InOrderOK .f 100 1 ⟨true, 100, .f, 1⟩ ⟨90, 120, 30⟩ := by simp [InOrderOK]
example : DupZone .h 100 2 ⟨true, 100, .f, 2⟩ ⟨90, 120, 30⟩ := by simp [DupZone]

/-- `dup_noop`: re-appending the newest in-order sample bit-identically (same kind, same value bits /
    histogram identity) inside the appendable window is accepted as in-order at Append time and the
    commit leaves the series — in-order samples and OOO chunks — unchanged. -/
theorem dup_noop (w : Window) (cap : Nat) (s : Series) (x : Sample) (rest : List Sample)
    (hs : s.inorder = x :: rest) (hw : x.t ≥ w.minValid) :
    appendable x.kind x.t x.v s.view w = .ok .inOrder ∧ commitOne w cap s x = (s, none) := by
  have hv : s.view = ⟨true, x.t, x.kind, x.v⟩ := by simp [Series.view, hs]
  have h1 : appendable x.kind x.t x.v s.view w = .ok .inOrder := by
    rw [(appendable_table _ _ _ _ _).1, hv]
    exact ⟨hw, Or.inr (Or.inr ⟨rfl, rfl, rfl⟩)⟩
  refine ⟨h1, ?_⟩
  simp [commitOne, h1, Series.appendInOrder, hs]

example : commitOne ⟨90, 120, 30⟩ 32 { inorder := [⟨100, .f, 7⟩, ⟨95, .h, 1⟩] } ⟨100, .f, 7⟩ =
    ({ inorder := [⟨100, .f, 7⟩, ⟨95, .h, 1⟩] }, none) := by
  exact (dup_noop _ _ _ _ _ rfl (by decide)).2

/-- `ooo_insert_sorted_nodup`: for every insertion sequence, starting from the empty OOO chunk, the chunk
    stays strictly sorted by time (hence no duplicate timestamp), and it contains exactly the *first*
    sample offered for each timestamp (first writer wins). -/
theorem ooo_insert_sorted_nodup (xs : List Sample) :
    SortedStrict (insertAll [] xs) ∧
    ∀ y, y ∈ insertAll [] xs ↔ xs.find? (fun z => z.t == y.t) = some y := by
  obtain ⟨h1, h2⟩ := insertAll_spec [] xs trivial
  exact ⟨h1, fun y => by simpa using h2 y⟩

/-- a single `OOOChunk.Insert`: refused iff the timestamp is present; otherwise sorted insert -/
theorem ooo_insert_step (l : List Sample) (x : Sample) (hs : SortedStrict l) :
    (oooInsert l x = none ↔ ∃ y ∈ l, y.t = x.t) ∧
    ∀ l', oooInsert l x = some l' → SortedStrict l' ∧ ∀ y, y ∈ l' ↔ y = x ∨ y ∈ l := by
  refine ⟨⟨oooInsert_none, ?_⟩, fun l' h => ⟨(oooInsert_some hs h).1, (oooInsert_some hs h).2.1⟩⟩
  rintro ⟨y, hy, e⟩
  cases h : oooInsert l x with
  | none => rfl
  | some l' => exact absurd e ((oooInsert_some hs h).2.2 y hy)

/-- `commit_eq_sequential` (one sample kind; float staleness markers excluded, see the witness below):
    whatever batches the appender cut while the samples `xs` were appended, `Commit` applies them exactly
    as `xs.length` single-sample commits in append order (`CommitAcc.apply` = re-run `appendable` against
    the state left by the predecessors, then store in order / insert OOO / drop). -/
theorem commit_eq_sequential (K : Kind) (a0 : Appender) (h0 : a0.batches = [])
    (xs : List (String × Sample))
    (hK : ∀ p ∈ xs, p.2.kind = K ∧ (K = .f → isStale .f p.2.v = false))
    (w : Window) (cap : Nat) (acc : CommitAcc) :
    commitBatches w cap (pushAll a0 xs).batches acc = commitList w cap xs acc := by
  obtain ⟨f1, f2, f3⟩ := pushAll_flat a0 xs
  simp only [h0, List.flatMap_nil, List.nil_append] at f1 f2 f3
  have hall : ∀ K', xs.filter (fun p => p.2.kind = K') = if K' = K then xs else [] := by
    intro K'
    by_cases e : K' = K
    · subst e
      simp only [if_true]
      exact List.filter_eq_self.mpr (fun p hp => by simp [(hK p hp).1])
    · simp only [e, if_false]
      exact List.filter_eq_nil_iff.mpr (fun p hp => by
        have := (hK p hp).1
        simp [this]; exact fun e' => e e'.symm)
  rw [hall] at f1 f2 f3
  have hns : ∀ b ∈ (pushAll a0 xs).batches, ∀ p ∈ b.floats, isStale .f p.2.v = false := by
    intro b hb p hp
    have hmem : p ∈ (pushAll a0 xs).batches.flatMap (·.floats) := List.mem_flatMap.mpr ⟨b, hb, hp⟩
    rw [f1] at hmem
    by_cases e : Kind.f = K
    · simp only [e, if_true] at hmem
      exact (hK p hmem).2 e.symm
    · simp [e] at hmem
  rw [commitBatches_single _ _ _ _ hns]
  cases K with
  | f =>
    simp at f1 f2 f3
    rw [foldl_only w cap _ acc (·.floats), f1]
    intro b hb acc'
    simp [f2 b hb, f3 b hb, commitList]
  | h =>
    simp at f1 f2 f3
    rw [foldl_only w cap _ acc (·.hists), f2]
    intro b hb acc'
    simp [f1 b hb, f3 b hb, commitList]
  | fh =>
    simp at f1 f2 f3
    rw [foldl_only w cap _ acc (·.fhists), f3]
    intro b hb acc'
    simp [f1 b hb, f2 b hb, commitList]

/-- …and per series the result is the left fold of the one-sample commit over that series' samples in
    append order, independent of the other series. -/
theorem commit_eq_sequential_series (K : Kind) (a0 : Appender) (h0 : a0.batches = [])
    (xs : List (String × Sample))
    (hK : ∀ p ∈ xs, p.2.kind = K ∧ (K = .f → isStale .f p.2.v = false))
    (w : Window) (cap : Nat) (acc : CommitAcc) (n : String) :
    (commitBatches w cap (pushAll a0 xs).batches acc).store.get n =
      seqSeries w cap (acc.store.get n) (samplesFor n xs) := by
  rw [commit_eq_sequential K a0 h0 xs hK, commitList_get]

example : ∀ p ∈ [("a", (⟨10, .h, 1⟩ : Sample)), ("a", ⟨10, .h, 2⟩), ("b", ⟨5, .h, 4⟩)],
    p.2.kind = Kind.h ∧ (Kind.h = .f → isStale .f p.2.v = false) := by decide

end Prom.C02
