import PromModel.Tsdb.Appendable
import PromProofs.Admit
/-
  C02 — Append admission and commit apply the documented ordering rules.
  Property theorems about the transcribed mechanism `PromModel/Tsdb/Appendable.lean`.
-/
namespace Prom.C02
open Prom.Admit

/-- in-order admissible -/
def InOrderOK (k : Kind) (t : Int) (v : Nat) (s : View) (w : Window) : Prop :=
  t ≥ w.minValid ∧ (s.hasHead = false ∨ t > s.maxT ∨ (t = s.maxT ∧ s.lastKind = k ∧ s.lastV = v))

def DupZone (k : Kind) (t : Int) (v : Nat) (s : View) (w : Window) : Prop :=
  t ≥ w.minValid ∧ s.hasHead = true ∧ t = s.maxT ∧ ¬ (s.lastKind = k ∧ s.lastV = v)

theorem appendable_table (k : Kind) (t : Int) (v : Nat) (s : View) (w : Window) :
    (appendable k t v s w = .ok .inOrder ↔ InOrderOK k t v s w) ∧
    (appendable k t v s w = .ok .ooo ↔
        ¬ InOrderOK k t v s w ∧ ¬ DupZone k t v s w ∧ w.oooWin > 0 ∧ t ≥ w.headMaxt - w.oooWin) ∧
    (appendable k t v s w = .error .dup ↔ DupZone k t v s w) ∧
    (appendable k t v s w = .error .tooOld ↔
        ¬ InOrderOK k t v s w ∧ ¬ DupZone k t v s w ∧ w.oooWin > 0 ∧ t < w.headMaxt - w.oooWin) ∧
    (appendable k t v s w = .error .oob ↔
        ¬ InOrderOK k t v s w ∧ ¬ DupZone k t v s w ∧ ¬ w.oooWin > 0 ∧ t < w.minValid) ∧
    (appendable k t v s w = .error .ooo ↔
        ¬ InOrderOK k t v s w ∧ ¬ DupZone k t v s w ∧ ¬ w.oooWin > 0 ∧ t ≥ w.minValid) := by
  unfold appendable InOrderOK DupZone dupEqual
  rcases Int.lt_trichotomy t s.maxT with h | h | h
  · have h2 : ¬ t > s.maxT := by omega
    have h3 : ¬ t = s.maxT := by omega
    by_cases h1 : t ≥ w.minValid <;> by_cases h4 : w.oooWin > 0 <;>
    by_cases h5 : t ≥ w.headMaxt - w.oooWin <;> cases hh : s.hasHead <;>
    (have h1' : (t < w.minValid) = ¬ (t ≥ w.minValid) := by (apply propext; omega)) <;>
    simp [h1', h1, h2, h3, h4, h5] <;> omega
  · subst h
    by_cases h1 : s.maxT ≥ w.minValid <;> by_cases h4 : w.oooWin > 0 <;>
    by_cases h5 : s.maxT ≥ w.headMaxt - w.oooWin <;> cases hh : s.hasHead <;>
    by_cases h6 : s.lastKind = k <;> by_cases h7 : s.lastV = v <;>
    (have h1' : (s.maxT < w.minValid) = ¬ (s.maxT ≥ w.minValid) := by (apply propext; omega)) <;>
    simp [h1', h1, h4, h5, h6, h7] <;> omega
  · have h2 : t > s.maxT := by omega
    have h3 : ¬ t = s.maxT := by omega
    by_cases h1 : t ≥ w.minValid <;> by_cases h4 : w.oooWin > 0 <;>
    by_cases h5 : t ≥ w.headMaxt - w.oooWin <;> cases hh : s.hasHead <;>
    (have h1' : (t < w.minValid) = ¬ (t ≥ w.minValid) := by (apply propext; omega)) <;>
    simp [h1', h1, h2, h3, h4, h5] <;> omega
example : InOrderOK .f 100 1 ⟨true, 100, .f, 1⟩ ⟨90, 120, 30⟩ := by simp [InOrderOK]
example : DupZone .h 100 2 ⟨true, 100, .f, 2⟩ ⟨90, 120, 30⟩ := by simp [DupZone]

/-- `dup_noop`: re-appending the newest in-order sample bit-identically (same kind, same value bits /
    histogram identity) inside the appendable window is accepted as in-order at Append time and the
    commit leaves the series — in-order samples and OOO chunks — unchanged. -/
theorem dup_noop (w : Window) (cap : Nat) (s : Series) (x : Sample) (rest : List Sample)
    (hs : s.inorder = x :: rest) (hw : x.t ≥ w.minValid) :
    appendable x.kind x.t x.v s.view w = .ok .inOrder ∧ commitOne w cap s x = (s, none) := by
  have hv : s.view = ⟨true, x.t, x.kind, x.v⟩ := by simp [Series.view, hs]
  have h1 : appendable x.kind x.t x.v s.view w = .ok .inOrder := by
    rw [(appendable_table _ _ _ _ _).1, hv]
    exact ⟨hw, Or.inr (Or.inr ⟨rfl, rfl, rfl⟩)⟩
  refine ⟨h1, ?_⟩
  simp [commitOne, h1, Series.appendInOrder, hs]

example : commitOne ⟨90, 120, 30⟩ 32 { inorder := [⟨100, .f, 7⟩, ⟨95, .h, 1⟩] } ⟨100, .f, 7⟩ =
    ({ inorder := [⟨100, .f, 7⟩, ⟨95, .h, 1⟩] }, none) := by
  exact (dup_noop _ _ _ _ _ rfl (by decide)).2

/-- `ooo_insert_sorted_nodup`: for every insertion sequence, starting from the empty OOO chunk, the chunk
    stays strictly sorted by time (hence no duplicate timestamp), and it contains exactly the *first*
    sample offered for each timestamp (first writer wins). -/
theorem ooo_insert_sorted_nodup (xs : List Sample) :
    SortedStrict (insertAll [] xs) ∧
    ∀ y, y ∈ insertAll [] xs ↔ xs.find? (fun z => z.t == y.t) = some y := by
  obtain ⟨h1, h2⟩ := insertAll_spec [] xs trivial
  exact ⟨h1, fun y => by simpa using h2 y⟩

/-- a single `OOOChunk.Insert`: refused iff the timestamp is present; otherwise sorted insert -/
theorem ooo_insert_step (l : List Sample) (x : Sample) (hs : SortedStrict l) :
    (oooInsert l x = none ↔ ∃ y ∈ l, y.t = x.t) ∧
    ∀ l', oooInsert l x = some l' → SortedStrict l' ∧ ∀ y, y ∈ l' ↔ y = x ∨ y ∈ l := by
  refine ⟨⟨oooInsert_none, ?_⟩, fun l' h => ⟨(oooInsert_some hs h).1, (oooInsert_some hs h).2.1⟩⟩
  rintro ⟨y, hy, e⟩
  cases h : oooInsert l x with
  | none => rfl
  | some l' => exact absurd e ((oooInsert_some hs h).2.2 y hy)

/-- `commit_eq_sequential` (one sample kind; float staleness markers excluded, see the witness below):
    whatever batches the appender cut while the samples `xs` were appended, `Commit` applies them exactly
    as `xs.length` single-sample commits in append order (`CommitAcc.apply` = re-run `appendable` against
    the state left by the predecessors, then store in order / insert OOO / drop). -/
theorem commit_eq_sequential (K : Kind) (a0 : Appender) (h0 : a0.batches = [])
    (xs : List (String × Sample))
    (hK : ∀ p ∈ xs, p.2.kind = K ∧ (K = .f → isStale .f p.2.v = false))
    (w : Window) (cap : Nat) (acc : CommitAcc) :
    commitBatches w cap (pushAll a0 xs).batches acc = commitList w cap xs acc := by
  obtain ⟨f1, f2, f3⟩ := pushAll_flat a0 xs
  simp only [h0, List.flatMap_nil, List.nil_append] at f1 f2 f3
  have hall : ∀ K', xs.filter (fun p => p.2.kind = K') = if K' = K then xs else [] := by
    intro K'
    by_cases e : K' = K
    · subst e
      simp only [if_true]
      exact List.filter_eq_self.mpr (fun p hp => by simp [(hK p hp).1])
    · simp only [e, if_false]
      exact List.filter_eq_nil_iff.mpr (fun p hp => by
        have := (hK p hp).1
        simp [this]; exact fun e' => e e'.symm)
  rw [hall] at f1 f2 f3
  have hns : ∀ b ∈ (pushAll a0 xs).batches, ∀ p ∈ b.floats, isStale .f p.2.v = false := by
    intro b hb p hp
    have hmem : p ∈ (pushAll a0 xs).batches.flatMap (·.floats) := List.mem_flatMap.mpr ⟨b, hb, hp⟩
    rw [f1] at hmem
    by_cases e : Kind.f = K
    · simp only [e, if_true] at hmem
      exact (hK p hmem).2 e.symm
    · simp [e] at hmem
  rw [commitBatches_single _ _ _ _ hns]
  cases K with
  | f =>
    simp at f1 f2 f3
    rw [foldl_only w cap _ acc (·.floats), f1]
    intro b hb acc'
    simp [f2 b hb, f3 b hb, commitList]
  | h =>
    simp at f1 f2 f3
    rw [foldl_only w cap _ acc (·.hists), f2]
    intro b hb acc'
    simp [f1 b hb, f3 b hb, commitList]
  | fh =>
    simp at f1 f2 f3
    rw [foldl_only w cap _ acc (·.fhists), f3]
    intro b hb acc'
    simp [f1 b hb, f2 b hb, commitList]

/-- …and per series the result is the left fold of the one-sample commit over that series' samples in
    append order, independent of the other series. -/
theorem commit_eq_sequential_series (K : Kind) (a0 : Appender) (h0 : a0.batches = [])
    (xs : List (String × Sample))
    (hK : ∀ p ∈ xs, p.2.kind = K ∧ (K = .f → isStale .f p.2.v = false))
    (w : Window) (cap : Nat) (acc : CommitAcc) (n : String) :
    (commitBatches w cap (pushAll a0 xs).batches acc).store.get n =
      seqSeries w cap (acc.store.get n) (samplesFor n xs) := by
  rw [commit_eq_sequential K a0 h0 xs hK, commitList_get]

example : ∀ p ∈ [("a", (⟨10, .h, 1⟩ : Sample)), ("a", ⟨10, .h, 2⟩), ("b", ⟨5, .h, 4⟩)],
    p.2.kind = Kind.h ∧ (Kind.h = .f → isStale .f p.2.v = false) := by decide

/-! ### rejected / rolled-back samples are never stored -/

/-- `rejected_never_stored` (1): an `Append*` call that returns an error leaves the appender — in
    particular the batches `Commit` will read — exactly as it was, and the head's series hold the same
    samples (at most an empty series was created). -/
theorem rejected_never_stored (a : Appender) (st : Store) (n : String) (x : Sample)
    (h : (a.append st n x).2.2 ≠ "ok") :
    (a.append st n x).1 = a ∧ ∀ m, ((a.append st n x).2.1.get m).all = (st.get m).all :=
  ⟨append_rejected a st n x h, fun m => append_store_all a st n x m⟩

/-- `rejected_never_stored` (2): whatever a series holds after `Commit` was either there before or was
    handed to `Commit` in a batch (i.e. pushed by an accepted append), possibly as the histogram
    staleness marker a float staleness marker is converted into. -/
theorem commit_stores_only_offered (w : Window) (cap : Nat) (bs : List Batch) (acc : CommitAcc)
    (n : String) (y : Sample) (hy : y ∈ ((commitBatches w cap bs acc).store.get n).all) :
    (∃ b ∈ bs, b.offers n y) ∨ y ∈ (acc.store.get n).all :=
  commitBatches_mem w cap bs acc n y hy

/-- …and the batches contain exactly the pushed samples. -/
theorem batches_hold_only_pushed (a0 : Appender) (h0 : a0.batches = []) (xs : List (String × Sample))
    (b : Batch) (hb : b ∈ (pushAll a0 xs).batches) (p : String × Sample)
    (hp : p ∈ b.floats ∨ p ∈ b.hists ∨ p ∈ b.fhists) : p ∈ xs := by
  obtain ⟨f1, f2, f3⟩ := pushAll_flat a0 xs
  simp only [h0, List.flatMap_nil, List.nil_append] at f1 f2 f3
  rcases hp with hp | hp | hp
  · have : p ∈ (pushAll a0 xs).batches.flatMap (·.floats) := List.mem_flatMap.mpr ⟨b, hb, hp⟩
    rw [f1] at this; exact (List.mem_filter.mp this).1
  · have : p ∈ (pushAll a0 xs).batches.flatMap (·.hists) := List.mem_flatMap.mpr ⟨b, hb, hp⟩
    rw [f2] at this; exact (List.mem_filter.mp this).1
  · have : p ∈ (pushAll a0 xs).batches.flatMap (·.fhists) := List.mem_flatMap.mpr ⟨b, hb, hp⟩
    rw [f3] at this; exact (List.mem_filter.mp this).1

/-- `rolledback_never_stored` / "only commit stores": on the op-level machine no operation other than a
    `commit` (of any of the appender slots) — appends (accepted or rejected), `rollback`, option changes,
    appender creation, queries, start-up truncation — changes the samples held by any series. -/
theorem only_commit_stores (s : State) (hc : s.cfg = true) (tk : List String)
    (hne : tk ≠ ["commit"] ∧ tk ≠ ["@1", "commit"] ∧ tk ≠ ["@2", "commit"])
    (m : String) : ((stepT s tk).1.head.store.get m).all = (s.head.store.get m).all :=
  only_commit_stores_aux s hc tk hne m

theorem rolledback_never_stored (s : State) (hc : s.cfg = true) :
    (stepT s ["rollback"]).1.head = s.head ∧ (stepT s ["rollback"]).1.app = none := by
  have e : stepT s ["rollback"] = stepT0 s ["rollback"] := by simp [stepT]
  rw [e]
  unfold stepT0
  simp only [hc]
  cases h : s.app <;> simp [h]

example : ({ cfg := true } : State).cfg = true := rfl

/-! ### overlapping appenders: admission and commit read the appender's own window snapshot

Up to three appenders are open on one head (`State.app`, `app1`, `app2`; ops `@1 …`, `@2 …`).  The window
(`minValidTime`, `headMaxt`, `oooTimeWindow`) is copied into the appender when the real head appender is
created — `Head.Appender()` on an initialised head, the first `Append*` of an `initAppender` — and neither
`Append*` nor `Commit` looks at the live head times afterwards. -/

/-- `Head.appender()` on an initialised head: live at once, window = the head's window now. -/
theorem snapshot_at_creation (h : Head) (v2 : Bool) (hi : h.initialized = true) :
    (h.newAppender v2).live = true ∧ (h.newAppender v2).w = h.window ∧ (h.newAppender v2).batches = [] := by
  simp [Head.newAppender, hi]

/-- `initAppender`: nothing is captured at `Head.Appender()`; the first append initialises the head times
    if nobody did so before (`initTime` is a compare-and-swap) and snapshots the head as it is *then*. -/
theorem snapshot_lazy_at_first_append (h : Head) (v2 : Bool) (t : Int) (hi : h.initialized = false) :
    (h.newAppender v2).live = false ∧
    ∀ h' : Head, (materialise h' (h.newAppender v2) t).2.live = true ∧
      (materialise h' (h.newAppender v2) t).2.w = (materialise h' (h.newAppender v2) t).1.window ∧
      (h'.initialized = true → (materialise h' (h.newAppender v2) t).1 = h') := by
  refine ⟨by simp [Head.newAppender, hi], fun h' => ?_⟩
  simp only [Head.newAppender, hi, materialise]
  by_cases c : h'.initialized = true <;> simp [c]

/-- a live appender never refreshes its snapshot (and does not touch the head times) -/
theorem snapshot_fixed_once_live (h : Head) (a : Appender) (t : Int) (hl : a.live = true) :
    materialise h a t = (h, a) := by
  simp [materialise, hl]

/-- An op addressed to another slot leaves this slot's appender — snapshot, option, batches — as it is. -/
theorem other_slot_op_keeps_appender (s : State) (rest : List String) :
    (stepT s ("@1" :: rest)).1.app = s.app ∧ (stepT s ("@2" :: rest)).1.app = s.app := by
  constructor
  · show (if slotOp rest then _ else _ : State × String).1.app = s.app
    split
    · exact (stepT0_other_slots s.swap1 rest).1
    · rfl
  · show (if slotOp rest then _ else _ : State × String).1.app = s.app
    split
    · exact (stepT0_other_slots s.swap2 rest).2
    · rfl

/-- the ops of a history that are addressed to the other appender slots -/
def OtherSlotOps (ops : List (List String)) : Prop :=
  ∀ tk ∈ ops, ∃ rest, tk = "@1" :: rest ∨ tk = "@2" :: rest

theorem interleaving_keeps_appender (s : State) (ops : List (List String)) (ho : OtherSlotOps ops) :
    (runT s ops).app = s.app := by
  induction ops generalizing s with
  | nil => rfl
  | cons tk rest ih =>
    have h1 : (stepT s tk).1.app = s.app := by
      obtain ⟨r, hr | hr⟩ := ho tk List.mem_cons_self
      · rw [hr]; exact (other_slot_op_keeps_appender s r).1
      · rw [hr]; exact (other_slot_op_keeps_appender s r).2
    have h2 := ih (stepT s tk).1 (fun tk' h' => ho tk' (List.mem_cons_of_mem _ h'))
    simpa [runT, h1] using h2

/-- `Append*` on a live appender: answer, new batches and the (possibly created, still empty) series are a
    function of the appender (its snapshot), the series store and the sample — the head's live
    `maxTime` / `minValidTime` are not read and not written. -/
theorem append_reads_snapshot (s : State) (hc : s.cfg = true) (a : Appender) (ha : s.app = some a)
    (hl : a.live = true) (k n t v : String) (x : Sample) (hk : k = "f" ∨ k = "h" ∨ k = "fh")
    (hx : parseSample? k t v = some x) :
    stepT s [k, n, t, v] =
      ({ s with head := { s.head with store := (a.append s.head.store n x).2.1 },
                app := some (a.append s.head.store n x).1 }, (a.append s.head.store n x).2.2) := by
  have e : stepT s [k, n, t, v] = stepT0 s [k, n, t, v] := by
    rcases hk with hk | hk | hk <;> subst hk <;> simp [stepT]
  rw [e]
  have hcfg : k ≠ "cfg" := by rcases hk with hk | hk | hk <;> subst hk <;> decide
  have hk' : ¬ (k ≠ "f" ∧ k ≠ "h" ∧ k ≠ "fh") := by
    rcases hk with hk | hk | hk <;> subst hk <;> decide
  unfold stepT0
  split
  · rename_i w cr cap heq
    simp at heq
    exact absurd heq.1 hcfg
  · simp only [hc, Bool.not_true, Bool.false_eq_true, if_false]
    split
    all_goals (try (rename_i heq; simp at heq))
    · exact absurd heq hk'
    · simp [hx, ha, materialise, hl]

/-- `Commit` on a live appender: the stored samples are the batches re-checked with **the appender's
    snapshot `a.w`** against the live series; the head's live times only receive the result
    (`updateMinMaxTime`). -/
theorem commit_reads_snapshot (s : State) (hc : s.cfg = true) (a : Appender) (ha : s.app = some a)
    (hl : a.live = true) :
    (stepT s ["commit"]).1.head.store =
        (commitBatches a.w s.head.capMax a.batches { store := s.head.store }).store ∧
    (stepT s ["commit"]).1.head.maxTime =
        max s.head.maxTime (commitBatches a.w s.head.capMax a.batches { store := s.head.store }).inOrderMaxt ∧
    (stepT s ["commit"]).1.app = none := by
  have e : stepT s ["commit"] = stepT0 s ["commit"] := by simp [stepT]
  rw [e]
  unfold stepT0
  simp [hc, ha, Head.commit, hl]

/-- **Snapshot theorem for overlapping appenders.**  Let appender `a` be open and live in slot 0, and let
    any history of ops addressed to the other slots follow (appender creation, appends to the same or other
    series, commits that move the head's max time and the series' newest samples, rollbacks).  Then the
    commit of slot 0 stores exactly `commitBatches` of `a`'s batches under `a`'s **original** window
    `a.w` against the series as they are now: whatever the head's live `maxTime` / `minValidTime` have
    become meanwhile does not enter the decision. -/
theorem overlapping_commit_uses_snapshot (s : State) (hc : s.cfg = true) (a : Appender) (ha : s.app = some a)
    (hl : a.live = true) (ops : List (List String)) (ho : OtherSlotOps ops) :
    (stepT (runT s ops) ["commit"]).1.head.store =
      (commitBatches a.w (runT s ops).head.capMax a.batches { store := (runT s ops).head.store }).store :=
  (commit_reads_snapshot (runT s ops) (runT_cfg s hc ops) a
    (by rw [interleaving_keeps_appender s ops ho]; exact ha) hl).1

/-- …and the decision of `Head.commit` is literally independent of the head times. -/
theorem commit_ignores_live_head_times (h : Head) (a : Appender) (mt mv : Int) :
    ({ h with maxTime := mt, minValidTime := mv }.commit a).store = (h.commit a).store := by
  unfold Head.commit
  split <;> rfl

example : OtherSlotOps [["@1", "app", "v2"], ["@1", "f", "b", "2000", "3ff0000000000000"], ["@1", "commit"]] := by
  intro tk h
  simp at h
  rcases h with h | h | h <;> exact ⟨_, Or.inl h⟩

/-! #### the snapshot matters: the scenario of an appender overtaken by another one -/

/-- OOO window 600 000, series `a` holds a float at 1 000 000 (= head max time). -/
def hOv0 : Head :=
  { oooWin := 600000, chunkRange := 7200000, initialized := true, maxTime := 1000000,
    store := [("a", { inorder := [⟨1000000, .f, 0x3ff0000000000000⟩] })] }
/-- appender X is created … -/
def xOv : Appender := hOv0.newAppender false
/-- … another appender commits series `b` at 2 000 000 … -/
def hOv1 : Head :=
  let y := hOv0.newAppender true
  let r := y.append hOv0.store "b" ⟨2000000, .f, 0x3ff0000000000000⟩
  { hOv0 with store := r.2.1 }.commit r.1
/-- … then X appends `a` at 900 000. -/
def xOvAppend : Appender × Store × String := xOv.append hOv1.store "a" ⟨900000, .f, 0x3ff0000000000000⟩

/-- the hypotheses of `append_reads_snapshot` / `commit_reads_snapshot` / `overlapping_commit_uses_snapshot`
    hold in that history: X open and live in slot 0 after the other appender's commit -/
example : ({ cfg := true, head := hOv1, app := some xOv } : State).cfg = true ∧
    ({ cfg := true, head := hOv1, app := some xOv } : State).app = some xOv ∧ xOv.live = true := ⟨rfl, rfl, by decide⟩

/-- The head's max time has moved to 2 000 000, X's snapshot still says 1 000 000; the sample is accepted
    (out of order, inside X's window) and X's commit stores it out of order.  Re-checking with the *live*
    window instead (which is what the seeded change C02-a does) would drop it silently. -/
theorem snapshot_vs_live_window_witness :
    hOv1.maxTime = 2000000 ∧ xOv.w = ⟨-2600000, 1000000, 600000⟩ ∧ hOv1.window = ⟨-1600000, 2000000, 600000⟩ ∧
    xOvAppend.2.2 = "ok" ∧
    (({ hOv1 with store := xOvAppend.2.1 }.commit xOvAppend.1).store.get "a").oooAll
      = [⟨900000, .f, 0x3ff0000000000000⟩] ∧
    (({ hOv1 with store := xOvAppend.2.1 }.commit { xOvAppend.1 with w := hOv1.window }).store.get "a").oooAll
      = [] := by decide

/-! ### the full statement across kinds, and why it fails (finding C02-F1) -/

/-- the append-order reading of a transaction on one series *with* staleness markers: a float staleness
    marker takes the histogram kind of the series' newest in-order sample at its turn -/
def seqSeriesConv (w : Window) (cap : Nat) (s : Series) : List Sample → Series
  | [] => s
  | x :: xs =>
    let x' := if x.kind = .f ∧ isStale .f x.v = true ∧ s.view.hasHead = true then
        (match s.view.lastKind with | .h => lateConv x .h | .fh => lateConv x .fh | .f => x) else x
    seqSeriesConv w cap (commitOne w cap s x').1 xs

/-- The full "commit = sequential in append order" statement, all kinds and staleness markers included.
    It is FALSE for the code as it stands (finding C02-F1), see the witness. -/
def CommitEqSequentialFull : Prop :=
  ∀ (a0 : Appender), a0.batches = [] → a0.types = [] →
  ∀ (xs : List (String × Sample)) (w : Window) (cap : Nat) (acc : CommitAcc) (n : String),
    ((commitBatches w cap (pushAll a0 xs).batches acc).store.get n).inorder =
      (seqSeriesConv w cap (acc.store.get n) (samplesFor n xs)).inorder

def bitsOne : Nat := 0x3ff0000000000000
def w0 : Window := ⟨0, 1, 0⟩
def acc0 : CommitAcc := { store := [("s", { inorder := [⟨1, .h, 1⟩] })] }
def xs0 : List (String × Sample) := [("s", ⟨2, .f, staleBits⟩), ("s", ⟨3, .f, bitsOne⟩)]

theorem stale_marker_deferred_witness :
    ((commitBatches w0 32 (pushAll { v2 := false } xs0).batches acc0).store.get "s").inorder
      = [⟨3, .f, bitsOne⟩, ⟨1, .h, 1⟩] ∧
    (seqSeriesConv w0 32 (acc0.store.get "s") (samplesFor "s" xs0)).inorder
      = [⟨3, .f, bitsOne⟩, ⟨2, .h, 0⟩, ⟨1, .h, 1⟩] := by decide

theorem commit_eq_sequential_full_witness : ¬ CommitEqSequentialFull := by
  intro h
  have := h { v2 := false } rfl rfl xs0 w0 32 acc0 "s"
  rw [stale_marker_deferred_witness.1, stale_marker_deferred_witness.2] at this
  exact absurd this (by decide)

/-! ### the reject-out-of-order option (findings C02-F2 and C02-F3, and their repairs)

The model carries one switch per defect (`repoFixedC02F2`, `repoFixedC02F3` in
`PromModel/Tsdb/Appendable.lean`; `false` = the code as found).  The theorems below are stated about the
switch-parameterised functions, so both the counter-examples (unrepaired code) and the positive statements
(repaired code) stay proved whichever variant /repo currently is. -/

/-- The documented contract of `AppendOptions.DiscardOutOfOrder` / `AOptions.RejectOutOfOrder` at the
    admission decision: while the option is set no sample is accepted as out of order. -/
def RejectHonoured (fixF2 : Bool) : Prop :=
  ∀ (a : Appender) (view : View) (x : Sample), a.discard = true → admitDecisionWith fixF2 a view x ≠ .ok .ooo

/-- Repaired code (`fixes/C02-F2.patch`): the option is honoured for every sample kind, v1 and v2. -/
theorem reject_honoured_fixed : RejectHonoured true := by
  intro a view x hd
  unfold admitDecisionWith
  split
  · simp
  · simp only [hd]
    cases hr : appendable x.kind x.t x.v view a.w with
    | error e => cases e <;> cases a.v2 <;> simp [isOOOFlag]
    | ok ad => cases ad <;> cases a.v2 <;> simp [isOOOFlag]

/-- What the code as found does guarantee: floats on v1, everything on v2. -/
theorem reject_honoured_unfixed_partial (a : Appender) (view : View) (x : Sample) (hd : a.discard = true)
    (hk : a.v2 = true ∨ x.kind = .f) : admitDecisionWith false a view x ≠ .ok .ooo := by
  unfold admitDecisionWith
  split
  · simp
  · simp only [hd]
    cases hr : appendable x.kind x.t x.v view a.w with
    | error e => cases e <;> cases hv : a.v2 <;> simp [isOOOFlag]
    | ok ad =>
      cases ad <;> cases hv : a.v2 <;> simp [isOOOFlag]
      rcases hk with hk | hk
      · simp [hv] at hk
      · exact hk

def aDiscardV1 : Appender := { v2 := false, live := true, w := ⟨90, 100, 50⟩, discard := true }
example : aDiscardV1.discard = true ∧ (aDiscardV1.v2 = true ∨ (⟨60, .f, bitsOne⟩ : Sample).kind = .f) := by decide

/-- Finding C02-F2 (the code as found): a v1 appender with `DiscardOutOfOrder` set accepts an out-of-order
    histogram (series newest sample at t=100, window (90, 100, ooo 50), histogram at t=60) — and the
    repaired code rejects it with "out of order". -/
theorem reject_ignored_v1_histogram_witness :
    admitDecisionWith false aDiscardV1 ⟨true, 100, .h, 1⟩ ⟨60, .h, 2⟩ = .ok .ooo ∧
    admitDecisionWith true aDiscardV1 ⟨true, 100, .h, 1⟩ ⟨60, .h, 2⟩ = .error .ooo ∧
    ¬ RejectHonoured false := by
  refine ⟨rfl, rfl, fun h => ?_⟩
  exact h aDiscardV1 ⟨true, 100, .h, 1⟩ ⟨60, .h, 2⟩ rfl rfl

/-- The repair changes nothing else: the two variants differ only where the unrepaired v1 code accepts a
    (float) histogram out of order although the option is set, and there the repaired code answers
    "out of order". -/
theorem fix_F2_only_rejects_ooo_histograms (a : Appender) (view : View) (x : Sample) :
    admitDecisionWith true a view x = admitDecisionWith false a view x ∨
    (a.v2 = false ∧ x.kind ≠ .f ∧ a.discard = true ∧
      admitDecisionWith false a view x = .ok .ooo ∧ admitDecisionWith true a view x = .error .ooo) := by
  unfold admitDecisionWith
  split
  · exact Or.inl rfl
  · cases hr : appendable x.kind x.t x.v view a.w with
    | error e => left; cases a.v2 <;> simp
    | ok ad =>
      cases ad
      · left; cases a.v2 <;> simp
      · cases hv : a.v2
        · cases hd : a.discard
          · left; simp
          · by_cases hk : x.kind = .f
            · left; simp [hk]
            · right; simp [hk]
        · left; simp

/-- Repaired code (`fixes/C02-F3.patch`): whatever was passed to `SetOptions` — before or after the first
    append — is what the appender created by `initAppender` (or the already live one) decides with. -/
theorem options_reach_inner_appender_fixed (h : Head) (a : Appender) (on : Bool) (t : Int) :
    (materialise h (a.setOptions true on) t).2.discard = on := by
  unfold materialise Appender.setOptions
  simp only [Bool.not_true, Bool.false_eq_true, false_and, if_false]
  split <;> rfl

/-- On every variant a live v1 appender and every v2 appender take the option. -/
theorem options_taken_when_live (fixF3 : Bool) (a : Appender) (on : Bool) (hl : a.v2 = true ∨ a.live = true) :
    (a.setOptions fixF3 on).discard = on := by
  unfold Appender.setOptions
  rcases hl with hl | hl <;> simp [hl]

/-- First transaction on a fresh head with OOO window 100 and chunk range 20: v1 appender, option set
    *before* the first append, then floats at t=100 and t=50 for one series.  Answer to the second append. -/
def firstTxSecondAnswer (fixF2 fixF3 : Bool) : String :=
  let h0 : Head := { oooWin := 100, chunkRange := 20 }
  let a0 := (h0.newAppender false).setOptions fixF3 true
  let (h1, a1) := materialise h0 a0 100
  let (a2, st, _) := a1.appendWith fixF2 h1.store "s" ⟨100, .f, bitsOne⟩
  (a2.appendWith fixF2 st "s" ⟨50, .f, bitsOne⟩).2.2

/-- Finding C02-F3 (the code as found): the option set before the first append of a fresh head is lost
    — the lazily created appender still has `discard = false` and the out-of-order float is accepted;
    the repaired `initAppender` rejects it.  (Independent of the C02-F2 switch: the sample is a float.) -/
theorem options_lost_initappender_witness :
    (materialise {} (({ v2 := false } : Appender).setOptions false true) 100).2.discard = false ∧
    (∀ f2, firstTxSecondAnswer f2 false = "ok") ∧ (∀ f2, firstTxSecondAnswer f2 true = "ooo") := by
  refine ⟨by decide, ?_, ?_⟩ <;> intro f2 <;> cases f2 <;> decide

end Prom.C02
