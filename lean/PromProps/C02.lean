import PromModel.Tsdb.Appendable
import PromProofs.Admit
/-
  C02 — Append admission and commit apply the documented ordering rules.
  Property theorems about the transcribed mechanism `PromModel/Tsdb/Appendable.lean`.
-/
namespace Prom.C02
open Prom.Admit

/-- in-order admissible -/
def InOrderOK (k : Kind) (t : Int) (v : Nat) (s : View) (w : Window) : Prop :=
  t ≥ w.minValid ∧ (s.hasHead = false ∨ t > s.maxT ∨ (t = s.maxT ∧ s.lastKind = k ∧ s.lastV = v))

def DupZone (k : Kind) (t : Int) (v : Nat) (s : View) (w : Window) : Prop :=
  t ≥ w.minValid ∧ s.hasHead = true ∧ t = s.maxT ∧ ¬ (s.lastKind = k ∧ s.lastV = v)

theorem appendable_table (k : Kind) (t : Int) (v : Nat) (s : View) (w : Window) :
    (appendable k t v s w = .ok .inOrder ↔ InOrderOK k t v s w) ∧
    (appendable k t v s w = .ok .ooo ↔
        ¬ InOrderOK k t v s w ∧ ¬ DupZone k t v s w ∧ w.oooWin > 0 ∧ t ≥ w.headMaxt - w.oooWin) ∧
    (appendable k t v s w = .error .dup ↔ DupZone k t v s w) ∧
    (appendable k t v s w = .error .tooOld ↔
        ¬ InOrderOK k t v s w ∧ ¬ DupZone k t v s w ∧ w.oooWin > 0 ∧ t < w.headMaxt - w.oooWin) ∧
    (appendable k t v s w = .error .oob ↔
        ¬ InOrderOK k t v s w ∧ ¬ DupZone k t v s w ∧ ¬ w.oooWin > 0 ∧ t < w.minValid) ∧
    (appendable k t v s w = .error .ooo ↔
        ¬ InOrderOK k t v s w ∧ ¬ DupZone k t v s w ∧ ¬ w.oooWin > 0 ∧ t ≥ w.minValid) := by
  unfold appendable InOrderOK DupZone dupEqual
  rcases Int.lt_trichotomy t s.maxT with h | h | h
  · have h2 : ¬ t > s.maxT := by omega
    have h3 : ¬ t = s.maxT := by omega
    by_cases h1 : t ≥ w.minValid <;> by_cases h4 : w.oooWin > 0 <;>
    by_cases h5 : t ≥ w.headMaxt - w.oooWin <;> cases hh : s.hasHead <;>
    (have h1' : (t < w.minValid) = ¬ (t ≥ w.minValid) := by (apply propext; omega)) <;>
    simp [h1', h1, h2, h3, h4, h5] <;> omega
  · subst h
    by_cases h1 : s.maxT ≥ w.minValid <;> by_cases h4 : w.oooWin > 0 <;>
    by_cases h5 : s.maxT ≥ w.headMaxt - w.oooWin <;> cases hh : s.hasHead <;>
    by_cases h6 : s.lastKind = k <;> by_cases h7 : s.lastV = v <;>
    (have h1' : (s.maxT < w.minValid) = ¬ (s.maxT ≥ w.minValid) := by (apply propext; omega)) <;>
    simp [h1', h1, h4, h5, h6, h7] <;> omega
  · have h2 : t > s.maxT := by omega
    have h3 : ¬ t = s.maxT := by omega
    by_cases h1 : t ≥ w.minValid <;> by_cases h4 : w.oooWin > 0 <;>
    by_cases h5 : t ≥ w.headMaxt - w.oooWin <;> cases hh : s.hasHead <;>
    (have h1' : (t < w.minValid) = ¬ (t ≥ w.minValid) := by (apply propext; omega)) <;>
    simp [h1', h1, h2, h3, h4, h5] <;> omega
example : InOrderOK .f 100 1 ⟨true, 100, .f, 1⟩ ⟨90, 120, 30⟩ := by simp [InOrderOK]
example : DupZone .h 100 2 ⟨true, 100, .f, 2⟩ ⟨90, 120, 30⟩ := by simp [DupZone]

/-- `dup_noop`: re-appending the newest in-order sample bit-identically (same kind, same value bits /
    histogram identity) inside the appendable window is accepted as in-order at Append time and the
    commit leaves the series — in-order samples and OOO chunks — unchanged. -/
theorem dup_noop (w : Window) (cap : Nat) (s : Series) (x : Sample) (rest : List Sample)
    (hs : s.inorder = x :: rest) (hw : x.t ≥ w.minValid) :
    appendable x.kind x.t x.v s.view w = .ok .inOrder ∧ commitOne w cap s x = (s, none) := by
  have hv : s.view = ⟨true, x.t, x.kind, x.v⟩ := by simp [Series.view, hs]
  have h1 : appendable x.kind x.t x.v s.view w = .ok .inOrder := by
    rw [(appendable_table _ _ _ _ _).1, hv]
    exact ⟨hw, Or.inr (Or.inr ⟨rfl, rfl, rfl⟩)⟩
  refine ⟨h1, ?_⟩
  simp [commitOne, h1, Series.appendInOrder, hs]

example : commitOne ⟨90, 120, 30⟩ 32 { inorder := [⟨100, .f, 7⟩, ⟨95, .h, 1⟩] } ⟨100, .f, 7⟩ =
    ({ inorder := [⟨100, .f, 7⟩, ⟨95, .h, 1⟩] }, none) := by
  exact (dup_noop _ _ _ _ _ rfl (by decide)).2

/-- `ooo_insert_sorted_nodup`: for every insertion sequence, starting from the empty OOO chunk, the chunk
    stays strictly sorted by time (hence no duplicate timestamp), and it contains exactly the *first*
    sample offered for each timestamp (first writer wins). -/
theorem ooo_insert_sorted_nodup (xs : List Sample) :
    SortedStrict (insertAll [] xs) ∧
    ∀ y, y ∈ insertAll [] xs ↔ xs.find? (fun z => z.t == y.t) = some y := by
  obtain ⟨h1, h2⟩ := insertAll_spec [] xs trivial
  exact ⟨h1, fun y => by simpa using h2 y⟩

/-- a single `OOOChunk.Insert`: refused iff the timestamp is present; otherwise sorted insert -/
theorem ooo_insert_step (l : List Sample) (x : Sample) (hs : SortedStrict l) :
    (oooInsert l x = none ↔ ∃ y ∈ l, y.t = x.t) ∧
    ∀ l', oooInsert l x = some l' → SortedStrict l' ∧ ∀ y, y ∈ l' ↔ y = x ∨ y ∈ l := by
  refine ⟨⟨oooInsert_none, ?_⟩, fun l' h => ⟨(oooInsert_some hs h).1, (oooInsert_some hs h).2.1⟩⟩
  rintro ⟨y, hy, e⟩
  cases h : oooInsert l x with
  | none => rfl
  | some l' => exact absurd e ((oooInsert_some hs h).2.2 y hy)

/-- `commit_eq_sequential` (one sample kind; float staleness markers excluded, see the witness below):
    whatever batches the appender cut while the samples `xs` were appended, `Commit` applies them exactly
    as `xs.length` single-sample commits in append order (`CommitAcc.apply` = re-run `appendable` against
    the state left by the predecessors, then store in order / insert OOO / drop). -/
theorem commit_eq_sequential (K : Kind) (a0 : Appender) (h0 : a0.batches = [])
    (xs : List (String × Sample))
    (hK : ∀ p ∈ xs, p.2.kind = K ∧ (K = .f → isStale .f p.2.v = false))
    (w : Window) (cap : Nat) (acc : CommitAcc) :
    commitBatches w cap (pushAll a0 xs).batches acc = commitList w cap xs acc := by
  obtain ⟨f1, f2, f3⟩ := pushAll_flat a0 xs
  simp only [h0, List.flatMap_nil, List.nil_append] at f1 f2 f3
  have hall : ∀ K', xs.filter (fun p => p.2.kind = K') = if K' = K then xs else [] := by
    intro K'
    by_cases e : K' = K
    · subst e
      simp only [if_true]
      exact List.filter_eq_self.mpr (fun p hp => by simp [(hK p hp).1])
    · simp only [e, if_false]
      exact List.filter_eq_nil_iff.mpr (fun p hp => by
        have := (hK p hp).1
        simp [this]; exact fun e' => e e'.symm)
  rw [hall] at f1 f2 f3
  have hns : ∀ b ∈ (pushAll a0 xs).batches, ∀ p ∈ b.floats, isStale .f p.2.v = false := by
    intro b hb p hp
    have hmem : p ∈ (pushAll a0 xs).batches.flatMap (·.floats) := List.mem_flatMap.mpr ⟨b, hb, hp⟩
    rw [f1] at hmem
    by_cases e : Kind.f = K
    · simp only [e, if_true] at hmem
      exact (hK p hmem).2 e.symm
    · simp [e] at hmem
  rw [commitBatches_single _ _ _ _ hns]
  cases K with
  | f =>
    simp at f1 f2 f3
    rw [foldl_only w cap _ acc (·.floats), f1]
    intro b hb acc'
    simp [f2 b hb, f3 b hb, commitList]
  | h =>
    simp at f1 f2 f3
    rw [foldl_only w cap _ acc (·.hists), f2]
    intro b hb acc'
    simp [f1 b hb, f3 b hb, commitList]
  | fh =>
    simp at f1 f2 f3
    rw [foldl_only w cap _ acc (·.fhists), f3]
    intro b hb acc'
    simp [f1 b hb, f2 b hb, commitList]

/-- …and per series the result is the left fold of the one-sample commit over that series' samples in
    append order, independent of the other series. -/
theorem commit_eq_sequential_series (K : Kind) (a0 : Appender) (h0 : a0.batches = [])
    (xs : List (String × Sample))
    (hK : ∀ p ∈ xs, p.2.kind = K ∧ (K = .f → isStale .f p.2.v = false))
    (w : Window) (cap : Nat) (acc : CommitAcc) (n : String) :
    (commitBatches w cap (pushAll a0 xs).batches acc).store.get n =
      seqSeries w cap (acc.store.get n) (samplesFor n xs) := by
  rw [commit_eq_sequential K a0 h0 xs hK, commitList_get]

example : ∀ p ∈ [("a", (⟨10, .h, 1⟩ : Sample)), ("a", ⟨10, .h, 2⟩), ("b", ⟨5, .h, 4⟩)],
    p.2.kind = Kind.h ∧ (Kind.h = .f → isStale .f p.2.v = false) := by decide

/-! ### rejected / rolled-back samples are never stored -/

/-- `rejected_never_stored` (1): an `Append*` call that returns an error leaves the appender — in
    particular the batches `Commit` will read — exactly as it was, and the head's series hold the same
    samples (at most an empty series was created). -/
theorem rejected_never_stored (a : Appender) (st : Store) (n : String) (x : Sample)
    (h : (a.append st n x).2.2 ≠ "ok") :
    (a.append st n x).1 = a ∧ ∀ m, ((a.append st n x).2.1.get m).all = (st.get m).all :=
  ⟨append_rejected a st n x h, fun m => append_store_all a st n x m⟩

/-- `rejected_never_stored` (2): whatever a series holds after `Commit` was either there before or was
    handed to `Commit` in a batch (i.e. pushed by an accepted append), possibly as the histogram
    staleness marker a float staleness marker is converted into. -/
theorem commit_stores_only_offered (w : Window) (cap : Nat) (bs : List Batch) (acc : CommitAcc)
    (n : String) (y : Sample) (hy : y ∈ ((commitBatches w cap bs acc).store.get n).all) :
    (∃ b ∈ bs, b.offers n y) ∨ y ∈ (acc.store.get n).all :=
  commitBatches_mem w cap bs acc n y hy

/-- …and the batches contain exactly the pushed samples. -/
theorem batches_hold_only_pushed (a0 : Appender) (h0 : a0.batches = []) (xs : List (String × Sample))
    (b : Batch) (hb : b ∈ (pushAll a0 xs).batches) (p : String × Sample)
    (hp : p ∈ b.floats ∨ p ∈ b.hists ∨ p ∈ b.fhists) : p ∈ xs := by
  obtain ⟨f1, f2, f3⟩ := pushAll_flat a0 xs
  simp only [h0, List.flatMap_nil, List.nil_append] at f1 f2 f3
  rcases hp with hp | hp | hp
  · have : p ∈ (pushAll a0 xs).batches.flatMap (·.floats) := List.mem_flatMap.mpr ⟨b, hb, hp⟩
    rw [f1] at this; exact (List.mem_filter.mp this).1
  · have : p ∈ (pushAll a0 xs).batches.flatMap (·.hists) := List.mem_flatMap.mpr ⟨b, hb, hp⟩
    rw [f2] at this; exact (List.mem_filter.mp this).1
  · have : p ∈ (pushAll a0 xs).batches.flatMap (·.fhists) := List.mem_flatMap.mpr ⟨b, hb, hp⟩
    rw [f3] at this; exact (List.mem_filter.mp this).1

/-- `rolledback_never_stored` / "only commit stores": on the op-level machine no operation other than
    `commit` — appends (accepted or rejected), `rollback`, option changes, appender creation, queries,
    start-up truncation — changes the samples held by any series. -/
theorem only_commit_stores (s : State) (hc : s.cfg = true) (tk : List String) (hne : tk ≠ ["commit"])
    (m : String) : ((stepT s tk).1.head.store.get m).all = (s.head.store.get m).all :=
  only_commit_stores_aux s hc tk hne m

theorem rolledback_never_stored (s : State) (hc : s.cfg = true) :
    (stepT s ["rollback"]).1.head = s.head ∧ (stepT s ["rollback"]).1.app = none := by
  unfold stepT
  simp only [hc]
  cases h : s.app <;> simp [h]

example : ({ cfg := true } : State).cfg = true := rfl

/-! ### the full statement across kinds, and why it fails (finding C02-F1) -/

/-- the append-order reading of a transaction on one series *with* staleness markers: a float staleness
    marker takes the histogram kind of the series' newest in-order sample at its turn -/
def seqSeriesConv (w : Window) (cap : Nat) (s : Series) : List Sample → Series
  | [] => s
  | x :: xs =>
    let x' := if x.kind = .f ∧ isStale .f x.v = true ∧ s.view.hasHead = true then
        (match s.view.lastKind with | .h => lateConv x .h | .fh => lateConv x .fh | .f => x) else x
    seqSeriesConv w cap (commitOne w cap s x').1 xs

/-- The full "commit = sequential in append order" statement, all kinds and staleness markers included.
    It is FALSE for the code as it stands (finding C02-F1), see the witness. -/
def CommitEqSequentialFull : Prop :=
  ∀ (a0 : Appender), a0.batches = [] → a0.types = [] →
  ∀ (xs : List (String × Sample)) (w : Window) (cap : Nat) (acc : CommitAcc) (n : String),
    ((commitBatches w cap (pushAll a0 xs).batches acc).store.get n).inorder =
      (seqSeriesConv w cap (acc.store.get n) (samplesFor n xs)).inorder

def bitsOne : Nat := 0x3ff0000000000000
def w0 : Window := ⟨0, 1, 0⟩
def acc0 : CommitAcc := { store := [("s", { inorder := [⟨1, .h, 1⟩] })] }
def xs0 : List (String × Sample) := [("s", ⟨2, .f, staleBits⟩), ("s", ⟨3, .f, bitsOne⟩)]

theorem stale_marker_deferred_witness :
    ((commitBatches w0 32 (pushAll { v2 := false } xs0).batches acc0).store.get "s").inorder
      = [⟨3, .f, bitsOne⟩, ⟨1, .h, 1⟩] ∧
    (seqSeriesConv w0 32 (acc0.store.get "s") (samplesFor "s" xs0)).inorder
      = [⟨3, .f, bitsOne⟩, ⟨2, .h, 0⟩, ⟨1, .h, 1⟩] := by decide

theorem commit_eq_sequential_full_witness : ¬ CommitEqSequentialFull := by
  intro h
  have := h { v2 := false } rfl rfl xs0 w0 32 acc0 "s"
  rw [stale_marker_deferred_witness.1, stale_marker_deferred_witness.2] at this
  exact absurd this (by decide)

/-! ### the reject-out-of-order option (findings C02-F2 and C02-F3, and their repairs)

The model carries one switch per defect (`repoFixedC02F2`, `repoFixedC02F3` in
`PromModel/Tsdb/Appendable.lean`; `false` = the code as found).  The theorems below are stated about the
switch-parameterised functions, so both the counter-examples (unrepaired code) and the positive statements
(repaired code) stay proved whichever variant /repo currently is. -/

/-- The documented contract of `AppendOptions.DiscardOutOfOrder` / `AOptions.RejectOutOfOrder` at the
    admission decision: while the option is set no sample is accepted as out of order. -/
def RejectHonoured (fixF2 : Bool) : Prop :=
  ∀ (a : Appender) (view : View) (x : Sample), a.discard = true → admitDecisionWith fixF2 a view x ≠ .ok .ooo

/-- Repaired code (`fixes/C02-F2.patch`): the option is honoured for every sample kind, v1 and v2. -/
theorem reject_honoured_fixed : RejectHonoured true := by
  intro a view x hd
  unfold admitDecisionWith
  split
  · simp
  · simp only [hd]
    cases hr : appendable x.kind x.t x.v view a.w with
    | error e => cases e <;> cases a.v2 <;> simp [isOOOFlag]
    | ok ad => cases ad <;> cases a.v2 <;> simp [isOOOFlag]

/-- What the code as found does guarantee: floats on v1, everything on v2. -/
theorem reject_honoured_unfixed_partial (a : Appender) (view : View) (x : Sample) (hd : a.discard = true)
    (hk : a.v2 = true ∨ x.kind = .f) : admitDecisionWith false a view x ≠ .ok .ooo := by
  unfold admitDecisionWith
  split
  · simp
  · simp only [hd]
    cases hr : appendable x.kind x.t x.v view a.w with
    | error e => cases e <;> cases hv : a.v2 <;> simp [isOOOFlag]
    | ok ad =>
      cases ad <;> cases hv : a.v2 <;> simp [isOOOFlag]
      rcases hk with hk | hk
      · simp [hv] at hk
      · exact hk

def aDiscardV1 : Appender := { v2 := false, live := true, w := ⟨90, 100, 50⟩, discard := true }
example : aDiscardV1.discard = true ∧ (aDiscardV1.v2 = true ∨ (⟨60, .f, bitsOne⟩ : Sample).kind = .f) := by decide

/-- Finding C02-F2 (the code as found): a v1 appender with `DiscardOutOfOrder` set accepts an out-of-order
    histogram (series newest sample at t=100, window (90, 100, ooo 50), histogram at t=60) — and the
    repaired code rejects it with "out of order". -/
theorem reject_ignored_v1_histogram_witness :
    admitDecisionWith false aDiscardV1 ⟨true, 100, .h, 1⟩ ⟨60, .h, 2⟩ = .ok .ooo ∧
    admitDecisionWith true aDiscardV1 ⟨true, 100, .h, 1⟩ ⟨60, .h, 2⟩ = .error .ooo ∧
    ¬ RejectHonoured false := by
  refine ⟨rfl, rfl, fun h => ?_⟩
  exact h aDiscardV1 ⟨true, 100, .h, 1⟩ ⟨60, .h, 2⟩ rfl rfl

/-- The repair changes nothing else: the two variants differ only where the unrepaired v1 code accepts a
    (float) histogram out of order although the option is set, and there the repaired code answers
    "out of order". -/
theorem fix_F2_only_rejects_ooo_histograms (a : Appender) (view : View) (x : Sample) :
    admitDecisionWith true a view x = admitDecisionWith false a view x ∨
    (a.v2 = false ∧ x.kind ≠ .f ∧ a.discard = true ∧
      admitDecisionWith false a view x = .ok .ooo ∧ admitDecisionWith true a view x = .error .ooo) := by
  unfold admitDecisionWith
  split
  · exact Or.inl rfl
  · cases hr : appendable x.kind x.t x.v view a.w with
    | error e => left; cases a.v2 <;> simp
    | ok ad =>
      cases ad
      · left; cases a.v2 <;> simp
      · cases hv : a.v2
        · cases hd : a.discard
          · left; simp
          · by_cases hk : x.kind = .f
            · left; simp [hk]
            · right; simp [hk]
        · left; simp

/-- Repaired code (`fixes/C02-F3.patch`): whatever was passed to `SetOptions` — before or after the first
    append — is what the appender created by `initAppender` (or the already live one) decides with. -/
theorem options_reach_inner_appender_fixed (h : Head) (a : Appender) (on : Bool) (t : Int) :
    (materialise h (a.setOptions true on) t).2.discard = on := by
  unfold materialise Appender.setOptions
  simp only [Bool.not_true, Bool.false_eq_true, false_and, if_false]
  split <;> rfl

/-- On every variant a live v1 appender and every v2 appender take the option. -/
theorem options_taken_when_live (fixF3 : Bool) (a : Appender) (on : Bool) (hl : a.v2 = true ∨ a.live = true) :
    (a.setOptions fixF3 on).discard = on := by
  unfold Appender.setOptions
  rcases hl with hl | hl <;> simp [hl]

/-- First transaction on a fresh head with OOO window 100 and chunk range 20: v1 appender, option set
    *before* the first append, then floats at t=100 and t=50 for one series.  Answer to the second append. -/
def firstTxSecondAnswer (fixF2 fixF3 : Bool) : String :=
  let h0 : Head := { oooWin := 100, chunkRange := 20 }
  let a0 := (h0.newAppender false).setOptions fixF3 true
  let (h1, a1) := materialise h0 a0 100
  let (a2, st, _) := a1.appendWith fixF2 h1.store "s" ⟨100, .f, bitsOne⟩
  (a2.appendWith fixF2 st "s" ⟨50, .f, bitsOne⟩).2.2

/-- Finding C02-F3 (the code as found): the option set before the first append of a fresh head is lost
    — the lazily created appender still has `discard = false` and the out-of-order float is accepted;
    the repaired `initAppender` rejects it.  (Independent of the C02-F2 switch: the sample is a float.) -/
theorem options_lost_initappender_witness :
    (materialise {} (({ v2 := false } : Appender).setOptions false true) 100).2.discard = false ∧
    (∀ f2, firstTxSecondAnswer f2 false = "ok") ∧ (∀ f2, firstTxSecondAnswer f2 true = "ooo") := by
  refine ⟨by decide, ?_, ?_⟩ <;> intro f2 <;> cases f2 <;> decide

end Prom.C02
