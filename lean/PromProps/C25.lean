import PromModel.Tsdb.HeadChunkFile
import PromProofs.Hcf
/-
  C25 — Head chunks on disk are readable at once and after restart.
  Model: `PromModel/Tsdb/HeadChunkFile.lean`.
-/
namespace Prom.C25
open Prom.Enc Prom.Hcf

def run (σ : St) (as : List Act) : St := as.foldl step σ

/-! ### Truncation removes only files older than the requested one -/

/-- `Truncate(n)` never touches the current file, removes a prefix (oldest first) of the closed files, every removed
    file has a number `< n`, and every closed file with a number `≥ n` is kept. -/
theorem truncate_only_older_files (σ : St) (n : Nat) :
    (σ.truncate n).cur = σ.cur ∧
    (∃ k, (σ.truncate n).old = σ.old.drop k ∧ ∀ f ∈ σ.old.take k, f.seq % 4294967296 < n) ∧
    (∀ f ∈ σ.old, n ≤ f.seq % 4294967296 → f ∈ (σ.truncate n).old) := by
  refine ⟨rfl, ⟨(truncRemoved σ n).length, rfl, ?_⟩, ?_⟩
  · intro f hf
    unfold truncRemoved at hf
    rw [take_takeWhile_length] at hf
    have := mem_takeWhile_true _ _ _ hf
    simpa using this
  · intro f hf hn
    show f ∈ σ.old.drop (truncRemoved σ n).length
    unfold truncRemoved
    apply mem_drop_takeWhile _ _ _ hf
    simp; omega

/-! ### Finding C25-F1 (reproduced against the real code by suite `hcf`)

  After a restart (`curFile == nil`) a queued job that has to cut file `N+1` is pending; `Truncate` then removes
  *all* files (nothing is current, so nothing is protected).  The sequence reset is correctly skipped because the queue
  is not empty, but `cut()` takes the new file's number from the directory (`nextSequenceFile` = largest number + 1 = 1),
  `cutAndExpectRef` fails, the chunk is never written and the reference handed out by `WriteChunk` becomes unreadable as
  soon as the worker drops it from `chunkRefMap` (the head's callback panics on that error). -/

def wChunk : Chunk := ⟨7, 10, 20, 1, false, [0, 1, 2, 3, 4]⟩
def wStart : St := { init 1 65536 with old := [⟨1, header, [], 0, false⟩], eseq := 1 }

theorem truncate_all_with_pending_cut_witness :
    (run wStart [.write wChunk]).refMap = [((2, 8), wChunk)] ∧
    (run wStart [.write wChunk, .trunc 2, .workerWrite]).worker = .after ⟨true, (2, 8), wChunk⟩ false ∧
    (run wStart [.write wChunk, .trunc 2, .workerWrite, .workerFin]).chunk (fun _ => 0) (2, 8) = .error .gt := by
  refine ⟨by decide, by decide, by rfl⟩

end Prom.C25
