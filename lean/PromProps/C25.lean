import PromModel.Tsdb.HeadChunkFile
import PromProofs.Hcf
/-
  C25 — Head chunks on disk are readable at once and after restart.
  Model: `PromModel/Tsdb/HeadChunkFile.lean`.
-/
namespace Prom.C25
open Prom.Enc Prom.Hcf



/-! ### Record codec -/

/-- Reading a record back through the mmap path of `Chunk(ref)`: wherever the record sits in a file (`pre` before it,
    `post` after it) and whatever the checksum function is, `Chunk` returns the encoding and exactly the bytes written. -/
theorem chunk_record_roundtrip (crc : Crc) (pre post : Bytes) (c : Chunk) (len : Nat) (wf : WFc c)
    (hv : validEnc c.enc = true) (hlen : pre.length + recLen c ≤ len) :
    readAt crc (pre ++ (encodeRecord crc c ++ post)) len pre.length = .ok (c.enc, c.data) :=
  readAt_record crc pre post c len wf hv hlen

example : WFc ⟨7, -5, 20, 1, true, [0, 2, 9, 9, 9]⟩ := ⟨by decide, by decide, by decide, by decide, by decide⟩

/-- One pass of the `IterateAllChunks` loop over a record yields its metadata (position, series, time range, first two
    data bytes as sample count, encoding without the mask, out-of-order flag) and continues behind it. -/
theorem chunk_record_iter_roundtrip (crc : Crc) (seq fuel pos : Nat) (c : Chunk) (tail : Bytes) (wf : WFrec c) :
    iterFile crc seq (fuel + 1) pos (encodeRecord crc c ++ tail) =
      (⟨seq, pos, c.sref, c.mint, c.maxt, rd16 c.data, c.enc, c.ooo⟩ ::
        (iterFile crc seq fuel (pos + recLen c) tail).1, (iterFile crc seq fuel (pos + recLen c) tail).2) := by
  have h := iter_step crc seq fuel pos c tail wf.wf wf.nz (by
    have := recLen_ge c wf.len4
    simp [encodeRecord_length]; omega)
  rw [h, rd16_app _ _ (by have := wf.len4; omega)]

/-! ### Iteration after a restart -/

/-- a file as the next incarnation finds it after `Close` (everything flushed) -/
def frozen (crc : Crc) (f : File) : File := ⟨f.seq, (flushFile f).disk crc, [], 0, false⟩

theorem frozen_disk (crc : Crc) (f : File) : (frozen crc f).disk crc = (flushFile f).disk crc := by
  simp [frozen, File.disk, File.diskK, File.content, encodeRecs]

theorem written_disk (crc : Crc) (f : File) (hb : f.base = header) (hl : f.live = true) :
    (flushFile f).disk crc = header ++ (encodeRecs crc f.recs ++ zeros (prealloc - (header ++ encodeRecs crc f.recs).length)) := by
  simp [flushFile, File.disk, File.diskK, File.content, hb, hl]

/-- **Iteration after restart**: for the files written by an incarnation and closed, `IterateAllChunks` of the next
    incarnation reports no corruption and yields, file by file in ascending order and inside a file in write order,
    every record with its position (= the reference `WriteChunk` returned, see `read_your_writes`), series, time range,
    sample count, encoding and out-of-order flag. -/
theorem iterate_in_write_order (crc : Crc) (fs : List File)
    (h : ∀ f ∈ fs, f.base = header ∧ f.live = true ∧ ∀ rc ∈ f.recs, WFrec rc.2) :
    iterAll crc (fs.map (frozen crc)) = (fs.flatMap (fun f => metasFrom f.seq headerSize f.recs), none) := by
  induction fs with
  | nil => simp [iterAll]
  | cons f rest ih =>
    have hf := h f (by simp)
    have ih' := ih (fun g hg => h g (by simp [hg]))
    simp only [List.map_cons, iterAll, List.flatMap_cons]
    rw [frozen_disk, written_disk crc f hf.1 hf.2.1, iterBytes_file crc _ f.recs _ hf.2.2]
    simp [frozen, ih']

/-! ### Torn tails -/

/-- Truncating a written file at the boundary behind its `j`-th record: exactly the first `j` records, no corruption. -/
theorem torn_tail_dropped_partial (crc : Crc) (seq : Nat) (recs : List (Ref × Chunk)) (k j : Nat)
    (hwf : ∀ rc ∈ recs, WFrec rc.2) :
    iterBytes crc seq ((header ++ (encodeRecs crc recs ++ zeros k)).take (headerSize + (encodeRecs crc (recs.take j)).length)) =
      ((metasFrom seq headerSize recs).take j, none) := by
  have hsplit : encodeRecs crc recs = encodeRecs crc (recs.take j) ++ encodeRecs crc (recs.drop j) := by
    rw [← encodeRecs_append, List.take_append_drop]
  have ht : (header ++ (encodeRecs crc recs ++ zeros k)).take (headerSize + (encodeRecs crc (recs.take j)).length) =
      header ++ (encodeRecs crc (recs.take j) ++ zeros 0) := by
    rw [hsplit]
    have : header ++ (encodeRecs crc (recs.take j) ++ encodeRecs crc (recs.drop j) ++ zeros k) =
        (header ++ encodeRecs crc (recs.take j)) ++ (encodeRecs crc (recs.drop j) ++ zeros k) := by simp [List.append_assoc]
    rw [this, take_app_len _ _ _ (by simp [header, putBE32, headerSize]; omega)]
    simp [zeros]
  rw [ht, iterBytes_file crc seq _ 0 (fun rc hrc => hwf rc (List.mem_of_mem_take hrc)), metasFrom_take]

/-- Truncating inside the zero padding loses nothing. -/
theorem torn_in_padding (crc : Crc) (seq : Nat) (recs : List (Ref × Chunk)) (k m : Nat) (hm : m ≤ k)
    (hwf : ∀ rc ∈ recs, WFrec rc.2) :
    iterBytes crc seq ((header ++ (encodeRecs crc recs ++ zeros k)).take (headerSize + (encodeRecs crc recs).length + m)) =
      (metasFrom seq headerSize recs, none) := by
  have ht : (header ++ (encodeRecs crc recs ++ zeros k)).take (headerSize + (encodeRecs crc recs).length + m) =
      header ++ (encodeRecs crc recs ++ zeros m) := by
    have : header ++ (encodeRecs crc recs ++ zeros k) = (header ++ encodeRecs crc recs) ++ zeros k := by simp [List.append_assoc]
    rw [this, List.take_append]
    have hl : (header ++ encodeRecs crc recs).length = headerSize + (encodeRecs crc recs).length := by
      simp [header, putBE32, headerSize]; omega
    rw [List.take_of_length_le (by omega), hl]
    simp [zeros, List.take_replicate, Nat.min_eq_left hm, List.append_assoc]
  rw [ht, iterBytes_file crc seq _ m hwf]


/-- The full torn-tail statement: for EVERY cut (also inside a record) the survivors are a prefix of the written records
    and nothing is invented.  Proved above for cuts at record boundaries (`torn_tail_dropped_partial`) and inside the zero
    padding (`torn_in_padding`) — no checksum hypothesis needed there.  For a cut inside a record the loop sees either
    fewer than 34 bytes (end of data if they are all zero — e.g. the leading zero bytes of a series ref — else corruption)
    or the complete record header, whose length field then points beyond the file end (corruption); that case analysis is
    NOT proved here, it is exercised by suite `hcf` (`torn <cut>` around every field boundary of real files). -/
def torn_tail_dropped_full : Prop :=
  ∀ (crc : Crc) (seq : Nat) (recs : List (Ref × Chunk)) (k cut : Nat), (∀ rc ∈ recs, WFrec rc.2) →
    ∃ j, (iterBytes crc seq ((header ++ (encodeRecs crc recs ++ zeros k)).take cut)).1 = (metasFrom seq headerSize recs).take j


/-! ### Read-your-writes -/

/-- where a written chunk is at some moment: in the queue's `chunkRefMap`, in the `chunkBuffer` of the current file, or
    flushed into a file at the offset its reference names -/
inductive Located (crc : Crc) (σ : St) (r : Ref) (c : Chunk) : Prop
  | inMap (h : lookup r σ.refMap = some c)
  | inBuffer (hm : lookup r σ.refMap = none) (hs : r.1 = σ.curSeq) (h : lookup r σ.chunkBuf = some c)
  | flushed (hm : lookup r σ.refMap = none) (hb : r.1 = σ.curSeq → lookup r σ.chunkBuf = none)
      (f : File) (hf : (σ.old ++ σ.cur.toList).find? (·.seq = r.1) = some f)
      (pre post : Bytes) (hd : f.disk crc = pre ++ (encodeRecord crc c ++ post)) (hp : pre.length = r.2)
      (hl : r.2 + recLen c ≤ f.mmapLen crc)

/-- The read path of `Chunk(ref)` is correct for each of the three places (checksum function arbitrary): it returns the
    encoding and exactly the bytes handed to `WriteChunk`. -/
theorem read_your_writes_partial (crc : Crc) (σ : St) (r : Ref) (c : Chunk) (wf : WFc c) (hv : validEnc c.enc = true)
    (h : Located crc σ r c) : σ.chunk crc r = .ok (c.enc, c.data) := by
  cases h with
  | inMap h => simp [St.chunk, h]
  | inBuffer hm hs h => simp [St.chunk, hm, hs, h]
  | flushed hm hb f hf pre post hd hp hl =>
    have hbuf : (if r.1 = σ.curSeq then lookup r σ.chunkBuf else none) = none := by
      by_cases hs : r.1 = σ.curSeq
      · simp [hs, hb hs]
      · simp [hs]
    unfold St.chunk
    simp only [hm, hbuf, hf]
    rw [hd, ← hp]
    exact readAt_record crc pre post c _ wf hv (by rw [hp]; exact hl)

/-- The invariant half: in every state reachable from `init` by `step`s whose `trunc` steps never remove all files while
    jobs are pending (excluded: finding C25-F1, `truncate_all_with_pending_cut_witness`), every reference returned by a
    `write` whose file has not been truncated is `Located`.  NOT proved here (it needs the walk invariant tying `evtlPos`
    to the writer position through the pending jobs); it is what suite `hcf` checks against the real mapper at every
    worker position (immediate read inside `w`, `r` ops between `wr`/`fin` steps, `st` comparing the table sizes). -/
def read_your_writes_full : Prop :=
  ∀ (crc : Crc) (q wbs : Nat) (as : List Act) (i : Nat) (c : Chunk),
    as[i]? = some (.write c) → WFc c → validEnc c.enc = true →
    (∀ a ∈ as, ∀ n, a = .trunc n → n ≤ ((as.take i).foldl step (init q wbs)).eseq) →
    let σi := (as.take i).foldl step (init q wbs)
    let r := (σi.writeChunk c).2.1
    (as.foldl step (init q wbs)).chunk crc r = .ok (c.enc, c.data)

set_option maxRecDepth 8000 in
/-- a concrete asynchronous run: the chunk is readable while queued, after the worker wrote it (still in the map and
    in the buffer) and after the worker dropped it from the map (buffer) -/
example :
    let c : Chunk := ⟨7, -5, 20, 1, true, [0, 2, 9, 9, 9]⟩
    let crc : Crc := fun _ => 7
    let σ1 := (init 2 65536).writeChunk c |>.1
    let σ2 := σ1.workerWrite
    let σ3 := σ2.workerFin
    (σ1.chunk crc (1, 8)).toOption = some (1, c.data) ∧ (σ2.chunk crc (1, 8)).toOption = some (1, c.data) ∧
    (σ3.chunk crc (1, 8)).toOption = some (1, c.data) ∧
    σ2.refMap.length = 1 ∧ σ2.chunkBuf.length = 1 ∧ σ3.refMap = [] ∧ σ3.chunkBuf.length = 1 := by
  decide

/-! ### Quirks of the end-of-data rules (proved on the model, reproduced by the suite) -/

set_option maxRecDepth 8000 in
/-- A record with series ref = mint = maxt = 0 is the end-of-data marker: it and everything behind it in the file is
    silently skipped by `IterateAllChunks` (the head never writes series ref 0). -/
theorem zero_triple_hides_rest_witness :
    let crc : Crc := fun _ => 7
    let a : Chunk := ⟨0, 0, 0, 1, false, [0, 1, 9, 9]⟩
    let b : Chunk := ⟨5, 1, 2, 1, false, [0, 1, 9, 9]⟩
    iterBytes crc 1 (header ++ (encodeRecs crc [((1, 8), a), ((1, 42), b)] ++ zeros 100)) = ([], none) := by
  decide

/-- A file without padding whose last record is shorter than `MaxHeadChunkMetaSize` (data shorter than 4 bytes) is
    reported as corrupted although it is intact. -/
theorem short_last_record_reported_corrupt_witness :
    let crc : Crc := fun _ => 7
    let a : Chunk := ⟨5, 1, 2, 1, false, [0, 1, 9]⟩
    iterBytes crc 1 (header ++ encodeRecs crc [((1, 8), a)]) = ([], some .shortHeader) := by
  decide


def run (σ : St) (as : List Act) : St := as.foldl step σ

/-! ### Truncation removes only files older than the requested one -/

/-- `Truncate(n)` never touches the current file, removes a prefix (oldest first) of the closed files, every removed
    file has a number `< n`, and every closed file with a number `≥ n` is kept. -/
theorem truncate_only_older_files (σ : St) (n : Nat) :
    (σ.truncate n).cur = σ.cur ∧
    (∃ k, (σ.truncate n).old = σ.old.drop k ∧ ∀ f ∈ σ.old.take k, f.seq % 4294967296 < n) ∧
    (∀ f ∈ σ.old, n ≤ f.seq % 4294967296 → f ∈ (σ.truncate n).old) := by
  refine ⟨rfl, ⟨(truncRemoved σ n).length, rfl, ?_⟩, ?_⟩
  · intro f hf
    unfold truncRemoved at hf
    rw [take_takeWhile_length] at hf
    have := mem_takeWhile_true _ _ _ hf
    simpa using this
  · intro f hf hn
    show f ∈ σ.old.drop (truncRemoved σ n).length
    unfold truncRemoved
    apply mem_drop_takeWhile _ _ _ hf
    simp; omega

/-! ### Finding C25-F1 (reproduced against the real code by suite `hcf`)

  After a restart (`curFile == nil`) a queued job that has to cut file `N+1` is pending; `Truncate` then removes
  *all* files (nothing is current, so nothing is protected).  The sequence reset is correctly skipped because the queue
  is not empty, but `cut()` takes the new file's number from the directory (`nextSequenceFile` = largest number + 1 = 1),
  `cutAndExpectRef` fails, the chunk is never written and the reference handed out by `WriteChunk` becomes unreadable as
  soon as the worker drops it from `chunkRefMap` (the head's callback panics on that error). -/

def wChunk : Chunk := ⟨7, 10, 20, 1, false, [0, 1, 2, 3, 4]⟩
def wStart : St := { init 1 65536 with old := [⟨1, header, [], 0, false⟩], eseq := 1 }

theorem truncate_all_with_pending_cut_witness :
    (run wStart [.write wChunk]).refMap = [((2, 8), wChunk)] ∧
    (run wStart [.write wChunk, .trunc 2, .workerWrite]).worker = .after ⟨true, (2, 8), wChunk⟩ false ∧
    (run wStart [.write wChunk, .trunc 2, .workerWrite, .workerFin]).chunk (fun _ => 0) (2, 8) = .error .gt := by
  refine ⟨by decide, by decide, by rfl⟩

/-! ### Repair after a crash: file numbering -/

/-- every file number is at most the running maximum `DeleteCorrupted` computes -/
theorem foldl_max_ge (l : List File) : ∀ (m : Nat), m ≤ l.foldl (fun m f => max m f.seq) m ∧
    ∀ f ∈ l, f.seq ≤ l.foldl (fun m f => max m f.seq) m := by
  induction l with
  | nil => intro m; simp
  | cons a t ih =>
    intro m
    simp only [List.foldl_cons]
    obtain ⟨h1, h2⟩ := ih (max m a.seq)
    refine ⟨by omega, ?_⟩
    intro f hf
    rcases List.mem_cons.mp hf with rfl | hf
    · omega
    · exact h2 f hf

/-- **Repair**: `DeleteCorrupted(k)` on a freshly opened mapper (no current file) keeps exactly the files numbered below
    `k`, and the eventual sequence is the highest number that REMAINS (what `cut()` will derive from the directory) — 0,
    i.e. a clean restart of the numbering, when nothing remains.  It is not `k - 1`: after earlier truncations the file
    before the corrupt one need not exist (`stale_sequence_after_repair_witness`). -/
theorem repair_numbering (σ : St) (k : Nat) (hc : σ.cur = none) :
    (σ.deleteCorrupted k).old = σ.old.filter (fun f => decide (f.seq < k)) ∧
    (σ.deleteCorrupted k).cur = none ∧
    (σ.deleteCorrupted k).eseq = (σ.deleteCorrupted k).maxSeq ∧
    ((σ.deleteCorrupted k).old = [] → (σ.deleteCorrupted k).eseq = 0) := by
  refine ⟨rfl, hc, ?_, ?_⟩
  · simp [St.deleteCorrupted, St.maxSeq, hc]
  · intro h
    have h' : σ.old.filter (fun f => decide (f.seq < k)) = [] := h
    show (σ.old.filter (fun f => decide (f.seq < k))).foldl (fun m f => max m f.seq) 0 = 0
    rw [h']; rfl

/-- **First write after a repair** (synchronous mapper): whatever was deleted, `WriteChunk` reports no error, hands out
    the first position of file (highest remaining + 1) and the writer cuts exactly that file; the retained files are
    untouched. -/
theorem write_after_repair_ok (σ : St) (k : Nat) (c : Chunk) (hc : σ.cur = none) (hq : σ.q = 0) (he : σ.eoff = 0) :
    let σ1 := σ.deleteCorrupted k
    let r := σ1.writeChunk c
    r.2.2 = some true ∧ r.2.1 = (σ1.maxSeq + 1, headerSize) ∧ r.1.curSeq = σ1.maxSeq + 1 ∧ r.1.old = σ1.old := by
  obtain ⟨h1, h2, h3, _⟩ := repair_numbering σ k hc
  have hq1 : (σ.deleteCorrupted k).q = 0 := hq
  have he1 : (σ.deleteCorrupted k).eoff = 0 := he
  generalize σ.deleteCorrupted k = σ1 at *
  intro σ1' r
  simp only [r, σ1', St.writeChunk, nextRef, shouldCut, he1, hq1]
  by_cases hw : σ1.wbs ≤ c.data.length + maxMeta <;>
    simp [St.procWrite, St.cutFile, St.flush, St.curSeq, St.maxSeq, h2, h3, flushFile, hw]

/-- … and the chunk is readable under the returned reference (from the chunk buffer, or — a chunk at least as large as
    the write buffer — from the new file; no retained file can shadow the new number). -/
theorem read_after_repair (crc : Crc) (σ : St) (k : Nat) (c : Chunk) (hc : σ.cur = none) (hq : σ.q = 0) (he : σ.eoff = 0)
    (hrm : σ.refMap = []) (wf : WFc c) (hv : validEnc c.enc = true) (hlen : headerSize + recLen c ≤ maxFileSize) :
    let r := (σ.deleteCorrupted k).writeChunk c
    r.1.chunk crc r.2.1 = .ok (c.enc, c.data) := by
  obtain ⟨h1, h2, h3, _⟩ := repair_numbering σ k hc
  have hq1 : (σ.deleteCorrupted k).q = 0 := hq
  have he1 : (σ.deleteCorrupted k).eoff = 0 := he
  have hrm1 : (σ.deleteCorrupted k).refMap = [] := hrm
  generalize σ.deleteCorrupted k = σ1 at *
  intro r
  have hge := (foldl_max_ge σ1.old 0).2
  simp only [r, St.writeChunk, nextRef, shouldCut, he1, hq1]
  by_cases hw : σ1.wbs ≤ c.data.length + maxMeta
  · simp [St.procWrite, St.cutFile, St.flush, St.curSeq, St.maxSeq, h2, h3, flushFile, hw, St.chunk, hrm1, lookup]
    generalize List.foldl (fun m f => max m f.seq) 0 σ1.old = M at *
    have hfind : List.find? (fun x => decide (x.seq = M + 1)) σ1.old = none := by
      apply List.find?_eq_none.mpr
      intro f hf
      have := hge f hf
      simp; omega
    rw [hfind]
    simp only [Option.getD_none]
    have hd : File.disk crc ⟨M + 1, header, [((M + 1, headerSize), c)], 1, true⟩ =
        header ++ (encodeRecord crc c ++ zeros (prealloc - (header ++ encodeRecord crc c).length)) := by
      simp [File.disk, File.diskK, File.content, encodeRecs]
    have hl : File.mmapLen crc ⟨M + 1, header, [((M + 1, headerSize), c)], 1, true⟩ = maxFileSize := by
      simp [File.mmapLen]
    have hh : header.length = headerSize := by decide
    rw [hd, hl, ← hh]
    exact readAt_record crc header _ c maxFileSize wf hv (by rw [hh]; exact hlen)
  · simp [St.procWrite, St.cutFile, St.flush, St.curSeq, St.maxSeq, h2, h3, flushFile, hw, St.chunk, hrm1, lookup]

example : (⟨0, 65536, 3, 0, false, [], [], .idle, 0, [], [⟨3, header, [], 0, false⟩], none, false⟩ : St).cur = none := rfl

/-- What the seeded mistake looks like in the model: files 1 and 2 truncated away, file 3 corrupt and deleted, sequence
    left at 3 - 1 = 2 with an empty directory: the next write expects file 3, `cut()` creates file 1, the callback
    reports the `cutAndExpectRef` mismatch.  With the sequence `deleteCorrupted` really computes (0) the write is fine. -/
theorem stale_sequence_after_repair_witness :
    let σ : St := { init 0 65536 with old := [⟨3, header, [], 0, false⟩], eseq := 3 }
    ((σ.deleteCorrupted 3).eseq = 0) ∧ ((σ.deleteCorrupted 3).old = []) ∧
    (({ σ.deleteCorrupted 3 with eseq := 2 }).writeChunk wChunk).2.2 = some false ∧
    ((σ.deleteCorrupted 3).writeChunk wChunk).2.2 = some true ∧
    ((σ.deleteCorrupted 3).writeChunk wChunk).2.1 = (1, 8) := by
  refine ⟨by decide, by decide, by decide, by decide, by decide⟩

end Prom.C25
