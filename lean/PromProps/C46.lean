import PromModel.Suites.NotifySuite
import PromProofs.SendLoopInv
/-
  C46 — The notifier drops only the oldest alerts and preserves order.

  All theorems are about `Prom.SendLoop.step`, the transition system of one `sendLoop`
  (lean/PromModel/Notifier/SendLoop.lean), for EVERY schedule `tr : List Act` of its atomic actions from the
  initial state — every interleaving of `add` (called under the set mutex), the loop goroutine
  (`wake`, `take`, `result ok|fail|err`, `post`, `exit`) and the caller of `stop` (`stop`, `dtake`,
  `dresult`). The suite `notify` checks on every run that the real notifier, driven through the same
  actions, produces exactly the model's observable effects.
-/
namespace Prom.C46
open Prom.SendLoop

/-- **Accounting.** In every reachable state: alerts handed to the loop = sent + dropped on overflow +
    failed (counted in `errors` *and* `dropped`) + still queued + in flight. -/
theorem accounting_all (c : Cfg) (tr : List Act) (s : Loop) (h : run c {} tr = some s) :
    s.nIn = s.nSent + s.nOverflow + s.nFailed + s.queue.length + s.inflight :=
  (run_Inv c tr {} s (inv_init c) h).acc

/-- **Accounting, in terms of the real counters**, for a loop that has not been stopped:
    `dropped_total = nOverflow + nFailed + nStopDropped` and nothing was dropped by a stop yet, so
    in = sent + dropped + queued + in flight; `errors_total = nFailed ≤ dropped_total`. -/
theorem accounting (c : Cfg) (tr : List Act) (s : Loop) (h : run c {} tr = some s) (hs : s.stopped = false) :
    s.nIn = s.nSent + (s.nOverflow + s.nFailed + s.nStopDropped) + s.queue.length + s.inflight := by
  have inv := run_Inv c tr {} s (inv_init c) h
  have := inv.acc; have := inv.stopDropped hs
  omega

example : ∃ s, run ⟨2, 1, false⟩ {} [.add [1, 2, 3], .wake, .take, .add [4], .result .fail, .post] = some s ∧
    s.stopped = false ∧ s.nIn = 4 ∧ s.nOverflow = 1 ∧ s.nFailed = 1 ∧ s.queue = [3, 4] := ⟨_, rfl, by decide⟩

/-- The queue never exceeds its capacity. -/
theorem queue_le_capacity (c : Cfg) (tr : List Act) (s : Loop) (h : run c {} tr = some s) :
    s.queue.length ≤ c.cap :=
  (run_Inv c tr {} s (inv_init c) h).qcap

/-- **No batch is larger than the maximum**: every batch that reached the Alertmanager, and every
    batch in flight. -/
theorem batch_le_max (c : Cfg) (tr : List Act) (s : Loop) (h : run c {} tr = some s) :
    (∀ n ∈ s.batchSizes, n ≤ c.maxBatch) ∧ s.pc.batch.length ≤ c.maxBatch ∧ s.dpc.batch.length ≤ c.maxBatch :=
  let inv := run_Inv c tr {} s (inv_init c) h
  ⟨inv.sizes, inv.flsize.1, inv.flsize.2⟩

/-- **Overflow drops the oldest**: the `add` action leaves exactly the newest `min(cap, |queue| + |batch|)`
    alerts of `queue ++ batch`, in order (whatever the state: no hypothesis). -/
theorem overflow_drops_oldest (c : Cfg) (s s' : Loop) (as : List Nat) (e : List Eff)
    (hs : s.stopped = false) (h : step c s (.add as) = some (s', e)) :
    s'.queue = lastN (min c.cap (s.queue.length + as.length)) (s.queue ++ as) := by
  simp only [step] at h
  split at h
  · simp at h
  · simp only [hs] at h
    simp only [Bool.false_eq_true, if_false, Option.some.injEq, Prod.mk.injEq] at h
    obtain ⟨rfl, _⟩ := h
    exact addQueue_eq_lastN c.cap s.queue as

example : (addQueue 3 [1, 2] [3, 4, 5, 6]).1 = [4, 5, 6] ∧ (addQueue 3 [1, 2] [3, 4]).1 = [2, 3, 4] := by decide

/-- Everything ever taken from the queue plus what is still queued is, in order, a subsequence of what
    was handed to the loop — under every schedule. -/
theorem taken_and_queued_subsequence (c : Cfg) (tr : List Act) (s : Loop) (h : run c {} tr = some s) :
    (s.taken ++ s.queue).Sublist s.sentIn :=
  (run_Inv c tr {} s (inv_init c) h).sub

/-- **Order.** Under every schedule in which the loop goroutine and the drain never have requests in
    flight at the same time, what the Alertmanager has received is, in order, a subsequence of the alerts
    handed to the loop (hence without duplicates when those are distinct). -/
theorem received_subsequence_in_order (c : Cfg) (tr : List Act) (s : Loop)
    (h : runNoOverlap c {} tr = some s) : s.received.Sublist s.sentIn := by
  have h0 : RecInv ({} : Loop) := ⟨rfl, by simp [Pc.batch, DPc.batch]⟩
  obtain ⟨⟨_, hrec⟩, hrun⟩ := runNoOverlap_recInv c tr {} s h0 h
  have hsub := (run_Inv c tr {} s (inv_init c) hrun).sub
  exact ((List.sublist_append_left _ _).trans hrec).trans ((List.sublist_append_left _ _).trans hsub)

/-- Without DrainOnShutdown there is only one sender, so the order holds under EVERY schedule. -/
theorem received_subsequence_in_order_nodrain (c : Cfg) (hd : c.drain = false) (tr : List Act) (s : Loop)
    (h : run c {} tr = some s) : s.received.Sublist s.sentIn := by
  suffices hno : ∀ (tr : List Act) (s0 s : Loop), Inv c s0 → run c s0 tr = some s → runNoOverlap c s0 tr = some s by
    exact received_subsequence_in_order c tr s (hno tr {} s (inv_init c) h)
  intro tr
  induction tr with
  | nil => intro s0 s _ h; simpa [run, runNoOverlap] using h
  | cons a rest ih =>
    intro s0 s hinv h
    unfold run at h
    unfold runNoOverlap
    cases hs : step c s0 a with
    | none => simp [hs] at h
    | some r =>
      obtain ⟨s1, e⟩ := r
      simp only [hs] at h ⊢
      have hinv1 := step_inv c s0 a s1 e hinv hs
      have : s1.overlap = false := by
        unfold Loop.overlap
        rcases hinv1.nodrain hd with h | h <;> simp [h]
        all_goals (cases s1.pc <;> rfl)
      simp only [this]
      exact ih s1 s hinv1 h

/-- Full statement (all schedules, also with draining) — FALSE for the transcribed code: finding C46-F1. -/
def received_subsequence_in_order_full : Prop :=
  ∀ (c : Cfg) (tr : List Act) (s : Loop), run c {} tr = some s → s.received.Sublist s.sentIn

/-- **C46-F1, proved counter-example**: with DrainOnShutdown the caller of `stop` sends the remaining
    batch while the loop goroutine's request is still in flight; if that one lands later, the
    Alertmanager receives `[2, 1]` although `[1, 2]` was sent. -/
theorem reorder_overlap_witness : ¬ received_subsequence_in_order_full := by
  intro h
  have := h ⟨2, 1, true⟩ [.add [1], .wake, .take, .add [2], .stop, .dtake, .dresult .ok, .result .ok]
    { queue := [], flag := true, stopped := true, pc := .post, dpc := .draining, sentIn := [1, 2], taken := [1, 2],
      received := [2, 1], batchSizes := [1, 1], nIn := 2, nSent := 2 } (by rfl)
  revert this; decide

/-- **Draining attempts everything before `stop` returns.** With DrainOnShutdown, under every schedule
    after `stop`: once the drain is complete (`dpc = done`, i.e. `sendLoop.stop` returns) the queue is
    empty, every alert queued at the time of `stop` has been taken into a request, and nothing was added. -/
theorem drain_attempts_all_queued_before_stop (c : Cfg) (hd : c.drain = true) (tr0 tr : List Act) (s s' : Loop)
    (h0 : run c {} tr0 = some s) (hs : s.stopped = false)
    (h : run c s (.stop :: tr) = some s') (hdone : s'.dpc = .done) :
    s'.queue = [] ∧ s'.taken = s.taken ++ s.queue ∧ s'.sentIn = s.sentIn := by
  have inv := run_Inv c tr0 {} s (inv_init c) h0
  have hnone : s.dpc = .none := inv.stopNone.mpr hs
  have hstep : step c s .stop = some ({ s with stopped := true, dpc := .draining }, []) := by
    simp [step, Loop.midStop, hnone, hs, hd]
  simp only [run, hstep] at h
  have hI : StopInv c (s.taken ++ s.queue) s.sentIn { s with stopped := true, dpc := .draining } :=
    ⟨rfl, by simp, rfl, rfl, fun _ h => by simp at h⟩
  have := run_inv c (StopInv c (s.taken ++ s.queue) s.sentIn)
    (fun s a s' e hp hs => step_stopInv c _ _ s a s' e hp hs) tr _ s' hI h
  obtain ⟨_, _, hT, hIn, hq⟩ := this
  have hq' := hq hd hdone
  refine ⟨hq', ?_, hIn⟩
  simpa [hq'] using hT

example : ∃ s', run ⟨4, 2, true⟩ { queue := [1, 2, 3], sentIn := [1, 2, 3], nIn := 3 }
    [.stop, .dtake, .dresult .ok, .dtake, .dresult .fail, .dtake] = some s' ∧ s'.dpc = .done ∧
    s'.taken = [1, 2, 3] ∧ s'.received = [1, 2, 3] := ⟨_, rfl, by decide⟩

/-- **`add` and `stop` are serialised** (the withdrawn candidate F5): between `stop` and the end of its
    drain `add` is not enabled (its caller waits for `alertmanagerSet.mtx`, held by the caller of `stop`);
    on a stopped loop `add` changes nothing; so in every reachable state whose drain is complete the
    queue is empty — nothing can be enqueued behind the drain. -/
theorem add_stop_serialised (c : Cfg) :
    (∀ (s : Loop) (as : List Nat), s.midStop = true → step c s (.add as) = none) ∧
    (∀ (s : Loop) (as : List Nat) (r : Loop × List Eff), s.stopped = true → step c s (.add as) = some r → r = (s, [])) ∧
    (c.drain = true → ∀ (tr0 tr : List Act) (s s' : Loop), run c {} tr0 = some s → s.stopped = false →
        run c s (.stop :: tr) = some s' → s'.dpc = .done → s'.queue = []) := by
  refine ⟨?_, ?_, ?_⟩
  · intro s as h; simp [step, h]
  · intro s as r hst h
    simp only [step] at h
    split at h
    · simp at h
    · simp [hst] at h; exact h.symm
  · intro hd tr0 tr s s' h0 hs h hdone
    exact (drain_attempts_all_queued_before_stop c hd tr0 tr s s' h0 hs h hdone).1

/-- Without DrainOnShutdown `stop` counts exactly the queued alerts as dropped (and logs that count). -/
theorem stop_without_drain_counts_queue (c : Cfg) (hd : c.drain = false) (s s' : Loop) (e : List Eff)
    (hs : s.stopped = false) (hm : s.midStop = false) (h : step c s .stop = some (s', e)) :
    s'.nStopDropped = s.nStopDropped + s.queue.length ∧ e = [.logNoDrain s.queue.length, .dropped s.queue.length, .delete] := by
  simp [step, hm, hs, hd] at h
  obtain ⟨rfl, rfl⟩ := h
  exact ⟨rfl, rfl⟩

/-- **An in-flight batch is unaffected by later adds: the batch posted equals the batch taken.**
    Let the loop goroutine `take` a non-empty batch `b` (= the front `maxBatch` alerts of the queue) in ANY
    state `s0`. Then under EVERY schedule `tr` of the other actions that follows before its `result` — `add`s
    that append to the queue, overflow it and drop its oldest alerts, `stop`, every step of the drain — the
    loop goroutine still holds exactly `b`; the request that goes out is for `b` (`arrive b` is the only request
    effect of the take), its `result v` is enabled, makes exactly `b`'s outcome observable (`rx b` at the
    Alertmanager unless the transport failed; `sent` / `errors`+`dropped` += |b|) and appends exactly `b` to
    what the Alertmanager received. The harness realises these schedules with its second gate
    ("notifier.batchTaken": the goroutine parked between `nextBatch()` and the JSON encoding). -/
theorem inflight_batch_unaffected (c : Cfg) (s0 s1 s2 : Loop) (e1 : List Eff) (tr : List Act) (v : Verdict)
    (htake : step c s0 .take = some (s1, e1)) (hne : s0.queue.take c.maxBatch ≠ [])
    (hrun : run c s1 tr = some s2) (hnores : ∀ v', Act.result v' ∉ tr) :
    e1 = [.setQ (s0.queue.drop c.maxBatch).length, .arrive (s0.queue.take c.maxBatch)] ∧
    s2.pc = .sending (s0.queue.take c.maxBatch) ∧
    ∃ s3, step c s2 (.result v) = some (s3, outcomeEffs (s0.queue.take c.maxBatch) v) ∧
      s3.received = s2.received ++ deliveredOf (s0.queue.take c.maxBatch) v := by
  simp only [step] at htake
  split at htake
  · have hemp : (s0.queue.take c.maxBatch).isEmpty = false := by
      cases h : s0.queue.take c.maxBatch with
      | nil => exact absurd h hne
      | cons _ _ => rfl
    simp only [hemp, Bool.false_eq_true, if_false, Option.some.injEq, Prod.mk.injEq] at htake
    obtain ⟨rfl, rfl⟩ := htake
    have hpc := run_sending_stable c (s0.queue.take c.maxBatch) tr _ s2 rfl hnores hrun
    refine ⟨rfl, hpc, ?_⟩
    obtain ⟨h1, h2⟩ := outcome_effs s2 (s0.queue.take c.maxBatch) v
    refine ⟨{ (s2.outcome (s0.queue.take c.maxBatch) v).1 with pc := .post }, ?_, h2⟩
    simp [step, hpc, h1]
  · simp at htake

example : ∃ s, run ⟨3, 2, false⟩ {} [.add [1, 2], .wake, .take, .add [3], .add [4, 5, 6], .result .ok] = some s ∧
    s.received = [1, 2] ∧ s.queue = [4, 5, 6] ∧ s.nOverflow = 1 ∧ s.nSent = 2 := ⟨_, rfl, by decide⟩

/-- The same for a batch taken by the drain (`dtake` … `dresult`): nothing but its own `dresult` touches it. -/
theorem drain_batch_unaffected (c : Cfg) (s1 s2 : Loop) (b : List Nat) (tr : List Act) (v : Verdict)
    (hd : s1.dpc = .dsending b) (hrun : run c s1 tr = some s2) (hnores : ∀ v', Act.dresult v' ∉ tr) :
    s2.dpc = .dsending b ∧
    ∃ s3, step c s2 (.dresult v) = some (s3, outcomeEffs b v) ∧ s3.received = s2.received ++ deliveredOf b v := by
  have hpc := run_dsending_stable c b tr s1 s2 hd hnores hrun
  obtain ⟨h1, h2⟩ := outcome_effs s2 b v
  exact ⟨hpc, { (s2.outcome b v).1 with dpc := .draining }, by simp [step, hpc, h1], h2⟩

example : ∃ s, run ⟨4, 1, true⟩ {} [.add [1, 2], .wake, .take, .stop, .dtake, .result .fail, .post, .dresult .ok] = some s ∧
    s.received = [1, 2] := ⟨_, rfl, by decide⟩

end Prom.C46
