import PromModel.Suites.NotifySuite
namespace Prom.C46
open Prom.SendLoop

theorem add_blocked_mid_stop (c : Cfg) (s : Loop) (as : List Nat) (h : s.midStop = true) :
    step c s (.add as) = none := by
  simp [step, h]

end Prom.C46
