import PromModel.Labels.Regex
import PromModel.Suites.RegexSuite
import PromProofs.RegexDeriv
import PromProofs.RegexSet
import PromProofs.RegexNodes
import PromProofs.RegexClear
/-
  C17 — Optimized regex matching equals regular-expression semantics.

  `L r s` = the fully anchored expression `r` (tree returned by `syntax.Parse(v, Perl|DotNL)`) matches `s`;
  `matchD` = the executable derivative matcher (also the model of the fallback `m.re.MatchString`);
  `fsm` = `findSetMatchesInternal`, `SM`/`SM.matches` = the `StringMatcher` nodes, `smInternal` =
  `stringMatcherFromRegexpInternal`, `Fast.matches` = `compileMatchStringFunction`'s dispatch.
  Case folding is the explicit table `foldEq` (exact for ASCII incl. K/ſ, and for the listed non-ASCII runes).
-/
namespace Prom.C17
open Prom.Regex

/-! ## the reference semantics is executable -/

/-- The derivative matcher decides the denotational semantics (for every tree, incl. `\A`/`\z` anywhere,
    repeats, captures, case-insensitive literals). -/
theorem deriv_correct (r : Re) (s : Str) : matchD r s = true ↔ L r s := by
  unfold matchD L
  exact matchB_iff _ _ _

example : matchD (.cat [.bot, .lit true [70, 79], .star .any, .eot]) [102, 79, 10, 120] = true := by decide

/-! ## set matches -/

/-- `findSetMatchesInternal` (fixed or not): when it returns a **case-sensitive** set (the only kind exposed by
    `SetMatches()`), a string matches the expression exactly when it is in that set. -/
theorem setMatches_exact (fixed : Bool) (r : Re) (vs : List Str) (h : fsm fixed r [] = some (vs, true)) (s : Str) :
    L r s ↔ s ∈ vs := by
  obtain ⟨_, _, h3⟩ := fsm_spec fixed r [] vs h
  have := h3 true true s
  simp only [List.nil_append, exists_eq_left'] at this
  exact this.symm

/-- the same behind a base string, as used inside concatenations -/
theorem setMatches_exact_base (fixed : Bool) (r : Re) (base : Str) (vs : List Str)
    (h : fsm fixed r base = some (vs, true)) (x : Str) :
    x ∈ vs ↔ ∃ t, x = base ++ t ∧ L r t :=
  (fsm_spec fixed r base vs h).2.2 true true x

/-- `clearCapture` keeps the language. -/
theorem clearCapture_preserves (r : Re) (s : Str) : L (clearCap r) s ↔ L r s := clearCap_L r s

/-- `clearBeginEndText` on a top-level concatenation (the `\A` / `\z` stripping) keeps the language. -/
theorem clearBeginEndText_preserves (a b : Re) (rest : List Re) (s : Str) :
    L (clearBeginEndText (.cat (a :: b :: rest))) s ↔ L (.cat (a :: b :: rest)) s :=
  clearBeginEndText_cat_L a b rest s

/-- `findSetMatches` (= `clearBeginEndText` then `findSetMatchesInternal`) on a top-level concatenation: an exposed
    (case-sensitive) set is exactly the language of the expression as given, anchors included. -/
theorem findSetMatches_exact (fixed : Bool) (a b : Re) (rest : List Re) (vs : List Str)
    (h : fsm fixed (clearBeginEndText (.cat (a :: b :: rest))) [] = some (vs, true)) (s : Str) :
    L (.cat (a :: b :: rest)) s ↔ s ∈ vs :=
  (clearBeginEndText_preserves a b rest s).symm.trans (setMatches_exact fixed _ vs h s)

example : fsm true (clearBeginEndText (.cat [.bot, .lit false [97], .cls false [49, 50], .eot])) [] =
    some ([[97, 49], [97, 50]], true) := by decide

example : fsm true (.cat [.lit false [102, 111, 111], .alt [.empty false, .lit false [98, 97, 114]]]) [] =
    some ([[102, 111, 111], [102, 111, 111, 98, 97, 114]], true) := by decide

/-- F14 on the code before the repair: `(?i:a)|b` is parsed as the class `[Aab]` carrying the FoldCase flag; the
    compiled matcher accepts "B", the expression does not. -/
theorem charclass_foldflag_witness :
    (compile false [40,63,105,58,97,41,124,98] (.cls true [65,65,97,98]) (.cls true [65,65,97,98])).matches [66] = true
    ∧ matchD (.cls true [65,65,97,98]) [66] = false := by decide

/-- … and after the repair (the flag is honoured only for a class closed under case folding) it does not. -/
theorem charclass_fixed_witness :
    (compile true [40,63,105,58,97,41,124,98] (.cls true [65,65,97,98]) (.cls true [65,65,97,98])).matches [66] = false
    ∧ (compile true [40,63,105,58,97,41,124,98] (.cls true [65,65,97,98]) (.cls true [65,65,97,98])).setMatches
        = [[65], [97], [98]] := by decide

/-! ## StringMatcher nodes: `Matches` = the node's denotation (in terms of its children) -/

theorem matcher_node_sound :
    (∀ v s, (SM.eq v true).matches s = true ↔ s = v)
    ∧ (∀ v s b e, (SM.eq v false).matches s = true ↔ M (litB true v) b e s)
    ∧ (∀ vs s, (SM.multiSlice true vs).matches s = true ↔ s ∈ vs)
    ∧ (∀ vs s, (SM.multiMap true vs 0 []).matches s = true ↔ s ∈ vs)
    ∧ (∀ p r s, (SM.prefixS p r).matches s = true ↔ ∃ t, s = p ++ t ∧ r.matches t = true)
    ∧ (∀ l p s, (SM.suffix l p true).matches s = true ↔ ∃ t, s = t ++ p ∧ l.matches t = true)
    ∧ (∀ ms s, (SM.or ms).matches s = true ↔ ∃ m ∈ ms, m.matches s = true)
    ∧ (∀ l subs r s, (SM.contains (some l) subs (some r)).matches s = true ↔
        ∃ sub ∈ subs, ∃ a b, s = a ++ sub ++ b ∧ l.matches a = true ∧ r.matches b = true)
    ∧ (∀ subs r s, (SM.contains none subs (some r)).matches s = true ↔
        ∃ sub ∈ subs, ∃ b, s = sub ++ b ∧ r.matches b = true)
    ∧ (∀ l subs s, (SM.contains (some l) subs none).matches s = true ↔
        ∃ sub ∈ subs, ∃ a, s = a ++ sub ∧ l.matches a = true)
    ∧ (∀ s, SM.emptyM.matches s = true ↔ s = [])
    ∧ (∀ s, SM.trueM.matches s = true)
    ∧ (∀ s b e, SM.anyNoNL.matches s = true ↔ M (.star (.chr .notNL)) b e s) := by
  refine ⟨?_, ?_, ?_, ?_, ?_, ?_, ?_, ?_, ?_, ?_, ?_, ?_, ?_⟩
  · intro v s
    simp only [SM.matches, if_true, beq_iff_eq]
    exact eq_comm
  · intro v s b e; simp [SM.matches, litB_true_iff]
  · intro vs s
    simp only [SM.matches, if_true, Bool.and_eq_true, List.any_eq_true, beq_iff_eq, List.contains_iff_mem]
    constructor
    · exact fun h => h.2
    · exact fun h => ⟨⟨s, h, rfl⟩, h⟩
  · intro vs s
    simp only [SM.matches, if_true, Bool.or_eq_true, Bool.and_eq_true, Bool.not_eq_true', List.any_eq_true,
      beq_iff_eq, List.contains_iff_mem, lookupMatches, Bool.and_false, or_false, Nat.lt_irrefl, decide_false,
      Bool.false_and]
    constructor
    · rintro (h | h)
      · exact h.2
      · cases h
    · intro h
      left
      refine ⟨⟨?_, ?_⟩, h⟩
      · cases vs with
        | nil => cases h
        | cons _ _ => rfl
      · cases hb : (vs.any fun v => lenBit v == lenBit s) with
        | true => simp
        | false =>
          exfalso
          simp only [List.any_eq_false, beq_iff_eq] at hb
          exact hb s h rfl
  · intro p r s
    simp only [SM.matches]
    constructor
    · intro h
      cases hp : stripPrefix s p with
      | none => simp [hp] at h
      | some t => simp only [hp] at h; exact ⟨t, (stripPrefix_iff _ _ _).mp hp, h⟩
    · rintro ⟨t, hs, ht⟩
      rw [(stripPrefix_iff _ _ _).mpr hs]; exact ht
  · intro l p s
    simp only [SM.matches, if_true]
    constructor
    · intro h
      cases hp : stripSuffix s p with
      | none => simp [hp] at h
      | some t => simp only [hp] at h; exact ⟨t, (stripSuffix_iff _ _ _).mp hp, h⟩
    · rintro ⟨t, hs, ht⟩
      rw [(stripSuffix_iff _ _ _).mpr hs]; exact ht
  · intro ms s; simp [SM.matches, anyMatches_iff]
  · intro l subs r s
    simp only [SM.matches, List.any_eq_true, anyOccur_iff, List.reverse_nil, List.nil_append, Bool.and_eq_true]
  · intro subs r s
    simp only [SM.matches, List.any_eq_true]
    constructor
    · rintro ⟨sub, hsub, h⟩
      cases hp : stripPrefix s sub with
      | none => simp [hp] at h
      | some t => simp only [hp] at h; exact ⟨sub, hsub, t, (stripPrefix_iff _ _ _).mp hp, h⟩
    · rintro ⟨sub, hsub, t, hs, ht⟩
      exact ⟨sub, hsub, by rw [(stripPrefix_iff _ _ _).mpr hs]; exact ht⟩
  · intro l subs s
    simp only [SM.matches, List.any_eq_true]
    constructor
    · rintro ⟨sub, hsub, h⟩
      cases hp : stripSuffix s sub with
      | none => simp [hp] at h
      | some t => simp only [hp] at h; exact ⟨sub, hsub, t, (stripSuffix_iff _ _ _).mp hp, h⟩
    · rintro ⟨sub, hsub, t, hs, ht⟩
      exact ⟨sub, hsub, by rw [(stripSuffix_iff _ _ _).mpr hs]; exact ht⟩
  · intro s; simp [SM.matches]
  · intro s; simp [SM.matches]
  · intro s b e; simp [SM.matches, star_notNL_iff]

/-! ## stringMatcherFromRegexp -/

/-- the full statement (not proved for the concatenation / alternation cases) -/
def stringMatcher_correct_full : Prop :=
  ∀ (r : Re) (m : SM) (s : Str), smInternal true r = some m → (m.matches s = true ↔ L r s)

/-- the leaf kinds of `stringMatcherFromRegexpInternal` -/
inductive Leaf : Re → Prop
  | lit (fold rs) : Leaf (.lit fold rs)
  | empty (f) : Leaf (.empty f)
  | starAny : Leaf (.star .any)
  | starNotNL : Leaf (.star .anyNotNL)

/-- PARTIAL: `stringMatcher_correct_full` restricted to the leaf kinds (literal — case sensitive or not —, empty
    match, `.*`, `(?-s:.*)`); the concat/alternate cases (prefix, suffix, contains, or) are covered compositionally by
    `matcher_node_sound` + `setMatches_exact_base` but not assembled into one statement. -/
theorem stringMatcher_correct_partial (fixed : Bool) (r : Re) (hr : Leaf r) (m : SM) (s : Str)
    (h : smInternal fixed r = some m) : m.matches s = true ↔ L r s := by
  cases hr with
  | lit fold rs =>
    simp only [smInternal, Option.some.injEq] at h
    subst h
    cases fold with
    | false =>
      simp only [SM.matches, L, toBin, litB_false_iff, Bool.not_false, if_true, beq_iff_eq]
      exact eq_comm
    | true => simp [SM.matches, L, toBin, litB_true_iff]
  | empty f =>
    simp only [smInternal, Option.some.injEq] at h
    subst h
    simp [SM.matches, L, toBin, M_eps]
  | starAny =>
    simp only [smInternal, Option.some.injEq] at h
    subst h
    simp [SM.matches, L, toBin, star_any_iff]
  | starNotNL =>
    simp only [smInternal, Option.some.injEq] at h
    subst h
    simp [SM.matches, L, toBin, star_notNL_iff]

example : smInternal true (.lit true [70, 79, 79]) = some (.eq [70, 79, 79] false) := by simp [smInternal]

/-! ## the dispatch of `compileMatchStringFunction` -/

/-- the headline statement -/
def fast_eq_full : Prop :=
  ∀ (v : Str) (parsed reast : Re) (s : Str), (∀ t, L reast t ↔ L parsed t) →
    ((compile true v parsed reast).matches s = true ↔ L parsed s)

/-- PARTIAL: the dispatch in `compileMatchStringFunction` is correct provided each ingredient is: the single set
    match is exact, the string matcher (if any) is exact, the compiled expression means the same as the given one
    (`regexp/syntax` print/parse round trip — the hypothesis finding F29 showed to be false before the repair),
    and prefix / suffix / contains are necessary conditions. What is missing for `fast_eq_full`: the assembly of
    `stringMatcherFromRegexp` for concatenations/alternations, `optimizeConcatRegex`'s necessity, and the
    literal-alternation fast path (which works on the pattern text, not on the tree). -/
theorem fast_eq_full_partial (f : Fast) (Lr : Str → Prop) (hdirect : f.direct = false)
    (hset : ∀ v, f.setMatches = [v] → ∀ s, Lr s ↔ s = v)
    (hsm : ∀ m, f.sm = some m → ∀ s, m.matches s = true ↔ Lr s)
    (hre : ∃ r, f.re = some r ∧ ∀ s, L r s ↔ Lr s)
    (hpfx : f.opt.pfx ≠ [] → ∀ s, Lr s →
      (if f.opt.ciPrefix then (stripPrefixFold s f.opt.pfx).isSome else (stripPrefix s f.opt.pfx).isSome) = true)
    (hsfx : f.opt.sfx ≠ [] → ∀ s, Lr s → (stripSuffix s f.opt.sfx).isSome = true)
    (hcont : f.opt.contains ≠ [] → ∀ s, Lr s → containsInOrder s f.opt.contains = true)
    (s : Str) : f.matches s = true ↔ Lr s := by
  obtain ⟨r, hr, hrL⟩ := hre
  have hreM : matchD r s = true ↔ Lr s := (deriv_correct r s).trans (hrL s)
  unfold Fast.matches
  simp only [hdirect, hr, Bool.false_eq_true, if_false]
  split
  · next v hv =>
    rw [hset v hv s]; simp
  · split
    · next hc =>
      cases hm : f.sm with
      | none => simp [hm] at hc
      | some m => simp only []; exact hsm m hm s
    · split
      · next hci =>
        simp only [Bool.and_eq_true, Bool.not_eq_true', List.isEmpty_eq_false_iff] at hci
        simp only [Bool.and_eq_true, hreM]
        constructor
        · exact fun h => h.2
        · intro h
          have := hpfx hci.2 s h
          simp only [hci.1, if_true] at this
          exact ⟨this, h⟩
      · next hci =>
        split
        · next hp =>
          simp only [Bool.false_eq_true, false_iff]
          intro h
          simp only [Bool.and_eq_true, Bool.not_eq_true', List.isEmpty_eq_false_iff, Option.isNone_iff_eq_none] at hp
          have := hpfx hp.1 s h
          have hci' : f.opt.ciPrefix = false := by
            cases hcp : f.opt.ciPrefix with
            | false => rfl
            | true => simp [hcp, hp.1] at hci
          simp [hci', hp.2] at this
        · split
          · next hs =>
            simp only [Bool.false_eq_true, false_iff]
            intro h
            simp only [Bool.and_eq_true, Bool.not_eq_true', List.isEmpty_eq_false_iff, Option.isNone_iff_eq_none] at hs
            have := hsfx hs.1 s h
            simp [hs.2] at this
          · split
            · next hcn =>
              simp only [Bool.false_eq_true, false_iff]
              intro h
              simp only [Bool.and_eq_true, Bool.not_eq_true', List.isEmpty_eq_false_iff] at hcn
              have := hcont hcn.1 s h
              simp [hcn.2] at this
            · cases hm : f.sm with
              | none => simpa using hreM
              | some m => simpa using hsm m hm s

/-- the hypotheses are satisfiable: `foo.*` compiles to prefix "foo" + `literalPrefix(foo, trueMatcher)` -/
example : (compile true [102,111,111,46,42] (.cat [.lit false [102,111,111], .star .any])
      (.cat [.bot, .cat [.lit false [102,111,111], .star .any], .eot])).matches [102,111,111,10] = true := by decide

/-! ## F15: the case-insensitive multi-value matcher is not simple case folding outside ASCII -/

/-- `(?i)É|v0|…` with 16 or more alternates is matched through `toNormalisedLower` (NFKD + ToLower): the
    decomposed "é" is accepted although no alternate is equal to it under simple case folding … -/
theorem unicode_multimatcher_witness :
    (newMulti false 16 ([[0xC9]] ++ (List.range 15).map fun i => [86, 48 + i])).matches [101, 0x301] = true
    ∧ (([[0xC9]] ++ (List.range 15).map fun i => [86, 48 + i]).any fun v => equalFold v [101, 0x301]) = false
    -- … and "wς" is rejected although it is equal to the alternate "WΣ" under simple case folding
    ∧ (newMulti false 16 ([[87, 0x3A3]] ++ (List.range 15).map fun i => [86, 48 + i])).matches [119, 0x3C2] = false
    ∧ equalFold [87, 0x3A3] [119, 0x3C2] = true := by decide

/-- ASCII: the normalisation used by the map matcher identifies exactly the letters that differ by case
    (sample: the boundary letters A K S Z a k s z and their neighbours @ [ ` { 0, all pairs). -/
theorem ascii_normalised_lower_fold :
    ∀ a ∈ [65, 75, 83, 90, 91, 97, 107, 115, 122, 64, 96, 123, 48], ∀ c ∈ [65, 75, 83, 90, 91, 97, 107, 115, 122, 64, 96, 123, 48],
      (toNormalisedLower [a] == toNormalisedLower [c]) = foldEq a c := by decide

end Prom.C17
