import PromModel.Labels.Regex
import PromModel.Suites.RegexSuite

namespace Prom.C17
open Prom.Regex

/-- F14 on the unfixed code: `(?i:a)|b` is parsed as the class `[Aab]` carrying the FoldCase flag. -/
theorem charclass_foldflag_witness :
    (compile false [40,63,105,58,97,41,124,98] (.cls true [65,65,97,98]) (.cls true [65,65,97,98])).matches [66] = true
    ∧ matchD (.cls true [65,65,97,98]) [66] = false := by decide

end Prom.C17
