import PromModel.Remote.Otlp
import PromProofs.OtlpLayout
/-
  C43 — OTLP metrics convert to Prometheus series without distorting values.
  Property theorems only; helper lemmas (the loop invariant of `convertBucketsLayout`) live in
  PromProofs/OtlpLayout.lean.

  Notation: `bucket l j` is the absolute count the sparse layout `l = (spans, deltas)` stores for bucket
  index `j` (absent = 0); `refSum P 0 counts` is the sum of the source buckets `i` with `P i`;
  `target offset k i = (offset + i) >> k + 1` is the documented target index of source bucket `i`.
-/
namespace Prom.C43
open Prom.Otlp

/-- The model's `shr` is Go's arithmetic right shift. -/
theorem shr_eq_shiftRight (x : Int) (k : Nat) : shr x k = x >>> k := by
  rw [Int.shiftRight_eq_div_pow]; simp [shr]

/-- **layout_sem** (repaired code, every scale-down `k`): each target bucket holds exactly the sum of
    the source buckets it covers. -/
theorem layout_sem (counts : List Int) (offset : Int) (k : Nat) (j : Int) :
    bucket (convertG true counts offset k true) j
      = refSum (fun i => decide (target offset k i = j)) 0 counts := by
  rw [(convertG_sem true counts offset k true (Or.inl rfl)).1 j]
  congr 1; funext i
  apply decide_eq_decide.mpr
  simp [shiftOf, nextIdx, target]

/-- `layout_sem` for the code as it stands in /repo (`convert = convertG repoFixed`, F24 repaired). -/
theorem layout_sem_repo (counts : List Int) (offset : Int) (k : Nat) (j : Int) :
    bucket (convert counts offset k true) j
      = refSum (fun i => decide (target offset k i = j)) 0 counts :=
  layout_sem counts offset k j

/-- The total count is preserved (repaired code, every `k`, both offset conventions). -/
theorem layout_total (counts : List Int) (offset : Int) (k : Nat) (adj : Bool) :
    tot (entries (convertG true counts offset k adj)) = lsum counts :=
  (convertG_sem true counts offset k adj (Or.inl rfl)).2.1

/-- Empty input gives the empty layout. -/
theorem layout_empty (fixed : Bool) (offset : Int) (k : Nat) (adj : Bool) :
    convertG fixed [] offset k adj = ([], []) := rfl

/-- The statement the code as found (`fixed = false`) was meant to satisfy; it does not (F24). -/
def layout_sem_unfixed_full : Prop :=
  ∀ (counts : List Int) (offset : Int) (k : Nat) (j : Int),
    bucket (convertG false counts offset k true) j
      = refSum (fun i => decide (target offset k i = j)) 0 counts

/-- Code as found: correct when nothing is merged (`k = 0`, OTLP scale ≤ 8). -/
theorem layout_sem_partial (counts : List Int) (offset : Int) (j : Int) :
    bucket (convertG false counts offset 0 true) j
      = refSum (fun i => decide (target offset 0 i = j)) 0 counts := by
  rw [(convertG_sem false counts offset 0 true (Or.inr rfl)).1 j]
  congr 1; funext i
  apply decide_eq_decide.mpr
  simp [shiftOf, nextIdx, target]

/-- F24: the code as found mis-buckets when a merged target bucket is empty:
    scale 9 (`k = 1`), offset −16, counts `[0 0 0 0 4 3 3 0 0]` gives {−6:4, −5:3, −4:3}
    where the sources sum to {−5:7, −4:3} (indices −7 … −2 listed). -/
theorem layout_shift_witness :
    (List.range 6).map (fun (t : Nat) => bucket (convertG false [0, 0, 0, 0, 4, 3, 3, 0, 0] (-16) 1 true) ((t : Int) - 7))
      = [0, 4, 3, 3, 0, 0]
    ∧ (List.range 6).map (fun (t : Nat) => refSum (fun i => target (-16) 1 i = (t : Int) - 7) 0 [0, 0, 0, 0, 4, 3, 3, 0, 0])
      = [0, 0, 7, 3, 0, 0]
    ∧ (List.range 6).map (fun (t : Nat) => bucket (convertG true [0, 0, 0, 0, 4, 3, 3, 0, 0] (-16) 1 true) ((t : Int) - 7))
      = [0, 0, 7, 3, 0, 0] := by decide

theorem layout_sem_unfixed_full_false : ¬ layout_sem_unfixed_full := by
  intro h
  have := h [0, 0, 0, 0, 4, 3, 3, 0, 0] (-16) 1 (-6)
  revert this; decide

/-- Custom-bucket convention (`adjustOffset = false`, no scaling): source bucket `i` lands at
    `offset + i`; holds for the code before and after the repair. -/
theorem layout_sem_custom (fixed : Bool) (counts : List Int) (offset : Int) (j : Int) :
    bucket (convertG fixed counts offset 0 false) j
      = refSum (fun i => decide ((i : Int) + offset = j)) 0 counts := by
  rw [(convertG_sem fixed counts offset 0 false (Or.inr rfl)).1 j]
  congr 1; funext i
  have e : (nextIdx offset 0 i - shiftOf offset 0 false = j) ↔ ((i : Int) + offset = j) := by
    simp only [nextIdx, shiftOf, shr_zero, Bool.false_eq_true, if_false]
    constructor <;> intro h <;> omega
  exact decide_eq_decide.mpr e

/-- **explicit_to_custom_spec**: the custom-bucket histogram keeps the explicit bounds as custom values
    and bucket `j` holds `counts[j]` (OTLP explicit bucket counts are not cumulative, so there is no
    de-cumulation; leading zero buckets are skipped through the span offset). -/
theorem explicit_to_custom_spec (fixed : Bool) (p : ExplicitPoint) (t : Temp) (j : Nat) :
    (explicitToCustomG fixed p t).1.custom = p.bounds ∧
    (explicitToCustomG fixed p t).1.schema = customBucketsSchema ∧
    (explicitToCustomG fixed p t).1.neg = ([], []) ∧
    bucket (explicitToCustomG fixed p t).1.pos j = p.counts.getD j 0 :=
  ⟨rfl, rfl, rfl, custom_bucket_eq fixed p.counts j⟩

/-- Deltas and spans are aligned: number of deltas = Σ span lengths. -/
theorem spans_deltas_aligned (counts : List Int) (offset : Int) (k : Nat) (adj : Bool) :
    totalLen (convertG true counts offset k adj).1 = (convertG true counts offset k adj).2.length :=
  (convertG_sem true counts offset k adj (Or.inl rfl)).2.2

/-- **spans_wellformed** (code before and after the repair, every `k`): every span after the first
    starts after a gap of more than two empty buckets and is non-empty; the number of deltas is the
    sum of the span lengths. Documented exception, visible in the statement: the *first* span may
    have length 0 (leading run of more than two empty target buckets, e.g. counts `[0,0,0,0,0,5]`
    give spans `1:0,5:1`). -/
theorem spans_wellformed (counts : List Int) (offset : Int) (k : Nat) (adj : Bool) :
    (∀ fixed, ∀ s ∈ (convertG fixed counts offset k adj).1.drop 1, 2 < s.offset ∧ 1 ≤ s.length) ∧
    totalLen (convertG true counts offset k adj).1 = (convertG true counts offset k adj).2.length :=
  ⟨fun fixed => convertG_wf fixed counts offset k adj, spans_deltas_aligned counts offset k adj⟩

theorem first_span_empty_witness :
    convertG true [0, 0, 0, 0, 0, 5] 0 0 true = ([⟨1, 0⟩, ⟨5, 1⟩], [5]) := by decide

/-- **time_conversion**: for nanosecond timestamps in the int64 range the millisecond timestamp is the
    truncation `⌊ns / 10^6⌋`. -/
theorem time_conversion (ns : Nat) (h : ns < two63) :
    convTime ns * 1000000 ≤ ns ∧ (ns : Int) < (convTime ns + 1) * 1000000 := by
  have h64 : ns % two64 = ns := Nat.mod_eq_of_lt (by unfold two63 at h; unfold two64; omega)
  have e : toI64 ns = ns := by simp [toI64, h64, h]
  have nn : (0 : Int) ≤ (ns : Int) := by omega
  rw [convTime, e, Int.tdiv_eq_ediv_of_nonneg nn]
  omega

example : convTime 1700000000123456789 = 1700000000123 := by decide

/-- Timestamps at or above 2^63 ns are reinterpreted as negative int64 and truncate toward zero
    (outside the domain of real OTLP data; transcribed, not judged). -/
theorem time_conversion_wrap_witness : convTime (two63 + 999999) = -9223372036853 := by decide

/-- **number_point_spec**: `NoRecordedValue` yields the stale marker, doubles pass bit-for-bit
    (NaN payloads and signed zeros included), an unset value is 0. -/
theorem number_point_spec (v : NumVal) (b : Nat) :
    numberValue v true = staleNaN ∧ numberValue (.double b) false = b ∧ numberValue .empty false = 0 := by
  simp [numberValue]

/-- Integer values convert with round-to-nearest-even (witnesses at the 2^53 boundary and the int64 extremes). -/
theorem number_int_witness :
    numberValue (.int 1) false = 0x3ff0000000000000 ∧
    numberValue (.int (-1)) false = 0xbff0000000000000 ∧
    numberValue (.int (2 ^ 53 + 1)) false = 0x4340000000000000 ∧
    numberValue (.int (2 ^ 53 + 3)) false = 0x4340000000000002 ∧
    numberValue (.int (2 ^ 63 - 1)) false = 0x43e0000000000000 ∧
    numberValue (.int (-(2 ^ 63))) false = 0xc3e0000000000000 := by decide

/-- Flags / temporality: delta temporality gives the gauge hint, `NoRecordedValue` the stale markers
    for count and sum, the schema is clamped to 8, the zero count is kept. -/
theorem flags_temporality_spec (fixed : Bool) (p : ExpPoint) (t : Temp) (h : schemaMin ≤ p.scale) :
    ∃ r w, expToNativeG fixed p t = some (r, w) ∧
      r.hint = (if t = .delta then hintGauge else hintUnknown) ∧
      r.schema = min p.scale schemaMax ∧ r.zeroCount = p.zeroCount ∧
      (p.noRecorded = true → r.count = staleNaN ∧ r.sumBits = staleNaN) ∧
      (p.noRecorded = false → r.count = p.count ∧ r.sumBits = (if p.hasSum then p.sumBits else 0)) := by
  have hs : ¬ p.scale < schemaMin := by omega
  simp only [expToNativeG, hs, if_false]
  refine ⟨_, _, rfl, rfl, ?_, rfl, ?_, ?_⟩
  · show (if p.scale > schemaMax then schemaMax else p.scale) = min p.scale schemaMax
    simp only [schemaMax]; omega
  · intro hn; simp [countSum, hn]
  · intro hn; simp [countSum, hn]

example : schemaMin ≤ (⟨9, false, true, 0, 10, 0, -16, [0, 0, 0, 0, 4, 3, 3, 0, 0], 0, []⟩ : ExpPoint).scale := by decide

end Prom.C43
