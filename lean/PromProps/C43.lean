import PromModel.Remote.Otlp
/-
  C43 — OTLP metrics convert to Prometheus series without distorting values.
  Property theorems only; helper lemmas live in PromProofs/OtlpLayout.lean.
-/
namespace Prom.C43
open Prom.Otlp

/-- F24: the code as found (`fixed = false`) mis-buckets when a merged target bucket is empty:
    scale 9 (`k = 1`), offset −16, counts `[0 0 0 0 4 3 3 0 0]`. -/
theorem layout_shift_witness :
    (List.range 6).map (fun (t : Nat) => bucket (convertG false [0, 0, 0, 0, 4, 3, 3, 0, 0] (-16) 1 true) ((t : Int) - 7))
      = [0, 4, 3, 3, 0, 0]
    ∧ (List.range 6).map (fun (t : Nat) => refSum (fun i => target (-16) 1 i = (t : Int) - 7) 0 [0, 0, 0, 0, 4, 3, 3, 0, 0])
      = [0, 0, 7, 3, 0, 0] := by decide

end Prom.C43
