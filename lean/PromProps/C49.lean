import PromModel.Config.Normalize
import PromModel.Suites.ConfigSuite
/-
  Property C49 — printing a configuration and loading it back is lossless.

  The statements are about `Prom.Config` (PromModel/Config/Normalize.lean), whose scalar (un)marshalling is
  driven by the field table REGENERATED from config/config.go + model/relabel/relabel.go on every run
  (`Prom.Config.Gen.fields`). `omitempty_sound` is therefore re-proved against the current source text: a new
  field tagged `omitempty` whose pre-decode default is not the zero value of its kind breaks it.
-/
namespace Prom.C49
open Prom.Config

instance instDecEqExcept {ε α : Type} [DecidableEq ε] [DecidableEq α] : DecidableEq (Except ε α) := fun a b =>
  match a, b with
  | .ok x, .ok y => if h : x = y then isTrue (h ▸ rfl) else isFalse (fun e => h (by injection e))
  | .error x, .error y => if h : x = y then isTrue (h ▸ rfl) else isFalse (fun e => h (by injection e))
  | .ok _, .error _ => isFalse (fun e => by cases e)
  | .error _, .ok _ => isFalse (fun e => by cases e)

/-! ### the regenerated obligation -/

/-- Why a row with `omitempty` and a non-zero default is tolerated. Only `losesZero` rows are defects (F16;
    after fixes/F16.patch those rows no longer carry omitempty and their entries here are vacuous):
    the zero value is a valid, distinct setting and print→load turns it into the default. -/
inductive Why
  | losesZero        -- F16
  | zeroInvalid      -- the zero value is rejected by validation: no valid configuration holds it
  | zeroMeansDefault -- the decoder replaces the zero value by the default anyway (RuntimeConfig.isZero)
  | zeroUnreachable  -- the zero value (nil) cannot be the result of a load
deriving DecidableEq, Repr

def exceptionTable : List (String × String × Why) := [
  ("Config", "Runtime", .zeroMeansDefault),
  ("Config", "OTLPConfig", .losesZero),
  ("RuntimeConfig", "GoGC", .zeroMeansDefault),
  ("ScrapeConfig", "MetricsPath", .losesZero),
  ("ScrapeConfig", "Scheme", .losesZero),
  ("TracingConfig", "ClientType", .zeroInvalid),
  ("AlertmanagerConfig", "Scheme", .losesZero),
  ("AlertmanagerConfig", "Timeout", .losesZero),
  ("RemoteWriteConfig", "RemoteTimeout", .losesZero),
  ("RemoteWriteConfig", "ProtobufMessage", .zeroInvalid),
  ("RemoteWriteConfig", "QueueConfig", .zeroInvalid),
  ("RemoteWriteConfig", "MetadataConfig", .losesZero),
  ("QueueConfig", "Capacity", .zeroInvalid),
  ("QueueConfig", "MaxShards", .zeroInvalid),
  ("QueueConfig", "MinShards", .zeroInvalid),
  ("QueueConfig", "MaxSamplesPerSend", .zeroInvalid),
  ("QueueConfig", "BatchSendDeadline", .losesZero),
  ("QueueConfig", "MinBackoff", .losesZero),
  ("QueueConfig", "MaxBackoff", .losesZero),
  ("MetadataConfig", "MaxSamplesPerSend", .losesZero),
  ("RemoteReadConfig", "RemoteTimeout", .losesZero),
  ("RemoteReadConfig", "ChunkedReadLimit", .losesZero),
  ("RemoteReadConfig", "FilterExternalLabels", .losesZero),
  ("OTLPConfig", "TranslationStrategy", .losesZero),
  ("OTLPConfig", "LabelNameUnderscoreSanitization", .losesZero),
  ("OTLPConfig", "LabelNamePreserveMultipleUnderscores", .losesZero),
  ("relabel.Config", "Regex", .zeroUnreachable),
  ("relabel.Config", "Action", .zeroInvalid)]

def knownExceptions : List (String × String) := exceptionTable.map fun e => (e.1, e.2.1)

/-- the decidable form of the obligation, evaluated on the regenerated table -/
def omitemptySoundB (fields : List Field) : Bool :=
  fields.all fun f => !f.omitempty || f.default == zero f.kind || knownExceptions.contains (f.struct, f.field)

/-- **Regenerated obligation.** Every field of the current config types that is tagged `omitempty` has the
    zero value of its kind as pre-decode default — the condition under which an explicitly configured zero
    survives print→load — or is one of the named exceptions. -/
theorem omitempty_sound :
    ∀ f ∈ Gen.fields, f.omitempty = true → f.default = zero f.kind ∨ (f.struct, f.field) ∈ knownExceptions := by
  have h : omitemptySoundB Gen.fields = true := by decide +kernel
  intro f hf ho
  have := (List.all_eq_true.mp h) f hf
  simp only [ho, Bool.not_true, Bool.false_or, Bool.or_eq_true, beq_iff_eq, List.contains_iff_mem] at this
  exact this

/-- the table still has the shape the model relies on: the modelled scalar rows exist, in this order -/
theorem schema_shapes :
    scrapeSchema.map (·.field) = scrapeNames ∧ globalSchema.map (·.field) = globalNames ∧
    relabelSchema.map (·.field) = relabelNames ∧ rwSchema.map (·.field) = rwNames ∧
    queueSchema.map (·.field) = queueNames ∧ metaSchema.map (·.field) = metaNames ∧
    rrSchema.map (·.field) = rrNames ∧ amSchema.map (·.field) = amNames ∧ otlpSchema.map (·.field) = otlpNames ∧
    tsdbSchema.map (·.field) = tsdbNames ∧ retentionSchema.map (·.field) = retentionNames := by
  decide +kernel

/-! ### the omitempty rule: records round-trip exactly when no exception field holds its zero -/

/-- yaml.Marshal of the scalar fields followed by the decode of the result -/
def reloadRec (sch : List Field) (r : Rec) : Res Rec := decodeRec sch (marshalRec sch r)

/-- the record of a struct whose scalar fields hold `vals` -/
def recOf (sch : List Field) (vals : Field → Val) : Rec := sch.map fun f => (f.field, vals f)

/-- a field is safe for the value it holds: not (omitempty ∧ zero value ∧ non-zero default) -/
def SafeAt (f : Field) (v : Val) : Prop := f.omitempty = true → v = zeroVal f.kind → defaultVal f = zeroVal f.kind

private theorem lookup_recOf (sch : List Field) (vals : Field → Val)
    (hnd : (sch.map (·.field)).Nodup) (f : Field) (hf : f ∈ sch) :
    (recOf sch vals).lookup f.field = some (vals f) := by
  induction sch with
  | nil => cases hf
  | cons g rest ih =>
    simp only [recOf, List.map_cons, List.lookup_cons]
    rw [List.map_cons, List.nodup_cons] at hnd
    rcases List.mem_cons.mp hf with rfl | hmem
    · simp
    · have hne : f.field ≠ g.field := fun h => hnd.1 (h ▸ List.mem_map_of_mem hmem)
      have : (f.field == g.field) = false := by simpa using hne
      rw [this]
      exact ih hnd.2 hmem

private theorem lookup_filterMap_yaml (sch : List Field) (g : Field → Option (String × YNode))
    (hg : ∀ f y, g f = some y → y.1 = f.yaml)
    (hnd : (sch.map (·.yaml)).Nodup) (f : Field) (hf : f ∈ sch) :
    (sch.filterMap g).lookup f.yaml = (g f).map (·.2) := by
  induction sch with
  | nil => cases hf
  | cons h rest ih =>
    rw [List.map_cons, List.nodup_cons] at hnd
    rcases List.mem_cons.mp hf with rfl | hmem
    · simp only [List.filterMap_cons]
      cases hgf : g f with
      | none =>
        simp only [Option.map_none]
        -- f.yaml does not occur among the keys of the rest
        have : ∀ l : List Field, (∀ x ∈ l, x.yaml ≠ f.yaml) → (l.filterMap g).lookup f.yaml = none := by
          intro l hl
          induction l with
          | nil => rfl
          | cons a t iht =>
            simp only [List.filterMap_cons]
            cases hga : g a with
            | none => exact iht (fun x hx => hl x (List.mem_cons_of_mem _ hx))
            | some y =>
              have hy := hg a y hga
              have hne : f.yaml ≠ y.1 := by rw [hy]; exact fun h => hl a (List.mem_cons_self) h.symm
              obtain ⟨y1, y2⟩ := y
              simp only [List.lookup_cons]
              have : (f.yaml == y1) = false := by simpa using hne
              rw [this]
              exact iht (fun x hx => hl x (List.mem_cons_of_mem _ hx))
        exact this rest (fun x hx h => hnd.1 (h ▸ List.mem_map_of_mem hx))
      | some y =>
        have hy := hg f y hgf
        obtain ⟨y1, y2⟩ := y
        simp only at hy
        subst hy
        simp [List.lookup_cons]
    · have hne : f.yaml ≠ h.yaml := fun e => hnd.1 (e ▸ List.mem_map_of_mem hmem)
      simp only [List.filterMap_cons]
      cases hgh : g h with
      | none => exact ih hnd.2 hmem
      | some y =>
        have hy := hg h y hgh
        obtain ⟨y1, y2⟩ := y
        simp only at hy
        subst hy
        simp only [List.lookup_cons]
        have : (f.yaml == h.yaml) = false := by simpa using hne
        rw [this]
        exact ih hnd.2 hmem

private theorem mapM_ok_of_forall {α β : Type} (l : List α) (f : α → Res β) (g : α → β)
    (h : ∀ a ∈ l, f a = .ok (g a)) : l.mapM f = .ok (l.map g) := by
  induction l with
  | nil => rfl
  | cons a t ih =>
    rw [List.mapM_cons, h a List.mem_cons_self, ih (fun x hx => h x (List.mem_cons_of_mem _ hx))]
    rfl

/-- **Record round trip (the omitempty rule).** For ANY schema with distinct field names and yaml keys and
    any values, printing the scalar fields and decoding the result returns the record, provided no field
    tagged omitempty with a non-zero default holds its kind's zero value. -/
theorem record_roundtrip (sch : List Field) (vals : Field → Val)
    (hF : (sch.map (·.field)).Nodup) (hY : (sch.map (·.yaml)).Nodup)
    (hsafe : ∀ f ∈ sch, SafeAt f (vals f)) :
    reloadRec sch (recOf sch vals) = .ok (recOf sch vals) := by
  unfold reloadRec decodeRec
  apply mapM_ok_of_forall
  intro f hf
  have hl := lookup_recOf sch vals hF f hf
  unfold marshalRec
  rw [lookup_filterMap_yaml (hnd := hY) (hf := hf)]
  rotate_left
  · intro a y h
    split at h
    · split at h
      · cases h
      · cases h; rfl
    · cases h
  rw [hl]
  by_cases hz : (f.omitempty && vals f == zeroVal f.kind) = true
  · simp only [hz, if_true, Option.map_none]
    simp only [Bool.and_eq_true, beq_iff_eq] at hz
    rw [hsafe f hf hz.1 hz.2, hz.2]
  · simp only [hz, Option.map_some, decodeScalar, Except.map]
    rfl

/-- **…and only then.** A field tagged omitempty whose default differs from its kind's zero loses an
    explicitly configured zero: the record comes back holding the default. -/
theorem omitempty_loses_zero (f : Field) (ho : f.omitempty = true) (hd : defaultVal f ≠ zeroVal f.kind) :
    reloadRec [f] [(f.field, zeroVal f.kind)] = .ok [(f.field, defaultVal f)] ∧
    reloadRec [f] [(f.field, zeroVal f.kind)] ≠ .ok [(f.field, zeroVal f.kind)] := by
  have h : reloadRec [f] [(f.field, zeroVal f.kind)] = .ok [(f.field, defaultVal f)] := by
    simp [reloadRec, decodeRec, marshalRec, ho, List.lookup]
    rfl
  refine ⟨h, ?_⟩
  rw [h]
  intro e
  injection e with e
  simp at e
  exact hd e

/-! ### witnesses for the code as found (rows copied from the table at the pinned commit) -/

/-- F16: `otlp: {label_name_underscore_sanitization: false}` reloads as `true`. -/
theorem omitempty_loses_zero_witness_otlp :
    reloadRec [⟨"OTLPConfig", "LabelNameUnderscoreSanitization", "label_name_underscore_sanitization", .bool, true, "true", "own:DefaultOTLPConfig"⟩]
      [("LabelNameUnderscoreSanitization", .b false)] = .ok [("LabelNameUnderscoreSanitization", .b true)] := by
  decide +kernel

/-- F16: `remote_read[].filter_external_labels: false` reloads as `true`. -/
theorem omitempty_loses_zero_witness_filter :
    reloadRec [⟨"RemoteReadConfig", "FilterExternalLabels", "filter_external_labels", .bool, true, "true", "own:DefaultRemoteReadConfig"⟩]
      [("FilterExternalLabels", .b false)] = .ok [("FilterExternalLabels", .b true)] := by
  decide +kernel

/-- F16: `scrape_configs[].metrics_path: ""` reloads as `/metrics`. -/
theorem omitempty_loses_zero_witness_path :
    reloadRec [⟨"ScrapeConfig", "MetricsPath", "metrics_path", .string, true, "/metrics", "own:DefaultScrapeConfig"⟩]
      [("MetricsPath", .s "")] = .ok [("MetricsPath", .s "/metrics")] := by
  decide +kernel

/-- the repaired tag (no omitempty) keeps the zero -/
theorem omitempty_fixed_keeps_zero_witness :
    reloadRec [⟨"OTLPConfig", "LabelNameUnderscoreSanitization", "label_name_underscore_sanitization", .bool, false, "true", "own:DefaultOTLPConfig"⟩]
      [("LabelNameUnderscoreSanitization", .b false)] = .ok [("LabelNameUnderscoreSanitization", .b false)] := by
  decide +kernel

/-- F17: the external label value written `foo$${TEST}` loads as `foo${TEST}`, is printed unescaped, and the
    reload expands it (empty environment) to `foo`. -/
theorem external_label_dollar_witness :
    expandEnv "foo$${TEST}" = "foo${TEST}" ∧ expandEnv (expandEnv "foo$${TEST}") = "foo" := by
  decide +kernel

/-! ### normalisation is idempotent -/

theorem inh_idem (a g : Int) : inh (inh a g) g = inh a g := by
  unfold inh; split <;> simp_all

theorem inhB_idem (a g : Option Bool) : inhB (inhB a g) g = inhB a g := by
  unfold inhB; cases a <;> cases g <;> simp

theorem inhS_idem (a g : String) : inhS (inhS a g) g = inhS a g := by
  unfold inhS; split <;> simp_all

/-- **`GlobalConfig.UnmarshalYAML` defaulting is idempotent.** -/
theorem finishGlobal_idempotent (g : Global) : finishGlobal (finishGlobal g) = finishGlobal g := by
  cases g with
  | mk si st ei rq ql sf bs sl tl ll lnl lvl kd esc cc ac v nh em pr el =>
    simp only [finishGlobal, minute, second, Global.mk.injEq, true_and, and_true]
    refine ⟨?_, ?_, ?_, ?_, ?_, ?_⟩
    · grind
    · grind
    · grind
    · grind
    · cases nh <;> simp
    · cases em <;> simp

theorem globalEscaping_ne (g : Global) : globalEscaping g ≠ "" := by
  unfold globalEscaping
  split
  · split <;> decide
  · assumption

/-- **normalize_idempotent (scrape configs).** The filling part of `ScrapeConfig.Validate` — inheritance from
    global and derived defaults, for a fixed global configuration — reaches a fixed point after one pass. -/
theorem fillScrape_idempotent (g : Global) (c : Scrape) : fillScrape g (fillScrape g c) = fillScrape g c := by
  have hge := globalEscaping_ne g
  cases c with
  | mk jn hl ht ts si st fb fl mp sch cp bs sl tl ll lnl lvl bl kd esc v nh ac cc em pr rl ml =>
    simp only [fillScrape, inh_idem, inhB_idem, inhS_idem, Scrape.mk.injEq, true_and, and_true]
    refine ⟨?_, ?_, ?_, ?_, ?_, ?_⟩
    all_goals first
      | (cases ac <;> simp; done)
      | (cases cc <;> simp; done)
      | grind [defaultProtocols, protoFirstProtocols]

/-- **validate_stable**: the checks of `ScrapeConfig.Validate` give the same verdict on the normalised
    configuration as on the first pass (re-validating a loaded scrape config cannot start failing). -/
theorem validate_stable (g : Global) (c : Scrape) :
    scrapeOk g (fillScrape g (fillScrape g c)) = scrapeOk g (fillScrape g c) := by
  rw [fillScrape_idempotent]

/-! ### the whole-configuration statement -/

/-- Full statement (model level): every configuration produced by `load` is reproduced by loading its
    printed form, and printing that again gives the same document. NOT proved in this generality; it is
    FALSE on the tree as found (F16, repaired by fixes/F16.patch; F17 remains — witnesses above). What is proved: the record-level theorem
    `record_roundtrip` (every struct's scalar fields, for all values avoiding the exception fields at
    zero), idempotence of both normalisation passes, and the instances below evaluated by the kernel.
    Missing: lifting `record_roundtrip` through the list/option-valued fields of `Config`. -/
def print_load_fixpoint_full : Prop :=
  ∀ doc c, load doc = .ok c →
    (∀ l ∈ c.global.externalLabels, ¬ l.2.contains '$') →
    load (print c) = .ok c ∧ (∀ c', load (print c) = .ok c' → print c' == print c)

def allSchemas : List (List Field) :=
  [globalSchema, scrapeSchema, relabelSchema, rwSchema, queueSchema, metaSchema, rrSchema, amSchema, otlpSchema,
   tsdbSchema, retentionSchema]

theorem schemas_wellformed :
    ∀ sch ∈ allSchemas, (sch.map (·.field)).Nodup ∧ (sch.map (·.yaml)).Nodup ∧ ∀ f ∈ sch, f ∈ Gen.fields := by
  have h : (allSchemas.all fun sch =>
      decide ((sch.map (·.field)).Nodup) && decide ((sch.map (·.yaml)).Nodup) && sch.all (Gen.fields.contains ·)) = true := by
    decide +kernel
  intro sch hs
  have := List.all_eq_true.mp h sch hs
  simp only [Bool.and_eq_true, decide_eq_true_eq, List.all_eq_true, List.contains_iff_mem] at this
  exact ⟨this.1.1, this.1.2, this.2⟩

theorem default_zero (f : Field) (h : f.default = zero f.kind) : defaultVal f = zeroVal f.kind := by
  unfold defaultVal; simp [h]

/-- a row of the regenerated table that is not a named exception is safe for every value -/
theorem safe_of_not_exception (f : Field) (hf : f ∈ Gen.fields) (hne : (f.struct, f.field) ∉ knownExceptions)
    (v : Val) : SafeAt f v := by
  intro ho _
  rcases omitempty_sound f hf ho with h | h
  · exact default_zero f h
  · exact absurd h hne

/-- **print_load_fixpoint (proved part).** For every modelled struct of the CURRENT config types (schemas
    taken from the regenerated table) and all field values: printing the scalar fields with the omitempty
    rule and decoding the printed form returns exactly the same record, as long as none of the named
    exception fields holds the zero value of its kind. -/
theorem print_load_fixpoint_partial (sch : List Field) (hs : sch ∈ allSchemas) (vals : Field → Val)
    (hex : ∀ f ∈ sch, (f.struct, f.field) ∈ knownExceptions → vals f ≠ zeroVal f.kind) :
    reloadRec sch (recOf sch vals) = .ok (recOf sch vals) := by
  obtain ⟨hF, hY, hsub⟩ := schemas_wellformed sch hs
  apply record_roundtrip sch vals hF hY
  intro f hf
  by_cases hk : (f.struct, f.field) ∈ knownExceptions
  · intro _ hz
    exact absurd hz (hex f hf hk)
  · exact safe_of_not_exception f (hsub f hf) hk (vals f)

/-- the hypotheses are satisfiable: all-default values of the scrape schema avoid the exceptions at zero
    only if the defaults are non-zero there — e.g. every field holding `true`/1/"x" -/
example : reloadRec otlpSchema (recOf otlpSchema fun f => match f.kind with | .bool => .b true | _ => .s "x")
    = .ok (recOf otlpSchema fun f => match f.kind with | .bool => .b true | _ => .s "x") := by
  apply print_load_fixpoint_partial _ (by simp [allSchemas])
  intro f _ _
  cases f.kind <;> simp [zeroVal]

end Prom.C49
