import PromModel.Tsdb.CompactPlan
import PromModel.Suites.PlanSuite
import PromProofs.CompactPlan
/-
  C08 — Compaction planning converges and never mixes block classes.
  Property theorems only (helper lemmas: PromProofs/CompactPlan.lean). All statements are about the
  transcribed planner `Prom.CompactPlan.plan` (= `LeveledCompactor.plan`), for every listing `dms` of
  block metas with distinct directories and well-formed time ranges, and every configuration with at
  least one range whose ranges[1:] are positive (`Cfg.Ok`).
-/
namespace Prom.C08
open Prom.CompactPlan

/-! concrete states used by the `example`s -/
def cfgEx : Cfg := ⟨[10, 30, 90], true⟩
def blk (id : Nat) (a b : Int) : Meta := { id := id, mint := a, maxt := b }
def metasEx : List Meta := [blk 0 (-30) (-20), blk 1 (-20) (-10), blk 2 (-10) 0, blk 3 0 10]

example : cfgEx.Ok := by decide
example : ∀ d ∈ enum metasEx, d.bm.WF := by decide
example : planMetas cfgEx metasEx = .ok [⟨0, blk 0 (-30) (-20)⟩, ⟨1, blk 1 (-20) (-10)⟩, ⟨2, blk 2 (-10) 0⟩] := by rfl

/-- The planner never panics and never returns an error on a configuration inside the statement. -/
theorem plan_total (cfg : Cfg) (dms : List DirMeta) (hok : cfg.Ok) : ∃ p, plan cfg dms = .ok p :=
  plan_ok cfg dms hok

/-- The statement as evaluated by the correspondence judge holds of the model's plan. -/
theorem plan_allowed (cfg : Cfg) (dms p : List DirMeta) (hok : cfg.Ok)
    (hwf : ∀ d ∈ dms, d.bm.WF) (hnd : (dms.map (·.dir)).Nodup) (h : plan cfg dms = .ok p) :
    PlanAllowed cfg dms p :=
  Prom.CompactPlan.plan_allowed cfg dms p hok hwf hnd h

/-- Shape: a plan is empty, or a set of ≥2 blocks each overlapping another one (overlapping compaction
    enabled), or ≥2 blocks none failed, inside one window of a configured range ranges[1:], excluding a
    same-class block that starts no earlier than all of them (the newest; pairwise non-overlapping when
    overlapping compaction is enabled), or a single block satisfying the tombstone rule. -/
theorem plan_shape (cfg : Cfg) (dms p : List DirMeta) (hok : cfg.Ok)
    (hwf : ∀ d ∈ dms, d.bm.WF) (hnd : (dms.map (·.dir)).Nodup) (h : plan cfg dms = .ok p) :
    p = [] ∨ ShapeOverlap cfg p ∨ ShapeRange cfg dms p ∨ ShapeTomb cfg p := by
  rcases plan_allowed cfg dms p hok hwf hnd h with h0 | ⟨_, _, _, hs⟩
  · exact Or.inl h0
  · exact Or.inr hs

/-- The planned blocks are distinct blocks of the listing. -/
theorem plan_subset (cfg : Cfg) (dms p : List DirMeta) (hok : cfg.Ok)
    (hnd : (dms.map (·.dir)).Nodup) (h : plan cfg dms = .ok p) :
    (∀ d ∈ p, d ∈ dms) ∧ (p.map (·.dir)).Nodup := by
  obtain ⟨cls, hsub, _, hpc⟩ := plan_spec cfg dms p hok h
  have hso := (planClass_subOf cfg cls p hok hpc).of_sublist hsub
  exact ⟨hso.mem, hso.nodup hnd⟩

/-- A plan never mixes head-view classes (stale-series / selected-series / regular). No hypothesis on
    the blocks. -/
theorem plan_one_class (cfg : Cfg) (dms p : List DirMeta) (hok : cfg.Ok) (h : plan cfg dms = .ok p) :
    OneClass p := by
  obtain ⟨cls, _, hcl, hpc⟩ := plan_spec cfg dms p hok h
  have hm := (planClass_subOf cfg cls p hok hpc).mem
  intro a ha b hb
  exact hcl a (hm a ha) b (hm b hb)

/-- With overlapping compaction disabled no plan is justified by overlap: it is a range group or a
    tombstone rewrite. -/
theorem plan_overlap_only_if_enabled (cfg : Cfg) (dms p : List DirMeta) (hok : cfg.Ok)
    (hwf : ∀ d ∈ dms, d.bm.WF) (hnd : (dms.map (·.dir)).Nodup) (h : plan cfg dms = .ok p)
    (hoff : cfg.overlapping = false) :
    p = [] ∨ ShapeRange cfg dms p ∨ ShapeTomb cfg p := by
  rcases plan_shape cfg dms p hok hwf hnd h with h0 | h1 | h2 | h3
  · exact Or.inl h0
  · have := h1.1; rw [hoff] at this; exact absurd this (by decide)
  · exact Or.inr (Or.inl h2)
  · exact Or.inr (Or.inr h3)

/-- …and with it enabled, every range group consists of pairwise non-overlapping blocks. -/
theorem plan_range_group_disjoint_if_enabled (cfg : Cfg) (dms p : List DirMeta)
    (hs : ShapeRange cfg dms p) (hon : cfg.overlapping = true) :
    p.Pairwise (fun a b => ¬ intersects a.bm b.bm) := hs.2.2.2.2 hon

/-- Deviation from the literal statement, kept visible: with overlapping compaction *disabled* the range
    rule is applied to whatever blocks are there, so a planned range group can contain overlapping blocks
    ([0,10) and [5,15) below). -/
theorem plan_range_group_may_overlap_when_disabled_witness :
    planMetas ⟨[10, 30], false⟩ [blk 0 0 10, blk 1 5 15, blk 2 20 30, blk 3 40 50]
      = .ok [⟨0, blk 0 0 10⟩, ⟨1, blk 1 5 15⟩, ⟨2, blk 2 20 30⟩]
    ∧ intersects (blk 0 0 10) (blk 1 5 15) := ⟨by rfl, by decide⟩

/-- `splitByRange`: every group lies inside one window `[tr·k, tr·k + tr]` of the grid of range `tr`,
    namely the one containing the start of its first block — for all integers, negative times included
    (the code's two-branch truncated-division formula is floor division). -/
theorem splitByRange_groups_within_aligned_range (tr : Int) (htr : 0 < tr) (fuel : Nat) (ds : List DirMeta)
    (hs : ds.Pairwise (fun a b => a.bm.mint ≤ b.bm.mint)) :
    ∀ g ∈ splitByRange tr fuel ds, ∃ d rest, g = d :: rest ∧ g.Sublist ds ∧
      ∃ k : Int, k = d.bm.mint / tr ∧ d.bm.mint < tr * k + tr ∧
        ∀ x ∈ g, tr * k ≤ x.bm.mint ∧ x.bm.maxt ≤ tr * k + tr := by
  intro g hg
  obtain ⟨d, rest, hgd, hsub, hmax⟩ := splitByRange_groups tr fuel ds g hg
  refine ⟨d, rest, hgd, hsub, d.bm.mint / tr, rfl, ?_, ?_⟩
  · have := (alignT0_spec d.bm.mint tr htr).2
    rwa [alignT0_eq_floor _ _ htr] at this
  · intro x hx
    have hm := hmax x hx
    rw [alignT0_eq_floor _ _ htr] at hm
    refine ⟨?_, hm⟩
    have h0 := (alignT0_spec d.bm.mint tr htr).1
    rw [alignT0_eq_floor _ _ htr] at h0
    have hps := hs.sublist hsub
    rw [hgd] at hx hps
    rcases List.mem_cons.mp hx with rfl | hx'
    · exact h0
    · have := (List.pairwise_cons.mp hps).1 x hx'; omega

example : splitByRange 30 4 (enum [blk 0 (-70) (-60), blk 1 (-20) (-10), blk 2 (-10) 0, blk 3 50 60])
    = [[⟨0, blk 0 (-70) (-60)⟩], [⟨1, blk 1 (-20) (-10)⟩, ⟨2, blk 2 (-10) 0⟩], [⟨3, blk 3 50 60⟩]] := by decide

/-- The float comparison `float64(nt)/float64(ns+1) > 0.05` (modelled exactly, see `tombRatioExceeds`)
    implies the exact 5 % rule, and coincides with it for `ns + 1 ≤ 2^52`. -/
theorem tombstone_rule_sound (nt ns : Nat) (h : tombRatioExceeds nt ns = true) : ns + 1 < 20 * nt :=
  tombRatio_sound nt ns h

theorem tombstone_rule_exact (nt ns : Nat) (hs : ns + 1 ≤ 2 ^ 52) :
    tombRatioExceeds nt ns = true ↔ ns + 1 < 20 * nt := tombRatio_exact nt ns hs

/-- Merged metadata carries the out-of-order hint iff every input does. -/
theorem meta_ooo_hint_iff_all (uid : Nat) (blocks : List Meta) (m : Meta)
    (h : compactBlockMetas uid blocks = .ok m) : m.ooo = true ↔ ∀ b ∈ blocks, b.ooo = true := by
  cases blocks with
  | nil => simp [compactBlockMetas] at h
  | cons b0 bs =>
    simp only [compactBlockMetas, Except.ok.injEq] at h
    subst h
    simp [List.all_eq_true]

/-- Merged metadata keeps the partial-view hints: it carries from-stale-series (from-selected-series) iff
    some input does — in particular a merge of blocks of one partial-view class stays in that class. -/
theorem meta_partial_view_hint_kept (uid : Nat) (blocks : List Meta) (m : Meta)
    (h : compactBlockMetas uid blocks = .ok m) :
    (m.stale = true ↔ ∃ b ∈ blocks, b.stale = true) ∧ (m.selected = true ↔ ∃ b ∈ blocks, b.selected = true) := by
  cases blocks with
  | nil => simp [compactBlockMetas] at h
  | cons b0 bs =>
    simp only [compactBlockMetas, Except.ok.injEq] at h
    subst h
    simp [List.any_eq_true]

/-- the class is preserved by merging blocks of one class -/
theorem meta_class_kept (uid : Nat) (blocks : List Meta) (m : Meta) (c : Cls)
    (h : compactBlockMetas uid blocks = .ok m) (hc : ∀ b ∈ blocks, b.cls = c) : m.cls = c := by
  obtain ⟨hs, he⟩ := meta_partial_view_hint_kept uid blocks m h
  cases blocks with
  | nil => simp [compactBlockMetas] at h
  | cons b0 bs =>
    have h0 := hc b0 (by simp)
    unfold Meta.cls at h0 ⊢
    by_cases s0 : b0.stale = true
    · have : m.stale = true := hs.mpr ⟨b0, by simp, s0⟩
      simp [this]; simpa [s0] using h0
    · have hns : m.stale ≠ true := by
        intro hm
        obtain ⟨b, hb, hbs⟩ := hs.mp hm
        have := hc b hb
        unfold Meta.cls at this
        rw [hbs] at this
        simp only [if_true] at this
        rw [← this] at h0
        simp [s0] at h0
        split at h0 <;> cases h0
      by_cases e0 : b0.selected = true
      · have : m.selected = true := he.mpr ⟨b0, by simp, e0⟩
        simp [hns, this]; simpa [s0, e0] using h0
      · have hne : m.selected ≠ true := by
          intro hm
          obtain ⟨b, hb, hbs⟩ := he.mp hm
          have := hc b hb
          unfold Meta.cls at this
          rw [hbs] at this
          simp [s0, e0] at h0
          rw [← h0] at this
          split at this <;> simp at this
        simp [hns, hne]; simpa [s0, e0] using h0

example : compactBlockMetas 9 [{ blk 0 0 10 with stale := true, ooo := true }, { blk 1 10 20 with stale := true }]
    = .ok { id := 9, mint := 0, maxt := 20, level := 2, stale := true, ooo := false,
            parents := [(0, 0, 10), (1, 10, 20)] } := by rfl

/-- Convergence: iterating plan + metadata-level compaction reaches the empty plan within
    `measure metas = |blocks| + |blocks with tombstones|` rounds (each round strictly decreases it). -/
theorem plan_converges (cfg : Cfg) (hok : cfg.Ok) (metas : List Meta) :
    ∃ n, n ≤ measure metas ∧ planMetas cfg (iterate cfg n metas) = .ok [] :=
  plan_converges_aux cfg hok (measure metas) metas (Nat.le_refl _)

/-- every non-empty plan strictly decreases the measure -/
theorem plan_step_decreases (cfg : Cfg) (hok : cfg.Ok) (metas : List Meta) (p : List DirMeta)
    (h : planMetas cfg metas = .ok p) (hne : p ≠ []) : measure (applyPlan metas p) < measure metas :=
  step_decreases cfg metas p hok h hne

example : (iterate cfgEx 1 metasEx).length = 2 ∧ measure metasEx = 4 := by decide

/-! ### link between the judge and the model -/

theorem enumFrom_get (k : Nat) (ms : List Meta) : ∀ d ∈ enumFrom k ms, k ≤ d.dir ∧ ms[d.dir - k]? = some d.bm := by
  induction ms generalizing k with
  | nil => simp [enumFrom]
  | cons m ms ih =>
    intro d hd
    simp only [enumFrom, List.mem_cons] at hd
    rcases hd with rfl | hd
    · simp
    · obtain ⟨h1, h2⟩ := ih (k + 1) d hd
      refine ⟨by omega, ?_⟩
      have : d.dir - k = (d.dir - (k + 1)) + 1 := by omega
      rw [this, List.getElem?_cons_succ]; exact h2

theorem dirsOf_of_mem (metas : List Meta) (p : List DirMeta) (h : ∀ d ∈ p, d ∈ enum metas) :
    dirsOf metas (p.map (·.dir)) = some p := by
  unfold dirsOf
  induction p with
  | nil => rfl
  | cons d ds ih =>
    have hd := (enumFrom_get 0 metas d (h d (by simp))).2
    simp only [Nat.sub_zero] at hd
    have ih' := ih (fun x hx => h x (by simp [hx]))
    simp only [List.map_cons, List.mapM_cons, hd, Option.map_some, ih']
    rfl

/-- The judge's plan clause accepts the model's own plan (statement-as-oracle link). -/
theorem plan_judge_ok (cfg : Cfg) (metas : List Meta) (p : List DirMeta) (hok : cfg.Ok)
    (hwf : ∀ m ∈ metas, m.WF) (h : planMetas cfg metas = .ok p) :
    planVerdict cfg metas (p.map (·.dir)) = none := by
  have hwf' : ∀ d ∈ enum metas, d.bm.WF := by
    intro d hd
    have := (enumFrom_get 0 metas d hd).2
    exact hwf _ (List.mem_of_getElem? this)
  have hall := plan_allowed cfg (enum metas) p hok hwf' (enum_nodup metas) h
  have hsub := (plan_subset cfg (enum metas) p hok (enum_nodup metas) h).1
  unfold planVerdict
  rw [dirsOf_of_mem metas p hsub]
  simp [hall]

end Prom.C08
