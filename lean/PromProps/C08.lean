import PromModel.Tsdb.CompactPlan
/-
  C08 — Compaction planning converges and never mixes block classes.
-/
namespace Prom.C08
open Prom.CompactPlan

theorem tombstone_rule_sound (nt ns : Nat) (h : tombRatioExceeds nt ns = true) : ns + 1 < 20 * nt := by
  simp [tombRatioExceeds] at h; omega

end Prom.C08
