import PromModel.Tsdb.SeriesRefs
import PromModel.Suites.RefsSuite
import PromProofs.RefsBound
/-
  C22 — samples are never attributed to the wrong series.  Model: `PromModel/Tsdb/SeriesRefs.lean`
  (`RefDb` = the shared storage model `Db` + everything the code keys by series reference).
-/
namespace Prom.C22
open Prom.Refs Prom.Db

/-- The empty history satisfies the statement. -/
theorem holds_nil : Refs.holds [] = true := by decide

/-- **ref_fresh** — over ALL histories (any configuration, any ops, including restarts, checkpoints and
    garbage collection): when `Append` allocates a reference (the passed one is unknown and the labels
    have no series), the new reference is `lastSeriesID + 1` and is named by nothing: not by a series in
    memory, not by the open appender, not by `walExpiries`, not by any reference returned earlier in this
    process lifetime, and not by any series or tombstone record still in checkpoint ∪ WAL segments. -/
theorem ref_fresh (c : Cfg) (ops : List ROp) (r i : Nat)
    (hl : lookup ((RefDb.init c).after ops).live r = none)
    (hb : byLabels ((RefDb.init c).after ops).live i = none) :
    let s := (RefDb.init c).after ops
    (s.getSeries r i).2 = s.lastID + 1 ∧
    (s.getSeries r i).2 ∉ s.live.map (·.1) ∧
    (s.getSeries r i).2 ∉ s.issued.map (·.1) ∧
    (s.getSeries r i).2 ∉ s.expiries.map (·.1) ∧
    ∀ w ∈ s.records, (s.getSeries r i).2 ∉ w.seriesRefs ∧ (s.getSeries r i).2 ∉ w.stoneRefs := by
  intro s
  have hB : RefBound s := after_bound ops (init_bound c)
  obtain ⟨h1, h2⟩ := getSeries_fresh hB r i hl hb
  refine ⟨h1, ?_, ?_, ?_, ?_⟩
  · exact fun h => h2 (mem_mentioned.mpr (Or.inl h))
  · exact fun h => h2 (mem_mentioned.mpr (Or.inr (Or.inr (Or.inr (Or.inr (Or.inr (Or.inl h)))))))
  · exact fun h => h2 (mem_mentioned.mpr (Or.inr (Or.inr (Or.inr (Or.inr (Or.inl h))))))
  · intro w hw
    constructor
    · exact fun h => h2 (mem_mentioned.mpr (Or.inr (Or.inr (Or.inr (Or.inr (Or.inr (Or.inr
        (List.mem_flatMap.mpr ⟨w, hw, List.mem_append.mpr (Or.inl h)⟩))))))))
    · exact fun h => h2 (mem_mentioned.mpr (Or.inr (Or.inr (Or.inr (Or.inr (Or.inr (Or.inr
        (List.mem_flatMap.mpr ⟨w, hw, List.mem_append.mpr (Or.inr h)⟩))))))))

/-- The hypotheses of `ref_fresh` are met: first append of a fresh database allocates reference 1. -/
example : (((RefDb.init ⟨1000, 0⟩).after [.base .begin]).getSeries 0 7).2 = 1 := by decide

/-- A restart restores a counter that bounds every reference the new head and the log name — with NO
    assumption on the state that was closed (this is where `lastSeriesID := max` over series AND
    tombstone records is used). -/
theorem restart_restores_bound (s : RefDb) : ∀ r ∈ s.reopen.mentioned, r ≤ s.reopen.lastID :=
  reopen_bound s

/-- **stale_ref_resolves** — what an `Append(r, labels i, …)` is applied to, exactly: the series the
    by-ref table maps `r` to if `r` is known — whatever labels were passed, there is no label check —
    and the series of the given labels otherwise. -/
theorem stale_ref_resolves (s : RefDb) (r i : Nat) (t : Int) (v k : Nat) :
    (s.step (.app r i t v k)).1.db = (s.db.step (.app (match lookup s.live r with | some j => j | none => i) t v)).1 := by
  have ht : s.target r i = (match lookup s.live r with | some j => j | none => i) := by
    unfold RefDb.target; cases lookup s.live r <;> rfl
  rw [← ht]
  simp only [RefDb.step, Db.step, RefDb.append]
  cases hd : (s.db.append (s.target r i) t v) with
  | mk d' res =>
    simp only
    split
    · rfl
    · split
      · rfl
      · cases res <;> rfl

/-- Within one process lifetime references are never reused: an outdated reference (its series was
    garbage-collected) is unknown to the by-ref table as soon as it is not named by it, and everything
    allocated later is larger. So `r` can only ever denote the series it was returned for, or nothing. -/
theorem later_refs_are_larger (c : Cfg) (ops : List ROp) (r i : Nat)
    (hr : r ∈ ((RefDb.init c).after ops).issued.map (·.1))
    (hl : lookup ((RefDb.init c).after ops).live 0 = none) (hb : byLabels ((RefDb.init c).after ops).live i = none) :
    r < (((RefDb.init c).after ops).getSeries 0 i).2 := by
  have hB : RefBound ((RefDb.init c).after ops) := after_bound ops (init_bound c)
  have h1 := (getSeries_fresh hB 0 i hl hb).1
  have h2 := hB.issued r hr
  omega

/-- `stale_ref_wrong_series_witness` — ACROSS a restart the general statement fails (reproduced on the
    real DB, corpus `refs-stale-ref-after-restart.ops`): series s0 (ref 1) lives on, s1 (ref 2) is
    garbage-collected; after enough restarts the checkpoint drops the series record of ref 2, the next
    restart restores `lastSeriesID = 1`, the new series s2 gets ref 2, and a client that still holds
    ref 2 for s1 and appends with it (and s1's labels) gets its sample stored under s2's labels. -/
def staleHistory : List ROp :=
  [.base .begin, .app 0 0 10 1 0, .app 0 1 10 1 0, .base .commit,
   .base .begin, .app 0 0 600 1 0, .base .commit, .base .begin, .app 0 0 1200 1 0, .base .commit,
   .base .begin, .app 0 0 1700 1 0, .base .commit,
   .base .reopen, .base .reopen, .base .reopen, .base .compact,
   .base .begin, .app 0 0 2300 1 0, .base .commit, .base .begin, .app 0 0 2800 1 0, .base .commit,
   .base .reopen, .base .reopen, .base .reopen, .base .compact,
   .base .reopen,
   .base .begin, .app 0 2 2900 1 0, .app 2 1 2950 5 3, .base .commit, .base (.q 2900 2950)]


/-- The model's outputs on that history: the last append is acknowledged with reference 2, and the
    query returns the sample (2950, 5) under s2 although it was appended with the labels of s1. -/
theorem stale_ref_wrong_series_witness :
    ((RefDb.init ⟨1000, 0⟩).run staleHistory).drop 29 =
      [.okRef 2, .okRef 2, .base .ok, .base (.rows [(2, [⟨2900, 1⟩, ⟨2950, 5⟩])])] ∧
    Refs.holdsFrom {} (staleHistory.zip ((RefDb.init ⟨1000, 0⟩).run staleHistory)) 0 = .staleRef 30 2 1 2 := by
  constructor
  · rfl
  · decide

/-- Restarts are what it takes: the counter after the last restart of that history is 1 although
    reference 2 had been handed out before. -/
theorem lastSeriesID_restarts_lower_witness :
    ((RefDb.init ⟨1000, 0⟩).after (staleHistory.take 28)).lastID = 1 ∧
    (2, 1) ∈ ((RefDb.init ⟨1000, 0⟩).after (staleHistory.take 4)).issued := by
  decide

end Prom.C22
