import PromModel.Tsdb.SeriesRefs
import PromModel.Suites.RefsSuite
namespace Prom.C22
open Prom.Refs Prom.Db

/-- The empty history satisfies the statement. -/
theorem holds_nil : Refs.holds [] = true := by decide

end Prom.C22
