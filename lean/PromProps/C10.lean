import PromProofs.ChunkXorSim
/-
  C10 — Float chunks return exactly what was appended (classic XOR chunk, `tsdb/chunkenc/xor.go`,
  `bstream.go`, `varbit.go`).  Property theorems only; lemmas live in `PromProofs/`.

  Model: `PromModel/Prelude/Bits.lean`, `PromModel/Tsdb/VarbitInt.lean`, `PromModel/Tsdb/ChunkXor.lean`.
  Timestamps are `Int` in the int64 range, values are 64-bit patterns (`Nat < 2^64`, never `Float`).
-/
namespace Prom.C10
open Prom.Bits Prom.Varbit Prom.ChunkXor

/-- `readBits n` right after `writeBits v n` returns the `n` low bits of `v` and leaves the rest untouched. -/
theorem bits_roundtrip (s rest : Bits) (v n : Nat) :
    readBits n (natToBits v n ++ rest) = some (v % 2 ^ n, rest) ∧
    writeBits s v n = s ++ natToBits v n :=
  ⟨readBits_natToBits v n rest, rfl⟩

example : readBits 14 (natToBits 0x3fff 14 ++ [true]) = some (0x3fff, [true]) := by
  simpa using readBits_natToBits 0x3fff 14 [true]

/-- Packing the stream into bytes and unpacking gives the stream back plus < 8 zero padding bits. -/
theorem bytes_roundtrip (bs : Bits) :
    fromBytes (toBytes bs) = bs ++ List.replicate (padLen bs.length) false ∧ padLen bs.length < 8 :=
  ⟨fromBytes_toBytes bs, padLen_lt _⟩

/-- `readVarbitInt` inverts `putVarbitInt` for every int64, whatever follows in the stream. -/
theorem varbit_roundtrip (v : Int) (rest : Bits) (hv : I64 v) :
    readVarbitInt (putVarbitInt v ++ rest) = some (v, rest) :=
  readVarbitInt_put v rest hv

example : I64 (-9223372036854775808) ∧ I64 9223372036854775807 ∧ I64 (-255) := by decide

/-- `readVarbitUint` inverts `putVarbitUint` for every uint64. -/
theorem varbit_uint_roundtrip (v : Nat) (rest : Bits) (hv : v < 2 ^ 64) :
    readVarbitUint (putVarbitUint v ++ rest) = some (v, rest) :=
  readVarbitUint_put v rest hv

/-- Go's varints as written through the bit stream. -/
theorem varint_roundtrip (t : Int) (rest : Bits) (ht : I64 t) :
    readVarint true (putVarint t ++ rest) = some (t, rest) :=
  readVarint_put true t rest ht

/-- Well-formed input: int64 timestamps, 64-bit value patterns. No ordering hypothesis. -/
def WF (ss : List Sample) : Prop := ∀ s ∈ ss, I64 s.1 ∧ s.2 < 2 ^ 64

/--
  The main clause: iterating the bytes of a classic XOR chunk returns exactly the appended
  `(timestamp, value bits)` sequence, without error — for ALL int64 timestamp sequences (no monotonicity
  needed: the encoding is exact modulo 2^64, which covers the statement's ±2^62 window with any deltas)
  and all 64-bit value patterns (NaN payloads, stale marker, ±0, ±Inf are just bit patterns), up to the
  chunk's capacity.
-/
theorem xor_roundtrip (ss : List Sample) (hlen : ss.length ≤ 65535) (hwf : WF ss) :
    decodeChunk (chunkBytes ss.length (encode ss)) = (ss, true) := by
  obtain ⟨d', hd, _⟩ := decodeFrom_encodeFrom ss 0 encInit decInit
    (List.replicate (padLen (encode ss).length) false) StRel_init hwf
  have hn : ss.length / 256 % 256 * 256 + ss.length % 256 = ss.length := by omega
  simp only [decodeChunk, chunkBytes, hn, fromBytes_toBytes, padTo8]
  simp only [encode] at hd ⊢
  rw [hd]

example : WF [(1000, 0x7ff0000000000002), (-5, 0), (9223372036854775807, 0xffffffffffffffff)] := by
  intro s hs
  simp only [List.mem_cons, List.mem_nil_iff, or_false] at hs
  rcases hs with rfl | rfl | rfl <;> decide

/-! ### Resuming on reloaded bytes (`FromData` + `Appender()`), finding F11 -/

/-- Reload the chunk holding `ss₁`, resume appending `ss₂`, iterate the result. -/
def resumed (fixed : Bool) (ss₁ ss₂ : List Sample) : Option (List Sample × Bool) :=
  match reopenG fixed (chunkBytes ss₁.length (encode ss₁)) with
  | none => none
  | some c =>
    match c.appendAll ss₂ with
    | .error _ => none
    | .ok c' => some (decodeChunk c'.bytes)

def three : List Sample := [(1000, 0x3ff0000000000000), (2000, 0x4000000000000000), (3000, 0x4008000000000000)]

/-- F11 (the code before `fix: chunkenc: restore the bit offset …`): `Appender()` on reloaded bytes left
    `bstream.count = 0`; `[1000:1, 2000:2, 3000:3]` reloaded, `Append(4000, 4)` reads back `4000:3`, no error. -/
theorem xor_resume_witness :
    resumed false three [(4000, 0x4010000000000000)] = some (three ++ [(4000, 0x4008000000000000)], true) := by
  decide +kernel

/-- The full resume clause for the repaired code (`fixed = true`, what /repo HEAD has): for every split
    point, reloading after `ss₁` and resuming with `ss₂` reads back `ss₁ ++ ss₂`.
    (Byte equality with continuous appending does not hold in general: after a reload the appender inherits
    the iterator's window `(0, 0)` instead of `0xff` when no value changed yet, and then writes a
    64-bit reuse code where the continuous appender writes a new-window code; both decode correctly.)
    NOT YET PROVED in general — what is missing is the lemma that iterating `encode ss₁` leaves exactly the
    padding unread, so that `reopenG true` restores `encode ss₁` with a state related by `StRel`; then
    `decodeFrom_encodeFrom` applies. It is checked on every run by the judge (reopen at every position). -/
def resume_eq_continue_full : Prop :=
  ∀ ss₁ ss₂ : List Sample, WF (ss₁ ++ ss₂) → (ss₁ ++ ss₂).length ≤ 65535 →
    resumed true ss₁ ss₂ = some (ss₁ ++ ss₂, true)

/-- Proved instances: every split point of a 4-sample chunk (value change, dod ≠ 0, repeated value). -/
theorem resume_eq_continue_partial :
    ∀ k ∈ [0, 1, 2, 3, 4],
      resumed true ((three ++ [(4007, 0x4008000000000000)]).take k) ((three ++ [(4007, 0x4008000000000000)]).drop k)
        = some (three ++ [(4007, 0x4008000000000000)], true) := by
  decide +kernel

/-! ### Seek -/

/-- `Seek t` on a fresh iterator over the chunk of `ss` lands on the first sample with timestamp ≥ t
    (in chunk order — for increasing timestamps: the earliest), `ValNone` iff there is none. -/
def seekOK (ss : List Sample) (t : Int) : Bool :=
  let r := iterSeek (iterNew (chunkBytes ss.length (encode ss))) t
  match ss.find? (fun s => decide (s.1 ≥ t)) with
  | some s => r.2 && decide ((r.1.st.t, r.1.st.v) = s)
  | none => !r.2

/-- Full Seek clause. NOT YET PROVED in general (needs the iterator-level version of the simulation
    invariant); evaluated by the judge on every run for random Next/Seek scripts. -/
def seek_first_geq_full : Prop :=
  ∀ (ss : List Sample) (t : Int), WF ss → ss.length ≤ 65535 → seekOK ss t = true

/-- Proved instances on a 4-sample chunk: before, at, between, after. -/
theorem seek_first_geq_partial :
    ∀ t ∈ ([-5, 1000, 1001, 2000, 2999, 3000, 3001, 4007, 4008] : List Int),
      seekOK (three ++ [(4007, 0x4008000000000000)]) t = true := by
  decide +kernel

end Prom.C10
