import PromModel.Tsdb.ChunkXor
/-
  C10 — Float chunks return exactly what was appended.
-/
namespace Prom.C10
open Prom.Bits Prom.Varbit Prom.ChunkXor

theorem bitRange_14_edge : bitRange 8192 14 = true ∧ bitRange (-8192) 14 = false := by decide

end Prom.C10
