import PromProofs.ChunkXorSim
import PromProofs.ChunkXor2Round
/-
  C10 — Float chunks return exactly what was appended (classic XOR chunk, `tsdb/chunkenc/xor.go`,
  `bstream.go`, `varbit.go`).  Property theorems only; lemmas live in `PromProofs/`.

  Model: `PromModel/Prelude/Bits.lean`, `PromModel/Tsdb/VarbitInt.lean`, `PromModel/Tsdb/ChunkXor.lean`.
  Timestamps are `Int` in the int64 range, values are 64-bit patterns (`Nat < 2^64`, never `Float`).
-/
namespace Prom.C10
open Prom.Bits Prom.Varbit Prom.ChunkXor

/-- `readBits n` right after `writeBits v n` returns the `n` low bits of `v` and leaves the rest untouched. -/
theorem bits_roundtrip (s rest : Bits) (v n : Nat) :
    readBits n (natToBits v n ++ rest) = some (v % 2 ^ n, rest) ∧
    writeBits s v n = s ++ natToBits v n :=
  ⟨readBits_natToBits v n rest, rfl⟩

example : readBits 14 (natToBits 0x3fff 14 ++ [true]) = some (0x3fff, [true]) := by
  simpa using readBits_natToBits 0x3fff 14 [true]

/-- Packing the stream into bytes and unpacking gives the stream back plus < 8 zero padding bits. -/
theorem bytes_roundtrip (bs : Bits) :
    fromBytes (toBytes bs) = bs ++ List.replicate (padLen bs.length) false ∧ padLen bs.length < 8 :=
  ⟨fromBytes_toBytes bs, padLen_lt _⟩

/-- `readVarbitInt` inverts `putVarbitInt` for every int64, whatever follows in the stream. -/
theorem varbit_roundtrip (v : Int) (rest : Bits) (hv : I64 v) :
    readVarbitInt (putVarbitInt v ++ rest) = some (v, rest) :=
  readVarbitInt_put v rest hv

example : I64 (-9223372036854775808) ∧ I64 9223372036854775807 ∧ I64 (-255) := by decide

/-- `readVarbitUint` inverts `putVarbitUint` for every uint64. -/
theorem varbit_uint_roundtrip (v : Nat) (rest : Bits) (hv : v < 2 ^ 64) :
    readVarbitUint (putVarbitUint v ++ rest) = some (v, rest) :=
  readVarbitUint_put v rest hv

/-- Go's varints as written through the bit stream. -/
theorem varint_roundtrip (t : Int) (rest : Bits) (ht : I64 t) :
    readVarint true (putVarint t ++ rest) = some (t, rest) :=
  readVarint_put true t rest ht

/-- Well-formed input: int64 timestamps, 64-bit value patterns. No ordering hypothesis. -/
def WF (ss : List Sample) : Prop := ∀ s ∈ ss, I64 s.1 ∧ s.2 < 2 ^ 64

/--
  The main clause: iterating the bytes of a classic XOR chunk returns exactly the appended
  `(timestamp, value bits)` sequence, without error — for ALL int64 timestamp sequences (no monotonicity
  needed: the encoding is exact modulo 2^64, which covers the statement's ±2^62 window with any deltas)
  and all 64-bit value patterns (NaN payloads, stale marker, ±0, ±Inf are just bit patterns), up to the
  chunk's capacity.
-/
theorem xor_roundtrip (ss : List Sample) (hlen : ss.length ≤ 65535) (hwf : WF ss) :
    decodeChunk (chunkBytes ss.length (encode ss)) = (ss, true) := by
  obtain ⟨d', hd, _⟩ := decodeFrom_encodeFrom ss 0 encInit decInit
    (List.replicate (padLen (encode ss).length) false) StRel_init hwf
  have hn : ss.length / 256 % 256 * 256 + ss.length % 256 = ss.length := by omega
  simp only [decodeChunk, chunkBytes, hn, fromBytes_toBytes, padTo8]
  simp only [encode] at hd ⊢
  rw [hd]

example : WF [(1000, 0x7ff0000000000002), (-5, 0), (9223372036854775807, 0xffffffffffffffff)] := by
  intro s hs
  simp only [List.mem_cons, List.mem_nil_iff, or_false] at hs
  rcases hs with rfl | rfl | rfl <;> decide

/-! ### Resuming on reloaded bytes (`FromData` + `Appender()`), finding F11 -/

/-- Reload the chunk holding `ss₁`, resume appending `ss₂`, iterate the result. -/
def resumed (fixed : Bool) (ss₁ ss₂ : List Sample) : Option (List Sample × Bool) :=
  match reopenG fixed (chunkBytes ss₁.length (encode ss₁)) with
  | none => none
  | some c =>
    match c.appendAll ss₂ with
    | .error _ => none
    | .ok c' => some (decodeChunk c'.bytes)

def three : List Sample := [(1000, 0x3ff0000000000000), (2000, 0x4000000000000000), (3000, 0x4008000000000000)]

/-- F11 (the code before `fix: chunkenc: restore the bit offset …`): `Appender()` on reloaded bytes left
    `bstream.count = 0`; `[1000:1, 2000:2, 3000:3]` reloaded, `Append(4000, 4)` reads back `4000:3`, no error. -/
theorem xor_resume_witness :
    resumed false three [(4000, 0x4010000000000000)] = some (three ++ [(4000, 0x4008000000000000)], true) := by
  decide +kernel

/-- The full resume clause for the repaired code (`fixed = true`, what /repo HEAD has): for every split
    point, reloading after `ss₁` and resuming with `ss₂` reads back `ss₁ ++ ss₂`.
    (Byte equality with continuous appending does not hold in general: after a reload the appender inherits
    the iterator's window `(0, 0)` instead of `0xff` when no value changed yet, and then writes a
    64-bit reuse code where the continuous appender writes a new-window code; both decode correctly.)
    NOT YET PROVED in general — what is missing is the lemma that iterating `encode ss₁` leaves exactly the
    padding unread, so that `reopenG true` restores `encode ss₁` with a state related by `StRel`; then
    `decodeFrom_encodeFrom` applies. It is checked on every run by the judge (reopen at every position). -/
def resume_eq_continue_full : Prop :=
  ∀ ss₁ ss₂ : List Sample, WF (ss₁ ++ ss₂) → (ss₁ ++ ss₂).length ≤ 65535 →
    resumed true ss₁ ss₂ = some (ss₁ ++ ss₂, true)

/-- Proved instances: every split point of a 4-sample chunk (value change, dod ≠ 0, repeated value). -/
theorem resume_eq_continue_partial :
    ∀ k ∈ [0, 1, 2, 3, 4],
      resumed true ((three ++ [(4007, 0x4008000000000000)]).take k) ((three ++ [(4007, 0x4008000000000000)]).drop k)
        = some (three ++ [(4007, 0x4008000000000000)], true) := by
  decide +kernel

/-! ### Seek -/

/-- `Seek t` on a fresh iterator over the chunk of `ss` lands on the first sample with timestamp ≥ t
    (in chunk order — for increasing timestamps: the earliest), `ValNone` iff there is none. -/
def seekOK (ss : List Sample) (t : Int) : Bool :=
  let r := iterSeek (iterNew (chunkBytes ss.length (encode ss))) t
  match ss.find? (fun s => decide (s.1 ≥ t)) with
  | some s => r.2 && decide ((r.1.st.t, r.1.st.v) = s)
  | none => !r.2

/-- Full Seek clause. NOT YET PROVED in general (needs the iterator-level version of the simulation
    invariant); evaluated by the judge on every run for random Next/Seek scripts. -/
def seek_first_geq_full : Prop :=
  ∀ (ss : List Sample) (t : Int), WF ss → ss.length ≤ 65535 → seekOK ss t = true

/-- Proved instances on a 4-sample chunk: before, at, between, after. -/
theorem seek_first_geq_partial :
    ∀ t ∈ ([-5, 1000, 1001, 2000, 2999, 3000, 3001, 4007, 4008] : List Int),
      seekOK (three ++ [(4007, 0x4008000000000000)]) t = true := by
  decide +kernel

/-! ## XOR2 chunk with start timestamps (`tsdb/chunkenc/xor2.go`), model `PromModel/Tsdb/ChunkXor2.lean`

  Samples are triples `(st, t, value bits)`. -/

/-- The XOR2 value code `<varbit_xor2>` (`0 | 10 | 110 | 111 = stale NaN`) round-trips for ALL baselines and
    values; the XOR baseline moves to the new value unless it is the staleness marker. -/
theorem xor2_value_roundtrip (base v el et dl dt : Nat) (rest : Bits)
    (hb : base < 2 ^ 64) (hv : v < 2 ^ 64) (hrel : WinRel el et dl dt) :
    ∃ dl' dt', ChunkXor2.decodeValue base dl dt ((ChunkXor2.writeVDelta base el et v).1 ++ rest)
        = some (v, ChunkXor2.baseOf base v, dl', dt', rest) ∧
      WinRel (ChunkXor2.writeVDelta base el et v).2.1 (ChunkXor2.writeVDelta base el et v).2.2 dl' dt' :=
  ChunkXor2.decodeValue_writeVDelta base v el et dl dt rest hb hv hrel

example : WinRel 255 0 0 0 ∧ WinRel 12 7 12 7 := ⟨Or.inl rfl, Or.inr ⟨rfl, rfl⟩⟩

/-- The joint timestamp+value code of samples ≥ 2 (control prefix `0|10|110|1110|11110|11111`, byte-packed
    13/20-bit and escaped 64-bit delta-of-delta with the symmetric bucket bounds, value codes, the appender's
    three-way fast-path switch) round-trips for ALL int64 timestamps and value patterns. -/
theorem xor2_joint_roundtrip (a : ChunkXor2.App) (d : ChunkXor2.Dec) (t : Int) (v : Nat) (rest : Bits)
    (h : ChunkXor2.TVRel a d) (ht : I64 t) (hv : v < 2 ^ 64) :
    ∃ dl' dt', ChunkXor2.decTV d ((ChunkXor2.tvBits a.v a.leading a.trailing (ChunkXor2.dodOf a t) v).1 ++ rest)
        = some (t, v, ChunkXor2.baseOf a.v v, toU (t - a.t), dl', dt', rest) ∧
      WinRel (ChunkXor2.tvBits a.v a.leading a.trailing (ChunkXor2.dodOf a t) v).2.1
        (ChunkXor2.tvBits a.v a.leading a.trailing (ChunkXor2.dodOf a t) v).2.2 dl' dt' :=
  ChunkXor2.decTV_tvBits a d t v rest h ht hv

example : ChunkXor2.TVRel ⟨0, 2000, 5, 1000, 0, 255, 0, 0, false⟩ ⟨0, 2000, 5, 5, 1000, 0, 0, 0⟩ :=
  ⟨Or.inl rfl, rfl, by decide, rfl, by decide, rfl, by decide⟩

/-- `firstSTChangeOn` always fits the 7 bits of the ST header byte (the change is forced at index 127). -/
theorem xor2_st_header_fits (ss : List ChunkXor2.Sample3) :
    (ChunkXor2.encState 0 ChunkXor2.appInit ss).fsco ≤ 127 :=
  ChunkXor2.fsco_le ss 0 ChunkXor2.appInit (by decide) (fun _ => by decide) (fun h => absurd rfl h)

/-- The first two samples (varint t, raw value, optional varint ST; uvarint delta, value code, optional
    first ST difference) decode to what was appended, for every final ST header the rest of the chunk
    can produce. -/
theorem xor2_first_sample_roundtrip (K : Bool) (F : Nat) (a : ChunkXor2.App) (d : ChunkXor2.Dec)
    (st t : Int) (v : Nat) (rest : Bits)
    (hrel : ChunkXor2.StRel K F 0 a d) (hst : I64 st) (ht : I64 t) (hv : v < 2 ^ 64)
    (hpost : ChunkXor2.Post K F 1 (ChunkXor2.encSample 0 a st t v).2) :
    ∃ d', ChunkXor2.decSample K F 0 d ((ChunkXor2.encSample 0 a st t v).1 ++ rest) = some (d', rest) ∧
      ChunkXor2.StRel K F 1 (ChunkXor2.encSample 0 a st t v).2 d' ∧ d'.st = st ∧ d'.t = t ∧ d'.val = v :=
  ChunkXor2.step0 K F a d st t v rest hrel hst ht hv hpost

theorem xor2_second_sample_roundtrip (K : Bool) (F : Nat) (a : ChunkXor2.App) (d : ChunkXor2.Dec)
    (st t : Int) (v : Nat) (rest : Bits)
    (hrel : ChunkXor2.StRel K F 1 a d) (hst : I64 st) (ht : I64 t) (hv : v < 2 ^ 64)
    (hpost : ChunkXor2.Post K F 2 (ChunkXor2.encSample 1 a st t v).2) :
    ∃ d', ChunkXor2.decSample K F 1 d ((ChunkXor2.encSample 1 a st t v).1 ++ rest) = some (d', rest) ∧
      ChunkXor2.StRel K F 2 (ChunkXor2.encSample 1 a st t v).2 d' ∧ d'.st = st ∧ d'.t = t ∧ d'.val = v :=
  ChunkXor2.step1 K F a d st t v rest hrel hst ht hv hpost

example (K : Bool) (F : Nat) : ChunkXor2.StRel K F 0 ChunkXor2.appInit ChunkXor2.decInit := ChunkXor2.StRel_init K F

/-- The one-sample simulation step for samples ≥ 2 INCLUDING the start-timestamp data (fast path / active-ST
    path / first-change path with the forced change at index 127): iterator state tracks appender state.
    Its timestamp+value half is `xor2_joint_roundtrip` (proved); the proof script for the ST bookkeeping
    half is kept as a comment at the end of `PromProofs/ChunkXor2Round.lean`: its elaboration did not
    terminate within the time budget (suspected: a definitional-unfolding blow-up on `% two64`). -/
def xor2_step_full : Prop := ChunkXor2.StepN

/-- Whole XOR2 chunks including start timestamps: decoding the chunk bytes (sample count, ST header byte,
    packed stream) returns exactly the appended `(st, t, value bits)` triples, for ALL int64 timestamps and
    start timestamps and all 64-bit patterns, up to capacity — PROVIDED the one-sample step `xor2_step_full`.
    Proved here: the induction over the sample list with the FINAL header as parameter (the decoder reads
    the final `firstSTKnown/firstSTChangeOn`, the appender's evolve), that `firstSTChangeOn` never changes
    once set and never exceeds 127, the header byte parse, samples 0 and 1, byte packing. -/
theorem xor2_roundtrip_partial (h : xor2_step_full) (ss : List ChunkXor2.Sample3)
    (hlen : ss.length ≤ 65535) (hwf : ChunkXor2.WF3 ss) :
    ChunkXor2.decodeChunk (ChunkXor2.encodeBytes ss) = (ss, true) :=
  ChunkXor2.roundtrip_bytes h ss hlen hwf

/-- The unconditional statement (= `xor2_roundtrip_partial` without its hypothesis). Checked on every run by
    the judge and byte-exactly by suite `chunk2`. This is also the ST round trip (`AtST`): the triples carry it. -/
def xor2_roundtrip_full : Prop :=
  ∀ ss : List ChunkXor2.Sample3, ss.length ≤ 65535 → ChunkXor2.WF3 ss →
    ChunkXor2.decodeChunk (ChunkXor2.encodeBytes ss) = (ss, true)

def five : List ChunkXor2.Sample3 :=
  [(900, 1000, 0x3ff0000000000000), (900, 2000, 0x4000000000000000), (900, 3000, ChunkXor2.staleNaN),
   (2500, 4000, 0x4008000000000000), (2500, 4007, 0x4008000000000000)]

example : ChunkXor2.WF3 five := by
  intro s hs
  simp only [five, List.mem_cons, List.mem_nil_iff, or_false] at hs
  rcases hs with rfl | rfl | rfl | rfl | rfl <;> decide

/-- Proved instance: value change, staleness marker, ST change at index 3, dod ≠ 0, repeated value. -/
theorem xor2_roundtrip_instance : ChunkXor2.decodeChunk (ChunkXor2.encodeBytes five) = (five, true) := by
  decide +kernel

/-- Reload the XOR2 chunk holding `ss₁` (`FromData` + `Appender()`), resume appending `ss₂`, iterate. -/
def resumed2 (ss₁ ss₂ : List ChunkXor2.Sample3) : Option (List ChunkXor2.Sample3 × Bool) :=
  match ChunkXor2.reopen (ChunkXor2.encodeBytes ss₁) with
  | none => none
  | some c =>
    match c.appendAll ss₂ with
    | .error _ => none
    | .ok c' => some (ChunkXor2.decodeChunk c'.bytes)

/-- Full resume clause for XOR2: for every split point, reloading after `ss₁` and resuming with `ss₂`
    reads back `ss₁ ++ ss₂` (in particular when `ss₁` ends in a staleness marker: the resumed appender
    must be seeded from the iterator's baseline, not its current value). As for the classic chunk, byte
    equality with continuous appending does not hold in general (window `(0,0)` vs `0xff` after a reload).
    NOT YET PROVED in general; checked by the judge at every position on every run. -/
def xor2_resume_eq_continue_full : Prop :=
  ∀ ss₁ ss₂ : List ChunkXor2.Sample3, ChunkXor2.WF3 (ss₁ ++ ss₂) → (ss₁ ++ ss₂).length ≤ 65535 →
    resumed2 ss₁ ss₂ = some (ss₁ ++ ss₂, true)

/-- Proved instances: every split point of `five` (k = 3: reload right after the staleness marker). -/
theorem xor2_resume_eq_continue_partial :
    ∀ k ∈ [0, 1, 2, 3, 4, 5], resumed2 (five.take k) (five.drop k) = some (five, true) := by
  decide +kernel

end Prom.C10
