import PromProofs.ChunkXorSim
/-
  C10 — Float chunks return exactly what was appended (classic XOR chunk, `tsdb/chunkenc/xor.go`,
  `bstream.go`, `varbit.go`).  Property theorems only; lemmas live in `PromProofs/`.

  Model: `PromModel/Prelude/Bits.lean`, `PromModel/Tsdb/VarbitInt.lean`, `PromModel/Tsdb/ChunkXor.lean`.
  Timestamps are `Int` in the int64 range, values are 64-bit patterns (`Nat < 2^64`, never `Float`).
-/
namespace Prom.C10
open Prom.Bits Prom.Varbit Prom.ChunkXor

/-- `readBits n` right after `writeBits v n` returns the `n` low bits of `v` and leaves the rest untouched. -/
theorem bits_roundtrip (s rest : Bits) (v n : Nat) :
    readBits n (natToBits v n ++ rest) = some (v % 2 ^ n, rest) ∧
    writeBits s v n = s ++ natToBits v n :=
  ⟨readBits_natToBits v n rest, rfl⟩

example : readBits 14 (natToBits 0x3fff 14 ++ [true]) = some (0x3fff, [true]) := by
  simpa using readBits_natToBits 0x3fff 14 [true]

/-- Packing the stream into bytes and unpacking gives the stream back plus < 8 zero padding bits. -/
theorem bytes_roundtrip (bs : Bits) :
    fromBytes (toBytes bs) = bs ++ List.replicate (padLen bs.length) false ∧ padLen bs.length < 8 :=
  ⟨fromBytes_toBytes bs, padLen_lt _⟩

/-- `readVarbitInt` inverts `putVarbitInt` for every int64, whatever follows in the stream. -/
theorem varbit_roundtrip (v : Int) (rest : Bits) (hv : I64 v) :
    readVarbitInt (putVarbitInt v ++ rest) = some (v, rest) :=
  readVarbitInt_put v rest hv

example : I64 (-9223372036854775808) ∧ I64 9223372036854775807 ∧ I64 (-255) := by decide

/-- `readVarbitUint` inverts `putVarbitUint` for every uint64. -/
theorem varbit_uint_roundtrip (v : Nat) (rest : Bits) (hv : v < 2 ^ 64) :
    readVarbitUint (putVarbitUint v ++ rest) = some (v, rest) :=
  readVarbitUint_put v rest hv

/-- Go's varints as written through the bit stream. -/
theorem varint_roundtrip (t : Int) (rest : Bits) (ht : I64 t) :
    readVarint true (putVarint t ++ rest) = some (t, rest) :=
  readVarint_put true t rest ht

/-- Well-formed input: int64 timestamps, 64-bit value patterns. No ordering hypothesis. -/
def WF (ss : List Sample) : Prop := ∀ s ∈ ss, I64 s.1 ∧ s.2 < 2 ^ 64

/--
  The main clause: iterating the bytes of a classic XOR chunk returns exactly the appended
  `(timestamp, value bits)` sequence, without error — for ALL int64 timestamp sequences (no monotonicity
  needed: the encoding is exact modulo 2^64, which covers the statement's ±2^62 window with any deltas)
  and all 64-bit value patterns (NaN payloads, stale marker, ±0, ±Inf are just bit patterns), up to the
  chunk's capacity.
-/
theorem xor_roundtrip (ss : List Sample) (hlen : ss.length ≤ 65535) (hwf : WF ss) :
    decodeChunk (chunkBytes ss.length (encode ss)) = (ss, true) := by
  obtain ⟨d', hd, _⟩ := decodeFrom_encodeFrom ss 0 encInit decInit
    (List.replicate (padLen (encode ss).length) false) StRel_init hwf
  have hn : ss.length / 256 % 256 * 256 + ss.length % 256 = ss.length := by omega
  simp only [decodeChunk, chunkBytes, hn, fromBytes_toBytes, padTo8]
  simp only [encode] at hd ⊢
  rw [hd]

example : WF [(1000, 0x7ff0000000000002), (-5, 0), (9223372036854775807, 0xffffffffffffffff)] := by
  intro s hs
  simp only [List.mem_cons, List.mem_nil_iff, or_false] at hs
  rcases hs with rfl | rfl | rfl <;> decide

end Prom.C10
