import PromModel.Labels.StableHash
import PromModel.Suites.ShardSuite
import PromProofs.StableHash
import PromProofs.ShardSelect
import PromProofs.ShardCanon
/-
  C18 — Query sharding partitions series deterministically.
  Property theorems only; helper lemmas live in PromProofs/StableHash.lean and PromProofs/ShardSelect.lean.

  Model: PromModel/Labels/StableHash.lean — the serialisation `name 0xFF value 0xFF …`, XXH64 (one-shot and the
  streaming digest), the Go code path of `labels.StableHash` (buffer up to 1 KiB, then stream), `h % n`,
  `ShardedPostings` as a filter, and a head (+cached `shardHash`) / block (hash on the fly) / merged `Select`.
-/
namespace Prom.C18
open Prom.StableHash

/-! ## 1. the shards partition the postings — for ANY hash function -/

theorem mem_shard {α : Type} (hash : α → UInt64) (p : List α) (i n : UInt64) (s : α) :
    s ∈ shardedPostings hash p i n ↔ s ∈ p ∧ hash s % n = i := by
  simp [shardedPostings, shardOf]

/-- For any hash function and any shard count `n ≥ 1`: every series of the postings list is in exactly one
    shard with index `< n`; the union of the shards `0 … n-1` is the postings list; distinct shards are
    disjoint; an index `≥ n` selects nothing; each shard is a sub-list of the postings in the same order. -/
theorem shards_partition {α : Type} (hash : α → UInt64) (p : List α) (n : UInt64) (hn : 1 ≤ n) :
    (∀ s ∈ p, ∃ i, i < n ∧ s ∈ shardedPostings hash p i n ∧ ∀ j, s ∈ shardedPostings hash p j n → j = i) ∧
    (∀ s, s ∈ p ↔ ∃ i, i < n ∧ s ∈ shardedPostings hash p i n) ∧
    (∀ i j, i ≠ j → ∀ s, s ∈ shardedPostings hash p i n → s ∉ shardedPostings hash p j n) ∧
    (∀ i, n ≤ i → shardedPostings hash p i n = []) ∧
    (∀ i, (shardedPostings hash p i n).Sublist p) := by
  have hpos : 0 < n := UInt64.lt_iff_toNat_lt.mpr hn
  refine ⟨?_, ?_, ?_, ?_, ?_⟩
  · intro s hs
    refine ⟨hash s % n, UInt64.mod_lt _ hpos, (mem_shard ..).mpr ⟨hs, rfl⟩, ?_⟩
    intro j hj
    exact ((mem_shard ..).mp hj).2.symm
  · intro s
    constructor
    · intro hs
      exact ⟨hash s % n, UInt64.mod_lt _ hpos, (mem_shard ..).mpr ⟨hs, rfl⟩⟩
    · rintro ⟨i, _, hi⟩
      exact ((mem_shard ..).mp hi).1
  · intro i j hij s hi hj
    exact hij (((mem_shard ..).mp hi).2.symm.trans ((mem_shard ..).mp hj).2)
  · intro i hi
    apply List.filter_eq_nil_iff.mpr
    intro s _ hs
    have h1 : hash s % n = i := by simpa [shardOf] using hs
    have h2 := UInt64.mod_lt (hash s) hpos
    rw [h1] at h2
    exact absurd h2 (UInt64.not_lt.mpr hi)
  · intro i
    exact List.filter_sublist

/-- multiset strength: the shard sizes add up — each series occurrence is counted in exactly one shard
    (`countP`-level statement for a single series predicate `q`). -/
theorem shard_counts (α : Type) (hash : α → UInt64) (p : List α) (n : UInt64) (q : α → Bool) (i : UInt64) :
    (shardedPostings hash p i n).countP q = p.countP (fun s => q s && (hash s % n == i)) := by
  simp only [shardedPostings, shardOf, List.countP_filter]

example : shardedPostings (fun x : Nat => UInt64.ofNat x) [1, 2, 3, 4, 5, 6] 1 3 = [1, 4] := by decide

/-! ## 2. the hash (hence the shard) is a function of the canonical label list only -/

/-- The three Go variants' code path — buffer while the serialisation stays below 1 KiB, otherwise hand the
    buffer to a streaming digest and `Write` every remaining name/separator/value piece — computes XXH64
    of the serialisation, whichever path is taken and however the pieces fall on the digest's 32-byte stripes. -/
theorem shard_depends_only_on_labels (ls : Labels) : stableHashGo ls = xxhash64 (serialise ls) :=
  stableHashGo_eq ls

/-- The canonical form every constructor produces (sorted by name; `labels.Builder` first drops
    empty values) — and therefore the stable hash and the shard — does not depend on the order in which the
    labels of a set with distinct names are supplied. -/
theorem hash_independent_of_construction_order (via : Prom.Shard.Via) (ls₁ ls₂ : Labels)
    (hp : ls₁.Perm ls₂) (hd : DistinctNames ls₁) :
    stableHashGo (Prom.Shard.canon via ls₁) = stableHashGo (Prom.Shard.canon via ls₂) := by
  rw [canon_perm via ls₁ ls₂ hp hd]

example : DistinctNames [⟨[0x62], [0x31]⟩, ⟨[0x61], []⟩] ∧
    ([⟨[0x62], [0x31]⟩, ⟨[0x61], []⟩] : Labels).Perm [⟨[0x61], []⟩, ⟨[0x62], [0x31]⟩] := by
  refine ⟨?_, List.Perm.swap _ _ _⟩
  intro a ha b hb h
  simp at ha hb
  rcases ha with rfl | rfl <;> rcases hb with rfl | rfl <;> simp_all

/-- The streaming digest (`New`, any sequence of `Write`s, `Sum64`) equals the one-shot `Sum64` of the
    concatenation. -/
theorem digest_streaming_eq_oneshot (pieces : List Bytes) :
    (pieces.foldl Digest.write Digest.new).sum64 = xxhash64 pieces.flatten :=
  digest_writes_eq_oneshot pieces

/-- consequently two series with the same labels land in the same shard, in the head (cached hash) and in
    any block (hash recomputed from the decoded labels), for every shard count -/
theorem same_labels_same_shard (h : Head) (hw : HeadWF h) (s : MemSeries) (hs : s ∈ h.series) (n : UInt64) :
    shardOf s.shardHash n = shardOf (stableHashGo s.lset) n := by
  rw [hw.2 s hs]

/-! ## 3. the serialisation is injective on labels free of the separator byte -/

/-- Two label sets whose names and values contain no 0xFF byte (true of all valid UTF-8) and whose
    serialisations are equal are the same label set: distinct series are told apart by the hash input. -/
theorem serialisation_injective (a b : Labels) (ha : SepFree a) (hb : SepFree b)
    (h : serialise a = serialise b) : a = b :=
  serialise_injective_of_sepFree a b ha hb h

example : SepFree [⟨[0x6a, 0x6f, 0x62], [0xc3, 0xa9]⟩, ⟨[0x7a], []⟩] := by
  intro l hl; simp at hl; rcases hl with rfl | rfl <;> simp [sep]

/-- without the hypothesis injectivity fails: a value containing 0xFF can mimic a label boundary -/
theorem serialisation_not_injective_with_sep_witness :
    serialise [⟨[0x61], [0x62, 0xFF, 0x63, 0xFF, 0x64]⟩] = serialise [⟨[0x61], [0x62]⟩, ⟨[0x63], [0x64]⟩] ∧
    ([⟨[0x61], [0x62, 0xFF, 0x63, 0xFF, 0x64]⟩] : Labels) ≠ [⟨[0x61], [0x62]⟩, ⟨[0x63], [0x64]⟩] := by
  decide

/-! ## 4. a sharded Select is the unsharded Select filtered by `hash mod n`, order preserved -/

/-- `labels.Compare` is a lawful total order on label sets (transitive, antisymmetric, `eq` iff equal). -/
theorem compareLabels_lawful :
    (∀ a b c : Labels, compareLabels a b = .lt → compareLabels b c = .lt → compareLabels a c = .lt) ∧
    (∀ a b : Labels, compareLabels a b = .gt ↔ compareLabels b a = .lt) ∧
    (∀ a b : Labels, compareLabels a b = .eq ↔ a = b) :=
  ⟨fun _ _ _ h1 h2 => Std.TransCmp.lt_trans h1 h2, fun _ _ => Std.OrientedCmp.gt_iff_lt,
   fun _ _ => Std.LawfulEqCmp.compare_eq_iff_eq⟩

/-- For a database whose head has sharding enabled and caches `StableHash(lset)` per series (`HeadWF`, an
    invariant of `getOrCreate`) and whose block index is sorted by labels (`BlockWF`): `Select` on the head,
    on the block, or on both (merged, equal label sets de-duplicated) with `ShardCount = n > 0`,
    `ShardIndex = i` never fails and returns exactly the unsharded result filtered by
    `xxhash64 (serialise labels) % n = i`, in the same order. -/
theorem sharded_select_eq_filter (db : Db) (hh : HeadWF db.head) (hb : BlockWF db) (w : Where) (m : Matcher)
    (i n : UInt64) (hn : 0 < n) :
    ∃ all, db.select w m none = .ok all ∧
      db.select w m (some ⟨i, n⟩) = .ok (all.filter fun ls => xxhash64 (serialise ls) % n == i) :=
  db_select_sharded db hh hb w m i n hn

/-- The property statement on the storage model: with sharding enabled, for every shard count `n ≥ 1`, every
    reader (head, block, both) and every matcher, the selects with `ShardIndex = 0 … n-1` succeed, return
    pairwise disjoint sub-lists of the unsharded result (same order) whose union is the unsharded result,
    each series in exactly one of them; an index `≥ n` returns nothing. -/
theorem select_shards_partition (db : Db) (hh : HeadWF db.head) (hb : BlockWF db) (w : Where) (m : Matcher)
    (n : UInt64) (hn : 1 ≤ n) :
    ∃ all : List Labels, db.select w m none = .ok all ∧
      ∃ shard : UInt64 → List Labels, (∀ i, db.select w m (some ⟨i, n⟩) = .ok (shard i)) ∧
        (∀ s ∈ all, ∃ i, i < n ∧ s ∈ shard i ∧ ∀ j, s ∈ shard j → j = i) ∧
        (∀ s, s ∈ all ↔ ∃ i, i < n ∧ s ∈ shard i) ∧
        (∀ i j, i ≠ j → ∀ s, s ∈ shard i → s ∉ shard j) ∧
        (∀ i, n ≤ i → shard i = []) ∧
        (∀ i, (shard i).Sublist all) := by
  have hpos : 0 < n := UInt64.lt_iff_toNat_lt.mpr hn
  obtain ⟨all, h0, _⟩ := sharded_select_eq_filter db hh hb w m 0 n hpos
  refine ⟨all, h0, fun i => shardedPostings stableHash all i n, ?_, shards_partition stableHash all n hn⟩
  intro i
  obtain ⟨all', h0', hi⟩ := sharded_select_eq_filter db hh hb w m i n hpos
  rw [h0] at h0'
  cases h0'
  exact hi

/-- the invariant is established by building a head through `getOrCreate` … -/
theorem headWF_of_creates (l : List Labels) : HeadWF (l.foldl Head.getOrCreate ⟨true, []⟩) :=
  headWF_foldl l _ headWF_empty

/-- … and the database the suite's model builds (`build 1`) satisfies both invariants, so
    `sharded_select_eq_filter` applies to every `sel` line of every generated case. -/
theorem suite_db_wf (series : List (Prom.Shard.Placement × Labels)) :
    HeadWF (Prom.Shard.mkDb true series).head ∧ BlockWF (Prom.Shard.mkDb true series) := by
  refine ⟨headWF_foldl _ _ headWF_empty, ?_⟩
  intro b hb
  simp only [Prom.Shard.mkDb] at hb
  split at hb
  · cases hb
  · cases hb
    exact sorted_sortBy compareLabels _

/-- the hypotheses are met by a non-trivial database: two head series (one also in the block), two block series -/
example : let db := Prom.Shard.mkDb true [(.both, [⟨[0x61], [0x31]⟩]), (.head, [⟨[0x61], [0x32]⟩]), (.block, [⟨[0x62], [0x31]⟩])]
    HeadWF db.head ∧ BlockWF db ∧ db.head.series.length = 2 ∧ (db.block.map (·.series.length)) = some 2 := by
  refine ⟨(suite_db_wf _).1, (suite_db_wf _).2, by decide, by decide⟩

/-- With sharding disabled the head refuses sharded selects (and only those). -/
theorem sharding_disabled_errors (h : Head) (hd : h.enableSharding = false) (m : Matcher) (i n : UInt64) (hn : 0 < n) :
    h.select m (some ⟨i, n⟩) = .error .shardingDisabled ∧ ∃ r, h.select m none = .ok r := by
  simp [Head.select, hn, hd]

/-! ## 5. the judge accepts the model (hash clause) -/

/-- On hash operations the suite's oracle (which uses the specification `xxhash64 ∘ serialise`) accepts
    what the model (which runs the Go code path `stableHashGo`) prints. -/
theorem judge_accepts_model_hash (ops : List Prom.Shard.Op) (hall : ∀ op ∈ ops, ∃ v ls, op = .hash v ls)
    (js : Prom.Shard.JSt) (st : Prom.Shard.St) (k : Nat) :
    Prom.Shard.verdict js k ops (Prom.Shard.runOps st ops) = none := by
  induction ops generalizing k with
  | nil => simp [Prom.Shard.verdict, Prom.Shard.runOps]
  | cons op rest ih =>
    obtain ⟨v, ls, rfl⟩ := hall _ List.mem_cons_self
    simp only [Prom.Shard.runOps, Prom.Shard.stepOp, Prom.Shard.verdict, stableHashGo_eq, stableHash, if_true]
    exact ih (fun op h => hall op (List.mem_cons_of_mem _ h)) (k + 1)

/-- The partition clause of the suite's oracle accepts every output of the form the theorems above give the
    model: `n` shard results that are the unsharded result `u` filtered by a shard function with values `< n`
    (so, with `sharded_select_eq_filter`, the `partition` clause can only fire on a real difference). -/
theorem judge_partition_accepts_filter_shards (u : List Nat) (f : Nat → Nat) (n : Nat) (hf : ∀ k ∈ u, f k < n) :
    Prom.Shard.partitionB u ((List.range n).map fun i => u.filter (fun k => f k == i)) = true := by
  unfold Prom.Shard.partitionB
  simp only [Bool.and_eq_true, List.all_eq_true]
  constructor
  · intro sh hsh
    obtain ⟨i, _, rfl⟩ := List.mem_map.mp hsh
    simp only [beq_iff_eq]
    apply List.filter_congr
    intro k hk
    simp only [List.contains_eq_mem, List.mem_filter, hk, true_and, beq_iff_eq]
    by_cases h : f k = i <;> simp [h]
  · intro k hk
    simp only [beq_iff_eq]
    rw [List.filter_map, List.length_map, ← List.countP_eq_length_filter]
    have : List.countP ((fun sh : List Nat => sh.contains k) ∘ fun i => u.filter (fun k => f k == i)) (List.range n)
        = List.count (f k) (List.range n) := by
      rw [List.count_eq_countP]
      apply List.countP_congr
      intro i _
      simp only [Function.comp, List.contains_eq_mem, List.mem_filter, hk, true_and, beq_iff_eq, decide_eq_true_eq]
      by_cases h : f k = i
      · simp [h]
      · have h' : ¬ i = f k := fun e => h e.symm
        simp [h, h']
    rw [this, List.Nodup.count List.nodup_range, if_pos (List.mem_range.mpr (hf k hk))]

example : Prom.Shard.partitionB [4, 1, 7] [[4, 7], [1]] = true := by decide

end Prom.C18
