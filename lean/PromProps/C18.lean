import PromModel.Labels.StableHash
import PromModel.Suites.ShardSuite
/-
  C18 — Query sharding partitions series deterministically.
-/
namespace Prom.C18
open Prom.StableHash

/-- membership in a shard -/
theorem mem_shard {α : Type} (hash : α → UInt64) (p : List α) (i n : UInt64) (s : α) :
    s ∈ shardedPostings hash p i n ↔ s ∈ p ∧ hash s % n = i := by
  simp [shardedPostings, shardOf]

end Prom.C18
