import PromModel.Tsdb.ReadOnly
import PromModel.Suites.RoSuite
import PromProofs.ReadOnlyMain
import PromProofs.ReadOnlyFs
/-
  C53 — a read-only open returns what a read-write open would, and changes nothing.

  Model: PromModel/Tsdb/ReadOnly.lean on top of the shared storage model (DbModel stage A/B: float
  samples, in-order ingestion, no hinted blocks). Proof pieces: PromProofs/ReadOnly{Query,Replay,Cut,Main,Fs}.
-/
namespace Prom.C53
open Prom.Db Prom.Intervals

/-- `Db.reopen` is `Head.Init` with the read-write cutoff on the truncated head: the read-only and
    the read-write open run the same replay (`initHead`) and differ only in the start scalars and in
    how the cutoff is computed. -/
theorem reopen_is_initHead (d : Db) : d.reopen = initHead d.rwBase d.rwCut := Db.reopen_eq_initHead d

/-- Last block by MinTime = largest MaxTime, whenever MaxTime grows with MinTime over the blocks. -/
theorem cutoff_agrees (d : Db) (h : BlocksOk d) : d.openReadOnly.maxBlockTime = d.rwCut :=
  roCut_eq_rwCut d h

/-- Clause 1 on a directory: every query through the read-only open returns what the read-write
    open of the same directory returns — including the case where the WAL is not loaded at all
    (`maxt` below the cutoff) and the different `Head.MinTime` of the two heads. -/
theorem ro_eq_rw_dir (d : Db) (h : BlocksOk d) (a b : Int) :
    d.closeState.openReadOnly.query a b = d.closeState.reopen.query a b :=
  ro_eq_rw_state d.closeState h a b

/-- Clause 2 on a directory: the block FlushWAL writes from a read-only open holds exactly the
    visible samples of the head a read-write open builds. -/
theorem flushwal_block_eq_head_data (d : Db) (h : BlocksOk d) :
    d.closeState.openReadOnly.flushRows = d.closeState.rwHeadRows :=
  flush_eq_head_state d.closeState h

/-- Clause 3 (file-system model): the script of a read-only session — sandbox directory, hard links of
    the head chunk files into it, arbitrary unlink/create/mkdir/link/removeAll actions *below the
    sandbox* by the head, `RemoveAll(sandbox)` on Close — leaves exactly the pre-existing names, each
    with its inode, and only adds inodes (no existing file content is rewritten); sandbox inside
    (`sb = dir ++ [name]`) or outside the data directory alike. -/
theorem ro_changes_nothing (fs : Fs) (dir sb : Path) (chunkFiles : List String) (work : List FsAct)
    (hfresh : ∀ q ∈ fs.names, sb.isPrefixOf q.1 = false)
    (hwork : ∀ a ∈ work, sb.isPrefixOf a.target = true) :
    (fs.run (roSession dir sb chunkFiles work)).names = fs.names ∧
    ∃ extra, (fs.run (roSession dir sb chunkFiles work)).inodes = fs.inodes ++ extra :=
  session_changes_nothing fs dir sb chunkFiles work hfresh hwork

/-- The hypotheses of `ro_changes_nothing` are satisfiable: a data dir with a WAL segment and one head
    chunk file, sandbox inside the data dir, the head deletes its link and cuts a new file. -/
example :
    let fs : Fs := { names := [(["data", "wal", "00000000"], 0), (["data", "chunks_head", "000001"], 1)],
                     inodes := [(0, [1, 2, 3]), (1, [4, 5])] }
    let sb := ["data", "tmp_dbro_sandbox1"]
    (fs.run (roSession ["data"] sb ["000001"]
      [.unlink (sb ++ ["chunks_head", "000001"]), .create (sb ++ ["chunks_head", "000002"]) [9]])).view = fs.view := by
  decide

/-- What a write through a hard-linked inode would do (the reason `ro_changes_nothing` needs every
    action to be a name operation): truncating the linked head chunk file in place changes the data
    directory. Not part of the session script; shown as a contrast. -/
def writeThrough (fs : Fs) (p : Path) (c : List Nat) : Fs :=
  match fs.lookup p with
  | some i => { fs with inodes := fs.inodes.map fun q => if q.1 = i then (i, c) else q }
  | none => fs

theorem write_through_link_changes_dir_witness :
    let fs : Fs := { names := [(["data", "chunks_head", "000001"], 1)], inodes := [(1, [4, 5])] }
    let fs' := (fs.act (.link ["data", "chunks_head", "000001"] ["sb", "chunks_head", "000001"]))
    (writeThrough fs' ["sb", "chunks_head", "000001"] []).view ≠ fs'.view := by
  decide

/-! ### All histories -/

/-- The full statement over histories: after any history, both clauses hold on the directory left
    behind. Needs the invariant `BlocksOk` along every history (see `ro_eq_rw` below) and, for
    out-of-order data and hinted blocks, DbModel stage C/D (then it is FALSE for the code as found:
    finding F6, `fixes/F6.patch`). -/
def ro_eq_rw_full : Prop :=
  ∀ (c : Cfg) (h : List XOp) (a b : Int),
    let d := (Db.xafter { cfg := c } h).closeState
    d.openReadOnly.query a b = d.reopen.query a b ∧ d.openReadOnly.flushRows = d.rwHeadRows

end Prom.C53
