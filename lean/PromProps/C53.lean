import PromModel.Tsdb.ReadOnly
import PromModel.Suites.RoSuite
import PromProofs.ReadOnlyMain
import PromProofs.ReadOnlyFs
import PromProofs.ReadOnlyInv
/-
  C53 — a read-only open returns what a read-write open would, and changes nothing.

  Model: PromModel/Tsdb/ReadOnly.lean on top of the shared storage model (DbModel stage A/B: float
  samples, in-order ingestion, no hinted blocks). Proof pieces: PromProofs/ReadOnly{Query,Replay,Cut,Main,Fs}.
-/
namespace Prom.C53
open Prom.Db Prom.Intervals

/-- `Db.reopen` is `Head.Init` with the read-write cutoff on the truncated head: the read-only and
    the read-write open run the same replay (`initHead`) and differ only in the start scalars and in
    how the cutoff is computed. -/
theorem reopen_is_initHead (d : Db) : d.reopen = initHead d.rwBase d.rwCut := Db.reopen_eq_initHead d

/-- Last block by MinTime = largest MaxTime, whenever MaxTime grows with MinTime over the blocks. -/
theorem cutoff_agrees (d : Db) (h : BlocksOk d) : d.openReadOnly.maxBlockTime = d.rwCut :=
  roCut_eq_rwCut d h

/-- Clause 1 on a directory: every query through the read-only open returns what the read-write
    open of the same directory returns — including the case where the WAL is not loaded at all
    (`maxt` below the cutoff) and the different `Head.MinTime` of the two heads. -/
theorem ro_eq_rw_dir (d : Db) (h : BlocksOk d) (a b : Int) :
    d.closeState.openReadOnly.query a b = d.closeState.reopen.query a b :=
  ro_eq_rw_state d.closeState h a b

/-- Clause 2 on a directory: the block FlushWAL writes from a read-only open holds exactly the
    visible samples of the head a read-write open builds. -/
theorem flushwal_block_eq_head_data (d : Db) (h : BlocksOk d) :
    d.closeState.openReadOnly.flushRows = d.closeState.rwHeadRows :=
  flush_eq_head_state d.closeState h

/-- Clause 3 (file-system model): the script of a read-only session — sandbox directory, hard links of
    the head chunk files into it, arbitrary unlink/create/mkdir/link/removeAll actions *below the
    sandbox* by the head, `RemoveAll(sandbox)` on Close — leaves exactly the pre-existing names, each
    with its inode, and only adds inodes (no existing file content is rewritten); sandbox inside
    (`sb = dir ++ [name]`) or outside the data directory alike. -/
theorem ro_changes_nothing (fs : Fs) (dir sb : Path) (chunkFiles : List String) (work : List FsAct)
    (hfresh : ∀ q ∈ fs.names, sb.isPrefixOf q.1 = false)
    (hwork : ∀ a ∈ work, sb.isPrefixOf a.target = true) :
    (fs.run (roSession dir sb chunkFiles work)).names = fs.names ∧
    ∃ extra, (fs.run (roSession dir sb chunkFiles work)).inodes = fs.inodes ++ extra :=
  session_changes_nothing fs dir sb chunkFiles work hfresh hwork

/-- The hypotheses of `ro_changes_nothing` are satisfiable: a data dir with a WAL segment and one head
    chunk file, sandbox inside the data dir, the head deletes its link and cuts a new file. -/
example :
    let fs : Fs := { names := [(["data", "wal", "00000000"], 0), (["data", "chunks_head", "000001"], 1)],
                     inodes := [(0, [1, 2, 3]), (1, [4, 5])] }
    let sb := ["data", "tmp_dbro_sandbox1"]
    (fs.run (roSession ["data"] sb ["000001"]
      [.unlink (sb ++ ["chunks_head", "000001"]), .create (sb ++ ["chunks_head", "000002"]) [9]])).view = fs.view := by
  decide

/-- What a write through a hard-linked inode would do (the reason `ro_changes_nothing` needs every
    action to be a name operation): truncating the linked head chunk file in place changes the data
    directory. Not part of the session script; shown as a contrast. -/
def writeThrough (fs : Fs) (p : Path) (c : List Nat) : Fs :=
  match fs.lookup p with
  | some i => { fs with inodes := fs.inodes.map fun q => if q.1 = i then (i, c) else q }
  | none => fs

theorem write_through_link_changes_dir_witness :
    let fs : Fs := { names := [(["data", "chunks_head", "000001"], 1)], inodes := [(1, [4, 5])] }
    let fs' := (fs.act (.link ["data", "chunks_head", "000001"] ["sb", "chunks_head", "000001"]))
    (writeThrough fs' ["sb", "chunks_head", "000001"] []).view ≠ fs'.view := by
  decide

/-! ### All histories -/

/-- Block times are int64 values (the model's `Int` is unbounded; `Db.reopen` folds the cutoff from
    `math.MinInt64` as the code does). -/
def Int64Blocks (d : Db) : Prop := ∀ b ∈ d.blocks, MinI64 ≤ b.mint

instance (d : Db) : Decidable (Int64Blocks d) := by unfold Int64Blocks; infer_instance

/-- Along every history (appends, commits, rollbacks, deletes, compactions, tombstone cleaning,
    restarts, queries, read-only opens and flushes, in any order — also compactions inside an open
    transaction, which can produce overlapping blocks) every block ends at the range boundary above
    its MinTime; `rangeForTimestamp` is monotone, hence MaxTime grows with MinTime. -/
theorem blocks_aligned_along_histories (c : Cfg) (h : List XOp) :
    Aligned (Db.xafter { cfg := c } h) ∧ (Db.xafter { cfg := c } h).cfg = c := by
  have := xafter_aligned c { cfg := c } h ⟨rfl, by intro b hb; simp at hb⟩
  exact ⟨this.2, this.1⟩

/-- C53 clauses 1 and 2 for ALL histories of the model (stage A/B: in-order ingestion): on the
    directory left behind by any history — closed cleanly or copied while open (`closeState` only
    drops the open appender, nothing of which is on disk) — the read-only open answers every query
    like the read-write open, and FlushWAL writes exactly the read-write head's data. -/
theorem ro_eq_rw (c : Cfg) (hc : 0 < c.chunkRange) (h : List XOp)
    (hi : Int64Blocks (Db.xafter { cfg := c } h)) (a b : Int) :
    let d := (Db.xafter { cfg := c } h).closeState
    d.openReadOnly.query a b = d.reopen.query a b ∧ d.openReadOnly.flushRows = d.rwHeadRows := by
  obtain ⟨hal, hcfg⟩ := blocks_aligned_along_histories c h
  have hok : BlocksOk (Db.xafter { cfg := c } h).closeState :=
    blocksOk_of_aligned _ hal (by rw [show (Db.xafter { cfg := c } h).closeState.cfg = (Db.xafter { cfg := c } h).cfg from rfl, hcfg]; exact hc) hi
  exact ⟨ro_eq_rw_state _ hok a b, flush_eq_head_state _ hok⟩

/-- The model's own observations satisfy the judge's first clause (`XOut.roOk`: read-only rows =
    read-write rows, flushed rows = head rows) at every step of every history. -/
theorem model_obs_ok (c : Cfg) (hc : 0 < c.chunkRange) (h : List XOp) (op : XOp)
    (hi : Int64Blocks (Db.xafter { cfg := c } h)) :
    ((Db.xafter { cfg := c } h).xstep op).2.roOk = true := by
  obtain ⟨hq, hf⟩ : (∀ a b, (Db.xafter { cfg := c } h).closeState.openReadOnly.query a b = (Db.xafter { cfg := c } h).closeState.reopen.query a b) ∧
      (Db.xafter { cfg := c } h).closeState.openReadOnly.flushRows = (Db.xafter { cfg := c } h).closeState.rwHeadRows :=
    ⟨fun a b => (ro_eq_rw c hc h hi a b).1, (ro_eq_rw c hc h hi 0 0).2⟩
  cases op with
  | base op => rfl
  | roq a b clean =>
    simp only [Db.xstep, XOut.roOk, beq_iff_eq]
    exact hq a b
  | rofl clean =>
    simp only [Db.xstep, XOut.roOk, beq_iff_eq]
    exact hf

/-- The hypotheses are satisfiable and the statement is not vacuous: a concrete history with two
    blocks, WAL data above them and a query ending below the cutoff. -/
def exampleHistory : List XOp :=
  [.base .begin, .base (.app 0 0 1), .base (.app 0 120 2), .base (.app 0 260 3), .base (.app 0 390 4), .base .commit,
   .base .compact, .roq 0 150 true, .roq 0 1000 false, .rofl true]

example : Int64Blocks (Db.xafter { cfg := ⟨100, 0⟩ } exampleHistory) ∧
    (Db.xafter { cfg := ⟨100, 0⟩ } exampleHistory).blocks.length = 2 := by
  decide

/-- The full statement incl. out-of-order data and hinted blocks (DESIGN §7 C53): the same equality
    for histories that also contain out-of-order appends, CompactOOOHead, CompactStaleHead and
    CompactSelectedSeries. It needs DbModel stage C/D (blocks with hints; `rwCut` skipping them). For
    the code as found it was FALSE (finding F6: the read-only cutoff did not skip hinted blocks —
    reproduced by suite `oooro`, corpus/C53/oooro-f6.ops); with fixes/F6.patch (commit 5109e0bb47 in
    /repo) both opens use the same rule and the proof above carries over once `Block` has hints. -/
def ro_eq_rw_full : Prop :=
  ∀ (c : Cfg) (h : List XOp) (a b : Int), 0 < c.chunkRange → 0 ≤ c.oooWin →
    let d := (Db.xafter { cfg := c } h).closeState
    d.openReadOnly.query a b = d.reopen.query a b ∧ d.openReadOnly.flushRows = d.rwHeadRows

end Prom.C53
