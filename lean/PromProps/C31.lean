import PromModel.Promql.HistOps
import PromModel.Suites.HistArithSuite
import PromProofs.HistOpsLemmas
/-
  C31 — Native histogram arithmetic preserves bucket semantics.  Property theorems only.
-/
namespace Prom.C31
open Prom.HistOps

/-- Sum of the first `n` deltas. -/
def deltaSum (ds : List Int) (n : Nat) : Rat := ((ds.take n).foldl (· + ·) 0 : Int)

theorem prefixSums_get (acc : Int) (ds : List Int) (j : Nat) (h : j < ds.length) :
    (prefixSums (acc : Rat) ds)[j]? = some (((acc + (ds.take (j + 1)).foldl (· + ·) 0 : Int)) : Rat) := by
  induction ds generalizing acc j with
  | nil => simp at h
  | cons d ds ih =>
    cases j with
    | zero => simp [prefixSums, Rat.intCast_add]
    | succ j =>
      have hj : j < ds.length := by simpa using h
      have := ih (acc + d) j hj
      simp only [prefixSums, List.getElem?_cons_succ, List.take_succ_cons, List.foldl_cons]
      rw [← Rat.intCast_add, this]
      congr 2
      have hf : ∀ (l : List Int) (x : Int), l.foldl (· + ·) x = x + l.foldl (· + ·) 0 := by
        intro l; induction l with
        | nil => simp
        | cons y l ihl => intro x; simp only [List.foldl_cons]; rw [ihl (x + y), ihl (0 + y)]; omega
      rw [hf _ (0 + d)]; omega

/-- `toFloat_preserves_counts`: converting an integer histogram to a float histogram gives every bucket
    (in storage order, per sign) exactly the sum of the deltas up to it, and copies spans, schema, zero
    bucket, count and sum. -/
theorem toFloat_preserves_counts (x : IH) (j : Nat) (h : j < x.pb.length) :
    (toFloat x).pb[j]? = some (deltaSum x.pb (j + 1)) ∧ (toFloat x).ps = x.ps ∧ (toFloat x).count = x.count
      ∧ (toFloat x).sum = x.sum ∧ (toFloat x).schema = x.schema := by
  have := prefixSums_get 0 x.pb j h
  unfold toFloat deltaSum
  split <;> simp_all


theorem toFloat_preserves_counts_neg (x : IH) (j : Nat) (h : j < x.nb.length) (hc : x.schema ≠ customSchema) :
    (toFloat x).nb[j]? = some (deltaSum x.nb (j + 1)) ∧ (toFloat x).ns = x.ns ∧ (toFloat x).zc = x.zc ∧ (toFloat x).zt = x.zt := by
  have := prefixSums_get 0 x.nb j h
  unfold toFloat deltaSum
  split <;> simp_all

example : (toFloat ⟨0, 0, .zero, 1, 6, 0, [⟨1, 3⟩], [2, 1, -3], [], [], []⟩).pb = [2, 3, 0] := by decide +kernel

/-! ### resolution reduction -/

/-- `reduceResolution_sums_buckets`: after `reduceResolution` by `k` schema steps the explicit buckets with
    index `j` carry exactly the total of the source buckets whose `targetIdx` is `j` (`mapTarget` only
    relabels the indices), for every valid span layout (no negative offset after the first span). -/
theorem reduceResolution_sums_buckets (spans : List Span) (bs : List Rat) (k : Nat) (r : List Span × List Rat)
    (h : reduceResolution spans bs k = some r) (hv : SpansOk spans) (j : Int) :
    bucketAt (expand r.1 r.2) j = bucketAt (mapTarget k (expand spans bs)) j := by
  unfold reduceResolution at h
  split at h
  · cases h
  · split at h
    · cases h
    · cases h
      exact rrFold_init_sem k _ (expand_sorted spans bs hv).le j

/-- Each target bucket is the sum of the source buckets it covers. -/
theorem bucketAt_mapTarget_sum (k : Nat) (l : Buckets) (j : Int) :
    bucketAt (mapTarget k l) j = ((l.filter fun p => targetIdx p.1 k = j).map (·.2)).foldr (· + ·) 0 := by
  induction l with
  | nil => rfl
  | cons p l ih =>
    by_cases hp : targetIdx p.1 k = j
    · have : (List.filter (fun p => decide (targetIdx p.1 k = j)) (p :: l)) = p :: List.filter (fun p => decide (targetIdx p.1 k = j)) l := by
        simp [List.filter_cons, hp]
      rw [this, List.map_cons, List.foldr_cons, ← ih]; simp [mapTarget, hp]
    · have : (List.filter (fun p => decide (targetIdx p.1 k = j)) (p :: l)) = List.filter (fun p => decide (targetIdx p.1 k = j)) l := by
        simp [List.filter_cons, hp]
      rw [this, ← ih]; simp [mapTarget, hp, Rat.zero_add]

/-- A source bucket `i` is covered by target bucket `j` iff `(j-1)·2^k < i ≤ (j-1)·2^k + 2^k`. -/
theorem targetIdx_covers (i j : Int) (k : Nat) :
    targetIdx i k = j ↔ (j - 1) * (2 : Int) ^ k < i ∧ i ≤ (j - 1) * (2 : Int) ^ k + (2 : Int) ^ k := by
  unfold targetIdx shr
  have hp : (0 : Int) < 2 ^ k := Int.pow_pos (by decide)
  have := Int.ediv_eq_iff_of_pos (x := i - 1) (y := j - 1) hp
  constructor
  · intro h
    have h' : (i - 1) / 2 ^ k = j - 1 := by omega
    have := this.mp h'
    omega
  · intro h
    have := this.mpr (by omega)
    omega

example : reduceResolution [⟨-3, 2⟩, ⟨1, 3⟩] [1, 2, 0, 4, 8] 1 = some ([⟨-1, 3⟩], [3, 0, 12]) := by decide +kernel

/-! ### compaction -/

/-- `compact_preserves_sem`: `Compact(maxEmptyBuckets)` never changes the total of any bucket index, for every
    valid span layout and every `maxEmptyBuckets`. -/
theorem compact_preserves_sem (m : Nat) (spans : List Span) (bs : List Rat) (hv : SpansOk spans) (j : Int) :
    bucketAt (expand (compactSide m spans bs).1 (compactSide m spans bs).2) j = bucketAt (expand spans bs) j := by
  unfold compactSide
  have hs := (fillGaps_sorted m _ (dropZeros_sorted _ (expand_sorted spans bs hv))).1
  rw [rrFold_init_sem 0 _ hs.le j, mapTarget_zero, bucketAt_fillGaps, bucketAt_dropZeros]

theorem compact_header (m : Nat) (h : FH) :
    (compact m h).zc = h.zc ∧ (compact m h).count = h.count ∧ (compact m h).sum = h.sum ∧ (compact m h).schema = h.schema
      ∧ (compact m h).zt = h.zt ∧ (compact m h).hint = h.hint := by
  simp [compact]

example : compactSide 1 [⟨2, 4⟩, ⟨0, 2⟩, ⟨3, 1⟩] [0, 5, 0, 6, 0, 0, 7] = ([⟨3, 3⟩, ⟨5, 1⟩], [5, 0, 6, 7]) := by decide +kernel

/-! ### Add / Sub -/

/-- Contract of `addBuckets`: buckets of B (those not skipped as lying under the zero threshold) are
    added to / subtracted from the bucket of A with the same index, everything else is unchanged. -/
def ABSpec (ab : AddBucketsFn) : Prop :=
  ∀ schema zt neg sa ba sb bb r, ab schema zt neg sa ba sb bb = some r → ∀ j,
    bucketAt (expand r.1 r.2) j =
      bucketAt (expand sa ba) j + (if neg then -1 else 1) * bucketAt (skipBelow schema zt (expand sb bb)) j

/-- A list-level `addBuckets` that meets the contract (merge by index; layout = one span per bucket run). -/
def addBucketsSpec : AddBucketsFn := fun schema zt neg sa ba sb bb =>
  some (rrFold 0 .init
    ((skipBelow schema zt (expand sb bb)).foldl (fun acc p => HistArith.insAdd p.1 (if neg then -p.2 else p.2) acc)
      ((expand sa ba).foldl (fun acc p => HistArith.insAdd p.1 p.2 acc) []))).finish

/-- The full statement (it is FALSE for the transcribed `addBuckets`, see `addBuckets_first_span_witness`,
    finding C31-F2; for layouts whose first span is non-empty it is established only by the
    correspondence suite, not by a proof). -/
def addBuckets_meets_contract_full : Prop := ABSpec addBuckets

/-- The other operand's buckets of one sign as `alignAndAdd` hands them to `addBuckets`. -/
def otherAligned (h o : FH) (sp : List Span) (bs : List Rat) : Option Buckets :=
  if o.schema > h.schema then (reduceResolution sp bs (o.schema - h.schema).toNat).map fun r => expand r.1 r.2
  else some (expand sp bs)

/-- `add_sem` (partial: relative to the `addBuckets` contract `ABSpec`, and for the step after the zero
    buckets have been reconciled).  For every pair of exponential histograms with valid spans, `Add`/`Sub`
    gives the result the coarser schema, and the result's positive bucket `j` is the total of the receiver's
    buckets covered by `j` plus/minus the total of the other's buckets covered by `j` (`B` is the other operand
    at the coarser schema; buckets of `B` under the zero threshold are skipped).  The negative side is
    symmetric (`add_sem_neg_partial`). Count, sum and zero count: `add_header`. -/
theorem add_sem_partial (ab : AddBucketsFn) (hab : ABSpec ab) (neg : Bool) (h o r : FH)
    (hv : SpansOk h.ps) (hvo : SpansOk o.ps) (hr : alignAndAdd ab neg h o = some r) :
    r.schema = min h.schema o.schema ∧
    ∃ B, otherAligned h o o.ps o.pb = some B ∧
      (∀ j, bucketAt B j = bucketAt (mapTarget (o.schema - min h.schema o.schema).toNat (expand o.ps o.pb)) j) ∧
      ∀ j, bucketAt (expand r.ps r.pb) j =
        bucketAt (mapTarget (h.schema - min h.schema o.schema).toNat (expand h.ps h.pb)) j
          + (if neg then -1 else 1) * bucketAt (skipBelow r.schema h.zt B) j := by
  unfold alignAndAdd at hr
  by_cases h1 : o.schema < h.schema
  · rw [if_pos h1] at hr
    have hmin : min h.schema o.schema = o.schema := by omega
    dsimp only at hr
    split at hr
    · rename_i p n hp hn
      split at hr
      · rename_i P N hP hN
        cases hr
        refine ⟨by simp [hmin], expand o.ps o.pb, by simp [otherAligned]; omega, ?_, ?_⟩
        · intro j; rw [hmin]; simp [mapTarget_zero]
        · intro j
          rw [hab _ _ _ _ _ _ _ _ hP j, reduceResolution_sums_buckets _ _ _ _ hp hv j, hmin]
      · cases hr
    · cases hr
  · rw [if_neg h1] at hr
    by_cases h2 : o.schema > h.schema
    · rw [if_pos h2] at hr
      have hmin : min h.schema o.schema = h.schema := by omega
      dsimp only at hr
      split at hr
      · rename_i p n hp hn
        split at hr
        · rename_i P N hP hN
          cases hr
          refine ⟨by simp [hmin], expand p.1 p.2, by simp [otherAligned, h2, hp], ?_, ?_⟩
          · intro j; rw [hmin]; exact reduceResolution_sums_buckets _ _ _ _ hp hvo j
          · intro j
            rw [hab _ _ _ _ _ _ _ _ hP j, hmin]; simp [mapTarget_zero]
        · cases hr
      · cases hr
    · rw [if_neg h2] at hr
      have hmin : min h.schema o.schema = h.schema := by omega
      have heq : o.schema = h.schema := by omega
      split at hr
      · rename_i P N hP hN
        cases hr
        refine ⟨by simp [hmin], expand o.ps o.pb, by simp [otherAligned, h2], ?_, ?_⟩
        · intro j; rw [hmin, heq]; simp [mapTarget_zero]
        · intro j
          rw [hab _ _ _ _ _ _ _ _ hP j, hmin]; simp [mapTarget_zero]
      · cases hr

example : SpansOk [⟨-3, 2⟩, ⟨0, 0⟩, ⟨4, 1⟩] := by simp [SpansOk]

/-- Finding C31-F2 as a theorem about the transcription: with a zero-length first span whose offset
    equals the index of a bucket of B, `addBuckets` panics when A has no bucket at all … -/
theorem addBuckets_first_span_panic_witness : addBuckets 0 .zero false [⟨2, 0⟩] [] [⟨2, 1⟩] [4] = none := by
  decide +kernel

/-- … and otherwise adds the count to A's first bucket, whatever its index (here 3 instead of 2). -/
theorem addBuckets_first_span_witness :
    addBuckets 0 .zero false [⟨2, 0⟩, ⟨1, 1⟩] [3] [⟨2, 1⟩] [4] = some ([⟨2, 0⟩, ⟨1, 1⟩], [7]) := by
  decide +kernel

/-- Hence the transcribed `addBuckets` does not meet the contract on all valid layouts. -/
theorem addBuckets_meets_contract_full_false_witness : ¬ addBuckets_meets_contract_full := by
  intro h
  have := h 0 .zero false [⟨2, 0⟩, ⟨1, 1⟩] [3] [⟨2, 1⟩] [4] _ addBuckets_first_span_witness 2
  revert this
  decide +kernel

/-- Finding C31-F1 on the model: receiver {schema 0, zero threshold sqrt 2 (position 256), no buckets} plus
    other {schema 1, buckets (1,sqrt 2]:5 and (sqrt 2,2]:7, count 12}: the result has zero count 5 AND a
    bucket (1,2] of 12 — 17 observations for a count of 12. -/
theorem add_double_count_witness :
    (match addSub false ⟨0, 0, .pos 256, 0, 0, 0, [], [], [], [], []⟩ ⟨0, 1, .zero, 0, 12, 0, [⟨1, 2⟩], [5, 7], [], [], []⟩ with
     | .ok r => (r.h.zc, r.h.count, expand r.h.ps r.h.pb)
     | .error _ => (0, 0, [])) = (5, 12, [(1, 12)]) := by
  decide +kernel

/-- Header fields of `Add`/`Sub` on custom-bucket histograms with equal bounds, and the bucket-wise sum
    (relative to the `addBuckets` contract; custom buckets are never skipped). -/
theorem custom_add_sem_partial (ab : AddBucketsFn) (hab : ABSpec ab) (neg : Bool) (h o : FH) (r : AddRes)
    (hc : h.isCustom = true) (hoc : o.isCustom = true) (hb : h.cv = o.cv) (hr : addSubG ab neg h o = .ok r) (j : Int) :
    r.h.count = (if neg then h.count - o.count else h.count + o.count) ∧ r.h.cv = h.cv ∧ r.nhcb = false ∧
    bucketAt (expand r.h.ps r.h.pb) j = bucketAt (expand h.ps h.pb) j + (if neg then -1 else 1) * bucketAt (expand o.ps o.pb) j := by
  unfold addSubG at hr
  simp only [hc, hoc, bne_self_eq_false, Bool.false_eq_true, if_false] at hr
  cases neg <;> simp only [Bool.false_eq_true, if_false, if_true] at hr ⊢ <;>
  · split at hr
    · first
      | (split at hr
         · rename_i r' hr'
           cases hr
           refine ⟨rfl, rfl, rfl, ?_⟩
           have := hab _ _ _ _ _ _ _ _ hr' j
           have hs : h.schema = customSchema := by simpa [FH.isCustom] using hc
           simpa [skipBelow, hs] using this
         · first | cases hr | (rename_i hne; exact absurd hb hne))
    · rename_i hne; exact absurd hc hne

/-- The bounds of a reconciled custom histogram are common to both operands. -/
theorem intersect_subset (a b : List Rat) (x : Rat) (hx : x ∈ intersectCustomBucketBounds a b) : x ∈ a ∧ x ∈ b := by
  unfold intersectCustomBucketBounds at hx
  generalize a.length + b.length = fuel at hx
  induction fuel generalizing a b with
  | zero => simp [intersectBounds] at hx
  | succ n ih =>
    match a, b with
    | [], _ => simp [intersectBounds] at hx
    | _ :: _, [] => simp [intersectBounds] at hx
    | a0 :: as, b0 :: bs =>
      simp only [intersectBounds] at hx
      split at hx
      · rename_i he
        simp only [List.mem_cons] at hx
        rcases hx with hx | hx
        · subst hx; exact ⟨by simp, by simp [he]⟩
        · have := ih as bs hx; exact ⟨by simp [this.1], by simp [this.2]⟩
      · split at hx
        · have := ih as (b0 :: bs) hx; exact ⟨by simp [this.1], this.2⟩
        · have := ih (a0 :: as) bs hx; exact ⟨this.1, by simp [this.2]⟩

/-! ### DetectReset -/

/-- The documented shortcut conditions of `DetectReset`: hint, decreased count, bucket-type change,
    increased resolution, decreased zero threshold each decide the answer on their own. -/
theorem detectReset_shortcuts (h prev : FH) :
    (h.hint = 1 → detectReset h prev = some true) ∧
    (h.hint = 2 → detectReset h prev = some false) ∧
    (h.hint ≠ 1 → h.hint ≠ 2 → h.count < prev.count → detectReset h prev = some true) ∧
    (h.hint ≠ 1 → h.hint ≠ 2 → ¬ h.count < prev.count → h.isCustom = true → prev.isCustom = false → detectReset h prev = some true) ∧
    (h.hint ≠ 1 → h.hint ≠ 2 → ¬ h.count < prev.count → h.isCustom = false → h.schema > prev.schema → detectReset h prev = some true) ∧
    (h.hint ≠ 1 → h.hint ≠ 2 → ¬ h.count < prev.count → h.isCustom = false → ¬ h.schema > prev.schema → h.zt.lt prev.zt = true →
      detectReset h prev = some true) := by
  refine ⟨?_, ?_, ?_, ?_, ?_, ?_⟩ <;> intros <;> simp_all [detectReset]

end Prom.C31
