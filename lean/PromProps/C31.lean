import PromModel.Promql.HistOps
import PromModel.Suites.HistArithSuite
/-
  C31 — Native histogram arithmetic preserves bucket semantics.  Property theorems only.
-/
namespace Prom.C31
open Prom.HistOps

/-- Sum of the first `n` deltas. -/
def deltaSum (ds : List Int) (n : Nat) : Rat := ((ds.take n).foldl (· + ·) 0 : Int)

theorem prefixSums_get (acc : Int) (ds : List Int) (j : Nat) (h : j < ds.length) :
    (prefixSums (acc : Rat) ds)[j]? = some (((acc + (ds.take (j + 1)).foldl (· + ·) 0 : Int)) : Rat) := by
  induction ds generalizing acc j with
  | nil => simp at h
  | cons d ds ih =>
    cases j with
    | zero => simp [prefixSums, Rat.intCast_add]
    | succ j =>
      have hj : j < ds.length := by simpa using h
      have := ih (acc + d) j hj
      simp only [prefixSums, List.getElem?_cons_succ, List.take_succ_cons, List.foldl_cons]
      rw [← Rat.intCast_add, this]
      congr 2
      have hf : ∀ (l : List Int) (x : Int), l.foldl (· + ·) x = x + l.foldl (· + ·) 0 := by
        intro l; induction l with
        | nil => simp
        | cons y l ihl => intro x; simp only [List.foldl_cons]; rw [ihl (x + y), ihl (0 + y)]; omega
      rw [hf _ (0 + d)]; omega

/-- `toFloat_preserves_counts`: converting an integer histogram to a float histogram gives every bucket
    (in storage order, per sign) exactly the sum of the deltas up to it, and copies spans, schema, zero
    bucket, count and sum. -/
theorem toFloat_preserves_counts (x : IH) (j : Nat) (h : j < x.pb.length) :
    (toFloat x).pb[j]? = some (deltaSum x.pb (j + 1)) ∧ (toFloat x).ps = x.ps ∧ (toFloat x).count = x.count
      ∧ (toFloat x).sum = x.sum ∧ (toFloat x).schema = x.schema := by
  have := prefixSums_get 0 x.pb j h
  unfold toFloat deltaSum
  split <;> simp_all

end Prom.C31
