import PromModel.Tsdb.Intervals
import PromProofs.IntervalsAdd
import PromProofs.IntervalsIter
import PromProofs.IntervalsJudge
import PromProofs.Tombstones
import PromProofs.TombstonesTrunc
/-
  C20 — Deletion removes exactly the requested data (mechanism level).
  Property theorems only; helper lemmas live in PromProofs.
-/
namespace Prom.C20
open Prom.Intervals

/-- F1 (fixed in /repo by `fix: Intervals.Add …`): the code as it stood indexed out of range. -/
theorem add_panics_before_fix_witness :
    addG false [⟨1, 2⟩, ⟨10, 20⟩] ⟨5, MaxI64⟩ = .error .panic := by rfl

/-- …and the repaired code merges correctly on the same input. -/
theorem add_after_fix_witness :
    add [⟨1, 2⟩, ⟨10, 20⟩] ⟨5, MaxI64⟩ = .ok [⟨1, 2⟩, ⟨5, MaxI64⟩] := by rfl

/-- Adding to the empty set yields the singleton. -/
theorem add_empty (n : Interval) : add [] n = .ok [n] := by
  simp [add, addG]

/-- Specification of the transcribed `sort.Search(n, f)` for a monotone predicate: it returns the
    least index in `[0,n)` satisfying `f`, or `n` if there is none. -/
theorem goSearch_least (n : Nat) (f : Nat → Bool)
    (mono : ∀ a b, a ≤ b → b < n → f a = true → f b = true) :
    (goSearch n f = n ∧ ∀ k, k < n → f k = false) ∨
    (goSearch n f < n ∧ f (goSearch n f) = true ∧ ∀ k, k < goSearch n f → f k = false) :=
  Prom.Intervals.goSearch_least n f mono

example : goSearch 5 (fun i => decide (3 ≤ i)) = 3 := by decide
example : goSearch 5 (fun _ => false) = 5 := by decide

/--
  `Intervals.Add` (current code, after the F1 fix), for ALL canonical sets with int64 endpoints and
  ALL valid int64 intervals — no guard on `MaxInt64`/`MinInt64`: it does not panic, the result is
  canonical (sorted, non-overlapping, non-adjacent) and covers exactly the old coverage plus the
  requested range.
-/
theorem add_canonical (xs : Intervals) (n : Interval)
    (hc : Canon xs) (hxs : ∀ x ∈ xs, I64 x.mint ∧ I64 x.maxt) (_hn : I64 n.mint ∧ I64 n.maxt)
    (hv : n.mint ≤ n.maxt) :
    ∃ ys, add xs n = .ok ys ∧ Canon ys ∧
      ∀ t, covers ys t ↔ covers xs t ∨ (n.mint ≤ t ∧ t ≤ n.maxt) :=
  add_correct xs n hc hxs hv

/-- Hypotheses of `add_canonical` are met by a non-trivial state at both int64 extremes
    (merge of two intervals, `maxt = MaxInt64`; the F1 input). -/
example : Canon [⟨MinI64, 2⟩, ⟨10, 20⟩] ∧ (∀ x ∈ ([⟨MinI64, 2⟩, ⟨10, 20⟩] : Intervals), I64 x.mint ∧ I64 x.maxt) ∧
    (I64 (5 : Int) ∧ I64 MaxI64) ∧ (5 : Int) ≤ MaxI64 ∧
    add [⟨MinI64, 2⟩, ⟨10, 20⟩] ⟨5, MaxI64⟩ = .ok [⟨MinI64, 2⟩, ⟨5, MaxI64⟩] := by
  refine ⟨by decide, ?_, ?_, ?_, by rfl⟩ <;> simp [I64, MinI64, MaxI64]

/-- The int64 range of all endpoints is preserved (so `add_canonical` can be iterated). -/
theorem add_in_range (xs ys : Intervals) (n : Interval)
    (hxs : ∀ x ∈ xs, I64 x.mint ∧ I64 x.maxt) (hn : I64 n.mint ∧ I64 n.maxt)
    (h : add xs n = .ok ys) : ∀ y ∈ ys, I64 y.mint ∧ I64 y.maxt :=
  add_range xs ys n hxs hn h

/-! ### InBounds / IsSubrange / iterator filtering -/

theorem inBounds_iff (tr : Interval) (t : Int) : tr.inBounds t = true ↔ tr.mint ≤ t ∧ t ≤ tr.maxt :=
  Prom.Intervals.inBounds_iff tr t

/-- On a canonical deletion set, `IsSubrange` says exactly "every timestamp of the range is deleted". -/
theorem isSubrange_iff_all_covered (tr : Interval) (dr : Intervals) (hc : Canon dr) (hv : tr.mint ≤ tr.maxt) :
    tr.isSubrange dr = true ↔ ∀ t, tr.mint ≤ t → t ≤ tr.maxt → covers dr t :=
  Prom.Intervals.isSubrange_iff tr dr hc hv

/-- Without canonicity the equivalence fails (two adjacent intervals cover [1,4], no single one does):
    this is why `Add` must merge adjacent intervals. -/
theorem isSubrange_needs_canonical_witness :
    (⟨1, 4⟩ : Interval).isSubrange [⟨1, 2⟩, ⟨3, 4⟩] = false ∧
    rangeCoveredB [⟨1, 2⟩, ⟨3, 4⟩] 1 4 = true := by decide

/-- `DeletedIterator`: for increasing sample timestamps and a canonical deletion set, `Next()` until
    exhaustion returns a sample iff it is not covered — all samples, any number of intervals. -/
theorem deleted_iterator_next (ts : List Int) (ivs : Intervals)
    (hs : ts.Pairwise (· < ·)) (hc : Canon ivs) :
    drain ts ivs = ts.filter (fun t => !coversB ivs t) :=
  drain_eq_filter ts ivs hs hc

/-- Same after an initial `Seek(s)`: exactly the uncovered samples at or after `s`. -/
theorem deleted_iterator_seek (s : Int) (ts : List Int) (ivs : Intervals)
    (hs : ts.Pairwise (· < ·)) (hc : Canon ivs) :
    seekDrain s ts ivs = ts.filter (fun t => decide (s ≤ t) && !coversB ivs t) :=
  seekDrain_eq_filter s ts ivs hs hc

example : ([1, 2, 3, 5, 8, 9] : List Int).Pairwise (· < ·) ∧ Canon [⟨2, 3⟩, ⟨8, 8⟩] ∧
    drain [1, 2, 3, 5, 8, 9] [⟨2, 3⟩, ⟨8, 8⟩] = [1, 5, 9] ∧
    seekDrain 3 [1, 2, 3, 5, 8, 9] [⟨2, 3⟩, ⟨8, 8⟩] = [5, 9] := by decide

/-! ### the judge accepts the model (statement-as-oracle, suite `intervals`) -/

/--
  For EVERY sequence of operations whose `add` arguments are int64 values (valid or not, any length,
  interleaved with resets, IsSubrange/InBounds queries and iterator runs), the property predicate
  `verdict` evaluated on the model's own outputs reports no violation: after each valid add the set is
  canonical, covers exactly the union of the requested ranges, never panics; IsSubrange and the
  iterator agree with that union.
-/
theorem model_holds (ops : List Op) (hr : ∀ op ∈ ops, OpInRange op) :
    verdict [] 0 ops (runOps [] ops) = none :=
  verdict_runOps ops [] [] 0 inv_nil hr

/-- Non-vacuity: a concrete history hitting merge at both extremes, and the judge really rejects a
    wrong answer for it (a non-merged adjacent pair, and a lost range). -/
example :
    let ops : List Op := [.add 1 2, .add MinI64 0, .add 5 MaxI64, .sub 1 2, .iter (some 0) [-1, 0, 3, 4, 5]]
    (∀ op ∈ ops, OpInRange op) ∧
    runOps [] ops = [.set [⟨1, 2⟩], .set [⟨MinI64, 2⟩], .set [⟨MinI64, 2⟩, ⟨5, MaxI64⟩], .bool true, .ts [3, 4]] ∧
    (verdict [] 0 ops [.set [⟨1, 2⟩], .set [⟨MinI64, 0⟩, ⟨1, 2⟩]]).isSome ∧
    (verdict [] 0 ops [.set [⟨1, 2⟩], .set [⟨MinI64, 0⟩]]).isSome := by
  refine ⟨?_, by decide, by decide, by decide⟩
  intro op hop
  simp only [List.mem_cons, List.mem_nil_iff, or_false] at hop
  rcases hop with rfl | rfl | rfl | rfl | rfl <;> simp [OpInRange, I64, MinI64, MaxI64]

/-! ### tombstone codec and file: read back exactly what was written -/

open Prom.Tombstones in
/-- `Decode (Encode x) = x` for every well-formed store (any number of series and intervals, refs up
    to 2^64-1, timestamps over all of int64). -/
theorem tombstone_codec_roundtrip (st : Stones) (h : WF st) : decode (encode st) = .ok st :=
  decode_encode st h

open Prom.Tombstones in
/-- `ReadTombstones (WriteFile x) = x`, with CRC32 an arbitrary function (uninterpreted). -/
theorem tombstone_file_roundtrip (crc : Bytes → UInt32) (st : Stones) (h : WF st) :
    readFile crc (encodeFile crc st) = .ok st :=
  readFile_encodeFile crc st h

open Prom.Tombstones in
theorem uvarint_roundtrip (x : Nat) (rest : Bytes) (hx : x < 2 ^ 64) :
    getUvarint (putUvarint x ++ rest) = some (x, rest) := getUvarint_put x rest hx

open Prom.Tombstones in
theorem varint_roundtrip (x : Int) (rest : Bytes) (hx : I64 x) :
    getVarint (putVarint x ++ rest) = some (x, rest) := getVarint_put x rest hx

open Prom.Tombstones in
/-- A well-formed store with the extreme reference and extreme timestamps. -/
example : WF [(0, [⟨MinI64, -5⟩, ⟨3, 4⟩]), (2 ^ 64 - 1, [⟨7, MaxI64⟩])] := by
  refine ⟨by decide, ?_⟩
  intro p hp
  simp only [List.mem_cons, List.mem_nil_iff, or_false] at hp
  rcases hp with rfl | rfl
  · refine ⟨by decide, by simp, by decide, ?_⟩
    intro x hx
    simp only [List.mem_cons, List.mem_nil_iff, or_false] at hx
    rcases hx with rfl | rfl <;> simp [I64, MinI64, MaxI64]
  · refine ⟨by decide, by simp, by decide, ?_⟩
    intro x hx
    simp only [List.mem_cons, List.mem_nil_iff, or_false] at hx
    rcases hx with rfl <;> simp [I64, MinI64, MaxI64]

open Prom.Tombstones in
/-- Canonicity is needed for the read-back: `Decode` re-adds every interval, so a store holding two
    adjacent intervals (which `AddInterval` never produces) comes back merged. -/
theorem roundtrip_needs_canonical_witness :
    decode (encode [(1, [⟨1, 2⟩, ⟨3, 4⟩])]) = .ok [(1, [⟨1, 4⟩])] := by rfl

open Prom.Tombstones in
/-- Observed in the real code (reproduced by suite `tombfile`): a tombstones file of exactly 8 bytes
    that starts with the magic number makes `ReadTombstones` panic (`d.Get()[1:]` on an empty body)
    instead of returning an error. Such a file is never produced by `WriteFile`. -/
theorem read_8_byte_file_panics_witness (crc : Bytes → UInt32) (c : Bytes) (hc : c.length = 4) :
    readFile crc (be32 magic ++ c) = .error .panic := by
  have hm : be32dec (be32 magic) = magic := be32dec_be32 magic (by decide)
  have hl : (be32 magic ++ c).length = 8 := by simp [be32_length, hc]
  unfold readFile
  rw [hl]
  have ht : (be32 magic ++ c).take (8 - 4) = be32 magic := by
    rw [List.take_append_of_le_length (by simp [be32_length])]
    exact List.take_of_length_le (by simp [be32_length])
  simp only [ht]
  rw [if_neg (by omega), if_neg (by simp [be32_length])]
  have ht4 : (be32 magic).take 4 = be32 magic := List.take_of_length_le (by simp [be32_length])
  rw [ht4, hm]
  simp only [ne_eq, not_true_eq_false, if_false]
  have hd : (be32 magic).drop 4 = [] := List.drop_of_length_le (by simp [be32_length])
  rw [hd]
  rfl

open Prom.Tombstones in
/-- `TruncateBefore(t)` on a canonical group drops exactly the intervals lying entirely before `t`;
    the result is canonical, no deletion at or after `t` is lost, none is invented. -/
theorem truncate_before_exact (t : Int) (ivs : Intervals) (hc : Canon ivs) :
    truncIvs t ivs = ivs.filter (fun iv => decide (t ≤ iv.maxt)) ∧ Canon (truncIvs t ivs) ∧
    (∀ t', t ≤ t' → (covers (truncIvs t ivs) t' ↔ covers ivs t')) ∧
    (∀ t', covers (truncIvs t ivs) t' → covers ivs t') :=
  ⟨truncIvs_eq_filter t ivs hc, truncIvs_covers t ivs hc⟩

open Prom.Tombstones in
example : Canon [⟨1, 2⟩, ⟨4, 9⟩, ⟨20, 30⟩] ∧ truncIvs 5 [⟨1, 2⟩, ⟨4, 9⟩, ⟨20, 30⟩] = [⟨4, 9⟩, ⟨20, 30⟩] := by decide

end Prom.C20
