import PromModel.Tsdb.Intervals
/-
  C20 — Deletion removes exactly the requested data (mechanism level: `Intervals.Add`).
  Property theorems only; helper lemmas live in PromProofs.
-/
namespace Prom.C20
open Prom.Intervals

/-- F1 (fixed in /repo by `fix: Intervals.Add …`): the code as it stood indexed out of range. -/
theorem add_panics_before_fix_witness :
    addG false [⟨1, 2⟩, ⟨10, 20⟩] ⟨5, MaxI64⟩ = .error .panic := by rfl

/-- …and the repaired code merges correctly on the same input. -/
theorem add_after_fix_witness :
    add [⟨1, 2⟩, ⟨10, 20⟩] ⟨5, MaxI64⟩ = .ok [⟨1, 2⟩, ⟨5, MaxI64⟩] := by rfl

/-- Adding to the empty set yields the singleton. -/
theorem add_empty (n : Interval) : add [] n = .ok [n] := by
  simp [add, addG]

end Prom.C20
