import PromModel.Tsdb.Intervals
import PromProofs.IntervalsAdd
/-
  C20 — Deletion removes exactly the requested data (mechanism level).
  Property theorems only; helper lemmas live in PromProofs.
-/
namespace Prom.C20
open Prom.Intervals

/-- F1 (fixed in /repo by `fix: Intervals.Add …`): the code as it stood indexed out of range. -/
theorem add_panics_before_fix_witness :
    addG false [⟨1, 2⟩, ⟨10, 20⟩] ⟨5, MaxI64⟩ = .error .panic := by rfl

/-- …and the repaired code merges correctly on the same input. -/
theorem add_after_fix_witness :
    add [⟨1, 2⟩, ⟨10, 20⟩] ⟨5, MaxI64⟩ = .ok [⟨1, 2⟩, ⟨5, MaxI64⟩] := by rfl

/-- Adding to the empty set yields the singleton. -/
theorem add_empty (n : Interval) : add [] n = .ok [n] := by
  simp [add, addG]

/-- Specification of the transcribed `sort.Search(n, f)` for a monotone predicate: it returns the
    least index in `[0,n)` satisfying `f`, or `n` if there is none. -/
theorem goSearch_least (n : Nat) (f : Nat → Bool)
    (mono : ∀ a b, a ≤ b → b < n → f a = true → f b = true) :
    (goSearch n f = n ∧ ∀ k, k < n → f k = false) ∨
    (goSearch n f < n ∧ f (goSearch n f) = true ∧ ∀ k, k < goSearch n f → f k = false) :=
  Prom.Intervals.goSearch_least n f mono

example : goSearch 5 (fun i => decide (3 ≤ i)) = 3 := by decide
example : goSearch 5 (fun _ => false) = 5 := by decide

/--
  `Intervals.Add` (current code, after the F1 fix), for ALL canonical sets with int64 endpoints and
  ALL valid int64 intervals — no guard on `MaxInt64`/`MinInt64`: it does not panic, the result is
  canonical (sorted, non-overlapping, non-adjacent) and covers exactly the old coverage plus the
  requested range.
-/
theorem add_canonical (xs : Intervals) (n : Interval)
    (hc : Canon xs) (hxs : ∀ x ∈ xs, I64 x.mint ∧ I64 x.maxt) (_hn : I64 n.mint ∧ I64 n.maxt)
    (hv : n.mint ≤ n.maxt) :
    ∃ ys, add xs n = .ok ys ∧ Canon ys ∧
      ∀ t, covers ys t ↔ covers xs t ∨ (n.mint ≤ t ∧ t ≤ n.maxt) :=
  add_correct xs n hc hxs hv

/-- Hypotheses of `add_canonical` are met by a non-trivial state at both int64 extremes
    (merge of two intervals, `maxt = MaxInt64`; the F1 input). -/
example : Canon [⟨MinI64, 2⟩, ⟨10, 20⟩] ∧ (∀ x ∈ ([⟨MinI64, 2⟩, ⟨10, 20⟩] : Intervals), I64 x.mint ∧ I64 x.maxt) ∧
    (I64 (5 : Int) ∧ I64 MaxI64) ∧ (5 : Int) ≤ MaxI64 ∧
    add [⟨MinI64, 2⟩, ⟨10, 20⟩] ⟨5, MaxI64⟩ = .ok [⟨MinI64, 2⟩, ⟨5, MaxI64⟩] := by
  refine ⟨by decide, ?_, ?_, ?_, by rfl⟩ <;> simp [I64, MinI64, MaxI64]

/-- The int64 range of all endpoints is preserved (so `add_canonical` can be iterated). -/
theorem add_in_range (xs ys : Intervals) (n : Interval)
    (hxs : ∀ x ∈ xs, I64 x.mint ∧ I64 x.maxt) (hn : I64 n.mint ∧ I64 n.maxt)
    (h : add xs n = .ok ys) : ∀ y ∈ ys, I64 y.mint ∧ I64 y.maxt :=
  add_range xs ys n hxs hn h

end Prom.C20
