import PromModel.Tsdb.HeadCounters
import PromModel.Suites.CountersSuite
import PromModel.Tsdb.HistGauges
import PromModel.Suites.HCountersSuite
import PromProofs.HistGaugesLemmas
/-
  C52 — the head's reported counters match its contents. Model: `PromModel/Tsdb/HeadCounters.lean`
  (`CDb` = the shared storage model `Db` + the series in memory incl. empty ones with their chunk lists,
  + the counters updated by increments at the code's sites, + a RECOUNT).
-/
namespace Prom.C52
open Prom.Counters Prom.Db

/-- A fresh head reports what it contains. -/
theorem init_stat_ok (cfg : Cfg) (spc : Nat) : statOk 0 ((CDb.init cfg spc).step .stat).2 = true := by
  simp [CDb.step, CDb.init, CDb.gauges, CDb.recount, statOk]

/-- The full statement (all histories): after every step gauges = recount and the active-appender gauge
    is the number of open appenders. FALSE for the chunks gauge as the code stands
    (`chunks_gauge_overcount_witness`); kept visible. -/
def counters_match_full : Prop :=
  ∀ (cfg : Cfg) (spc : Nat) (ops : List COp),
    let c := (CDb.init cfg spc).after ops
    c.gauges.take 3 = c.recount ∧ c.appenders = (if c.db.app.isSome then 1 else 0)

/-- The same without the chunks gauge: series and stale-series counters and active appenders.
    NOT proved here (`_partial` obligations below are the proved part); checked on every run by the
    correspondence (model = real gauges = real recount on every `stat`). -/
def counters_match_series_stale_full : Prop :=
  ∀ (cfg : Cfg) (spc : Nat) (ops : List COp),
    let c := (CDb.init cfg spc).after ops
    c.numSeries = c.ser.length ∧ c.numStale = (c.ser.filter (·.lastStale)).length ∧
    c.appenders = (if c.db.app.isSome then 1 else 0)

/-- History of finding C52-F1 (chunk range 100, 2 samples per chunk): one transaction appends
    s1@-100, s1@0 (this cuts a second chunk at Commit), s1@0 again with ANOTHER value (accepted by
    Append, rejected by the commit-time re-check), s2@-98. -/
def overcountHistory : List COp :=
  [.base .begin, .base (.app 1 (-100) 1), .base (.app 1 0 2), .base (.app 1 0 3), .base (.app 2 (-98) 4),
   .base .commit, .stat]

/-- On the history of finding C52-F1 the chunks gauge now equals the recount (3 chunks): the repair
    "fix: tsdb: head chunks gauge over-counts when a sample is rejected at commit time" (8bced8cd99)
    resets `chunkCreated` for every sample and the model follows (`repoFixedChunkCreated = true`).
    Before the repair the gauge said 4 (`onChunkCreated` ran a second time for the previous sample's
    chunk; reproduced on the real DB, see known_findings.jsonl `fixed` C52-F1). -/
theorem chunks_gauge_after_fix_witness :
    let c := (CDb.init ⟨100, 0⟩ 2).after overcountHistory
    c.gauges = [2, 0, 3, 0] ∧ c.recount = [2, 0, 3] := by
  decide

/-- Series, stale series and active appenders on that history agree with the recount
    (an instance of `counters_match_series_stale_full`). -/
theorem counters_match_partial_example :
    let c := (CDb.init ⟨100, 0⟩ 2).after overcountHistory
    c.numSeries = c.ser.length ∧ c.numStale = (c.ser.filter (·.lastStale)).length ∧
    c.appenders = (if c.db.app.isSome then 1 else 0) := by
  decide

/-- `Commit` and `Rollback` each take exactly one off the active-appender gauge, an appender that never
    appended (`initAppender` with no inner appender) included, and `begin` adds one. -/
theorem appenders_step (c : CDb) :
    (c.closeApp).appenders = c.appenders - 1 ∧
    ((c.step (.base .begin)).1).appenders = c.rollbackOpen.appenders + 1 := by
  constructor
  · rfl
  · rfl

/-- A staleness marker stored on a non-stale series raises the stale gauge by one and the recount with
    it; a normal sample on a stale series lowers both (`updateStaleSeriesMetricOnAppend`). -/
theorem stale_transition_example :
    let c := (CDb.init ⟨1000, 0⟩ 120).after
      [.base .begin, .base (.app 0 10 1), .base .commit, .base .begin, .base (.app 0 20 staleBits), .base .commit]
    let c' := c.after [.base .begin, .base (.app 0 30 1), .base .commit]
    c.gauges = [1, 1, 1, 0] ∧ c.recount = [1, 1, 1] ∧ c'.gauges = [1, 0, 1, 0] ∧ c'.recount = [1, 0, 1] := by
  decide


/-
  ---------------------------------------------------------------------------------------------
  Part 2 — the gauges derived from each series' newest in-order sample (stale series, native
  histogram series, native histogram buckets; `PromModel/Tsdb/HistGauges.lean`), for ALL histories of
  series creation, samples of any kind reaching any series in any timestamp order (in order or not),
  eviction, restart from a snapshot and restart from the WAL.
  ---------------------------------------------------------------------------------------------
-/
section HistGauges
open Prom.HistGauges

/-- A sample that is not in order (rejected, or diverted to the out-of-order chunk; live or on WAL
    replay) changes neither the series nor any gauge. -/
theorem not_in_order_is_noop (s : Ser) (g : G) (x : HistGauges.Smp) (h : s.accepts (convert s x).t = false) :
    sampleAt s g x = (s, g) := by
  simp [sampleAt, h]

/-- One step keeps gauges = recount (no sample widened in place). -/
theorem hist_step_inv (h : HistGauges.Head) (op : HistGauges.Op) (hw : NoWiden [op]) (hi : h.g = recount h.ser) :
    (h.step op).g = recount (h.step op).ser := by
  cases op with
  | create =>
    simp only [HistGauges.Head.step, recount_append, hi]
    ext <;> simp [contrib, Last.bk]
  | sample ref x =>
    have hx : x.sb = x.nb := hw.1
    simp only [HistGauges.Head.step]
    split
    · rename_i s hs
      simp only
      rw [recount_set h.ser ref (some s) _ hs, sampleAt_spec s h.g x hx, hi]
    · exact hi
  | evict ref =>
    simp only [HistGauges.Head.step]
    split
    · rename_i s hs
      simp only
      rw [recount_set h.ser ref (some s) none hs, hi]
      ext <;> simp [contrib]
    · exact hi
  | snapshotRestart =>
    simp only [HistGauges.Head.step, foldl_contrib]
    ext <;> simp

theorem noWiden_cons (op : HistGauges.Op) (ops : List HistGauges.Op) (h : NoWiden (op :: ops)) : NoWiden [op] ∧ NoWiden ops := by
  cases op <;> simp_all [NoWiden]

theorem hist_run_inv (h : HistGauges.Head) (ops : List HistGauges.Op) (hw : NoWiden ops) (hi : h.g = recount h.ser) :
    (h.run ops).g = recount (h.run ops).ser := by
  induction ops generalizing h with
  | nil => exact hi
  | cons op r ih =>
    have := noWiden_cons op r hw
    exact ih (h.step op) this.2 (hist_step_inv h op this.1 hi)


/-- C52 for the sample-derived gauges, all histories: starting from an empty head, after ANY sequence of
    series creations, samples (float / histogram, stale or not, any bucket numbers, any timestamp order —
    in order, rejected, out of order), type switches, evictions and snapshot restarts the four numbers
    equal the recount — provided no sample was widened in place (`NoWiden`; without it the statement
    is false as the code stands, `widen_witness`). -/
theorem hist_gauges_match (ops : List HistGauges.Op) (hw : NoWiden ops) :
    (({} : HistGauges.Head).run ops).g = recount (({} : HistGauges.Head).run ops).ser :=
  hist_run_inv {} ops hw (by ext <;> simp [recount])

/-- A restart from the WAL — every logged record replayed into an empty head, samples that are not in
    order at that point skipped under the `sampleInOrder` guard — ends with gauges = recount, whatever the
    log order (e.g. an out-of-order histogram logged after the newer sample, or two overlapping
    appenders that committed in the reverse order of their timestamps). -/
theorem wal_replay_gauges_match (log : List HistGauges.Op) (hw : NoWiden log) :
    (replay log).g = recount (replay log).ser :=
  hist_gauges_match log hw

/-- A restart from a chunk snapshot rebuilds the numbers from the series (`loadChunkSnapshot`): they
    equal the recount whatever the counters said before. -/
theorem snapshot_restart_gauges_match (h : HistGauges.Head) :
    (h.step .snapshotRestart).g = recount (h.step .snapshotRestart).ser := by
  simp only [HistGauges.Head.step, foldl_contrib]
  ext <;> simp

/-- The per-series state machine (last-sample kind × staleness × bucket number): for ONE series and
    any list of samples — type switches float ↔ histogram, staleness markers (a float marker on a
    histogram series becomes a histogram marker), changing bucket numbers, timestamps in any order —
    the head's numbers are exactly that series' contribution. -/
theorem single_series_type_switches (xs : List HistGauges.Smp) (hw : ∀ x ∈ xs, x.sb = x.nb) :
    let h := ({} : HistGauges.Head).run (.create :: xs.map (HistGauges.Op.sample 0))
    h.g = recount h.ser := by
  apply hist_gauges_match
  show NoWiden (xs.map (HistGauges.Op.sample 0))
  induction xs with
  | nil => trivial
  | cons x r ih =>
    exact ⟨hw x (by simp), ih (fun y hy => hw y (by simp [hy]))⟩

example : NoWiden [.create, .sample 0 ⟨10, .hist, false, 8, 8⟩, .sample 0 ⟨5, .hist, false, 3, 3⟩,
    .sample 0 ⟨20, .float, true, 0, 0⟩, .evict 0] := by simp [NoWiden]

/-- Instance with type switches: histogram(8) → float staleness marker (stored as a histogram marker
    without buckets) → float → histogram(3): the numbers follow the recount at every stage. -/
theorem type_switch_example :
    let ops := [HistGauges.Op.create, .sample 0 ⟨10, .hist, false, 8, 8⟩, .sample 0 ⟨20, .float, true, 0, 0⟩]
    let h := ({} : HistGauges.Head).run ops
    let h' := h.run [.sample 0 ⟨30, .float, false, 0, 0⟩, .sample 0 ⟨40, .hist, false, 3, 3⟩]
    h.g = ⟨1, 1, 1, 0⟩ ∧ recount h.ser = ⟨1, 1, 1, 0⟩ ∧ h'.g = ⟨1, 0, 1, 3⟩ ∧ recount h'.ser = ⟨1, 0, 1, 3⟩ := by
  decide

/-- Finding C52-F2 (in-place widening): a gauge histogram with 5 buckets opens a chunk, the next one
    has 2 buckets and is widened to the chunk's 5 (`sb = 5`) but counted as 2; the bucket number is then 2
    while the head holds 5, and the following float sample subtracts 5: the uint64 wraps (−3 here). -/
theorem widen_witness :
    let h := ({} : HistGauges.Head).run [.create, .sample 0 ⟨10, .hist, false, 5, 5⟩, .sample 0 ⟨20, .hist, false, 2, 5⟩]
    let h' := h.step (.sample 0 ⟨30, .float, false, 0, 0⟩)
    h.g.hbuckets = 2 ∧ (recount h.ser).hbuckets = 5 ∧ h'.g.hbuckets = -3 ∧ (recount h'.ser).hbuckets = 0 := by
  decide

/-- Why the `sampleInOrder` guard matters (the class of C52's seeded change): with the
    native-histogram update outside the guard, replaying hist(8)@500 followed by the older hist(3)@300
    leaves the bucket number at 3 while the series still holds the 8-bucket sample; and an older
    histogram replayed after a newer FLOAT makes a histogram series out of a float series. -/
theorem unguarded_replay_witness :
    let s : Ser := ({} : Ser).store ⟨500, .hist, false, 8, 8⟩
    let g : G := ⟨1, 0, 1, 8⟩
    (sampleAtUnguarded s g ⟨300, .hist, false, 3, 3⟩) = (s, ⟨1, 0, 1, 3⟩) ∧
    (sampleAt s g ⟨300, .hist, false, 3, 3⟩) = (s, g) ∧
    (let f : Ser := ({} : Ser).store ⟨300, .float, false, 0, 0⟩
     (sampleAtUnguarded f ⟨1, 0, 0, 0⟩ ⟨200, .hist, false, 8, 8⟩).2 = ⟨1, 0, 1, 8⟩ ∧
     (sampleAt f ⟨1, 0, 0, 0⟩ ⟨200, .hist, false, 8, 8⟩).2 = ⟨1, 0, 0, 0⟩) := by
  decide

end HistGauges

/-
  Link between the judge of suite `hcounters` and the statement: on an observation whose gauges equal
  the recount (series, stale, histogram series, histogram buckets, chunks), whose method values and
  created−removed agree, whose postings agree with the series map and whose active-appender gauge equals
  the number of open appenders, the judge's per-line check accepts and records no finding; if any of the
  four sample-derived numbers or the series number differs it rejects (no restart-related exemption
  armed).
-/
section Judge
open Prom.HCounters

def cleanObs (s st hs hb ch ap : Int) : Obs := ⟨[s, st, hs, hb, ch, ap], [s, st, hs, hb], s, [s, st, hs, hb, ch], s, 0⟩

theorem judge_accepts_matching (s st hs hb ch : Int) (slots : List Nat) (k : Nat) (op raw : String) :
    let j : J := { opened := slots }
    (match j.check k op (cleanObs s st hs hb ch slots.length) raw with
     | .ok j' => j'.known.isNone
     | .error _ => false) = true := by
  simp [J.check, cleanObs, HCounters.get, sameOrWrapped, List.range, List.range.loop]

theorem judge_rejects_histogram_series_mismatch (s st hs hb ch d : Int) (hd : d ≠ 0) (k : Nat) (op raw : String) :
    let o : Obs := ⟨[s, st, hs + d, hb, ch, 0], [s, st, hs + d, hb], s, [s, st, hs, hb, ch], s, 0⟩
    (match ({} : J).check k op o raw with
     | .ok _ => false
     | .error _ => true) = true := by
  have : ¬ (hs + d = hs) := by omega
  simp [J.check, HCounters.get, J.armed, this]

end Judge

end Prom.C52
