import PromModel.Tsdb.HeadCounters
import PromModel.Suites.CountersSuite
/-
  C52 — the head's reported counters match its contents. Model: `PromModel/Tsdb/HeadCounters.lean`
  (`CDb` = the shared storage model `Db` + the series in memory incl. empty ones with their chunk lists,
  + the counters updated by increments at the code's sites, + a RECOUNT).
-/
namespace Prom.C52
open Prom.Counters Prom.Db

/-- A fresh head reports what it contains. -/
theorem init_stat_ok (cfg : Cfg) (spc : Nat) : statOk 0 ((CDb.init cfg spc).step .stat).2 = true := by
  simp [CDb.step, CDb.init, CDb.gauges, CDb.recount, statOk]

/-- The full statement (all histories): after every step gauges = recount and the active-appender gauge
    is the number of open appenders. FALSE for the chunks gauge as the code stands
    (`chunks_gauge_overcount_witness`); kept visible. -/
def counters_match_full : Prop :=
  ∀ (cfg : Cfg) (spc : Nat) (ops : List COp),
    let c := (CDb.init cfg spc).after ops
    c.gauges.take 3 = c.recount ∧ c.appenders = (if c.db.app.isSome then 1 else 0)

/-- The same without the chunks gauge: series and stale-series counters and active appenders.
    NOT proved here (`_partial` obligations below are the proved part); checked on every run by the
    correspondence (model = real gauges = real recount on every `stat`). -/
def counters_match_series_stale_full : Prop :=
  ∀ (cfg : Cfg) (spc : Nat) (ops : List COp),
    let c := (CDb.init cfg spc).after ops
    c.numSeries = c.ser.length ∧ c.numStale = (c.ser.filter (·.lastStale)).length ∧
    c.appenders = (if c.db.app.isSome then 1 else 0)

/-- History of finding C52-F1 (chunk range 100, 2 samples per chunk): one transaction appends
    s1@-100, s1@0 (this cuts a second chunk at Commit), s1@0 again with ANOTHER value (accepted by
    Append, rejected by the commit-time re-check), s2@-98. -/
def overcountHistory : List COp :=
  [.base .begin, .base (.app 1 (-100) 1), .base (.app 1 0 2), .base (.app 1 0 3), .base (.app 2 (-98) 4),
   .base .commit, .stat]

/-- On the history of finding C52-F1 the chunks gauge now equals the recount (3 chunks): the repair
    "fix: tsdb: head chunks gauge over-counts when a sample is rejected at commit time" (8bced8cd99)
    resets `chunkCreated` for every sample and the model follows (`repoFixedChunkCreated = true`).
    Before the repair the gauge said 4 (`onChunkCreated` ran a second time for the previous sample's
    chunk; reproduced on the real DB, see known_findings.jsonl `fixed` C52-F1). -/
theorem chunks_gauge_after_fix_witness :
    let c := (CDb.init ⟨100, 0⟩ 2).after overcountHistory
    c.gauges = [2, 0, 3, 0] ∧ c.recount = [2, 0, 3] := by
  decide

/-- Series, stale series and active appenders on that history agree with the recount
    (an instance of `counters_match_series_stale_full`). -/
theorem counters_match_partial_example :
    let c := (CDb.init ⟨100, 0⟩ 2).after overcountHistory
    c.numSeries = c.ser.length ∧ c.numStale = (c.ser.filter (·.lastStale)).length ∧
    c.appenders = (if c.db.app.isSome then 1 else 0) := by
  decide

/-- `Commit` and `Rollback` each take exactly one off the active-appender gauge, an appender that never
    appended (`initAppender` with no inner appender) included, and `begin` adds one. -/
theorem appenders_step (c : CDb) :
    (c.closeApp).appenders = c.appenders - 1 ∧
    ((c.step (.base .begin)).1).appenders = c.rollbackOpen.appenders + 1 := by
  constructor
  · rfl
  · rfl

/-- A staleness marker stored on a non-stale series raises the stale gauge by one and the recount with
    it; a normal sample on a stale series lowers both (`updateStaleSeriesMetricOnAppend`). -/
theorem stale_transition_example :
    let c := (CDb.init ⟨1000, 0⟩ 120).after
      [.base .begin, .base (.app 0 10 1), .base .commit, .base .begin, .base (.app 0 20 staleBits), .base .commit]
    let c' := c.after [.base .begin, .base (.app 0 30 1), .base .commit]
    c.gauges = [1, 1, 1, 0] ∧ c.recount = [1, 1, 1] ∧ c'.gauges = [1, 0, 1, 0] ∧ c'.recount = [1, 0, 1] := by
  decide

end Prom.C52
