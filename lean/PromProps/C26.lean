import PromModel.Suites.PromqlPrintSuite
import PromProofs.PromqlDuration
import PromProofs.PromqlQuote
/-
  Property C26 — PromQL expressions print to text that parses back unchanged.

  Layers (each useful on its own):
  * `quote_unquote`      label values / quoted label names / string literals survive the printer's
                         `strconv.Quote` and the parser's `strutil.Unquote` — ALL byte strings, including
                         invalid UTF-8 and non-printable runes;
  * `duration_roundtrip` every non-negative millisecond duration printed by `model.Duration.String`
                         is parsed back by `model.ParseDuration` to the same duration;
  * `utf8_roundtrip`     `EncodeRune (DecodeRune s) = the bytes decoded` for every valid encoding;
  * `parse_total`        the model parser is a total function whose outcome is `err` or `ok …` — it has no
                         third, "internal error" outcome (the implementation's `ErrUnexpected` / recovered
                         panics are flagged by the judge on every run);
  * witnesses of the defects the real printer has (the model reproduces them).
  The expression-level statement `parse_print_full` is kept visible below; it is NOT proved here
  (see the comment next to it) — on the expression level the tie is the byte-exact correspondence.
-/
namespace Prom.C26
open Prom.Promql Prom.PromqlPrint

/-- Quoting then unquoting any byte string gives it back (label values, quoted names, string literals). -/
theorem quote_unquote (s : Bytes) : unquote (quote s) = some s := Prom.Promql.quote_unquote s

example : unquote (quote [0xff, 34, 92, 10, 0xC2, 0x80, 7]) = some [0xff, 34, 92, 10, 0xC2, 0x80, 7] :=
  quote_unquote _

/-- UTF-8: encoding the rune decoded from a valid encoding reproduces exactly the bytes consumed. -/
theorem utf8_roundtrip (s : Bytes) (hs : s ≠ []) (hv : decodeRune s ≠ (0xFFFD, 1)) :
    encodeRune (decodeRune s).1 = s.take (decodeRune s).2 := encodeRune_decodeRune s hs hv

/-- Printing a duration of `ms` milliseconds (representable in int64 nanoseconds) and parsing the text
    gives the duration back, in nanoseconds. -/
theorem duration_roundtrip (ms : Nat) (h : ms * 1000000 ≤ 2 ^ 63 - 1) :
    parseDuration (fmtDurationMs ms) = some (ms * 1000000) := Prom.Promql.duration_roundtrip ms h

example : (90061001 : Nat) * 1000000 ≤ 2 ^ 63 - 1 := by decide

/-- Totality of the model: on every option set and every input the round-trip line is `err` or starts
    with `ok ` (there is no internal-error outcome). -/
theorem parse_total (fixInf : Bool) (o : Opts) (text : Bytes) :
    runRT fixInf o text = "err" ∨ ∃ rest, runRT fixInf o text = "ok " ++ rest := by
  unfold runRT
  cases parse o text with
  | none => exact Or.inl rfl
  | some e =>
    refine Or.inr ⟨sx e ++ " ; " ++ hexB (e.print fixInf) ++ " ; " ++ (reparse fixInf o (e.print fixInf)).1 ++ " ; " ++
      (reparse fixInf o (e.print fixInf)).2 ++ " ; " ++ hexB (prettify fixInf e) ++ " ; " ++
      (reparse fixInf o (prettify fixInf e)).1 ++ " ; " ++ (reparse fixInf o (prettify fixInf e)).2, ?_⟩
    simp [String.append_assoc]

/-- The judge accepts a rejected input: rejection with a parse error is an admissible outcome. -/
theorem judge_accepts_reject (flags hx : String) (h : toks ("rt " ++ flags ++ " " ++ hx) = ["rt", flags, hx]) :
    judgeLine ("rt " ++ flags ++ " " ++ hx) "err" = none := by
  simp [judgeLine, h]

/-- The printer never adds or drops parentheses: a `ParenExpr` prints as its child in parentheses,
    a unary expression as sign + child, a binary expression as `lhs op[ bool][ matching] rhs`. -/
theorem print_shape (f : Bool) (e l r : Expr) (op : BinOp) (b : Bool) (vm : Option VM) (neg : Bool) :
    (Expr.paren e).print f = [40] ++ e.print f ++ [41] ∧
    (Expr.un neg e).print f = (if neg then [45] else [43]) ++ e.print f ∧
    (Expr.bin op b vm l r).print f =
      l.print f ++ [32] ++ op.text ++ (if b then bs " bool" else []) ++ matchingText vm ++ [32] ++ r.print f := by
  refine ⟨?_, ?_, ?_⟩ <;> simp [Expr.print]


/-! ### witnesses of finding F13 on the model (unrepaired printer `fixInf = false`) -/

theorem pinf_flags : F64Q.F64.pinf.isNaN = false ∧ F64Q.F64.pinf.isInf = true ∧ F64Q.F64.pinf.neg? = false := by
  refine ⟨?_, ?_, ?_⟩ <;> decide

/-- F13: the unrepaired printer renders the literal +Inf with a plus sign, the repaired one without. -/
theorem inf_literal_print_witness :
    numText false F64Q.F64.pinf false = bs "+Inf" ∧ numText true F64Q.F64.pinf false = bs "Inf" := by
  obtain ⟨h1, h2, h3⟩ := pinf_flags
  constructor <;> simp [numText, fmtFloatF, h1, h2, h3]

/-- … so `Inf ^ x` prints as `+Inf ^ x`; the parser reads the leading `+` as a unary operator, which
    binds looser than `^` (`parseOperand` parses its operand with `minPrec = 6`), i.e. over the whole power. -/
theorem inf_pow_print_witness (r : Expr) :
    (Expr.bin .pow false none (.num F64Q.F64.pinf false) r).print false =
      bs "+Inf" ++ [32] ++ bs "^" ++ [32] ++ r.print false := by
  obtain ⟨h1, h2, h3⟩ := pinf_flags
  simp [Expr.print, numText, fmtFloatF, h1, h2, h3, matchingText, BinOp.text]

/-- A bare metric name prints as itself: the implicit `__name__` matcher is hidden. -/
theorem bare_selector_print (f : Bool) (n : Bytes) (hn : n ≠ []) :
    (Expr.vs n [⟨.eq, metricNameB, n⟩] 0 .nil .none .none).print f = n := by
  have h2 : n.isEmpty = false := by cases n <;> simp_all
  simp [Expr.print, selectorCoreText, atText, extText, offsetText, Expr.isNil, sortStrings, h2]

example : ([102, 111, 111] : Bytes) ≠ [] := by simp

/-- Equality of trees modulo the order of matchers inside one selector. -/
def TreeEq (a b : Expr) : Prop :=
  (readWhole (sx a)).map SExp.canon = (readWhole (sx b)).map SExp.canon

/-- The tree contains none of the defect classes listed in known_findings.jsonl. -/
def Clean (e : Expr) : Prop := (readWhole (sx e)).map kindOf = some "none"

/-- FULL STATEMENT (not proved): every parser output free of the known defect classes prints to text
    that parses, under the same options, to an equal tree that prints identically; likewise through
    Prettify.  What is missing: an inductive characterisation `Producible` of parser outputs and the
    precedence lemma (children that bind looser are always `ParenExpr`), `lex_unlex` for the printer's
    token discipline and `selector_roundtrip`; the lexical layers above are the proved part.  The
    correspondence suite checks this statement on every generated expression instead. -/
def parse_print_full : Prop :=
  ∀ (o : Opts) (t : Bytes) (e : Expr), parse o t = some e → Clean e →
    (∃ e', parse o (e.print false) = some e' ∧ TreeEq e' e ∧ e'.print false = e.print false) ∧
    (∃ e', parse o (prettify false e) = some e' ∧ TreeEq e' e ∧ e'.print false = e.print false)

end Prom.C26
