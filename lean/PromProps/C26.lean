import PromModel.Suites.PromqlPrintSuite
import PromProofs.PromqlDuration
import PromProofs.PromqlQuote
import PromProofs.PromqlRoundtrip
import PromProofs.PromqlUnlex
/-
  Property C26 — PromQL expressions print to text that parses back unchanged.

  Layers (each useful on its own):
  * `quote_unquote`      label values / quoted label names / string literals survive the printer's
                         `strconv.Quote` and the parser's `strutil.Unquote` — ALL byte strings, including
                         invalid UTF-8 and non-printable runes;
  * `duration_roundtrip` every non-negative millisecond duration printed by `model.Duration.String`
                         is parsed back by `model.ParseDuration` to the same duration;
  * `utf8_roundtrip`     `EncodeRune (DecodeRune s) = the bytes decoded` for every valid encoding;
  * `parse_total`        the model parser is a total function whose outcome is `err` or `ok …` — it has no
                         third, "internal error" outcome (the implementation's `ErrUnexpected` / recovered
                         panics are flagged by the judge on every run);
  * witnesses of the defects the real printer has (the model reproduces them);
  * `lex_unlex`          lexing the rendering of a list of printer items (words, operators, numbers,
                         durations, quoted strings, `{matchers}`, `[range]`, `[range:step]`, parentheses, `@`,
                         commas) with any spacing that puts a space where one is needed gives the tokens back;
  * `number_literal_roundtrip`, `string_literal_roundtrip`, `selector_roundtrip`: parse ∘ print on literals
                         (incl. the repaired ±Inf / NaN printing) and on vector selectors with matchers;
  * `parse_print_partial` parse ∘ print = id (up to matcher order) on the fragment `Producible`: literals,
                         selectors, parentheses, unary signs, binary operators with the whole precedence /
                         associativity table, `bool`, on / ignoring / group_left / group_right.
  The full expression-level statement `parse_print_full` is kept visible below; the node kinds it still
  lacks are listed next to it — for those the tie is the byte-exact correspondence.
-/
namespace Prom.C26
open Prom.Promql Prom.PromqlPrint

/-- Quoting then unquoting any byte string gives it back (label values, quoted names, string literals). -/
theorem quote_unquote (s : Bytes) : unquote (quote s) = some s := Prom.Promql.quote_unquote s

example : unquote (quote [0xff, 34, 92, 10, 0xC2, 0x80, 7]) = some [0xff, 34, 92, 10, 0xC2, 0x80, 7] :=
  quote_unquote _

/-- UTF-8: encoding the rune decoded from a valid encoding reproduces exactly the bytes consumed. -/
theorem utf8_roundtrip (s : Bytes) (hs : s ≠ []) (hv : decodeRune s ≠ (0xFFFD, 1)) :
    encodeRune (decodeRune s).1 = s.take (decodeRune s).2 := encodeRune_decodeRune s hs hv

/-- Printing a duration of `ms` milliseconds (representable in int64 nanoseconds) and parsing the text
    gives the duration back, in nanoseconds. -/
theorem duration_roundtrip (ms : Nat) (h : ms * 1000000 ≤ 2 ^ 63 - 1) :
    parseDuration (fmtDurationMs ms) = some (ms * 1000000) := Prom.Promql.duration_roundtrip ms h

example : (90061001 : Nat) * 1000000 ≤ 2 ^ 63 - 1 := by decide

/-- Totality of the model: on every option set and every input the round-trip line is `err` or starts
    with `ok ` (there is no internal-error outcome). -/
theorem parse_total (fixInf : Bool) (o : Opts) (text : Bytes) :
    runRT fixInf o text = "err" ∨ ∃ rest, runRT fixInf o text = "ok " ++ rest := by
  unfold runRT
  cases parse o text with
  | none => exact Or.inl rfl
  | some e =>
    refine Or.inr ⟨sx e ++ " ; " ++ hexB (e.print fixInf) ++ " ; " ++ (reparse fixInf o (e.print fixInf)).1 ++ " ; " ++
      (reparse fixInf o (e.print fixInf)).2 ++ " ; " ++ hexB (prettify fixInf e) ++ " ; " ++
      (reparse fixInf o (prettify fixInf e)).1 ++ " ; " ++ (reparse fixInf o (prettify fixInf e)).2, ?_⟩
    simp [String.append_assoc]

/-- The judge accepts a rejected input: rejection with a parse error is an admissible outcome. -/
theorem judge_accepts_reject (flags hx : String) (h : toks ("rt " ++ flags ++ " " ++ hx) = ["rt", flags, hx]) :
    judgeLine ("rt " ++ flags ++ " " ++ hx) "err" = none := by
  simp [judgeLine, h]

/-- The printer never adds or drops parentheses: a `ParenExpr` prints as its child in parentheses,
    a unary expression as sign + child, a binary expression as `lhs op[ bool][ matching] rhs`. -/
theorem print_shape (f : Bool) (e l r : Expr) (op : BinOp) (b : Bool) (vm : Option VM) (neg : Bool) :
    (Expr.paren e).print f = [40] ++ e.print f ++ [41] ∧
    (Expr.un neg e).print f = (if neg then [45] else [43]) ++ e.print f ∧
    (Expr.bin op b vm l r).print f =
      l.print f ++ [32] ++ op.text ++ (if b then bs " bool" else []) ++ matchingText vm ++ [32] ++ r.print f := by
  refine ⟨?_, ?_, ?_⟩ <;> simp [Expr.print]


/-! ### witnesses of finding F13 on the model (unrepaired printer `fixInf = false`) -/

theorem pinf_flags : F64Q.F64.pinf.isNaN = false ∧ F64Q.F64.pinf.isInf = true ∧ F64Q.F64.pinf.neg? = false := by
  refine ⟨?_, ?_, ?_⟩ <;> decide

/-- F13: the unrepaired printer renders the literal +Inf with a plus sign, the repaired one without. -/
theorem inf_literal_print_witness :
    numText false F64Q.F64.pinf false = bs "+Inf" ∧ numText true F64Q.F64.pinf false = bs "Inf" := by
  obtain ⟨h1, h2, h3⟩ := pinf_flags
  constructor <;> simp [numText, fmtFloatF, h1, h2, h3]

/-- … so `Inf ^ x` prints as `+Inf ^ x`; the parser reads the leading `+` as a unary operator, which
    binds looser than `^` (`parseOperand` parses its operand with `minPrec = 6`), i.e. over the whole power. -/
theorem inf_pow_print_witness (r : Expr) :
    (Expr.bin .pow false none (.num F64Q.F64.pinf false) r).print false =
      bs "+Inf" ++ [32] ++ bs "^" ++ [32] ++ r.print false := by
  obtain ⟨h1, h2, h3⟩ := pinf_flags
  simp [Expr.print, numText, fmtFloatF, h1, h2, h3, matchingText, BinOp.text]

/-- A bare metric name prints as itself: the implicit `__name__` matcher is hidden. -/
theorem bare_selector_print (f : Bool) (n : Bytes) (hn : n ≠ []) :
    (Expr.vs n [⟨.eq, metricNameB, n⟩] 0 .nil .none .none).print f = n := by
  have h2 : n.isEmpty = false := by cases n <;> simp_all
  simp [Expr.print, selectorCoreText, atText, extText, offsetText, Expr.isNil, sortStrings, h2]

example : ([102, 111, 111] : Bytes) ≠ [] := by simp

/-! ### layer 1: lex ∘ unlex -/

/-- A list of printer items — words (identifiers, metric names, keywords, `and`/`or`/`unless`/`atan2`,
    `Inf`/`NaN`), the 14 symbolic operators, parentheses, commas, `@`, plain decimal numbers, durations
    (`model.Duration.String`), double-quoted strings (`strconv.Quote`), `{matchers}` groups (bare or quoted
    names, all four operators), `[range]` and `[range:step]` groups — written out with an optional single
    space after each item, lexes back to exactly the items' tokens, provided every item is well formed, a
    space is written wherever two adjacent items would otherwise fuse (`needSpace`: word/number/duration
    next to word/number/duration, `<`/`>` next to an operator) and parentheses are balanced.  The printer's
    own spacing is one admissible choice of the flags. -/
theorem lex_unlex (items : List (PItem × Bool)) (hok : ∀ p ∈ items, p.1.ok = true)
    (hsp : spacedOk items = true) (hpar : parensOk 0 items = true) :
    lex (render items) = some (items.flatMap (fun p => p.1.toks)) :=
  Prom.Promql.lex_unlex items hok hsp hpar

/-- `foo{a="b"}[5m] offset 1m` as items: the hypotheses hold. -/
example :
    let items : List (PItem × Bool) :=
      [(.word (bs "foo"), false), (.matchers [⟨bs "a", false, .eq, bs "b"⟩], false), (.range 300000, true),
       (.word (bs "offset"), true), (.dur 60000, false)]
    (∀ p ∈ items, p.1.ok = true) ∧ spacedOk items = true ∧ parensOk 0 items = true := by
  refine ⟨?_, by with_unfolding_all decide, by with_unfolding_all decide⟩
  intro p hp
  simp only [List.mem_cons, List.not_mem_nil, or_false] at hp
  rcases hp with rfl | rfl | rfl | rfl | rfl <;> with_unfolding_all decide

/-! ### layer 2: literals -/

/-- A number literal whose float text reads back (hypothesis `NumRT` on the shortest-digits layer) prints
    to text that parses to the same literal — under every option set, with the repaired ±Inf printing. -/
theorem number_literal_roundtrip (o : Opts) (v : F64Q.F64) (h : NumRT v) :
    parse o ((Expr.num v false).print true) = some (.num v false) :=
  (Frag.num h).roundtrip o (WT.num v false)

example : NumRT F64Q.F64.pinf := numRT_pinf
example : NumRT F64Q.F64.ninf := numRT_ninf
example : NumRT F64Q.F64.nan := numRT_nan

/-- the repaired printer's `Inf`, `-Inf`, `NaN` parse back (cf. finding F13) -/
theorem inf_literal_roundtrip (o : Opts) :
    parse o ((Expr.num F64Q.F64.pinf false).print true) = some (.num F64Q.F64.pinf false) ∧
    parse o ((Expr.num F64Q.F64.ninf false).print true) = some (.num F64Q.F64.ninf false) ∧
    parse o ((Expr.num F64Q.F64.nan false).print true) = some (.num F64Q.F64.nan false) :=
  ⟨number_literal_roundtrip o _ numRT_pinf, number_literal_roundtrip o _ numRT_ninf,
   number_literal_roundtrip o _ numRT_nan⟩

/-- A string literal without U+FFFD (finding C26-F6) prints to text that parses to the same literal:
    every byte string otherwise, including invalid UTF-8 and control characters. -/
theorem string_literal_roundtrip (o : Opts) (s : Bytes) (h : hasRC s = false) :
    parse o ((Expr.str s).print true) = some (.str s) :=
  (Frag.str h).roundtrip o (WT.str s)

example : hasRC [0xff, 34, 92, 10, 0xC2, 0x80, 7] = false := by decide

/-! ### layer 3: selectors -/

/-- A vector selector (bare or quoted metric name, matchers of all four types with bare or quoted label
    names, any byte strings as values) prints to text that parses to the same selector with its matchers in
    printed order — a permutation of the original list.  `SelOK`: the side conditions the parser guarantees
    (name matcher last, regexes compile, no U+FFFD, the name is a word the grammar accepts as a metric). -/
theorem selector_roundtrip (o : Opts) (name : Bytes) (ms : List Matcher) (h : SelOK name ms) :
    parse o ((Expr.vs name ms 0 .nil .none .none).print true) = some (.vs name (normMs name ms) 0 .nil .none .none) ∧
    (normMs name ms).Perm ms :=
  ⟨(Frag.vs h).roundtrip o (WT.vs h.1), normMs_perm h.1⟩

/-! ### layer 4: expressions -/

/-- Parser outputs inside the fragment: shape (`Frag`: precedence side conditions, literal / selector /
    modifier hypotheses) and typing (`WT`: what `checkAST` enforces and leaves behind). -/
def Producible (e : Expr) : Prop := Frag e ∧ WT e

/-- PARTIAL (fragment): for every producible tree built from number / string literals, vector selectors
    with matchers, parentheses, unary signs and binary operators (all 18 operators with the precedence and
    associativity table, incl. right-associative `^` and unary minus vs `^`; `bool`; on / ignoring /
    group_left / group_right), under every option set: the printed text parses; the result is `norm e`,
    which equals `e` up to the order of matchers inside selectors.
    Not covered (see `parse_print_full`): offset / `@` / anchored / smoothed modifiers, matrix selectors and
    subqueries, function calls, aggregations, duration literals and duration expressions, fill modifiers,
    Prettify, and idempotence of the second print. -/
theorem parse_print_partial (o : Opts) (e : Expr) (h : Producible e) :
    parse o (e.print true) = some (norm e) ∧ MEq (norm e) e :=
  ⟨h.1.roundtrip o h.2, h.1.norm_meq⟩

/-- `Inf ^ -Inf` (finding F13: rejected-or-changed before the repair) is in the fragment. -/
example : Producible (.bin .pow false none (.num F64Q.F64.pinf false) (.num F64Q.F64.ninf false)) :=
  ⟨Frag.bin .pow false none (Frag.num numRT_pinf) (Frag.num numRT_ninf) (by decide) (by decide) (by decide) trivial,
   WT.bin .pow false none (WT.num _ _) (WT.num _ _) (by decide)⟩

/-- Equality of trees modulo the order of matchers inside one selector. -/
def TreeEq (a b : Expr) : Prop :=
  (readWhole (sx a)).map SExp.canon = (readWhole (sx b)).map SExp.canon

/-- The tree contains none of the defect classes listed in known_findings.jsonl. -/
def Clean (e : Expr) : Prop := (readWhole (sx e)).map kindOf = some "none"

/-- FULL STATEMENT (not proved): every parser output free of the known defect classes prints to text
    that parses, under the same options, to an equal tree that prints identically; likewise through
    Prettify.  Proved part: `parse_print_partial` (literals, vector selectors with matchers, parentheses,
    unary signs, binary operators with all modifiers except fill).  Node kinds / aspects NOT covered by a
    theorem: `offset`, `@`, `anchored` / `smoothed` on selectors; MatrixSelector; SubqueryExpr; Call;
    AggregateExpr; duration literals (`NumberLiteral.Duration`) and DurationExpr; `fill` / `fill_left` /
    `fill_right`; StepInvariantExpr; the Prettify half; `e'.print = e.print` (needs uniqueness of sorting);
    that every parser output inside the fragment satisfies `Producible` (the converse direction).  For those
    the correspondence suite checks this statement on every generated expression instead. -/
def parse_print_full : Prop :=
  ∀ (o : Opts) (t : Bytes) (e : Expr), parse o t = some e → Clean e →
    (∃ e', parse o (e.print false) = some e' ∧ TreeEq e' e ∧ e'.print false = e.print false) ∧
    (∃ e', parse o (prettify false e) = some e' ∧ TreeEq e' e ∧ e'.print false = e.print false)

end Prom.C26
