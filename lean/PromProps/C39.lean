import PromProofs.LabelSetBytes
/-
  C39 — Label sets behave as canonical sorted maps in every build.

  Property theorems only (lemmas: PromProofs/LabelSet*.lean).  Model: PromModel/Labels/LabelSet.lean.
  `WFcall` of DESIGN §7 C39 is spelled out per theorem: a `Builder` is started (`Builder.reset`) on a
  strictly name-sorted base (`sortedB base`), `ScratchBuilder`/constructors get distinct names.
  The three build-tag implementations are tied to the *same* model by the `labels` suite (run three
  times); `Flavor`-indexed definitions capture where they differ outside `WFcall`.
-/
namespace Prom.C39
open Prom.Labels

/-- Abstract-map semantics of a builder op sequence started by `Reset(base)`. -/
def mapOf (base : LabelSet) (ops : List BOp) : AMap := ops.foldl AMap.step (Builder.reset base).abs

/-- concrete builder after the same op sequence -/
def builderOf (base : LabelSet) (ops : List BOp) : Builder := ops.foldl Builder.step (Builder.reset base)

/-- **Builder refines the abstract map**: for every op sequence (Set incl. Set(n,"") = delete, Del,
    Keep) on a builder reset to a sorted base, looking a name up in `Labels()` gives exactly the
    abstract map's value. -/
theorem builder_refines_map (base : LabelSet) (hb : sortedB base = true) (ops : List BOp) (k : String) :
    lookup (builderOf base ops).labels k = (mapOf base ops).val k := by
  unfold builderOf mapOf
  rw [← abs_foldl]
  exact labels_lookup (inv_foldl (inv_reset ((sortedB_iff _).mp hb)) ops) k

/-- **The builder's result is canonical**: strictly name-sorted (hence no duplicate names) and
    without empty values. -/
theorem builder_result_canonical (base : LabelSet) (hb : sortedB base = true) (ops : List BOp) :
    canonicalB (builderOf base ops).labels = true := by
  have inv := inv_foldl (inv_reset ((sortedB_iff _).mp hb)) ops
  exact (canonicalB_iff _).mpr ⟨labels_sorted inv, labels_nonempty inv⟩

/-- …and it is *the* canonical listing of the abstract map: any strictly sorted list with the
    same lookups is that very list (`labels (ops.foldl step b) = canon (ops.foldl mapStep m)`). -/
theorem builder_refines_map_canon (base : LabelSet) (hb : sortedB base = true) (ops : List BOp)
    (c : LabelSet) (hc : sortedB c = true) (hl : ∀ k, lookup c k = (mapOf base ops).val k) :
    (builderOf base ops).labels = c := by
  have inv := inv_foldl (inv_reset ((sortedB_iff _).mp hb)) ops
  apply sorted_ext (labels_sorted inv) ((sortedB_iff _).mp hc)
  intro k; rw [hl k]; exact builder_refines_map base hb ops k


/-- **Equality is map equality**: two strictly sorted sets are `Equal` iff every lookup agrees. -/
theorem equal_iff_same_map (a b : LabelSet) (ha : sortedB a = true) (hb : sortedB b = true) :
    equal a b = true ↔ ∀ k, lookup a k = lookup b k := by
  constructor
  · intro h k; simp only [equal, beq_iff_eq] at h; rw [h]
  · intro h
    simp only [equal, beq_iff_eq]
    exact sorted_ext ((sortedB_iff _).mp ha) ((sortedB_iff _).mp hb) h

/-- **Compare is a total order** (as a three-way comparison): values in {-1,0,1}, reflexive,
    antisymmetric, `0` exactly on equal sets (= `Equal`), and transitive. -/
theorem compare_total_order (a b c : LabelSet) :
    (compare a b = -1 ∨ compare a b = 0 ∨ compare a b = 1) ∧
    compare a a = 0 ∧
    compare b a = -(compare a b) ∧
    (compare a b = 0 ↔ equal a b = true) ∧
    (compare a b = -1 → compare b c = -1 → compare a c = -1) := by
  refine ⟨compare_values a b, compare_refl a, compare_antisymm a b, ?_, ?_⟩
  · rw [compare_eq_zero_iff]; simp [equal]
  · intro h1 h2
    rw [compare_lt_iff] at *
    exact List.lt_trans h1 h2

/-- **Compare is lexicographic** on the byte strings name₁, value₁, name₂, value₂, … (a proper
    prefix is smaller); `<` on the right is core's `List.lt` over `List (List UInt8)`. -/
theorem compare_lexicographic (a b : LabelSet) : compare a b = -1 ↔ flatB a < flatB b :=
  compare_lt_iff a b

/-- Well-formed set: strictly sorted names, none empty. -/
def wf (ls : LabelSet) : Bool := sortedB ls && noEmptyNamesB ls

/-- **Get / Has / Len / Range are mutually consistent, identically in every build**: on a
    well-formed set every flavour's `Get` (with its early exit) returns the value of the label
    `Range` yields under that name, `""` iff absent or empty; `Has` is membership of the name in
    the iterated names; the iterated names are distinct and `Len` counts them. -/
theorem get_iterate_len_consistent (fl : Flavor) (ls : LabelSet) (h : wf ls = true) (name : String) :
    getF fl ls name = .ok (get ls name) ∧
    hasF fl ls name = .ok (has ls name) ∧
    (has ls name = true ↔ name ∈ names ls) ∧
    (∀ v, v ≠ "" → (get ls name = v ↔ (name, v) ∈ ls)) ∧
    (names ls).Nodup ∧ len ls = (names ls).length := by
  simp only [wf, Bool.and_eq_true, noEmptyNamesB, List.all_eq_true, decide_eq_true_eq] at h
  have hs : Sorted ls := (sortedB_iff _).mp h.1
  have he : ∀ l ∈ ls, l.1 ≠ "" := fun l hl => by simpa using h.2 l hl
  have hslice : ∀ (q : UInt8) (xs : LabelSet),
      findEarly .slice name q xs = .ok (xs.find? (·.1 = name)) := by
    intro q xs
    induction xs with
    | nil => rfl
    | cons x xs ih =>
      obtain ⟨n, v⟩ := x
      simp only [findEarly, List.find?_cons]
      by_cases hn : n = name <;> simp [hn, ih]
  have hfind : findF fl ls name = .ok (ls.find? (·.1 = name)) := by
    cases fl with
    | slice => simp only [findF]; exact hslice 0 ls
    | string =>
      cases hfb : firstByte name with
      | none =>
        have hn : name = "" := by
          apply sbytes_inj
          unfold firstByte at hfb
          cases hB : sbytes name with
          | nil => rfl
          | cons p ps => rw [hB] at hfb; cases hfb
        have : ls.find? (·.1 = name) = none := by
          rw [List.find?_eq_none]; intro c hc e
          simp only [decide_eq_true_eq] at e
          exact he c hc (e.trans hn)
        simp [findF, hfb, this]
      | some nb => simp only [findF, hfb]; exact findEarly_sorted .string hs he hfb
    | dedupe =>
      cases hfb : firstByte name with
      | none =>
        have hn : name = "" := by
          apply sbytes_inj
          unfold firstByte at hfb
          cases hB : sbytes name with
          | nil => rfl
          | cons p ps => rw [hB] at hfb; cases hfb
        have : ls.find? (·.1 = name) = none := by
          rw [List.find?_eq_none]; intro c hc e
          simp only [decide_eq_true_eq] at e
          exact he c hc (e.trans hn)
        simp [findF, hfb, this]
      | some nb => simp only [findF, hfb]; exact findEarly_sorted .dedupe hs he hfb
  refine ⟨?_, ?_, any_name_iff ls name, ?_, hs.nodup, by simp [len, names]⟩
  · simp only [getF, hfind, Labels.get, bind, Except.bind]
    cases ls.find? (·.1 = name) <;> rfl
  · simp only [hasF, hfind, has, bind, Except.bind, pure, Except.pure]
    cases hf : ls.find? (·.1 = name) with
    | none =>
      have := List.find?_eq_none.mp hf
      have h2 : ls.any (·.1 = name) = false := by
        cases h3 : ls.any (·.1 = name) with
        | false => rfl
        | true =>
          obtain ⟨c, hc, hcn⟩ := List.any_eq_true.mp h3
          exact absurd hcn (this c hc)
      simp [h2]
    | some l =>
      have h2 : ls.any (·.1 = name) = true :=
        List.any_eq_true.mpr ⟨l, List.mem_of_find?_eq_some hf, by simpa using List.find?_some hf⟩
      simp [h2]
  · intro v hv
    constructor
    · intro hg
      have : lookup ls name = some v := by
        unfold Labels.get at hg; unfold lookup
        cases hf : ls.find? (·.1 = name) with
        | none => rw [hf] at hg; exact absurd hg.symm hv
        | some l => rw [hf] at hg; simp [hg]
      exact lookup_mem this
    · intro hm
      have hp : ls.Perm ((name, v) :: ls.erase (name, v)) := List.perm_cons_erase hm
      have := find?_perm_nodup hp hs.nodup name
      simp only [List.find?_cons, decide_true] at this
      simp [Labels.get, this]

example : wf [("__name__", "m"), ("a", ""), ("job", "x")] = true := by decide

/-- **ScratchBuilder: `Add…; Sort(); Labels()` is canonical** for distinct names, in every build:
    strictly sorted, a permutation of what was added (so lookups return what was added), and the
    same list in all three flavours. -/
theorem scratch_sort_canon (fl : Flavor) (adds : LabelSet) (hd : (names adds).Nodup) :
    let s := (adds.foldl (fun s l => s.addL l.1 l.2) (Scratch.reset {})).sort
    (s.labelsF fl).1 = sortByName adds ∧ sortedB (sortByName adds) = true ∧
    (sortByName adds).Perm adds ∧ ∀ k, lookup (sortByName adds) k = lookup adds k := by
  have hfold : ∀ (xs : LabelSet) (s : Scratch), (xs.foldl (fun s l => s.addL l.1 l.2) s) =
      { s with add := s.add ++ xs } := by
    intro xs
    induction xs with
    | nil => intro s; simp
    | cons x xs ih => intro s; simp only [List.foldl_cons]; rw [ih]; simp [Scratch.addL]
  refine ⟨?_, (sortedB_iff _).mpr (sortByName_sorted hd), sortByName_perm adds, ?_⟩
  · simp only [hfold, Scratch.reset, Scratch.sort, List.nil_append]
    cases fl <;> simp [Scratch.labelsF]
  · intro k
    exact lookup_perm_nodup (sortByName_perm adds)
      ((names_perm (sortByName_perm adds)).nodup_iff.mpr hd) k

/-- **Bytes is injective** (usable as a map key) in the slicelabels (`0xFE` prefix) and dedupelabels
    encodings `name 0xFF value 0xFF name …`, for names/values free of the separator byte `0xFF`
    (which valid UTF-8 never contains). -/
theorem bytes_injective (fl : Flavor) (hfl : fl ≠ .string) (a b : LabelSet) (ha : NoSep a) (hb : NoSep b)
    (h : bytes fl a = bytes fl b) : a = b := by
  cases fl with
  | string => exact absurd rfl hfl
  | slice =>
    simp only [bytes, bytesSepGo_eq, List.cons_append, List.nil_append, List.cons.injEq, true_and] at h
    exact joined_false_inj ha hb (by simpa using h)
  | dedupe =>
    simp only [bytes, bytesSepGo_eq, List.nil_append] at h
    exact joined_false_inj ha hb (by simpa using h)

example : NoSep [("a", "é"), ("b", "")] := by
  intro l hl
  simp only [List.mem_cons, List.not_mem_nil, or_false] at hl
  rcases hl with rfl | rfl <;> decide

/-- The stringlabels encoding (length-prefixed) is the third flavour; its injectivity is not proved
    yet — statement kept visible. -/
def bytes_injective_string_full : Prop :=
  ∀ a b : LabelSet, (∀ l ∈ a ++ b, blen l.1 < 16777216 ∧ blen l.2 < 16777216) →
    bytes .string a = bytes .string b → a = b

end Prom.C39
