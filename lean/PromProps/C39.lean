import PromProofs.LabelSetBuilder
/-
  C39 — Label sets behave as canonical sorted maps in every build.

  Property theorems only (lemmas: PromProofs/LabelSet*.lean).  Model: PromModel/Labels/LabelSet.lean.
  `WFcall` of DESIGN §7 C39 is spelled out per theorem: a `Builder` is started (`Builder.reset`) on a
  strictly name-sorted base (`sortedB base`), `ScratchBuilder`/constructors get distinct names.
  The three build-tag implementations are tied to the *same* model by the `labels` suite (run three
  times); `Flavor`-indexed definitions capture where they differ outside `WFcall`.
-/
namespace Prom.C39
open Prom.Labels

/-- Abstract-map semantics of a builder op sequence started by `Reset(base)`. -/
def mapOf (base : LabelSet) (ops : List BOp) : AMap := ops.foldl AMap.step (Builder.reset base).abs

/-- concrete builder after the same op sequence -/
def builderOf (base : LabelSet) (ops : List BOp) : Builder := ops.foldl Builder.step (Builder.reset base)

/-- **Builder refines the abstract map**: for every op sequence (Set incl. Set(n,"") = delete, Del,
    Keep) on a builder reset to a sorted base, looking a name up in `Labels()` gives exactly the
    abstract map's value. -/
theorem builder_refines_map (base : LabelSet) (hb : sortedB base = true) (ops : List BOp) (k : String) :
    lookup (builderOf base ops).labels k = (mapOf base ops).val k := by
  unfold builderOf mapOf
  rw [← abs_foldl]
  exact labels_lookup (inv_foldl (inv_reset ((sortedB_iff _).mp hb)) ops) k

/-- **The builder's result is canonical**: strictly name-sorted (hence no duplicate names) and
    without empty values. -/
theorem builder_result_canonical (base : LabelSet) (hb : sortedB base = true) (ops : List BOp) :
    canonicalB (builderOf base ops).labels = true := by
  have inv := inv_foldl (inv_reset ((sortedB_iff _).mp hb)) ops
  exact (canonicalB_iff _).mpr ⟨labels_sorted inv, labels_nonempty inv⟩

/-- …and it is *the* canonical listing of the abstract map: any strictly sorted list with the
    same lookups is that very list (`labels (ops.foldl step b) = canon (ops.foldl mapStep m)`). -/
theorem builder_refines_map_canon (base : LabelSet) (hb : sortedB base = true) (ops : List BOp)
    (c : LabelSet) (hc : sortedB c = true) (hl : ∀ k, lookup c k = (mapOf base ops).val k) :
    (builderOf base ops).labels = c := by
  have inv := inv_foldl (inv_reset ((sortedB_iff _).mp hb)) ops
  apply sorted_ext (labels_sorted inv) ((sortedB_iff _).mp hc)
  intro k; rw [hl k]; exact builder_refines_map base hb ops k


/-- **Equality is map equality**: two strictly sorted sets are `Equal` iff every lookup agrees. -/
theorem equal_iff_same_map (a b : LabelSet) (ha : sortedB a = true) (hb : sortedB b = true) :
    equal a b = true ↔ ∀ k, lookup a k = lookup b k := by
  constructor
  · intro h k; simp only [equal, beq_iff_eq] at h; rw [h]
  · intro h
    simp only [equal, beq_iff_eq]
    exact sorted_ext ((sortedB_iff _).mp ha) ((sortedB_iff _).mp hb) h

end Prom.C39
