import PromModel.Suites.RwSendSuite
import PromProofs.QueueShardsOrder
import PromProofs.Relabel
/-
  C40 — Remote write delivers every sample in order despite resharding and retries.

  The theorems are about the transition system `PromModel/Remote/QueueShards.lean` and quantify over ALL
  schedules (lists of actions, at the granularity of the code's critical sections and channel operations)
  that the guard `enabled` admits, from any configuration `init mss chanCap n`.  Since every prefix of an
  admitted schedule is an admitted schedule, a statement about the final state of an arbitrary schedule is a
  statement about every reachable state.
-/
namespace Prom.C40
open Prom.QueueShards

/-! ### schedules -/

/-- An invariant of single steps holds after every admitted schedule. -/
theorem run_inv {P : St → Prop} (hstep : ∀ s a, P s → enabled s a = true → P (apply s a)) :
    ∀ (sched : List Act) (s s' : St), P s → run s sched = some s' → P s' := by
  intro sched
  induction sched with
  | nil => intro s s' hp hr; simp [run] at hr; exact hr ▸ hp
  | cons a rest ih =>
    intro s s' hp hr
    simp only [run, step] at hr
    by_cases hen : enabled s a = true
    · simp only [hen, if_true] at hr
      exact ih _ _ (hstep s a hp hen) hr
    · simp [hen] at hr

/-- Same, for schedules whose actions all satisfy `Q`. -/
theorem run_inv_of {P : St → Prop} {Q : Act → Prop}
    (hstep : ∀ s a, Q a → P s → enabled s a = true → P (apply s a)) :
    ∀ (sched : List Act) (s s' : St), (∀ a, a ∈ sched → Q a) → P s → run s sched = some s' → P s' := by
  intro sched
  induction sched with
  | nil => intro s s' _ hp hr; simp [run] at hr; exact hr ▸ hp
  | cons a rest ih =>
    intro s s' hq hp hr
    simp only [run, step] at hr
    by_cases hen : enabled s a = true
    · simp only [hen, if_true] at hr
      exact ih _ _ (fun b hb => hq b (List.mem_cons_of_mem _ hb)) (hstep s a (hq a List.mem_cons_self) hp hen) hr
    · simp [hen] at hr

/-- Every prefix of an admitted schedule is admitted: reachable states = final states of schedules. -/
theorem run_prefix (sched : List Act) (s s' : St) (h : run s sched = some s') (k : Nat) :
    ∃ sk, run s (sched.take k) = some sk := by
  induction sched generalizing s k with
  | nil => exact ⟨s, by simp [run]⟩
  | cons a rest ih =>
    cases k with
    | zero => exact ⟨s, by simp [run]⟩
    | succ k =>
      simp only [run] at h
      cases hs : step s a with
      | none => simp [hs] at h
      | some s1 =>
        simp only [hs] at h
        obtain ⟨sk, hk⟩ := ih s1 h k
        exact ⟨sk, by simp [run, hs, hk]⟩

def Inv (s : St) : Prop := InvA s ∧ InvB s ∧ InvC s

theorem inv_step (s : St) (a : Act) (hp : Inv s) (hen : enabled s a = true) : Inv (apply s a) :=
  ⟨step_invA s a hp.1 hen, step_invB s a hp.1 hp.2.1 hen, step_invC s a hp.1 hp.2.2 hen⟩

theorem inv_reachable (mss cc n : Nat) (sched : List Act) (s : St) (h : run (init mss cc n) sched = some s) :
    Inv s :=
  run_inv (P := Inv) inv_step sched _ _ ⟨invA_init mss cc n, invB_init mss cc n, invC_init mss cc n⟩ h

/-! ### reshard_no_overlap — the key lemma -/

/-- **Old shards are fully stopped before new ones start.** In every reachable state in which
    `shards.start` can run (i.e. `stop` got past `<-s.done`), every shard of the old generation has returned
    from `runShard` and holds nothing: no partial batch, nothing in its channel, nothing in flight. -/
theorem reshard_no_overlap (mss cc n : Nat) (sched : List Act) (s : St) (k : Nat)
    (h : run (init mss cc n) sched = some s) (hstart : enabled s (.start k) = true) :
    ∀ i, i < s.n → (s.shards i).exited = true ∧ (s.shards i).pipe = [] := by
  have hA := (inv_reachable mss cc n sched s h).1
  simp only [enabled, Bool.and_eq_true, decide_eq_true_eq] at hstart
  intro i hi
  have h0 : live s.shards s.n = 0 := by rw [← hA.run_eq]; exact hstart.2
  have hex := live_zero _ _ h0 i hi
  exact ⟨hex, hA.ex_empty i hi hex⟩

/-- Conversely: as long as one old shard still runs, `start` is not enabled. -/
theorem start_blocked_while_old_shard_runs (mss cc n : Nat) (sched : List Act) (s : St) (k i : Nat)
    (h : run (init mss cc n) sched = some s) (hi : i < s.n) (hlive : (s.shards i).exited = false) :
    enabled s (.start k) = false := by
  cases hen : enabled s (.start k) with
  | false => rfl
  | true =>
    have := (reshard_no_overlap mss cc n sched s k h hen i hi).1
    rw [hlive] at this; cases this

/-- …and a shard that has returned never holds or receives anything again (enqueue is refused once soft
    shutdown is signalled, and returning requires soft shutdown). -/
theorem returned_shard_is_empty (mss cc n : Nat) (sched : List Act) (s : St) (i : Nat)
    (h : run (init mss cc n) sched = some s) (hi : i < s.n) (hex : (s.shards i).exited = true) :
    (s.shards i).pipe = [] ∧ s.soft = true :=
  have hA := (inv_reachable mss cc n sched s h).1
  ⟨hA.ex_empty i hi hex, hA.cl_soft i hi (Or.inr hex)⟩

example : ∃ s, run (init 2 1 2) [.storeSeries 1 true, .append 1 0 false, .softStop, .flush 0, .flush 1, .exit 0,
    .timer 1, .sendOk 1, .exit 1] = some s ∧ enabled s (.start 3) = true := by
  refine ⟨_, rfl, ?_⟩; decide

/-! ### accounting — enqueued = received ∪ dropped(counted) ∪ pending, both directions -/

/-- **Nothing is lost silently**: every sample that was enqueued is, in every reachable state, in the
    endpoint's log, or in a batch dropped with a non-recoverable error, or discarded by a hard shutdown (both
    counted in `failedSamplesTotal`), or still pending in a live shard. -/
theorem accounting (mss cc n : Nat) (sched : List Act) (s : St) (h : run (init mss cc n) sched = some s) :
    ∀ x, x ∈ s.fed →
      x ∈ s.received ∨ x ∈ s.lostUnrec ∨ x ∈ s.lostHard ∨ ∃ i, i < s.n ∧ x ∈ (s.shards i).pipe :=
  (inv_reachable mss cc n sched s h).2.1.complete

/-- **Nothing comes from nowhere**: what the endpoint has, what is pending and what is counted as
    dropped was enqueued. -/
theorem accounting_sound (mss cc n : Nat) (sched : List Act) (s : St) (h : run (init mss cc n) sched = some s) :
    (∀ x, x ∈ s.received → x ∈ s.fed) ∧ (∀ x, x ∈ s.lostUnrec → x ∈ s.fed) ∧ (∀ x, x ∈ s.lostHard → x ∈ s.fed) ∧
      ∀ i, i < s.n → ∀ x, x ∈ (s.shards i).pipe → x ∈ s.fed :=
  have hB := (inv_reachable mss cc n sched s h).2.1
  ⟨hB.recv_fed, hB.lostU_fed, hB.lostH_fed, hB.pipe_fed⟩

/-! ### delivered_all -/

def isLossy : Act → Bool
  | .sendUnrecov _ => true
  | .hardStop => true
  | _ => false

theorem no_loss_step (s : St) (a : Act) (hq : isLossy a = false)
    (hp : s.lostUnrec = [] ∧ s.lostHard = [] ∧ s.hard = false) (hen : enabled s a = true) :
    (apply s a).lostUnrec = [] ∧ (apply s a).lostHard = [] ∧ (apply s a).hard = false := by
  cases a with
  | storeSeries ref keep => cases keep <;> exact hp
  | seriesReset refs => exact hp
  | append ref id old =>
    simp only [apply]
    split
    · exact hp
    · split
      · split <;> exact hp
      · exact hp
  | recv i => simp only [apply]; split <;> exact hp
  | timer i => simp only [apply]; split <;> exact hp
  | sendOk i => exact hp
  | sendRecov i reached => exact hp
  | sendUnrecov i => simp [isLossy] at hq
  | softStop => exact hp
  | flush i => exact hp
  | exit i => exact hp
  | hardStop => simp [isLossy] at hq
  | hardExit i =>
    simp only [enabled, Bool.and_eq_true, decide_eq_true_eq] at hen
    rw [hp.2.2] at hen; simp at hen
  | start n => exact ⟨hp.1, hp.2.1, rfl⟩

/-- **Every in-scope sample is received at least once**: along any schedule without a non-recoverable
    error and without a hard shutdown (flushes complete within the deadline), in any state in which the shards
    hold nothing (e.g. after the final `stop`: all shards returned), every enqueued sample is in the
    endpoint's log — whatever resharding, retrying, batching and deadline firing happened on the way. -/
theorem delivered_all (mss cc n : Nat) (sched : List Act) (s : St) (h : run (init mss cc n) sched = some s)
    (hno : ∀ a, a ∈ sched → isLossy a = false)
    (hdrained : ∀ i, i < s.n → (s.shards i).pipe = []) :
    ∀ x, x ∈ s.fed → x ∈ s.received := by
  have hl := run_inv_of (P := fun s => s.lostUnrec = [] ∧ s.lostHard = [] ∧ s.hard = false)
    (Q := fun a => isLossy a = false) (fun s a hq hp hen => no_loss_step s a hq hp hen) sched _ _ hno
    (by simp [init]) h
  intro x hx
  rcases accounting mss cc n sched s h x hx with h1 | h1 | h1 | ⟨i, hi, h1⟩
  · exact h1
  · rw [hl.1] at h1; cases h1
  · rw [hl.2.1] at h1; cases h1
  · rw [hdrained i hi] at h1; cases h1

/-- All shards returned ⇒ they hold nothing (so `delivered_all` applies after `Stop()`). -/
theorem drained_after_stop (mss cc n : Nat) (sched : List Act) (s : St) (h : run (init mss cc n) sched = some s)
    (hall : ∀ i, i < s.n → (s.shards i).exited = true) : ∀ i, i < s.n → (s.shards i).pipe = [] :=
  fun i hi => (inv_reachable mss cc n sched s h).1.ex_empty i hi (hall i hi)

/-- What is in scope: an `append` of a sample that is not too old for a kept series enqueues it. -/
theorem append_in_scope_is_fed (s : St) (ref id : Nat) (hk : ref ∈ s.kept) :
    (⟨ref, id⟩ : Sample) ∈ (apply s (.append ref id false)).fed := by
  simp [apply, hk]

example : ∃ s, run (init 2 1 2) [.storeSeries 1 true, .append 1 0 false, .append 1 1 false, .recv 1,
      .sendRecov 1 true, .softStop, .sendOk 1, .flush 0, .flush 1, .exit 0, .exit 1] = some s ∧
    (List.range s.n).all (fun i => (s.shards i).pipe.isEmpty) = true ∧ s.fed.length = 2 ∧
      s.received.length = 4 := ⟨_, rfl, rfl, rfl, rfl⟩

/-! ### dropped_series_never_sent -/

theorem scope_of_fed : ∀ (sched : List Act) (s0 s : St), run s0 sched = some s → ∀ x, x ∈ s.fed →
    x ∈ s0.fed ∨ ((.append x.ref x.id false) ∈ sched ∧ (x.ref ∈ s0.kept ∨ (.storeSeries x.ref true) ∈ sched)) := by
  intro sched
  induction sched with
  | nil => intro s0 s hr x hx; simp [run] at hr; subst hr; exact Or.inl hx
  | cons a rest ih =>
    intro s0 s hr x hx
    simp only [run, step] at hr
    by_cases hen : enabled s0 a = true
    · simp only [hen, if_true] at hr
      rcases ih _ _ hr x hx with h1 | ⟨h1, h2⟩
      · rcases fed_step s0 a x h1 with h3 | ⟨h3, h4⟩
        · exact Or.inl h3
        · exact Or.inr ⟨by rw [h3]; exact List.mem_cons_self, Or.inl h4⟩
      · refine Or.inr ⟨List.mem_cons_of_mem _ h1, ?_⟩
        rcases h2 with h2 | h2
        · rcases kept_step s0 a x.ref h2 with h3 | h3
          · exact Or.inl h3
          · exact Or.inr (by rw [h3]; exact List.mem_cons_self)
        · exact Or.inr (List.mem_cons_of_mem _ h2)
    · simp [hen] at hr

/-- **No sample of a dropped series is sent.** Whatever the endpoint receives was appended (not too old) for
    a series that a `StoreSeries` kept (relabeling did not drop it) earlier in the schedule. In particular a
    ref that was only ever stored as dropped, or never stored, is never sent. -/
theorem dropped_series_never_sent (mss cc n : Nat) (sched : List Act) (s : St)
    (h : run (init mss cc n) sched = some s) :
    ∀ x, x ∈ s.received → (.append x.ref x.id false) ∈ sched ∧ (.storeSeries x.ref true) ∈ sched := by
  intro x hx
  have hfed := (accounting_sound mss cc n sched s h).1 x hx
  rcases scope_of_fed sched _ s h x hfed with h1 | ⟨h1, h2⟩
  · simp [init] at h1
  · refine ⟨h1, ?_⟩
    rcases h2 with h2 | h2
    · simp [init] at h2
    · exact h2

theorem never_kept_never_sent (mss cc n : Nat) (sched : List Act) (s : St) (r : Nat)
    (h : run (init mss cc n) sched = some s) (hnever : (.storeSeries r true) ∉ sched) :
    ∀ x, x ∈ s.received → x.ref ≠ r := by
  intro x hx hr
  exact hnever (hr ▸ (dropped_series_never_sent mss cc n sched s h x hx).2)

/-! ### per_series_order -/

/-- **Per-series order across reshards, retries, batching and deadline firing.** In every reachable
    state the endpoint's log (newest first) is `Ordered`: each entry either repeats an entry received
    earlier (a retried batch that had reached the endpoint) or carries a larger WAL position than every
    earlier entry of the same series.  No hypothesis on the schedule: hard shutdowns and non-recoverable
    errors drop samples but never reorder them (in the model a cancelled request is not stored). -/
theorem per_series_order (mss cc n : Nat) (sched : List Act) (s : St) (h : run (init mss cc n) sched = some s) :
    Ordered s.received :=
  (inv_reachable mss cc n sched s h).2.2.ordered

/-- What `Ordered` says about any two positions of the log: a later arrival `y` and an earlier arrival `x`
    of the same series are in WAL order unless `y` is a repetition of something that arrived before it. -/
theorem ordered_no_inversion : ∀ (pre older : List Sample) (y : Sample), Ordered (pre ++ y :: older) →
    y ∈ older ∨ ∀ x, x ∈ older → x.ref = y.ref → x.id < y.id := by
  intro pre
  induction pre with
  | nil => intro older y h; exact h.2
  | cons p ps ih => intro older y h; exact ih older y h.1

/-- With distinct log entries (no retry reached the endpoint, see `no_dup_without_failures`) the log of
    every series is strictly increasing in WAL position. -/
theorem ordered_nodup_strict : ∀ (l : List Sample), Ordered l → l.Nodup →
    l.Pairwise (fun y x => x.ref = y.ref → x.id < y.id) := by
  intro l
  induction l with
  | nil => intro _ _; exact List.Pairwise.nil
  | cons y older ih =>
    intro ho hn
    have hn' := List.nodup_cons.mp hn
    refine List.pairwise_cons.mpr ⟨?_, ih ho.1 hn'.2⟩
    intro x hx
    rcases ho.2 with h1 | h1
    · exact absurd h1 hn'.1
    · exact h1 x hx

/-- The pipeline side of the argument, exposed: in every reachable state each shard holds WAL positions
    in increasing order, everything of a series sits in ONE shard (`ref % n`), and whatever a shard still holds
    but has not in flight is newer than everything the endpoint has of that series. -/
theorem pipeline_order (mss cc n : Nat) (sched : List Act) (s : St) (h : run (init mss cc n) sched = some s) :
    (∀ i, i < s.n → (s.shards i).pipe.Pairwise (fun a b => a.id < b.id)) ∧
    (∀ i, i < s.n → ∀ y, y ∈ (s.shards i).pipe → y.ref % s.n = i) ∧
    (∀ i, i < s.n → ∀ y, y ∈ (s.shards i).rest → ∀ x, x ∈ s.received → x.ref = y.ref → x.id < y.id) :=
  have hC := (inv_reachable mss cc n sched s h).2.2
  ⟨hC.inc, hC.place, hC.rest_after⟩

example : ∃ s, run (init 2 1 2) [.storeSeries 1 true, .storeSeries 3 true, .append 1 0 false, .append 3 1 false,
      .recv 1, .sendRecov 1 true, .append 1 2 false, .softStop, .sendOk 1, .flush 0, .flush 1, .exit 0, .recv 1,
      .sendOk 1, .exit 1, .start 1, .append 3 5 false, .timer 0, .sendOk 0] = some s ∧
    s.received.map (·.id) = [5, 2, 1, 0, 1, 0] := ⟨_, rfl, rfl⟩

/-! ### no_dup_without_failures -/

/-- **No sample is sent twice when no send fails** — more precisely, when no request is stored by the
    endpoint and then answered with an error (recoverable errors for requests that did not reach the endpoint,
    non-recoverable errors, hard shutdowns, reshards and deadline firings do not duplicate anything). -/
theorem no_dup_without_failures (mss cc n : Nat) (sched : List Act) (s : St)
    (h : run (init mss cc n) sched = some s) (hno : ∀ a, a ∈ sched → ∀ i, a ≠ .sendRecov i true) :
    s.received.Nodup := by
  have := run_inv_of (P := fun s => Inv s ∧ InvD s) (Q := fun a => ∀ i, a ≠ .sendRecov i true)
    (fun s a hq hp hen => ⟨inv_step s a hp.1 hen, step_invD s a hq hp.1.2.2 hp.2 hen⟩) sched _ _ hno
    ⟨⟨invA_init mss cc n, invB_init mss cc n, invC_init mss cc n⟩, invD_init mss cc n⟩ h
  exact this.2.nodup

/-- …and then every series is received in strictly increasing WAL order. -/
theorem strict_order_without_failures (mss cc n : Nat) (sched : List Act) (s : St)
    (h : run (init mss cc n) sched = some s) (hno : ∀ a, a ∈ sched → ∀ i, a ≠ .sendRecov i true) :
    s.received.Pairwise (fun y x => x.ref = y.ref → x.id < y.id) :=
  ordered_nodup_strict _ (per_series_order mss cc n sched s h) (no_dup_without_failures mss cc n sched s h hno)

/-- The hypothesis is needed: a request stored and then answered with a recoverable error is re-sent. -/
theorem dup_after_reached_retry_witness : ∃ s, run (init 2 1 1) [.storeSeries 1 true, .append 1 0 false, .timer 0,
    .sendRecov 0 true, .sendOk 0] = some s ∧ s.received = [⟨1, 0⟩, ⟨1, 0⟩] := ⟨_, rfl, rfl⟩

/-! ### labels: external labels are merged first (a series label wins), then write relabeling

  `WriteRelabel.storeLabels ext cfgs ls` is what `StoreSeries` computes for a series with labels `ls`
  (`none` = the ref goes to `droppedSeries`); the suite feeds `.storeSeries ref (storeLabels …).isSome`
  to the transition system and the judge demands the label set `storeLabels` yields on every sample. -/

section Labels
open Prom.Relabel Prom.WriteRelabel

theorem mergeOne_get_ne (b : Builder) (el : Label) {n : String} (h : n ≠ el.name) :
    (mergeOne b el).get n = b.get n := by
  unfold mergeOne
  split
  · exact get_set_ne b _ h
  · rfl

theorem mergeExt_get_notin (ext : List Label) (b : Builder) (n : String) (h : ∀ el ∈ ext, n ≠ el.name) :
    (mergeExt b ext).get n = b.get n := by
  induction ext generalizing b with
  | nil => rfl
  | cons el rest ih =>
    simp only [mergeExt, List.foldl_cons]
    have := ih (mergeOne b el) (fun e he => h e (List.mem_cons_of_mem _ he))
    simp only [mergeExt] at this
    rw [this, mergeOne_get_ne b el (h el (List.mem_cons_self ..))]

/-- **A series label is never overridden by an external label**: whatever the external labels are, a name
    the series carries (non-empty) keeps the series' value in the builder the relabel rules see. -/
theorem external_label_series_wins (ext : List Label) (b : Builder) (n : String) (h : b.get n ≠ "") :
    (mergeExt b ext).get n = b.get n := by
  induction ext generalizing b with
  | nil => rfl
  | cons el rest ih =>
    simp only [mergeExt, List.foldl_cons]
    have hstep : (mergeOne b el).get n = b.get n := by
      by_cases hn : n = el.name
      · subst hn
        have : (b.get el.name == "") = false := by simpa using h
        simp [mergeOne, this]
      · exact mergeOne_get_ne b el hn
    have := ih (mergeOne b el) (by rw [hstep]; exact h)
    simp only [mergeExt] at this
    rw [this, hstep]

/-- **An external label the series does not carry is visible to the relabel rules** with the configured
    value (external label names are distinct, as in a `labels.Labels`). -/
theorem external_label_added (ext : List Label) (hnd : NodupNames ext) (b : Builder) (n v : String)
    (hmem : (⟨n, v⟩ : Label) ∈ ext) (h : b.get n = "") : (mergeExt b ext).get n = v := by
  induction ext generalizing b with
  | nil => cases hmem
  | cons el rest ih =>
    simp only [mergeExt, List.foldl_cons]
    have hnd' := List.pairwise_cons.mp hnd
    rcases List.mem_cons.mp hmem with he | hr
    · subst he
      have h1 : mergeOne b ⟨n, v⟩ = b.set n v := by simp [mergeOne, h]
      have h2 := mergeExt_get_notin rest (b.set n v) n (fun e he => hnd'.1 e he)
      simp only [mergeExt] at h2
      rw [h1, h2, get_set_eq]
    · have hne : n ≠ el.name := fun e => hnd'.1 _ hr (by simp [e])
      have := ih hnd'.2 (mergeOne b el) hr (by rw [mergeOne_get_ne b el hne]; exact h)
      simpa only [mergeExt] using this

example : NodupNames [⟨"cluster", "eu"⟩, ⟨"replica", "a"⟩] := by
  simp [NodupNames]

/-- The value a rule reads for a source label: the series' own value if it has one, else the external one. -/
theorem merged_get (ext ls : List Label) (hnd : NodupNames ext) (n : String) :
    (merged ext ls).get n =
      if (Builder.new ls).get n ≠ "" then (Builder.new ls).get n
      else match ext.find? (fun el => el.name == n) with
        | some el => el.value
        | none => "" := by
  unfold merged
  split
  · rename_i h; exact external_label_series_wins ext _ n h
  · rename_i h
    have h : (Builder.new ls).get n = "" := by simpa using h
    cases hf : ext.find? (fun el => el.name == n) with
    | some el =>
      have hm := List.mem_of_find?_eq_some hf
      have hn : el.name = n := by simpa using List.find?_some hf
      have : (⟨n, el.value⟩ : Label) ∈ ext := by rw [← hn]; exact hm
      simpa using external_label_added ext hnd _ n el.value this h
    | none =>
      rw [mergeExt_get_notin ext _ n, h]
      intro e he hne
      have := List.find?_eq_none.mp hf e he
      simp [hne] at this

/-- **A drop rule sees the external labels**: if the joined source values of the first rule — read from the
    series labels MERGED with the external labels — match its regex, the series is dropped
    (and by `relabel_dropped_never_sent` nothing of it is sent). -/
theorem drop_rule_sees_external_labels (ext ls : List Label) (c : Config) (cs : List Config)
    (ha : c.action = .drop) (hm : (c.regex.run (joinVals c (merged ext ls))).isSome = true) :
    storeLabels ext (c :: cs) ls = none := by
  have hne : c.regex.run (joinVals c (merged ext ls)) ≠ none := by intro e; simp [e] at hm
  simp [storeLabels, process, relabel, ha, hne]

/-- …and a keep rule keyed on an external label drops what does not match. -/
theorem keep_rule_sees_external_labels (ext ls : List Label) (c : Config) (cs : List Config)
    (ha : c.action = .keep) (hm : (c.regex.run (joinVals c (merged ext ls))).isSome = false) :
    storeLabels ext (c :: cs) ls = none := by
  have he : c.regex.run (joinVals c (merged ext ls)) = none := by simpa using hm
  simp [storeLabels, process, relabel, ha, he]

/-- Rules that neither drop nor touch anything leave exactly series labels + external labels. -/
theorem no_rules_labels (ext ls : List Label) : storeLabels ext [] ls = some (merged ext ls).labels := by
  simp [storeLabels, process]

/-- What is sent is a canonical label set: sorted by name, no empty values (hence no duplicate names). -/
theorem stored_labels_canonical (ext ls : List Label) (cfgs : List Config) (hs : Sorted ls) (l : List Label)
    (h : storeLabels ext cfgs ls = some l) : Sorted l ∧ ∀ x ∈ l, x.value ≠ "" := by
  have hinv : Relabel.Inv (merged ext ls) :=
    inv_foldl mergeOne (fun b x hb => by unfold mergeOne; split; exact inv_set hb _ _; exact hb) ext (inv_new hs)
  have hc := labels_canonical (inv_process cfgs hinv)
  simp only [storeLabels] at h
  split at h
  · cases h; exact hc
  · cases h

/-- The order matters (the mistake of relabeling first and merging the external labels into what is kept):
    with external label `cluster="eu"` and the rule `drop cluster=~"eu"`, a series without its own `cluster` is
    dropped by `StoreSeries`, while relabel-then-merge would keep it and send it with `cluster="eu"`. -/
theorem relabel_order_matters_witness :
    let rx : Regex := { run := fun s => if s = "eu" then some [s] else none, names := [""], isDefault := false }
    let c : Config := { action := .drop, sourceLabels := ["cluster"], separator := ";", regex := rx, modulus := 0,
                        targetLabel := "", replacement := "$1", utf8 := true }
    storeLabels [⟨"cluster", "eu"⟩] [c] [⟨"job", "api"⟩] = none ∧
    storeLabelsRelabelFirst [⟨"cluster", "eu"⟩] [c] [⟨"job", "api"⟩] ≠ none := by
  intro rx c
  constructor
  · apply drop_rule_sees_external_labels _ _ c [] rfl
    have hg : (merged [⟨"cluster", "eu"⟩] [⟨"job", "api"⟩]).get "cluster" = "eu" := by
      rw [merged_get _ _ (by simp [NodupNames])]
      simp [Builder.new, Builder.get, baseGet]
    simp [joinVals, c, rx, hg]
  · simp [storeLabelsRelabelFirst, process, relabel, joinVals, c, rx, Builder.new, Builder.get, baseGet]

end Labels

/-- **Dropped series send nothing** (link to the transition system): in any schedule whose `StoreSeries`
    actions carry the keep decision of `WriteRelabel.storeLabels` (what the suite's driver emits), a ref whose labels
    are dropped by relabeling of (series labels + external labels) is never received by the endpoint. -/
theorem relabel_dropped_never_sent (ext : List Relabel.Label) (cfgs : List Relabel.Config) (lbl : Nat → List Relabel.Label)
    (mss cc n : Nat) (sched : List Act) (s : St) (h : run (init mss cc n) sched = some s)
    (hsched : ∀ r k, (.storeSeries r k) ∈ sched → k = (WriteRelabel.storeLabels ext cfgs (lbl r)).isSome)
    (r : Nat) (hdrop : WriteRelabel.storeLabels ext cfgs (lbl r) = none) : ∀ x, x ∈ s.received → x.ref ≠ r := by
  apply never_kept_never_sent mss cc n sched s r h
  intro hin
  have := hsched r true hin
  simp [hdrop] at this

/-! ### the accounting defect of the real code, reproduced by the model (finding C40-F1) -/

/-- Two shards hold one sample each and a hard shutdown drops both (true loss 2). Every shard that
    observes `ctx.Done()` adds the whole shared `enqueuedSamples` counter (still 2 for both, nobody takes it
    off) to `failedSamplesTotal`, which ends at 4. The real queue manager shows the same over-count (suite
    `rwsend`, verdict `failed-overcount-after-hard-shutdown`, known finding C40-F1). -/
theorem failed_overcount_witness : ∃ s, run (init 2 1 2) [.storeSeries 0 true, .storeSeries 1 true,
      .append 0 0 false, .append 1 1 false, .softStop, .hardStop, .hardExit 0, .hardExit 1] = some s ∧
    s.lostHard.length = 2 ∧ s.lostUnrec = [] ∧ s.failedCnt = 4 := ⟨_, rfl, rfl, rfl, rfl⟩


end Prom.C40
