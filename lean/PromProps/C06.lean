import PromModel.Suites.RaceSuite
import PromProofs.CompactionProgress
import PromProofs.CompactionExact
/-
  C06 — Queries racing with compaction see each sample exactly once.

  The model (`PromModel/Tsdb/CompactionProtocol.lean`) is a transition system: one maintenance thread whose
  atomic steps are the protocol steps of db.compactHead / Head.truncateMemory, db.compactOOOHead /
  Head.truncateOOO, db.compactBlocks / reloadBlocks / deleteBlocks, and ANY NUMBER of reader threads
  (DB.Querier) whose atomic steps are the loads of the published state. `run σ₀ acts` executes an arbitrary
  interleaving; the theorems below hold for every reachable state, every reader index and every schedule.

  Proof: the inductive invariant `Inv` (PromProofs/Compaction{Inv,Readers,Steps,Main}.lean) — a global part
  (what db.blocks covers at each protocol position) and per-reader parts that never mention the other
  readers.
-/
namespace Prom.C06
open Prom.CompactionProtocol

/-- A state reachable from an initial state (no blocks, all data in the head) by any schedule. -/
def Reachable (σ : State) : Prop :=
  ∃ data headMin oooLo oooHi acts,
    initOk data headMin oooLo oooHi = true ∧ run (initState data headMin oooLo oooHi) acts = some σ

theorem reachable_inv (σ : State) (h : Reachable σ) : Inv σ := by
  obtain ⟨data, hm, lo, hi, acts, hok, hrun⟩ := h
  exact run_inv _ σ acts (init_inv data hm lo hi hok) hrun

theorem inBlk_visible (σ : State) (r : Reader) (s : Sample) (hb : RInvB σ r) (hopen : r.isOpen = true)
    (h : inBlk r s) : viaBlock σ r s = true := by
  obtain ⟨b, hbm, hs⟩ := h
  have := hb.br hopen b hbm
  simp only [viaBlock, List.any_eq_true, Bool.and_eq_true, List.contains_eq_mem, decide_eq_true_eq,
    Bool.not_eq_eq_eq_not, Bool.not_true, decide_eq_false_iff_not]
  exact ⟨b, hbm, hs, this⟩

/-- **never_missing.** In every reachable state, for every reader that has left `DB.Querier` and not
    closed yet (it may iterate now or at any later state — the statement holds at each of them), every
    committed sample inside its range that was not past retention when the query started is served by
    the reader's in-order head part, by its out-of-order head part, or by a block of its own list whose
    files still exist. Whatever the maintenance thread is doing, and whatever the other readers do. -/
theorem never_missing (σ : State) (hreach : Reachable σ) (r : Reader) (hr : r ∈ σ.readers)
    (hpc : r.pc = .reading) (s : Sample) (hs : s ∈ σ.data) (hrange : inRange r s = true)
    (hret : s ∉ r.retired0) : visible σ r s = true := by
  obtain ⟨hg, hri⟩ := reachable_inv σ hreach
  obtain ⟨hb, hh, ho⟩ := hri r hr
  have hopen : r.isOpen = true := by simp [Reader.isOpen, hpc]
  simp only [inRange, Bool.and_eq_true, decide_eq_true_eq] at hrange
  have hw : want σ.data r s := ⟨hs, hrange.1, hrange.2, hret⟩
  have blk : inBlk r s → visible σ r s = true := fun h => by
    simp [visible, inBlk_visible σ r s hb hopen h]
  cases hooo : s.ooo with
  | false =>
    have hd := hh.hd (Or.inr (Or.inr hpc))
    cases hl : r.headLo with
    | none =>
      rw [hl] at hd
      exact blk (hd s hw hooo (by omega))
    | some l =>
      rw [hl] at hd
      by_cases h1 : s.t < l
      · exact blk (hd.1 s hw hooo h1)
      · by_cases h2 : σ.headGc ≤ s.t
        · simp [visible, viaHead, hooo, hl, h2]; omega
        · exact blk (hh.d hpc l hl s hw hooo (by have := hg.g0; omega))
  | true =>
    by_cases h1 : s.ref ≤ r.lastGC
    · exact blk (ho.oa hopen s hw hooo h1)
    · have hov := ho.ob (by simp [hpc]) s hw hooo (by omega)
      have hreg := ho.oc (Or.inr hpc)
      rw [hov] at hreg
      have hgc := ho.od r.lastGC (by simpa using hreg)
      have hvo : viaOOO σ r s = true := by
        simp only [viaOOO, hooo, hreg, Bool.true_and, Bool.and_eq_true, decide_eq_true_eq, if_true]
        constructor <;> omega
      simp [visible, hvo]

/-- **never_duplicated.** The merged result (`view` = the parts after ChainedSeriesMerge's
    de-duplication, C19) contains every wanted sample EXACTLY once, although a sample may be served by the
    head and by one or several blocks at the same time (`parts` has repetitions). -/
theorem never_duplicated (σ : State) (hreach : Reachable σ) (r : Reader) (hr : r ∈ σ.readers)
    (hpc : r.pc = .reading) : (view σ r).Nodup ∧
      ∀ s ∈ σ.data, inRange r s = true → s ∉ r.retired0 → (view σ r).count s = 1 := by
  refine ⟨nodup_eraseDups _, ?_⟩
  intro s hs hrange hret
  have hv := never_missing σ hreach r hr hpc s hs hrange hret
  have hmem : s ∈ view σ r := by
    simp only [view]
    rw [List.mem_eraseDups]
    simp only [parts, List.mem_append, List.mem_filter, List.mem_flatMap]
    simp only [visible, Bool.or_eq_true] at hv
    rcases hv with hv | hv
    · left; exact ⟨hs, by simp [hrange, hv]⟩
    · right
      simp only [viaBlock, List.any_eq_true, Bool.and_eq_true, List.contains_eq_mem, decide_eq_true_eq,
        Bool.not_eq_eq_eq_not, Bool.not_true, decide_eq_false_iff_not] at hv
      obtain ⟨b, hb, hsb, hrem⟩ := hv
      refine ⟨b, hb, ?_⟩
      simp [hrem, hsb, hrange]
  have hnd : (view σ r).Nodup := nodup_eraseDups _
  rw [hnd.count]; simp [hmem]

/-- **block_not_released_while_read.** The files of a block in the list of a reader that has not closed
    yet are never removed (`bRemove` = rename to tmp-for-deletion + RemoveAll comes after `Block.Close`,
    which waits for the pending readers; readers arriving later cannot obtain the block any more). -/
theorem block_not_released_while_read (σ : State) (hreach : Reachable σ) (r : Reader) (hr : r ∈ σ.readers)
    (hopen : r.isOpen = true) (b : Blk) (hb : b ∈ r.blocks) : b.id ∉ σ.removed :=
  ((reachable_inv σ hreach).2 r hr).1.br hopen b hb

/-- A reader that saw the truncation flag never stays registered on the range being truncated: after
    `loadTrunc` its registration (if any) starts at or after the truncation time, so the truncation's wait
    (`headWaitDone`) does not depend on it — whatever `head.MinTime()` is. Readers that arrive after the
    flag was published therefore never join the set the wait is on. -/
theorem reopened_reader_does_not_block (σ : State) (r r' : Reader) (a b hmin : Int)
    (hreg : r.reg = some (r.lo, r.hi))
    (h : rstep σ r .loadTrunc = some r') (hr : r'.reg = some (a, b)) :
    ovl a b hmin (σ.truncTime - 1) = false := by
  unfold rstep at h
  simp only at h
  split at h
  · split at h
    · simp at h; subst h; simp at hr
    · split at h
      · simp at h; subst h; simp at hr; obtain ⟨rfl, rfl⟩ := hr
        simp [ovl]; omega
      · simp at h; subst h; simp [hreg] at hr; obtain ⟨rfl, rfl⟩ := hr
        simp [ovl]; omega
  · simp at h

theorem terminates_of_inv (n : Nat) : ∀ σ : State, Inv σ → quiet σ → mrank σ.mpc = n →
    ∃ (acts : List MAct) (σ' : State), acts.length ≤ n ∧ run σ (acts.map Act.maint) = some σ' ∧
      mrank σ'.mpc = 0 ∧ σ'.readers = σ.readers := by
  induction n using Nat.strongRecOn with
  | _ n ih =>
    intro σ hi hq hn
    by_cases h0 : mrank σ.mpc = 0
    · exact ⟨[], σ, by simp, by simp [run], h0, rfl⟩
    · obtain ⟨a, hen⟩ := enabled_of_quiet σ hi hq h0
      obtain ⟨σ1, hs⟩ := Option.isSome_iff_exists.mp hen
      have hlt := mstep_rank σ σ1 a hi.1 hs h0
      have hi1 : Inv σ1 := step_inv σ σ1 (.maint a) hi (by simpa [step] using hs)
      have hrd := mstep_readers σ σ1 a hs
      have hq1 : quiet σ1 := by intro r hr; rw [hrd] at hr; exact hq r hr
      obtain ⟨acts, σ', hlen, hrun, hz, hrs⟩ := ih (mrank σ1.mpc) (by omega) σ1 hi1 hq1 rfl
      refine ⟨a :: acts, σ', by simp; omega, ?_, hz, by rw [hrs, hrd]⟩
      simp only [List.map_cons, run, step, hs]
      exact hrun

/-- **maintenance_terminates_when_readers_close.** In a reachable state in which every query has closed
    (or not started), the maintenance thread is never disabled — each of its waits
    (`WaitForPendingReadersInTimeRange`, `WaitForPendingReadersForOOOChunksAtOrBefore`, `Block.Close`) and
    each of its `db.mtx.Lock` sections is enabled — and every step decreases the rank `mrank`: the running
    job (head compaction + truncation, OOO compaction + truncation, block compaction / deletion) completes
    within `mrank σ.mpc` steps. The waits depend only on readers that are registered (`reg`, `oooReg`,
    pinned blocks); `reopened_reader_does_not_block` shows that readers arriving after the truncation flag
    was published do not stay in that set. Assumption of the liveness claim: readers eventually close. -/
theorem maintenance_terminates_when_readers_close (σ : State) (hreach : Reachable σ) (hq : quiet σ) :
    ∃ (acts : List MAct) (σ' : State), acts.length ≤ mrank σ.mpc ∧
      run σ (acts.map Act.maint) = some σ' ∧ mrank σ'.mpc = 0 :=
  let ⟨acts, σ', h1, h2, h3, _⟩ := terminates_of_inv (mrank σ.mpc) σ (reachable_inv σ hreach) hq rfl
  ⟨acts, σ', h1, h2, h3⟩

/-- With the readers closed none of the reader-dependent guards is false. -/
theorem waits_enabled_when_readers_closed (σ : State) (hreach : Reachable σ) (hq : quiet σ) :
    noLockHeld σ = true ∧ (∀ T, headWaitDone σ T = true) ∧ (∀ r, oooWaitDone σ r = true)
      ∧ ∀ p, blockFree σ p = true :=
  ⟨noLock_of_quiet σ hq, headWait_of_quiet σ (reachable_inv σ hreach) hq,
   oooWait_of_quiet σ (reachable_inv σ hreach) hq, blockFree_of_quiet σ hq⟩

theorem reachable_cinv (σ : State) (h : Reachable σ) : CInv σ := by
  obtain ⟨data, hm, lo, hi, acts, _, hrun⟩ := h
  exact run_cinv _ σ acts (init_cinv data hm lo hi) hrun

/-- **model_read_exact** (the link between the model's `read` output and the judge's statement): in every
    reachable state the view of a reader that started before any retention deletion is, as a set, exactly
    `expected` — the judge's definition of the right answer: the committed samples of its range — and has
    no repetitions. -/
theorem model_read_exact (σ : State) (hreach : Reachable σ) (r : Reader) (hr : r ∈ σ.readers)
    (hpc : r.pc = .reading) (hret : r.retired0 = []) :
    (∀ s, s ∈ view σ r ↔ s ∈ expected σ.data r.lo r.hi) ∧ (view σ r).Nodup := by
  refine ⟨?_, (never_duplicated σ hreach r hr hpc).1⟩
  intro s
  simp only [expected, List.mem_filter]
  constructor
  · intro hs
    have := view_sub σ (reachable_cinv σ hreach) r hr s hs
    simpa [inRange] using this
  · rintro ⟨hs, hrange⟩
    have hcount := (never_duplicated σ hreach r hr hpc).2 s hs (by simpa [inRange] using hrange) (by simp [hret])
    exact List.count_pos_iff.mp (by omega)

/-! ### Non-vacuity: a concrete schedule, and what the waits are for -/

def exData : List Sample :=
  [⟨0, 0, 1, false, 0⟩, ⟨0, 500, 2, false, 0⟩, ⟨0, 1000, 3, false, 0⟩, ⟨0, 1500, 4, false, 0⟩, ⟨0, 250, 5, true, 1⟩]

def exInit : State := initState exData 0 250 250

/-- Reader 0 over [0,1500] is opened first and is still iterating while the head is compacted up to 1000;
    reader 1 over [400,1200] arrives while the truncation flag is set and re-opens its head part at 1000. -/
def exActs : List Act :=
  [.spawn 0 1500, .reader 0 .rlock, .reader 0 .readMin, .reader 0 .register, .reader 0 .loadFlag,
   .reader 0 .trackOOO, .reader 0 .runlock,
   .maint (.hWrite 0 1000 1), .maint .hSwap, .maint .hStoreTrunc, .maint .hSetFlag,
   .spawn 400 1200, .reader 1 .rlock, .reader 1 .readMin, .reader 1 .register, .reader 1 .loadFlag,
   .reader 1 .loadTrunc, .reader 1 .trackOOO, .reader 1 .runlock]

example : initOk exData 0 250 250 = true := by decide

/-- The schedule is executable (the hypotheses of the theorems are satisfiable by a non-trivial state)… -/
example : ((run exInit exActs).map fun σ => σ.readers.map fun r =>
      (decide (r.pc = .reading), r.headLo, r.blocks.map (·.id), r.reg.map (·.1)))
    = some [(true, some 0, [], some 0), (true, some 1000, [1], some 1000)] := by decide

/-- …both readers see exactly their committed samples there… -/
example : ((run exInit exActs).map fun σ => σ.readers.map fun r => (view σ r).map (·.t))
    = some [[0, 500, 1000, 1500, 250], [1000, 500]] := by decide

/-- …the truncation's wait is blocked by reader 0 (registered before the flag was published) and only by
    it: reader 1, which arrived later and overlaps the truncated range too, does not block. -/
example : run exInit (exActs ++ [.maint .hWait]) = none := by decide
example : (run exInit (exActs ++ [.reader 0 .close, .maint .hWait, .maint .hSetMin, .maint (.hGc 1000 250),
            .maint .hClear])).isSome = true := by decide

/-- What the wait is for: force the truncation past `hWait` while reader 0 is still open (a state the
    protocol cannot reach) and reader 0, which holds no block, no longer sees the samples at 0 and 500. -/
theorem skipping_the_wait_loses_samples_witness :
    ((run exInit exActs).bind fun σ =>
        run { σ with mpc := .hWaited 1000 } [.maint .hSetMin, .maint (.hGc 1000 250)]).map
      (fun σ => (σ.readers.take 1).map fun r => (view σ r).map (·.t)) = some [[1000, 1500, 250]] := by decide

/-! ### The published out-of-order bounds (Head.MinOOOTime) recomputed by the head GC -/

section OooBounds
open Prom.OooBounds

theorem minBy_le {α : Type} (f : α → Int) : ∀ (l : List α) (a : Int),
    minBy f l a ≤ a ∧ ∀ x ∈ l, minBy f l a ≤ f x := by
  intro l
  induction l with
  | nil => intro a; simp [minBy]
  | cons y ys ih =>
    intro a
    have h := ih (min a (f y))
    simp only [minBy, List.foldl_cons] at h ⊢
    refine ⟨by omega, ?_⟩
    intro x hx
    rcases List.mem_cons.mp hx with rfl | hx
    · omega
    · exact h.2 x hx

theorem minBy_attained {α : Type} (f : α → Int) : ∀ (l : List α) (a : Int),
    minBy f l a = a ∨ ∃ x ∈ l, minBy f l a = f x := by
  intro l
  induction l with
  | nil => intro a; simp [minBy]
  | cons y ys ih =>
    intro a
    have h := ih (min a (f y))
    simp only [minBy, List.foldl_cons] at h ⊢
    rcases h with h | ⟨x, hx, h⟩
    · by_cases hc : a ≤ f y
      · left; omega
      · right; exact ⟨y, by simp, by omega⟩
    · right; exact ⟨x, by simp [hx], h⟩

/-- **recount_covers_every_chunk.** The GC's recount — the minimum over ALL surviving out-of-order chunks,
    m-mapped (in whatever order they were m-mapped) and head chunk, of all series — is a lower bound of
    every out-of-order sample in the head. -/
theorem recount_covers_every_chunk (ss : List OooSeries) (s : OooSeries) (hs : s ∈ ss)
    (c : List Int) (hc : c ∈ chunks s) (t : Int) (ht : t ∈ c) : recount ss ≤ t := by
  have h1 := (minBy_le chunkMin (ss.flatMap chunks) top).2 c (List.mem_flatMap.mpr ⟨s, hs, hc⟩)
  have h2 := (minBy_le id c top).2 t ht
  simp only [recount, chunkMin, id] at *
  omega

/-- …and it is tight: unless nothing is left, it is the time of a sample that is in the head (so the
    suite compares the published value with the recount for EQUALITY, after the `headMaxt - window` clamp). -/
theorem recount_attained (ss : List OooSeries) :
    recount ss = top ∨ ∃ s ∈ ss, ∃ c ∈ chunks s, ∃ t ∈ c, recount ss = t := by
  rcases minBy_attained chunkMin (ss.flatMap chunks) top with h | ⟨c, hc, h⟩
  · left; exact h
  · obtain ⟨s, hs, hcs⟩ := List.mem_flatMap.mp hc
    rcases minBy_attained id c top with h2 | ⟨t, ht, h2⟩
    · left; simp only [recount, chunkMin] at *; omega
    · right; exact ⟨s, hs, c, hcs, t, ht, by simp only [recount, chunkMin, id] at *; omega⟩

theorem published_le (headMaxt window rc : Int) : published headMaxt window rc ≤ rc := by
  simp only [published]; split <;> omega

/-- **gc_guard_of_recount** (link to the protocol model): if every out-of-order sample that is still in the
    head lies in one of the chunks the GC walks over, the value the GC publishes satisfies the guard of
    the model's `hGc`/`oGc` step (`newOLo ≤ s.t` for every such sample) — the step the suite's model takes
    with `newOLo := published … (recount …)` is never rejected for its lower bound, and by
    `never_missing` no reader misses an out-of-order head sample. -/
theorem gc_guard_of_recount (σ : State) (gcRef : Nat) (ss : List OooSeries) (headMaxt window : Int)
    (hcov : ∀ s ∈ σ.data, s.ooo = true → gcRef < s.ref → ∃ k ∈ ss, ∃ c ∈ chunks k, s.t ∈ c) :
    (σ.data.all fun s => !s.ooo || decide (s.ref ≤ gcRef)
        || decide (published headMaxt window (recount ss) ≤ s.t)) = true := by
  simp only [List.all_eq_true, Bool.or_eq_true, Bool.not_eq_eq_eq_not, Bool.not_true, decide_eq_true_eq]
  intro s hs
  by_cases ho : s.ooo = true
  · by_cases hr : s.ref ≤ gcRef
    · exact Or.inl (Or.inr hr)
    · obtain ⟨k, hk, c, hc, ht⟩ := hcov s hs ho (by omega)
      have := recount_covers_every_chunk ss k hk c hc s.t ht
      have := published_le headMaxt window (recount ss)
      exact Or.inr (by omega)
  · exact Or.inl (Or.inl (by simpa using ho))

/-- Out-of-order samples arriving newest-first with OutOfOrderCapMax = 4: the first m-mapped chunk holds
    805…835, the second (m-mapped LATER) the older 505…535, the head chunk 905. -/
def descSeries : OooSeries := [805, 815, 825, 835, 505, 515, 525, 535, 905].foldl (insert 4) {}

example : descSeries = { mmapped := [[805, 815, 825, 835], [505, 515, 525, 535]], head := [905] } := by decide

/-- **first_chunk_only_unsound_witness.** `oooMmappedChunks` is in arrival order: looking only at its
    first element ("the oldest m-mapped chunk is at the front") publishes 805 although 505 is in the head. -/
theorem first_chunk_only_unsound_witness :
    recount [descSeries] = 505 ∧ firstOnly [descSeries] = 805 := by decide

def descData : List Sample :=
  [⟨0, 0, 1, false, 0⟩, ⟨0, 500, 2, false, 0⟩, ⟨0, 1000, 3, false, 0⟩, ⟨0, 2000, 4, false, 0⟩] ++
  ([805, 815, 825, 835, 505, 515, 525, 535, 905].map fun t => ⟨0, t, t, true, 1⟩)

def descActs (newOLo : Int) : List Act :=
  [.maint (.hWrite 0 1000 1), .maint .hSwap, .maint .hStoreTrunc, .maint .hSetFlag, .maint .hWait,
   .maint .hSetMin, .maint (.hGc 1000 newOLo)]

example : initOk descData 0 505 905 = true := by decide

/-- The model rejects the GC step that publishes the first-chunk-only value and accepts the recount
    (also after the `headMaxt - window` clamp, here 2000 - 600). -/
theorem gc_step_rejects_first_chunk_only_witness :
    run (initState descData 0 505 905) (descActs (firstOnly [descSeries])) = none ∧
    (run (initState descData 0 505 905)
      (descActs (published 2000 600 (recount [descSeries])))).isSome = true := by decide

/-- What the lower bound is for: force MinOOOTime to 805 after the truncation (a state the protocol cannot
    reach) and a query over [500, 540] — entirely below it — skips the out-of-order head reader; it is
    served by the block [0,1000) only and misses 505…535, which are in no block yet. -/
theorem wrong_min_ooo_time_loses_samples_witness :
    ((run (initState descData 0 505 905) (descActs 505)).bind fun σ =>
        run { σ with oooLo := 805 } ([.maint .hClear, .spawn 500 540] ++
          [RAct.rlock, .readMin, .register, .trackOOO, .runlock].map (Act.reader 0))).map
      (fun σ => σ.readers.map fun r => ((view σ r).map (·.t), (expected σ.data r.lo r.hi).map (·.t)))
      = some [([500], [500, 505, 515, 525, 535])] := by decide

end OooBounds

end Prom.C06
