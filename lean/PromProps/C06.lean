import PromModel.Suites.RaceSuite
/-
  C06 — Queries racing with compaction see each sample exactly once.
-/
namespace Prom.C06
open Prom.CompactionProtocol

/-- A reader that saw the truncation flag never stays registered on the range being truncated: after
    `loadTrunc` its registration (if any) starts at or after the truncation time, so the truncation's wait
    (`headWaitDone`) does not depend on it — whatever `head.MinTime()` is. -/
theorem reopened_reader_does_not_block (σ : State) (r r' : Reader) (a b hmin : Int)
    (hreg : r.reg = some (r.lo, r.hi))
    (h : rstep σ r .loadTrunc = some r') (hr : r'.reg = some (a, b)) :
    ovl a b hmin (σ.truncTime - 1) = false := by
  unfold rstep at h
  simp only at h
  split at h
  · split at h
    · simp at h; subst h; simp at hr
    · split at h
      · simp at h; subst h; simp at hr; obtain ⟨rfl, rfl⟩ := hr
        simp [ovl]; omega
      · simp at h; subst h; simp [hreg] at hr; obtain ⟨rfl, rfl⟩ := hr
        simp [ovl]; omega
  · simp at h

end Prom.C06
