import PromModel.Tsdb.Agent
import PromModel.Suites.AgentSuite
/-
  C48 — Agent-mode storage logs every accepted sample.
-/
namespace Prom.C48
open Prom.Ckpt Prom.Agent

theorem getOrCreate_cfg (d : Db) (ref lid : Nat) : (d.getOrCreate ref lid).1.cfg = d.cfg := by
  unfold Db.getOrCreate
  split
  · rfl
  · split <;> rfl

/-- The rejection test is exactly `t ≤ minValidTime(lastTs)` of the series `getOrCreate` resolves to. -/
theorem reject_rule_exact (d : Db) (ref lid : Nat) (t : Int) (v : Nat) (k : AKind) :
    (d.append ref lid t v k).2 = .error .ooo ↔
      t ≤ minValidTime d.cfg.oooWin (d.getOrCreate ref lid).2.lastTs := by
  have hcfg := getOrCreate_cfg d ref lid
  unfold Db.append
  generalize d.getOrCreate ref lid = g at hcfg
  obtain ⟨d', s⟩ := g
  simp only at hcfg ⊢
  rw [hcfg]
  by_cases h : t ≤ minValidTime d.cfg.oooWin s.lastTs <;> simp [h]

end Prom.C48
