import PromModel.Tsdb.Agent
import PromModel.Suites.AgentSuite
import PromProofs.CheckpointLemmas
/-
  C48 — Agent-mode storage logs every accepted sample (model: PromModel/Tsdb/Agent.lean, checkpointing:
  PromModel/Tsdb/Checkpoint.lean).

  Proved for ALL states / inputs of the model:
    * `reject_rule_exact`            the rejection test is exactly `t ≤ minValidTime(lastTs)`;
    * `accepted_logged_after_series` what `Commit` logs: every acknowledged entry, in a record of its kind,
                                     and the whole batch satisfies "series record precedes" as soon as every
                                     pending ref is known or pending (series records are written first);
    * `rolledback_never_logged`      `Rollback` logs series records only;
    * `restart_keeps_log`            a restart does not change the records of the log;
    * `truncate_keeps_recent_partial` the standard checkpoint keeps every entry with `t ≥ mint`, and "series
                                     record precedes" survives its record filters when `keep` holds for the
                                     refs of the surviving entries;
    * `never_queries`.
  Witnesses (the model reproduces the real behaviour, checked by the `agent` suite):
    * `duplicate_ref_orphan_witness` (F25), `inmemory_checkpoint_drops_samples_witness` (F26),
      `replayed_lastts_zero_witness`.
  NOT proved (kept as `…_full : Prop`): the history-level invariant that makes the hypothesis of
  `truncate_keeps_recent_partial` hold after every history without duplicate refs.
-/
namespace Prom.C48
open Prom.Ckpt Prom.Agent

theorem getOrCreate_cfg (d : Db) (ref lid : Nat) : (d.getOrCreate ref lid).1.cfg = d.cfg := by
  unfold Db.getOrCreate
  split
  · rfl
  · split <;> rfl

/-- The rejection test is exactly `t ≤ minValidTime(lastTs)` of the series `getOrCreate` resolves to. -/
theorem reject_rule_exact (d : Db) (ref lid : Nat) (t : Int) (v : Nat) (k : AKind) :
    (d.append ref lid t v k).2 = .error .ooo ↔
      t ≤ minValidTime d.cfg.oooWin (d.getOrCreate ref lid).2.lastTs := by
  have hcfg := getOrCreate_cfg d ref lid
  unfold Db.append
  generalize d.getOrCreate ref lid = g at hcfg
  obtain ⟨d', s⟩ := g
  simp only at hcfg ⊢
  rw [hcfg]
  by_cases h : t ≤ minValidTime d.cfg.oooWin s.lastTs <;> simp [h]

/-- With no out-of-order window the rule reads: rejected iff not newer than the last written sample
    (for every `lastTs` above the int64 minimum). -/
theorem reject_rule_window_zero (lastTs t : Int) (h : MinI64 ≤ lastTs) :
    t ≤ minValidTime 0 lastTs ↔ t ≤ lastTs := by
  unfold minValidTime
  have h0 : ¬ lastTs < MinI64 := by omega
  simp [h0]

example : minValidTime 5 100 = 95 := by decide
example : minValidTime 5 (MinI64 + 3) = MinI64 := by decide

theorem mem_optRec {k : SKind} {xs : List Smp} (h : xs ≠ []) : Rec.smp k xs ∈ optRec k xs := by
  unfold optRec
  cases xs with
  | nil => exact absurd rfl h
  | cons x xs => simp

theorem precOK_optRec (known : List Nat) (k : SKind) (xs : List Smp) (rest : List Rec) :
    precOK known (optRec k xs ++ rest) ↔ (∀ x ∈ xs, x.ref ∈ known) ∧ precOK known rest := by
  unfold optRec
  cases xs with
  | nil => simp
  | cons x xs => simp [precOK]

/-- What `Commit` logs (`Pend.recs`): series records first, so the batch satisfies "series record
    precedes" whenever every pending entry refers to a ref that is already known or pending. -/
theorem accepted_logged_after_series (p : Pend) (known : List Nat)
    (h : ∀ e ∈ p.entries, e.2.ref ∈ known ++ p.series.map (·.1)) :
    precOK known p.recs ∧
    (∀ e ∈ p.entries, ∃ xs, Rec.smp e.1 xs ∈ p.recs ∧ e.2 ∈ xs) := by
  constructor
  · have hall : ∀ (K : List Nat), (∀ e ∈ p.entries, e.2.ref ∈ K) →
        precOK K (optRec .float p.floats ++
          (optRec .hist ((p.hists.filter (!·.2)).map (·.1)) ++ (optRec .chist ((p.hists.filter (·.2)).map (·.1)) ++
          (optRec .fhist ((p.fhists.filter (!·.2)).map (·.1)) ++ (optRec .cfhist ((p.fhists.filter (·.2)).map (·.1)) ++
          (optRec .ex p.exs ++ [])))))) := by
      intro K hK
      simp only [precOK_optRec, precOK, and_true]
      refine ⟨?_, ?_, ?_, ?_, ?_, ?_⟩
      · intro x hx; exact hK (.float, x) (by simp [Pend.entries, hx])
      · intro x hx
        obtain ⟨y, hy, rfl⟩ := List.mem_map.mp hx
        have hy' := List.mem_filter.mp hy
        exact hK (if y.2 then .chist else .hist, y.1) (List.mem_append.mpr (Or.inl (List.mem_append.mpr (Or.inl
          (List.mem_append.mpr (Or.inr (List.mem_map.mpr ⟨y, hy'.1, rfl⟩)))))))
      · intro x hx
        obtain ⟨y, hy, rfl⟩ := List.mem_map.mp hx
        have hy' := List.mem_filter.mp hy
        exact hK (if y.2 then .chist else .hist, y.1) (List.mem_append.mpr (Or.inl (List.mem_append.mpr (Or.inl
          (List.mem_append.mpr (Or.inr (List.mem_map.mpr ⟨y, hy'.1, rfl⟩)))))))
      · intro x hx
        obtain ⟨y, hy, rfl⟩ := List.mem_map.mp hx
        have hy' := List.mem_filter.mp hy
        exact hK (if y.2 then .cfhist else .fhist, y.1) (List.mem_append.mpr (Or.inl (List.mem_append.mpr (Or.inr
          (List.mem_map.mpr ⟨y, hy'.1, rfl⟩)))))
      · intro x hx
        obtain ⟨y, hy, rfl⟩ := List.mem_map.mp hx
        have hy' := List.mem_filter.mp hy
        exact hK (if y.2 then .cfhist else .fhist, y.1) (List.mem_append.mpr (Or.inl (List.mem_append.mpr (Or.inr
          (List.mem_map.mpr ⟨y, hy'.1, rfl⟩)))))
      · intro x hx; exact hK (.ex, x) (by simp [Pend.entries, hx])
    unfold Pend.recs
    by_cases hs : p.series.isEmpty = true
    · have : p.series = [] := List.isEmpty_iff.mp hs
      simp only [hs, if_true, List.nil_append, List.append_assoc]
      have := hall known (by intro e he; simpa [this] using h e he)
      simpa using this
    · simp only [hs, Bool.false_eq_true, if_false, List.cons_append, List.nil_append, precOK, List.append_assoc]
      have := hall (known ++ p.series.map (·.1)) h
      simpa using this
  · intro e he
    unfold Pend.entries at he
    simp only [List.mem_append, List.mem_map] at he
    rcases he with ((⟨x, hx, rfl⟩ | ⟨x, hx, rfl⟩) | ⟨x, hx, rfl⟩) | ⟨x, hx, rfl⟩
    · have hm := mem_optRec (k := .float) (List.ne_nil_of_mem hx)
      exact ⟨p.floats, by simp [Pend.recs, hm], hx⟩
    · by_cases hc : x.2 = true
      · have hin : x.1 ∈ (p.hists.filter (·.2)).map (·.1) := List.mem_map.mpr ⟨x, List.mem_filter.mpr ⟨hx, hc⟩, rfl⟩
        have hm := mem_optRec (k := .chist) (List.ne_nil_of_mem hin)
        exact ⟨_, by simp [Pend.recs, hc, hm], hin⟩
      · have hc' : x.2 = false := by simpa using hc
        have hin : x.1 ∈ (p.hists.filter (!·.2)).map (·.1) :=
          List.mem_map.mpr ⟨x, List.mem_filter.mpr ⟨hx, by simp [hc']⟩, rfl⟩
        have hm := mem_optRec (k := .hist) (List.ne_nil_of_mem hin)
        exact ⟨_, by simp [Pend.recs, hc', hm], hin⟩
    · by_cases hc : x.2 = true
      · have hin : x.1 ∈ (p.fhists.filter (·.2)).map (·.1) := List.mem_map.mpr ⟨x, List.mem_filter.mpr ⟨hx, hc⟩, rfl⟩
        have hm := mem_optRec (k := .cfhist) (List.ne_nil_of_mem hin)
        exact ⟨_, by simp [Pend.recs, hc, hm], hin⟩
      · have hc' : x.2 = false := by simpa using hc
        have hin : x.1 ∈ (p.fhists.filter (!·.2)).map (·.1) :=
          List.mem_map.mpr ⟨x, List.mem_filter.mpr ⟨hx, by simp [hc']⟩, rfl⟩
        have hm := mem_optRec (k := .fhist) (List.ne_nil_of_mem hin)
        exact ⟨_, by simp [Pend.recs, hc', hm], hin⟩
    · have hm := mem_optRec (k := .ex) (List.ne_nil_of_mem hx)
      exact ⟨p.exs, by simp [Pend.recs, hm], hx⟩

/-- `Commit` appends exactly `Pend.recs` to the active segment and acknowledges exactly `Pend.entries`. -/
theorem commit_logs (d : Db) :
    d.commit.wal = d.wal.log d.pend.recs ∧ d.commit.acked = d.acked ++ d.pend.entries := ⟨rfl, rfl⟩

/-- `Rollback` logs nothing but (pending) series records. -/
theorem rolledback_never_logged (d : Db) :
    ∃ L, d.rollback.wal = d.wal.log L ∧ (∀ r ∈ L, ∃ xs, r = Rec.series xs) ∧ d.rollback.acked = d.acked := by
  refine ⟨if d.pend.series.isEmpty then [] else [Rec.series d.pend.series], rfl, ?_, rfl⟩
  intro r hr
  split at hr
  · cases hr
  · exact ⟨_, by simpa using hr⟩

/-- A restart (close + open + replay) leaves the records of the log untouched (it only opens a new, empty
    segment): "after truncate + restart" the log is the log after the truncation. -/
theorem restart_keeps_log (d : Db) : d.restart.wal.recs = d.wal.recs := by
  simp [Db.restart, Wal.open_, Wal.recs, Wal.cpRecs]

/-- The standard checkpoint (`wlog.Checkpoint` through `Wal.checkpointTo`, as `truncate` calls it): every
    sample / histogram / exemplar entry of the checkpointed input with `t ≥ mint` is in the new
    checkpoint, in a record of its kind; and "series record precedes" survives the record filters as
    long as `keep` holds for the refs of surviving entries (for the agent: series in memory, or
    `deleted[ref] > last`). -/
theorem truncate_keeps_recent_partial (keep : Nat → Bool) (mint : Int) (input : List Rec) :
    (∀ k xs x, Rec.smp k xs ∈ input → x ∈ xs → x.t ≥ mint →
        ∃ ys, Rec.smp k ys ∈ checkpoint keep mint input ∧ x ∈ ys) ∧
    (precOK [] input → SurvKeep keep mint input → precOK [] (input.filterMap (ckptRec keep mint))) :=
  ⟨fun _ _ _ hr hx ht => smp_survives hr hx ht, fun hp hs => by simpa using precOK_filterMap input [] hp hs⟩

/-- The full statement (not proved): after every history of appends, commits, rollbacks, cuts, truncations
    with non-decreasing times (none while an appender is open) and restarts at which no two series
    records of the log carry the same label set, every acknowledged entry with `t ≥ lastMint` is in the
    log behind the series record of its ref. Missing: the history-level invariant (live ⇒ series record
    logged; entry at or after `lastMint` ⇒ ref live) and the composition lemma for the metadata-free
    tail. The witnesses below show it is false without the side conditions. -/
def truncate_keeps_recent_full : Prop :=
  ∀ (c : Cfg) (ops : List Op), c.inmem = false →
    let d := (Db.init c).run ops
    (∀ e ∈ d.acked, e.2.t ≥ d.lastMint → ∃ xs, Rec.smp e.1 xs ∈ d.wal.recs ∧ e.2 ∈ xs) ∧ orphans [] d.wal.recs = []

/-- F25: a garbage-collected series reappears under a new ref, the agent restarts, a later checkpoint
    drops the duplicate's series record but keeps its sample (t = 160 ≥ mint = 155). -/
def f25Ops : List Op :=
  [.app 1 100 1 .float 0 none, .commit, .cut, .cut, .cut, .trunc 150,
   .app 1 160 2 .float 0 none, .commit, .restart, .cut, .cut, .cut, .trunc 155]

theorem duplicate_ref_orphan_witness :
    ((orphans [] ((Db.init {}).run f25Ops).wal.recs).map fun p => (p.2.1, p.2.2)) = [(2, 160)] ∧
    ((Db.init {}).run f25Ops).lastMint = 155 ∧
    (SKind.float, (⟨2, 160, 2⟩ : Smp)) ∈ ((Db.init {}).run f25Ops).acked := by decide

theorem truncate_keeps_recent_full_false_witness : ¬ truncate_keeps_recent_full := by
  intro h
  have := (h {} f25Ops rfl).2
  revert this
  decide

/-- F26: with `CheckpointFromInMemorySeries` the acknowledged sample `(ref 1, t = 100)` (≥ mint = 90) of a
    checkpointed segment is gone; only `(ref, lastTs)` survives. -/
def f26Ops : List Op :=
  [.app 1 100 1 .float 0 none, .commit, .cut, .app 1 110 2 .float 0 none, .commit, .cut, .cut, .cut, .trunc 90]

theorem inmemory_checkpoint_drops_samples_witness :
    ((Db.init { inmem := true }).run f26Ops).wal.recs =
      [Rec.series [(1, 1)], Rec.smp .float [⟨1, 110, 0⟩]] ∧
    (SKind.float, (⟨1, 100, 1⟩ : Smp)) ∈ ((Db.init { inmem := true }).run f26Ops).acked := by decide

/-- Replayed series start at `lastTs = 0`: after a restart a series written only at negative times
    rejects `t = -5` although its last written sample is `-20`. -/
def isOoo : Except AErr Nat → Bool
  | .error .ooo => true
  | _ => false

theorem replayed_lastts_zero_witness :
    isOoo (((Db.init {}).run [.app 1 (-20) 1 .float 0 none, .commit, .restart]).append 0 1 (-5) 2 .float).2
      = true := by decide

/-- The agent never serves queries. -/
theorem never_queries (d : Db) (a b : Int) :
    d.querier a b = .error .unsupported ∧ d.chunkQuerier a b = .error .unsupported ∧
    d.exemplarQuerier = .error .unsupported := ⟨rfl, rfl, rfl⟩

end Prom.C48
