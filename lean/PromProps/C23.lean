import PromModel.Tsdb.Snapshot
import PromModel.Suites.SnapSuite
import PromProofs.Snapshot
import PromProofs.SnapshotClean
import PromModel.Suites.MsnapSuite
import PromProofs.SnapshotMm
/-
  C23 — restart from a memory snapshot equals restart from the WAL.

  Model: PromModel/Tsdb/Snapshot.lean on top of the shared storage model (DbModel stage A/B) and of
  `Head.Init`'s WAL replay (`replayStep` / `initHead`, ReadOnly.lean). Lemmas: PromProofs/Snapshot.lean.

  Proof architecture. The WAL replay is a left fold over the records. `Head.Init` with a usable
  snapshot starts that fold at the snapshot position from the head the snapshot describes; the plain
  open starts it at the first record from the empty head. If the snapshot-described head is what the
  fold reaches at the snapshot position (`SnapIsPrefixImage`) both folds end in the same series, for
  every WAL tail — the clean shutdown (empty tail) and the unclean one after a snapshot-loaded session
  alike. `SnapIsPrefixImage` is the durability invariant of the head ("the live head is the replay of
  its own WAL", C01/C03): it is the hypothesis here, not proved for all histories of DbModel — and it is
  false in DbModel and in tsdb.DB after CleanTombstones lowered the replay cutoff (C01's finding F30:
  the WAL replay then returns deleted samples that the snapshot does not hold).
-/
deriving instance DecidableEq for Prom.Db.HSeries

namespace Prom.C23
open Prom.Db Prom.Intervals

/-- The snapshot (with the m-mapped chunks) describes the head that the WAL replay reaches at the
    snapshot's WAL position. -/
def SnapIsPrefixImage (d : Db) (mm : List (Nat × List Smp)) (s : Snap) : Prop :=
  (prefixRun d s.pos).1.series = s.headSeries mm d.rwCut

/-- Clause 1 (repaired tail replay, `mm0 = none`): the open that loads the snapshot and replays only
    the WAL records behind its position answers every query like the full WAL replay, has the same
    series and blocks — for every WAL tail behind the position. -/
theorem snapshot_eq_wal (d : Db) (mm : List (Nat × List Smp)) (s : Snap)
    (h : SnapIsPrefixImage d mm s) (a b : Int) :
    (loadSnapshot none d mm s).query a b = d.reopen.query a b ∧
    (loadSnapshot none d mm s).series = d.reopen.series := by
  obtain ⟨hs, hb, hm⟩ := loadSnapshot_spec d mm s h
  refine ⟨?_, hs⟩
  apply query_eq_of_series_eq _ _ a b hs hb hm
  rw [Db.reopen_eq_initHead]
  exact initHead_samples_ge_minT _ _ (rwBase_series d) (by rw [rwBase_minValid]; exact Int.le_refl _)

/-- The same at the level of the directory: `reopenWithSnapshot` with a usable snapshot vs the open
    after `chunk_snapshot.*` was removed. -/
theorem snapshot_eq_wal_dir (x : SnapDb) (s : Snap) (hs : x.snap = some s)
    (hu : snapUse (x.seg + 1) (some s) = .used)
    (h : SnapIsPrefixImage x.db.closeState x.mm s) (a b : Int) :
    (x.reopenWithSnapshot none).db.query a b = x.reopenPlain.db.query a b := by
  unfold SnapDb.reopenWithSnapshot SnapDb.reopenPlain
  rw [hs]
  simp only [hu]
  rw [query_app_none, query_app_none]
  exact (snapshot_eq_wal _ _ _ h a b).1

/-- `SnapIsPrefixImage` is satisfiable and the statement is not vacuous: a history with two series,
    a chunk boundary, a deletion, a clean shutdown (snapshot, cut oracle: newest sample in the head
    chunk) and two more transactions behind the snapshot position. -/
def exampleDisk : SnapDb :=
  let d0 := Db.after { cfg := ⟨100, 0⟩ }
    [.begin, .app 0 (-300) 1, .app 1 (-290) 2, .app 0 (-170) 3, .commit, .del (-310) (-295) (some 0)]
  let x := (SnapDb.closeWithSnapshot (fun _ => 1) { db := d0 }).reopenWithSnapshot none
  { x with db := Db.after x.db [.begin, .app 0 (-160) 4, .app 1 (-150) 5, .commit, .begin, .app 1 150 6, .commit] }

example : ∃ s, exampleDisk.snap = some s ∧ SnapIsPrefixImage exampleDisk.db.closeState exampleDisk.mm s ∧
    s.pos = 2 ∧ exampleDisk.db.wal.length = 4 := by
  refine ⟨_, rfl, ?_, by decide, by decide⟩
  unfold SnapIsPrefixImage
  decide

/-! ### Clean shutdown -/

/-- A clean shutdown with snapshot followed by a start from the snapshot restores exactly the series
    of the live head (labels, samples, tombstones; series without samples are dropped as by
    `Head.gc`) and the blocks — for EVERY state whose series indices are distinct and whose head
    samples are not below the replay cutoff, every cut between m-mapped chunks and head chunk, and
    both versions of the tail replay (the WAL behind the position is empty: F31 cannot bite). -/
theorem clean_restart_restores_head (mm0 : Option Int) (cut : Nat → Nat) (x : SnapDb)
    (hnd : (x.db.series.map (·.idx)).Nodup)
    (hge : ∀ s ∈ x.db.series, ∀ p ∈ s.phys, x.db.rwCut ≤ p.t) :
    ((x.closeWithSnapshot cut).reopenWithSnapshot mm0).db.series = x.db.series.filter (fun s => !s.phys.isEmpty) ∧
    ((x.closeWithSnapshot cut).reopenWithSnapshot mm0).db.blocks = x.db.blocks :=
  ⟨(clean_restart_series mm0 cut x hnd hge).1, (clean_restart_series mm0 cut x hnd hge).2.1⟩

/-- Nothing observable depends on where the head chunk starts. -/
theorem cut_irrelevant (mm0 : Option Int) (cut1 cut2 : Nat → Nat) (x : SnapDb)
    (hnd : (x.db.series.map (·.idx)).Nodup)
    (hge : ∀ s ∈ x.db.series, ∀ p ∈ s.phys, x.db.rwCut ≤ p.t) (a b : Int) :
    ((x.closeWithSnapshot cut1).reopenWithSnapshot mm0).db.query a b =
      ((x.closeWithSnapshot cut2).reopenWithSnapshot mm0).db.query a b := by
  obtain ⟨s1, b1, m1⟩ := clean_restart_series mm0 cut1 x hnd hge
  obtain ⟨s2, b2, m2⟩ := clean_restart_series mm0 cut2 x hnd hge
  exact query_eq_of_series_eq _ _ a b (by rw [s1, s2]) (by rw [b1, b2]) m1 m2

/-- Clause 1 at a clean shutdown, reduced to durability: if the WAL replay of the directory rebuilds
    the live head (`hwal`, C01/C03's business), the start from the snapshot and the start without it
    answer every query alike — code as found and repaired alike, for every cut. -/
theorem snapshot_eq_wal_clean (mm0 : Option Int) (cut : Nat → Nat) (x : SnapDb)
    (hnd : (x.db.series.map (·.idx)).Nodup)
    (hge : ∀ s ∈ x.db.series, ∀ p ∈ s.phys, x.db.rwCut ≤ p.t)
    (hwal : x.db.closeState.reopen.series = x.db.series.filter (fun s => !s.phys.isEmpty)) (a b : Int) :
    ((x.closeWithSnapshot cut).reopenWithSnapshot mm0).db.query a b =
      (x.closeWithSnapshot cut).reopenPlain.db.query a b := by
  obtain ⟨s1, b1, m1⟩ := clean_restart_series mm0 cut x hnd hge
  show _ = ({ x.db.closeState.closeState.reopen with app := none } : Db).query a b
  rw [query_app_none, closeState_idem]
  apply query_eq_of_series_eq _ _ a b
  · rw [s1, hwal]
  · rw [b1, Db.reopen_eq_initHead, initHead_blocks _ _ (rwBase_series _), rwBase_blocks]; rfl
  · exact m1
  · rw [Db.reopen_eq_initHead]
    exact initHead_samples_ge_minT _ _ (rwBase_series _) (by rw [rwBase_minValid]; exact Int.le_refl _)

/-- The hypotheses are met by a concrete state after a compaction, with a deletion, two series and a
    chunk boundary. -/
def exampleLive : SnapDb :=
  { db := Db.after { cfg := ⟨100, 0⟩ }
      [.begin, .app 0 10 1, .app 1 20 2, .app 0 250 3, .app 1 260 4, .commit, .compact,
       .begin, .app 0 270 5, .app 1 380 6, .commit, .del 255 265 none] }

example : (exampleLive.db.series.map (·.idx)).Nodup ∧
    (∀ s ∈ exampleLive.db.series, ∀ p ∈ s.phys, exampleLive.db.rwCut ≤ p.t) ∧
    exampleLive.db.closeState.reopen.series = exampleLive.db.series.filter (fun s => !s.phys.isEmpty) ∧
    exampleLive.db.blocks.length = 1 := by
  decide

/-- Clause 2: an unreadable (damaged) snapshot, an outdated one (last WAL segment older than the
    snapshot) or none: `Head.Init` falls back to the full WAL replay — same series, same blocks, same
    answer to every query as the plain open (after a failed load only `Head.MinTime()/MaxTime()` may
    start elsewhere: `resetInMemoryState` forgets the truncation done by `DB.reload`). -/
theorem bad_snapshot_falls_back_without_loss (mm0 : Option Int) (x : SnapDb)
    (h : snapUse (x.seg + 1) x.snap ≠ .used) (a b : Int) :
    (x.reopenWithSnapshot mm0).db.query a b = x.reopenPlain.db.query a b ∧
    (x.reopenWithSnapshot mm0).db.series = x.reopenPlain.db.series ∧
    (x.reopenWithSnapshot mm0).db.blocks = x.reopenPlain.db.blocks := by
  unfold SnapDb.reopenWithSnapshot SnapDb.reopenPlain
  cases hs : x.snap with
  | none => exact ⟨rfl, rfl, rfl⟩
  | some s =>
    rw [hs] at h
    simp only []
    cases hu : snapUse (x.seg + 1) (some s) with
    | used => exact absurd hu h
    | absent => exact ⟨failedLoad_query _ a b, failedLoad_series _, failedLoad_blocks _⟩
    | outdated => exact ⟨rfl, rfl, rfl⟩
    | unreadable => exact ⟨failedLoad_query _ a b, failedLoad_series _, failedLoad_blocks _⟩

/-- The discard rule itself: a snapshot whose segment index is above the last WAL segment is never
    used, whatever it contains. -/
theorem outdated_snapshot_discarded (walEnd : Nat) (s : Snap) (h : walEnd < s.seg) :
    snapUse walEnd (some s) = .outdated := by
  simp [snapUse, h]

/-- Finding F31 (the code before the repair db72a46e05, `mm0 = some 0`; `codeMm0` is now `none`): samples with timestamp ≤ 0 logged after the
    snapshot are dropped for snapshot-loaded series — here `s0@-160` and `s1@-150` of `exampleDisk` — although the
    snapshot is the exact image of the WAL prefix. -/
theorem tail_nonpositive_lost_witness :
    (exampleDisk.reopenWithSnapshot (some 0)).db.query (-1000) 1000 ≠ exampleDisk.reopenPlain.db.query (-1000) 1000 ∧
    (exampleDisk.reopenWithSnapshot none).db.query (-1000) 1000 = exampleDisk.reopenPlain.db.query (-1000) 1000 := by
  decide

/-! ### Series without an in-order head chunk: m-mapped chunks and the WBL (layout model, SnapshotMm.lean)

  The snapshot holds, per series, only the in-order head chunk. Everything else a series owns comes
  back through two other doors: the m-mapped chunks of `chunks_head/` are attached by
  `loadMmappedChunks` to the series that `loadChunkSnapshot` REGISTERED in its ref ↦ series map, and
  the out-of-order head chunk is rebuilt by the WBL replay (a marker clears it when the chunk it
  announces is on disk). `reg` below is the registration rule; the code as found is `regAll`. -/
section Layout
open Prom.Db.Mm

/-- For every history of admitted in-order appends, out-of-order inserts and sample-less series
    creations, every out-of-order chunk capacity and every in-order cut rule: a clean shutdown with
    snapshot followed by a start from it rebuilds every series of the head with exactly its chunk
    layout — m-mapped in-order chunks, head chunk, m-mapped out-of-order chunks, out-of-order head
    chunk — and the WBL replay writes no chunk a second time. -/
theorem mm_clean_restart_restores_layout (cap : Nat) (cut : Nat → List Smp → Smp → Bool) (ops : List MOp) :
    ((Live.init cap cut).run ops).close.restart regAll = ((Live.init cap cut).run ops).list := by
  have h := inv_run ops _ (inv_init cap cut)
  rw [restart_spec _ h]
  simp [regAll, Live.list]

/-- The registration rule is exactly what decides: for ANY rule, the start from the snapshot rebuilds
    the live head iff every series it leaves out of the map owns no m-mapped chunk (in-order or
    out-of-order). A rule that skips series without head chunk (`regIfHead`) therefore loses the
    m-mapped out-of-order chunks of every series that only ever received out-of-order samples. -/
theorem mm_restart_eq_live_iff (cap : Nat) (cut : Nat → List Smp → Smp → Bool) (ops : List MOp)
    (reg : Nat × List Smp → Bool) :
    let L := (Live.init cap cut).run ops
    L.close.restart reg = L.list ↔
      ∀ r ∈ L.refs, reg (r, (L.series r).head) = true ∨ ((L.series r).mm = [] ∧ (L.series r).oooMm = []) := by
  intro L
  have h : Inv L := inv_run ops _ (inv_init cap cut)
  rw [restart_spec L h, Live.list]
  constructor
  · intro heq r hr
    have := (List.map_inj_left.mp heq) r hr
    by_cases hreg : reg (r, (L.series r).head) = true
    · exact Or.inl hreg
    · right
      simp only [hreg] at this
      cases hs : L.series r with
      | mk ref mm head oooMm oooHead =>
        rw [hs] at this
        simp at this
        exact ⟨this.1, this.2⟩
  · intro hall
    apply List.map_congr_left
    intro r hr
    cases hall r hr with
    | inl hreg => simp [hreg]
    | inr hnil =>
      by_cases hreg : reg (r, (L.series r).head) = true
      · simp [hreg]
      · simp only [hreg]
        cases hs : L.series r with
        | mk ref mm head oooMm oooHead =>
          rw [hs] at hnil
          simp at hnil
          simp [hnil.1, hnil.2]

/-- The samples of every series survive (corollary in the form the judge of suite `msnap` observes:
    what a query merges). -/
theorem mm_clean_restart_keeps_samples (cap : Nat) (cut : Nat → List Smp → Smp → Bool) (ops : List MOp) :
    (((Live.init cap cut).run ops).close.restart regAll).map MSeries.samples
      = ((Live.init cap cut).run ops).list.map MSeries.samples := by
  rw [mm_clean_restart_restores_layout]

/-- A concrete head: capacity 2, in-order chunks of two samples; series 0 in order (one m-mapped chunk),
    series 1 out of order only (five samples: two m-mapped out-of-order chunks, no head chunk),
    series 2 created by a rolled-back append, series 3 both kinds. -/
def exampleHead : Live :=
  (Live.init 2 (fun _ h _ => decide (2 ≤ h.length))).run
    [.inorder 0 ⟨100, 1⟩, .inorder 0 ⟨101, 2⟩, .inorder 0 ⟨102, 3⟩,
     .ooo 1 ⟨50, 4⟩, .ooo 1 ⟨40, 5⟩, .ooo 1 ⟨45, 6⟩, .ooo 1 ⟨41, 7⟩, .ooo 1 ⟨60, 8⟩,
     .create 2, .inorder 3 ⟨103, 9⟩, .ooo 3 ⟨70, 10⟩]

example : exampleHead.refs = [0, 1, 2, 3] ∧ (exampleHead.series 1).head = [] ∧
    ((exampleHead.series 1).oooMm.map (·.smps.length)) = [2, 2] ∧ (exampleHead.series 1).oooHead.length = 1 ∧
    (exampleHead.series 0).mm.length = 1 ∧ exampleHead.wbl.length = 10 := by
  decide

/-- The registration rule that skips series without head chunk loses data on `exampleHead` (the four
    m-mapped out-of-order samples of series 1; its out-of-order head chunk survives through the WBL),
    the rule of the code as found does not. -/
theorem mm_headless_unregistered_loses_chunks_witness :
    (exampleHead.close.restart regIfHead).map MSeries.samples ≠ exampleHead.list.map MSeries.samples ∧
    ((exampleHead.close.restart regIfHead).map MSeries.samples).map List.length = [3, 1, 0, 2] ∧
    (exampleHead.list.map MSeries.samples).map List.length = [3, 5, 0, 2] ∧
    exampleHead.close.restart regAll = exampleHead.list := by
  decide

end Layout

/-- The full statement (DESIGN §7 C23): for EVERY history of the model — any interleaving of
    transactions, deletions, head compactions, restarts, and out-of-order ingestion — the state at a
    clean shutdown satisfies the equation for every cut oracle. Missing: the durability invariant
    `SnapIsPrefixImage` along all histories (C01's `reopen` case), the out-of-order stage of DbModel,
    and it is FALSE as stated once CleanTombstones is part of the history (F30) and for unclean
    restarts with timestamps ≤ 0 in the code as found (F31, `tail_nonpositive_lost_witness`). -/
def snapshot_eq_wal_full : Prop :=
  ∀ (c : Cfg) (h : List Op) (cut : Nat → Nat) (a b : Int), 0 < c.chunkRange →
    let x := SnapDb.closeWithSnapshot cut { db := Db.after { cfg := c } h }
    (x.reopenWithSnapshot codeMm0).db.query a b = x.reopenPlain.db.query a b

end Prom.C23
