import PromModel.Promql.Quantile
namespace Prom.C32
open Prom.Quantile

theorem placeholder : (1 : Nat) = 1 := rfl

end Prom.C32
