import PromProofs.QuantileList
import PromProofs.QuantileFraction
import PromProofs.QuantileSort
import PromProofs.QuantileNativeMono
import PromProofs.QuantileFractionMono
import PromProofs.QuantileFractionExt
import PromProofs.QuantileAgree
/-
  C32 — Histogram query functions agree with the histograms they describe.

  All theorems are about the definitions of PromModel/Promql/Quantile.lean at the exact instance
  `α = XR` (rationals + NaN/±Inf with IEEE rules); the SAME definitions, at the instance `α = F64`
  (correctly rounded binary64), are compared bit for bit with the Go code by the `histfn` suite.
  Helper lemmas: PromProofs/QuantileRat.lean, PromProofs/QuantileList.lean.
-/
namespace Prom.C32
open Prom.Quantile

/-! ## Classic buckets (`BucketQuantile`) -/

/-- `ensureMonotonicAndIgnoreSmallDeltas` turns ANY finite counts into non-decreasing ones and is
    idempotent — for every tolerance predicate (`almost.Equal(·,·,1e-12)` in the code). -/
theorem ensureMonotonic_idempotent_and_monotone (almost : XR → XR → Bool) (b : Bucket XR) (bs : List (Bucket XR))
    (c0 : Rat) (hb : b.count = .fin c0) (h : FinC bs) :
    MonoFrom c0 (ensureMonotonic almost (b :: bs)).1 ∧
    (ensureMonotonic almost (ensureMonotonic almost (b :: bs)).1).1 = (ensureMonotonic almost (b :: bs)).1 := by
  refine ⟨⟨c0, hb, Rat.le_refl, by simpa [hb] using fixCounts_mono almost bs c0 h⟩, ?_⟩
  simp only [ensureMonotonic, hb]
  congr 1
  clear hb
  induction bs generalizing c0 with
  | nil => rfl
  | cons x xs ih =>
    obtain ⟨c, hc⟩ := h x (List.mem_cons_self ..)
    have hxs : FinC xs := fun y hy => h y (List.mem_cons_of_mem _ hy)
    simp only [fixCounts, hc, fops_beq, fops_lt, XR.beq_fin, XR.lt_fin]
    split
    · rename_i e; simp only [fixCounts, hc, fops_beq, XR.beq_fin, e, if_true, ih c0 hxs]
    · split
      · simp [fixCounts, ih c0 hxs]
      · split
        · simp [fixCounts, ih c0 hxs]
        · rename_i e1 e2 e3
          simp only [fixCounts, hc, fops_beq, fops_lt, XR.beq_fin, XR.lt_fin, e1, e2, e3, if_false, ih c hxs]
          simp

/-- The clause "histogram_quantile over classic bucket series with finite counts never decreases with
    the quantile, even when the bucket counts are not monotonic".
    `cs` is the bucket list after `slices.SortFunc` + `coalesceBuckets` (bounds non-decreasing, all but
    the last finite — `UbShape`); the counts are ARBITRARY finite numbers ≥ 0 (`NonnegC`), the
    monotonicity the rank search needs is established by the fix-up, not assumed.  A NaN result is
    admitted by `leOrNaN` and characterised in `bucketQuantile_nan_witness`/`bucketQuantile_in_bucket`.
    Partial only in that the sort/coalesce prefix is represented by its postcondition `UbShape`
    (see `bucketQuantile_mono_full`). -/
theorem bucketQuantile_mono_partial (almost : XR → XR → Bool) (cs : List (Bucket XR)) (U : UbShape cs) (C : NonnegC cs)
    (q1 q2 : Rat) (h0 : 0 ≤ q1) (h12 : q1 ≤ q2) :
    XR.leOrNaN (bqTail almost (.fin q1) cs).quantile (bqTail almost (.fin q2) cs).quantile := by
  rcases bqTail_decomp almost cs U C with hnan | ⟨N, hobs, hq⟩
  · left; exact hnan q1
  · obtain ⟨k1, S1, e1⟩ := hq q1
    obtain ⟨k2, S2, e2⟩ := hq q2
    rw [e1, e2]
    have hobs' := Rat.le_of_lt hobs
    exact valQ_mono N (Rat.mul_nonneg h0 hobs') (Rat.mul_le_mul_of_nonneg_right h12 hobs') S1 S2

def noTol : XR → XR → Bool := fun _ _ => false

/-- The whole-pipeline statement (sort + coalesce included) as first written.  It is FALSE for the empty
    bucket list only (`bucketQuantile_mono_full_empty_witness`: Go indexes `buckets[len(buckets)-1]` and
    panics; both callers guard `len(mb.buckets) > 0`); with `buckets ≠ []` it is `bucketQuantile_mono`. -/
def bucketQuantile_mono_full : Prop :=
  ∀ (almost : XR → XR → Bool) (buckets : List (Bucket XR)),
    NonnegC buckets → (∀ b ∈ buckets, b.ub = .pinf ∨ ∃ x, b.ub = .fin x) →
    ∀ q1 q2 : Rat, 0 ≤ q1 → q1 ≤ q2 → q2 ≤ 1 →
      ∃ r1 r2, bucketQuantileWith almost (.fin q1) buckets = .ok r1 ∧ bucketQuantileWith almost (.fin q2) buckets = .ok r2 ∧
        XR.leOrNaN r1.quantile r2.quantile

/-- `BucketQuantile` with the sort and `coalesceBuckets` INCLUDED: for EVERY non-empty list of classic
    buckets with finite counts ≥ 0 (in any order, with duplicate bounds, monotone or not) and bounds that are
    numbers or +Inf, the call succeeds for all quantiles in [0,1] and the result never decreases with the
    quantile.  No shape hypothesis is left: `sortCoalesce_spec` proves that the transcribed sort + coalesce
    establish `UbShape`. -/
theorem bucketQuantile_mono (almost : XR → XR → Bool) (buckets : List (Bucket XR)) (hne : buckets ≠ [])
    (C : NonnegC buckets) (hub : ∀ b ∈ buckets, b.ub = .pinf ∨ ∃ x, b.ub = .fin x)
    (q1 q2 : Rat) (h0 : 0 ≤ q1) (h12 : q1 ≤ q2) (h1 : q2 ≤ 1) :
    ∃ r1 r2, bucketQuantileWith almost (.fin q1) buckets = .ok r1 ∧ bucketQuantileWith almost (.fin q2) buckets = .ok r2 ∧
      XR.leOrNaN r1.quantile r2.quantile := by
  obtain ⟨_, _, _, C', U⟩ := sortCoalesce_spec buckets hub C
  have h1' : q1 ≤ 1 := by grind
  have h0' : 0 ≤ q2 := by grind
  rcases bucketQuantileWith_decomp almost buckets hne with hn | ht
  · exact ⟨_, _, hn q1 h0 h1', hn q2 h0' h1, Or.inl rfl⟩
  · exact ⟨_, _, ht q1 h0 h1', ht q2 h0' h1, bucketQuantile_mono_partial almost _ U C' q1 q2 h0 h12⟩

/-- the literal `bucketQuantile_mono_full` fails exactly because of the empty list (Go: index out of range) -/
theorem bucketQuantile_mono_full_empty_witness : ¬ bucketQuantile_mono_full := by
  intro h
  obtain ⟨r1, _, e, _⟩ := h noTol [] (by intro b hb; simp at hb) (by intro b hb; simp at hb) 0 0
    (by decide) (by decide) (by decide)
  have : (match bucketQuantileWith noTol (.fin 0) ([] : List (Bucket XR)) with | .error _ => true | .ok _ => false) = true := by
    decide +kernel
  rw [e] at this
  cases this

/-- The result lies within the bounds of the bucket holding the rank: either NaN for every `q`
    (fewer than 2 buckets / no observations), or for each `q ≥ 0` there is the bucket `k` selected by
    the rank `q·observations` among the fixed-up counts (`Sel`: `c (k-1) < rank ≤ c k`) and the result
    is NaN (only the 0/0 case, see the witness) or a number in `[loB k, hiB k]`. -/
theorem bucketQuantile_in_bucket_partial (almost : XR → XR → Bool) (cs : List (Bucket XR)) (U : UbShape cs) (C : NonnegC cs) :
    (∀ q : Rat, (bqTail almost (.fin q) cs).quantile = .nan) ∨
    ∀ q : Rat, 0 ≤ q → ∃ k, Sel cs.length (cOf almost cs) (q * cOf almost cs (cs.length - 1)) k ∧
      ((bqTail almost (.fin q) cs).quantile = .nan ∨
        ∃ v, (bqTail almost (.fin q) cs).quantile = .fin v ∧ loB cs.length (uOf cs) k ≤ v ∧ v ≤ hiB cs.length (uOf cs) k) := by
  rcases bqTail_decomp almost cs U C with hnan | ⟨N, hobs, hq⟩
  · left; exact hnan
  · right; intro q h0
    obtain ⟨k, S, e⟩ := hq q
    refine ⟨k, S, ?_⟩
    rw [e]
    exact valQ_bounds N (Rat.mul_nonneg h0 (Rat.le_of_lt hobs)) S

/-- a concrete non-trivial input satisfying the hypotheses: bounds 1, 2, +Inf with NON-monotonic counts 5, 3, 9 -/
def exBuckets : List (Bucket XR) := [⟨.fin 1, .fin 5⟩, ⟨.fin 2, .fin 3⟩, ⟨.pinf, .fin 9⟩]

example : UbShape exBuckets ∧ NonnegC exBuckets := by
  refine ⟨⟨?_, ?_⟩, ?_⟩
  · intro i hi
    have : i = 0 ∨ i = 1 := by simp [exBuckets] at hi; omega
    rcases this with rfl | rfl
    · exact ⟨1, rfl⟩
    · exact ⟨2, rfl⟩
  · intro i j hij hj
    have : j = 0 ∨ j = 1 := by simp [exBuckets] at hj; omega
    rcases this with rfl | rfl
    · have : i = 0 := by omega
      subst this; exact Rat.le_refl
    · have : i = 0 ∨ i = 1 := by omega
      rcases this with rfl | rfl
      · show ratOf (.fin 1) ≤ ratOf (.fin 2); simp [ratOf]; decide
      · exact Rat.le_refl
  · intro b hb
    simp [exBuckets] at hb
    rcases hb with rfl | rfl | rfl
    · exact ⟨5, rfl, by decide⟩
    · exact ⟨3, rfl, by decide⟩
    · exact ⟨9, rfl, by decide⟩

def shuffled : List (Bucket XR) := [⟨.fin 2, .fin 3⟩, ⟨.pinf, .fin 9⟩, ⟨.fin 1, .fin 5⟩, ⟨.fin 2, .fin 4⟩]

/-- `bucketQuantile_in_bucket_partial` with sort and `coalesceBuckets` INCLUDED.  `cs = sortCoalesce buckets` is
    the list the function works on: its bounds are strictly increasing (duplicates merged) and are exactly the
    bounds of the input, each count is the SUM of the counts of the input buckets with that bound (`cntFor`),
    finite and ≥ 0.  Then either the result is NaN for every quantile in
    [0,1] (largest bound not +Inf, fewer than 2 distinct bounds, or no observations) or for every such quantile
    the result is NaN (0/0 case only, F-C32-2) or a number within the bounds of the bucket `k` of `cs` selected
    by the rank. -/
theorem bucketQuantile_in_bucket (almost : XR → XR → Bool) (buckets : List (Bucket XR)) (hne : buckets ≠ [])
    (C : NonnegC buckets) (hub : ∀ b ∈ buckets, b.ub = .pinf ∨ ∃ x, b.ub = .fin x) :
    (StrictUb (sortCoalesce buckets) ∧
      (∀ x : XR, (∃ c ∈ sortCoalesce buckets, c.ub = x) ↔ (∃ b ∈ buckets, b.ub = x)) ∧
      (∀ c ∈ sortCoalesce buckets, c.count = .fin (cntFor c.ub buckets)) ∧
      NonnegC (sortCoalesce buckets)) ∧
    ((∀ q : Rat, 0 ≤ q → q ≤ 1 → ∃ r, bucketQuantileWith almost (.fin q) buckets = .ok r ∧ r.quantile = .nan) ∨
     ∀ q : Rat, 0 ≤ q → q ≤ 1 → ∃ r k, bucketQuantileWith almost (.fin q) buckets = .ok r ∧
      Sel (sortCoalesce buckets).length (cOf almost (sortCoalesce buckets))
        (q * cOf almost (sortCoalesce buckets) ((sortCoalesce buckets).length - 1)) k ∧
      (r.quantile = .nan ∨
        ∃ v, r.quantile = .fin v ∧ loB (sortCoalesce buckets).length (uOf (sortCoalesce buckets)) k ≤ v ∧
          v ≤ hiB (sortCoalesce buckets).length (uOf (sortCoalesce buckets)) k)) := by
  obtain ⟨S, _, M, C', U⟩ := sortCoalesce_spec buckets hub C
  have F : FinC buckets := fun b hb => by obtain ⟨c, hc, _⟩ := C b hb; exact ⟨c, hc⟩
  refine ⟨⟨S, M, sortCoalesce_counts buckets hub F, C'⟩, ?_⟩
  rcases bucketQuantileWith_decomp almost buckets hne with hn | ht
  · left; intro q h0 h1; exact ⟨_, hn q h0 h1, rfl⟩
  · rcases bucketQuantile_in_bucket_partial almost _ U C' with hnan | hq
    · left; intro q h0 h1; exact ⟨_, ht q h0 h1, hnan q⟩
    · right; intro q h0 h1
      obtain ⟨k, hS, hv⟩ := hq q h0
      exact ⟨_, k, ht q h0 h1, hS, hv⟩

/-- When is the result a NUMBER?  Exactly the hypotheses that exclude the documented NaN cases (no +Inf bound,
    fewer than two distinct bounds, no observations) and finding F-C32-2 (rank 0 in an EMPTY lowest bucket:
    `0 < q ∨ lowest bucket non-empty`; `cOf almost cs 0` is the count of the first coalesced bucket, which the
    fix-up never changes — `cOf_zero`).  Then for every q in [0,1] `BucketQuantile` returns a number inside the
    bounds of the rank bucket.  Each hypothesis is needed: `bucketQuantile_nan_witness` (F-C32-2) and
    `bucketQuantile_documented_nan_witness`. -/
theorem bucketQuantile_number (almost : XR → XR → Bool) (buckets : List (Bucket XR))
    (C : NonnegC buckets) (hub : ∀ b ∈ buckets, b.ub = .pinf ∨ ∃ x, b.ub = .fin x)
    (hinf : ∃ b ∈ buckets, b.ub = .pinf) (h2 : 2 ≤ (sortCoalesce buckets).length)
    (hobs : cOf almost (sortCoalesce buckets) ((sortCoalesce buckets).length - 1) ≠ 0)
    (q : Rat) (h0 : 0 ≤ q) (h1 : q ≤ 1) (hpos : 0 < q ∨ 0 < cOf almost (sortCoalesce buckets) 0) :
    ∃ r k v, bucketQuantileWith almost (.fin q) buckets = .ok r ∧
      Sel (sortCoalesce buckets).length (cOf almost (sortCoalesce buckets))
        (q * cOf almost (sortCoalesce buckets) ((sortCoalesce buckets).length - 1)) k ∧
      r.quantile = .fin v ∧ loB (sortCoalesce buckets).length (uOf (sortCoalesce buckets)) k ≤ v ∧
      v ≤ hiB (sortCoalesce buckets).length (uOf (sortCoalesce buckets)) k := by
  obtain ⟨_, _, _, C', U⟩ := sortCoalesce_spec buckets hub C
  obtain ⟨N, hO, hq⟩ := bqTail_main almost _ U C' h2 hobs
  obtain ⟨k, S, e⟩ := hq q
  have hρ : 0 ≤ q * cOf almost (sortCoalesce buckets) ((sortCoalesce buckets).length - 1) :=
    Rat.mul_nonneg h0 (Rat.le_of_lt hO)
  have hpos' : 0 < q * cOf almost (sortCoalesce buckets) ((sortCoalesce buckets).length - 1) ∨
      0 < cOf almost (sortCoalesce buckets) 0 := by
    rcases hpos with h | h
    · exact Or.inl (Rat.mul_pos h hO)
    · exact Or.inr h
  obtain ⟨v, hv⟩ := valQ_fin_of N S hpos'
  refine ⟨_, k, v, bucketQuantileWith_tail almost buckets hub hinf q h0 h1, S, by rw [e]; exact hv, ?_⟩
  rcases valQ_bounds N hρ S with hn | ⟨v', e', b1, b2⟩
  · rw [hv] at hn; cases hn
  · rw [hv] at e'; cases e'; exact ⟨b1, b2⟩

/-- `bucketQuantile_mono` at the tolerance the code uses (`almost.Equal(·,·,1e-12)`) -/
theorem bucketQuantile_mono_tol (buckets : List (Bucket XR)) (hne : buckets ≠ [])
    (C : NonnegC buckets) (hub : ∀ b ∈ buckets, b.ub = .pinf ∨ ∃ x, b.ub = .fin x)
    (q1 q2 : Rat) (h0 : 0 ≤ q1) (h12 : q1 ≤ q2) (h1 : q2 ≤ 1) :
    ∃ r1 r2, bucketQuantile (.fin q1) buckets = .ok r1 ∧ bucketQuantile (.fin q2) buckets = .ok r2 ∧
      XR.leOrNaN r1.quantile r2.quantile :=
  bucketQuantile_mono _ buckets hne C hub q1 q2 h0 h12 h1

/-- monotone with a genuine `≤` between numbers (no NaN escape) under the hypotheses of `bucketQuantile_number` -/
theorem bucketQuantile_mono_number (almost : XR → XR → Bool) (buckets : List (Bucket XR))
    (C : NonnegC buckets) (hub : ∀ b ∈ buckets, b.ub = .pinf ∨ ∃ x, b.ub = .fin x)
    (hinf : ∃ b ∈ buckets, b.ub = .pinf) (h2 : 2 ≤ (sortCoalesce buckets).length)
    (hobs : cOf almost (sortCoalesce buckets) ((sortCoalesce buckets).length - 1) ≠ 0)
    (q1 q2 : Rat) (h0 : 0 ≤ q1) (h12 : q1 ≤ q2) (h1 : q2 ≤ 1)
    (hpos : 0 < q1 ∨ 0 < cOf almost (sortCoalesce buckets) 0) :
    ∃ r1 r2 v1 v2, bucketQuantileWith almost (.fin q1) buckets = .ok r1 ∧ bucketQuantileWith almost (.fin q2) buckets = .ok r2 ∧
      r1.quantile = .fin v1 ∧ r2.quantile = .fin v2 ∧ v1 ≤ v2 := by
  have hne : buckets ≠ [] := by
    obtain ⟨b, hb, _⟩ := hinf
    intro e; rw [e] at hb; simp at hb
  obtain ⟨r1, _, v1, e1, _, f1, _⟩ := bucketQuantile_number almost buckets C hub hinf h2 hobs q1 h0 (by grind) hpos
  obtain ⟨r2, _, v2, e2, _, f2, _⟩ := bucketQuantile_number almost buckets C hub hinf h2 hobs q2 (by grind) h1
    (by rcases hpos with h | h
        · exact Or.inl (by grind)
        · exact Or.inr h)
  obtain ⟨r1', r2', e1', e2', hle⟩ := bucketQuantile_mono almost buckets hne C hub q1 q2 h0 h12 h1
  rw [e1] at e1'; rw [e2] at e2'
  cases e1'; cases e2'
  refine ⟨r1, r2, v1, v2, e1, e2, f1, f2, ?_⟩
  rw [f1, f2] at hle
  rcases hle with h | h | h
  · cases h
  · cases h
  · simpa using h
/-- the documented NaN cases, one per remaining hypothesis of `bucketQuantile_number`: largest bound not +Inf;
    a single distinct bound; no observations -/
theorem bucketQuantile_documented_nan_witness :
    (match bucketQuantileWith noTol (.fin (1/2)) [⟨.fin 1, .fin 5⟩, ⟨.fin 2, .fin 9⟩] with
      | .ok r => r.quantile | .error _ => .fin 0) = .nan ∧
    (match bucketQuantileWith noTol (.fin (1/2)) [⟨.pinf, .fin 5⟩, ⟨.pinf, .fin 9⟩] with
      | .ok r => r.quantile | .error _ => .fin 0) = .nan ∧
    (match bucketQuantileWith noTol (.fin (1/2)) [⟨.fin 1, .fin 0⟩, ⟨.pinf, .fin 0⟩] with
      | .ok r => r.quantile | .error _ => .fin 0) = .nan := by
  refine ⟨?_, ?_, ?_⟩ <;> decide +kernel

/-- `shuffled` (below) satisfies the hypotheses of `bucketQuantile_number` for every q in [0,1] -/
example : (∃ b ∈ shuffled, b.ub = .pinf) ∧ 2 ≤ (sortCoalesce shuffled).length ∧
    cOf noTol (sortCoalesce shuffled) ((sortCoalesce shuffled).length - 1) ≠ 0 ∧ 0 < cOf noTol (sortCoalesce shuffled) 0 := by
  refine ⟨⟨⟨.pinf, .fin 9⟩, by simp [shuffled], rfl⟩, by decide +kernel, by decide +kernel, by decide +kernel⟩

/-- a shuffled input with a duplicate bound and non-monotonic counts satisfies the hypotheses -/
example : shuffled ≠ [] ∧ NonnegC shuffled ∧ (∀ b ∈ shuffled, b.ub = .pinf ∨ ∃ x, b.ub = .fin x) ∧
    (sortCoalesce shuffled).map (fun b => (b.ub, b.count)) = [(.fin 1, .fin 5), (.fin 2, .fin 7), (.pinf, .fin 9)] := by
  refine ⟨by simp [shuffled], ?_, ?_, by decide +kernel⟩
  · intro b hb
    simp [shuffled] at hb
    rcases hb with rfl | rfl | rfl | rfl
    · exact ⟨3, rfl, by decide⟩
    · exact ⟨9, rfl, by decide⟩
    · exact ⟨5, rfl, by decide⟩
    · exact ⟨4, rfl, by decide⟩
  · intro b hb
    simp [shuffled] at hb
    rcases hb with rfl | rfl | rfl | rfl
    · exact Or.inr ⟨2, rfl⟩
    · exact Or.inl rfl
    · exact Or.inr ⟨1, rfl⟩
    · exact Or.inr ⟨2, rfl⟩

def emptyFirst : List (Bucket XR) := [⟨.fin 1, .fin 0⟩, ⟨.fin 2, .fin 5⟩, ⟨.pinf, .fin 5⟩]
def negCounts : List (Bucket XR) := [⟨.fin 1, .fin (-5)⟩, ⟨.fin 2, .fin (-1)⟩, ⟨.fin 3, .fin (-1)⟩, ⟨.pinf, .fin (-1)⟩]

/-- Finding F-C32-2: rank 0 with an empty lowest bucket of positive bound gives NaN (0/0), although
    the histogram is valid and every `q > 0` gives a number. -/
theorem bucketQuantile_nan_witness :
    (bqTail noTol (.fin 0) emptyFirst).quantile = .nan ∧
    (bqTail noTol (.fin (1/10)) emptyFirst).quantile = .fin (11/10) := by
  constructor <;> decide +kernel

/-- Outside the statement's domain (negative counts) monotonicity really fails: q = 1/2 ↦ 3, q = 1 ↦ 2. -/
theorem bucketQuantile_negative_counts_witness :
    (bqTail noTol (.fin (1/2)) negCounts).quantile = .fin 3 ∧
    (bqTail noTol (.fin 1) negCounts).quantile = .fin 2 := by
  constructor <;> decide +kernel

/-! ## Native histograms -/

/-- `histogram_fraction(-Inf, +Inf, h) = 1` for a non-empty histogram (at least one bucket, finite Count > 0,
    Sum not NaN, no NaN/+Inf lower bucket bound) — for every bucket content and every in-bucket
    interpolant `fb` (the exp2/log2 interpolation is abstracted as `fb`). -/
theorem fraction_total_one (fb : XR → XR → XR → XR) (h : NHist XR) (N : Rat) (hN : h.count = .fin N) (hpos : 0 < N)
    (hsum : h.sum ≠ .nan) (hne : h.fwd ≠ []) (hb : ∀ x ∈ h.fwd, LowerOk x) :
    histogramFraction fb .ninf .pinf h = .fin 1 :=
  fraction_total_one_aux fb h N hN hpos hsum hne hb

example : ∃ h : NHist XR, h.count = .fin 3 ∧ h.sum ≠ .nan ∧ h.fwd ≠ [] ∧ ∀ x ∈ h.fwd, LowerOk x :=
  ⟨{ custom := false, count := .fin 3, sum := .fin 7, nNeg := 1, nPos := 1,
     fwd := [⟨.fin (-2), .fin (-1), .fin 1⟩, ⟨.fin 1, .fin 2, .fin 2⟩], rev := [⟨.fin 1, .fin 2, .fin 2⟩, ⟨.fin (-2), .fin (-1), .fin 1⟩] },
   rfl, by simp, by simp, by intro x hx; simp at hx; rcases hx with rfl | rfl <;> simp [LowerOk]⟩

/-- a monotone in-bucket interpolant with values in `[lower, upper]` (abstraction of the exp2/log2 formula) -/
def GoodInterp (interp : XR → XR → XR → XR) : Prop :=
  ∀ l u f1 f2 : Rat, l ≤ u → 0 ≤ f1 → f1 ≤ f2 → f2 ≤ 1 →
    ∃ v1 v2, interp (.fin l) (.fin u) (.fin f1) = .fin v1 ∧ interp (.fin l) (.fin u) (.fin f2) = .fin v2 ∧ l ≤ v1 ∧ v1 ≤ v2 ∧ v2 ≤ u

def evalHQ (interp : XR → XR → XR → XR) : HQRes XR → XR
  | .val v => v
  | .expo l u f => interp l u f

/-- consistent native histogram: finite counts ≥ 0 that add up to Count > 0, ascending disjoint buckets,
    the reverse iterator is the reverse of the forward one.  Sum may be anything, NaN included: with the repair of
    F-C32-1 in /repo (`repoFixedC32F1 = true`) the theorems no longer need `Sum ≠ NaN`; for the code as found they
    do (`NanSumOk false`, `histQuantile_nan_sum_witness`). -/
def ConsistentHist (h : NHist XR) : Prop :=
  h.rev = h.fwd.reverse ∧
  (∃ N, h.count = .fin N ∧ 0 < N ∧ sumCounts (.fin 0) h.fwd = .fin N) ∧
  (∀ b ∈ h.fwd, ∃ l u c, b.lower = .fin l ∧ b.upper = .fin u ∧ b.count = .fin c ∧ l ≤ u ∧ 0 ≤ c) ∧
  h.fwd.Pairwise (fun a b => XR.le a.upper b.lower = true)

theorem ConsistentHist.rhist {h : NHist XR} (C : ConsistentHist h) :
    ∃ L N, RHist h L N ∧ L.Pairwise (fun a b => a.u ≤ b.l) :=
  rhist_of h C.1 C.2.1 C.2.2.1 C.2.2.2

/-- what the variant `fixed` of the code needs about Sum: nothing when F-C32-1 is repaired, `Sum ≠ NaN` otherwise -/
def NanSumOk (fixed : Bool) (h : NHist XR) : Prop := fixed = true ∨ h.sum ≠ .nan

/-- /repo is the repaired variant, so `NanSumOk` holds for every histogram -/
theorem nanSumOk_repo (h : NHist XR) : NanSumOk repoFixedC32F1 h := Or.inl rfl

theorem evalHQ_eq_evalR (interp : XR → XR → XR → XR) (r : HQRes XR) : evalHQ interp r = evalR interp r := by
  cases r <;> rfl

/-- the statement as first written (NaN admitted) -/
def histQuantile_mono_full : Prop :=
  ∀ (interp : XR → XR → XR → XR) (h : NHist XR), GoodInterp interp → ConsistentHist h →
    ∀ q1 q2 : Rat, 0 ≤ q1 → q1 ≤ q2 → q2 ≤ 1 →
      XR.leOrNaN (evalHQ interp (histogramQuantile (.fin q1) h)) (evalHQ interp (histogramQuantile (.fin q2) h))

/-- Native quantiles never decrease with q — and are never NaN — for BOTH variants of the code (`fixed = false`:
    as found, needs Sum ≠ NaN, F-C32-1; `fixed = true`: repaired, any Sum): for every consistent histogram (all
    bounds finite: F-C32-3) and every monotone in-bucket interpolant, at the bucket-iterator level, ACROSS the
    switch from forward to reverse iteration at q = 1/2 (no switch when Sum is NaN). -/
theorem histQuantileWith_mono (fixed : Bool) (interp : XR → XR → XR → XR) (h : NHist XR) (G : GoodInterp interp)
    (C : ConsistentHist h) (hs : NanSumOk fixed h) (q1 q2 : Rat) (h0 : 0 ≤ q1) (h12 : q1 ≤ q2) (h1 : q2 ≤ 1) :
    ∃ v1 v2, evalHQ interp (histogramQuantileWith fixed (.fin q1) h) = .fin v1 ∧
      evalHQ interp (histogramQuantileWith fixed (.fin q2) h) = .fin v2 ∧ v1 ≤ v2 := by
  obtain ⟨L, N, R, PW⟩ := C.rhist
  simp only [evalHQ_eq_evalR]
  exact hq_mono_core interp G fixed R hs PW q1 q2 h0 h12 h1

/-- …and for the code the check is tied to (/repo with F-C32-1 repaired): NO hypothesis on Sum. -/
theorem histQuantile_mono (interp : XR → XR → XR → XR) (h : NHist XR) (G : GoodInterp interp) (C : ConsistentHist h)
    (q1 q2 : Rat) (h0 : 0 ≤ q1) (h12 : q1 ≤ q2) (h1 : q2 ≤ 1) :
    ∃ v1 v2, evalHQ interp (histogramQuantile (.fin q1) h) = .fin v1 ∧
      evalHQ interp (histogramQuantile (.fin q2) h) = .fin v2 ∧ v1 ≤ v2 :=
  histQuantileWith_mono repoFixedC32F1 interp h G C (nanSumOk_repo h) q1 q2 h0 h12 h1

theorem histQuantile_mono_full_holds : histQuantile_mono_full := by
  intro interp h G C q1 q2 h0 h12 h1
  obtain ⟨v1, v2, e1, e2, hle⟩ := histQuantile_mono interp h G C q1 q2 h0 h12 h1
  right; right
  rw [e1, e2, XR.le_fin]
  simpa using hle

/-- the statement as first written (some bucket of the histogram) -/
def histQuantile_in_rank_bucket_full : Prop :=
  ∀ (interp : XR → XR → XR → XR) (h : NHist XR), GoodInterp interp → ConsistentHist h → h.custom = false →
    ∀ q : Rat, 0 ≤ q → q ≤ 1 →
      ∃ b ∈ h.fwd, ∃ v, evalHQ interp (histogramQuantile (.fin q) h) = .fin v ∧
        XR.le (if XR.lt b.lower (.fin 0) && XR.lt (.fin 0) b.upper && h.nNeg = 0 && h.nPos > 0 then .fin 0 else b.lower) (.fin v) = true ∧
        XR.le (.fin v) (if XR.lt b.lower (.fin 0) && XR.lt (.fin 0) b.upper && h.nPos = 0 && h.nNeg > 0 then .fin 0 else b.upper) = true

/-- The native quantile lies within the (adjusted) bounds of THE RANK BUCKET: the histogram's buckets split as
    `pre ++ b :: rem` where `b` is non-empty and the cumulative count `S` of `pre` satisfies
    `S ≤ q·Count ≤ S + b.count`; the result is a number between `b`'s bounds (the zero bucket cut at 0 when the
    histogram has no negative resp. no positive buckets).  Custom-bucket histograms included. -/
theorem histQuantile_in_rank_bucket (interp : XR → XR → XR → XR) (h : NHist XR) (G : GoodInterp interp)
    (C : ConsistentHist h) (q : Rat) (h0 : 0 ≤ q) (h1 : q ≤ 1) :
    ∃ pre b rem S c N, h.fwd = pre ++ b :: rem ∧ h.count = .fin N ∧ sumCounts (.fin 0) pre = .fin S ∧ b.count = .fin c ∧
      0 < c ∧ S ≤ q * N ∧ q * N ≤ S + c ∧
      ∃ v, evalHQ interp (histogramQuantile (.fin q) h) = .fin v ∧
        XR.le (if !h.custom && XR.lt b.lower (.fin 0) && XR.lt (.fin 0) b.upper && h.nNeg = 0 && h.nPos > 0 then .fin 0 else b.lower) (.fin v) = true ∧
        XR.le (.fin v) (if !h.custom && XR.lt b.lower (.fin 0) && XR.lt (.fin 0) b.upper && h.nPos = 0 && h.nNeg > 0 then .fin 0 else b.upper) = true := by
  obtain ⟨L, N, R, _⟩ := C.rhist
  show ∃ pre b rem S c N, h.fwd = pre ++ b :: rem ∧ h.count = .fin N ∧ sumCounts (.fin 0) pre = .fin S ∧ b.count = .fin c ∧
      0 < c ∧ S ≤ q * N ∧ q * N ≤ S + c ∧
      ∃ v, evalHQ interp (histogramQuantileWith repoFixedC32F1 (.fin q) h) = .fin v ∧ _ ∧ _
  obtain ⟨pre, b, rem, P, v, ev, lo, hi⟩ := hq_in_bucket_core interp G repoFixedC32F1 R (nanSumOk_repo h) q h0 h1
  refine ⟨pre.map RB.toN, b.toN, rem.map RB.toN, 0 + total pre, b.c, N, ?_, R.count, sumCounts_map pre 0, rfl, P.cpos,
    by have := P.lo; grind, by have := P.hi; grind, v, by rw [evalHQ_eq_evalR]; exact ev, ?_, ?_⟩
  · rw [R.fwd, P.split]; simp
  · unfold adjLo at lo
    simp only [RB.toN, XR.lt_fin]
    split at lo <;> rename_i hc
    · have : (!h.custom && decide (b.l < 0) && decide (0 < b.u) && decide (h.nNeg = 0) && decide (h.nPos > 0)) = true := by
        simpa [Bool.and_assoc] using hc
      simp only [this, ↓reduceIte, XR.le_fin]; simpa using lo
    · have : ¬ (!h.custom && decide (b.l < 0) && decide (0 < b.u) && decide (h.nNeg = 0) && decide (h.nPos > 0)) = true := by
        simpa [Bool.and_assoc] using hc
      simp only [this, ↓reduceIte, XR.le_fin]; simpa using lo
  · unfold adjHi at hi
    simp only [RB.toN, XR.lt_fin]
    by_cases hc : (!h.custom && decide (b.l < 0) && decide (0 < b.u) && decide (h.nPos = 0) && decide (h.nNeg > 0)) = true
    · have hc' : (!h.custom && decide (b.l < 0) && decide (0 < b.u) && !(decide (h.nNeg = 0) && decide (h.nPos > 0)) &&
          (decide (h.nPos = 0) && decide (h.nNeg > 0))) = true := by
        simp only [Bool.and_eq_true, decide_eq_true_eq, Bool.not_eq_true', Bool.and_eq_false_iff, decide_eq_false_iff_not] at hc ⊢
        refine ⟨⟨⟨⟨hc.1.1.1.1, hc.1.1.1.2⟩, hc.1.1.2⟩, ?_⟩, hc.1.2, hc.2⟩
        right; omega
      rw [if_pos hc'] at hi
      simp only [hc, ↓reduceIte, XR.le_fin]; simpa using hi
    · have hc' : ¬ (!h.custom && decide (b.l < 0) && decide (0 < b.u) && !(decide (h.nNeg = 0) && decide (h.nPos > 0)) &&
          (decide (h.nPos = 0) && decide (h.nNeg > 0))) = true := by
        intro hh
        apply hc
        simp only [Bool.and_eq_true, decide_eq_true_eq, Bool.not_eq_true', Bool.and_eq_false_iff, decide_eq_false_iff_not] at hh ⊢
        exact ⟨⟨⟨hh.1.1.1, hh.1.1.2⟩, hh.2.1⟩, hh.2.2⟩
      rw [if_neg hc'] at hi
      simp only [hc, ↓reduceIte, XR.le_fin]; simpa using hi

theorem histQuantile_in_rank_bucket_full_holds : histQuantile_in_rank_bucket_full := by
  intro interp h G C hcu q h0 h1
  obtain ⟨pre, b, rem, S, c, N, e, _, _, _, _, _, _, v, ev, lo, hi⟩ := histQuantile_in_rank_bucket interp h G C q h0 h1
  refine ⟨b, by rw [e]; simp, v, ev, ?_, ?_⟩
  · simpa [hcu] using lo
  · simpa [hcu] using hi

/-- the linear interpolant is a `GoodInterp` -/
def linInterp : XR → XR → XR → XR := fun l u f => XR.add l (XR.mul (XR.sub u l) f)

example : GoodInterp linInterp := by
  intro l u f1 f2 hlu h0 h12 h1
  refine ⟨_, _, rfl, rfl, (interp_bounds hlu h0 (by grind)).1, interp_mono hlu h12, (interp_bounds hlu (by grind) h1).2⟩

/-- a consistent histogram: negative bucket, zero bucket, an empty bucket and two positive buckets -/
def exHist : NHist XR :=
  { custom := false, count := .fin 6, sum := .fin 7, nNeg := 1, nPos := 3,
    fwd := [⟨.fin (-2), .fin (-1), .fin 1⟩, ⟨.fin (-1/2), .fin (1/2), .fin 2⟩, ⟨.fin 1, .fin 2, .fin 0⟩, ⟨.fin 2, .fin 4, .fin 3⟩],
    rev := [⟨.fin 2, .fin 4, .fin 3⟩, ⟨.fin 1, .fin 2, .fin 0⟩, ⟨.fin (-1/2), .fin (1/2), .fin 2⟩, ⟨.fin (-2), .fin (-1), .fin 1⟩] }

example : ConsistentHist exHist := by
  refine ⟨rfl, ⟨6, rfl, by decide, by decide +kernel⟩, ?_, ?_⟩
  · intro b hb
    simp [exHist] at hb
    rcases hb with rfl | rfl | rfl | rfl
    · exact ⟨_, _, _, rfl, rfl, rfl, by decide +kernel, by decide +kernel⟩
    · exact ⟨_, _, _, rfl, rfl, rfl, by decide +kernel, by decide +kernel⟩
    · exact ⟨_, _, _, rfl, rfl, rfl, by decide +kernel, by decide +kernel⟩
    · exact ⟨_, _, _, rfl, rfl, rfl, by decide +kernel, by decide +kernel⟩
  · simp only [exHist, List.pairwise_cons, List.mem_cons, List.not_mem_nil, or_false, false_imp_iff, forall_eq_or_imp,
      forall_eq, List.Pairwise.nil, and_true, implies_true]
    decide +kernel

/-- Finding F-C32-1 at model level — for the code AS FOUND (`fixed = false`) the hypothesis `Sum ≠ NaN` of
    `NanSumOk false` is needed: on this consistent histogram with finite bounds and Sum = NaN the NaN-detection loop
    overwrites `bucket` with the last bucket of the iteration; q = 1/4 ↦ 3 but q = 5/8 ↦ 5/2.  The repaired code is
    monotone on it (`histQuantile_mono`). -/
def nanSumFinHist : NHist XR :=
  { custom := true, count := .fin 4, sum := .nan, nNeg := 0, nPos := 3,
    fwd := [⟨.fin 0, .fin 1, .fin 1⟩, ⟨.fin 1, .fin 2, .fin 1⟩, ⟨.fin 2, .fin 4, .fin 2⟩],
    rev := [⟨.fin 2, .fin 4, .fin 2⟩, ⟨.fin 1, .fin 2, .fin 1⟩, ⟨.fin 0, .fin 1, .fin 1⟩] }

theorem histQuantile_nan_sum_witness :
    ConsistentHist nanSumFinHist ∧
    evalHQ linInterp (histogramQuantileWith false (.fin (1/4)) nanSumFinHist) = .fin 3 ∧
    evalHQ linInterp (histogramQuantileWith false (.fin (5/8)) nanSumFinHist) = .fin (5/2) := by
  refine ⟨⟨rfl, ⟨4, rfl, by decide, by decide +kernel⟩, ?_, ?_⟩, by decide +kernel, by decide +kernel⟩
  · intro b hb
    simp [nanSumFinHist] at hb
    rcases hb with rfl | rfl | rfl
    · exact ⟨_, _, _, rfl, rfl, rfl, by decide +kernel, by decide +kernel⟩
    · exact ⟨_, _, _, rfl, rfl, rfl, by decide +kernel, by decide +kernel⟩
    · exact ⟨_, _, _, rfl, rfl, rfl, by decide +kernel, by decide +kernel⟩
  · simp only [nanSumFinHist, List.pairwise_cons, List.mem_cons, List.not_mem_nil, or_false, false_imp_iff, forall_eq_or_imp,
      forall_eq, List.Pairwise.nil, and_true, implies_true]
    decide +kernel

/-- Finding F-C32-3 at model level — the hypothesis "all bounds finite" is needed: a custom-bucket histogram
    whose only bucket is (-Inf, +Inf] gives NaN for q = 0 and +Inf for q = 1. -/
def noFiniteBoundHist : NHist XR :=
  { custom := true, count := .fin 1, sum := .fin 1, nNeg := 0, nPos := 1,
    fwd := [⟨.ninf, .pinf, .fin 1⟩], rev := [⟨.ninf, .pinf, .fin 1⟩] }

theorem histQuantile_no_finite_bound_witness :
    evalHQ linInterp (histogramQuantile (.fin 0) noFiniteBoundHist) = .nan ∧
    evalHQ linInterp (histogramQuantile (.fin 1) noFiniteBoundHist) = .pinf := by
  constructor <;> decide +kernel

/-- The hypothesis "Count = sum of the bucket counts" of `ConsistentHist` is needed as well: when Count exceeds
    what the buckets hold and the rank lies beyond them, the code falls back to `bucket.Upper` of the LAST ITERATED
    bucket — the highest bucket under forward iteration (q < 1/2) but the LOWEST one under reverse iteration
    (q ≥ 1/2), although the comment in quantile.go says "upper bound of the highest explicit bucket":
    q = 2/5 ↦ 2, q = 1/2 ↦ 1. -/
def inconsistentCountHist : NHist XR :=
  { custom := true, count := .fin 10, sum := .fin 3, nNeg := 0, nPos := 2,
    fwd := [⟨.fin 0, .fin 1, .fin 1⟩, ⟨.fin 1, .fin 2, .fin 1⟩],
    rev := [⟨.fin 1, .fin 2, .fin 1⟩, ⟨.fin 0, .fin 1, .fin 1⟩] }

theorem histQuantile_inconsistent_count_witness :
    evalHQ linInterp (histogramQuantile (.fin (2/5)) inconsistentCountHist) = .fin 2 ∧
    evalHQ linInterp (histogramQuantile (.fin (1/2)) inconsistentCountHist) = .fin 1 := by
  constructor <;> decide +kernel

/-- quantiles outside [0,1] and NaN: -Inf below 0, +Inf above 1, NaN for NaN — classic and native alike,
    whatever the buckets are -/
theorem quantile_special_cases (almost : XR → XR → Bool) (buckets : List (Bucket XR)) (h : NHist XR) (q : Rat) :
    bucketQuantileWith almost .nan buckets = .ok ⟨.nan, zeroInfo⟩ ∧
    (q < 0 → bucketQuantileWith almost (.fin q) buckets = .ok ⟨.ninf, zeroInfo⟩) ∧
    (1 < q → bucketQuantileWith almost (.fin q) buckets = .ok ⟨.pinf, zeroInfo⟩) ∧
    (q < 0 → evalHQ linInterp (histogramQuantile (.fin q) h) = .ninf) ∧
    (1 < q → evalHQ linInterp (histogramQuantile (.fin q) h) = .pinf) ∧
    evalHQ linInterp (histogramQuantile .nan h) = .nan := by
  refine ⟨by simp [bucketQuantileWith, XR.isNaN], ?_, ?_, ?_, ?_, ?_⟩
  · intro hq; simp [bucketQuantileWith, XR.isNaN, hq]
  · intro hq
    have : ¬ q < 0 := by grind
    simp [bucketQuantileWith, XR.isNaN, hq, this]
  · intro hq; simp [histogramQuantile, histogramQuantileWith, hq, evalHQ]
  · intro hq
    have : ¬ q < 0 := by grind
    simp [histogramQuantile, histogramQuantileWith, hq, this, evalHQ]
  · simp [histogramQuantile, histogramQuantileWith, XR.lt, XR.isNaN, evalHQ]

/-- the statement: fraction ∈ [0,1] and monotone under interval nesting (`fb` = exponential in-bucket fraction,
    any function with values in [0,1] that is monotone in `v`) -/
def fraction_in_unit_and_mono_full : Prop :=
  ∀ (fb : XR → XR → XR → XR) (h : NHist XR), ConsistentHist h →
    (∀ l u v1 v2 : Rat, l < v1 → v1 ≤ v2 → v2 < u → ∃ f1 f2, fb (.fin l) (.fin u) (.fin v1) = .fin f1 ∧
        fb (.fin l) (.fin u) (.fin v2) = .fin f2 ∧ 0 ≤ f1 ∧ f1 ≤ f2 ∧ f2 ≤ 1) →
    ∀ lo1 up1 lo2 up2 : Rat, lo2 ≤ lo1 → lo1 ≤ up1 → up1 ≤ up2 →
      ∃ f1 f2, histogramFraction fb (.fin lo1) (.fin up1) h = .fin f1 ∧ histogramFraction fb (.fin lo2) (.fin up2) h = .fin f2 ∧
        0 ≤ f1 ∧ f1 ≤ f2 ∧ f2 ≤ 1

/-- `HistogramFraction` of a consistent native histogram is a number in [0,1] and grows when the interval grows.
    Proof: the loop ranks the two bounds independently (`hfLoop_split`, for every float type), each rank is the
    monotone cumulative count `rankT` with values in [0, Count] (`rankT_mono`), and the result is
    `(rank(up) - rank(lo)) / Count` (`hf_val`). -/
theorem fraction_in_unit_and_mono : fraction_in_unit_and_mono_full := by
  intro fb h C FBm lo1 up1 lo2 up2 h1 h2 h3
  obtain ⟨L, N, R, _⟩ := C.rhist
  exact fraction_core fb R FBm lo1 up1 lo2 up2 h1 h2 h3

/-- The same with bounds in the EXTENDED reals — `histogram_fraction(-Inf, x, …)`, `(x, +Inf, …)`, `(-Inf, +Inf, …)`:
    for all non-NaN bounds `lo2 ≤ lo1 ≤ up1 ≤ up2` (order of `XR.le`) both fractions are numbers in [0,1] and the
    fraction of the larger interval is at least the fraction of the smaller one. -/
theorem fraction_in_unit_and_mono_ext (fb : XR → XR → XR → XR) (h : NHist XR) (C : ConsistentHist h)
    (FBm : ∀ l u v1 v2 : Rat, l < v1 → v1 ≤ v2 → v2 < u → ∃ f1 f2, fb (.fin l) (.fin u) (.fin v1) = .fin f1 ∧
        fb (.fin l) (.fin u) (.fin v2) = .fin f2 ∧ 0 ≤ f1 ∧ f1 ≤ f2 ∧ f2 ≤ 1)
    (lo1 up1 lo2 up2 : XR) (n1 : lo1 ≠ .nan) (n2 : up1 ≠ .nan) (n3 : lo2 ≠ .nan) (n4 : up2 ≠ .nan)
    (h1 : XR.le lo2 lo1 = true) (h2 : XR.le lo1 up1 = true) (h3 : XR.le up1 up2 = true) :
    ∃ f1 f2, histogramFraction fb lo1 up1 h = .fin f1 ∧ histogramFraction fb lo2 up2 h = .fin f2 ∧
      0 ≤ f1 ∧ f1 ≤ f2 ∧ f2 ≤ 1 := by
  obtain ⟨L, N, R, _⟩ := C.rhist
  exact fraction_coreX fb R FBm lo1 up1 lo2 up2 n1 n2 n3 n4 h1 h2 h3

example : XR.le .ninf (.fin (-1)) = true ∧ XR.le (.fin (-1)) (.fin 3) = true ∧ XR.le (.fin 3) .pinf = true := by decide +kernel

/-- the linear in-bucket fraction satisfies the hypothesis on `fb`; `exHist` (above) is a consistent histogram -/
example : ∀ l u v1 v2 : Rat, l < v1 → v1 ≤ v2 → v2 < u →
    ∃ f1 f2, (fun l u v => XR.div (XR.sub v l) (XR.sub u l)) (.fin l) (.fin u) (.fin v1) = .fin f1 ∧
      (fun l u v => XR.div (XR.sub v l) (XR.sub u l)) (.fin l) (.fin u) (.fin v2) = .fin f2 ∧ 0 ≤ f1 ∧ f1 ≤ f2 ∧ f2 ≤ 1 := by
  intro l u v1 v2 a b c
  have hw : 0 < u - l := by grind
  have hne : u - l ≠ 0 := by grind
  exact ⟨(v1 - l) / (u - l), (v2 - l) / (u - l), by simp [XR.div_fin _ _ hne], by simp [XR.div_fin _ _ hne],
    rat_div_nonneg (by grind) hw, rat_div_mono (by grind) hw, rat_div_le_one (by grind) hw⟩

/-! ## the two native functions describe the same distribution -/

/-- `interp` (quantile side) and `fb` (fraction side) are inverse to each other inside a bucket: abstraction of the
    exp2/log2 pair of promql/quantile.go and `Bucket.FractionBelow` -/
def InverseInterp (interp fb : XR → XR → XR → XR) : Prop :=
  ∀ l u f : Rat, l < u → 0 ≤ f → f ≤ 1 → ∃ v, interp (.fin l) (.fin u) (.fin f) = .fin v ∧
    (f = 0 → v = l) ∧ (f = 1 → v = u) ∧ (0 < f → f < 1 → l < v ∧ v < u ∧ fb (.fin l) (.fin u) (.fin v) = .fin f)

/-- both functions see the same bucket bounds: positive width, and a bucket whose closed range contains 0 belongs
    to a non-custom histogram and has 0 in its interior (the "zero bucket" cut of both functions then coincides) -/
def AgreeingBounds (h : NHist XR) : Prop :=
  ∀ b ∈ h.fwd, XR.lt b.lower b.upper = true ∧
    (XR.le b.lower (.fin 0) = true → XR.le (.fin 0) b.upper = true →
      h.custom = false ∧ XR.lt b.lower (.fin 0) = true ∧ XR.lt (.fin 0) b.upper = true)

/-- `histogram_fraction(-Inf, histogram_quantile(q, h), h) = q` for every q in [0,1]: the quantile returned for `q` is
    a value below which exactly the fraction `q` of the observations lies, as `HistogramFraction` counts them —
    EXACTLY, in rational arithmetic, including ranks on bucket boundaries and across the forward/reverse switch.
    Hypotheses: consistent histogram, inverse in-bucket interpolants, `AgreeingBounds`.  The last one cannot be
    dropped: `fraction_quantile_custom_zero_witness` (real-code behaviour for custom buckets that contain 0). -/
theorem fraction_of_quantile (interp fb : XR → XR → XR → XR) (h : NHist XR) (C : ConsistentHist h)
    (FBm : ∀ l u v1 v2 : Rat, l < v1 → v1 ≤ v2 → v2 < u → ∃ f1 f2, fb (.fin l) (.fin u) (.fin v1) = .fin f1 ∧
        fb (.fin l) (.fin u) (.fin v2) = .fin f2 ∧ 0 ≤ f1 ∧ f1 ≤ f2 ∧ f2 ≤ 1)
    (II : InverseInterp interp fb) (A : AgreeingBounds h) (q : Rat) (h0 : 0 ≤ q) (h1 : q ≤ 1) :
    ∃ v, evalHQ interp (histogramQuantile (.fin q) h) = .fin v ∧ histogramFraction fb .ninf (.fin v) h = .fin q := by
  obtain ⟨L, N, R, PW⟩ := C.rhist
  have AL : ∀ b ∈ L, aLo h b < aHi h b ∧ adjLo h b = aLo h b ∧ adjHi h b = aHi h b := by
    intro b hb
    have hm : b.toN ∈ h.fwd := by rw [R.fwd]; exact List.mem_map_of_mem hb
    obtain ⟨a1, a2⟩ := A b.toN hm
    apply agree_of
    simp only [RB.toN, XR.lt_fin, XR.le_fin, decide_eq_true_eq] at a1 a2
    exact ⟨a1, a2⟩
  simp only [evalHQ_eq_evalR]
  show ∃ v, evalR interp (histogramQuantileWith repoFixedC32F1 (.fin q) h) = .fin v ∧ _
  exact fraction_of_quantile_core interp fb repoFixedC32F1 R (nanSumOk_repo h) PW FBm II (fun b hb => (AL b hb).1) (fun b hb => (AL b hb).2) q h0 h1

/-- linear interpolation and the linear fraction are inverse to each other; `exHist` has agreeing bounds -/
example : InverseInterp linInterp (fun l u v => XR.div (XR.sub v l) (XR.sub u l)) := by
  intro l u f hlu h0 h1
  have hw : u - l ≠ 0 := by grind
  refine ⟨l + (u - l) * f, rfl, ?_, ?_, ?_⟩
  · intro e; rw [e]; grind
  · intro e; rw [e]; grind
  · intro p1 p2
    have m1 : 0 < (u - l) * f := Rat.mul_pos (by grind) p1
    have m2 : (u - l) * f < (u - l) * 1 := Rat.mul_lt_mul_of_pos_left p2 (by grind)
    refine ⟨by grind, by grind, ?_⟩
    have : l + (u - l) * f - l = (u - l) * f := by grind
    simp only [XR.sub_fin, XR.div_fin _ _ hw, this, rat_mul_div_cancel hw]

example : AgreeingBounds exHist := by
  intro b hb
  simp [exHist] at hb
  rcases hb with rfl | rfl | rfl | rfl <;> decide +kernel

/-- NEW FINDING at model level (reproduced against promql.HistogramFraction): a CUSTOM-bucket histogram whose bucket
    (-5, 5] contains 0.  `HistogramFraction` applies the exponential "zero bucket" cut (`b.Lower = 0` because there
    are no negative buckets) to it — `HistogramQuantile` guards the same cut with `!h.UsesCustomBuckets()` — so all
    observations of the bucket are counted in [0, 5]: histogram_quantile(1/4) = -5/2, but
    histogram_fraction(-Inf, -5/2) = 0 instead of 1/4 and histogram_fraction(-5, 0) = 0 instead of 1/2. -/
def customZeroHist : NHist XR :=
  { custom := true, count := .fin 4, sum := .fin (-12), nNeg := 0, nPos := 3,
    fwd := [⟨.fin (-10), .fin (-5), .fin 0⟩, ⟨.fin (-5), .fin 5, .fin 4⟩, ⟨.fin 5, .fin 10, .fin 0⟩],
    rev := [⟨.fin 5, .fin 10, .fin 0⟩, ⟨.fin (-5), .fin 5, .fin 4⟩, ⟨.fin (-10), .fin (-5), .fin 0⟩] }

theorem fraction_quantile_custom_zero_witness :
    evalHQ linInterp (histogramQuantile (.fin (1/4)) customZeroHist) = .fin (-5/2) ∧
    histogramFraction (fun l u v => XR.div (XR.sub v l) (XR.sub u l)) .ninf (.fin (-5/2)) customZeroHist = .fin 0 ∧
    histogramFraction (fun l u v => XR.div (XR.sub v l) (XR.sub u l)) (.fin (-5)) (.fin 0) customZeroHist = .fin 0 := by
  refine ⟨?_, ?_, ?_⟩ <;> decide +kernel
/-! ### Finding F-C32-1 (NaN-sum histograms) and its repair

`repoFixedC32F1` (PromModel/Promql/Quantile.lean) says which variant /repo currently is; the theorems
below are about the switch-parameterised `hqFinish` / `histogramQuantileWith`, so they hold for both. -/

/-- custom-bucket histogram (-Inf,1] (1,2] (2,4] with 1, 1, 2 observations, Count 4, Sum NaN -/
def nanSumHist : NHist XR :=
  { custom := true, count := .fin 4, sum := .nan, nNeg := 0, nPos := 3,
    fwd := [⟨.ninf, .fin 1, .fin 1⟩, ⟨.fin 1, .fin 2, .fin 1⟩, ⟨.fin 2, .fin 4, .fin 2⟩],
    rev := [⟨.fin 2, .fin 4, .fin 2⟩, ⟨.fin 1, .fin 2, .fin 1⟩, ⟨.ninf, .fin 1, .fin 1⟩] }

def noInterp : XR → XR → XR → XR := fun _ _ _ => .nan

/-- Finding F-C32-1 (the code as found): on `nanSumHist` the quantiles 1/4 and 3/8 are interpolated in
    the LAST bucket (2,4] instead of their rank buckets (-Inf,1] and (1,2]: 3 and 5/2 — outside the rank
    bucket and decreasing in q.  The repaired code gives 1 and 3/2. -/
theorem histQuantile_nansum_last_bucket_witness :
    evalHQ noInterp (histogramQuantileWith false (.fin (1/4)) nanSumHist) = .fin 3 ∧
    evalHQ noInterp (histogramQuantileWith false (.fin (3/8)) nanSumHist) = .fin (5/2) ∧
    evalHQ noInterp (histogramQuantileWith true (.fin (1/4)) nanSumHist) = .fin 1 ∧
    evalHQ noInterp (histogramQuantileWith true (.fin (3/8)) nanSumHist) = .fin (3/2) := by
  refine ⟨?_, ?_, ?_, ?_⟩ <;> decide +kernel

/-- Repaired code (`fixes/F-C32-1.patch`): what `HistogramQuantile` returns is determined by the rank
    bucket and the count reached there; the buckets the iterator has not yielded yet have no influence. -/
theorem histQuantile_fixed_ignores_later_buckets (h : NHist XR) (fwdDir : Bool) (rank : XR) (bucket : NBucket XR)
    (count : XR) (remaining : List (NBucket XR)) :
    hqFinish true h fwdDir rank bucket count remaining = hqFinish true h fwdDir rank bucket count [] := by
  simp [hqFinish]

/-- …whereas in the code as found they do (same rank bucket, same count, different answer). -/
theorem histQuantile_unfixed_depends_on_later_buckets_witness :
    evalHQ noInterp (hqFinish false nanSumHist true (.fin 1) ⟨.ninf, .fin 1, .fin 1⟩ (.fin 1)
        [⟨.fin 1, .fin 2, .fin 1⟩, ⟨.fin 2, .fin 4, .fin 2⟩]) = .fin 3 ∧
    evalHQ noInterp (hqFinish false nanSumHist true (.fin 1) ⟨.ninf, .fin 1, .fin 1⟩ (.fin 1) []) = .fin 1 := by
  constructor <;> decide +kernel

/-- The repair changes nothing for histograms whose Sum is not NaN. -/
theorem histQuantile_fix_only_nansum (q : XR) (h : NHist XR) (hs : XR.isNaN h.sum = false) :
    histogramQuantileWith true q h = histogramQuantileWith false q h := by
  have e : ∀ d r b c rem, hqFinish true h d r b c rem = hqFinish false h d r b c rem := by
    intro d r b c rem
    simp [hqFinish, FOps.isNaN, hs]
  simp [histogramQuantileWith, e]

example : XR.isNaN ({ nanSumHist with sum := .fin 7 } : NHist XR).sum = false := rfl

/-! ## histogram_count / histogram_sum / histogram_avg -/

/-- count, sum and their ratio; the average of a histogram with finite sum and non-zero finite count
    is the exact quotient. -/
theorem count_sum_avg_spec (h : NHist XR) :
    histCount h = h.count ∧ histSum h = h.sum ∧
    (∀ s c : Rat, h.sum = .fin s → h.count = .fin c → c ≠ 0 → histAvg h = .fin (s / c)) := by
  refine ⟨rfl, rfl, ?_⟩
  intro s c hs hc hne
  simp [histAvg, hs, hc, XR.div_fin _ _ hne]

end Prom.C32
