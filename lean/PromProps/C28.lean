import PromModel.Promql.Selectors
import PromModel.Suites.SelSuite
import PromProofs.SelectorsMemo
import PromProofs.SelectorsSub
/-
  C28 — Selectors implement lookback, staleness and range windows.

  The model (PromModel/Promql/Selectors.lean) transcribes the engine's *strategy*: the forward-only
  MemoizedSeriesIterator under vectorSelectorSingle, the BufferedSeriesIterator / sampleRing and the window reuse
  of matrixIterSlice, subqueryTimeRange, setOffsetForAtModifier and getTimeRangesForSelector.  The theorems say
  that this strategy computes the documented windows, for every series with strictly increasing timestamps.
-/
namespace Prom.C28
open Prom.Selectors

/-! ### instant selectors -/

/-- An instant selector evaluated at `t` (shifted by `offset`, fixed by `@`) yields exactly the documented
    sample: `instantSpec` = the latest sample at or before `t'`, if it lies in `(t' - lookback, t']` and is
    not a staleness marker (see `instant_spec_iff` for the statement without auxiliary definitions). -/
theorem instant_spec (series : Series) (t lb off : Int) (atT : Option Int)
    (hs : Sorted series) (hlb : 0 < lb) :
    instantSel series t lb off atT = instantSpec series (refTime t off atT) lb := by
  unfold instantSel
  exact (vsSingle_spec (r := refTime t off atT) hs hlb (by simp [Memo.init]; omega)
    (MInv_init series lb _) (Int.le_refl _)).1

/-- The documented statement itself: `instantSel` returns `s` iff `s` is a sample of the series in
    `(t' - lookback, t']`, no sample of the series lies in `(s.t, t']`, and `s` is not a staleness marker. -/
theorem instant_spec_iff (series : Series) (t lb off : Int) (atT : Option Int) (s : Sample)
    (hs : Sorted series) (hlb : 0 < lb) :
    instantSel series t lb off atT = some s ↔
      s ∈ series ∧ refTime t off atT - lb < s.t ∧ s.t ≤ refTime t off atT ∧ s.stale = false ∧
        ∀ x ∈ series, x.t ≤ refTime t off atT → x.t ≤ s.t := by
  rw [instant_spec series t lb off atT hs hlb]
  exact instantSpec_iff hs _ _ _

example : instantSel [⟨10, false, false, 1⟩, ⟨20, false, true, 2⟩, ⟨30, true, false, 3⟩] 25 15 0 none = none := by decide
example : instantSel [⟨10, false, false, 1⟩, ⟨20, false, true, 2⟩, ⟨30, true, false, 3⟩] 25 15 6 none
    = some ⟨10, false, false, 1⟩ := by decide
example : Sorted [⟨10, false, false, 1⟩, ⟨20, false, true, 2⟩, ⟨30, true, false, 3⟩] := by decide

/-- The memoized iterator is only ever sought forward; stepping it through any nondecreasing sequence of
    reference times (the range-query strategy of `evalSeries`, `delta = lookback`, and of
    `timestamp()`, `delta = lookback - 1`) yields at every step what a fresh evaluation yields. -/
theorem memoized_seek_mono (series : Series) (lb delta : Int) (refs : List Int)
    (hs : Sorted series) (hlb : 0 < lb) (hd : lb - 1 ≤ delta) (hmono : refs.Pairwise (· ≤ ·)) :
    evalSteps lb (Memo.init series delta) refs = refs.map (fun r => instantSpec series r lb) := by
  cases refs with
  | nil => rfl
  | cons a rest =>
    have hpw := List.pairwise_cons.mp hmono
    refine evalSteps_spec hs hlb (a :: rest) (Memo.init series delta) a (by simpa [Memo.init] using hd)
      (MInv_init series delta a) ?_ hmono
    intro x hx
    rcases List.mem_cons.mp hx with rfl | hx
    · exact Int.le_refl _
    · exact hpw.1 x hx

/-- ... in particular step by step equal to independent instant evaluations. -/
theorem memoized_steps_eq_instant (series : Series) (lb : Int) (refs : List Int)
    (hs : Sorted series) (hlb : 0 < lb) (hmono : refs.Pairwise (· ≤ ·)) :
    evalSteps lb (Memo.init series lb) refs = refs.map (fun r => instantSel series r lb 0 none) := by
  rw [memoized_seek_mono series lb lb refs hs hlb (by omega) hmono]
  apply List.map_congr_left
  intro r _
  rw [instant_spec series r lb 0 none hs hlb]
  simp [refTime]

/-- A memoization window shorter than `lookback - 1` is *not* enough (the hypothesis of `memoized_seek_mono`
    is sharp): the sample 3 ms back is inside a 5 ms lookback but a `delta = 1` iterator has forgotten it. -/
theorem memoized_small_delta_witness :
    evalSteps 5 (Memo.init [⟨10, false, false, 1⟩, ⟨20, false, false, 2⟩] 1) [13]
      ≠ [instantSpec [⟨10, false, false, 1⟩, ⟨20, false, false, 2⟩] 13 5] := by decide

/-! ### subquery steps -/

/-- The child evaluator of a subquery evaluates exactly the multiples of the subquery step inside
    `(parentStart - offset - range, alignedParentEnd - offset]`, for all integers including negative times. -/
theorem subquery_steps_spec (pStart pEnd pInterval off range interval : Int) (hi : 0 < interval) (t : Int) :
    t ∈ subquerySteps pStart pEnd pInterval off range interval ↔
      (∃ k, t = interval * k) ∧ pStart - off - range < t ∧
        t ≤ (subqueryTimeRange pStart pEnd pInterval off range interval).2 := by
  unfold subquerySteps
  simp only
  rw [mem_steps hi]
  have hspec := subquery_start_spec (pStart - off - range) interval hi
  simp only at hspec
  obtain ⟨⟨k0, hk0⟩, hlo, hhi⟩ := hspec
  have hstart : (subqueryTimeRange pStart pEnd pInterval off range interval).1 = interval * k0 := by
    rw [← hk0]; rfl
  rw [hstart]
  rw [hk0] at hlo hhi
  constructor
  · rintro ⟨j, rfl, hle⟩
    refine ⟨⟨k0 + j, ?_⟩, ?_, hle⟩
    · rw [Int.mul_add, Int.mul_comm interval (j : Int)]
    · have : 0 ≤ (j : Int) * interval := Int.mul_nonneg (by omega) (by omega)
      omega
  · rintro ⟨⟨k, rfl⟩, hgt, hle⟩
    have hk : k0 ≤ k := by
      by_cases h : k0 ≤ k
      · exact h
      · exfalso
        have h1 : k + 1 ≤ k0 := by omega
        have h2 : interval * (k + 1) ≤ interval * k0 := Int.mul_le_mul_of_nonneg_left h1 (by omega)
        rw [Int.mul_add, Int.mul_one] at h2
        omega
    refine ⟨(k - k0).toNat, ?_, hle⟩
    have : ((k - k0).toNat : Int) = k - k0 := Int.toNat_of_nonneg (by omega)
    rw [this, Int.sub_mul, Int.mul_comm k interval, Int.mul_comm k0 interval]
    omega

/-- the aligned end: the last parent step, shifted by the subquery offset -/
theorem subquery_end_spec (pStart pEnd pInterval off range interval : Int) (hp : 0 < pInterval) (hse : pStart ≤ pEnd) :
    let e := (subqueryTimeRange pStart pEnd pInterval off range interval).2 + off
    (∃ j : Nat, e = pStart + j * pInterval) ∧ e ≤ pEnd ∧ pEnd < e + pInterval := by
  simp only [subqueryTimeRange, hp, if_true]
  have hnn : 0 ≤ pEnd - pStart := by omega
  have hdm := Int.mul_tdiv_add_tmod (pEnd - pStart) pInterval
  have h1 := Int.tmod_nonneg pInterval hnn
  have h2 := Int.tmod_lt_of_pos (pEnd - pStart) hp
  have h3 : 0 ≤ (pEnd - pStart).tdiv pInterval := Int.tdiv_nonneg hnn (by omega)
  rw [Int.mul_comm] at hdm
  refine ⟨⟨((pEnd - pStart).tdiv pInterval).toNat, ?_⟩, ?_, ?_⟩
  · rw [Int.toNat_of_nonneg h3]; omega
  · omega
  · omega

example : subquerySteps (-7) (-7) 1 0 10 5 = [-15, -10] := by decide
example : subquerySteps 1010000 1010000 1 0 10000 3000 = [1002000, 1005000, 1008000] := by decide

end Prom.C28
