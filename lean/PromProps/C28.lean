import PromModel.Promql.Selectors
namespace Prom.C28
open Prom.Selectors

theorem refTime_no_at (ts off : Int) : refTime ts off none = ts - off := rfl

end Prom.C28
