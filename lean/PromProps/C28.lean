import PromModel.Promql.Selectors
import PromModel.Suites.SelSuite
import PromProofs.SelectorsMemo
import PromProofs.SelectorsSub
import PromProofs.SelectorsWin
import PromProofs.SelectorsJudge
import PromProofs.SelectorsHints
/-
  C28 — Selectors implement lookback, staleness and range windows.

  The model (PromModel/Promql/Selectors.lean) transcribes the engine's *strategy*: the forward-only
  MemoizedSeriesIterator under vectorSelectorSingle, the BufferedSeriesIterator / sampleRing and the window reuse
  of matrixIterSlice, subqueryTimeRange, setOffsetForAtModifier and getTimeRangesForSelector.  The theorems say
  that this strategy computes the documented windows, for every series with strictly increasing timestamps.
-/
namespace Prom.C28
open Prom.Selectors

/-! ### instant selectors -/

/-- An instant selector evaluated at `t` (shifted by `offset`, fixed by `@`) yields exactly the documented
    sample: `instantSpec` = the latest sample at or before `t'`, if it lies in `(t' - lookback, t']` and is
    not a staleness marker (see `instant_spec_iff` for the statement without auxiliary definitions). -/
theorem instant_spec (series : Series) (t lb off : Int) (atT : Option Int)
    (hs : Sorted series) (hlb : 0 < lb) :
    instantSel series t lb off atT = instantSpec series (refTime t off atT) lb := by
  unfold instantSel
  exact (vsSingle_spec (r := refTime t off atT) hs hlb (by simp [Memo.init]; omega)
    (MInv_init series lb _) (Int.le_refl _)).1

/-- The documented statement itself: `instantSel` returns `s` iff `s` is a sample of the series in
    `(t' - lookback, t']`, no sample of the series lies in `(s.t, t']`, and `s` is not a staleness marker. -/
theorem instant_spec_iff (series : Series) (t lb off : Int) (atT : Option Int) (s : Sample)
    (hs : Sorted series) (hlb : 0 < lb) :
    instantSel series t lb off atT = some s ↔
      s ∈ series ∧ refTime t off atT - lb < s.t ∧ s.t ≤ refTime t off atT ∧ s.stale = false ∧
        ∀ x ∈ series, x.t ≤ refTime t off atT → x.t ≤ s.t := by
  rw [instant_spec series t lb off atT hs hlb]
  exact instantSpec_iff hs _ _ _

example : instantSel [⟨10, false, false, 1⟩, ⟨20, false, true, 2⟩, ⟨30, true, false, 3⟩] 25 15 0 none = none := by decide
example : instantSel [⟨10, false, false, 1⟩, ⟨20, false, true, 2⟩, ⟨30, true, false, 3⟩] 25 15 6 none
    = some ⟨10, false, false, 1⟩ := by decide
example : Sorted [⟨10, false, false, 1⟩, ⟨20, false, true, 2⟩, ⟨30, true, false, 3⟩] := by decide

/-- The memoized iterator is only ever sought forward; stepping it through any nondecreasing sequence of
    reference times (the range-query strategy of `evalSeries`, `delta = lookback`, and of
    `timestamp()`, `delta = lookback - 1`) yields at every step what a fresh evaluation yields. -/
theorem memoized_seek_mono (series : Series) (lb delta : Int) (refs : List Int)
    (hs : Sorted series) (hlb : 0 < lb) (hd : lb - 1 ≤ delta) (hmono : refs.Pairwise (· ≤ ·)) :
    evalSteps lb (Memo.init series delta) refs = refs.map (fun r => instantSpec series r lb) := by
  cases refs with
  | nil => rfl
  | cons a rest =>
    have hpw := List.pairwise_cons.mp hmono
    refine evalSteps_spec hs hlb (a :: rest) (Memo.init series delta) a (by simpa [Memo.init] using hd)
      (MInv_init series delta a) ?_ hmono
    intro x hx
    rcases List.mem_cons.mp hx with rfl | hx
    · exact Int.le_refl _
    · exact hpw.1 x hx

/-- ... in particular step by step equal to independent instant evaluations. -/
theorem memoized_steps_eq_instant (series : Series) (lb : Int) (refs : List Int)
    (hs : Sorted series) (hlb : 0 < lb) (hmono : refs.Pairwise (· ≤ ·)) :
    evalSteps lb (Memo.init series lb) refs = refs.map (fun r => instantSel series r lb 0 none) := by
  rw [memoized_seek_mono series lb lb refs hs hlb (by omega) hmono]
  apply List.map_congr_left
  intro r _
  rw [instant_spec series r lb 0 none hs hlb]
  simp [refTime]

/-- A memoization window shorter than `lookback - 1` is *not* enough (the hypothesis of `memoized_seek_mono`
    is sharp): the sample 3 ms back is inside a 5 ms lookback but a `delta = 1` iterator has forgotten it. -/
theorem memoized_small_delta_witness :
    evalSteps 5 (Memo.init [⟨10, false, false, 1⟩, ⟨20, false, false, 2⟩] 1) [13]
      ≠ [instantSpec [⟨10, false, false, 1⟩, ⟨20, false, false, 2⟩] 13 5] := by decide

/-! ### range selectors -/

/-- A range selector `[range]` evaluated at `t` (shifted by `offset`, fixed by `@`) yields exactly the
    non-stale samples with `t' - range < T ≤ t'` (left-open, right-closed), floats and histograms apart;
    `winSpec` is literally that filter. -/
theorem range_spec (series : Series) (t range off : Int) (atT : Option Int)
    (hs : Sorted series) (hr : 0 < range) :
    rangeSel series t range off atT
      = winSpec series (refTime t off atT - range) (refTime t off atT) := by
  unfold rangeSel
  simp only
  rw [← winSpec_empty series (refTime t off atT - range)]
  exact (mis_step hs (by simp [BufIter.init] <;> omega) (BInv_init series range _) (Int.le_refl _)
    (by omega) (by omega) (by simp [BufIter.init] <;> omega)).1

/-- membership form of `range_spec` -/
theorem range_spec_mem (series : Series) (t range off : Int) (atT : Option Int) (s : Sample)
    (hs : Sorted series) (hr : 0 < range) :
    (s ∈ (rangeSel series t range off atT).floats ∨ s ∈ (rangeSel series t range off atT).hists) ↔
      s ∈ series ∧ s.stale = false ∧ refTime t off atT - range < s.t ∧ s.t ≤ refTime t off atT := by
  rw [range_spec series t range off atT hs hr]
  simp only [winSpec, List.mem_filter]
  cases s.hist <;> simp <;> grind

example : rangeSel [⟨10, false, false, 1⟩, ⟨20, false, true, 2⟩, ⟨30, true, false, 3⟩, ⟨40, false, false, 4⟩] 40 30 0 none
    = ⟨[⟨40, false, false, 4⟩], [⟨30, true, false, 3⟩]⟩ := by decide

/-- The incremental strategy of range queries: for any sequence of windows whose ends advance (`maxt`
    strictly — the sought sample is appended without a duplicate check), evaluated on ONE buffered iterator
    with the previous window passed back in and `ReduceDelta(red)` after non-empty steps, every window equals
    the from-scratch window, provided the ring reaches back far enough: `maxt₀ - D ≤ mint₀` for the first
    window and `maxt' - red ≤ max(mint', maxt)` afterwards (`chainOK`). Floats and histograms (mixed series,
    `mintFloats`/`mintHistograms` split) are covered by the same statement. -/
theorem matrix_window_inv (series : Series) (D red mint0 maxt0 : Int) (ws : List (Int × Int))
    (hs : Sorted series) (hred : 0 ≤ red) (hD : red ≤ D) (h0 : mint0 < maxt0) (hD0 : maxt0 - D ≤ mint0)
    (hch : chainOK red mint0 maxt0 ws) :
    runWindows red (BufIter.init series D) Win.empty ((mint0, maxt0) :: ws)
      = ((mint0, maxt0) :: ws).map (fun w => winSpec series w.1 w.2) := by
  obtain ⟨m1, m2, m3⟩ := mis_step (mint_p := mint0) (r := mint0) (mint := mint0) (maxt := maxt0) hs
    (show 0 ≤ (BufIter.init series D).delta by simp [BufIter.init]; omega) (BInv_init series D mint0)
    (Int.le_refl _) h0 h0 (by simp [BufIter.init]; omega)
  rw [winSpec_empty] at m1 m2 m3
  simp only [runWindows, List.map_cons]
  rw [m1]
  congr 1
  split
  · exact runWindows_spec hs red hred ws _ mint0 maxt0 m2 (by rw [m3]; simpa [BufIter.init] using hD) hch
  · refine runWindows_spec hs red hred ws _ mint0 maxt0 (reduceDelta_inv red m2) ?_ hch
    unfold BufIter.reduceDelta
    split
    · rw [m3]; simpa [BufIter.init] using hD
    · exact Int.le_refl _

theorem chainOK_steps (R off interval : Int) (hR : 0 < R) (hi : 0 < interval) :
    ∀ (n : Nat) (s : Int), chainOK (min R interval) (s - off - R) (s - off)
      ((stepsFrom (s + interval) interval n).map fun ts => (ts - off - R, ts - off)) := by
  intro n
  induction n with
  | zero => intro s; simp [stepsFrom, chainOK]
  | succ n ih =>
    intro s
    simp only [stepsFrom, List.map_cons, chainOK]
    refine ⟨by omega, by omega, by omega, by omega, ih (s + interval)⟩

/-- The engine's range-vector function loop (buffer of `selRange`, steps `start, start+interval, …`,
    `ReduceDelta(min(selRange, interval))`): at every step the reused window is the documented window. -/
theorem range_loop_spec (series : Series) (R off start end_ interval : Int)
    (hs : Sorted series) (hR : 0 < R) (hi : 0 < interval) :
    rangeLoop series R off start end_ interval
      = (steps start end_ interval).map (fun ts => winSpec series (ts - off - R) (ts - off)) := by
  unfold rangeLoop steps
  cases numSteps start end_ interval with
  | zero => rfl
  | succ n =>
    simp only [stepsFrom, List.map_cons]
    have := matrix_window_inv series R (min R interval) (start - off - R) (start - off)
      ((stepsFrom (start + interval) interval n).map fun ts => (ts - off - R, ts - off)) hs (by omega) (by omega)
      (by omega) (by omega) (chainOK_steps R off interval hR hi n start)
    rw [this]
    simp [List.map_map, Function.comp_def]

/-- ... i.e. step by step equal to from-scratch range selectors -/
theorem range_loop_eq_rangeSel (series : Series) (R off start end_ interval : Int)
    (hs : Sorted series) (hR : 0 < R) (hi : 0 < interval) :
    rangeLoop series R off start end_ interval
      = (steps start end_ interval).map (fun ts => rangeSel series ts R off none) := by
  rw [range_loop_spec series R off start end_ interval hs hR hi]
  apply List.map_congr_left
  intro ts _
  rw [range_spec series ts R off none hs hR]
  simp [refTime]

/-- `maxt` must advance strictly: asking for the same window twice duplicates the sample sitting on `maxt`
    (the sought sample is appended without the `t > mintFloats` check). The engine never does this: with `@`
    the window is fetched once (`refetch` is false after the first step). -/
theorem repeated_window_duplicates_witness :
    runWindows 5 (BufIter.init [⟨10, false, false, 1⟩] 5) Win.empty [(5, 10), (5, 10)]
      = [⟨[⟨10, false, false, 1⟩], []⟩, ⟨[⟨10, false, false, 1⟩, ⟨10, false, false, 1⟩], []⟩] := by decide

/-! ### offset and @ -/

/-- `offset` and `@` only move the windows: a selector with modifiers is the plain selector evaluated at the
    shifted/fixed time `t' = (@ or t) - offset`; negative offsets included. -/
theorem offset_at_shift_windows (series : Series) (t lb R off : Int) (atT : Option Int) :
    instantSel series t lb off atT = instantSel series (refTime t off atT) lb 0 none ∧
    rangeSel series t R off atT = rangeSel series (refTime t off atT) R 0 none := by
  constructor <;> simp [instantSel, rangeSel, refTime]

/-- `setOffsetForAtModifier`: the offset it installs makes the evaluation at ANY evaluation time land on
    `ts - originalOffset` (no enclosing subquery), so a step-invariant node can be evaluated once. -/
theorem at_offset_fixes_time (evalTime ts origOff : Int) :
    refTime evalTime (atOffset evalTime (some ts) origOff 0 none) none = refTime evalTime origOff (some ts) := by
  simp [refTime, atOffset]; omega

/-- The querier range requested by `getTimeRangesForSelector` for a plain selector is exactly the window the
    evaluator reads: `[t' - lookback + 1, t']` for instant selectors, `[t' - range + 1, t']` for range selectors
    (over the whole query range `qStart..qEnd`). -/
theorem select_range_is_window (qStart qEnd lb off R : Int) (atT : Option Int) (hR : 0 < R) :
    selectRange qStart qEnd lb none atT off 0
      = (refTime qStart off atT - lb + 1, refTime qEnd off atT) ∧
    selectRange qStart qEnd lb none atT off R
      = (refTime qStart off atT - R + 1, refTime qEnd off atT) := by
  have hR' : R ≠ 0 := by omega
  cases atT <;> simp [selectRange, refTime, hR'] <;> omega

/-- Finding C28-F1: `timestamp(m @ a offset o)` overwrites the selector offset with `enh.Ts - a`, so the lookup
    happens at `a` instead of `a - o`, on the samples selected for `a - o`. The model follows the code
    (`SelSuite.modelQuery`, kind `ts`); here: samples at 1005000 and 1010000, lookback 5 s, `@ 1010000 offset 4000`:
    the documented answer is the sample of 1005000, the engine's strategy as found (`tsAtRefG false`) finds
    nothing. Which strategy /repo has is `repoFixedTsAtOffset` (fixes/C28-F1.patch). -/
theorem timestamp_at_offset_ignored_witness :
    let series : Series := [⟨1005000, false, false, 1⟩, ⟨1010000, false, false, 2⟩]
    let vis := visible (selectRange 1010000 1010000 5000 none (some 1010000) 4000 0) series
    instantSel series 1010000 5000 4000 (some 1010000) = some ⟨1005000, false, false, 1⟩ ∧
    (vsSingle 5000 (Memo.init vis (5000 - 1)) (tsAtRefG false 1010000 4000)).2 = none := by decide

/-- The repaired strategy (fixes/C28-F1.patch, `tsAtRefG true`) looks the sample up at the documented
    reference time `a - o`, at every step, like the plain selector `m @ a offset o`
    (`at_offset_fixes_time`); on the witness data it finds the documented sample. -/
theorem timestamp_at_offset_fixed (ts a off : Int) :
    tsAtRefG true a off = refTime ts off (some a) ∧
    (let series : Series := [⟨1005000, false, false, 1⟩, ⟨1010000, false, false, 2⟩]
     let vis := visible (selectRange 1010000 1010000 5000 none (some 1010000) 4000 0) series
     (vsSingle 5000 (Memo.init vis (5000 - 1)) (tsAtRefG true 1010000 4000)).2
       = instantSel series 1010000 5000 4000 (some 1010000)) := by
  refine ⟨by simp [tsAtRefG, refTime], by decide⟩

/-! ### subquery steps -/

/-- The child evaluator of a subquery evaluates exactly the multiples of the subquery step inside
    `(parentStart - offset - range, alignedParentEnd - offset]`, for all integers including negative times. -/
theorem subquery_steps_spec (pStart pEnd pInterval off range interval : Int) (hi : 0 < interval) (t : Int) :
    t ∈ subquerySteps pStart pEnd pInterval off range interval ↔
      (∃ k, t = interval * k) ∧ pStart - off - range < t ∧
        t ≤ (subqueryTimeRange pStart pEnd pInterval off range interval).2 := by
  unfold subquerySteps
  simp only
  rw [mem_steps hi]
  have hspec := subquery_start_spec (pStart - off - range) interval hi
  simp only at hspec
  obtain ⟨⟨k0, hk0⟩, hlo, hhi⟩ := hspec
  have hstart : (subqueryTimeRange pStart pEnd pInterval off range interval).1 = interval * k0 := by
    rw [← hk0]; rfl
  rw [hstart]
  rw [hk0] at hlo hhi
  constructor
  · rintro ⟨j, rfl, hle⟩
    refine ⟨⟨k0 + j, ?_⟩, ?_, hle⟩
    · rw [Int.mul_add, Int.mul_comm interval (j : Int)]
    · have : 0 ≤ (j : Int) * interval := Int.mul_nonneg (by omega) (by omega)
      omega
  · rintro ⟨⟨k, rfl⟩, hgt, hle⟩
    have hk : k0 ≤ k := by
      by_cases h : k0 ≤ k
      · exact h
      · exfalso
        have h1 : k + 1 ≤ k0 := by omega
        have h2 : interval * (k + 1) ≤ interval * k0 := Int.mul_le_mul_of_nonneg_left h1 (by omega)
        rw [Int.mul_add, Int.mul_one] at h2
        omega
    refine ⟨(k - k0).toNat, ?_, hle⟩
    have : ((k - k0).toNat : Int) = k - k0 := Int.toNat_of_nonneg (by omega)
    rw [this, Int.sub_mul, Int.mul_comm k interval, Int.mul_comm k0 interval]
    omega

/-- the aligned end: the last parent step, shifted by the subquery offset -/
theorem subquery_end_spec (pStart pEnd pInterval off range interval : Int) (hp : 0 < pInterval) (hse : pStart ≤ pEnd) :
    let e := (subqueryTimeRange pStart pEnd pInterval off range interval).2 + off
    (∃ j : Nat, e = pStart + j * pInterval) ∧ e ≤ pEnd ∧ pEnd < e + pInterval := by
  simp only [subqueryTimeRange, hp, if_true]
  have hnn : 0 ≤ pEnd - pStart := by omega
  have hdm := Int.mul_tdiv_add_tmod (pEnd - pStart) pInterval
  have h1 := Int.tmod_nonneg pInterval hnn
  have h2 := Int.tmod_lt_of_pos (pEnd - pStart) hp
  have h3 : 0 ≤ (pEnd - pStart).tdiv pInterval := Int.tdiv_nonneg hnn (by omega)
  rw [Int.mul_comm] at hdm
  refine ⟨⟨((pEnd - pStart).tdiv pInterval).toNat, ?_⟩, ?_, ?_⟩
  · rw [Int.toNat_of_nonneg h3]; omega
  · omega
  · omega

example : subquerySteps (-7) (-7) 1 0 10 5 = [-15, -10] := by decide
example : subquerySteps 1010000 1010000 1 0 10000 3000 = [1002000, 1005000, 1008000] := by decide


/-! ### whole queries as the suite's model evaluates them (querier range + incremental strategy) -/

/-- what the suite's model computes for the range query `m offset off` (no `@`): one memoized iterator over the
    samples the querier returns for `getTimeRangesForSelector`'s range, stepped through all steps — equals,
    at every step, the documented instant lookup on the FULL series. -/
theorem sel_query_spec (series : Series) (lb off qs qe interval : Int)
    (hs : Sorted series) (hlb : 0 < lb) (hi : 0 < interval) :
    evalSteps lb (Memo.init (visible (selectRange qs qe lb none none off 0) series) lb)
        ((steps qs qe interval).map fun ts => ts - off)
      = (steps qs qe interval).map (fun ts => instantSpec series (ts - off) lb) := by
  have hsv := sorted_visible hs (selectRange qs qe lb none none off 0)
  rw [memoized_seek_mono _ lb lb _ hsv hlb (by omega)]
  · rw [List.map_map]
    apply List.map_congr_left
    intro ts hts
    rw [mem_steps hi] at hts
    obtain ⟨j, rfl, hle⟩ := hts
    have : 0 ≤ (j : Int) * interval := Int.mul_nonneg (by omega) (by omega)
    simp only [Function.comp]
    apply instantSpec_visible hs
    · simp [selectRange]; omega
    · simp [selectRange]; omega
  · unfold steps
    have := stepsFrom_pairwise interval (by omega) (numSteps qs qe interval) qs
    exact List.Pairwise.map _ (fun a b h => by omega) this

/-- ... and for a range-vector function over `m[R] offset off`: the window handed to the function at every
    step of the incremental loop, computed on the samples the querier returns, is the documented window of
    the full series. -/
theorem range_fn_query_spec (series : Series) (lb R off qs qe interval : Int)
    (hs : Sorted series) (hR : 0 < R) (hi : 0 < interval) :
    rangeLoop (visible (selectRange qs qe lb none none off R) series) R off qs qe interval
      = (steps qs qe interval).map (fun ts => winSpec series (ts - off - R) (ts - off)) := by
  rw [range_loop_spec _ R off qs qe interval (sorted_visible hs _) hR hi]
  apply List.map_congr_left
  intro ts hts
  rw [mem_steps hi] at hts
  obtain ⟨j, rfl, hle⟩ := hts
  have : 0 ≤ (j : Int) * interval := Int.mul_nonneg (by omega) (by omega)
  have hR' : R ≠ 0 := by omega
  apply winSpec_visible
  · simp [selectRange, hR']; omega
  · simp [selectRange, hR']; omega


/-! ### the judge's reference computations agree with the model (on well-formed series the model's own
    outputs are accepted by the judge's selector semantics) -/
open Prom.SelSuite in
/-- the judge's instant lookup (filter the lookback window, keep the latest, drop if stale) = the model -/
theorem judge_instant_eq_model (series : Series) (t lb off : Int) (atT : Option Int)
    (hs : Sorted series) (hlb : 0 < lb) :
    jInstant series lb (refTime t off atT) = instantSel series t lb off atT := by
  rw [jInstant_eq_spec hs, instant_spec series t lb off atT hs hlb]

open Prom.SelSuite in
/-- the judge's range window (one filter) = the model's `matrixIterSlice` from scratch -/
theorem judge_range_eq_model (series : Series) (t R off : Int) (atT : Option Int)
    (hs : Sorted series) (hR : 0 < R) :
    jWinOf (jRange series (refTime t off atT - R) (refTime t off atT)) = rangeSel series t R off atT := by
  rw [jRange_eq_spec, range_spec series t R off atT hs hR]

open Prom.SelSuite in
/-- the judge's subquery grid (floor division) = the steps the model's child evaluator runs
    (truncated division + adjustment), as sets -/
theorem judge_grid_eq_model (pStart pEnd pInterval off range interval : Int) (hi : 0 < interval) (t : Int) :
    t ∈ jMultiples (pStart - off - range) (subqueryTimeRange pStart pEnd pInterval off range interval).2 interval
      ↔ t ∈ subquerySteps pStart pEnd pInterval off range interval := by
  rw [jMultiples_spec _ _ _ hi, subquery_steps_spec _ _ _ _ _ _ hi]

end Prom.C28
