import PromModel.Tsdb.Backfill
import PromModel.Suites.BackfillSuite
/-
  C50 — Backfilled blocks contain exactly the input samples.
-/
namespace Prom.C50
open Prom.Backfill

/-- An input with a sample that has no timestamp is rejected as a whole: an error and no block,
    whatever the alignment variant, block duration and batch size. -/
theorem minMaxLoop_missing (xs : List Sample) (h : ∃ x ∈ xs, x.t = none) :
    ∀ a b, minMaxLoop xs a b = .error .nots := by
  induction xs with
  | nil => obtain ⟨x, hx, _⟩ := h; cases hx
  | cons y ys ih =>
    intro a b
    unfold minMaxLoop
    cases hy : y.t with
    | none => rfl
    | some ts =>
      simp only
      obtain ⟨x, hx, hxt⟩ := h
      rcases List.mem_cons.mp hx with rfl | hmem
      · rw [hy] at hxt; cases hxt
      · exact ih ⟨x, hmem, hxt⟩ _ _

theorem missing_timestamp_rejects_all (fixed : Bool) (maxBD : Int) (N : Nat) (xs : List Sample)
    (h : ∃ x ∈ xs, x.t = none) : backfillG fixed maxBD N xs = (some .nots, []) := by
  simp [backfillG, getMinAndMaxTimestamps, minMaxLoop_missing xs h]

example : ∃ x ∈ [(⟨0, some 5, 1⟩ : Sample), ⟨1, none, 2⟩], x.t = none := ⟨⟨1, none, 2⟩, by simp, rfl⟩

end Prom.C50
