import PromModel.Tsdb.Backfill
import PromModel.Suites.BackfillSuite
import PromProofs.Backfill
/-
  C50 — Backfilled blocks contain exactly the input samples.

  Model: PromModel/Tsdb/Backfill.lean (transcription of cmd/promtool/backfill.go and of the float path
  of the head appender behind tsdb.BlockWriter).  `fixed = false` is the window alignment as found
  (finding F4), `fixed = true` the floor alignment of fixes/F4.patch; `repoFixed` says which one /repo has.
-/
namespace Prom.C50
open Prom.Backfill

/-! ### missing timestamp ⇒ the whole input is rejected -/

theorem minMaxLoop_missing (xs : List Sample) (h : ∃ x ∈ xs, x.t = none) :
    ∀ a b, minMaxLoop xs a b = .error .nots := by
  induction xs with
  | nil => obtain ⟨x, hx, _⟩ := h; cases hx
  | cons y ys ih =>
    intro a b
    unfold minMaxLoop
    cases hy : y.t with
    | none => rfl
    | some ts =>
      simp only
      obtain ⟨x, hx, hxt⟩ := h
      rcases List.mem_cons.mp hx with rfl | hmem
      · rw [hy] at hxt; cases hxt
      · exact ih ⟨x, hmem, hxt⟩ _ _

/-- An input with a sample that has no timestamp is rejected as a whole — an error and no block —
    whatever the alignment variant, block duration and batch size. -/
theorem missing_timestamp_rejects_all (fixed : Bool) (maxBD : Int) (N : Nat) (xs : List Sample)
    (h : ∃ x ∈ xs, x.t = none) : backfillG fixed maxBD N xs = (some .nots, []) := by
  simp [backfillG, getMinAndMaxTimestamps, minMaxLoop_missing xs h]

example : ∃ x ∈ [(⟨0, some 5, 1⟩ : Sample), ⟨1, none, 2⟩], x.t = none := ⟨⟨1, none, 2⟩, by simp, rfl⟩

/-! ### block duration -/

/-- `getCompatibleBlockDuration` never panics and returns one of the standard ranges `2h·3^i` (i < 10):
    the largest one not above `maxBlockDuration`, or 2h when `maxBlockDuration` is below 2h. -/
theorem block_duration_compatible (maxBD : Int) :
    ∃ r, getCompatibleBlockDuration maxBD = .ok r ∧ r ∈ ranges ∧ 0 < r ∧
      (r ≤ maxBD ∨ r = defaultBlockDuration) ∧ (∀ r' ∈ ranges, r' ≤ maxBD → r' ≤ r) := by
  refine ⟨spec maxBD, gcbd_eq maxBD, ?_, ?_, ?_, ?_⟩
  · rw [ranges_eq]; unfold spec; repeat' split
    all_goals simp
  · unfold spec; repeat' split
    all_goals omega
  · unfold spec defaultBlockDuration; repeat' split
    all_goals omega
  · intro r' hr hle
    rw [ranges_eq] at hr
    simp only [List.mem_cons, List.not_mem_nil, or_false] at hr
    unfold spec; repeat' split
    all_goals omega

/-! ### the visited windows cover every timestamp exactly once -/

/-- The loop `for t := start; t <= maxt; t += d` runs `iterations` times: window `j` starts at or before
    `maxt` for every `j < iterations`, and window `iterations` does not. -/
theorem iterations_exact (start maxt d : Int) (hd : 0 < d) :
    (∀ j : Nat, j < iterations start maxt d → start + j * d ≤ maxt) ∧
    start + (iterations start maxt d : Int) * d > maxt := by
  unfold iterations
  by_cases h : start ≤ maxt
  · simp only [h, if_true]
    have hq : 0 ≤ (maxt - start) / d := Int.ediv_nonneg (by omega) (by omega)
    constructor
    · intro j hj
      have hj' : (j : Int) ≤ (maxt - start) / d := by omega
      have h1 : (j : Int) * d ≤ (maxt - start) / d * d := Int.mul_le_mul_of_nonneg_right hj' (by omega)
      have h2 := Int.ediv_mul_le (maxt - start) (b := d) (by omega)
      omega
    · rw [Int.toNat_of_nonneg (by omega)]
      have := Int.lt_ediv_add_one_mul_self (maxt - start) hd
      omega
  · simp only [h, if_false]; constructor
    · intro j hj; omega
    · simp; omega

/-- With the floor alignment (`fixed = true`, any `mint`) — and with the alignment as found when
    `mint ≥ 0` — the first window starts at a multiple of `d` at or below `mint`, so every timestamp
    `mint ≤ ts ≤ maxt` lies in exactly one of the windows `[start + j·d, start + (j+1)·d)`, `j < iterations`,
    that the loop visits. -/
theorem windows_cover_general (fixed : Bool) (d mint maxt ts : Int) (hd : 0 < d) (hf : fixed = true ∨ 0 ≤ mint)
    (h1 : mint ≤ ts) (h2 : ts ≤ maxt) :
    ∃ j : Nat, (j < iterations (alignStart fixed d mint) maxt d ∧
        alignStart fixed d mint + j * d ≤ ts ∧ ts < alignStart fixed d mint + j * d + d) ∧
      ∀ j' : Nat, (alignStart fixed d mint + j' * d ≤ ts ∧ ts < alignStart fixed d mint + j' * d + d) → j' = j := by
  obtain ⟨k, hk, hle, _⟩ := floorAlign fixed d mint hd hf
  rw [hk]
  obtain ⟨j, ⟨ha, hb⟩, hje, huniq⟩ := window_index d (ts - d * k) hd (by omega)
  refine ⟨j, ⟨?_, by omega, by omega⟩, ?_⟩
  · unfold iterations
    have hs : d * k ≤ maxt := by omega
    simp only [hs, if_true]
    have := @Int.ediv_le_ediv (ts - d * k) (maxt - d * k) d hd (by omega)
    have hq : 0 ≤ (maxt - d * k) / d := Int.ediv_nonneg (by omega) (by omega)
    omega
  · intro j' ⟨a, b⟩
    exact huniq j' ⟨by omega, by omega⟩

/-- The repaired alignment: every input timestamp (any sign) falls in exactly one visited window. -/
theorem windows_cover (d mint maxt ts : Int) (hd : 0 < d) (h1 : mint ≤ ts) (h2 : ts ≤ maxt) :
    ∃ j : Nat, (j < iterations (alignStart true d mint) maxt d ∧
        alignStart true d mint + j * d ≤ ts ∧ ts < alignStart true d mint + j * d + d) ∧
      ∀ j' : Nat, (alignStart true d mint + j' * d ≤ ts ∧ ts < alignStart true d mint + j' * d + d) → j' = j :=
  windows_cover_general true d mint maxt ts hd (Or.inl rfl) h1 h2

example : (-5000 : Int) ≤ -5000 ∧ (-5000 : Int) ≤ 7205000 ∧ (0 : Int) < 7200000 := by omega

/-- The alignment as found: proved only for a non-negative minimum timestamp. -/
theorem windows_cover_partial_nonneg (d mint maxt ts : Int) (hd : 0 < d) (h0 : 0 ≤ mint) (h1 : mint ≤ ts) (h2 : ts ≤ maxt) :
    ∃ j : Nat, (j < iterations (alignStart false d mint) maxt d ∧
        alignStart false d mint + j * d ≤ ts ∧ ts < alignStart false d mint + j * d + d) ∧
      ∀ j' : Nat, (alignStart false d mint + j' * d ≤ ts ∧ ts < alignStart false d mint + j' * d + d) → j' = j :=
  windows_cover_general false d mint maxt ts hd (Or.inr h0) h1 h2

/-- The full statement for the alignment as found — FALSE (see the witnesses below): for a negative
    non-aligned `mint` the truncated division rounds toward zero and the first window starts above `mint`. -/
def windows_cover_unfixed_full : Prop :=
  ∀ (d mint maxt ts : Int), 0 < d → mint ≤ ts → ts ≤ maxt →
    ∃ j : Nat, j < iterations (alignStart false d mint) maxt d ∧
      alignStart false d mint + j * d ≤ ts ∧ ts < alignStart false d mint + j * d + d

theorem windows_cover_unfixed_full_false_witness : ¬ windows_cover_unfixed_full := by
  intro h
  obtain ⟨j, _, h2, _⟩ := h 7200000 (-5000) 7205000 (-5000) (by omega) (by omega) (by omega)
  have : alignStart false 7200000 (-5000) = 0 := by decide
  rw [this] at h2
  omega

/-- F4 on the model of the code as found: −5 s, 3 s, 7205 s with 2h blocks ⇒ the first sample is in no block. -/
theorem backfill_drops_negative_witness :
    backfillG false 0 5000 [⟨0, some (-5000), 1⟩, ⟨0, some 3000, 2⟩, ⟨0, some 7205000, 3⟩]
      = (none, [⟨3000, 3001, [(0, 3000, 2)]⟩, ⟨7205000, 7205001, [(0, 7205000, 3)]⟩]) := by decide

/-- The same input with the repaired alignment: three blocks, nothing lost. -/
theorem backfill_negative_after_fix_witness :
    backfillG true 0 5000 [⟨0, some (-5000), 1⟩, ⟨0, some 3000, 2⟩, ⟨0, some 7205000, 3⟩]
      = (none, [⟨-5000, -4999, [(0, -5000, 1)]⟩, ⟨3000, 3001, [(0, 3000, 2)]⟩, ⟨7205000, 7205001, [(0, 7205000, 3)]⟩]) := by
  decide

/-- Out-of-order lines of one series inside one window are dropped silently at commit time (exit status 0);
    across windows they are kept. Invalid OpenMetrics, outside C50's statement, but the code's behaviour. -/
theorem out_of_order_in_window_dropped_witness :
    backfillG true 0 5000 [⟨0, some 10000, 1⟩, ⟨0, some 5000, 2⟩, ⟨0, some 7205000, 3⟩, ⟨0, some 7204000, 4⟩, ⟨0, some (-1), 5⟩]
      = (none, [⟨-1, 0, [(0, -1, 5)]⟩, ⟨10000, 10001, [(0, 10000, 1)]⟩, ⟨7205000, 7205001, [(0, 7205000, 3)]⟩]) := by
  decide

/-! ### the `nextSampleTs` skip optimisation -/

/-- The window loop with the skip optimisation returns exactly what the loop without it returns (same
    blocks, same error): a skipped window contains no sample, so its pass would have produced no block and
    left `nextSampleTs` unchanged.  For every input in which all samples have timestamps (others never reach
    the loop, `missing_timestamp_rejects_all`), every block duration, batch size, start and bound. -/
theorem skip_optimisation_sound (d : Int) (N : Nat) (maxt : Int) (input : List Sample) (hd : 0 < d)
    (hall : AllTimed input) (fuel : Nat) (t : Int) :
    blockLoop true d N maxt input fuel t maxI64 [] = blockLoop false d N maxt input fuel t maxI64 [] :=
  skip_sound_aux d N maxt input hd hall fuel t maxI64 [] (Or.inl rfl)

example : AllTimed [(⟨0, some (-5000), 1⟩ : Sample), ⟨1, some 3000, 2⟩] := by
  intro x hx; simp at hx; rcases hx with rfl | rfl <;> simp

/-! ### the blocks hold only input samples, each block inside one aligned window -/

/-- Soundness half of `backfill_exact`, for EVERY input, batch size, block duration and both alignment
    variants (also when the run ends with an error: the blocks left on disk): every block written lies
    inside one window `[d·k, d·k + d)` aligned to the chosen standard block duration `d`, is non-empty, and
    every sample in it is an input sample (same series, timestamp and value bits) with `mint ≤ t < maxt`. -/
theorem backfill_exact_partial (fixed : Bool) (maxBD : Int) (N : Nat) (input : List Sample) :
    ∀ b ∈ (backfillG fixed maxBD N input).2, ∃ d k : Int, getCompatibleBlockDuration maxBD = .ok d ∧
      d * k ≤ b.mint ∧ b.mint < b.maxt ∧ b.maxt ≤ d * k + d ∧ b.samples ≠ [] ∧
      ∀ x ∈ b.samples, (⟨x.1, some x.2.1, x.2.2⟩ : Sample) ∈ input ∧ b.mint ≤ x.2.1 ∧ x.2.1 < b.maxt :=
  backfill_sound_aux fixed maxBD N input

/-- **backfill_exact** (repaired alignment, any sign of timestamps, any batch size `N`, any block duration):
    if every sample has a timestamp (strictly inside the int64 sentinels the code uses) and, in file order,
    every series is strictly increasing inside each aligned window, then the run succeeds, every input
    sample is in some block, and (soundness, `backfill_exact_partial`) every block lies in one aligned window
    and holds only input samples.  Proof: `windows_cover` (each timestamp has its visited window),
    `skip_optimisation_sound` (the skipping loop = the plain loop), and the head invariant
    `windowPass_complete` (a window pass stores exactly the window's samples, in file order, across all
    intermediate commits). -/
theorem backfill_exact (maxBD : Int) (N : Nat) (input : List Sample) (hall : AllTimed input)
    (hb : ∀ x ∈ input, ∀ ts, x.t = some ts → minI64 < ts ∧ ts < maxI64)
    (hinc : ∀ d, getCompatibleBlockDuration maxBD = .ok d → ∀ k : Int, Inc (winSamples (d * k) (d * k + d) input)) :
    (backfillG true maxBD N input).1 = none ∧
    (∀ x ∈ input, ∀ tx, x.t = some tx → ∃ b ∈ (backfillG true maxBD N input).2, (x.s, tx, x.v) ∈ b.samples) ∧
    (∀ b ∈ (backfillG true maxBD N input).2, ∃ d k : Int, getCompatibleBlockDuration maxBD = .ok d ∧
      d * k ≤ b.mint ∧ b.mint < b.maxt ∧ b.maxt ≤ d * k + d ∧ b.samples ≠ [] ∧
      ∀ x ∈ b.samples, (⟨x.1, some x.2.1, x.2.2⟩ : Sample) ∈ input ∧ b.mint ≤ x.2.1 ∧ x.2.1 < b.maxt) := by
  refine ⟨?_, ?_, backfill_exact_partial true maxBD N input⟩
  all_goals
    obtain ⟨d, hd_eq, _, hdpos, _⟩ := block_duration_compatible maxBD
    obtain ⟨maxt, mint, hmm, hbounds⟩ := getMinMax_bounds input hall hb
    obtain ⟨k0, hk0⟩ := alignStart_mul true d mint
    have hwin : ∀ j : Nat, alignStart true d mint + (j : Int) * d = d * (k0 + j) := by
      intro j; rw [hk0, Int.mul_add, Int.mul_comm d j]
    have hcomp : ∀ j : Nat, ∃ ob n, windowPass d N (alignStart true d mint + j * d) input = .ok (ob, n) ∧
        (winSamples (alignStart true d mint + j * d) (alignStart true d mint + j * d + d) input = [] → ob = none) ∧
        (winSamples (alignStart true d mint + j * d) (alignStart true d mint + j * d + d) input ≠ [] →
          ∃ b, ob = some b ∧ b.samples = winSamples (alignStart true d mint + j * d) (alignStart true d mint + j * d + d) input) := by
      intro j
      apply windowPass_complete input d N _ hdpos hall
      rw [hwin j]; exact hinc d hd_eq (k0 + j)
    have hok : ∀ j : Nat, ∃ ob n, windowPass d N (alignStart true d mint + j * d) input = .ok (ob, n) := by
      intro j; obtain ⟨ob, n, h, _⟩ := hcomp j; exact ⟨ob, n, h⟩
    have e0 : alignStart true d mint + ((0 : Nat) : Int) * d = alignStart true d mint := by simp
    have L := blockLoop_noskip_complete input d N maxt (alignStart true d mint) hdpos hok
      (iterations (alignStart true d mint) maxt d) 0 maxI64 []
    rw [e0] at L
    have hres : backfillG true maxBD N input =
        blockLoop false d N maxt input (iterations (alignStart true d mint) maxt d) (alignStart true d mint) maxI64 [] := by
      unfold backfillG; rw [hmm]; simp only [createBlocks]; rw [hd_eq]; simp only
      exact skip_optimisation_sound d N maxt input hdpos hall _ _
    rw [hres]
  · exact L.1
  · intro x hx tx htx
    obtain ⟨h1, h2⟩ := hbounds x hx tx htx
    obtain ⟨j, ⟨hj, ha, hb'⟩, _⟩ := windows_cover d mint maxt tx hdpos h1 h2
    obtain ⟨ob, n, hw, _, hne⟩ := hcomp j
    have hmem := mem_winSamples (alignStart true d mint + j * d) (alignStart true d mint + j * d + d) input x hx tx htx ha hb'
    obtain ⟨b, hob, hbs⟩ := hne (List.ne_nil_of_mem hmem)
    subst hob
    refine ⟨b, ?_, by rw [hbs]; exact hmem⟩
    exact L.2.2 j (by omega) (by omega) ((iterations_exact _ maxt d hdpos).1 j hj) b n hw

example : ∀ d (k : Int), Inc (winSamples (d * k) (d * k + d)
    [⟨0, some (-5000), 1⟩, ⟨1, some 3000, 2⟩, ⟨0, some 7205000, 3⟩]) := by
  intro d k
  simp only [winSamples, Inc]
  repeat' split
  all_goals simp
  all_goals omega

example : AllTimed [(⟨0, some (-5000), 1⟩ : Sample), ⟨0, some 3000, 2⟩] ∧
    (∀ x ∈ [(⟨0, some (-5000), 1⟩ : Sample), ⟨0, some 3000, 2⟩], ∀ ts, x.t = some ts → minI64 < ts ∧ ts < maxI64) := by
  constructor
  · intro x hx; simp at hx; rcases hx with rfl | rfl <;> simp
  · intro x hx ts h; simp at hx; rcases hx with rfl | rfl <;> (simp at h; subst h; decide)

end Prom.C50
