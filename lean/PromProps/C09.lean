import PromModel.Tsdb.Retention
import PromModel.Tsdb.RetentionSpec
import PromProofs.Retention
/-
  C09 — Retention removes only whole expired blocks, oldest first.

  Model: PromModel/Tsdb/Retention.lean (transcription of deletableBlocks, BeyondTimeRetention,
  BeyondSizeRetention and the parent marking of reloadBlocks in tsdb/db.go).
  Property theorems only; helper lemmas are in PromProofs/Retention.lean.

  Conventions: `beyondTime`/`beyondSize` take the list the caller (`deletableBlocks`) has sorted.  The
  theorems about them are stated for *every* newest-first arrangement (`SortedDesc`), so they do not depend
  on how ties in MaxTime are ordered; the `_blocks` corollaries instantiate them with the code's sort.
-/
namespace Prom.C09
open Prom.Retention

/-! ## time retention -/

/-- `time_exact` (general form, any retention duration): on a newest-first list, time retention deletes
    exactly the blocks *after the first* whose MaxTime is at least `R` older than the first block's —
    provided the int64 subtraction `blocks[0].MaxTime - block.MaxTime` does not overflow. -/
theorem time_exact (R : Int) (b0 : Blk) (rest : List Blk) (hs : SortedDesc (b0 :: rest))
    (hr : ∀ x ∈ rest, I64 (b0.maxt - x.maxt)) (b : Blk) :
    b ∈ beyondTime R (b0 :: rest) ↔ R ≠ 0 ∧ b ∈ rest ∧ b0.maxt - b.maxt ≥ R := by
  unfold SortedDesc at hs
  have hs' := List.pairwise_cons.mp hs
  by_cases hR : R = 0
  · simp [beyondTime, hR]
  · simp only [beyondTime, hR, if_false]
    rw [mem_timeCut R b0.maxt rest hs'.2 hr b]
    simp [hR]

example : ∀ x ∈ [(⟨1, 0, 20, 5, false, []⟩ : Blk)], I64 ((⟨0, 10, 30, 5, false, []⟩ : Blk).maxt - x.maxt) := by
  simp [I64, two63]

/-- `time_exact` for the blocks as `deletableBlocks` sees them (its own sort, positive duration): a block
    is deleted by time retention iff it is at least `R` older than the newest block.  Independent of the
    order of ties. -/
theorem time_exact_blocks (R : Int) (hR : 0 < R) (bs : List Blk)
    (hr : ∀ a ∈ bs, ∀ b ∈ bs, I64 (a.maxt - b.maxt)) (b : Blk) :
    b ∈ beyondTime R (sortDesc bs) ↔ b ∈ bs ∧ newestMax bs - b.maxt ≥ R := by
  have hp := sortDesc_perm bs
  have hs := sortDesc_sorted bs
  cases hsd : sortDesc bs with
  | nil =>
    have : bs = [] := by
      have := hp.length_eq; rw [hsd] at this; exact List.eq_nil_of_length_eq_zero this.symm
    subst this; simp [beyondTime]
  | cons b0 rest =>
    rw [hsd] at hp hs
    have hnew : b0.maxt = newestMax bs := head_maxt_eq_newestMax hp hs
    have hb0 : b0 ∈ bs := hp.mem_iff.mp List.mem_cons_self
    have hrest : ∀ x ∈ rest, x ∈ bs := fun x hx => hp.mem_iff.mp (List.mem_cons_of_mem _ hx)
    rw [time_exact R b0 rest hs (fun x hx => hr b0 hb0 x (hrest x hx)) b, hnew]
    constructor
    · rintro ⟨_, hb, hge⟩; exact ⟨hrest b hb, hge⟩
    · rintro ⟨hb, hge⟩
      refine ⟨by omega, ?_, hge⟩
      rcases List.mem_cons.mp (hp.mem_iff.mpr hb) with rfl | h
      · omega
      · exact h

example : ∀ a ∈ [(⟨0, 0, 100, 5, false, []⟩ : Blk), ⟨1, 50, 100, 7, false, []⟩, ⟨2, 0, 40, 9, false, []⟩],
    ∀ b ∈ [(⟨0, 0, 100, 5, false, []⟩ : Blk), ⟨1, 50, 100, 7, false, []⟩, ⟨2, 0, 40, 9, false, []⟩], I64 (a.maxt - b.maxt) := by
  simp [I64, two63]

/-- The newest block (and every block tied with it) survives time retention. -/
theorem newest_kept_by_time (R : Int) (hR : 0 < R) (bs : List Blk)
    (hr : ∀ a ∈ bs, ∀ b ∈ bs, I64 (a.maxt - b.maxt)) (b : Blk) (hb : b.maxt = newestMax bs) :
    b ∉ beyondTime R (sortDesc bs) := by
  rw [time_exact_blocks R hR bs hr b]; rintro ⟨_, h⟩; omega

/-- With a negative duration (not rejected by tsdb.Open) everything but the first block goes. -/
theorem time_negative_duration (R : Int) (hR : R < 0) (b0 : Blk) (rest : List Blk)
    (hs : SortedDesc (b0 :: rest)) (hr : ∀ x ∈ rest, I64 (b0.maxt - x.maxt)) :
    ∀ b, b ∈ beyondTime R (b0 :: rest) ↔ b ∈ rest := by
  intro b
  rw [time_exact R b0 rest hs hr b]
  constructor
  · exact fun h => h.2.1
  · intro hb
    have := (List.pairwise_cons.mp hs).1 b hb
    exact ⟨by omega, hb, by omega⟩

/-- Outside the range hypothesis the code is *not* exact: with MaxTimes at the two ends of int64 the
    difference wraps to a negative number and a block 2^63+9 ms older than the newest one is kept. -/
theorem time_overflow_witness :
    beyondTime 1 [⟨0, 0, 9223372036854775807, 1, false, []⟩, ⟨1, -20, -10, 1, false, []⟩] = [] := by
  decide

/-! ## size retention -/

/-- `size_exact`: on the list handed over by the caller, size retention deletes a suffix, and the kept
    prefix is the *longest* one whose cumulative block size plus the head size (WAL + WBL + head chunk
    files) is within the limit.  Hypotheses: limit active, sizes non-negative and the total fits int64. -/
theorem size_exact (s : Settings) (bs : List Blk) (hL : 0 < effMaxBytes s)
    (hh : 0 ≤ s.headSize) (hnn : ∀ b ∈ bs, 0 ≤ b.size) (hov : s.headSize + sumSizes bs < two63) :
    ∃ k, k ≤ bs.length ∧ beyondSize s bs = bs.drop k ∧
      ∀ j, 1 ≤ j → j ≤ bs.length → (s.headSize + sumSizes (bs.take j) ≤ effMaxBytes s ↔ j ≤ k) := by
  unfold beyondSize
  rw [if_neg (by omega)]
  exact sizeCut_exact (effMaxBytes s) s.headSize bs hh hnn hov

example : (0 : Int) < effMaxBytes ⟨0, 100, .fin 0, 0, 7⟩ ∧ (7 : Int) + sumSizes [⟨0, 0, 10, 30, false, []⟩, ⟨1, 0, 5, 80, false, []⟩] < two63 := by
  decide

/-- Size retention is off when the effective limit is not positive. -/
theorem size_disabled (s : Settings) (bs : List Blk) (hL : effMaxBytes s ≤ 0) : beyondSize s bs = [] := by
  unfold beyondSize; rw [if_pos hL]

/-- How the limit is chosen: a positive percentage prevails over MaxBytes when the filesystem size is known… -/
theorem pct_prevails (s : Settings) (hp : s.pct.positive = true) (hf : s.fsSize ≠ 0) :
    effMaxBytes s = pctBytes s.fsSize s.pct := by
  simp [effMaxBytes, hp, hf]

/-- …and MaxBytes is used when it is not positive or the filesystem size is unknown. -/
theorem pct_fallback (s : Settings) (h : s.pct.positive = false ∨ s.fsSize = 0) :
    effMaxBytes s = s.maxBytes := by
  rcases h with h | h <;> simp [effMaxBytes, h]

/-! ## oldest first, whole blocks only -/

/-- `deletable_is_suffix`: retention (time or size) never deletes a block that is strictly newer than a
    block it keeps.  No range hypothesis is needed: both selections are suffixes of the newest-first list
    whatever the arithmetic does. -/
theorem deletable_is_suffix (s : Settings) (bs : List Blk) (hs : SortedDesc bs) (d k : Blk)
    (hd : d ∈ beyondTime s.retention bs ++ beyondSize s bs) (hk : k ∈ bs)
    (hk' : k ∉ beyondTime s.retention bs ++ beyondSize s bs) : d.maxt ≤ k.maxt := by
  obtain ⟨n, _, hn⟩ := beyondTime_suffix s.retention bs
  obtain ⟨m, _, hm⟩ := beyondSize_suffix s bs
  rw [hn, hm] at hd hk'
  simp only [List.mem_append, not_or] at hd hk'
  rcases hd with hd | hd
  · exact sorted_take_drop hs n (mem_take_of_not_mem_drop hk hk'.1) hd
  · exact sorted_take_drop hs m (mem_take_of_not_mem_drop hk hk'.2) hd

/-- The same for `deletableBlocks` on an arbitrary (unsorted) block list. -/
theorem deletable_is_suffix_blocks (s : Settings) (bs : List Blk) (d k : Blk)
    (hd : d ∈ beyondTime s.retention (sortDesc bs) ++ beyondSize s (sortDesc bs)) (hk : k ∈ bs)
    (hk' : k ∉ beyondTime s.retention (sortDesc bs) ++ beyondSize s (sortDesc bs)) : d.maxt ≤ k.maxt :=
  deletable_is_suffix s (sortDesc bs) (sortDesc_sorted bs) d k hd (mem_sortDesc.mpr hk) hk'

/-- Only blocks of the input are ever selected ("whole blocks only": the result is a set of block ids). -/
theorem deletable_subset (s : Settings) (bs : List Blk) (b : Blk) (hb : b ∈ deletableSel s bs) : b ∈ bs := by
  obtain ⟨n, _, hn⟩ := beyondTime_suffix s.retention (sortDesc bs)
  obtain ⟨m, _, hm⟩ := beyondSize_suffix s (sortDesc bs)
  simp only [deletableSel, hn, hm, List.mem_append] at hb
  rcases hb with (hb | hb) | hb
  · exact mem_sortDesc.mp (List.mem_filter.mp hb).1
  · exact mem_sortDesc.mp (List.mem_of_mem_drop hb)
  · exact mem_sortDesc.mp (List.mem_of_mem_drop hb)

/-! ## both limits off -/

/-- `retention_disabled_deletes_nothing`: with RetentionDuration = 0 and no effective byte limit,
    `deletableBlocks` selects exactly the blocks flagged `Compaction.Deletable`. -/
theorem retention_disabled_deletes_nothing (s : Settings) (bs : List Blk) (hR : s.retention = 0)
    (hL : effMaxBytes s ≤ 0) (b : Blk) : b ∈ deletableSel s bs ↔ b ∈ bs ∧ b.deletable = true := by
  have ht : beyondTime s.retention (sortDesc bs) = [] := by
    cases sortDesc bs with
    | nil => rfl
    | cons b0 rest => simp [beyondTime, hR]
  simp [deletableSel, ht, size_disabled s _ hL, mem_sortDesc]

/-- …and a reload then removes only flagged blocks and superseded parents. -/
theorem reload_disabled (s : Settings) (bs : List Blk) (hR : s.retention = 0) (hL : effMaxBytes s ≤ 0) (i : Nat) :
    i ∈ reloadDeletable s bs ↔ (∃ b ∈ bs, b.deletable = true ∧ b.id = i) ∨ (∃ c ∈ bs, i ∈ c.parents) := by
  simp only [reloadDeletable, deletableBlocks, List.mem_append, List.mem_map, List.mem_flatMap]
  constructor
  · rintro (⟨b, hb, rfl⟩ | h)
    · have := (retention_disabled_deletes_nothing s bs hR hL b).mp hb
      exact Or.inl ⟨b, this.1, this.2, rfl⟩
    · exact Or.inr h
  · rintro (⟨b, hb, hd, rfl⟩ | h)
    · exact Or.inl ⟨b, (retention_disabled_deletes_nothing s bs hR hL b).mpr ⟨hb, hd⟩, rfl⟩
    · exact Or.inr h

/-! ## reloadBlocks -/

/-- `superseded_parents_removed`: after a reload no loaded block carries an id that some block present
    before the reload (in particular the child written by an interrupted compaction) names as a parent. -/
theorem superseded_parents_removed {H : Type} (s : Settings) (db : Db H) (c : Blk) (hc : c ∈ db.blocks)
    (p : Nat) (hp : p ∈ c.parents) : ∀ b ∈ (reload s db).1.blocks, b.id ≠ p := by
  intro b hb hid
  simp only [reload, List.mem_filter, Bool.not_eq_true', List.contains_eq_mem, decide_eq_false_iff_not] at hb
  apply hb.2
  simp only [reloadDeletable, List.mem_append, List.mem_flatMap]
  exact Or.inr ⟨c, hc, hid ▸ hp⟩

/-- …and its directory is among the removed ones if it exists. -/
theorem superseded_parents_deleted {H : Type} (s : Settings) (db : Db H) (c : Blk) (hc : c ∈ db.blocks)
    (b : Blk) (hb : b ∈ db.blocks) (hp : b.id ∈ c.parents) : b.id ∈ (reload s db).2 := by
  simp only [reload, List.mem_map, List.mem_filter, List.contains_eq_mem, decide_eq_true_eq]
  refine ⟨b, ⟨hb, ?_⟩, rfl⟩
  simp only [reloadDeletable, List.mem_append, List.mem_flatMap]
  exact Or.inr ⟨c, hc, hp⟩

/-- Flagged blocks and blocks selected by retention are removed as well. -/
theorem selected_deleted {H : Type} (s : Settings) (db : Db H) (b : Blk) (hb : b ∈ deletableSel s db.blocks) :
    b.id ∈ (reload s db).2 ∧ ∀ x ∈ (reload s db).1.blocks, x.id ≠ b.id := by
  have hmem : b.id ∈ reloadDeletable s db.blocks := by
    simp only [reloadDeletable, deletableBlocks, List.mem_append, List.mem_map]
    exact Or.inl ⟨b, hb, rfl⟩
  constructor
  · simp only [reload, List.mem_map, List.mem_filter, List.contains_eq_mem, decide_eq_true_eq]
    exact ⟨b, ⟨deletable_subset s _ b hb, hmem⟩, rfl⟩
  · intro x hx hid
    simp only [reload, List.mem_filter, Bool.not_eq_true', List.contains_eq_mem, decide_eq_false_iff_not] at hx
    exact hx.2 (hid ▸ hmem)

/-- Whole blocks only: what stays loaded is a sub-list of what was there (same blocks, same order, nothing
    altered), and every removed directory belonged to a block that was there. -/
theorem reload_whole_blocks {H : Type} (s : Settings) (db : Db H) :
    (reload s db).1.blocks.Sublist db.blocks ∧ ∀ i ∈ (reload s db).2, ∃ b ∈ db.blocks, b.id = i := by
  constructor
  · exact List.filter_sublist
  · intro i hi
    simp only [reload, List.mem_map, List.mem_filter] at hi
    obtain ⟨b, ⟨hb, _⟩, rfl⟩ := hi
    exact ⟨b, hb, rfl⟩

/-- A block is removed by a reload only for one of the four reasons. -/
theorem reload_deleted_reason {H : Type} (s : Settings) (db : Db H) (b : Blk)
    (hgone : b.id ∈ (reload s db).2) :
    (∃ x ∈ db.blocks, x.id = b.id ∧ x.deletable = true)
    ∨ (∃ x ∈ beyondTime s.retention (sortDesc db.blocks), x.id = b.id)
    ∨ (∃ x ∈ beyondSize s (sortDesc db.blocks), x.id = b.id)
    ∨ (∃ c ∈ db.blocks, b.id ∈ c.parents) := by
  simp only [reload, List.mem_map, List.mem_filter, List.contains_eq_mem, decide_eq_true_eq] at hgone
  obtain ⟨x, ⟨_, hx⟩, hid⟩ := hgone
  simp only [reloadDeletable, deletableBlocks, deletableSel, List.mem_append, List.mem_map,
    List.mem_flatMap, List.mem_filter] at hx
  rcases hx with ⟨y, ((hy | hy) | hy), hyid⟩ | ⟨c, hc, hp⟩
  · exact Or.inl ⟨y, mem_sortDesc.mp hy.1, hyid.trans hid, hy.2⟩
  · exact Or.inr (Or.inl ⟨y, hy, hyid.trans hid⟩)
  · exact Or.inr (Or.inr (Or.inl ⟨y, hy, hyid.trans hid⟩))
  · exact Or.inr (Or.inr (Or.inr ⟨c, hc, hid ▸ hp⟩))

/-- `head_untouched`: a reload has no way to change head data. -/
theorem head_untouched {H : Type} (s : Settings) (db : Db H) : (reload s db).1.head = db.head := rfl

/-! ## finding: superseded blocks count against the size limit -/

/-- What the size clause of the property demands at reload level (`holdsReload`) is *not* met by the
    code as transcribed: the compaction child 3 (3160 bytes) replaces 1 and 2, the limit is 4890 bytes, yet
    the child itself is deleted together with its parents because 2 (1920 bytes, equal MaxTime, sorted
    first) is still counted.  Observed end-to-end with real blocks (known finding F27-C09). -/
theorem size_counts_superseded_witness :
    let s : Settings := ⟨0, 4890, .fin 0, 0, 0⟩
    let bs : List Blk := [⟨0, 400, 700, 1730, false, []⟩, ⟨1, 500, 700, 1980, false, []⟩,
                          ⟨2, 700, 900, 1920, false, []⟩, ⟨3, 500, 900, 3160, false, [1, 2]⟩]
    (reload s (⟨bs, ()⟩ : Db Unit)).2 = [0, 1, 2, 3]
    ∧ holdsReload s bs [0, 1, 2, 3] = some "size-premature explained-by=counting-deleted-blocks block=0" := by
  decide

/-! ## the judge's clauses hold for the model (link between `holdsFast` and the transcription) -/

/-- Well-formed input of one `deletableBlocks` call: distinct ULIDs and the two range hypotheses. -/
def WF (s : Settings) (bs : List Blk) : Prop :=
  (bs.map (·.id)).Nodup ∧ timeInRange bs = true ∧ sizeInRange s.headSize bs = true

theorem id_inj : ∀ {bs : List Blk}, (bs.map (·.id)).Nodup → ∀ {a b : Blk}, a ∈ bs → b ∈ bs → a.id = b.id → a = b := by
  intro bs
  induction bs with
  | nil => intro _ a b ha; cases ha
  | cons x xs ih =>
    intro hnd a b ha hb hid
    simp only [List.map_cons, List.nodup_cons, List.mem_map, not_exists, not_and] at hnd
    rcases List.mem_cons.mp ha with hax | hax
    · rcases List.mem_cons.mp hb with hbx | hbx
      · rw [hax, hbx]
      · exact absurd (hax ▸ hid).symm (hnd.1 b hbx)
    · rcases List.mem_cons.mp hb with hbx | hbx
      · exact absurd (hbx ▸ hid) (hnd.1 a hax)
      · exact ih hnd.2 hax hbx hid

theorem contains_ids_iff {bs l : List Blk} (hnd : (bs.map (·.id)).Nodup) (hsub : ∀ x ∈ l, x ∈ bs)
    {b : Blk} (hb : b ∈ bs) : (l.map (·.id)).contains b.id = true ↔ b ∈ l := by
  simp only [List.contains_eq_mem, List.mem_map, decide_eq_true_eq]
  constructor
  · rintro ⟨x, hx, hid⟩
    exact id_inj hnd (hsub x hx) hb hid ▸ hx
  · exact fun h => ⟨b, h, rfl⟩

theorem timeInRange_spec {bs : List Blk} (h : timeInRange bs = true) :
    ∀ a ∈ bs, ∀ b ∈ bs, I64 (a.maxt - b.maxt) := by
  intro a ha b hb
  simp only [timeInRange, List.all_eq_true, decide_eq_true_eq] at h
  exact h a ha b hb

/-- Clause *time* of the judge holds for the model (non-negative durations; for negative ones see
    `time_negative_duration`). -/
theorem model_time_clause (s : Settings) (bs : List Blk) (hwf : WF s bs) (hR : 0 ≤ s.retention) :
    timeOk s.retention bs ((beyondTime s.retention (sortDesc bs)).map (·.id)) = true := by
  obtain ⟨hnd, htr, _⟩ := hwf
  have hsub : ∀ x ∈ beyondTime s.retention (sortDesc bs), x ∈ bs := by
    intro x hx
    obtain ⟨n, _, hn⟩ := beyondTime_suffix s.retention (sortDesc bs)
    rw [hn] at hx
    exact mem_sortDesc.mp (List.mem_of_mem_drop hx)
  unfold timeOk
  by_cases hpos : s.retention > 0
  · rw [if_pos hpos, List.all_eq_true]
    intro b hb
    rw [beq_iff_eq, Bool.eq_iff_iff, contains_ids_iff hnd hsub hb,
      time_exact_blocks s.retention hpos bs (timeInRange_spec htr) b]
    simp [expired, hpos, hb]
  · have h0 : s.retention = 0 := by omega
    rw [if_neg hpos, if_pos h0, List.all_eq_true]
    intro b hb
    have : beyondTime s.retention (sortDesc bs) = [] := by
      cases sortDesc bs with
      | nil => rfl
      | cons b0 rest => simp [beyondTime, h0]
    simp [this]

/-- Clause *compose* of the judge holds for the model: deletableBlocks = flagged ∪ time ∪ size. -/
theorem model_compose_clause (s : Settings) (bs : List Blk) (hnd : (bs.map (·.id)).Nodup) :
    composeOk bs ((beyondTime s.retention (sortDesc bs)).map (·.id)) ((beyondSize s (sortDesc bs)).map (·.id))
      (deletableBlocks s bs) = true := by
  have hsubT : ∀ x ∈ beyondTime s.retention (sortDesc bs), x ∈ bs := by
    intro x hx
    obtain ⟨n, _, hn⟩ := beyondTime_suffix s.retention (sortDesc bs)
    rw [hn] at hx
    exact mem_sortDesc.mp (List.mem_of_mem_drop hx)
  have hsubS : ∀ x ∈ beyondSize s (sortDesc bs), x ∈ bs := by
    intro x hx
    obtain ⟨n, _, hn⟩ := beyondSize_suffix s (sortDesc bs)
    rw [hn] at hx
    exact mem_sortDesc.mp (List.mem_of_mem_drop hx)
  unfold composeOk
  rw [List.all_eq_true]
  intro b hb
  rw [beq_iff_eq, Bool.eq_iff_iff]
  simp only [Bool.or_eq_true]
  rw [contains_ids_iff hnd hsubT hb, contains_ids_iff hnd hsubS hb]
  unfold deletableBlocks
  rw [contains_ids_iff hnd (deletable_subset s bs) hb]
  simp only [deletableSel, List.mem_append, List.mem_filter, mem_sortDesc]
  constructor
  · rintro ((⟨_, hd⟩ | h) | h)
    · exact Or.inl (Or.inl hd)
    · exact Or.inl (Or.inr h)
    · exact Or.inr h
  · rintro ((hd | h) | h)
    · exact Or.inl (Or.inl ⟨hb, hd⟩)
    · exact Or.inl (Or.inr h)
    · exact Or.inr h

example : WF ⟨10, 100, .fin 0, 0, 7⟩ [⟨0, 0, 10, 30, false, []⟩, ⟨1, 0, 5, 80, true, [0]⟩] := by
  refine ⟨by decide, by decide, by decide⟩

/-- Full link statement (`holdsFast` accepts the model's own output on every well-formed input).  Proved
    so far: the *time* clause (`model_time_clause`, `time_negative_duration`), the *compose* clause
    (`model_compose_clause`), the *oldest-first* clause in the form `deletable_is_suffix_blocks`, the
    *disabled* clause (`retention_disabled_deletes_nothing`).  Missing: transporting `size_exact` (a
    statement about the prefix of the sorted list) to the judge's order-free `sizeOk` (sums over filters
    of the unsorted list) — a permutation argument over `sumSizes` that is not done yet.  The judge is run
    on every model output in the correspondence (model = implementation on all explored cases and the judge
    accepts them), which is a test, not a proof. -/
def model_holds_fast_full : Prop :=
  ∀ (s : Settings) (bs : List Blk), WF s bs →
    holdsFast s bs ((beyondTime s.retention (sortDesc bs)).map (·.id))
      ((beyondSize s (sortDesc bs)).map (·.id)) (deletableBlocks s bs) = none

end Prom.C09
