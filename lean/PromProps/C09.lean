import PromModel.Tsdb.Retention
import PromModel.Tsdb.RetentionSpec
namespace Prom.C09
open Prom.Retention

theorem stub : sortDesc [] = [] := rfl

end Prom.C09
