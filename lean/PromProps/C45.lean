import PromProofs.RecordingLemmas
/-
  C45 — Recording rules write their results and staleness markers.

  Model: `Prom.Recording` (transcription of rules/recording.go, of Group.Eval / CopyState /
  cleanupStaleSeries / the markStale path of Group.run in rules/group.go, and of buildDependencyMap /
  SplitGroupIntoBatches). The storage is a committed log with the in-order acceptance rule of a tsdb head.
  All theorems hold for arbitrary storages, arbitrary query results and arbitrary evaluation times.
-/
namespace Prom.C45
open Prom.Recording Prom.Recording.Lemmas
open Prom.Alerting (Labels hasDup)

/-! ### one rule evaluation -/

/-- Series a rule evaluation produced: the result samples the storage accepted. -/
def produced (o : RuleOut) : List Labels := (o.results.filter (·.2 = .ok)).map (·.1.1)

theorem ruleVector_ok (r : Rule) (limit : Int) (res vec : List Sample) (h : ruleVector r limit res = .ok vec) :
    vec = res.map (fun x => (recLabels r x.1, x.2)) ∧ (vec.map (·.1)).Nodup ∧ ¬ (limit > 0 ∧ (vec.length : Int) > limit) := by
  unfold ruleVector at h
  simp only at h
  split at h
  · cases h
  · split at h
    · cases h
    · rename_i hd hl
      cases h
      exact ⟨rfl, nodup_of_hasDup_false _ (by simpa using hd), hl⟩

theorem produced_eq (s : Store) (t : Int) (vec : List Sample) :
    ((vec.zip (batchErrs s t vec)).filter (·.2 = .ok)).map (·.1.1) = (accepted s t vec).map (·.1) := by
  unfold batchErrs accepted
  induction vec with
  | nil => rfl
  | cons x rest ih =>
    simp only [List.map_cons, List.zip_cons_cons, List.filter_cons]
    by_cases h : check s (minValidOf s t) x.1 t x.2 = .ok
    · simp [h, ih]
    · simp [h, ih]

theorem mem_zip_errs (s : Store) (t : Int) (vec : List Sample) (x : Sample × AppErr)
    (hx : x ∈ vec.zip (batchErrs s t vec)) : x.2 = check s (minValidOf s t) x.1.1 t x.1.2 := by
  unfold batchErrs at hx
  induction vec with
  | nil => cases hx
  | cons y rest ih =>
    simp only [List.map_cons, List.zip_cons_cons, List.mem_cons] at hx
    rcases hx with rfl | h
    · rfl
    · exact ih h

/-- `failed_eval_keeps_previous_set`: an evaluation that fails (query error, duplicate label set after
    relabelling, limit) writes nothing — no sample, no staleness marker — and leaves `seriesInPreviousEval` as
    it was. -/
theorem failed_eval_keeps_previous_set (s : Store) (r : Rule) (prev : List Labels) (limit t : Int)
    (q : Option (List Sample)) (h : (evalRule s r prev limit t q).2.2.status ≠ .ok) :
    evalRule s r prev limit t q = (s, prev, { status := (evalRule s r prev limit t q).2.2.status }) := by
  unfold evalRule at h ⊢
  cases q with
  | none => rfl
  | some res =>
    simp only at h ⊢
    cases hv : ruleVector r limit res with
    | error e => rfl
    | ok vec => simp [hv] at h

/-- A failing query, a duplicate label set and an exceeded limit are failures. -/
theorem eval_fails_iff (s : Store) (r : Rule) (prev : List Labels) (limit t : Int) (q : Option (List Sample)) :
    (evalRule s r prev limit t q).2.2.status = .ok ↔ ∃ res vec, q = some res ∧ ruleVector r limit res = .ok vec := by
  unfold evalRule
  cases q with
  | none => simp
  | some res =>
    cases hv : ruleVector r limit res with
    | error e =>
      simp only [hv]
      have : e ≠ .ok := by
        unfold ruleVector at hv; simp only at hv
        split at hv
        · cases hv; decide
        · split at hv
          · cases hv; decide
          · cases hv
      simp [this, hv]
    | ok vec => simp [hv]

/-- `eval_stores_result`: after a successful evaluation at sample time `t`
    (1) the appended vector is the query result under the recorded name and labels, in order;
    (2) every sample of it that the storage accepted is in the storage at `t` with its value;
    (3) nothing else was written except staleness markers at `t` for vanished series of the previous set. -/
theorem eval_stores_result (s : Store) (r : Rule) (prev : List Labels) (limit t : Int) (res vec : List Sample)
    (hv : ruleVector r limit res = .ok vec) :
    let o := evalRule s r prev limit t (some res)
    o.2.2.status = .ok ∧
    o.2.2.results.map (·.1) = res.map (fun x => (recLabels r x.1, x.2)) ∧
    (∀ x ∈ o.2.2.results, x.2 = .ok → (⟨x.1.1, t, x.1.2⟩ : Entry) ∈ o.1.log) ∧
    (∀ e ∈ o.1.log, e ∈ s.log ∨ (e.t = t ∧ ((e.l, e.v) ∈ vec ∨ (e.v = staleBits ∧ e.l ∈ vanished prev (produced o.2.2))))) := by
  obtain ⟨hvec, hnd, _⟩ := ruleVector_ok r limit res vec hv
  simp only [evalRule, hv]
  refine ⟨by trivial, ?_, ?_, ?_⟩
  · rw [← hvec]
    simp [batchErrs, List.map_fst_zip]
  · intro x hx hok
    have hx1 : x.1 ∈ vec := (List.of_mem_zip hx).1
    have hx2 : x.2 = check s (minValidOf s t) x.1.1 t x.1.2 := mem_zip_errs s t vec x hx
    exact appendBatch_stores s t vec _ hnd x.1 hx1 (hx2 ▸ hok)
  · intro e he
    rcases appendBatch_new _ _ _ _ he with h | ⟨x, hx, hok, rfl⟩
    · exact Or.inl h
    · right
      refine ⟨rfl, ?_⟩
      rcases List.mem_append.mp hx with h | h
      · exact Or.inl h
      · right
        simp only [List.mem_map] at h
        obtain ⟨l, hl, rfl⟩ := h
        refine ⟨rfl, ?_⟩
        simpa [produced, produced_eq] using hl

end Prom.C45
