import PromProofs.RecordingLemmas
/-
  C45 — Recording rules write their results and staleness markers.

  Model: `Prom.Recording` (transcription of rules/recording.go, of Group.Eval / CopyState /
  cleanupStaleSeries / the markStale path of Group.run in rules/group.go, and of buildDependencyMap /
  SplitGroupIntoBatches). The storage is a committed log with the in-order acceptance rule of a tsdb head.
  All theorems hold for arbitrary storages, arbitrary query results and arbitrary evaluation times.
-/
namespace Prom.C45
open Prom.Recording Prom.Recording.Lemmas
open Prom.Alerting (Labels hasDup)

/-! ### one rule evaluation -/

/-- Series a rule evaluation produced: the result samples the storage accepted. -/
def produced (o : RuleOut) : List Labels := (o.results.filter (·.2 = .ok)).map (·.1.1)

theorem ruleVector_ok (r : Rule) (limit : Int) (res vec : List Sample) (h : ruleVector r limit res = .ok vec) :
    vec = res.map (fun x => (recLabels r x.1, x.2)) ∧ (vec.map (·.1)).Nodup ∧ ¬ (limit > 0 ∧ (vec.length : Int) > limit) := by
  unfold ruleVector at h
  simp only at h
  split at h
  · cases h
  · split at h
    · cases h
    · rename_i hd hl
      cases h
      exact ⟨rfl, nodup_of_hasDup_false _ (by simpa using hd), hl⟩

theorem produced_eq (s : Store) (t : Int) (vec : List Sample) :
    ((vec.zip (batchErrs s t vec)).filter (·.2 = .ok)).map (·.1.1) = (accepted s t vec).map (·.1) := by
  unfold batchErrs accepted
  induction vec with
  | nil => rfl
  | cons x rest ih =>
    simp only [List.map_cons, List.zip_cons_cons, List.filter_cons]
    by_cases h : check s (minValidOf s t) x.1 t x.2 = .ok
    · simp [h, ih]
    · simp [h, ih]

theorem mem_zip_errs (s : Store) (t : Int) (vec : List Sample) (x : Sample × AppErr)
    (hx : x ∈ vec.zip (batchErrs s t vec)) : x.2 = check s (minValidOf s t) x.1.1 t x.1.2 := by
  unfold batchErrs at hx
  induction vec with
  | nil => cases hx
  | cons y rest ih =>
    simp only [List.map_cons, List.zip_cons_cons, List.mem_cons] at hx
    rcases hx with rfl | h
    · rfl
    · exact ih h

/-- `failed_eval_keeps_previous_set`: an evaluation that fails (query error, duplicate label set after
    relabelling, limit) writes nothing — no sample, no staleness marker — and leaves `seriesInPreviousEval` as
    it was. -/
theorem failed_eval_keeps_previous_set (s : Store) (r : Rule) (prev : List Labels) (limit t : Int)
    (q : Option (List Sample)) (h : (evalRule s r prev limit t q).2.2.status ≠ .ok) :
    evalRule s r prev limit t q = (s, prev, { status := (evalRule s r prev limit t q).2.2.status }) := by
  unfold evalRule at h ⊢
  cases q with
  | none => rfl
  | some res =>
    simp only at h ⊢
    cases hv : ruleVector r limit res with
    | error e => rfl
    | ok vec => simp [hv] at h

/-- A failing query, a duplicate label set and an exceeded limit are failures. -/
theorem eval_fails_iff (s : Store) (r : Rule) (prev : List Labels) (limit t : Int) (q : Option (List Sample)) :
    (evalRule s r prev limit t q).2.2.status = .ok ↔ ∃ res vec, q = some res ∧ ruleVector r limit res = .ok vec := by
  unfold evalRule
  cases q with
  | none => simp
  | some res =>
    cases hv : ruleVector r limit res with
    | error e =>
      simp only [hv]
      have : e ≠ .ok := by
        unfold ruleVector at hv; simp only at hv
        split at hv
        · cases hv; decide
        · split at hv
          · cases hv; decide
          · cases hv
      simp [this, hv]
    | ok vec => simp [hv]

/-- `eval_stores_result`: after a successful evaluation at sample time `t`
    (1) the appended vector is the query result under the recorded name and labels, in order;
    (2) every sample of it that the storage accepted is in the storage at `t` with its value;
    (3) nothing else was written except staleness markers at `t` for vanished series of the previous set. -/
theorem eval_stores_result (s : Store) (r : Rule) (prev : List Labels) (limit t : Int) (res vec : List Sample)
    (hv : ruleVector r limit res = .ok vec) :
    let o := evalRule s r prev limit t (some res)
    o.2.2.status = .ok ∧
    o.2.2.results.map (·.1) = res.map (fun x => (recLabels r x.1, x.2)) ∧
    (∀ x ∈ o.2.2.results, x.2 = .ok → (⟨x.1.1, t, x.1.2⟩ : Entry) ∈ o.1.log) ∧
    (∀ e ∈ o.1.log, e ∈ s.log ∨ (e.t = t ∧ ((e.l, e.v) ∈ vec ∨ (e.v = staleBits ∧ e.l ∈ vanished prev (produced o.2.2))))) := by
  obtain ⟨hvec, hnd, _⟩ := ruleVector_ok r limit res vec hv
  simp only [evalRule, hv]
  refine ⟨by trivial, ?_, ?_, ?_⟩
  · rw [← hvec]
    simp [batchErrs, List.map_fst_zip]
  · intro x hx hok
    have hx1 : x.1 ∈ vec := (List.of_mem_zip hx).1
    have hx2 : x.2 = check s (minValidOf s t) x.1.1 t x.1.2 := mem_zip_errs s t vec x hx
    exact appendBatch_stores s t vec _ hnd x.1 hx1 (hx2 ▸ hok)
  · intro e he
    rcases appendBatch_new _ _ _ _ he with h | ⟨x, hx, hok, rfl⟩
    · exact Or.inl h
    · right
      refine ⟨rfl, ?_⟩
      rcases List.mem_append.mp hx with h | h
      · exact Or.inl h
      · right
        simp only [List.mem_map] at h
        obtain ⟨l, hl, rfl⟩ := h
        refine ⟨rfl, ?_⟩
        simpa [produced, produced_eq] using hl


/-- With an evaluation time newer than everything stored (the normal case) every sample of the result
    vector is stored: the storage then holds exactly the rule's result at `t`. -/
theorem eval_stores_all_when_newer (s : Store) (r : Rule) (prev : List Labels) (limit t : Int) (res vec : List Sample)
    (hv : ruleVector r limit res = .ok vec) (hnew : ∀ e ∈ s.log, e.t < t) (hmax : ∀ m, s.maxt = some m → m - halfRange ≤ t) :
    ∀ x ∈ vec, (⟨x.1, t, x.2⟩ : Entry) ∈ (evalRule s r prev limit t (some res)).1.log := by
  intro x hx
  have hok : check s (minValidOf s t) x.1 t x.2 = .ok := by
    unfold check
    have h1 : ¬ t < minValidOf s t := by
      unfold minValidOf
      cases hm : s.maxt with
      | none => simp [halfRange]; omega
      | some m => have := hmax m hm; simp; omega
    rw [if_neg h1]
    cases hl : s.last x.1 with
    | none => rfl
    | some e =>
      have := hnew e (last_mem s x.1 e hl).1
      simp [this]
  have h := eval_stores_result s r prev limit t res vec hv
  simp only [evalRule, hv] at h ⊢
  exact appendBatch_stores s t vec _ (ruleVector_ok r limit res vec hv).2.1 x hx hok

example : -- hypotheses of `eval_stores_all_when_newer` are satisfiable and the result is stored
    let r : Rule := { name := "x", rlabels := [("job", "j")], sels := [] }
    let s : Store := { log := [⟨[("__name__", "x"), ("job", "j")], 5, 1⟩], maxt := some 5 }
    (evalRule s r [] 0 10 (some [([("__name__", "m")], 7)])).1.log =
      [⟨[("__name__", "x"), ("job", "j")], 10, 7⟩, ⟨[("__name__", "x"), ("job", "j")], 5, 1⟩] := by decide

/-! ### evaluation histories of one rule -/

/-- One step of a rule's history: the storage the evaluation meets (arbitrary: other rules, other groups and
    scrapes write between two evaluations of the rule), the sample time and the query result. -/
abbrev Step := Store × Int × Option (List Sample)

/-- The outputs of a history of evaluations of one rule, threading `seriesInPreviousEval[i]`. -/
def ruleHistory (r : Rule) (limit : Int) : List Labels → List Step → List RuleOut
  | _, [] => []
  | prev, (s, t, q) :: rest =>
    let o := evalRule s r prev limit t q
    o.2.2 :: ruleHistory r limit o.2.1 rest

/-- Series produced by the last successful evaluation of a list of outputs (`p` if there is none). -/
def lastProduced : List Labels → List RuleOut → List Labels
  | p, [] => p
  | p, o :: os => lastProduced (if o.status = .ok then produced o else p) os

/-- One evaluation: the new previous-set and the markers, in terms of the output only. -/
theorem evalRule_prev_markers (s : Store) (r : Rule) (prev : List Labels) (limit t : Int) (q : Option (List Sample)) :
    let o := evalRule s r prev limit t q
    o.2.1 = (if o.2.2.status = .ok then produced o.2.2 else prev) ∧
    o.2.2.markers.map (·.1) = (if o.2.2.status = .ok then vanished prev (produced o.2.2) else []) := by
  unfold evalRule
  cases q with
  | none => simp
  | some res =>
    cases hv : ruleVector r limit res with
    | error e =>
      have : e ≠ .ok := by
        unfold ruleVector at hv; simp only at hv
        split at hv
        · cases hv; decide
        · split at hv
          · cases hv; decide
          · cases hv
      simp [hv, this]
    | ok vec =>
      simp only [hv, if_true]
      refine ⟨?_, ?_⟩
      · simp [produced, produced_eq]
      · simp only [produced, produced_eq]
        rw [List.map_fst_zip]
        · have : ((fun (x : Labels × Nat) => x.fst) ∘ fun l => (l, staleBits)) = id := by funext l; rfl
          simp [this]
        · simp [batchErrs]

/-- `stale_exact`, for ALL evaluation histories of a rule (arbitrary interleaved storage contents, times,
    results and failures): at evaluation `k` the staleness markers are exactly
    `produced(last successful evaluation before k) ∖ produced(k)`; a failed evaluation writes none. -/
theorem stale_exact (r : Rule) (limit : Int) (prev0 : List Labels) (h : List Step) (k : Nat)
    (hk : k < (ruleHistory r limit prev0 h).length) :
    let outs := ruleHistory r limit prev0 h
    (outs[k]).markers.map (·.1) =
      if (outs[k]).status = .ok then vanished (lastProduced prev0 (outs.take k)) (produced outs[k]) else [] := by
  induction h generalizing prev0 k with
  | nil => simp [ruleHistory] at hk
  | cons st rest ih =>
    obtain ⟨s, t, q⟩ := st
    have h1 := evalRule_prev_markers s r prev0 limit t q
    cases k with
    | zero => simpa [ruleHistory, lastProduced] using h1.2
    | succ k =>
      simp only [ruleHistory, List.length_cons, Nat.add_lt_add_iff_right] at hk
      have := ih (evalRule s r prev0 limit t q).2.1 k hk
      simp only [ruleHistory, List.getElem_cons_succ, List.take_succ_cons, lastProduced]
      rw [← h1.1]
      exact this

/-- The previous-set after a history is the production of its last successful evaluation. -/
theorem prev_is_lastProduced (r : Rule) (limit : Int) (prev0 : List Labels) (h : List Step) :
    (h.foldl (fun p (st : Step) => (evalRule st.1 r p limit st.2.1 st.2.2).2.1) prev0) =
      lastProduced prev0 (ruleHistory r limit prev0 h) := by
  induction h generalizing prev0 with
  | nil => rfl
  | cons st rest ih =>
    obtain ⟨s, t, q⟩ := st
    simp only [List.foldl_cons, ruleHistory, lastProduced]
    rw [ih, ← (evalRule_prev_markers s r prev0 limit t q).1]

example : -- a concrete history: produce {a, b}, fail, produce {b}: marker for a at the third evaluation only
    let r : Rule := { name := "x", rlabels := [], sels := [] }
    let a : Labels := [("i", "1")]
    let b : Labels := [("i", "2")]
    let outs := ruleHistory r 0 [] [({}, 10, some [(a, 1), (b, 1)]), ({}, 20, none), ({}, 30, some [(b, 2)])]
    outs.map (fun o => o.markers.map (·.1)) = [[], [], [[("__name__", "x"), ("i", "1")]]] := by decide


/-! ### dependency analysis and concurrent batches -/

theorem optList_sublist {α : Type} (c : Bool) (x : α) : List.Sublist (if c then [] else [x]) [x] := by
  cases c <;> simp

/-- `dependency_sound`, for any number of rules and ANY dependency relation `dep i j` ("rule j reads what the
    earlier rule i writes"; in the code: `i < j` and a selector of `j` matches the name of `i`):
    (1) every rule is in some batch; (2) no batch contains a rule together with one of its dependencies;
    (3) no batch comes before a batch containing a dependency of one of its rules; (4) no rule is evaluated
    twice. Hence a rule's dependencies are all in strictly earlier batches. -/
theorem dependency_sound (n : Nat) (indet : Bool) (dep : Nat → Nat → Bool)
    (hdep : ∀ i j, dep i j = true → i < j ∧ j < n) :
    (∀ i, i < n → ∃ b ∈ batchesOf n indet dep, i ∈ b) ∧
    (∀ b ∈ batchesOf n indet dep, ∀ i ∈ b, ∀ j ∈ b, dep i j = false) ∧
    (batchesOf n indet dep).Pairwise (fun x y => ∀ j ∈ x, ∀ i ∈ y, dep i j = false) := by
  have hlt : ∀ i j, ¬ i < j → dep i j = false := by
    intro i j h
    cases hd : dep i j with
    | false => rfl
    | true => exact absurd (hdep i j hd).1 h
  have hD : ∀ i j, dep i j = true → (List.range n).any (fun i => dep i j) = true := by
    intro i j h
    exact List.any_eq_true.mpr ⟨i, List.mem_range.mpr (Nat.lt_trans (hdep i j h).1 (hdep i j h).2), h⟩
  have hE : ∀ i j, dep i j = true → (List.range n).any (fun j => dep i j) = true := by
    intro i j h
    exact List.any_eq_true.mpr ⟨j, List.mem_range.mpr (hdep i j h).2, h⟩
  have hsing : ∀ (l : List Nat), l.Pairwise (· < ·) →
      (l.map fun i => [i]).Pairwise (fun x y => ∀ j ∈ x, ∀ i ∈ y, dep i j = false) := by
    intro l hl
    rw [List.pairwise_map]
    refine hl.imp ?_
    intro a b hab j hj i hi
    simp only [List.mem_singleton] at hj hi
    subst hj; subst hi
    exact hlt _ _ (by omega)
  have hrange : (List.range n).Pairwise (· < ·) := List.pairwise_lt_range
  unfold batchesOf
  by_cases hi : indet = true
  · simp only [hi, if_true]
    refine ⟨?_, ?_, hsing _ hrange⟩
    · intro i hin
      exact ⟨[i], List.mem_map.mpr ⟨i, List.mem_range.mpr hin, rfl⟩, by simp⟩
    · intro b hb i hib j hjb
      obtain ⟨k, _, rfl⟩ := List.mem_map.mp hb
      simp only [List.mem_singleton] at hib hjb
      subst hib; subst hjb
      exact hlt _ _ (by omega)
  · simp only [hi, Bool.false_eq_true, ↓reduceIte]
    -- abbreviations
    obtain ⟨D, hDdef⟩ : ∃ D : Nat → Bool, ∀ j, D j = (List.range n).any fun i => dep i j := ⟨_, fun _ => rfl⟩
    obtain ⟨E, hEdef⟩ : ∃ E : Nat → Bool, ∀ i, E i = (List.range n).any fun j => dep i j := ⟨_, fun _ => rfl⟩
    simp only [← hDdef, ← hEdef]
    have hD' : ∀ i j, dep i j = true → D j = true := by intro i j h; rw [hDdef]; exact hD i j h
    have hE' : ∀ i j, dep i j = true → E i = true := by intro i j h; rw [hEdef]; exact hE i j h
    have hnoD : ∀ i j, D j = false → dep i j = false := by
      intro i j h; cases hd : dep i j with
      | false => rfl
      | true => rw [hD' i j hd] at h; cases h
    have hnoE : ∀ i j, E i = false → dep i j = false := by
      intro i j h; cases hd : dep i j with
      | false => rfl
      | true => rw [hE' i j hd] at h; cases h
    refine ⟨?_, ?_, ?_⟩
    · intro i hin
      have hir : i ∈ List.range n := List.mem_range.mpr hin
      cases hd : D i with
      | false =>
        refine ⟨(List.range n).filter fun j => !D j, ?_, by simp [List.mem_filter, hir, hd]⟩
        have hne : ((List.range n).filter fun j => !D j).isEmpty = false := by
          cases hx : ((List.range n).filter fun j => !D j).isEmpty with
          | false => rfl
          | true =>
            have := List.isEmpty_iff.mp hx
            have hm : i ∈ (List.range n).filter fun j => !D j := by simp [List.mem_filter, hir, hd]
            rw [this] at hm; cases hm
        simp [hne]
      | true =>
        cases he : E i with
        | true =>
          refine ⟨[i], ?_, by simp⟩
          simp only [List.mem_append, List.mem_map, List.mem_filter]
          exact Or.inl (Or.inr ⟨i, ⟨hir, by simp [hd, he]⟩, rfl⟩)
        | false =>
          refine ⟨(List.range n).filter fun j => D j && !E j, ?_, by simp [List.mem_filter, hir, hd, he]⟩
          have hne : ((List.range n).filter fun j => D j && !E j).isEmpty = false := by
            cases hx : ((List.range n).filter fun j => D j && !E j).isEmpty with
            | false => rfl
            | true =>
              have := List.isEmpty_iff.mp hx
              have hm : i ∈ (List.range n).filter fun j => D j && !E j := by simp [List.mem_filter, hir, hd, he]
              rw [this] at hm; cases hm
          simp [hne]
    · intro b hb i hib j hjb
      simp only [List.mem_append] at hb
      rcases hb with (hb | hb) | hb
      · have : b = (List.range n).filter fun j => !D j := by
          split at hb
          · cases hb
          · simpa using hb
        subst this
        simp only [List.mem_filter, Bool.not_eq_true'] at hjb
        exact hnoD i j hjb.2
      · obtain ⟨k, _, rfl⟩ := List.mem_map.mp hb
        simp only [List.mem_singleton] at hib hjb
        subst hib; subst hjb
        exact hlt _ _ (by omega)
      · have : b = (List.range n).filter fun j => D j && !E j := by
          split at hb
          · cases hb
          · simpa using hb
        subst this
        simp only [List.mem_filter, Bool.and_eq_true, Bool.not_eq_true'] at hib
        exact hnoE i j hib.2.2
    · refine List.Pairwise.sublist (l₂ := [(List.range n).filter fun j => !D j] ++
          ((List.range n).filter fun j => D j && E j).map (fun i => [i]) ++ [(List.range n).filter fun j => D j && !E j]) ?_ ?_
      · exact List.Sublist.append (List.Sublist.append (optList_sublist _ _) (List.Sublist.refl _)) (optList_sublist _ _)
      · rw [List.pairwise_append, List.pairwise_append]
        refine ⟨⟨List.pairwise_singleton _ _, hsing _ (hrange.sublist List.filter_sublist), ?_⟩, List.pairwise_singleton _ _, ?_⟩
        · intro x hx y _ j hj i _
          simp only [List.mem_singleton] at hx
          subst hx
          simp only [List.mem_filter, Bool.not_eq_true'] at hj
          exact hnoD i j hj.2
        · intro x _ y hy j _ i hi
          simp only [List.mem_singleton] at hy
          subst hy
          simp only [List.mem_filter, Bool.and_eq_true, Bool.not_eq_true'] at hi
          exact hnoE i j hi.2.2

/-- The code's relation satisfies the hypothesis of `dependency_sound`. -/
theorem depends_lt (rules : List Rule) (i j : Nat) (h : depends rules i j = true) : i < j ∧ j < rules.length := by
  unfold depends at h
  simp only [Bool.and_eq_true, decide_eq_true_eq] at h
  refine ⟨h.1, ?_⟩
  cases hj : rules[j]? with
  | none => simp [hj] at h
  | some r => exact (List.getElem?_eq_some_iff.mp hj).1

theorem batches_sound (rules : List Rule) :
    (∀ i, i < rules.length → ∃ b ∈ batches rules, i ∈ b) ∧
    (∀ b ∈ batches rules, ∀ i ∈ b, ∀ j ∈ b, depends rules i j = false) ∧
    (batches rules).Pairwise (fun x y => ∀ j ∈ x, ∀ i ∈ y, depends rules i j = false) :=
  dependency_sound rules.length (indeterminate rules) (depends rules) (depends_lt rules)

example : -- three rules, rc reads ra: ra and rb first (concurrently), rc afterwards
    batches [{ name := "ra", rlabels := [], sels := [{ name := .eq "in0" }] },
             { name := "rb", rlabels := [], sels := [{ name := .eq "in1" }] },
             { name := "rc", rlabels := [], sels := [{ name := .eq "ra" }] }] = [[0, 1], [2]] := by decide


/-! ### rule order: a rule sees the output of the rules evaluated before it -/

/-- The samples of a rule evaluation the storage accepted, as storage entries at sample time `t`. -/
def acceptedEntries (t : Int) (o : RuleOut) : List Entry :=
  (o.results.filter (·.2 = .ok)).map fun x => ⟨x.1.1, t, x.1.2⟩

theorem evalRule_mono (s : Store) (r : Rule) (prev : List Labels) (limit t : Int) (q : Option (List Sample))
    (e : Entry) (h : e ∈ s.log) : e ∈ (evalRule s r prev limit t q).1.log := by
  unfold evalRule
  cases q with
  | none => exact h
  | some res =>
    cases hv : ruleVector r limit res with
    | error _ => simpa [hv] using h
    | ok vec => simp only [hv]; exact appendBatch_mono _ _ _ _ h

theorem evalRule_stores (s : Store) (r : Rule) (prev : List Labels) (limit t : Int) (q : Option (List Sample)) :
    ∀ e ∈ acceptedEntries t (evalRule s r prev limit t q).2.2, e ∈ (evalRule s r prev limit t q).1.log := by
  intro e he
  cases q with
  | none => simp [evalRule, acceptedEntries] at he
  | some res =>
    cases hv : ruleVector r limit res with
    | error _ => simp [evalRule, hv, acceptedEntries] at he
    | ok vec =>
      simp only [acceptedEntries, List.mem_map, List.mem_filter, decide_eq_true_eq] at he
      obtain ⟨x, ⟨hx, hok⟩, rfl⟩ := he
      exact (eval_stores_result s r prev limit t res vec hv).2.2.1 x hx hok

/-- The storage only grows along the evaluation of a rule list: whatever was stored before is in the
    storage every later rule's query reads. -/
theorem evalRules_seen_mono (t : Int) (qs : Nat → Query) (order : List Nat) (s : Store) (g : GroupSt) :
    ∀ x ∈ (evalRules s g t qs order).2.2, ∀ e ∈ s.log, e ∈ x.2.1.log := by
  induction order generalizing s g with
  | nil => intro x hx; simp [evalRules] at hx
  | cons i rest ih =>
    intro x hx e he
    simp only [evalRules] at hx
    split at hx
    · exact ih s g x hx e he
    · rename_i r hr
      simp only [List.mem_cons] at hx
      rcases hx with rfl | hx
      · exact he
      · exact ih _ _ x hx e (evalRule_mono _ _ _ _ _ _ e he)

/-- `in_order_visibility`: in every evaluation of a rule list in a given order (sequential mode: the
    order of the group; concurrent mode: batch after batch), the storage that a rule's query function
    reads contains every sample that a rule evaluated before it wrote in this same evaluation. -/
theorem in_order_visibility (t : Int) (qs : Nat → Query) (order : List Nat) (s : Store) (g : GroupSt) :
    ((evalRules s g t qs order).2.2).Pairwise
      (fun a b => ∀ e ∈ acceptedEntries t a.2.2, e ∈ b.2.1.log) := by
  induction order generalizing s g with
  | nil => simp [evalRules]
  | cons i rest ih =>
    simp only [evalRules]
    split
    · exact ih s g
    · rename_i r hr
      refine List.pairwise_cons.mpr ⟨?_, ih _ _⟩
      intro b hb e he
      exact evalRules_seen_mono t qs rest _ _ b hb e (evalRule_stores _ _ _ _ _ _ e he)

/-- By construction every rule's output is `RecordingRule.Eval`/`Group.Eval` run with the query function
    reading exactly the recorded storage. -/
theorem evalRules_out_spec (t : Int) (qs : Nat → Query) (order : List Nat) (s : Store) (g : GroupSt) :
    ∀ x ∈ (evalRules s g t qs order).2.2, ∃ r prev, g.rules[x.1]? = some r ∧
      x.2.2 = (evalRule x.2.1 r prev g.limit t (runQuery x.2.1 r t (qs x.1))).2.2 := by
  induction order generalizing s g with
  | nil => intro x hx; simp [evalRules] at hx
  | cons i rest ih =>
    intro x hx
    simp only [evalRules] at hx
    split at hx
    · exact ih s g x hx
    · rename_i r hr
      simp only [List.mem_cons] at hx
      rcases hx with rfl | hx
      · exact ⟨r, _, hr, rfl⟩
      · obtain ⟨r', p', h1, h2⟩ := ih _ _ x hx
        exact ⟨r', p', h1, h2⟩

/-- The evaluated rules, in the order given (sequential mode: `0, 1, …, n−1`). -/
theorem evalRules_order (t : Int) (qs : Nat → Query) (order : List Nat) (s : Store) (g : GroupSt)
    (h : ∀ i ∈ order, i < g.rules.length) :
    ((evalRules s g t qs order).2.2).map (·.1) = order := by
  induction order generalizing s g with
  | nil => simp [evalRules]
  | cons i rest ih =>
    simp only [evalRules]
    split
    · rename_i hn
      have := h i (by simp)
      simp at hn
      omega
    · simp only [List.map_cons, List.cons.injEq, true_and]
      exact ih _ _ (fun j hj => h j (by simp [hj]))

/-! ### reload and removal -/

theorem takeMatch_left (olds : List (Nat × Rule)) (k : String × Labels) :
    ∀ x ∈ (takeMatch olds k).2, x ∈ olds := by
  induction olds with
  | nil => intro x hx; simp [takeMatch] at hx
  | cons y rest ih =>
    intro x hx
    simp only [takeMatch] at hx
    split at hx
    · exact List.mem_cons_of_mem _ hx
    · simp only [List.mem_cons] at hx
      rcases hx with rfl | hx
      · simp
      · exact List.mem_cons_of_mem _ (ih x hx)

theorem matchRules_left (news : List Rule) (olds : List (Nat × Rule)) :
    ∀ x ∈ (matchRules olds news).2, x ∈ olds := by
  induction news generalizing olds with
  | nil => intro x hx; simpa [matchRules] using hx
  | cons r rest ih =>
    intro x hx
    simp only [matchRules] at hx
    exact takeMatch_left olds r.key x (ih _ x hx)

/-- `removed_rule_marked_stale` (reload part): every series an old rule produced last, when the rule is not
    taken over by a rule of the new group (matching by name and labels, first with first), is in the new
    group's `staleSeries`; the old `staleSeries` are carried over. -/
theorem removed_rule_marked_stale (old : GroupSt) (newRules : List Rule) (fi : Nat) (r : Rule)
    (h : (fi, r) ∈ (matchRules (enum old.rules) newRules).2) :
    (∀ l ∈ old.prev.getD fi [], l ∈ (copyState old newRules).2) ∧
    (∀ l ∈ old.stale, l ∈ (copyState old newRules).2) := by
  have hm := matchRules_left newRules (enum old.rules) (fi, r) h
  refine ⟨?_, ?_⟩
  · intro l hl
    simp only [copyState, List.mem_append, List.mem_flatMap]
    refine Or.inr ⟨(fi, r), hm, ?_⟩
    have : ((matchRules (enum old.rules) newRules).2.map (·.2.key)).contains r.key = true := by
      simp only [List.contains_iff_mem, List.mem_map]
      exact ⟨(fi, r), h, rfl⟩
    rw [if_pos this]
    exact hl
  · intro l hl
    simp only [copyState, List.mem_append]
    exact Or.inl hl

/-- `removed_rule_marked_stale` (evaluation part): the next evaluation of the group attempts a staleness
    marker for every series in `staleSeries`, at the evaluation's sample time, and empties the list — the
    markers are written exactly once. -/
theorem stale_series_marked_once (s : Store) (g : GroupSt) (ts : Int) (qs : Nat → Query) :
    (evalGroup s g ts qs).2.2.2.map (·.1) = g.stale ∧ (evalGroup s g ts qs).2.1.stale = [] := by
  simp only [evalGroup, cleanup]
  refine ⟨?_, by trivial⟩
  rw [List.map_fst_zip]
  simp [batchErrs]

/-- Accepted markers of a clean-up (pairwise distinct series) are in the storage afterwards. -/
theorem cleanup_stores (s : Store) (stale : List Labels) (t : Int) (hnd : stale.Nodup) :
    ∀ x ∈ (cleanup s stale t).2, x.2 = .ok → (⟨x.1, t, staleBits⟩ : Entry) ∈ (cleanup s stale t).1.log := by
  intro x hx hok
  simp only [cleanup] at hx ⊢
  have hx1 := (List.of_mem_zip hx).1
  have hx2 : x.2 = check s (minValidOf s t) x.1 t staleBits := by
    have := mem_zip_errs s t (stale.map fun l => (l, staleBits)) ((x.1, staleBits), x.2) ?_
    · exact this
    · rw [List.zip_map_left]
      exact List.mem_map.mpr ⟨x, hx, rfl⟩
  have := appendBatch_stores s t (stale.map fun l => (l, staleBits)) []
    (by rw [List.map_map]
        have : ((fun (x : Labels × Nat) => x.1) ∘ fun l => (l, staleBits)) = id := by funext l; rfl
        rw [this, List.map_id]; exact hnd)
    (x.1, staleBits) (List.mem_map.mpr ⟨x.1, hx1, rfl⟩) (hx2 ▸ hok)
  simpa using this

/-- `removed_group_marked_stale`: a removed group whose loop had started ticking attempts a staleness
    marker (at the time of removal) for every series of every rule's previous set and for the pending
    `staleSeries`. -/
theorem removed_group_marked_stale (s : Store) (g : GroupSt) (hf : g.fast = true) :
    (removeGroup s g).2.map (·.1) = g.stale ++ g.prev.flatten := by
  simp only [removeGroup, hf, if_true, cleanup]
  rw [List.map_fst_zip]
  simp only [batchErrs, List.length_map, Nat.le_refl]

/-- The defect recorded as known finding C45-F1: a group removed before its loop passed the initial wait
    writes no staleness marker at all, whatever it had produced. -/
theorem removed_group_before_first_tick_not_marked_witness (s : Store) (g : GroupSt) (hf : g.fast = false) :
    removeGroup s g = (s, []) := by
  simp [removeGroup, hf]


/-- A quirk of `CopyState` (second loop tests the KEY, not the index): when one of two rules with the same name
    and labels is removed, the series of the rule that is kept are put into `staleSeries` as well. -/
theorem kept_duplicate_marked_stale_witness :
    let a : Rule := { name := "x", rlabels := [], sels := [{ name := .eq "in0" }] }
    let old : GroupSt := { rules := [a, a], prev := [[[("__name__", "x"), ("i", "0")]], [[("__name__", "x"), ("i", "1")]]] }
    copyState old [a] = ([[[("__name__", "x"), ("i", "0")]]],
                         [[("__name__", "x"), ("i", "0")], [("__name__", "x"), ("i", "1")]]) := by decide

end Prom.C45
