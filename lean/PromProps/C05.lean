import PromModel.Suites.IsoSuite
namespace Prom.C05
open Prom.Iso

/-- The schedule of finding F2: A begins and applies s@10 (still inside Commit), B begins, applies s@20
    and finishes committing, then a reader is created. -/
def f2Schedule : List Act :=
  [.newAppender [⟨0, 10, 1⟩], .commitNext 1, .newAppender [⟨0, 20, 2⟩], .commitNext 2, .closeAppend 2, .newReader 1]

/-- **F2** — B's sample is committed before the reader exists, yet the reader sees nothing of the series. -/
theorem committed_hidden_witness :
    ∃ σ, run (init 1) f2Schedule = some σ ∧
      (σ.ser 0).samples = [⟨10, 1, 1⟩, ⟨20, 2, 2⟩] ∧      -- both samples are in memory
      σ.opens.map (·.id) = [1] ∧                          -- only A is still open: B finished committing
      (σ.reader? 1).map (·.vis 2) = some true ∧           -- B's id passes the reader's own visibility test
      σ.read 1 0 = [] := by                               -- but the reader sees neither sample
  refine ⟨_, rfl, ?_⟩
  decide

end Prom.C05
