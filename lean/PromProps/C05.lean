import PromModel.Suites.IsoSuite
import PromProofs.IsoRun
/-
  C05 — Readers see whole transactions only (schedule-quantified).

  The model (`PromModel/Tsdb/Isolation.lean`) is a labelled transition system whose actions are the
  critical sections of tsdb's isolation machinery; ANY list of actions accepted by `run` is a schedule —
  any number of appenders, readers and series, any interleaving, chunk cuts and m-mapping at any moment.
  `Reachable σ` = some schedule leads from the empty head to `σ`. All theorems below quantify over every
  reachable state, i.e. over all schedules; the suite `iso` checks on every run that the real head, driven
  by a controlled scheduler through the `verifhook` pause points, only takes steps the model enables and
  ends every step in the state (chunk layout, ring, watermark, reader snapshots, reader results) the model
  predicts.

  What holds and what does not:
   * `txring_tracks_suffix`, `stopAfter_correct`, `no_uncommitted`: unconditional.
   * "every sample committed before the reader was created is observed" and the unconditional
     all-or-nothing are FALSE in the model and in the code (finding F2): `committed_hidden_witness`,
     `atomic_visibility_full_witness`. Visibility is a per-series prefix.
   * `atomic_visibility` states exactly what is true instead (a transaction is seen in a series up to the
     first sample of that series the reader must not see), `committed_visible_partial` /
     `atomic_visibility_partial` give the all-or-nothing under the no-blocker hypothesis.
-/
namespace Prom.C05
open Prom.Iso

/-- `σ` is reachable: some schedule (list of atomic actions, all enabled) leads from an empty head with
    `n` series to it. -/
def Reachable (σ : St) : Prop := ∃ n tr, run (init n) tr = some σ

theorem reachable_inv {σ : St} (h : Reachable σ) : Inv σ := by
  obtain ⟨n, tr, hr⟩ := h
  exact inv_run tr (inv_init n) hr

/-- **The ring tracks a suffix.** In every reachable state, for every series: the transcribed ring
    (slice/first/count, doubling, modular positions) holds exactly the appendIDs of the last `count`
    samples, and every sample whose id has been trimmed is below the low watermark of every open reader
    and below every open appender's id (so it is visible to every present and future reader). -/
theorem txring_tracks_suffix {σ : St} (h : Reachable σ) (s : Nat) (hs : s < σ.series.length) :
    (σ.ser s).ring.count ≤ (σ.ser s).samples.length ∧
    (σ.ser s).ring.contents = ((σ.ser s).samples.drop ((σ.ser s).samples.length - (σ.ser s).ring.count)).map (·.id) ∧
    ∀ x ∈ (σ.ser s).samples.take ((σ.ser s).samples.length - (σ.ser s).ring.count),
      (∀ kr ∈ σ.readers, x.id < kr.2.lw) ∧ (∀ a ∈ σ.opens, x.id < a.id) := by
  have inv := reachable_inv h
  have wf := inv.series_wf s hs
  refine ⟨wf.count, wf.tracks, ?_⟩
  intro x hx
  have sf := inv.untracked_safe s hs x hx
  exact ⟨fun kr hk => Nat.lt_of_succ_le (sf.1 kr hk), fun a ha => Nat.lt_of_succ_le (sf.2.1 a.id (List.mem_map_of_mem ha))⟩

/-- **`stopAfter` is correct.** In every reachable state, for every open reader and every chunk of every
    series (m-mapped or head, whatever cuts and m-mappings happened), the iterator built by
    `memSeries.iterator` yields exactly the part of that chunk that lies inside the longest prefix of the
    series whose appendIDs are all visible to the reader; reading all chunks yields that prefix. -/
theorem stopAfter_correct {σ : St} (h : Reachable σ) {key : Nat} {r : Reader} (hr : σ.reader? key = some r)
    (s : Nat) (hs : s < σ.series.length) :
    (∀ ix, ix < (σ.ser s).layout.length →
      (σ.ser s).readChunk r ix =
        (((σ.ser s).samples.takeWhile fun x => r.vis x.id).drop ((σ.ser s).layout.take ix).sum).take ((σ.ser s).layout.getD ix 0)) ∧
    σ.read key s = (σ.ser s).samples.takeWhile fun x => r.vis x.id :=
  ⟨fun ix hix => readChunk_eq (reachable_inv h) hr s ix hs hix, read_eq_takeWhile (reachable_inv h) hr s hs⟩

example : ∃ σ, Reachable σ ∧ (σ.reader? 1).isSome ∧ (σ.ser 0).layout.length = 2 ∧ (σ.ser 0).mm = [1] :=
  ⟨_, ⟨1, [.newAppender [⟨0, 10, 1⟩, ⟨0, 11, 1⟩], .commitNext 1, .cut 0, .commitNext 1, .mmap 0, .newReader 1], rfl⟩, by decide⟩

/-- The snapshot a reader takes (`isolation.State`): the last issued id and the set of open appenders. -/
theorem newReader_snapshot {σ σ1 : St} {key : Nat} (h : step σ (.newReader key) = some σ1) :
    ∃ r, σ1.reader? key = some r ∧ r.max = σ.last ∧ r.incomplete = σ.opens.map (·.id) := by
  simp only [step] at h
  split at h
  · cases h
  · rename_i hnone
    cases h
    refine ⟨⟨σ.last, (match σ.opens with | a :: _ => a.id | [] => σ.last), σ.opens.map (·.id)⟩, ?_, rfl, rfl⟩
    unfold St.reader? at *
    simp only [Option.isSome_map, Option.isSome_iff_ne_none, ne_eq, Decidable.not_not] at hnone
    simp [List.find?_append, hnone]
    cases σ.opens <;> rfl

/-- **No uncommitted data.** Take any reachable state `σ0`, create a reader, then run ANY further schedule
    in which that reader is not closed. Whatever the reader sees of any series, at any later moment, was
    written by an append whose id had been issued before the reader was created and that was not open
    (was not still committing, had not been rolled back half-way) at that moment. -/
theorem no_uncommitted {σ0 σ1 σ : St} {key : Nat} (tr : List Act) (h0 : Reachable σ0)
    (hnew : step σ0 (.newReader key) = some σ1) (hrun : run σ1 tr = some σ) (hopen : Act.closeReader key ∉ tr)
    (s : Nat) (hs : s < σ.series.length) :
    ∀ x ∈ σ.read key s, x.id ≤ σ0.last ∧ x.id ∉ σ0.opens.map (·.id) := by
  obtain ⟨r, hr1, hmax, hinc⟩ := newReader_snapshot hnew
  have hr := reader_stable_run tr hr1 hrun hopen
  have inv := inv_run tr (inv_step (reachable_inv h0) hnew) hrun
  intro x hx
  rw [read_eq_takeWhile inv hr s hs] at hx
  have hv := mem_takeWhile_pos _ _ _ hx
  simp only [Reader.vis, Bool.and_eq_true, decide_eq_true_eq, Bool.not_eq_eq_eq_not, Bool.not_true,
    List.contains_eq_mem, decide_eq_false_iff_not] at hv
  rw [hmax, hinc] at hv
  exact hv

example : ∃ σ0 σ1, Reachable σ0 ∧ step σ0 (.newReader 1) = some σ1 ∧ σ0.opens ≠ [] :=
  ⟨_, _, ⟨1, [.newAppender [⟨0, 10, 1⟩], .commitNext 1], rfl⟩, rfl, by decide⟩

/-- **Atomic visibility, as it really is.** In every reachable state, for every open reader `r`:
    (1) it sees nothing of an append that does not pass its visibility test (open at creation, or later);
    (2) of an append that passes the test it sees, in every series, every sample that is not preceded in
        that series by a sample the reader must not see — and nothing else. -/
theorem atomic_visibility {σ : St} (h : Reachable σ) {key : Nat} {r : Reader} (hr : σ.reader? key = some r)
    (s : Nat) (hs : s < σ.series.length) :
    (∀ x ∈ σ.read key s, r.vis x.id = true) ∧
    (∀ pre x post, (σ.ser s).samples = pre ++ x :: post →
      (x ∈ σ.read key s ∧ σ.read key s = pre ++ x :: (post.takeWhile fun y => r.vis y.id)
        ↔ (∀ y ∈ pre, r.vis y.id = true) ∧ r.vis x.id = true)) := by
  have e := read_eq_takeWhile (reachable_inv h) hr s hs
  refine ⟨fun x hx => mem_takeWhile_pos (fun y : Sample => r.vis y.id) _ x (e ▸ hx), ?_⟩
  intro pre x post hsplit
  rw [e, hsplit]
  constructor
  · rintro ⟨_, heq⟩
    have hlen : ((pre ++ x :: post).takeWhile fun y => r.vis y.id) = pre ++ x :: (post.takeWhile fun y => r.vis y.id) := heq
    have hall : ∀ y ∈ pre ++ [x], r.vis y.id = true := by
      intro y hy
      apply mem_takeWhile_pos (fun y : Sample => r.vis y.id) (pre ++ x :: post)
      rw [hlen]
      rcases List.mem_append.mp hy with hy | hy
      · exact List.mem_append_left _ hy
      · simp only [List.mem_singleton] at hy; subst hy; simp
    exact ⟨fun y hy => hall y (List.mem_append_left _ hy), hall x (by simp)⟩
  · rintro ⟨hpre, hx⟩
    have : ((pre ++ x :: post).takeWhile fun y => r.vis y.id) = pre ++ x :: (post.takeWhile fun y => r.vis y.id) := by
      clear hsplit e
      induction pre with
      | nil => simp [hx]
      | cons a rest ih =>
        simp only [List.cons_append, List.takeWhile_cons, hpre a (by simp), ↓reduceIte]
        rw [ih (fun y hy => hpre y (List.mem_cons_of_mem _ hy))]
    rw [this]
    exact ⟨by simp, rfl⟩

/-- **Committed samples are visible — when nothing uncommitted is in front of them.** Reader created in a
    reachable state `σ0`; `x` is a sample of series `s` in memory at that moment such that `x` and every
    sample in front of it in `s` were written by appends that had finished (were not open) at that moment.
    Then the reader sees `x`, at every later moment of every continuation in which it stays open. The
    hypothesis on the samples in front is exactly what finding F2 violates. -/
theorem committed_visible_partial {σ0 σ1 σ : St} {key : Nat} (tr : List Act) (h0 : Reachable σ0)
    (hnew : step σ0 (.newReader key) = some σ1) (hrun : run σ1 tr = some σ) (hopen : Act.closeReader key ∉ tr)
    (s : Nat) (hs : s < σ0.series.length) (pre : List Sample) (x : Sample) (post : List Sample)
    (hsplit : (σ0.ser s).samples = pre ++ x :: post)
    (hclosed : ∀ y ∈ pre ++ [x], y.id ∉ σ0.opens.map (·.id)) :
    x ∈ σ.read key s := by
  obtain ⟨r, hr1, hmax, hinc⟩ := newReader_snapshot hnew
  have hr := reader_stable_run tr hr1 hrun hopen
  have inv0 := reachable_inv h0
  have inv := inv_run tr (inv_step inv0 hnew) hrun
  have hlen1 : σ1.series.length = σ0.series.length := series_length_step hnew
  have hlen : σ.series.length = σ0.series.length := by
    have : ∀ (tr : List Act) (a b : St), run a tr = some b → b.series.length = a.series.length := by
      intro tr
      induction tr with
      | nil => intro a b h; simp only [run] at h; cases h; rfl
      | cons c rest ih =>
        intro a b h
        simp only [run] at h
        split at h
        · rename_i a1 h1; rw [ih _ _ h, series_length_step h1]
        · cases h
    rw [this tr _ _ hrun, hlen1]
  -- every sample in memory at creation carries an id ≤ last = r.max
  have hvis : ∀ y ∈ pre ++ [x], r.vis y.id = true := by
    intro y hy
    have hmem : y ∈ (σ0.ser s).samples := by
      rw [hsplit]
      rcases List.mem_append.mp hy with hy | hy
      · exact List.mem_append_left _ hy
      · simp only [List.mem_singleton] at hy; subst hy; simp
    have hle := inv0.ids_le s hs y hmem
    have hno := hclosed y hy
    simp only [Reader.vis, hmax, hinc, Bool.and_eq_true, decide_eq_true_eq, Bool.not_eq_eq_eq_not, Bool.not_true,
      List.contains_eq_mem, decide_eq_false_iff_not]
    exact ⟨hle, hno⟩
  -- samples are only appended afterwards
  obtain ⟨e1, he1⟩ := samples_prefix_step s hnew
  obtain ⟨e2, he2⟩ := samples_prefix_run tr s hrun
  have hsp : (σ.ser s).samples = pre ++ x :: (post ++ e1 ++ e2) := by
    rw [he2, he1, hsplit]; simp
  rw [read_eq_takeWhile inv hr s (by omega), hsp]
  have : ((pre ++ x :: (post ++ e1 ++ e2)).takeWhile fun y => r.vis y.id)
      = pre ++ x :: ((post ++ e1 ++ e2).takeWhile fun y => r.vis y.id) := by
    clear hsp hsplit
    induction pre with
    | nil => simp [hvis x (by simp)]
    | cons a rest ih =>
      simp only [List.cons_append, List.takeWhile_cons, hvis a (by simp), ↓reduceIte]
      rw [ih (fun y hy => hclosed y (List.mem_cons_of_mem _ hy)) (fun y hy => hvis y (List.mem_cons_of_mem _ hy))]
  rw [this]; simp

example : ∃ σ0 σ1, Reachable σ0 ∧ step σ0 (.newReader 1) = some σ1 ∧
    (σ0.ser 0).samples = [] ++ ⟨10, 1, 1⟩ :: [⟨20, 2, 2⟩] ∧ ∀ y ∈ [] ++ [(⟨10, 1, 1⟩ : Sample)], y.id ∉ σ0.opens.map (·.id) :=
  ⟨_, _, ⟨1, [.newAppender [⟨0, 10, 1⟩], .commitNext 1, .closeAppend 1, .newAppender [⟨0, 20, 2⟩], .commitNext 2], rfl⟩,
    rfl, rfl, by decide⟩

/-- **All or nothing, under the no-blocker hypothesis.** If, in every series, everything in front of the
    samples of append `a` is visible to the reader, then the reader sees all samples of `a` (in every
    series) or none of them. -/
theorem atomic_visibility_partial {σ : St} (h : Reachable σ) {key : Nat} {r : Reader} (hr : σ.reader? key = some r)
    (a : Nat)
    (hnb : ∀ s, s < σ.series.length → ∀ pre x post, (σ.ser s).samples = pre ++ x :: post → x.id = a →
      ∀ y ∈ pre, r.vis y.id = true) :
    (∀ s, s < σ.series.length → ∀ x ∈ (σ.ser s).samples, x.id = a → x ∈ σ.read key s) ∨
    (∀ s, s < σ.series.length → ∀ x ∈ σ.read key s, x.id ≠ a) := by
  by_cases hv : r.vis a = true
  · left
    intro s hs x hx hxa
    obtain ⟨pre, post, hsplit⟩ := List.append_of_mem hx
    exact (((atomic_visibility h hr s hs).2 pre x post hsplit).mpr ⟨hnb s hs pre x post hsplit hxa, by rw [hxa]; exact hv⟩).1
  · right
    intro s hs x hx hxa
    have := (atomic_visibility h hr s hs).1 x hx
    rw [hxa] at this
    exact hv this

/-- The statement's first clause and the unconditional all-or-nothing, kept visible: both are FALSE. -/
def atomic_visibility_full : Prop :=
  ∀ σ, Reachable σ → ∀ key r, σ.reader? key = some r → ∀ a,
    (∀ s, s < σ.series.length → ∀ x ∈ (σ.ser s).samples, x.id = a → x ∈ σ.read key s) ∨
    (∀ s, s < σ.series.length → ∀ x ∈ σ.read key s, x.id ≠ a)

/-- The schedule of finding F2: A begins and applies s@10 (still inside Commit), B begins, applies s@20
    and finishes committing, then a reader is created. -/
def f2Schedule : List Act :=
  [.newAppender [⟨0, 10, 1⟩], .commitNext 1, .newAppender [⟨0, 20, 2⟩], .commitNext 2, .closeAppend 2, .newReader 1]

/-- **F2** — B's sample is committed before the reader exists, yet the reader sees nothing of the series. -/
theorem committed_hidden_witness :
    ∃ σ, run (init 1) f2Schedule = some σ ∧
      (σ.ser 0).samples = [⟨10, 1, 1⟩, ⟨20, 2, 2⟩] ∧      -- both samples are in memory
      σ.opens.map (·.id) = [1] ∧                          -- only A is still open: B finished committing
      (σ.reader? 1).map (·.vis 2) = some true ∧           -- B's id passes the reader's own visibility test
      σ.read 1 0 = [] := by                               -- but the reader sees neither sample
  refine ⟨_, rfl, ?_⟩
  decide

/-- F2 with a two-series transaction: B = {s0@20, s1@20} finishes committing while A has s0@10 in memory;
    the reader created afterwards sees B's sample in s1 but not the one in s0 — a torn transaction. -/
def f2TornSchedule : List Act :=
  [.newAppender [⟨0, 10, 1⟩], .commitNext 1, .newAppender [⟨0, 20, 2⟩, ⟨1, 20, 2⟩], .commitNext 2, .commitNext 2,
   .closeAppend 2, .newReader 1]

theorem torn_state : ∃ σ, run (init 2) f2TornSchedule = some σ ∧ σ.series.length = 2 ∧
    σ.reader? 1 = some ⟨2, 1, [1]⟩ ∧ (σ.ser 0).samples = [⟨10, 1, 1⟩, ⟨20, 2, 2⟩] ∧
    σ.read 1 0 = [] ∧ σ.read 1 1 = [⟨20, 2, 2⟩] := by
  refine ⟨_, rfl, ?_⟩
  decide

theorem atomic_visibility_full_witness : ¬ atomic_visibility_full := by
  intro hall
  obtain ⟨σ, hrun, hlen, hrd, hs0, hr0, hr1⟩ := torn_state
  rcases hall σ ⟨2, f2TornSchedule, hrun⟩ 1 _ hrd 2 with h | h
  · have := h 0 (by omega) ⟨20, 2, 2⟩ (by rw [hs0]; simp) rfl
    rw [hr0] at this
    simp at this
  · exact h 1 (by omega) ⟨20, 2, 2⟩ (by rw [hr1]; simp) rfl

end Prom.C05
