import PromModel.Tsdb.BlockPopulate
import PromProofs.BlockPopulate
/-
  C07 — Compaction preserves the union of its inputs.
  Property theorems only; helper lemmas live in PromProofs/BlockPopulate*.lean.
-/
namespace Prom.C07
open Prom.Merge Prom.BlockPopulate
open Prom.Intervals (Interval Intervals)

/-- Whatever `PopulateBlock` writes (any number of source blocks, either merger, any tombstones, no
    well-formedness assumption at all): every written series has at least one chunk, every chunk has
    `mint ≤ maxt`, and the chunks of a series are ordered by time and pairwise disjoint — the last line
    of defence is `index.Writer.AddSeries`, which is part of the model. -/
theorem populate_chunks_ordered_disjoint (m : Merger) (blocks : List Block) (mint maxt : Int) (o : Output)
    (h : populate m blocks mint maxt = .ok o) :
    ∀ s ∈ o.series, s.2 ≠ [] ∧ (∀ c ∈ s.2, c.mint ≤ c.maxt) ∧ s.2.Pairwise (fun a b => a.maxt < b.mint) := by
  intro s hs
  obtain ⟨inv, _⟩ := populate_written h
  have hs' : s ∈ o.series.reverse := by simpa using hs
  obtain ⟨a, b⟩ := chunksAccepted_spec s.2 none (inv.accepted s hs')
  exact ⟨inv.nonempty s hs', fun c hc => (a c hc).1, b⟩

/-- The written label sets are strictly increasing in the sense the index writer checks: each one
    compares `.gt` to its predecessor (`labels.Compare(lset, lastSeries) > 0`). -/
theorem populate_labels_increasing (m : Merger) (blocks : List Block) (mint maxt : Int) (o : Output)
    (h : populate m blocks mint maxt = .ok o) : Asc (o.series.map (·.1)) := by
  obtain ⟨inv, _⟩ := populate_written h
  simpa using inv.chain

/-- `meta.Stats` equals the recount of what was written: number of series, of chunks, of samples, and
    the float / histogram split by chunk encoding. -/
theorem stats_match_contents (m : Merger) (blocks : List Block) (mint maxt : Int) (o : Output)
    (h : populate m blocks mint maxt = .ok o) : o.stats = recount o.series := by
  obtain ⟨inv, _⟩ := populate_written h
  simpa using inv.stats

end Prom.C07
