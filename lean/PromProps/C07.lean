import PromModel.Tsdb.BlockPopulate
import PromProofs.BlockPopulate
import PromProofs.BlockPopulateSeries
import PromProofs.BlockPopulateSingle
import PromProofs.BlockPopulateMulti
import PromProofs.BlockPopulateConcat
/-
  C07 — Compaction preserves the union of its inputs.
  Property theorems only; helper lemmas live in PromProofs/BlockPopulate*.lean.
-/
namespace Prom.C07
open Prom.Merge Prom.BlockPopulate
open Prom.Intervals (Interval Intervals)

/-- Whatever `PopulateBlock` writes (any number of source blocks, either merger, any tombstones, no
    well-formedness assumption at all): every written series has at least one chunk, every chunk has
    `mint ≤ maxt`, and the chunks of a series are ordered by time and pairwise disjoint — the last line
    of defence is `index.Writer.AddSeries`, which is part of the model. -/
theorem populate_chunks_ordered_disjoint (m : Merger) (blocks : List Block) (mint maxt : Int) (o : Output)
    (h : populate m blocks mint maxt = .ok o) :
    ∀ s ∈ o.series, s.2 ≠ [] ∧ (∀ c ∈ s.2, c.mint ≤ c.maxt) ∧ s.2.Pairwise (fun a b => a.maxt < b.mint) := by
  intro s hs
  obtain ⟨inv, _⟩ := populate_written h
  have hs' : s ∈ o.series.reverse := by simpa using hs
  obtain ⟨a, b⟩ := chunksAccepted_spec s.2 none (inv.accepted s hs')
  exact ⟨inv.nonempty s hs', fun c hc => (a c hc).1, b⟩

/-- The written label sets are strictly increasing in the sense the index writer checks: each one
    compares `.gt` to its predecessor (`labels.Compare(lset, lastSeries) > 0`). -/
theorem populate_labels_increasing (m : Merger) (blocks : List Block) (mint maxt : Int) (o : Output)
    (h : populate m blocks mint maxt = .ok o) : Asc (o.series.map (·.1)) := by
  obtain ⟨inv, _⟩ := populate_written h
  simpa using inv.chain

/-- `meta.Stats` equals the recount of what was written: number of series, of chunks, of samples, and
    the float / histogram split by chunk encoding. -/
theorem stats_match_contents (m : Merger) (blocks : List Block) (mint maxt : Int) (o : Output)
    (h : populate m blocks mint maxt = .ok o) : o.stats = recount o.series := by
  obtain ⟨inv, _⟩ := populate_written h
  simpa using inv.stats

/-! ### nothing lost, nothing invented: one source (head → block, single-block rewrite) -/

/-- Output range `[mint, maxt]` inside int64 with room for the two trimming intervals. -/
def RangeOK (mint maxt : Int) : Prop :=
  (Intervals.MinI64 < mint ∧ mint ≤ Intervals.MaxI64) ∧ (Intervals.MinI64 ≤ maxt ∧ maxt < Intervals.MaxI64)

/-- `PopulateBlock` over ONE source (a head range or a block being rewritten; either merger — none is
    called). Source series well-formed (`SeriesWF`: tombstones canonical, chunks non-empty, samples
    time-sorted inside the chunk's meta range). Then the written series, read back as (labels, samples),
    are exactly — same order, nothing lost, nothing invented, nothing duplicated — the source series that
    have at least one sample in `[mint, maxt]` not covered by a tombstone, each with exactly those samples.
    This is the headline clause of the property for a single source, at full strength (partial = one
    source; several sources: `populate_samples_nohint` / `populate_samples_merge`). -/
theorem populate_samples_partial (m : Merger) (b : Block) (mint maxt : Int) (o : Output)
    (wf : ∀ s ∈ b.series, SeriesWF s) (hr : RangeOK mint maxt)
    (h : populate m [b] mint maxt = .ok o) :
    o.series.map proj = (b.series.map fun s => (s.labels, visible mint maxt s)).filter (fun p => !p.2.isEmpty) :=
  (populate_single m b mint maxt o wf hr.1 hr.2 h).1

/-- The set of written label sets = the source label sets with ≥ 1 surviving sample (one source). -/
theorem populate_labels_preserved_partial (m : Merger) (b : Block) (mint maxt : Int) (o : Output)
    (wf : ∀ s ∈ b.series, SeriesWF s) (hr : RangeOK mint maxt)
    (h : populate m [b] mint maxt = .ok o) :
    o.series.map (·.1) = (b.series.filter fun s => !(visible mint maxt s).isEmpty).map (·.labels) := by
  have := congrArg (List.map Prod.fst) (populate_samples_partial m b mint maxt o wf hr h)
  simp only [List.map_map] at this
  rw [show (Prod.fst ∘ proj) = (fun cs : CS => cs.1) from rfl] at this
  rw [this, List.filter_map, List.map_map]
  rfl

/-- `LeveledCompactor.Write(dest, head, mint, maxt)`: if a block is written it holds exactly the visible
    samples of the head range in `[mint, maxt)` (per series, in label order, series without such samples
    dropped); if no block is written, nothing was visible. -/
theorem write_head_range (b : Block) (mint maxt : Int) (wf : ∀ s ∈ b.series, SeriesWF s)
    (hr : RangeOK mint (maxt - 1)) :
    (∀ o, write b mint maxt = .block o →
      o.series.map proj = (b.series.map fun s => (s.labels, visible mint (maxt - 1) s)).filter (fun p => !p.2.isEmpty)) ∧
    (write b mint maxt = .empty → ∀ s ∈ b.series, visible mint (maxt - 1) s = []) := by
  unfold write toResult
  constructor
  · intro o ho
    split at ho
    · rename_i o' hp
      split at ho
      · cases ho
      · cases ho
        exact populate_samples_partial .compact b mint (maxt - 1) _ wf hr hp
    · cases ho
    · cases ho
  · intro he
    split at he
    · rename_i o' hp
      split at he
      · rename_i h0
        obtain ⟨hs, hne⟩ := populate_single .compact b mint (maxt - 1) o' wf hr.1 hr.2 hp
        have hst := stats_match_contents _ _ _ _ _ hp
        have hch := populate_chunks_ordered_disjoint _ _ _ _ _ hp
        have hnil : o'.series = [] :=
          no_samples_no_series o'.series (by rw [← hst]; exact h0) (fun s hs' => (hch s hs').1) hne
        rw [hnil] at hs
        intro s hs'
        have hf := hs.symm
        simp only [List.map_nil, List.filter_eq_nil_iff, List.mem_map, forall_exists_index, and_imp] at hf
        have := hf (s.labels, visible mint (maxt - 1) s) s hs' rfl
        simpa using this
      · cases he
    · cases he
    · cases he

/-- the hypotheses are satisfiable and the run is not trivial: a head range with an open chunk
    (`maxt = MaxInt64` in the index), a tombstone straddling the chunk boundary, and a window that cuts
    the first chunk -/
example :
    let b : Block := ⟨0, 100, [⟨[("a", "1")],
      [⟨10, 30, [⟨10, .float, 1⟩, ⟨20, .float, 2⟩, ⟨30, .float, 3⟩]⟩,
       ⟨40, Intervals.MaxI64, [⟨40, .float, 4⟩, ⟨50, .float, 5⟩, ⟨60, .float, 6⟩]⟩], [⟨30, 40⟩]⟩]⟩
    (∀ s ∈ b.series, SeriesWF s) ∧ RangeOK 15 (61 - 1) ∧
    (match populate .compact [b] 15 (61 - 1) with
     | .ok o => some (o.series.map proj, o.stats)
     | .error _ => none) =
      some ([([("a", "1")], [⟨20, .float, 2⟩, ⟨50, .float, 5⟩, ⟨60, .float, 6⟩])], ⟨1, 2, 3, 3, 0⟩) := by
  refine ⟨?_, by unfold RangeOK; decide, by decide⟩
  intro s hs
  simp only [List.mem_singleton] at hs
  subst hs
  refine ⟨by decide, ?_, by decide, by decide, by decide, ?_⟩
  · unfold Intervals.AllI64 Intervals.I64; decide
  · unfold Intervals.I64; decide

/-- The block reader used by compaction (`blockBaseSeriesSet.Next` + `populateWithDelChunkSeriesIterator`)
    on one well-formed series: it never errors or panics (in particular the transcribed `Intervals.Add`
    calls for `trimFront`/`trimBack` and `bufIter.Intervals` never hit their panic branch), and the series is
    either yielded with exactly its visible samples or not yielded, and then nothing was visible. -/
theorem block_reader_exact (mint maxt : Int) (s : Series) (wf : SeriesWF s) (hr : RangeOK mint maxt) :
    ∃ r, popSeries mint maxt s = .ok r ∧
      (r.toList.map proj = if r.isSome then [(s.labels, visible mint maxt s)] else []) ∧
      (r = none → visible mint maxt s = []) := by
  obtain ⟨r, h1, h2, h3, _⟩ := popSeries_spec mint maxt s wf hr.1 hr.2
  exact ⟨r, h1, h2, h3⟩

/-- The concatenating merger does not keep the order of the sources: the merged set hands the series of
    equal label sets to the merger in heap order, so two disjoint, time-sorted source blocks can come out
    as "block 1 then block 0"; `index.Writer.AddSeries` then refuses the series and the compaction fails
    (reproduced on the real code by suite `compact`). `storage.NewConcatenatingChunkSeriesMerger` documents
    that its output "might be overlapping and unsorted"; Prometheus itself compacts with the compacting
    merger only. -/
theorem concat_merger_unsorted_witness :
    (match compact .concat
        [⟨0, 10, [⟨[("a", "1")], [Chunk.ofSamples [⟨1, .float, 1⟩]], []⟩, ⟨[("a", "2")], [Chunk.ofSamples [⟨2, .float, 2⟩]], []⟩]⟩,
         ⟨10, 20, [⟨[("a", "2")], [Chunk.ofSamples [⟨12, .float, 3⟩]], []⟩]⟩] with
     | .err => true | _ => false) = true := by
  decide

/-- the same two blocks under the default compacting merger: union of both, in order -/
theorem compact_two_blocks_example :
    (match compact .compact
        [⟨0, 10, [⟨[("a", "1")], [Chunk.ofSamples [⟨1, .float, 1⟩]], []⟩, ⟨[("a", "2")], [Chunk.ofSamples [⟨2, .float, 2⟩]], []⟩]⟩,
         ⟨10, 20, [⟨[("a", "2")], [Chunk.ofSamples [⟨12, .float, 3⟩]], []⟩]⟩] with
     | .block o => some (o.series.map proj, o.stats) | _ => none) =
      some ([([("a", "1")], [⟨1, .float, 1⟩]), ([("a", "2")], [⟨2, .float, 2⟩, ⟨12, .float, 3⟩])], ⟨2, 3, 3, 3, 0⟩) := by
  decide

/-! ### several sources -/

/-- the sorted, de-duplicated timestamps of a list of sample lists -/
def unionTs (xss : List (List Sample)) : List Int :=
  ((xss.flatten.map (·.t)).mergeSort (· ≤ ·)).eraseDups

/-- The full headline clause for any number of source blocks under the compacting merger: per label set,
    the timestamps written are the sorted de-duplicated union of the sources' visible timestamps, every
    written sample is a visible sample of some source, and a label set is written iff some source has a
    visible sample for it.  FALSE as literally stated (`populate_samples_full_witness`: counter-reset
    hints are reset by the chain); proved in repaired form as `populate_samples_nohint` /
    `populate_samples_merge`, on top of C19's `merge_sets_sorted_unique` and `compact_chunks`. -/
def populate_samples_full : Prop :=
  ∀ (blocks : List Block) (mint maxt : Int) (o : Output),
    (∀ b ∈ blocks, (∀ s ∈ b.series, SeriesWF s) ∧ Asc (b.series.map (·.labels))) → RangeOK mint maxt →
    populate .compact blocks mint maxt = .ok o →
    ∀ l : Labels,
      let src := (blocks.flatMap fun b => b.series.filter fun s => s.labels == l).map (visible mint maxt)
      let out := (o.series.filter fun cs => cs.1 == l).flatMap csSamples
      out.map (·.t) = unionTs src ∧ (∀ x ∈ out, ∃ xs ∈ src, x ∈ xs) ∧
      ((o.series.any fun cs => cs.1 == l) = src.any fun xs => !xs.isEmpty)

/-- `populate_samples_full` as literally stated is FALSE: its second clause asks every written sample to
    BE a visible source sample, but when two sources overlap in time the compacting merger reads the
    overlapping chunks through `ChainedSeriesMerge`, whose `AtHistogram` resets a non-gauge counter-reset
    hint to "unknown" whenever the previous sample came from another input (C19 `Chain.atSample`, C12).
    Two blocks with one series `{a="1"}`: histograms (counts 1, 3 and 2: no counter reset in the merged
    stream, hence one chunk) with hint 1 at t = 10, 20 and at t = 15; the block
    written holds the three timestamps, all with hint 0 — none of them is literally a source sample.
    This is intended behaviour of the code (hints must not survive re-ordering), so the statement, not
    the code, is wrong; `populate_samples_nohint_full` is the repaired statement (proved:
    `populate_samples_nohint`), `populate_samples_merge` the version with hints. -/
theorem populate_samples_full_witness : ¬ populate_samples_full := by
  intro h
  have hwf : ∀ b ∈ [(⟨0, 100, [⟨[("a", "1")], [Chunk.ofSamples [⟨10, .hist, 5⟩, ⟨20, .hist, 13⟩]], []⟩]⟩ : Block),
      ⟨0, 100, [⟨[("a", "1")], [Chunk.ofSamples [⟨15, .hist, 9⟩]], []⟩]⟩],
      (∀ s ∈ b.series, SeriesWF s) ∧ Asc (b.series.map (·.labels)) := by
    intro b hb
    simp only [List.mem_cons, List.not_mem_nil, or_false] at hb
    rcases hb with rfl | rfl
    · refine ⟨?_, by simp [Asc]⟩
      intro s hs
      simp only [List.mem_singleton] at hs
      subst hs
      refine ⟨by decide, ?_, by decide, by decide, by decide, ?_⟩
      · unfold Intervals.AllI64 Intervals.I64; decide
      · unfold Intervals.I64; decide
    · refine ⟨?_, by simp [Asc]⟩
      intro s hs
      simp only [List.mem_singleton] at hs
      subst hs
      refine ⟨by decide, ?_, by decide, by decide, by decide, ?_⟩
      · unfold Intervals.AllI64 Intervals.I64; decide
      · unfold Intervals.I64; decide
  have := (h _ 1 100
    ⟨[([("a", "1")], [⟨10, 20, [⟨10, .hist, 4⟩, ⟨15, .hist, 8⟩, ⟨20, .hist, 12⟩]⟩])], ⟨1, 1, 3, 0, 3⟩⟩
    hwf (by unfold RangeOK; decide) (by rfl) [("a", "1")]).2.1 ⟨10, .hist, 4⟩ (by decide)
  revert this
  decide

/-- The repaired headline clause for several sources: as `populate_samples_full`, for sources whose
    samples carry no counter-reset hint the chain could reset and whose chunks are time-ordered per series. -/
def populate_samples_nohint_full : Prop :=
  ∀ (blocks : List Block) (mint maxt : Int) (o : Output),
    (∀ b ∈ blocks, (∀ s ∈ b.series, SeriesWF s ∧ s.chunks.Pairwise (fun a b => a.maxt < b.mint) ∧
      ∀ c ∈ s.chunks, ∀ x ∈ c.samples, NoHint x) ∧ Asc (b.series.map (·.labels))) → RangeOK mint maxt →
    populate .compact blocks mint maxt = .ok o →
    ∀ l : Labels,
      let src := (blocks.flatMap fun b => b.series.filter fun s => s.labels == l).map (visible mint maxt)
      let out := (o.series.filter fun cs => cs.1 == l).flatMap csSamples
      out.map (·.t) = unionTs src ∧ (∀ x ∈ out, ∃ xs ∈ src, x ∈ xs) ∧
      ((o.series.any fun cs => cs.1 == l) = src.any fun xs => !xs.isEmpty)

/-- membership in the list of visible sample lists of the sources with label set `l` -/
theorem mem_src (blocks : List Block) (mint maxt : Int) (l : Labels) (xs : List Sample) :
    xs ∈ (blocks.flatMap fun b => b.series.filter fun s => s.labels == l).map (visible mint maxt) ↔
      ∃ b ∈ blocks, ∃ s ∈ b.series, s.labels = l ∧ visible mint maxt s = xs := by
  simp only [List.mem_map, List.mem_flatMap, List.mem_filter, beq_iff_eq]
  constructor
  · rintro ⟨s, ⟨b, hb, hs, hl⟩, rfl⟩; exact ⟨b, hb, s, hs, hl, rfl⟩
  · rintro ⟨b, hb, s, hs, hl, rfl⟩; exact ⟨s, ⟨b, hb, hs, hl⟩, rfl⟩

/-- Several source blocks under the compacting merger, WITH counter-reset hints: per label set the
    timestamps written are the sorted de-duplicated union of the sources' visible timestamps, every written
    sample is a visible sample of some source up to a hint the chain reset (only non-gauge histograms), and
    a label set is written iff some source has a visible sample for it.  Sources: `SeriesWF`, chunks of a
    series in time order, label sets ascending per block. -/
theorem populate_samples_merge (blocks : List Block) (mint maxt : Int) (o : Output)
    (hb : ∀ b ∈ blocks, (∀ s ∈ b.series, SeriesWF s ∧ s.chunks.Pairwise (fun a b => a.maxt < b.mint)) ∧
      Asc (b.series.map (·.labels)))
    (hr : RangeOK mint maxt) (h : populate .compact blocks mint maxt = .ok o) (l : Labels) :
    let src := (blocks.flatMap fun b => b.series.filter fun s => s.labels == l).map (visible mint maxt)
    let out := (o.series.filter fun cs => cs.1 == l).flatMap csSamples
    out.map (·.t) = unionTs src ∧
    (∀ x ∈ out, ∃ xs ∈ src, ∃ y ∈ xs, x = y ∨
      (y.kind ≠ .float ∧ y.payload % 4 ≠ 3 ∧ x = { y with payload := y.payload / 4 * 4 })) ∧
    ((o.series.any fun cs => cs.1 == l) = src.any fun xs => !xs.isEmpty) := by
  intro src out
  obtain ⟨p1, p2, p3, p4⟩ := populate_multi blocks mint maxt o
    (fun b hbm => ⟨fun s hs => ⟨((hb b hbm).1 s hs).1, ((hb b hbm).1 s hs).2⟩, (hb b hbm).2⟩) hr.1 hr.2 h l
  refine ⟨?_, ?_, ?_⟩
  · apply strict_ext
    · unfold SortedL at p1
      rw [List.pairwise_map]; exact p1
    · apply eraseDups_strict
      have := List.pairwise_mergeSort (le := fun (a b : Int) => decide (a ≤ b))
        (by intro a b c; simp; omega) (by intro a b; simp; omega) (src.flatten.map (·.t))
      simpa using this
    · intro t
      unfold unionTs
      rw [List.mem_eraseDups, List.mem_mergeSort]
      constructor
      · intro ht
        obtain ⟨x, hx, rfl⟩ := List.mem_map.1 ht
        obtain ⟨b, hbm, s, hs, hl, y, hy, hxy⟩ := p2 x hx
        exact List.mem_map.2 ⟨y, List.mem_flatten.2 ⟨_, (mem_src blocks mint maxt l _).2 ⟨b, hbm, s, hs, hl, rfl⟩, hy⟩,
          hxy.t.symm⟩
      · intro ht
        obtain ⟨y, hy, rfl⟩ := List.mem_map.1 ht
        obtain ⟨xs, hxs, hyx⟩ := List.mem_flatten.1 hy
        obtain ⟨b, hbm, s, hs, hl, rfl⟩ := (mem_src blocks mint maxt l xs).1 hxs
        exact p3 b hbm s hs hl y hyx
  · intro x hx
    obtain ⟨b, hbm, s, hs, hl, y, hy, hxy⟩ := p2 x hx
    exact ⟨_, (mem_src blocks mint maxt l _).2 ⟨b, hbm, s, hs, hl, rfl⟩, y, hy, hxy⟩
  · rw [Bool.eq_iff_iff, p4, List.any_eq_true]
    constructor
    · rintro ⟨b, hbm, s, hs, hl, hv⟩
      refine ⟨_, (mem_src blocks mint maxt l _).2 ⟨b, hbm, s, hs, hl, rfl⟩, ?_⟩
      cases hvs : visible mint maxt s with
      | nil => exact (hv hvs).elim
      | cons a r => rfl
    · rintro ⟨xs, hxs, hne⟩
      obtain ⟨b, hbm, s, hs, hl, rfl⟩ := (mem_src blocks mint maxt l xs).1 hxs
      refine ⟨b, hbm, s, hs, hl, ?_⟩
      intro h0; rw [h0] at hne; simp at hne

/-- `populate_samples_nohint_full` holds: the headline clause of the property for ANY number of source
    blocks under the compacting merger (sources without resettable counter-reset hints). -/
theorem populate_samples_nohint : populate_samples_nohint_full := by
  intro blocks mint maxt o hb hr h l
  obtain ⟨q1, q2, q3⟩ := populate_samples_merge blocks mint maxt o
    (fun b hbm => ⟨fun s hs => ⟨((hb b hbm).1 s hs).1, ((hb b hbm).1 s hs).2.1⟩, (hb b hbm).2⟩) hr h l
  refine ⟨q1, ?_, q3⟩
  intro x hx
  obtain ⟨xs, hxs, y, hy, hxy⟩ := q2 x hx
  refine ⟨xs, hxs, ?_⟩
  obtain ⟨b, hbm, s, hs, hl, rfl⟩ := (mem_src blocks mint maxt l xs).1 hxs
  have hyn : NoHint y := by
    unfold visible at hy
    obtain ⟨c, hc, hyc⟩ := List.mem_flatMap.1 (List.mem_filter.1 hy).1
    exact ((hb b hbm).1 s hs).2.2 c hc y hyc
  have : x = y := hm_nohint hxy hyn
  rw [this]; exact hy

/-- the hypotheses of `populate_samples_nohint` are satisfiable and the run is not trivial: two blocks
    whose series `{a="1"}` overlap in time and share the timestamp 20 -/
example :
    let blocks : List Block :=
      [⟨0, 100, [⟨[("a", "1")], [Chunk.ofSamples [⟨10, .float, 1⟩, ⟨20, .float, 2⟩]], []⟩]⟩,
       ⟨0, 100, [⟨[("a", "1")], [Chunk.ofSamples [⟨15, .float, 3⟩, ⟨20, .float, 2⟩]], []⟩]⟩]
    (∀ b ∈ blocks, (∀ s ∈ b.series, SeriesWF s ∧ s.chunks.Pairwise (fun a b => a.maxt < b.mint) ∧
      ∀ c ∈ s.chunks, ∀ x ∈ c.samples, NoHint x) ∧ Asc (b.series.map (·.labels))) ∧ RangeOK 1 100 ∧
    (match populate .compact blocks 1 100 with
     | .ok o => some (o.series.map proj)
     | .error _ => none) = some [([("a", "1")], [⟨10, .float, 1⟩, ⟨15, .float, 3⟩, ⟨20, .float, 2⟩])] := by
  refine ⟨?_, by unfold RangeOK; decide, by decide⟩
  intro b hb
  simp only [List.mem_cons, List.not_mem_nil, or_false] at hb
  rcases hb with rfl | rfl
  all_goals
    refine ⟨?_, by simp [Asc]⟩
    intro s hs
    simp only [List.mem_singleton] at hs
    subst hs
    refine ⟨⟨by decide, ?_, by decide, by decide, by decide, ?_⟩, by simp, ?_⟩
    · unfold Intervals.AllI64 Intervals.I64; decide
    · unfold Intervals.I64; decide
    · intro c hc x hx
      simp only [List.mem_singleton] at hc
      subst hc
      simp only [Chunk.ofSamples, List.mem_cons, List.not_mem_nil, or_false] at hx
      rcases hx with rfl | rfl <;> exact Or.inl rfl

/-! ### several sources under the concatenating merger (horizontal compaction) -/

/-- `concatenatingChunkIterator` (transcribed step by step as `concatNext` / `concatDrain`): drained, it
    hands out every chunk of every input series, in input order — for ANY inputs, in particular when
    inputs that hold no chunk at all sit first, in the middle, last, or several in a row. -/
theorem concat_iterator_yields_every_chunk (inputs : List (List Chunk)) :
    concatIterAll inputs = inputs.flatten := by
  rw [concatIterAll_eq]; rfl

/-- Inputs without chunks are irrelevant wherever they sit: removing them does not change what the
    concatenating iterator yields (so no input FOLLOWING an empty one can be lost). -/
theorem concat_iterator_ignores_empty_inputs (inputs : List (List Chunk)) :
    concatIterAll inputs = concatIterAll (inputs.filter fun cs => !cs.isEmpty) := by
  rw [concatIterAll_eq, concatIterAll_eq]
  unfold concatAll
  induction inputs with
  | nil => rfl
  | cons x r ih =>
    cases x with
    | nil => simpa using ih
    | cons c cs => simp [List.filter_cons, ih]

/-- The headline clause for ANY number of source blocks under the CONCATENATING merger, whenever the
    population succeeds (the index writer accepted the concatenated chunks as time-ordered; an unsorted
    concatenation is an error, `concat_merger_unsorted_witness`): per label set the timestamps written are the
    sorted de-duplicated union of the sources' visible timestamps, every written sample IS a visible sample
    of a source (literally: the concatenating merger never decodes), every visible sample of every source is
    written — none of the inputs is dropped, whichever of them contribute no chunk —, and a label set is
    written iff some source has a visible sample for it. -/
theorem populate_samples_concat (blocks : List Block) (mint maxt : Int) (o : Output)
    (hb : ∀ b ∈ blocks, (∀ s ∈ b.series, SeriesWF s ∧ s.chunks.Pairwise (fun a b => a.maxt < b.mint)) ∧
      Asc (b.series.map (·.labels)))
    (hr : RangeOK mint maxt) (h : populate .concat blocks mint maxt = .ok o) (l : Labels) :
    let src := (blocks.flatMap fun b => b.series.filter fun s => s.labels == l).map (visible mint maxt)
    let out := (o.series.filter fun cs => cs.1 == l).flatMap csSamples
    out.map (·.t) = unionTs src ∧ (∀ x ∈ out, ∃ xs ∈ src, x ∈ xs) ∧ (∀ xs ∈ src, ∀ x ∈ xs, x ∈ out) ∧
    ((o.series.any fun cs => cs.1 == l) = src.any fun xs => !xs.isEmpty) := by
  intro src out
  obtain ⟨p1, p2, p4⟩ := populate_concat blocks mint maxt o
    (fun b hbm => ⟨fun s hs => ⟨((hb b hbm).1 s hs).1, ((hb b hbm).1 s hs).2⟩, (hb b hbm).2⟩) hr.1 hr.2 h l
  have hmem : ∀ x, x ∈ out ↔ ∃ xs ∈ src, x ∈ xs := by
    intro x
    rw [show (x ∈ out) = (x ∈ (o.series.filter fun cs => cs.1 == l).flatMap csSamples) from rfl, p2 x]
    constructor
    · rintro ⟨b, hbm, s, hs, hl, hx⟩
      exact ⟨_, (mem_src blocks mint maxt l _).2 ⟨b, hbm, s, hs, hl, rfl⟩, hx⟩
    · rintro ⟨xs, hxs, hx⟩
      obtain ⟨b, hbm, s, hs, hl, rfl⟩ := (mem_src blocks mint maxt l xs).1 hxs
      exact ⟨b, hbm, s, hs, hl, hx⟩
  refine ⟨?_, fun x hx => (hmem x).1 hx, fun xs hxs x hx => (hmem x).2 ⟨xs, hxs, hx⟩, ?_⟩
  · apply strict_ext
    · unfold SortedL at p1
      rw [List.pairwise_map]; exact p1
    · apply eraseDups_strict
      have := List.pairwise_mergeSort (le := fun (a b : Int) => decide (a ≤ b))
        (by intro a b c; simp; omega) (by intro a b; simp; omega) (src.flatten.map (·.t))
      simpa using this
    · intro t
      unfold unionTs
      rw [List.mem_eraseDups, List.mem_mergeSort]
      constructor
      · intro ht
        obtain ⟨x, hx, rfl⟩ := List.mem_map.1 ht
        obtain ⟨xs, hxs, hxx⟩ := (hmem x).1 hx
        exact List.mem_map.2 ⟨x, List.mem_flatten.2 ⟨xs, hxs, hxx⟩, rfl⟩
      · intro ht
        obtain ⟨y, hy, rfl⟩ := List.mem_map.1 ht
        obtain ⟨xs, hxs, hyx⟩ := List.mem_flatten.1 hy
        exact List.mem_map.2 ⟨y, (hmem y).2 ⟨xs, hxs, hyx⟩, rfl⟩
  · rw [Bool.eq_iff_iff, p4, List.any_eq_true]
    constructor
    · rintro ⟨b, hbm, s, hs, hl, hv⟩
      refine ⟨_, (mem_src blocks mint maxt l _).2 ⟨b, hbm, s, hs, hl, rfl⟩, ?_⟩
      cases hvs : visible mint maxt s with
      | nil => exact (hv hvs).elim
      | cons a r => rfl
    · rintro ⟨xs, hxs, hne⟩
      obtain ⟨b, hbm, s, hs, hl, rfl⟩ := (mem_src blocks mint maxt l xs).1 hxs
      refine ⟨b, hbm, s, hs, hl, ?_⟩
      intro h0; rw [h0] at hne; simp at hne

/-- the hypotheses of `populate_samples_concat` are satisfiable and the run is not trivial: three adjacent
    blocks share `{a="b"}`; in the third block both samples are deleted by two tombstones neither of which
    holds both ends of the chunk, so that block still yields the series, WITHOUT chunks; the merge set hands
    the three per-block series to the merge function in heap order block 1, block 3, block 2 — the empty
    input sits between two non-empty ones — and all four samples of blocks 1 and 2 are written. -/
theorem concat_emptied_middle_input_example :
    let blocks : List Block :=
      [⟨0, 100, [⟨[("a", "b")], [Chunk.ofSamples [⟨0, .float, 1⟩, ⟨90, .float, 2⟩]], []⟩]⟩,
       ⟨100, 200, [⟨[("a", "b")], [Chunk.ofSamples [⟨100, .float, 3⟩, ⟨190, .float, 4⟩]], []⟩]⟩,
       ⟨200, 300, [⟨[("a", "b")], [Chunk.ofSamples [⟨200, .float, 5⟩, ⟨290, .float, 6⟩]], [⟨200, 240⟩, ⟨250, 290⟩]⟩]⟩]
    (∀ b ∈ blocks, (∀ s ∈ b.series, SeriesWF s ∧ s.chunks.Pairwise (fun a b => a.maxt < b.mint)) ∧
      Asc (b.series.map (·.labels))) ∧ RangeOK 0 299 ∧
    (match blockSets 0 299 blocks with
     | .ok sets => some ((groupSets sets).1.map fun g => g.map (·.2.length))
     | .error _ => none) = some [[1, 0, 1]] ∧
    (match compact .concat blocks with
     | .block o => some (o.series.map proj, o.stats)
     | _ => none) =
      some ([([("a", "b")], [⟨0, .float, 1⟩, ⟨90, .float, 2⟩, ⟨100, .float, 3⟩, ⟨190, .float, 4⟩])], ⟨1, 2, 4, 4, 0⟩) := by
  refine ⟨?_, by unfold RangeOK; decide, by decide, by decide⟩
  intro b hb
  simp only [List.mem_cons, List.not_mem_nil, or_false] at hb
  rcases hb with rfl | rfl | rfl
  all_goals
    refine ⟨?_, by simp [Asc]⟩
    intro s hs
    simp only [List.mem_singleton] at hs
    subst hs
    refine ⟨⟨by decide, ?_, by decide, by decide, by decide, ?_⟩, by simp⟩
    · unfold Intervals.AllI64 Intervals.I64; decide
    · unfold Intervals.I64; decide

end Prom.C07
