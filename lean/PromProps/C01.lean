import PromModel.Tsdb.DbModel
/-
  C01 — Queries return exactly the committed, undeleted samples.
  Property theorems only. The statement is `Prom.Db.holds` (DbModel.lean): the reference store built
  from the observed acknowledgements must equal every query result.
-/
namespace Prom.C01
open Prom.Db Prom.Intervals

/-- The full statement for the model: every history, run from the empty database under any
    configuration with out-of-order ingestion disabled, satisfies the C01 predicate. -/
def query_exact_full : Prop :=
  ∀ (cfg : Cfg) (ops : List Op), cfg.oooWin = 0 → 0 < cfg.chunkRange →
    holds (ops.zip (Db.run { cfg := cfg } ops)) = true

/-- The empty history satisfies the statement (sanity). -/
theorem holds_nil : holds [] = true := by rfl

/-- Non-vacuity: a concrete history with a duplicate inside one transaction, a deletion, a head
    compaction, a restart and queries satisfies the predicate when run on the model. -/
theorem holds_example :
    let ops : List Op := [.begin, .app 0 10 1, .app 0 10 2, .app 1 250 3, .commit, .q 0 300,
      .del 5 15 (some 0), .q 0 300, .begin, .app 0 400 4, .commit, .compact, .reopen, .q (-5) 1000]
    holds (ops.zip (Db.run { cfg := ⟨100, 0⟩ } ops)) = true := by decide

end Prom.C01
