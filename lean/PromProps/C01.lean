import PromProofs.DbRun
/-
  C01 — Queries return exactly the committed, undeleted samples.
  Property theorems only (helper lemmas: PromProofs/Db*.lean). The statement is `Prom.Db.holds`
  (DbModel.lean): the reference store built from the observed acknowledgements must equal every
  query result.

  Proof architecture (refinement): `Inv d` (invariant of the mechanism state), `LastOk d` (the
  newest physical sample of each head series is not tombstoned, or every pending batch element of
  that series is strictly newer), `Sim d r` (for every series the
  visible samples of `d` are exactly `r.get i`, which is strictly increasing; pending batch and
  open flag agree) — bundled as `Good d r`. Every operation preserves `Good`; `Good` implies that
  a query answers exactly the reference rows.
-/
namespace Prom.C01
open Prom.Db Prom.Intervals

/-- The full statement for the model: every history, run from the empty database under any
    configuration with out-of-order ingestion disabled, satisfies the C01 predicate. -/
def query_exact_full : Prop :=
  ∀ (cfg : Cfg) (ops : List Op), cfg.oooWin = 0 → 0 < cfg.chunkRange →
    holds (ops.zip (Db.run { cfg := cfg } ops)) = true

/-- The empty history satisfies the statement (sanity). -/
theorem holds_nil : holds [] = true := by rfl

/-- Non-vacuity: a concrete history with a duplicate inside one transaction, a deletion, a head
    compaction, a restart and queries satisfies the predicate when run on the model. -/
theorem holds_example :
    let ops : List Op := [.begin, .app 0 10 1, .app 0 10 2, .app 1 250 3, .commit, .q 0 300,
      .del 5 15 (some 0), .q 0 300, .begin, .app 0 400 4, .commit, .compact, .reopen, .q (-5) 1000]
    holds (ops.zip (Db.run { cfg := ⟨100, 0⟩ } ops)) = true := by decide

/-! ### The full statement is false (finding F28; the real tsdb.DB behaves the same)

  Deleting the newest sample of a series leaves it physically in the head chunk under a tombstone.
  Re-appending the identical `(t, v)` is then acknowledged by `Append` and `Commit` (`appendable`
  treats it as a harmless duplicate of the newest physical sample and stores nothing), but the
  tombstone keeps hiding it: an acknowledged, committed, never-again-deleted sample is not returned. -/

def f28_history : List Op :=
  [.begin, .app 0 10 1, .commit, .del 0 20 none, .begin, .app 0 10 1, .commit, .q 0 100]

/-- The run: every append/commit is acknowledged and the final query is empty. -/
theorem f28_run_witness :
    Db.run { cfg := ⟨100, 0⟩ } f28_history = [.ok, .ok, .ok, .ok, .ok, .ok, .ok, .rows []] := by rfl

/-- …which violates the statement at step 7 (the reference expects `s0 = [10:1]`). -/
theorem f28_violates_witness :
    holdsFrom {} (f28_history.zip (Db.run { cfg := ⟨100, 0⟩ } f28_history)) 0 = some 7 := by decide

theorem query_exact_full_witness : ¬ query_exact_full := by
  intro h
  have := h ⟨100, 0⟩ f28_history rfl (by decide)
  revert this
  decide

/-! ### (a) queries -/

/-- In a state related to the reference, a range query returns exactly the reference rows. -/
theorem query_matches (d : Db) (r : Ref) (hI : Inv d) (hS : Sim d r) (a b : Int) :
    d.query a b = r.query a b := Db.query_matches hI hS a b

/-! ### (b) transactions -/

theorem begin_preserves (d : Db) (r : Ref) (hG : Good d r) :
    Good d.begin { r with pending := [], open_ := true } := Db.begin_preserves hG

/-- `Append`: the sample joins the pending batch iff it was acknowledged. -/
theorem append_preserves (d : Db) (r : Ref) (hG : Good d r) (i : Nat) (t : Int) (v : Nat)
    (ht : MinI64 ≤ t ∧ t < MaxI64) (hres : ¬ resubmits d i t) :
    Good (d.append i t v).1
      (if (outOfRes (d.append i t v).2).isOk = true ∧ r.open_ = true then
        { r with pending := r.pending ++ [(i, ⟨t, v⟩)] } else r) := Db.append_preserves hG i t v ht hres

/-- `Commit` (the heart): per batch element the commit-time re-check + `memSeries.append` store the
    sample iff it is strictly newer than the newest reference sample of its series. Uses `LastOk`
    (part of `Good`) — what an F28 re-submission breaks at `Append` time. -/
theorem commit_preserves (d : Db) (r : Ref) (hG : Good d r) :
    Good d.commit.1 (if (outOfRes d.commit.2).isOk then r.commit else { r with pending := [], open_ := false }) :=
  Db.commit_preserves hG

theorem rollback_preserves (d : Db) (r : Ref) (hG : Good d r) :
    Good d.rollback.1 { r with pending := [], open_ := false } := Db.rollback_preserves hG

/-! ### (c) head compaction, (e) tombstone cleaning -/

/-- `DB.Compact` with no appender open: the visible samples below the block boundary move into a
    block and leave the head; the reference (hence every query result) is unchanged. -/
theorem compact_preserves (d : Db) (r : Ref) (hG : Good d r) (happ : d.app = none) :
    Good d.compact r ∧ d.compact.app = none := Db.compact_preserves hG happ

theorem cleantomb_preserves (d : Db) (r : Ref) (hG : Good d r) : Good d.cleanTombstones r :=
  Db.cleantomb_preserves hG

/-! ### (d) deletion -/

/-- `DB.Delete a b sel`: exactly the samples of the selected series with `a ≤ t ≤ b` disappear
    (the reference after the step is `r.del a b sel`, which is what `Ref.step` computes). Coverage of
    `Intervals.add` is the explicit hypothesis `CoverHyp d` (for the tombstone lists present in `d`,
    including the inverted intervals `Head.Delete` produces); C20 develops it. -/
theorem delete_exact (d : Db) (r : Ref) (hI : Inv d) (hS : Sim d r) (hC : CoverHyp d)
    (a b : Int) (sel : Option Nat) :
    Inv (d.delete a b sel) ∧ Sim (d.delete a b sel) (r.del a b sel) ∧
      Ref.step r (.del a b sel) .ok = some (r.del a b sel) :=
  ⟨(Db.delete_preserves hI hS hC a b sel).1, (Db.delete_preserves hI hS hC a b sel).2, rfl⟩

/-- `CoverHyp` is satisfiable: a state without tombstones (adding to the empty set is exact). -/
example : CoverHyp { cfg := ⟨100, 0⟩ } := ⟨fun s hs => by simp at hs, fun b hb => by simp at hb⟩

/-- The hypotheses are satisfiable: the empty database is related to the empty reference… -/
theorem good_init (cfg : Cfg) (h0 : cfg.oooWin = 0) (h1 : 0 < cfg.chunkRange) :
    Good { cfg := cfg } {} := Db.good_init cfg h0 h1

/-- …and so is every state reached by a covered history (here: two series, a commit, a compaction). -/
example : ∃ r, Good (Db.after { cfg := ⟨100, 0⟩ } [.begin, .app 0 10 1, .commit]) r := by
  have h0 := Db.good_init ⟨100, 0⟩ rfl (by decide)
  have h1 := Db.begin_preserves h0
  have h2 := Db.append_preserves h1 0 10 1 (by decide) (by rintro ⟨l, hl, _⟩; simp [Db.begin, Db.getSeries, Db.initialized] at hl)
  exact ⟨_, Db.commit_preserves h2⟩

/-! ### Assembly

  `query_exact_partial_noreopen`: the statement for every history whose run satisfies `runOk`
  (side conditions evaluated on the model state before each step, see `Db.stepOk`):
    * no `reopen`;
    * appended timestamps are int64 values other than the `MaxInt64` sentinel;
    * no append re-submits the timestamp of its series' newest physical sample while that sample
      is hidden by a tombstone (`resubmits`, i.e. finding F28 — `query_exact_full_witness` shows the
      statement is false without this);
    * `del` and `compact` only while no appender is open (the real `DB.Compact` waits for overlapping
      appenders; a `del` between `app` and `commit` is another way to produce F28; inside an open
      transaction the model can be driven to a mismatch by `compact`, e.g. `begin, app 1 -50,
      app 1 60, app 0 -50, app 0 101, commit, begin, compact, app 1 55, commit, q` on chunkRange 100,
      which is not a history of the real system);
    * at each `del`, the coverage property of `Intervals.add` for the tombstone lists in the state.
  `query_exact_partial_nodel_noreopen`: for histories without `del`/`reopen` all side conditions are
  syntactic (`opOk`, `wfFrom`).
  Missing for a corrected full statement: `reopen` (needs a WAL invariant: replaying the logged
  records ≥ the blocks' max time rebuilds the same visible head samples), and discharging
  `CoverHyp` (C20). -/
theorem query_exact_partial_noreopen (cfg : Cfg) (ops : List Op)
    (h0 : cfg.oooWin = 0) (h1 : 0 < cfg.chunkRange) (hrun : runOk { cfg := cfg } ops) :
    holds (ops.zip (Db.run { cfg := cfg } ops)) = true := by
  unfold holds
  rw [holdsFrom_runOk ops _ _ 0 (Db.good_init cfg h0 h1) hrun]
  rfl

/-- `runOk` is satisfiable: a history with a deletion (and, by `Db.runOk_of_syntactic`, every history
    satisfying the syntactic conditions of the next theorem). -/
example : runOk { cfg := ⟨100, 0⟩ } [.begin, .commit, .del 0 20 none, .q 0 100] := by
  refine ⟨trivial, trivial, ⟨rfl, ?_⟩, trivial, trivial⟩
  exact ⟨fun s hs => absurd hs List.not_mem_nil, fun b hb => absurd hb List.not_mem_nil⟩

theorem query_exact_partial_nodel_noreopen (cfg : Cfg) (ops : List Op)
    (h0 : cfg.oooWin = 0) (h1 : 0 < cfg.chunkRange)
    (hops : ∀ op ∈ ops, opOk op ∧ (∀ a b sel, op ≠ .del a b sel) ∧ op ≠ .reopen)
    (hwf : wfFrom false ops = true) :
    holds (ops.zip (Db.run { cfg := cfg } ops)) = true := by
  unfold holds
  rw [holdsFrom_run ops _ _ 0 (Db.good_init cfg h0 h1) (fun s hs => by simp at hs) hops hwf]
  rfl

/-- The hypotheses of the partial theorem are satisfied by a non-trivial history. -/
example :
    let ops : List Op := [.begin, .app 0 10 1, .app 0 10 2, .app 1 250 3, .commit, .q 0 300,
      .begin, .app 0 400 4, .commit, .compact, .cleantomb, .q (-5) 1000, .win]
    (∀ op ∈ ops, opOk op ∧ (∀ a b sel, op ≠ .del a b sel) ∧ op ≠ .reopen) ∧ wfFrom false ops = true := by
  refine ⟨?_, by decide⟩
  intro op hop
  simp only [List.mem_cons, List.mem_nil_iff, or_false] at hop
  rcases hop with rfl | rfl | rfl | rfl | rfl | rfl | rfl | rfl | rfl | rfl | rfl | rfl | rfl <;>
    exact ⟨by simp [opOk, MinI64, MaxI64], by intros; simp, by simp⟩

end Prom.C01
