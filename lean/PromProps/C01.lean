import PromProofs.DbRun
import PromProofs.DbRunAll
import PromProofs.DbReopenWith
import PromProofs.TombstonesTrunc
/-
  C01 — Queries return exactly the committed, undeleted samples.
  Property theorems only (helper lemmas: PromProofs/Db*.lean). The statement is `Prom.Db.holds`
  (DbModel.lean): the reference store built from the observed acknowledgements must equal every
  query result.

  Proof architecture (refinement): `Inv d` (invariant of the mechanism state), `LastOk d` (the
  newest physical sample of each head series is not tombstoned, or every pending batch element of
  that series is strictly newer), `Sim d r` (for every series the
  visible samples of `d` are exactly `r.get i`, which is strictly increasing; pending batch and
  open flag agree) — bundled as `Good d r`. Every operation preserves `Good`; `Good` implies that
  a query answers exactly the reference rows.
-/
namespace Prom.C01
open Prom.Db Prom.Intervals

/-- The full statement for the model: every history, run from the empty database under any
    configuration with out-of-order ingestion disabled, satisfies the C01 predicate. -/
def query_exact_full : Prop :=
  ∀ (cfg : Cfg) (ops : List Op), cfg.oooWin = 0 → 0 < cfg.chunkRange →
    holds (ops.zip (Db.run { cfg := cfg } ops)) = true

/-- The empty history satisfies the statement (sanity). -/
theorem holds_nil : holds [] = true := by rfl

/-- Non-vacuity: a concrete history with a duplicate inside one transaction, a deletion, a head
    compaction, a restart and queries satisfies the predicate when run on the model. -/
theorem holds_example :
    let ops : List Op := [.begin, .app 0 10 1, .app 0 10 2, .app 1 250 3, .commit, .q 0 300,
      .del 5 15 (some 0), .q 0 300, .begin, .app 0 400 4, .commit, .compact, .reopen, .q (-5) 1000]
    holds (ops.zip (Db.run { cfg := ⟨100, 0⟩ } ops)) = true := by decide

/-! ### The full statement is false (finding F28; the real tsdb.DB behaves the same)

  Deleting the newest sample of a series leaves it physically in the head chunk under a tombstone.
  Re-appending the identical `(t, v)` is then acknowledged by `Append` and `Commit` (`appendable`
  treats it as a harmless duplicate of the newest physical sample and stores nothing), but the
  tombstone keeps hiding it: an acknowledged, committed, never-again-deleted sample is not returned. -/

def f28_history : List Op :=
  [.begin, .app 0 10 1, .commit, .del 0 20 none, .begin, .app 0 10 1, .commit, .q 0 100]

/-- The run: every append/commit is acknowledged and the final query is empty. -/
theorem f28_run_witness :
    Db.run { cfg := ⟨100, 0⟩ } f28_history = [.ok, .ok, .ok, .ok, .ok, .ok, .ok, .rows []] := by rfl

/-- …which violates the statement at step 7 (the reference expects `s0 = [10:1]`). -/
theorem f28_violates_witness :
    holdsFrom {} (f28_history.zip (Db.run { cfg := ⟨100, 0⟩ } f28_history)) 0 = some 7 := by decide

theorem query_exact_full_witness : ¬ query_exact_full := by
  intro h
  have := h ⟨100, 0⟩ f28_history rfl (by decide)
  revert this
  decide

/-! ### (a) queries -/

/-- In a state related to the reference, a range query returns exactly the reference rows. -/
theorem query_matches (d : Db) (r : Ref) (hI : Inv d) (hS : Sim d r) (a b : Int) :
    d.query a b = r.query a b := Db.query_matches hI hS a b

/-! ### (b) transactions -/

theorem begin_preserves (d : Db) (r : Ref) (hG : Good d r) :
    Good d.begin { r with pending := [], open_ := true } := Db.begin_preserves hG

/-- `Append`: the sample joins the pending batch iff it was acknowledged. -/
theorem append_preserves (d : Db) (r : Ref) (hG : Good d r) (i : Nat) (t : Int) (v : Nat)
    (ht : MinI64 ≤ t ∧ t < MaxI64) (hres : ¬ resubmits d i t) :
    Good (d.append i t v).1
      (if (outOfRes (d.append i t v).2).isOk = true ∧ r.open_ = true then
        { r with pending := r.pending ++ [(i, ⟨t, v⟩)] } else r) := Db.append_preserves hG i t v ht hres

/-- `Commit` (the heart): per batch element the commit-time re-check + `memSeries.append` store the
    sample iff it is strictly newer than the newest reference sample of its series. Uses `LastOk`
    (part of `Good`) — what an F28 re-submission breaks at `Append` time. -/
theorem commit_preserves (d : Db) (r : Ref) (hG : Good d r) :
    Good d.commit.1 (if (outOfRes d.commit.2).isOk then r.commit else { r with pending := [], open_ := false }) :=
  Db.commit_preserves hG

theorem rollback_preserves (d : Db) (r : Ref) (hG : Good d r) :
    Good d.rollback.1 { r with pending := [], open_ := false } := Db.rollback_preserves hG

/-! ### (c) head compaction, (e) tombstone cleaning -/

/-- `DB.Compact` with no appender open: the visible samples below the block boundary move into a
    block and leave the head; the reference (hence every query result) is unchanged. -/
theorem compact_preserves (d : Db) (r : Ref) (hG : Good d r) (happ : d.app = none) :
    Good d.compact r ∧ d.compact.app = none := Db.compact_preserves hG happ

theorem cleantomb_preserves (d : Db) (r : Ref) (hG : Good d r) : Good d.cleanTombstones r :=
  Db.cleantomb_preserves hG

/-! ### (d) deletion -/

/-- `DB.Delete a b sel`: exactly the samples of the selected series with `a ≤ t ≤ b` disappear
    (the reference after the step is `r.del a b sel`, which is what `Ref.step` computes). Coverage of
    `Intervals.add` is the explicit hypothesis `CoverHyp d` here; `delete_exact_canon` below replaces
    it by the tombstone invariant `TInv`, which every history maintains. -/
theorem delete_exact (d : Db) (r : Ref) (hI : Inv d) (hS : Sim d r) (hC : CoverHyp d)
    (a b : Int) (sel : Option Nat) :
    Inv (d.delete a b sel) ∧ Sim (d.delete a b sel) (r.del a b sel) ∧
      Ref.step r (.del a b sel) .ok = some (r.del a b sel) :=
  ⟨(Db.delete_preserves hI hS hC a b sel).1, (Db.delete_preserves hI hS hC a b sel).2, rfl⟩

/-- `CoverHyp` is satisfiable: a state without tombstones (adding to the empty set is exact). -/
example : CoverHyp { cfg := ⟨100, 0⟩ } := ⟨fun s hs => by simp at hs, fun b hb => by simp at hb⟩

/-- The hypotheses are satisfiable: the empty database is related to the empty reference… -/
theorem good_init (cfg : Cfg) (h0 : cfg.oooWin = 0) (h1 : 0 < cfg.chunkRange) :
    Good { cfg := cfg } {} := Db.good_init cfg h0 h1

/-- …and so is every state reached by a covered history (here: two series, a commit, a compaction). -/
example : ∃ r, Good (Db.after { cfg := ⟨100, 0⟩ } [.begin, .app 0 10 1, .commit]) r := by
  have h0 := Db.good_init ⟨100, 0⟩ rfl (by decide)
  have h1 := Db.begin_preserves h0
  have h2 := Db.append_preserves h1 0 10 1 (by decide) (by rintro ⟨l, hl, _⟩; simp [Db.begin, Db.getSeries, Db.initialized] at hl)
  exact ⟨_, Db.commit_preserves h2⟩

/-! ### Assembly

  `query_exact_partial_noreopen`: the statement for every history whose run satisfies `runOk`
  (side conditions evaluated on the model state before each step, see `Db.stepOk`):
    * no `reopen`;
    * appended timestamps are int64 values other than the `MaxInt64` sentinel;
    * no append re-submits the timestamp of its series' newest physical sample while that sample
      is hidden by a tombstone (`resubmits`, i.e. finding F28 — `query_exact_full_witness` shows the
      statement is false without this);
    * `del` and `compact` only while no appender is open (the real `DB.Compact` waits for overlapping
      appenders; a `del` between `app` and `commit` is another way to produce F28; inside an open
      transaction the model can be driven to a mismatch by `compact`, e.g. `begin, app 1 -50,
      app 1 60, app 0 -50, app 0 101, commit, begin, compact, app 1 55, commit, q` on chunkRange 100,
      which is not a history of the real system);
    * at each `del`, the coverage property of `Intervals.add` for the tombstone lists in the state.
  `query_exact_partial_nodel_noreopen`: for histories without `del`/`reopen` all side conditions are
  syntactic (`opOk`, `wfFrom`).
  Superseded by `query_exact_partial` below (all operations incl. `reopen`, decidable side
  conditions only, `CoverHyp` discharged); kept because `runOk` is stated on `Prop` level. -/
theorem query_exact_partial_noreopen (cfg : Cfg) (ops : List Op)
    (h0 : cfg.oooWin = 0) (h1 : 0 < cfg.chunkRange) (hrun : runOk { cfg := cfg } ops) :
    holds (ops.zip (Db.run { cfg := cfg } ops)) = true := by
  unfold holds
  rw [holdsFrom_runOk ops _ _ 0 (Db.good_init cfg h0 h1) hrun]
  rfl

/-- `runOk` is satisfiable: a history with a deletion (and, by `Db.runOk_of_syntactic`, every history
    satisfying the syntactic conditions of the next theorem). -/
example : runOk { cfg := ⟨100, 0⟩ } [.begin, .commit, .del 0 20 none, .q 0 100] := by
  refine ⟨trivial, trivial, ⟨rfl, ?_⟩, trivial, trivial⟩
  exact ⟨fun s hs => absurd hs List.not_mem_nil, fun b hb => absurd hb List.not_mem_nil⟩

theorem query_exact_partial_nodel_noreopen (cfg : Cfg) (ops : List Op)
    (h0 : cfg.oooWin = 0) (h1 : 0 < cfg.chunkRange)
    (hops : ∀ op ∈ ops, opOk op ∧ (∀ a b sel, op ≠ .del a b sel) ∧ op ≠ .reopen)
    (hwf : wfFrom false ops = true) :
    holds (ops.zip (Db.run { cfg := cfg } ops)) = true := by
  unfold holds
  rw [holdsFrom_run ops _ _ 0 (Db.good_init cfg h0 h1) (fun s hs => by simp at hs) hops hwf]
  rfl

/-- The hypotheses of the partial theorem are satisfied by a non-trivial history. -/
example :
    let ops : List Op := [.begin, .app 0 10 1, .app 0 10 2, .app 1 250 3, .commit, .q 0 300,
      .begin, .app 0 400 4, .commit, .compact, .cleantomb, .q (-5) 1000, .win]
    (∀ op ∈ ops, opOk op ∧ (∀ a b sel, op ≠ .del a b sel) ∧ op ≠ .reopen) ∧ wfFrom false ops = true := by
  refine ⟨?_, by decide⟩
  intro op hop
  simp only [List.mem_cons, List.mem_nil_iff, or_false] at hop
  rcases hop with rfl | rfl | rfl | rfl | rfl | rfl | rfl | rfl | rfl | rfl | rfl | rfl | rfl <;>
    exact ⟨by simp [opOk, MinI64, MaxI64], by intros; simp, by simp⟩

/-! ### Deletion without the coverage hypothesis (C20's `add_canonical` along histories)

  `TInv d` (PromProofs/DbTombs.lean): every tombstone list of the state — head and blocks — is canonical
  (C20 `Canon`: valid, sorted, non-overlapping, non-adjacent intervals) with int64 endpoints, and all
  sample timestamps are ≥ MinInt64. It holds initially and every operation preserves it, because every
  interval handed to `Intervals.add` is VALID: block stones by construction, head stones since the fix
  of finding F35 (`Head.Delete` skipped nothing and stored the INVERTED interval `clampInterval` yields
  when the requested range misses a series' own range; an inverted interval makes the list unsorted and
  then (A) a later `Add` can drop a live tombstone — binary search + merge — and (B)
  `MemTombstones.TruncateBefore`'s backward scan can cut live tombstones at the next head compaction:
  deleted samples came back. Both reproduced on the real tsdb.DB, corpus/C01/db-inverted-stone-*.ops;
  fixed in /repo by "fix: tsdb: Head.Delete stores inverted tombstone intervals that later bring deleted
  samples back"; `Db.delete` follows the fixed code). On canonical lists C20 `add_canonical` gives exact
  coverage, so `CoverHyp` is no longer a hypothesis. -/

/-- `DB.Delete a b sel` in any state satisfying the invariants: exactly the selected samples in range
    disappear, and the tombstone invariant is kept — no hypothesis about `Intervals.add`. -/
theorem delete_exact_canon (d : Db) (r : Ref) (hI : Inv d) (hS : Sim d r) (hT : TInv d)
    (a b : Int) (sel : Option Nat) :
    Inv (d.delete a b sel) ∧ Sim (d.delete a b sel) (r.del a b sel) ∧ TInv (d.delete a b sel) ∧
      Ref.step r (.del a b sel) .ok = some (r.del a b sel) :=
  ⟨(Db.delete_tinv_and_preserves hI hS hT a b sel).1, (Db.delete_tinv_and_preserves hI hS hT a b sel).2.1,
   (Db.delete_tinv_and_preserves hI hS hT a b sel).2.2, rfl⟩

/-- Every head stone `DB.Delete` logs and stores is a valid interval (F35 fixed). -/
theorem head_stones_valid (d : Db) (a b : Int) (sel : Option Nat) : stonesValid d a b sel :=
  Db.stonesValid_holds d a b sel

/-- The tombstone invariant discharges `CoverHyp` for every VALID int64 interval (what `DB.Delete`
    passes to `Intervals.add`). -/
theorem cover_of_tinv (d : Db) (hT : TInv d) :
    (∀ s ∈ d.series, ∀ iv : Interval, (I64 iv.mint ∧ I64 iv.maxt) → iv.mint ≤ iv.maxt → AddCoversAt s.tombs iv) ∧
    (∀ blk ∈ d.blocks, ∀ s ∈ blk.series, ∀ iv : Interval, (I64 iv.mint ∧ I64 iv.maxt) → iv.mint ≤ iv.maxt →
      AddCoversAt s.tombs iv) :=
  ⟨fun s hs _ h64 hv => (Db.addTomb_canon (hT.headOk s hs).1 (hT.headOk s hs).2 h64 hv).2.2,
   fun blk hb s hs _ h64 hv => (Db.addTomb_canon (hT.blkOk blk hb s hs).1 (hT.blkOk blk hb s hs).2 h64 hv).2.2⟩

/-- Head compaction truncates the head tombstones with `tombs.filter (maxt ≥ T)`; the code's
    `MemTombstones.TruncateBefore` scans backwards and cuts at the first interval ending before `T`
    (`Prom.Tombstones.truncIvs`, C20). On the canonical lists of `TInv` the two agree. -/
theorem compact_truncate_matches_code (d : Db) (hT : TInv d) (T : Int) :
    ∀ s ∈ d.series, Prom.Tombstones.truncIvs T s.tombs = s.tombs.filter (fun iv => decide (T ≤ iv.maxt)) :=
  fun s hs => Prom.Tombstones.truncIvs_eq_filter T s.tombs (hT.headOk s hs).1

/-! ### (f) restart

  `WGood d r` = `Good d r` + `TInv d` + window facts `XInv d` + the WAL invariant `WalInv d`
  (PromProofs/DbWal.lean): for EVERY cutoff `c ≥ max block maxt`, the head replayed from `d.wal` with
  cutoff `c` holds every live physical sample `≥ c`, every other replayed sample is older than
  `d.minValid` and hidden by a replayed tombstone, and live samples are visible in the replayed head
  iff they are visible in `d`. The WAL holds, in commit order, exactly the batches as accepted at
  `Append` time plus the head-delete stones; blocks hold what compaction moved. -/

/-- Restart through the WAL replay preserves the refinement relation (hence every query result). -/
theorem reopen_preserves (d : Db) (r : Ref) (hW : WGood d r) :
    WGood ({ d.reopen with app := none }) { r with pending := [], open_ := false } :=
  Db.reopen_wgood hW

/-- …in particular a query after the restart answers exactly the reference rows. -/
theorem reopen_query_matches (d : Db) (r : Ref) (hW : WGood d r) (a b : Int) :
    ({ d.reopen with app := none } : Db).query a b = r.query a b := by
  have h := Db.reopen_wgood hW
  have : ({ r with pending := [], open_ := false } : Ref).query a b = r.query a b := rfl
  rw [← this]
  exact Db.query_matches h.good.inv h.good.sim a b

/-- `WGood` is satisfiable: the empty database, and (by `step_wgood`) every state a covered history reaches. -/
theorem wgood_init (cfg : Cfg) (h0 : cfg.oooWin = 0) (h1 : 0 < cfg.chunkRange) : WGood { cfg := cfg } {} :=
  Db.wgood_init cfg h0 h1

/-- Every operation, including `reopen`, preserves `WGood` under the decidable side conditions `stepOkB`. -/
theorem step_preserves_all (d : Db) (r : Ref) (hW : WGood d r) (op : Op) (hok : stepOkB d op = true) :
    ∃ r', Ref.step r op (d.step op).2 = some r' ∧ WGood (d.step op).1 r' := Db.step_wgood hW op hok

/-! ### Finding F30: CleanTombstones + restart (the side condition of `cleantomb`)

  `Delete` on persisted blocks writes block tombstones only; `CleanTombstones` rewrites the blocks and
  drops a block that became empty; the next start takes `minValidTime` from the remaining blocks and the
  WAL replays the deleted samples. `corpus/C01/db-cleantomb-restart.ops` on the model: -/

def f30_history : List Op :=
  [.begin, .app 0 1001 1, .app 0 3001 2, .app 0 4004 3, .app 1 6004 4, .commit, .compact, .reopen,
   .del MinI64 6000 (some 0), .q 0 7000, .compact, .cleantomb, .q 0 7000, .reopen, .q 4000 5000, .q 0 7000]

/-- The history violates the statement at the first query after the second restart (step 14). -/
theorem f30_violates_witness :
    holdsFrom {} (f30_history.zip (Db.run { cfg := ⟨1000, 0⟩ } f30_history)) 0 = some 14 := by decide

/-- The side condition of `query_exact_partial` fails exactly at its `cleantomb` (step 11): everything
    before satisfies `runOkB`, and `CleanTombstones` lowers the largest block maxt. -/
theorem f30_side_condition_witness :
    runOkB { cfg := ⟨1000, 0⟩ } (f30_history.take 11) = true ∧
    stepOkB (Db.after { cfg := ⟨1000, 0⟩ } (f30_history.take 11)) .cleantomb = false := by decide

/-! ### The statement over ALL operations

  `query_exact_partial`: every history over begin/app/commit/rollback/del/compact/cleantomb/reopen/q/win,
  run from the empty database (out-of-order ingestion disabled), satisfies the C01 predicate, provided
  the run satisfies the DECIDABLE side conditions `runOkB` (`Db.stepOkB`, evaluated on the model state
  before each step):
    * appended timestamps are int64 values other than the MaxInt64 sentinel, and no append re-submits
      the timestamp of its series' newest physical sample while a tombstone hides it — finding F28
      (`query_exact_full_witness`: the statement is false without it, in model and code);
    * `del` and `compact` only while no appender is open (not a restriction of single-threaded
      histories of the real system: `DB.Compact` waits for open appenders; a `del` between `app` and
      `commit` is another way to produce F28);
    * `cleantomb` does not lower the largest block maxt — finding F30 (`f30_violates_witness`).
  These are exactly the two known findings; the third one met on the way (F35, inverted head
  tombstones) is fixed in /repo and needs no side condition any more. -/
theorem query_exact_partial (cfg : Cfg) (ops : List Op)
    (h0 : cfg.oooWin = 0) (h1 : 0 < cfg.chunkRange) (hrun : runOkB { cfg := cfg } ops = true) :
    holds (ops.zip (Db.run { cfg := cfg } ops)) = true := by
  unfold holds
  rw [Db.holdsFrom_runOkB ops _ _ 0 (Db.wgood_init cfg h0 h1) hrun]
  rfl

/-- The side conditions are met by a history with duplicates, deletions (one missing the series' own
    range), head compaction, tombstone cleaning, restarts and an open transaction across a restart. -/
example :
    let ops : List Op := [.begin, .app 0 10 1, .app 0 10 2, .app 1 250 3, .commit, .q 0 300,
      .del 5 15 (some 0), .del 400 500 none, .q 0 300, .begin, .app 0 400 4, .commit, .compact, .reopen,
      .q (-5) 1000, .del 240 260 none, .cleantomb, .begin, .app 1 420 5, .reopen, .q 0 1000, .win]
    runOkB { cfg := ⟨100, 0⟩ } ops = true := by decide

/-! ### `Db.reopenWith` (restart with the m-mapped-chunk oracle, used by the suite) -/

/-- With the empty oracle `reopenWith` is `reopen`, provided no sample sits at `MinInt64` (the oracle
    default; such a sample would count as m-mapped). -/
theorem reopenWith_nil (d : Db) (h1 : ∀ s ∈ d.series, ∀ x ∈ s.phys, MinI64 < x.t)
    (h2 : ∀ xs, Rec.samples xs ∈ d.wal → ∀ p ∈ xs, MinI64 < p.2.t) :
    Db.reopenWith [] d = d.reopen := Db.reopenWith_nil d h1 h2

end Prom.C01
