import PromModel.Tsdb.Checkpoint
import PromModel.Tsdb.CheckpointHead
import PromModel.Suites.CkptSuite
/-
  C15 — WAL truncation keeps everything replay still needs.
-/
namespace Prom.C15
open Prom.Ckpt

/-- A checkpoint never invents records: with nothing to read it writes nothing. -/
theorem checkpoint_nil (keep : Nat → Bool) (mint : Int) : checkpoint keep mint [] = [] := by
  simp [checkpoint, latestMeta]

end Prom.C15
