import PromModel.Tsdb.Checkpoint
import PromModel.Tsdb.CheckpointHead
import PromModel.Tsdb.Agent
import PromModel.Suites.CkptSuite
import PromProofs.CheckpointLemmas
/-
  C15 — WAL truncation keeps everything replay still needs (models: PromModel/Tsdb/Checkpoint.lean =
  `wlog.Checkpoint` + segment arithmetic, PromModel/Tsdb/CheckpointHead.lean = the head's keep function,
  expiries, eviction and replay, PromModel/Tsdb/Agent.lean = the agent variant).

  Proved for ALL record lists, keep functions and truncation times:
    * `replay_after_checkpoint_partial`  replaying `checkpoint ++ tail` feeds the head the same samples,
        histograms and exemplars at or after `mint` (resolved to label sets, unknown refs dropped, first
        series record of a ref wins — the effect of `multiRef`) as replaying `cp ++ tail`, under `Inv`
        (= `NeedKept`: `keep` holds for every bound ref that still has an entry with `t ≥ mint`);
    * `series_record_precedes_partial`   "every sample / exemplar / tombstone record refers to a ref whose
        series record occurs earlier" survives the record filters of a checkpoint when `keep` holds for the
        refs of surviving sample entries (tombstones are dropped with their series by construction);
    * `recent_entries_survive`, `checkpoint_sound` — the exact filters;
    * `head_keep_exact`, `agent_keep_exact` — the two keep functions; `truncPlan_spec` — the segment
        arithmetic never touches the last segment and needs at least three older ones.
  Witnesses: `duplicate_ref_orphan_witness` (F25, agent), `metadata_under_duplicate_ref_lost_witness`
  (C15-F1, head).
  NOT proved (kept as `…_full : Prop`): tombstones and latest metadata inside the replay equivalence
  (false for metadata as transcribed, see the witness), and the history-level invariant establishing
  `NeedKept`/`SurvKeep` after every head history.
-/
namespace Prom.C15
open Prom.Ckpt

/-- `replay_after_checkpoint` for samples, histograms and exemplars. -/
theorem replay_after_checkpoint_partial (keep : Nat → Bool) (mint : Int) (cp tail : List Rec)
    (inv : NeedKept keep mint [] (cp ++ tail)) :
    (emit [] (checkpoint keep mint cp ++ tail)).filter (recent mint) =
    (emit [] (cp ++ tail)).filter (recent mint) := by
  unfold checkpoint
  have hextra : ∀ r ∈ (let m := latestMeta keep cp; if m.isEmpty then [] else [Rec.mdata m]),
      ∃ xs, r = Rec.mdata xs := by
    intro r hr
    simp only at hr
    split at hr
    · cases hr
    · exact ⟨_, by simpa using hr⟩
  exact emit_checkpoint_aux cp _ tail hextra [] [] (agree_refl keep) inv

/-- The hypothesis is satisfiable and the statement non-trivial: ref 1 is kept, ref 2 (only old data)
    is dropped, the recent sample of ref 1 is replayed from the checkpoint. -/
example :
    let keep := fun r => r == 1
    let cp := [Rec.series [(1, 7), (2, 8)], Rec.smp .float [⟨1, 50, 1⟩, ⟨2, 10, 2⟩, ⟨1, 5, 3⟩]]
    (emit [] (checkpoint keep 20 cp ++ [Rec.smp .ex [⟨1, 60, 4⟩]])).filter (recent 20)
      = [(7, .float, 50, 1), (7, .ex, 60, 4)] := by decide

/-- the full statement of the DESIGN entry: also tombstones (clipped to `[mint, ∞)`) and the latest
    metadata per label set agree. Not proved; false for metadata as the code stands (C15-F1/F2). -/
def replay_after_checkpoint_full : Prop :=
  ∀ (keep : Nat → Bool) (mint : Int) (cp tail : List Rec), NeedKept keep mint [] (cp ++ tail) →
    (CkptHead.replay mint (checkpoint keep mint cp ++ tail)).series.map (fun s => (s.lid, s.mid)) =
    (CkptHead.replay mint (cp ++ tail)).series.map (fun s => (s.lid, s.mid))

/-- `series_record_precedes` for one checkpoint (record filters; the trailing metadata record only
    contains refs with `keep` whose metadata record — hence series record — was in the input). -/
theorem series_record_precedes_partial (keep : Nat → Bool) (mint : Int) (recs : List Rec)
    (h : precOK [] recs) (hk : SurvKeep keep mint recs) :
    precOK [] (recs.filterMap (ckptRec keep mint)) := by
  simpa using precOK_filterMap recs [] h hk

/-- invariant over all histories (not proved): after every history of the head model the log
    satisfies "series record precedes" for every entry at or after the last truncation time. -/
def series_record_precedes_full : Prop :=
  ∀ (ops : List String), ∀ out ∈ CkptSuite.model ops, ¬ out.startsWith "violation"

theorem recent_entries_survive (keep : Nat → Bool) (mint : Int) (recs : List Rec) (k : SKind) (xs : List Smp)
    (x : Smp) (hr : Rec.smp k xs ∈ recs) (hx : x ∈ xs) (ht : x.t ≥ mint) :
    ∃ ys, Rec.smp k ys ∈ checkpoint keep mint recs ∧ x ∈ ys := smp_survives hr hx ht

theorem checkpoint_sound (keep : Nat → Bool) (mint : Int) (recs : List Rec) (r : Rec)
    (hr : r ∈ recs.filterMap (ckptRec keep mint)) :
    (∀ k ys, r = Rec.smp k ys → ∀ y ∈ ys, y.t ≥ mint) ∧ (∀ ys, r = Rec.series ys → ∀ p ∈ ys, keep p.1 = true) :=
  Ckpt.checkpoint_sound hr

/-- `keepSeriesInWALCheckpointFn` of the head: in the head (reachable by ref), or an expiry at or after
    `mint`. -/
theorem head_keep_exact (m : CkptHead.Mem) (mint : Int) (ref : Nat) :
    m.keep mint ref = true ↔
      (∃ s ∈ m.series, s.ref = ref ∧ s.hidden = false) ∨
        (∃ k, CkptHead.getExp m.walExp ref = some k ∧ k ≥ mint) := by
  unfold CkptHead.Mem.keep CkptHead.Mem.byRef
  cases h : CkptHead.getExp m.walExp ref <;> simp [h]

/-- `keepSeriesInWALCheckpointFn` of the agent: in memory, or deleted with `lastSegment > last`. -/
theorem agent_keep_exact (d : Agent.Db) (last ref : Nat) :
    d.keep last ref = true ↔
      (∃ s ∈ d.series, s.ref = ref) ∨ (∃ x ∈ d.deleted, x.ref = ref ∧ x.seg > last) := by
  simp [Agent.Db.keep, Agent.Db.live]

/-- The segment arithmetic: a checkpoint is taken only with at least three segments before the last
    one, it ends strictly after `first` and never includes the last segment. -/
theorem truncPlan_spec (first last l : Int) (h0 : 0 ≤ first) (h1 : first ≤ last)
    (h : truncPlan first last = some l) : first < l ∧ l < last ∧ first + 3 ≤ last := by
  unfold truncPlan at h
  simp only at h
  by_cases hge : first ≤ last - 1
  · have hnn : 0 ≤ (last - 1 - first) * 2 := by omega
    rw [Int.tdiv_eq_ediv_of_nonneg hnn] at h
    split at h
    · cases h
    · split at h
      · cases h
      · cases h
        omega
  · have hl : last = first := by omega
    subst hl
    have h2 : (last - 1 - last) * 2 = -2 := by omega
    rw [h2] at h
    have h3 : Int.tdiv (-2) 3 = 0 := by decide
    rw [h3] at h
    simp at h

example : truncPlan 0 3 = some 1 ∧ truncPlan 0 2 = none ∧ truncPlan 4 10 = some 7 := by decide

/-- F25 (agent): see `PromProps/C48.lean`; restated on the shared predicate. -/
theorem duplicate_ref_orphan_witness :
    ∃ ops : List Agent.Op, ((orphans [] ((Agent.Db.init {}).run ops).wal.recs).map fun p => (p.2.1, p.2.2)) = [(2, 160)] :=
  ⟨[.app 1 100 1 .float 0 none, .commit, .cut, .cut, .cut, .trunc 150,
    .app 1 160 2 .float 0 none, .commit, .restart, .cut, .cut, .cut, .trunc 155], by decide⟩

/-- C15-F1 (head): metadata logged under a duplicate ref (here ref 2 of label set 7, mapped onto ref 1
    by replay) is dropped with the duplicate's series record once `keep 2` is false, although the
    series is alive under ref 1: the truncated log replays metadata 1, the full log metadata 2. -/
theorem metadata_under_duplicate_ref_lost_witness :
    let keep := fun r => r == 1
    let cp := [Rec.series [(1, 7)], Rec.mdata [(1, 1)], Rec.series [(2, 7)], Rec.mdata [(2, 2)]]
    let tail := [Rec.smp .float [⟨1, 100, 5⟩]]
    NeedKept keep 50 [] (cp ++ tail) ∧
    (CkptHead.replay 50 (checkpoint keep 50 cp ++ tail)).series.map (fun s => (s.lid, s.mid)) = [(7, some 1)] ∧
    (CkptHead.replay 50 (cp ++ tail)).series.map (fun s => (s.lid, s.mid)) = [(7, some 2)] := by
  refine ⟨?_, by decide, by decide⟩
  simp [NeedKept, bindOf]

theorem replay_after_checkpoint_full_false_witness : ¬ replay_after_checkpoint_full := by
  intro h
  have hw := metadata_under_duplicate_ref_lost_witness
  simp only at hw
  have := h (fun r => r == 1) 50 _ _ hw.1
  rw [hw.2.1, hw.2.2] at this
  revert this
  decide

end Prom.C15
