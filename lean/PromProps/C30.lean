import PromModel.Promql.RateFns
namespace Prom.C30
open Prom.RateFns

theorem irate_needs_two (s : Sample) : instantValue .exact true [s] = none := by rfl

end Prom.C30
