import PromProofs.RateFns
import PromModel.Suites.RateSuite
/-
  C30 — Counter and delta functions follow the documented algorithms.

  `extrapolatedRate`, `instantValue`, `resets`, `changes` are the transcriptions of
  promql/functions.go (PromModel/Promql/RateFns.lean); `Doc.*` is the documented algorithm written
  independently. All theorems are about `Arith.exact` (exact rationals, `1.1 = 11/10`) and hold for
  arbitrary windows (lists of samples); binary64 rounding is the runtime behaviour covered by the
  correspondence suite `promqlrate` (which runs the same definitions with `Arith.f64` and must agree
  with the engine bit for bit).
-/
namespace Prom.C30
open Prom.RateFns

/-! ### transcription = documented algorithm -/

/-- `rate`: the transcribed code computes exactly the documented algorithm, for every window. -/
theorem rate_eq_doc (rs re rm : Int) (w : List Sample) :
    extrapolatedRate .exact true true rs re rm w = Doc.rate rs re rm w := by
  rw [extrapolated_eq_doc]; simp [Doc.rate, Doc.increase]

theorem increase_eq_doc (rs re rm : Int) (w : List Sample) :
    extrapolatedRate .exact true false rs re rm w = Doc.increase true rs re w := by
  rw [extrapolated_eq_doc]; unfold Doc.increase; cases Doc.pieces true rs re w <;> rfl

theorem delta_eq_doc (rs re rm : Int) (w : List Sample) :
    extrapolatedRate .exact false false rs re rm w = Doc.increase false rs re w := by
  rw [extrapolated_eq_doc]; unfold Doc.increase; cases Doc.pieces false rs re w <;> rfl

/-- The counter-reset correction of the code (`last − first + Σ prev at resets`) is the sum of the
    per-step increases of the documentation, for every non-empty window. -/
theorem reset_correction_telescopes (first : Sample) (rest : List Sample) :
    correctionLoop .exact (first :: rest) (((first :: rest).getLast (by simp)).v - first.v)
      = Doc.rawIncrease (first :: rest) :=
  correctionLoop_raw first rest

/-! ### increase = rate × range -/

/-- "increase is syntactic sugar for rate(v) multiplied by the number of seconds under the
    specified time range window" — exactly, over the rationals. -/
theorem increase_eq_rate_mul_range (rs re rm : Int) (hrm : rm ≠ 0) (w : List Sample) :
    extrapolatedRate .exact true false rs re rm w
      = (extrapolatedRate .exact true true rs re rm w).map (· * ((rm : Rat) / 1000)) := by
  rw [extrapolated_eq_doc, extrapolated_eq_doc]
  have h : ((rm : Rat) / 1000) ≠ 0 := by
    have : (rm : Rat) ≠ 0 := by
      intro h0; apply hrm; exact_mod_cast h0
    grind
  cases (Doc.pieces true rs re w) with
  | none => rfl
  | some p => simp only [Option.map, Bool.false_eq_true, if_false, if_true]; congr 1; grind

example : (60000 : Int) ≠ 0 := by decide

/-! ### non-negativity -/

/-- For non-negative counter samples inside the window, `rate` and `increase` are never negative
    (with or without start timestamps, with any number of resets). -/
theorem rate_nonneg (isRate : Bool) (rs re rm : Int) (w : List Sample)
    (hw : InWindow rs re w) (hv : ∀ s ∈ w, 0 ≤ s.v) (hrm : 0 ≤ rm) (x : Rat)
    (hx : extrapolatedRate .exact true isRate rs re rm w = some x) : 0 ≤ x := by
  rw [extrapolated_eq_doc] at hx
  cases w with
  | nil => cases hx
  | cons first rest =>
    cases hp : Doc.pieces true rs re (first :: rest) with
    | none => rw [hp] at hx; cases hx
    | some p =>
      rw [hp] at hx
      have hf := pieces_facts true rs re first rest hw p hp
      have hr := pieces_raw_nonneg rs re _ hv p hp
      have hi := increase_nonneg p hr hf.1 hf.2.1 hf.2.2.1
      simp only [Option.map] at hx
      injection hx with hx; subst hx
      split
      · exact divNonneg hi (castDiv_nonneg hrm)
      · exact hi

example : InWindow 0 60000 [⟨10000, 5, 0⟩, ⟨20000, 2, 0⟩, ⟨40000, 7, 20000⟩] :=
  ⟨by decide, by decide, by decide⟩

/-- Without the hypothesis the claim is false: on negative samples a "reset" yields a negative
    instant rate (the code takes the current value as the increase). -/
theorem irate_negative_sample_witness :
    instantValue .exact true [⟨10000, -3, 0⟩, ⟨20000, -4, 0⟩] = some (-2 / 5) := by decide +kernel

/-! ### extrapolation is bounded -/

/-- Each side is extrapolated by at least 0 and at most 1.1 × the average sample spacing, hence the
    documented pieces satisfy `extStart + extEnd ≤ 2·1.1·avg`. -/
theorem extrapolation_bounded (isCounter : Bool) (rs re : Int) (first : Sample) (rest : List Sample)
    (hw : InWindow rs re (first :: rest)) (p : Doc.Pieces)
    (hp : Doc.pieces isCounter rs re (first :: rest) = some p) :
    0 ≤ p.extStart ∧ 0 ≤ p.extEnd ∧
    p.extStart + p.extEnd
      ≤ 2 * (avgSpacing first ((first :: rest).getLast (by simp)) rest.length * (11 / 10)) := by
  have h := pieces_facts isCounter rs re first rest hw p hp
  refine ⟨h.2.1, h.2.2.1, ?_⟩
  have := h.2.2.2.1; have := h.2.2.2.2
  grind

/-- Consequence for the result: for a non-negative raw increase the extrapolated increase is at
    most `raw · (1 + 2·1.1·avg / sampled)` (and at least 0 · raw: never below the un-extrapolated sign). -/
theorem increase_le_raw_times_bound (isCounter : Bool) (rs re : Int) (first : Sample) (rest : List Sample)
    (hw : InWindow rs re (first :: rest)) (p : Doc.Pieces)
    (hp : Doc.pieces isCounter rs re (first :: rest) = some p) (hraw : 0 ≤ p.raw) (hs : 0 < p.sampled) :
    p.increase ≤ p.raw * (1 + 2 * (avgSpacing first ((first :: rest).getLast (by simp)) rest.length * (11 / 10)) / p.sampled) := by
  have hb := (extrapolation_bounded isCounter rs re first rest hw p hp).2.2
  generalize avgSpacing first ((first :: rest).getLast (by simp)) rest.length = avg at hb ⊢
  unfold Doc.Pieces.increase
  have hne : p.sampled ≠ 0 := by grind
  rw [if_pos hne]
  apply Rat.mul_le_mul_of_nonneg_left _ hraw
  have hinv : 0 ≤ p.sampled⁻¹ := Rat.le_of_lt (Rat.inv_pos.mpr hs)
  have h1 : (p.sampled + p.extStart + p.extEnd) * p.sampled⁻¹ ≤ (p.sampled + 2 * (avg * (11 / 10))) * p.sampled⁻¹ :=
    Rat.mul_le_mul_of_nonneg_right (by grind) hinv
  have h2 : (p.sampled + 2 * (avg * (11 / 10))) * p.sampled⁻¹ = 1 + 2 * (avg * (11 / 10)) / p.sampled := by
    grind
  rw [Rat.div_def]; rw [← h2]; exact h1

/-! ### delta has no reset correction -/

/-- `delta` only looks at the first and last value, the two boundary timestamps and the number of
    samples: changing every interior sample (values, timestamps, start timestamps) changes nothing. -/
theorem delta_no_reset_correction (isRate : Bool) (rs re rm : Int) (first last : Sample)
    (mid mid' : List Sample) (hlen : mid.length = mid'.length) :
    extrapolatedRate .exact false isRate rs re rm (first :: (mid ++ [last]))
      = extrapolatedRate .exact false isRate rs re rm (first :: (mid' ++ [last])) := by
  simp [extrapolatedRate, hlen, List.getLast_cons]

/-! ### irate / idelta -/

theorem lastTwo_append (pre : List Sample) (a b : Sample) : lastTwo (pre ++ [a, b]) = some (a, b) := by
  induction pre with
  | nil => rfl
  | cons x xs ih =>
    cases xs with
    | nil => rfl
    | cons y ys =>
      cases ys with
      | nil => rfl
      | cons z zs => simpa [lastTwo] using ih

/-- `irate`/`idelta` depend only on the last two samples of the window (any arithmetic). -/
theorem irate_uses_last_two (A : Arith) (isRate : Bool) (pre : List Sample) (a b : Sample) :
    instantValue A isRate (pre ++ [a, b]) = instantValue A isRate [a, b] := by
  simp [instantValue, lastTwo_append, lastTwo]

/-- …and fewer than two samples give no output. -/
theorem irate_needs_two (A : Arith) (isRate : Bool) (s : Sample) :
    instantValue A isRate [] = none ∧ instantValue A isRate [s] = none := ⟨rfl, rfl⟩

theorem irate_eq_doc (pre : List Sample) (a b : Sample) (ht : a.t < b.t) :
    instantValue .exact true (pre ++ [a, b]) = Doc.irate (pre ++ [a, b]) := by
  rw [irate_uses_last_two]
  have hne : ¬ (b.t - a.t = 0) := by omega
  simp only [instantValue, lastTwo, hne, if_false, Doc.irate, List.reverse_append, List.reverse_cons,
    List.reverse_nil, List.nil_append, List.cons_append, Doc.stepIncrease, Doc.isReset,
    Arith.sub, Arith.div, Arith.ofInt, exact_rnd, Bool.not_true, Bool.false_or, if_true]
  by_cases hr : (decide (b.v < a.v) || isStartTimestampReset a.st a.t b.st b.t) = true
  · simp [hr]
  · simp only [Bool.not_eq_true] at hr; simp [hr]

theorem idelta_eq_doc (pre : List Sample) (a b : Sample) (ht : a.t < b.t) :
    instantValue .exact false (pre ++ [a, b]) = Doc.idelta (pre ++ [a, b]) := by
  rw [irate_uses_last_two]
  have hne : ¬ (b.t - a.t = 0) := by omega
  simp [instantValue, lastTwo, hne, Doc.idelta, Arith.sub, exact_rnd]

/-! ### resets / changes -/

/-- `resets` = the number of adjacent pairs with a decrease (IEEE `<`, so NaN never counts) or a
    start-timestamp reset. -/
theorem resets_counts_decreases (w : List FSample) :
    resetsFrom w = ((w.zip w.tail).filter fun pc =>
      FV.lt pc.2.v pc.1.v || isStartTimestampReset pc.1.st pc.1.t pc.2.st pc.2.t).length := by
  induction w with
  | nil => rfl
  | cons p rest ih =>
    cases rest with
    | nil => rfl
    | cons c r =>
      simp only [resetsFrom, List.tail_cons, List.zip_cons_cons, List.filter_cons] at ih ⊢
      rw [ih]; split <;> simp <;> try omega

/-- `changes` = the number of adjacent pairs whose values differ, two NaNs counting as equal. -/
theorem changes_counts_changes (w : List FSample) :
    changesFrom w = ((w.zip w.tail).filter fun pc =>
      !(FV.eq pc.2.v pc.1.v) && !(pc.2.v.isNaN && pc.1.v.isNaN)).length := by
  induction w with
  | nil => rfl
  | cons p rest ih =>
    cases rest with
    | nil => rfl
    | cons c r =>
      simp only [changesFrom, List.tail_cons, List.zip_cons_cons, List.filter_cons] at ih ⊢
      rw [ih]; split <;> simp <;> try omega

/-- NaN → NaN is not a change although `NaN != NaN`; NaN → number and number → NaN are changes. -/
theorem changes_nan_witness :
    changes [⟨1, .nan, 0⟩, ⟨2, .nan, 0⟩] = some 0 ∧
    changes [⟨1, .nan, 0⟩, ⟨2, .fin 1, 0⟩, ⟨3, .nan, 0⟩] = some 2 ∧
    resets [⟨1, .fin 5, 0⟩, ⟨2, .nan, 0⟩, ⟨3, .fin 1, 0⟩] = some 0 := by
  refine ⟨by decide +kernel, by decide +kernel, by decide +kernel⟩

/-- A window without decreases and without start timestamps has no resets. -/
theorem resets_zero_of_monotone (w : List FSample)
    (h : ∀ pc ∈ w.zip w.tail, FV.lt pc.2.v pc.1.v = false ∧ pc.2.st = 0) : resetsFrom w = 0 := by
  rw [resets_counts_decreases]
  simp only [List.length_eq_zero_iff, List.filter_eq_nil_iff]
  intro pc hpc
  have := h pc hpc
  simp [this.1, this.2, isStartTimestampReset]

/-- Both counts are bounded by the number of adjacent pairs. -/
theorem resets_le (w : List FSample) : resetsFrom w ≤ w.length - 1 := by
  rw [resets_counts_decreases]
  refine Nat.le_trans (List.length_filter_le _ _) ?_
  simp [List.length_zip]

/-! ### judge ↔ model -/

/-- The judge's independent reset count (written from the documentation) is the model's. -/
theorem judge_resets_eq_model (w : List FSample) :
    RateSuite.countAdj RateSuite.docResetF w = resetsFrom w := by
  induction w with
  | nil => rfl
  | cons p rest ih =>
    cases rest with
    | nil => rfl
    | cons c r => simp only [RateSuite.countAdj, resetsFrom, RateSuite.docResetF] at ih ⊢; rw [ih]; congr

/-- The judge's independent change count is the model's. -/
theorem judge_changes_eq_model (w : List FSample) :
    RateSuite.countAdj RateSuite.docChangeF w = changesFrom w := by
  induction w with
  | nil => rfl
  | cons p rest ih =>
    cases rest with
    | nil => rfl
    | cons c r =>
      simp only [RateSuite.countAdj, changesFrom, RateSuite.docChangeF] at ih ⊢
      rw [ih]; congr 1
      have hb : (!(FV.eq c.v p.v || FV.isNaN c.v && FV.isNaN p.v)) = (!FV.eq c.v p.v && !(FV.isNaN c.v && FV.isNaN p.v)) := by
        cases FV.eq c.v p.v <;> cases (FV.isNaN c.v && FV.isNaN p.v) <;> rfl
      simp only [hb]

/-- The judge's value clause accepts the exact model value itself (tolerance is reflexive). -/
theorem judge_close_refl (x floor : Rat) : RateSuite.close x x floor = true := by
  have h0 : x - x = 0 := by grind
  have he : (0 : Rat) ≤ RateSuite.eps := by decide +kernel
  have hm : (0 : Rat) ≤ RateSuite.maxR (RateSuite.absR x) floor := by
    have ha : (0 : Rat) ≤ RateSuite.absR x := by unfold RateSuite.absR; split <;> grind
    unfold RateSuite.maxR; split <;> grind
  simp only [RateSuite.close, h0, decide_eq_true_eq]
  have : RateSuite.absR 0 = 0 := by decide +kernel
  rw [this]; exact Rat.mul_nonneg he hm

end Prom.C30
