import PromModel.Tsdb.Record
import PromModel.Suites.RecordSuite
import PromProofs.Enc
/-
  C14 — WAL record encoding round-trips.
  Property theorems only; helper lemmas live in PromProofs/Enc.lean and PromProofs/Record.lean.
-/
namespace Prom.C14
open Prom.Enc Prom.Record

/-! ## Prelude round trips (Go's `encoding/binary` varints, Encbuf/Decbuf) -/

/-- `binary.Uvarint(binary.PutUvarint(n) ++ rest) = (n, rest)` for every `uint64` `n`. -/
theorem uvarint_roundtrip (n : Nat) (h : U64 n) (rest : Bytes) :
    getUvarint (putUvarint n ++ rest) = some (n, rest) := getUvarint_putUvarint h rest

/-- zig-zag varints round-trip for every `int64`. -/
theorem varint_roundtrip (x : Int) (h : I64 x) (rest : Bytes) :
    getVarint (putVarint x ++ rest) = some (x, rest) := getVarint_putVarint h rest

example : I64 (-9223372036854775808) ∧ U64 18446744073709551615 := by decide

/-- big-endian 64-bit words round-trip. -/
theorem be64_roundtrip (n : Nat) (h : U64 n) (rest : Bytes) :
    getBE64 (putBE64 n ++ rest) = .ok (n, rest) := getBE64_putBE64 h rest

/-- uvarint-length-prefixed strings round-trip (any bytes, length below 2^63). -/
theorem string_roundtrip (s : Bytes) (h : s.length < 9223372036854775808) (rest : Bytes) :
    decUvarintStr (putUvarintStr s ++ rest) = .ok (s, rest) := decUvarintStr_put h rest

end Prom.C14
