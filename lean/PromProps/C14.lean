import PromModel.Tsdb.Record
import PromModel.Suites.RecordSuite
import PromProofs.Enc
import PromProofs.Record
/-
  C14 — WAL record encoding round-trips.
  Property theorems only; helper lemmas live in PromProofs/Enc.lean and PromProofs/Record.lean.

  Model: `PromModel/Tsdb/Record.lean` (transcription of tsdb/record/record.go + tsdb/encoding), tied to the
  Go code byte-for-byte by suite `record`. Every record type of the statement is covered:
  series, samples V1 and V2 (start timestamps), tombstones, exemplars, metadata, m-map markers,
  integer and float histograms V1 (exponential + custom-bucket records, incl. the batch split) and V2.
  Not covered by theorems (and outside the statement): the *content* produced by `ReduceResolution` for
  reserved schemas 9…52 met while decoding (only its success/failure is modelled).
-/
namespace Prom.C14
open Prom.Enc Prom.Record

/-! ## Prelude round trips (Go's `encoding/binary` varints, Encbuf/Decbuf) -/

/-- `binary.Uvarint(binary.PutUvarint(n) ++ rest) = (n, rest)` for every `uint64` `n`. -/
theorem uvarint_roundtrip (n : Nat) (h : U64 n) (rest : Bytes) :
    getUvarint (putUvarint n ++ rest) = some (n, rest) := getUvarint_putUvarint h rest

/-- zig-zag varints round-trip for every `int64`. -/
theorem varint_roundtrip (x : Int) (h : I64 x) (rest : Bytes) :
    getVarint (putVarint x ++ rest) = some (x, rest) := getVarint_putVarint h rest

example : I64 (-9223372036854775808) ∧ U64 18446744073709551615 := by decide

/-- big-endian 64-bit words round-trip. -/
theorem be64_roundtrip (n : Nat) (h : U64 n) (rest : Bytes) :
    getBE64 (putBE64 n ++ rest) = .ok (n, rest) := getBE64_putBE64 h rest

/-- uvarint-length-prefixed strings round-trip (any bytes, length below 2^63). -/
theorem string_roundtrip (s : Bytes) (h : s.length < 9223372036854775808) (rest : Bytes) :
    decUvarintStr (putUvarintStr s ++ rest) = .ok (s, rest) := decUvarintStr_put h rest

/-- Delta encodings survive wrap-around: `int64` time deltas … -/
theorem time_delta_wraps (base t : Int) (h : I64 t) : wrap64 (base + wrap64 (t - base)) = t :=
  time_delta_roundtrip base h

/-- … and `uint64` reference deltas (both forms used by the decoders). -/
theorem ref_delta_wraps (base r : Nat) (hb : U64 base) (h : U64 r) :
    toU64 (toI64 base + wrap64 (toI64 r - toI64 base)) = r ∧
    (base + toU64 (wrap64 (toI64 r - toI64 base))) % 18446744073709551616 = r :=
  ⟨ref_delta_roundtrip_i _ h, ref_delta_roundtrip_u h hb⟩

example : wrap64 ((-9223372036854775808 : Int) + wrap64 (9223372036854775807 - (-9223372036854775808)))
    = 9223372036854775807 := time_delta_wraps _ _ (by decide)

/-- The `noST | sameST | explicitST` marker reproduces every start timestamp. -/
theorem st_marker_roundtrip (st firstST prevST : Int) (h : I64 st) (rest : Bytes) :
    readSTMarker prevST firstST (writeSTMarker st firstST prevST ++ rest) = .ok (st, rest) :=
  readSTMarker_write st firstST prevST h rest

/-! ## One round trip per record type.
    WF predicates (`PromProofs/Record.lean`) say exactly "the value fits the Go types":
    refs / float bits `< 2^64`, timestamps in `int64`, strings and lists shorter than 2^63 (2^45 for the
    histogram lists, beyond which Go's `make` panics), span offsets `int32`, span lengths `uint32`,
    schema ∈ {-53} ∪ [-4, 8], custom values only with schema -53. -/

theorem decode_encode_series (xs : List RefSeries) (h : ∀ s ∈ xs, SeriesWF s) :
    decSeries (encSeries xs) = .ok xs := decSeries_enc xs h

example : SeriesWF ⟨18446744073709551615, [⟨[95, 95], []⟩, ⟨[], [255, 0]⟩]⟩ := by
  refine ⟨by decide, by decide, ?_⟩
  intro l hl
  simp at hl
  rcases hl with rfl | rfl <;> exact ⟨by decide, by decide⟩

/-- Samples V1 carry no start timestamp: it comes back as 0, everything else exactly. -/
theorem decode_encode_samples_v1 (xs : List RefSample) (h : ∀ s ∈ xs, SampleWF s) :
    decSamples (encSamples false xs) = .ok (xs.map fun s => { s with st := 0 }) := decSamples_enc_v1 xs h

/-- Samples V2 (`EnableSTStorage`): every field exactly, whatever the ST pattern. -/
theorem decode_encode_samples_v2 (xs : List RefSample) (h : ∀ s ∈ xs, SampleWF s) :
    decSamples (encSamples true xs) = .ok xs := decSamples_enc_v2 xs h

example : SampleWF ⟨18446744073709551615, -9223372036854775808, 9223372036854775807, 0x7ff8000000000001⟩ := by
  unfold SampleWF U64 I64; simp

/-- A tombstone record carries (ref, interval) pairs: decoding yields one single-interval stone per pair. -/
theorem decode_encode_tombstones (xs : List Stone) (h : ∀ s ∈ xs, StoneWF s) :
    decTombstones (encTombstones xs) = .ok (flattenStones xs) := decTombstones_enc xs h

example : StoneWF ⟨5, [(-9223372036854775808, 9223372036854775807), (3, 2)]⟩ := by
  refine ⟨by decide, ?_⟩
  intro iv hiv
  simp at hiv
  rcases hiv with rfl | rfl <;> exact ⟨by decide, by decide⟩

theorem decode_encode_exemplars (xs : List RefExemplar) (h : ∀ e ∈ xs, ExemplarWF e) :
    decExemplars (encExemplars xs) = .ok xs := decExemplars_enc xs h

example : ExemplarWF ⟨9223372036854775808, -1, 0x8000000000000000, []⟩ := by
  refine ⟨by decide, by decide, by decide, by decide, ?_⟩
  intro l hl; simp at hl

theorem decode_encode_metadata (xs : List RefMetadata) (h : ∀ m ∈ xs, MetaWF m) :
    decMetadata (encMetadata xs) = .ok xs := decMetadata_enc xs h

example : MetaWF ⟨18446744073709551615, 255, [], [85, 78, 73, 84]⟩ := by
  unfold MetaWF U64 U8; simp

theorem decode_encode_mmap_markers (xs : List RefMmapMarker) (h : ∀ m ∈ xs, MmapWF m) :
    decMmapMarkers (encMmapMarkers xs) = .ok xs := decMmapMarkers_enc xs h

example : MmapWF ⟨0, 18446744073709551615⟩ := by unfold MmapWF U64; simp

/-! ### histograms (`fl = false`: integer, `fl = true`: float) -/

/-- V2 records keep exponential and custom-bucket histograms together, with start timestamps. -/
theorem decode_encode_histograms_v2 (fl : Bool) (xs : List RefHist) (h : ∀ x ∈ xs, RefHistWF fl x) :
    decHists fl (encHists true fl xs).1 = .ok xs ∧ (encHists true fl xs).2 = [] :=
  ⟨decHists_enc_v2 fl xs h, rfl⟩

/-- V1 custom-bucket records (`CustomBucketsHistogramSamples`): no start timestamp, the rest exactly. -/
theorem decode_encode_custom_histograms_v1 (fl : Bool) (xs : List RefHist) (h : ∀ x ∈ xs, RefHistWF fl x) :
    decHists fl (encCustomHists false fl xs) = .ok (xs.map dropST) := decHists_enc_custom_v1 fl xs h

/-- V1 batch split: the leftover is exactly the custom-bucket subsequence, the record decodes to exactly the
    exponential subsequence (order kept), and an all-custom batch yields an empty record. Together with
    `decode_encode_custom_histograms_v1` on the leftover nothing is lost or duplicated. -/
theorem histogram_batch_partition (fl : Bool) (xs : List RefHist) (h : ∀ x ∈ xs, RefHistWF fl x) :
    (encHists false fl xs).2 = xs.filter (·.h.isCustom) ∧
    ((xs = [] ∨ xs.length ≠ (xs.filter (·.h.isCustom)).length) →
      decHists fl (encHists false fl xs).1 = .ok ((xs.filter fun x => !x.h.isCustom).map dropST)) ∧
    (xs ≠ [] → xs.length = (xs.filter (·.h.isCustom)).length → (encHists false fl xs).1 = []) ∧
    decHists fl (encCustomHists false fl (encHists false fl xs).2) = .ok ((xs.filter (·.h.isCustom)).map dropST) := by
  refine ⟨encHistsV1_leftover fl xs, decHists_enc_split_v1 fl xs h, encHistsV1_all_custom fl xs, ?_⟩
  have : (encHists false fl xs).2 = xs.filter (·.h.isCustom) := encHistsV1_leftover fl xs
  rw [this]
  exact decHists_enc_custom_v1 fl _ (fun x hx => h x (List.mem_filter.mp hx).1)

/-- the two classes of the split partition the batch -/
theorem histogram_batch_partition_perm (xs : List RefHist) :
    ((xs.filter fun x => !x.h.isCustom) ++ xs.filter (·.h.isCustom)).Perm xs := by
  have := List.filter_append_perm (fun x : RefHist => !x.h.isCustom) xs
  simpa using this

example : RefHistWF false ⟨7, 0, -5,
    ⟨3, -53, 0, 18446744073709551615, 2, 0x7ff8000000000001, [⟨-2147483648, 4294967295⟩], [],
      [-9223372036854775808, 5], [], [0xfff0000000000000]⟩⟩ := by
  refine ⟨by decide, by decide, by decide, ?_⟩
  constructor <;> simp [U8, U64, LenOK, SpanWF, BucketWF, I32, U32, I64]

/-! ## Totality: the model decoders return a value or an error class for every byte string (the model's
    `Except` has no other outcome; a Go panic is the explicit class `RecErr.panic`, and the tie compares it
    with recovered Go panics), and they never return more items than there are bytes. -/

theorem loopFuel_length_le {σ β} (step : σ → Bytes → Except DecErr (σ × Option β × Bytes)) :
    ∀ (fuel : Nat) (s : σ) (bs : Bytes) (ys : List β), loopFuel step fuel s bs = .ok ys → ys.length ≤ fuel := by
  intro fuel
  induction fuel with
  | zero =>
    intro s bs ys h
    cases bs with
    | nil => simp [loopFuel] at h; subst h; simp
    | cons b bs => simp [loopFuel] at h
  | succ fuel ih =>
    intro s bs ys h
    cases bs with
    | nil => simp [loopFuel] at h; subst h; simp
    | cons b bs =>
      simp only [loopFuel] at h
      split at h
      · cases h
      · rename_i s' o rest _
        split at h
        · cases h
        · rename_i zs hz
          have := ih s' rest zs hz
          cases o <;> simp at h <;> subst h <;> simp <;> omega

theorem decode_total_series (rec : Bytes) :
    (∃ e, decSeries rec = .error e) ∨ (∃ xs, decSeries rec = .ok xs ∧ xs.length < rec.length) := by
  unfold decSeries
  cases rec with
  | nil => exact .inl ⟨_, rfl⟩
  | cons t body =>
    simp only
    split
    · exact .inl ⟨_, rfl⟩
    · cases hl : loopFuel stepSeries body.length () body with
      | error e => cases e <;> exact .inl ⟨_, rfl⟩
      | ok ys =>
        refine .inr ⟨ys, rfl, ?_⟩
        have := loopFuel_length_le _ _ _ _ _ hl
        simp; omega

theorem decode_total_samples (rec : Bytes) :
    (∃ e, decSamples rec = .error e) ∨ (∃ xs, decSamples rec = .ok xs) := by
  cases h : decSamples rec with
  | error e => exact .inl ⟨e, rfl⟩
  | ok xs => exact .inr ⟨xs, rfl⟩

end Prom.C14
