import PromModel.Suites.RangeSuite
/-
  C27 — A range query equals instant queries at each step.
-/
namespace Prom.C27
open Prom.RangeEval

/-- `StepInvariantExpr` is transparent for the instant semantics. -/
theorem stepInv_transparent (cfg : Cfg) (env : Env) (e : Expr) (t : Int) :
    evalAt cfg env (.stepInv e) t = evalAt cfg env e t := by
  simp [evalAt]

end Prom.C27
