import PromProofs.RangeEval
import PromProofs.AggK
import PromModel.Suites.RangeSuite
/-
  C27 — A range query equals instant queries at each step.

  `evalAt` is the instant semantics of the core expression language, `evalRange` / `rangeQuery` the engine's
  strategy (PromModel/Promql/RangeEval.lean): all steps in one pass, `PreprocessExpr`'s step-invariant
  wrapping evaluated once, `matrixIterSlice`'s window reuse. All theorems are over exact rationals and for
  the FIXED per-step input order `ord = id`; the engine's order is Go-map order (finding F12), for which
  `topk_tie_order_witness` shows that the statement fails as soon as a k-selection meets a tie.
-/
namespace Prom.C27
open Prom.RangeEval

/-! ### step-invariant subtrees -/

/-- An `@`-fixed (step-invariant) subtree has the same value at every evaluation time, so evaluating it
    once (`StepInvariantExpr`) is sound. -/
theorem step_invariant_sound (cfg : Cfg) (env : Env) :
    ∀ (e : Expr) (t t' : Int), stepInvariant e = true → evalAt cfg env e t = evalAt cfg env e t'
  | .num _, _, _, _ => rfl
  | .time, _, _, h => by simp [stepInvariant] at h
  | .sel s, t, t', h => by
    have := refTime_of_isSet cfg s.atm s.off t t' (by simpa [stepInvariant] using h)
    simp [evalAt, selVec, this]
  | .overSel f s r, t, t', h => by
    have := refTime_of_isSet cfg s.atm s.off t t' (by simpa [stepInvariant] using h)
    simp [evalAt, this]
  | .overSub f e r st off a, t, t', h => by
    have := refTime_of_isSet cfg a off t t' (by simpa [stepInvariant] using h)
    simp [evalAt, this]
  | .bin op b l r, t, t', h => by
    have h' : stepInvariant l = true ∧ stepInvariant r = true := by simpa [stepInvariant] using h
    simp [evalAt, step_invariant_sound cfg env l t t' h'.1, step_invariant_sound cfg env r t t' h'.2]
  | .agg op wo ls e, t, t', h => by
    simp [evalAt, step_invariant_sound cfg env e t t' (by simpa [stepInvariant] using h)]
  | .stepInv e, t, t', h => by
    simpa [evalAt] using step_invariant_sound cfg env e t t' (by simpa [stepInvariant] using h)

example : stepInvariant (.bin .add false (.sel ⟨"m", [], 0, .fixed 100⟩) (.num 2)) = true := by decide

/-- `PreprocessExpr` does not change the instant semantics and only wraps step-invariant subtrees. -/
theorem preprocess_sound (cfg : Cfg) (env : Env) (e : Expr) (t : Int) (h : wrapOk e = true) :
    evalAt cfg env (preprocess e) t = evalAt cfg env e t ∧ wrapOk (preprocess e) = true :=
  ⟨evalAt_preprocess cfg env e t, wrapOk_preprocess e h⟩

/-! ### window reuse -/

/-- `matrixIterSlice`: sliding the previous step's window forward — dropping the samples with `T ≤ mint`
    and appending only samples newer than the last kept one — equals recomputing the window from scratch,
    whenever the window bounds do not move backwards (nondecreasing step times). -/
theorem window_reuse_eq_fresh (xs : List Sample) (hs : xs.Pairwise (fun a b => a.t < b.t))
    (m0 M0 mint maxt : Int) (hm : m0 ≤ mint) (hM : M0 ≤ maxt) :
    slide (fresh xs m0 M0) xs mint maxt = fresh xs mint maxt :=
  slide_eq_fresh xs hs m0 M0 mint maxt hm hM

example : slide (fresh [⟨1, 5, false⟩, ⟨3, 6, false⟩, ⟨4, 0, true⟩, ⟨7, 8, false⟩] 0 3)
    [⟨1, 5, false⟩, ⟨3, 6, false⟩, ⟨4, 0, true⟩, ⟨7, 8, false⟩] 2 7 = [⟨3, 6, false⟩, ⟨7, 8, false⟩] := by decide

/-- The window-reuse hypothesis is needed: a window that moves backwards is not recomputed. -/
theorem window_reuse_backwards_witness :
    slide (fresh [⟨1, 5, false⟩, ⟨3, 6, false⟩] 2 3) [⟨1, 5, false⟩, ⟨3, 6, false⟩] 0 3
      ≠ fresh [⟨1, 5, false⟩, ⟨3, 6, false⟩] 0 3 := by decide

/-! ### strategy = per-step instant semantics -/

theorem bounds_pairwise (g : Int → Int) (r : Int) (hg : ∀ a b, a ≤ b → g a ≤ g b) :
    ∀ ts : List Int, ts.Pairwise (· ≤ ·) →
      (ts.map fun t => (g t - r, g t)).Pairwise (fun a b => a.1 ≤ b.1 ∧ a.2 ≤ b.2) := by
  intro ts h
  rw [List.pairwise_map]
  apply h.imp
  intro a b hab
  have := hg a b hab
  constructor <;> simp <;> omega

/-- One-pass evaluation of all steps equals the instant semantics at every step: for every expression
    without subqueries whose `StepInvariantExpr` nodes wrap step-invariant subtrees, every environment
    with increasing sample timestamps and every nondecreasing list of step times. (`_partial`: subqueries
    are in the model and in the differential, but not in this theorem — see `range_eq_instant_full`.) -/
theorem evalRange_eq_map_evalAt_partial (cfg : Cfg) (env : Env) (henv : envSorted env) :
    ∀ (e : Expr) (ts : List Int), wrapOk e = true → rangesOk e = true → hasSubquery e = false →
      ts.Pairwise (· ≤ ·) → evalRange id cfg env e ts = ts.map (evalAt cfg env e)
  | .num _, ts, _, _, _, _ => by simp [evalRange, evalAt]
  | .time, ts, _, _, _, _ => by simp [evalRange, evalAt]
  | .sel _, ts, _, _, _, _ => by simp [evalRange, evalAt]
  | .overSel f s r, ts, _, hr, _, hts => by
    have hr' : 0 ≤ r := by simpa [rangesOk] using hr
    have hsers : ∀ ser ∈ selSeries env s, SortedT ser.samples := fun ser hser =>
      henv ser (List.mem_filter.mp hser).1
    cases ts with
    | nil => simp [evalRange, overRange]
    | cons t0 rest =>
      by_cases hat : s.atm.isSet = true
      · -- `@`: the first step's windows are reused
        have hconst : ∀ t, refTime cfg s.atm s.off t = refTime cfg s.atm s.off t0 :=
          fun t => refTime_of_isSet cfg s.atm s.off t t0 hat
        have h0 : List.zipWith (fun ser prev => slide prev ser.samples (refTime cfg s.atm s.off t0 - r) (refTime cfg s.atm s.off t0))
            (selSeries env s) ((selSeries env s).map fun _ => [])
            = (selSeries env s).map fun ser => fresh ser.samples (refTime cfg s.atm s.off t0 - r) (refTime cfg s.atm s.off t0) := by
          rw [zipWith_map_self]
          apply List.map_congr_left
          intro ser _
          simp [slide]
        simp only [evalRange, hat, Bool.not_true, List.map_cons, overRange, Bool.true_or, if_true, h0,
          overRange_keep, evalAt, List.map_map, overAt]
        congr 1
        · apply List.map_congr_left
          intro t _
          simp [hconst t, overAt]
      · have hat' : s.atm = .none := by
          cases h : s.atm <;> simp_all [AtMod.isSet]
        have hinit : ((selSeries env s).map fun _ => ([] : List Sample))
            = (selSeries env s).map fun ser => fresh ser.samples (t0 - s.off - r) (t0 - s.off - r) := by
          apply List.map_congr_left
          intro ser _
          exact (fresh_empty ser.samples _).symm
        have hp := bounds_pairwise (fun t => t - s.off) r (by intro a b h; omega) (t0 :: rest) hts
        have hall : ∀ b ∈ ((t0 :: rest).map fun t => (t - s.off - r, t - s.off)),
            t0 - s.off - r ≤ b.1 ∧ t0 - s.off - r ≤ b.2 := by
          intro b hb
          obtain ⟨t, ht, rfl⟩ := List.mem_map.mp hb
          have : t0 ≤ t := by
            rcases List.mem_cons.mp ht with rfl | ht
            · omega
            · exact (List.pairwise_cons.mp hts).1 t ht
          constructor <;> simp <;> omega
        have := overRange_refetch f (selSeries env s) hsers _ _ _ true hall hp
        simp only [evalRange, hat', AtMod.isSet, Bool.not_false, refTime, hinit, this, List.map_map, evalAt]
        apply List.map_congr_left
        intro t _
        simp
  | .overSub .., _, _, _, hsub, _ => by simp [hasSubquery] at hsub
  | .bin op b l r, ts, hw, hr, hsub, hts => by
    have hw' : wrapOk l = true ∧ wrapOk r = true := by simpa [wrapOk] using hw
    have hr' : rangesOk l = true ∧ rangesOk r = true := by simpa [rangesOk] using hr
    have hs' : hasSubquery l = false ∧ hasSubquery r = false := by simpa [hasSubquery] using hsub
    rw [evalRange, evalRange_eq_map_evalAt_partial cfg env henv l ts hw'.1 hr'.1 hs'.1 hts,
      evalRange_eq_map_evalAt_partial cfg env henv r ts hw'.2 hr'.2 hs'.2 hts, zipWith_map_map]
    simp [evalAt, reorder_id]
  | .agg op wo ls e, ts, hw, hr, hsub, hts => by
    rw [evalRange, evalRange_eq_map_evalAt_partial cfg env henv e ts (by simpa [wrapOk] using hw)
      (by simpa [rangesOk] using hr) (by simpa [hasSubquery] using hsub) hts]
    simp [evalAt, reorder_id]
  | .stepInv e, ts, hw, hr, hsub, hts => by
    have hw' : stepInvariant e = true ∧ wrapOk e = true := by simpa [wrapOk] using hw
    cases ts with
    | nil => simp [evalRange]
    | cons t0 rest =>
      have ih := evalRange_eq_map_evalAt_partial cfg env henv e [t0] hw'.2 (by simpa [rangesOk] using hr)
        (by simpa [hasSubquery] using hsub) (by simp)
      simp only [evalRange, ih, List.map_cons, List.map_nil, evalAt]
      congr 1
      · apply List.map_congr_left
        intro t _
        exact step_invariant_sound cfg env e t0 t hw'.1

/-- The instant semantics does not depend on the query's start/end when the expression does not refer to
    the query range. -/
theorem evalAt_range_irrelevant (lb ds a b a' b' : Int) (env : Env) :
    ∀ (e : Expr) (t : Int), mentionsQueryRange e = false →
      evalAt ⟨lb, ds, a, b⟩ env e t = evalAt ⟨lb, ds, a', b'⟩ env e t
  | .num _, _, _ => rfl
  | .time, _, _ => rfl
  | .sel s, t, h => by
    have := refTime_cfg lb ds a b a' b' s.atm s.off t (by simpa [mentionsQueryRange] using h)
    simp [evalAt, selVec, this]
  | .overSel f s r, t, h => by
    have := refTime_cfg lb ds a b a' b' s.atm s.off t (by simpa [mentionsQueryRange] using h)
    simp [evalAt, this]
  | .overSub f e r st off at_, t, h => by
    have h' : at_.mentionsRange = false ∧ mentionsQueryRange e = false := by simpa [mentionsQueryRange] using h
    have := refTime_cfg lb ds a b a' b' at_ off t h'.1
    have ih := fun t' => evalAt_range_irrelevant lb ds a b a' b' env e t' h'.2
    simp [evalAt, this, ih, subStep]
  | .bin op bo l r, t, h => by
    have h' : mentionsQueryRange l = false ∧ mentionsQueryRange r = false := by simpa [mentionsQueryRange] using h
    simp [evalAt, evalAt_range_irrelevant lb ds a b a' b' env l t h'.1, evalAt_range_irrelevant lb ds a b a' b' env r t h'.2]
  | .agg op wo ls e, t, h => by
    simp [evalAt, evalAt_range_irrelevant lb ds a b a' b' env e t (by simpa [mentionsQueryRange] using h)]
  | .stepInv e, t, h => by
    simpa [evalAt] using evalAt_range_irrelevant lb ds a b a' b' env e t (by simpa [mentionsQueryRange] using h)

theorem stepTimes_sorted (start end_ step : Int) (hstep : 0 ≤ step) : (stepTimes start end_ step).Pairwise (· ≤ ·) := by
  unfold stepTimes
  rw [List.pairwise_map]
  apply List.Pairwise.imp _ List.pairwise_lt_range
  intro a b hab
  have : (a : Int) ≤ b := by omega
  have := Int.mul_le_mul_of_nonneg_right this hstep
  omega

theorem hasSubquery_pp : ∀ e : Expr, hasSubquery (pp e) = hasSubquery e
  | .num _ | .time | .sel _ | .overSel .. => rfl
  | .overSub .. => by simp [pp, hasSubquery]
  | .bin op b l r => by
    cases hsl : stepInvariant l <;> cases hsr : stepInvariant r <;>
      cases hl : shouldWrap l <;> cases hr : shouldWrap r <;>
      simp [pp, hasSubquery, hsl, hsr, hl, hr, hasSubquery_pp l, hasSubquery_pp r]
  | .agg _ _ _ e => by simp [pp, hasSubquery, hasSubquery_pp e]
  | .stepInv e => by simp [pp, hasSubquery, hasSubquery_pp e]

theorem rangesOk_pp : ∀ e : Expr, rangesOk (pp e) = rangesOk e
  | .num _ | .time | .sel _ | .overSel .. => rfl
  | .overSub f e r st off a => by
    cases h : stepInvariant e <;> simp [pp, rangesOk, h, rangesOk_pp e]
  | .bin op b l r => by
    cases hsl : stepInvariant l <;> cases hsr : stepInvariant r <;>
      cases hl : shouldWrap l <;> cases hr : shouldWrap r <;>
      simp [pp, rangesOk, hsl, hsr, hl, hr, rangesOk_pp l, rangesOk_pp r]
  | .agg _ _ _ e => by simp [pp, rangesOk, rangesOk_pp e]
  | .stepInv e => by simp [pp, rangesOk, rangesOk_pp e]

/-- The full statement: for every core expression that does not mention the query range, step `i` of the
    range query (as the engine runs it: preprocess, one pass) is the instant query at `start + i·step`. -/
def range_eq_instant_full : Prop :=
  ∀ (lb ds : Int) (env : Env) (e : Expr) (start end_ step : Int) (i : Nat),
    envSorted env → wrapOk e = true → rangesOk e = true → mentionsQueryRange e = false → 0 < step →
    i < (stepTimes start end_ step).length →
    (rangeQuery id lb ds env e start end_ step)[i]? = some (instantQuery lb ds env e (start + (i : Int) * step))

/-- Proved for expressions without subqueries. Missing for the full statement: the subquery case (the child
    grid restricted to a parent window equals the instant query's grid, and `assemble` commutes with that
    restriction); the model and the correspondence cover subqueries. -/
theorem range_eq_instant_partial (lb ds : Int) (env : Env) (e : Expr) (start end_ step : Int) (i : Nat)
    (henv : envSorted env) (hw : wrapOk e = true) (hr : rangesOk e = true) (hsub : hasSubquery e = false)
    (hm : mentionsQueryRange e = false) (hstep : 0 < step) (hi : i < (stepTimes start end_ step).length) :
    (rangeQuery id lb ds env e start end_ step)[i]? = some (instantQuery lb ds env e (start + (i : Int) * step)) := by
  have hpre_sub : hasSubquery (preprocess e) = false := by
    unfold preprocess
    cases shouldWrap e <;> simp [hasSubquery, hasSubquery_pp, hsub]
  have hpre_r : rangesOk (preprocess e) = true := by
    unfold preprocess
    cases shouldWrap e <;> simp [rangesOk, rangesOk_pp, hr]
  unfold rangeQuery instantQuery
  rw [evalRange_eq_map_evalAt_partial _ env henv (preprocess e) _ (wrapOk_preprocess e hw) hpre_r hpre_sub
    (stepTimes_sorted start end_ step (by omega))]
  have hlen : i < ((end_ - start) / step + 1).toNat := by simpa [stepTimes] using hi
  simp only [List.getElem?_map]
  have : (stepTimes start end_ step)[i]? = some (start + (i : Int) * step) := by
    simp [stepTimes, List.getElem?_map, List.getElem?_range hlen]
  rw [this]
  simp only [Option.map_some]
  rw [evalAt_preprocess,
    evalAt_range_irrelevant lb ds start end_ (start + (i : Int) * step) (start + (i : Int) * step) env e _ hm]

/-- hypotheses are satisfiable: `sum by (a) (m + 1) * time()` over a two-series environment -/
example : ∃ env e, envSorted env ∧ wrapOk e = true ∧ rangesOk e = true ∧ hasSubquery e = false ∧
    mentionsQueryRange e = false ∧
    (rangeQuery id 300 15 env e 10 30 10)[1]? = some (.vector [⟨[("a", "x")], 160⟩]) :=
  ⟨[⟨[("__name__", "m"), ("a", "x"), ("b", "p")], [⟨5, 3, false⟩, ⟨15, 4, false⟩]⟩,
    ⟨[("__name__", "m"), ("a", "x"), ("b", "q")], [⟨6, 2, false⟩, ⟨25, 9, false⟩]⟩],
   .bin .mul false (.agg .sum false ["a"] (.bin .add false (.sel ⟨"m", [], 0, .none⟩) (.num 1))) (.bin .mul false (.time) (.num 1000)),
   by intro ser h; simp at h; rcases h with rfl | rfl <;> decide,
   by decide, by decide, by decide, by decide, by decide +kernel⟩

/-! ### subquery alignment -/

/-- `subqueryTimeRange`: the child evaluator's first step is the least multiple of the subquery step strictly
    after `start − offset − range` (also for negative times, where Go's division truncates towards zero). -/
theorem subquery_first_step_spec (x step : Int) (h : 0 < step) :
    x < firstMultipleAfter x step ∧ firstMultipleAfter x step ≤ x + step ∧ step ∣ firstMultipleAfter x step :=
  firstMultipleAfter_spec x step h

example : firstMultipleAfter (-7) 5 = -5 ∧ firstMultipleAfter (-10) 5 = -5 ∧ firstMultipleAfter 10 5 = 15 := by decide

/-! ### offset -/

/-- `offset d` on a selector at `t` is the selector without the offset at `t − d` (no `@` modifier). -/
theorem offset_shift (cfg : Cfg) (env : Env) (s : Sel) (d t : Int) (h : s.atm = .none) :
    evalAt cfg env (.sel { s with off := s.off + d }) t = evalAt cfg env (.sel s) (t - d) := by
  have : refTime cfg s.atm (s.off + d) t = refTime cfg s.atm s.off (t - d) := by
    simp [refTime, h]; omega
  simp [evalAt, selVec, selSeries, Sel.matches, this]

/-- … and on a range-function call over a matrix selector. -/
theorem offset_shift_range (cfg : Cfg) (env : Env) (f : OverFn) (s : Sel) (r d t : Int) (h : s.atm = .none) :
    evalAt cfg env (.overSel f { s with off := s.off + d } r) t = evalAt cfg env (.overSel f s r) (t - d) := by
  have : refTime cfg s.atm (s.off + d) t = refTime cfg s.atm s.off (t - d) := by
    simp [refTime, h]; omega
  simp [evalAt, selSeries, Sel.matches, this]

/-- With an `@` modifier the shift does not hold: the reference time is fixed. -/
theorem offset_shift_at_witness :
    evalAt ⟨300, 15, 0, 0⟩ [⟨[("__name__", "m")], [⟨5, 3, false⟩, ⟨15, 4, false⟩]⟩] (.sel ⟨"m", [], 10, .fixed 15⟩) 20
      ≠ evalAt ⟨300, 15, 0, 0⟩ [⟨[("__name__", "m")], [⟨5, 3, false⟩, ⟨15, 4, false⟩]⟩] (.sel ⟨"m", [], 0, .fixed 15⟩) 10 := by
  decide

/-! ### the order-sensitive fragment (finding F12) -/

/-- Two per-step input orders of the same tied vector, two different `topk(1, ·)` winners: with Go-map
    order in range mode and a fixed order in instant mode, range ≠ instant. -/
theorem topk_tie_order_witness :
    let v : Vector := [⟨[("a", "x")], 0⟩, ⟨[("a", "y")], 0⟩]
    aggregate .topk1 false [] v ≠ aggregate .topk1 false [] v.reverse ∧ v.reverse.Perm v := by
  decide

/-- … and through the strategy: the same range query under two admissible orders. -/
theorem range_order_witness :
    let env : Env := [⟨[("__name__", "m"), ("a", "x")], [⟨5, 1, false⟩]⟩, ⟨[("__name__", "m"), ("a", "y")], [⟨5, 2, false⟩]⟩]
    let e : Expr := .agg .topk1 false [] (.bin .mul false (.sel ⟨"m", [], 0, .none⟩) (.num 0))
    rangeQuery id 300 15 env e 10 10 10 ≠ rangeQuery List.reverse 300 15 env e 10 10 10 := by
  decide +kernel

/-! ### topk / bottomk / limitk / limit_ratio with a per-step parameter (`rangeEvalAgg` + `aggregationK`) -/
section AggK
open Prom.AggK

/-- Whichever way `aggregationK` leaves a step that is not the query's end timestamp — `k < 1`, `r == 0`, limitk
    having filled every group, or all series visited — every cursor of the input matrix has been advanced
    past the step (`advanceRemainingSeries`), for every parameter value, grouping and input. -/
theorem aggK_every_exit_advances (op : KOp) (p : Rat) (n : Nat) (wo : Bool) (ls : List String) (groups : List Labels)
    (ts : Int) (ss : List In) (acc : Vector) :
    (stepLoop op p n wo ls groups false ts ss acc).1 = advance ts ss :=
  stepLoop_advances op p n wo ls groups ts ss acc

/-- One `aggregationK` call selects exactly what the per-step semantics selects from the samples at the heads of
    the cursors (limitk's early exit skips only samples it would not have taken). -/
theorem aggK_step_eq_instantCore (pk : Pick) (hn : pk.NilOk) (op : KOp) (p : Rat) (n : Nat) (wo : Bool) (ls : List String)
    (groups : List Labels) (atEnd : Bool) (ts : Int) (ss : List In) :
    stepOut pk op p n wo ls groups (stepLoop op p n wo ls groups atEnd ts ss []).2 =
      instantCore pk op p n wo ls groups (headVec ts ss) :=
  step_eq_instantCore pk hn op p n wo ls groups atEnd ts ss

/-- `rangeEvalAgg` for topk/bottomk/limitk/limit_ratio with ANY sequence of per-step parameters: over an input
    matrix whose point timestamps lie on the (strictly increasing) step grid, step `i` of the range evaluation
    selects the same set of samples as an INSTANT query at that step, which sees only the series present there
    (its own `len(inputMatrix)` and groups). -/
theorem aggK_range_eq_instant (pk : Pick) (hn : pk.NilOk) (hc : pk.ClampOk) (op : KOp) (wo : Bool) (ls : List String)
    (endTs : Int) (steps : List (Int × Rat)) (ss : List In)
    (hs : (steps.map (·.1)).Pairwise (· < ·)) (hle : ∀ tp ∈ steps, tp.1 ≤ endTs)
    (hg : ∀ s ∈ ss, onGrid (steps.map (·.1)) s) (i : Nat) (t : Int) (p : Rat) (hi : steps[i]? = some (t, p)) :
    ∃ out, (rangeEvalAggK pk op wo ls endTs steps ss)[i]? = some out ∧
      ∀ e, e ∈ out ↔ e ∈ instantK pk op p wo ls (vecAt t ss) := by
  have hmem : (t, p) ∈ steps := List.mem_of_getElem? hi
  unfold rangeEvalAggK
  split
  · rename_i hall
    refine ⟨[], by simp [List.getElem?_map, hi], ?_⟩
    intro e
    have := allNil_earlyNil op steps hall (vecAt t ss).length (t, p) hmem
    simp only at this
    simp [instantK, instantCore, this]
  · rw [rangeSteps_eq_cursorSpec pk hn op _ wo ls _ endTs steps ss hs hle, cursorSpec_eq_map pk op _ wo ls _ steps ss hs hg]
    refine ⟨instantCore pk op p ss.length wo ls (groupsOf wo ls (ss.map (·.lbls))) (vecAt t ss),
      by simp only [List.getElem?_map, hi, Option.map_some], ?_⟩
    intro e
    apply mem_instantCore_iff pk hn hc
    · unfold vecAt
      exact List.length_filterMap_le _ _
    · intro x hx
      unfold vecAt at hx
      obtain ⟨s, hs', hx'⟩ := List.mem_filterMap.mp hx
      cases hf : s.pts.find? (fun q => q.t == t) with
      | none => simp [hf] at hx'
      | some q =>
        simp only [hf, Option.map_some, Option.some.injEq] at hx'
        subst hx'
        rw [groupsOf, mem_dedup]
        exact List.mem_map.mpr ⟨s.lbls, List.mem_map_of_mem hs', rfl⟩

/-- The executable choices used by the suite (ties: the earlier sample) satisfy the laws the theorem needs. -/
theorem aggK_stablePick_laws : stablePick.NilOk ∧ stablePick.ClampOk := stablePick_laws

/-- hypotheses are satisfiable, and the strategy is exercised: `k = 2, 1, 0, 2` over two series. -/
example :
    let ss : List In := [⟨[("i", "a")], [⟨0, 4⟩, ⟨60, 4⟩, ⟨120, 4⟩, ⟨180, 4⟩]⟩, ⟨[("i", "c")], [⟨0, 3⟩, ⟨120, 3⟩, ⟨180, 3⟩]⟩]
    let steps : List (Int × Rat) := [(0, 2), (60, 1), (120, 0), (180, 2)]
    (steps.map (·.1)).Pairwise (· < ·) ∧ (∀ s ∈ ss, onGrid (steps.map (·.1)) s) ∧
      rangeEvalAggK stablePick .topk false [] 180 steps ss =
        [[⟨[("i", "a")], 4⟩, ⟨[("i", "c")], 3⟩], [⟨[("i", "a")], 4⟩], [], [⟨[("i", "a")], 4⟩, ⟨[("i", "c")], 3⟩]] := by
  refine ⟨by decide, ?_, by decide +kernel⟩
  intro s hs
  simp only [List.mem_cons, List.not_mem_nil, or_false] at hs
  rcases hs with rfl | rfl <;> simp [onGrid]

/-- Why every exit has to advance: testing `k < 1` BEFORE the series loop (nothing is consumed at such a step)
    leaves every cursor on the skipped step, and every later step selects nothing — the range query then differs
    from the instant queries at those steps. -/
theorem aggK_hoisted_test_witness :
    let ss : List In := [⟨[("i", "a")], [⟨0, 4⟩, ⟨60, 4⟩, ⟨120, 4⟩, ⟨180, 4⟩]⟩, ⟨[("i", "c")], [⟨0, 3⟩, ⟨120, 3⟩, ⟨180, 3⟩]⟩]
    let steps : List (Int × Rat) := [(0, 2), (60, 1), (120, 0), (180, 2)]
    (rangeStepsHoisted stablePick .topk 2 false [] [[]] 180 steps ss)[3]? = some [] ∧
      instantK stablePick .topk 2 false [] (vecAt 180 ss) = [⟨[("i", "a")], 4⟩, ⟨[("i", "c")], 3⟩] := by
  decide +kernel

end AggK

/-! ### the judge's attribution to finding C27-F2 is confined to non-literal parameters -/
open Prom.RangeSuite in
/-- An expression whose aggregation parameters are all literals (the fragment generated before parameters were
    varied, and the only one in which the constant-parameter `fParams` path is taken) is never attributed to the
    known finding about unpreprocessed parameters: a range-vs-instant mismatch there is always reported. -/
theorem paramSkipped_of_literal : ∀ q : Q, q.paramsLiteral = true → q.paramSkipped = false
  | .sel .. | .msel .. | .num _ | .str _ | .call0 _ => fun _ => rfl
  | .subq _ _ _ _ e => fun h => by
    simpa [Q.paramSkipped] using paramSkipped_of_literal e (by simpa [Q.paramsLiteral] using h)
  | .call1 _ _ a => fun h => by
    simpa [Q.paramSkipped] using paramSkipped_of_literal a (by simpa [Q.paramsLiteral] using h)
  | .call2 _ _ a b => fun h => by
    have h' : a.paramsLiteral = true ∧ b.paramsLiteral = true := by simpa [Q.paramsLiteral] using h
    simp [Q.paramSkipped, paramSkipped_of_literal a h'.1, paramSkipped_of_literal b h'.2]
  | .call3 _ _ a b c => fun h => by
    have h' : (a.paramsLiteral = true ∧ b.paramsLiteral = true) ∧ c.paramsLiteral = true := by
      simpa [Q.paramsLiteral] using h
    simp [Q.paramSkipped, paramSkipped_of_literal a h'.1.1, paramSkipped_of_literal b h'.1.2, paramSkipped_of_literal c h'.2]
  | .bin _ _ _ _ _ _ l r => fun h => by
    have h' : l.paramsLiteral = true ∧ r.paramsLiteral = true := by simpa [Q.paramsLiteral] using h
    simp [Q.paramSkipped, paramSkipped_of_literal l h'.1, paramSkipped_of_literal r h'.2]
  | .agg _ _ _ e => fun h => by
    simpa [Q.paramSkipped] using paramSkipped_of_literal e (by simpa [Q.paramsLiteral] using h)
  | .neg e => fun h => by
    simpa [Q.paramSkipped] using paramSkipped_of_literal e (by simpa [Q.paramsLiteral] using h)
  | .aggP _ _ _ p e => fun h => by
    cases p with
    | num b =>
      have := paramSkipped_of_literal e (by simpa [Q.paramsLiteral] using h)
      by_cases hi : e.stepInv = true <;> simp [Q.paramSkipped, paramMistreated, Q.stepInv, Q.anyAt, this, hi]
    | str b =>
      have := paramSkipped_of_literal e (by simpa [Q.paramsLiteral] using h)
      by_cases hi : e.stepInv = true <;> simp [Q.paramSkipped, paramMistreated, Q.stepInv, Q.anyAt, this, hi]
    | _ => simp [Q.paramsLiteral] at h

open Prom.RangeSuite in
/-- … and the finding's two shapes are recognised: a varying parameter over an `@`-fixed operand, and an `@`
    inside the parameter. -/
example : (Q.aggP "topk" "-" "-" (.call1 "scalar" "-" (.sel "kk" "-" 0 "-")) (.sel "m1" "-" 0 "100")).paramSkipped = true ∧
    (Q.aggP "topk" "-" "-" (.call1 "scalar" "-" (.sel "kk" "-" 0 "end")) (.sel "m1" "-" 0 "-")).paramSkipped = true ∧
    (Q.aggP "topk" "-" "-" (.call1 "scalar" "-" (.sel "kk" "-" 0 "-")) (.sel "m1" "-" 0 "-")).paramSkipped = false := by
  decide

/-! ### the judge accepts equal outputs -/
open Prom.RangeSuite in
/-- NaN-aware bitwise equality of step results is reflexive: identical range and instant outputs are never
    flagged. -/
theorem stepEq_refl (x : Step) : stepEq x x = true := by
  unfold stepEq
  simp only [decide_true, Bool.true_and]
  rw [List.all_eq_true]
  intro p hp
  have : p.1 = p.2 := by
    induction x with
    | nil => simp at hp
    | cons a l ih =>
      simp only [List.zip_cons_cons, List.mem_cons] at hp
      rcases hp with rfl | hp
      · rfl
      · exact ih hp
  obtain ⟨a, b⟩ := p
  simp only at this
  subst this
  simp [valEq]

open Prom.RangeSuite in
/-- The judge's per-step comparison accepts a result compared with itself (unless it contains a staleness
    marker, which must never appear in a query result). -/
theorem diffAt_self (q : Q) (s : List Step) (i : Nat) (x : Step) (h : s[i]? = some x) (hst : x.hasStale = false) :
    diffAt q (.steps s) (.steps s) i i = none := by
  simp [diffAt, h, hst, stepEq_refl]

end Prom.C27
