import PromModel.Suites.NhcbSuite
import PromProofs.NhcbGroups
import PromProofs.NhcbFields
/-
  C36 — classic histograms convert to custom-bucket histograms without loss.
  Theorems about the transcription of `NHCBParser`/`TempHistogram` in PromModel/Ingest/Nhcb.lean.
-/
namespace Prom.C36
open Prom.Nhcb

/-- De-cumulation followed by cumulation gives the cumulative counts back (all lists, all starts). -/
theorem decumulate_cumulate_id (p : Int) (cs : List Int) : cumulate p (decumulate p cs) = cs := by
  induction cs generalizing p with
  | nil => rfl
  | cons c cs ih =>
    simp only [decumulate, cumulate]
    have h : p + (c - p) = c := by omega
    rw [h, ih]

/-- … and the other way round: bucket counts survive cumulate ∘ decumulate. -/
theorem cumulate_decumulate_id (p : Int) (ds : List Int) : decumulate p (cumulate p ds) = ds := by
  induction ds generalizing p with
  | nil => rfl
  | cons d ds ih =>
    simp only [cumulate, decumulate]
    have h : p + d - p = d := by omega
    rw [h, ih]

example : decumulate 0 [1, 16, 18] = [1, 15, 2] := by decide

/-- `nhcb_fields` (count clause): the number of de-cumulated buckets is the number of cumulative ones. -/
theorem decumulate_length (p : Int) (cs : List Int) : (decumulate p cs).length = cs.length := by
  induction cs generalizing p with
  | nil => rfl
  | cons c cs ih => simp [decumulate, ih]

/-- `nhcb_fields` (timestamp clause, repaired code = /repo): a converted histogram carries the timestamp
    remembered from the first collated series, whatever entry ended the collation. -/
theorem nhcb_timestamp_fixed (cfg : Cfg) (s s' : St) (b : String) (ls : Labels) (ts : Option Int) (st : Int)
    (ex : List String) (c : Conv) (hf : cfg.fixed = true)
    (h : processNHCB cfg s = (some (.nhcb b ls ts st ex c), s')) : ts = s.tempTS ∧ ls = s.tempLset ∧ st = s.tempST := by
  unfold processNHCB at h
  split at h
  · simp at h
  · split at h
    · split at h
      · simp at h
      · simp [hf] at h
        obtain ⟨⟨_, h2, h3, h4, _⟩, _⟩ := h
        exact ⟨h3.symm, h2.symm, h4.symm⟩
    · simp at h

/-- unfixed code: the timestamp is the one cached from the inner series parsed last (finding F23). -/
theorem timestamp_witness (cfg : Cfg) (s s' : St) (b : String) (ls : Labels) (ts : Option Int) (st : Int)
    (ex : List String) (c : Conv) (hf : cfg.fixed = false)
    (h : processNHCB cfg s = (some (.nhcb b ls ts st ex c), s')) : ts = s.ts := by
  unfold processNHCB at h
  split at h
  · simp at h
  · split at h
    · split at h
      · simp at h
      · simp [hf] at h
        exact h.1.2.2.1.symm
    · simp at h

/-- `no_nhcb_when_exponential`: after an exponential histogram, a series of the same metric (same name
    after suffix removal, same labels without `le`, family typed histogram) is passed through unchanged,
    nothing is collected and the parser stays inhibited — for every state and every such series. -/
theorem no_nhcb_when_exponential (cfg : Cfg) (s : St) (b : String) (ls : Labels) (v : Nat) (ts : Option Int)
    (st : Int) (ex : List String) (hs : s.state = .inhibiting)
    (hd : differentMetric { s with ts := ts } ls = false) :
    step cfg s (.series b ls v ts st ex) = ([.series b ls v ts st ex], { s with ts := ts }) := by
  cases s
  simp only at hs
  subst hs
  simp [step, hd, passST]

/-- An exponential histogram entry is always passed through and always inhibits. -/
theorem exponential_passthrough (cfg : Cfg) (s : St) (b : String) (ls : Labels) (ts : Option Int) (st : Int)
    (ex : List String) (h : String) :
    (step cfg s (.hist b ls ts st ex h)).1 = [.hist b ls ts st ex h] ∧ (step cfg s (.hist b ls ts st ex h)).2.state = .inhibiting := by
  simp [step]

/-- Outside a collection nothing is ever converted: `processNHCB` is the identity. -/
theorem processNHCB_idle (cfg : Cfg) (s : St) (h : s.state ≠ .collecting) : processNHCB cfg s = (none, s) := by
  simp [processNHCB, h]

/-- `keep_classic_superset` (per entry): metadata entries are always handed on, as the last entry of the step. -/
theorem meta_passthrough (cfg : Cfg) (s : St) (n t : String) :
    (step cfg s (.typ n t)).1.getLast? = some (.typ n t) ∧ (step cfg s (.help n t)).1.getLast? = some (.help n t) := by
  simp [step]

/-! ### Stream level: induction over the inner entry stream

  `WF cfg es` (PromProofs/NhcbRef.lean) is the explicit well-formedness predicate: walking the stream with
  the reference grouping, (a) every group that ends converts (its series form a valid classic histogram:
  no Convert/Validate failure — excludes C36-F3), (b) no exponential histogram arrives while a group is
  open (excludes C36-F2), (c) with keep-classic the collated series carry no exemplars (excludes C36-F1),
  (d) when the wrapped parser leaves `HasTs/Ts` of a reused exemplar slot untouched, every collated
  exemplar has a timestamp (excludes C36-F4), (e) series handed on while a group is open have the group's
  start timestamp, and the code is the repaired one (F23).  It is decidable (`Bool`-valued walk). -/

/-- a text-format payload as entry stream:
    `# TYPE h histogram`, `h_bucket{le="1"} 2`, `h_bucket{le="+Inf"} 5`, `h_count 5`, `h_sum 1.5`,
    `# TYPE g gauge`, `g 1` -/
def exStream : List Entry :=
  [ .typ "68" "686973746f6772616d",
    .series "b1" [("5f5f6e616d655f5f", "685f6275636b6574"), ("6c65", "31")] 0x4000000000000000 (some 1000) 0 [],
    .series "b2" [("5f5f6e616d655f5f", "685f6275636b6574"), ("6c65", "2b496e66")] 0x4014000000000000 (some 1000) 0 [],
    .series "c" [("5f5f6e616d655f5f", "685f636f756e74")] 0x4014000000000000 (some 1000) 0 [],
    .series "s" [("5f5f6e616d655f5f", "685f73756d")] 0x3ff8000000000000 (some 1000) 0 [],
    .typ "67" "6761756765",
    .series "g" [("5f5f6e616d655f5f", "67")] 0x3ff0000000000000 none 0 [] ]

def exCfg (keep : Bool) : Cfg := { keep := keep, parseST := true, partialEx := true, fixed := true }

/-- a non-trivial stream is well-formed (with and without keep-classic) … -/
example : WF (exCfg false) exStream ∧ WF (exCfg true) exStream := by decide +kernel

/-- … and is converted to one histogram with bound 1.0, buckets 2 and 3, count 5, sum 1.5, timestamp 1000 -/
example : transform (exCfg false) exStream =
    [ .typ "68" "686973746f6772616d",
      .nhcb "68" [("5f5f6e616d655f5f", "68")] (some 1000) 0 [] (.int 5 0x3ff8000000000000 [0x3ff0000000000000] [2, 3]),
      .typ "67" "6761756765",
      .series "g" [("5f5f6e616d655f5f", "67")] 0x3ff0000000000000 none 0 [] ] := by decide +kernel

/-- **Refinement** (per inner entry): on a well-formed stream the wrapped parser returns, while each inner
    entry is the last one pulled, exactly what the reference grouping prescribes — the converted histogram
    of the group ending there, then the entry itself unless it was collated.  Proof: induction over the
    stream with the invariant `Sim` on the parser state (PromProofs/NhcbSim.lean). -/
theorem stream_refines_reference (cfg : Cfg) (es : List Entry) (h : WF cfg es) :
    (run cfg {} es).map (·.map (Out.norm cfg)) = (refRun cfg {} es).map (·.map (Out.norm cfg)) :=
  run_sim cfg h.1 es {} {} (sim_init cfg) h.2

theorem transform_refines_reference (cfg : Cfg) (es : List Entry) (h : WF cfg es) :
    (transform cfg es).map (Out.norm cfg) = (refTransform cfg es).map (Out.norm cfg) := by
  unfold transform refTransform
  rw [List.map_flatten, List.map_flatten, stream_refines_reference cfg es h]

/-- `nhcb_groups`: for every well-formed inner entry stream the output consists of exactly one converted
    histogram per group (`groups`: maximal runs of classic-histogram series with the same base name and
    labels minus `le`), in the order of the groups, and of the entries handed on (`passed`: everything
    except the collated classic series, which are kept only with keep-classic). -/
theorem nhcb_groups (cfg : Cfg) (es : List Entry) (h : WF cfg es) :
    ((transform cfg es).filter Out.isNhcb).map (Out.norm cfg) = ((groups cfg es).flatMap Grp.out).map (Out.norm cfg) ∧
    (∀ g ∈ groups cfg es, ∃ c, g.conv = some c ∧ g.out = [.nhcb (metricString g.base) g.base g.ts g.st g.exs c]) ∧
    ((transform cfg es).filter (fun o => !o.isNhcb)).map (Out.norm cfg) = (passed cfg es).map (Out.norm cfg) := by
  have ht := transform_refines_reference cfg es h
  refine ⟨?_, ?_, ?_⟩
  · rw [← filter_nhcb_norm, ht, filter_nhcb_norm]
    unfold refTransform groups
    rw [refRun_nhcb]
  · intro g hg
    have hc := refGroups_conv cfg es {} h.2 g hg
    obtain ⟨c, hc⟩ := Option.isSome_iff_exists.mp hc
    exact ⟨c, hc, by simp [Grp.out, hc]⟩
  · rw [← filter_not_nhcb_norm, ht, filter_not_nhcb_norm]
    unfold refTransform passed
    rw [refRun_passed]

/-- the number of converted histograms is the number of groups -/
theorem nhcb_count (cfg : Cfg) (es : List Entry) (h : WF cfg es) :
    ((transform cfg es).filter Out.isNhcb).length = (groups cfg es).length := by
  have h1 := congrArg List.length (nhcb_groups cfg es h).1
  simp only [List.length_map] at h1
  rw [h1, List.length_flatMap]
  have : ∀ gs : List Grp, (∀ g ∈ gs, g.out.length = 1) → (gs.map (fun g => g.out.length)).sum = gs.length := by
    intro gs; induction gs with
    | nil => intro _; rfl
    | cons g gs ih =>
      intro hh
      simp only [List.map_cons, List.sum_cons, List.length_cons]
      rw [hh g (by simp), ih (fun x hx => hh x (by simp [hx]))]; omega
  apply this
  intro g hg
  obtain ⟨c, _, ho⟩ := (nhcb_groups cfg es h).2.1 g hg
  rw [ho]; rfl

theorem Grp.conv_some {g : Grp} {c : Conv} (h : g.conv = some c) : g.temp.convert = some c ∧ c.valid = true := by
  unfold Grp.conv at h
  split at h
  · split at h
    · cases h; exact ⟨by assumption, by assumption⟩
    · cases h
  · cases h

/-- `nhcb_fields`: on a well-formed stream, the converted histogram of every group `g`
    * is `nhcb (series text of g.base) g.base g.ts g.st g.exs c`: labels = those of the group's first series
      with `__name__` := base name and without `le` (`metricBase`), timestamp and start timestamp = those of
      the first series, exemplars = the exemplars of all its series in order (by construction of `Grp` in
      `refFresh`/`refSame`);
    * custom values = the finite upper bounds stored for the group, which are strictly increasing, each of
      them the `le` of one of the group's `_bucket` series together with that series' cumulative count, and
      every `_bucket` series' bound is present (up to IEEE `==`);
    * sum = the `_sum` series' value, counts (`Conv.CountsOf`): bucket counts = adjacent differences of the
      cumulative counts (incl. the `+Inf`/missing-`+Inf` rule of `effBuckets`), count = `_count` series or
      the default; for integer histograms `cumulate 0 abs` gives the cumulative counts back;
    * it passes `Validate`. -/
theorem nhcb_fields (cfg : Cfg) (es : List Entry) (h : WF cfg es) : ∀ g ∈ groups cfg es, ∃ c,
    g.out = [.nhcb (metricString g.base) g.base g.ts g.st g.exs c] ∧
    c.cv = customValues g.temp.buckets ∧
    c.cv.Pairwise (fun a b => flt a b = true) ∧
    (∀ b ∈ g.temp.buckets, Upd.bucket b.le b.count ∈ g.upds) ∧
    (∀ le v, Upd.bucket le v ∈ g.upds → ∃ b ∈ g.temp.buckets, feq b.le le = true) ∧
    c.sum = g.temp.sum ∧ c.CountsOf g.temp ∧ c.valid = true := by
  intro g hg
  obtain ⟨c, hc, ho⟩ := (nhcb_groups cfg es h).2.1 g hg
  obtain ⟨hcv, hv⟩ := Grp.conv_some hc
  obtain ⟨he, f1, f2, f3⟩ := g.temp.convert_fields c hcv
  obtain ⟨m1, m2⟩ := g.temp_buckets he
  refine ⟨c, ho, f1, ?_, m1, m2, f2, f3, hv⟩
  rw [f1]
  exact customValues_sorted _ g.temp_sorted

/-- integer histograms: re-cumulating the bucket counts gives the cumulative counts of the series back -/
theorem nhcb_fields_int_roundtrip (h : Temp) (count : Int) (sum : Nat) (cv : List Nat) (abs : List Int)
    (hc : (Conv.int count sum cv abs).CountsOf h) :
    h.effBuckets.mapM (fun b => asI64? b.count) = some (cumulate 0 abs) := by
  obtain ⟨ints, h1, h2, _⟩ := hc
  rw [h2, decumulate_cumulate_id, h1]

/-- `keep_classic_superset`: with keep-classic, on a well-formed stream, (1) the stream is also well-formed
    for the parser without keep-classic and the converted histograms are the same, (2) everything else in
    the output is the inner stream itself (up to its first error), every entry exactly as the inner parser
    delivers it — in particular all classic series. -/
theorem keep_classic_superset (cfg : Cfg) (es : List Entry) (hk : cfg.keep = true) (h : WF cfg es) :
    WF { cfg with keep := false } es ∧
    ((transform cfg es).filter Out.isNhcb).map (Out.norm cfg) =
      ((transform { cfg with keep := false } es).filter Out.isNhcb).map (Out.norm cfg) ∧
    ((transform cfg es).filter (fun o => !o.isNhcb)).map (Out.norm cfg) =
      ((upToErr es).map Entry.toOut).map (Out.norm cfg) := by
  have h0 : WF { cfg with keep := false } es := ⟨h.1, wfGo_keep_false cfg es {} h.2⟩
  refine ⟨h0, ?_, ?_⟩
  · rw [(nhcb_groups cfg es h).1]
    have := (nhcb_groups _ es h0).1
    have hn : Out.norm { cfg with keep := false } = Out.norm cfg := by
      funext o; cases o <;> rfl
    rw [hn] at this
    rw [this]
    unfold groups
    rw [refGroups_keep cfg false]
  · rw [(nhcb_groups cfg es h).2.2]
    unfold passed
    rw [refPassed_keep cfg hk]

example : ((transform (exCfg true) exStream).filter (fun o => !o.isNhcb)) = exStream.map Entry.toOut := by
  decide +kernel

/-! ### The situations `WF` excludes: known findings C36-F1 … C36-F4, each with a concrete witness

  (`decide +kernel`: the kernel evaluates the model on the concrete stream; hex strings: `68` = `h`,
  `67` = `g`, `685f6275636b6574` = `h_bucket`, `685f636f756e74` = `h_count`, `31` = `1`, `2b496e66` = `+Inf`.) -/

def tH : Entry := .typ "68" "686973746f6772616d"
def tG : Entry := .typ "67" "686973746f6772616d"
def nm (s : String) : Lbl := ("5f5f6e616d655f5f", s)
def leL (s : String) : Lbl := ("6c65", s)
def cfgW (keep : Bool) : Cfg := { keep := keep, parseST := false, partialEx := false, fixed := true }

/-- `# TYPE h histogram`, `h_bucket{le="+Inf"} 5 # {…} …` -/
def f1Stream : List Entry :=
  [ tH, .series "b" [nm "685f6275636b6574", leL "2b496e66"] 0x4014000000000000 none 0 ["x/0/-"] ]

/-- C36-F1: with keep-classic the kept classic series comes back without its exemplar; the stream is
    well-formed without keep-classic and excluded by `WF` with it (clause `wfMember`, first conjunct). -/
theorem keep_classic_exemplars_witness :
    ¬ WF (cfgW true) f1Stream ∧ WF (cfgW false) f1Stream ∧
    (transform (cfgW true) f1Stream).filter (fun o => !o.isNhcb) =
      [ .typ "68" "686973746f6772616d",
        .series "b" [nm "685f6275636b6574", leL "2b496e66"] 0x4014000000000000 none 0 [] ] ∧
    (transform (cfgW true) f1Stream).filter (fun o => !o.isNhcb) ≠ f1Stream.map Entry.toOut := by
  decide +kernel

/-- `# TYPE h histogram`, `h_bucket{le="+Inf"} 5`, then an exponential histogram `h{a="b"}` -/
def f2Stream : List Entry :=
  [ tH, .series "b" [nm "685f6275636b6574", leL "2b496e66"] 0x4014000000000000 none 0 [],
    .hist "e" [nm "68", ("61", "62")] none 0 [] "H" ]

/-- C36-F2: the stream without the exponential entry has one group and one converted histogram; with the
    exponential entry arriving while the group is open nothing is converted (the group is dropped), and
    `WF` excludes the stream (clause `.hist` of `wfStep`). -/
theorem exponential_drops_classic_witness :
    ¬ WF (cfgW false) f2Stream ∧ (groups (cfgW false) (f2Stream.take 2)).length = 1 ∧
    ((transform (cfgW false) (f2Stream.take 2)).filter Out.isNhcb).length = 1 ∧
    (transform (cfgW false) f2Stream).filter Out.isNhcb = [] := by
  decide +kernel

/-- `h_bucket{le="1"} 5`, `h_count 3` (fails Validate: negative `+Inf` bucket), then the valid histogram
    `g_bucket{le="1"} 1`, `g_bucket{le="+Inf"} 1`, `g_count 1` -/
def f3Stream : List Entry :=
  [ tH, .series "b" [nm "685f6275636b6574", leL "31"] 0x4014000000000000 none 0 [],
    .series "c" [nm "685f636f756e74"] 0x4008000000000000 none 0 [],
    tG, .series "b1" [nm "675f6275636b6574", leL "31"] 0x3ff0000000000000 none 0 [],
    .series "b2" [nm "675f6275636b6574", leL "2b496e66"] 0x3ff0000000000000 none 0 [],
    .series "c" [nm "675f636f756e74"] 0x3ff0000000000000 none 0 [] ]

/-- C36-F3: the histogram failing Validate leaves `stateCollecting` and its buckets behind: the buckets of
    the following valid histogram `g` are merged into it and lost, `g` is converted from its `_count` series
    alone (no custom value) instead of with its bound 1.0.  `WF` excludes the stream (`g.conv.isSome`),
    while the valid histogram alone is well-formed. -/
theorem failed_validate_leaves_state_witness :
    ¬ WF (cfgW false) f3Stream ∧ WF (cfgW false) (f3Stream.drop 3) ∧
    (transform (cfgW false) (f3Stream.drop 3)).filter Out.isNhcb =
      [.nhcb "67" [nm "67"] none 0 [] (.int 1 0 [0x3ff0000000000000] [1, 0])] ∧
    (transform (cfgW false) f3Stream).filter Out.isNhcb =
      [.nhcb "67" [nm "67"] none 0 [] (.int 1 0 [] [1])] := by
  decide +kernel

/-- C36-F4: after a histogram with exemplar `old` was converted, `processNHCB` resets `len`/`count` of the
    exemplar buffer but keeps the slot; when the wrapped parser's `Exemplar()` leaves `HasTs`/`Ts` untouched
    (`partialWrite`), an exemplar `l`/`v`/no-timestamp stored next inherits the timestamp `ot` of
    `old`.  `WF` excludes it (`wfMember`, second conjunct: every collated exemplar has a timestamp).
    (`"a/b/c".splitOn "/" = ["a","b","c"]` by `#eval`; `splitOn` does not reduce in the kernel.) -/
theorem stale_exemplar_timestamp_witness (old new l v a b ot : String)
    (hn : new.splitOn "/" = [l, v, "-"]) (ho : old.splitOn "/" = [a, b, ot]) :
    (ExBuf.store true { buf := [old], len := 0, count := 0 } [new]).buf.take
        (ExBuf.store true { buf := [old], len := 0, count := 0 } [new]).count = [l ++ "/" ++ v ++ "/" ++ ot] ∧
    exHasTs new = false := by
  refine ⟨?_, by simp [exHasTs, hn]⟩
  simp [ExBuf.store, ExBuf.nextPtr, mergeEx, hn, ho]

end Prom.C36
