import PromModel.Suites.NhcbSuite
/-
  C36 — classic histograms convert to custom-bucket histograms without loss.
  Theorems about the transcription of `NHCBParser`/`TempHistogram` in PromModel/Ingest/Nhcb.lean.
-/
namespace Prom.C36
open Prom.Nhcb

/-- De-cumulation followed by cumulation gives the cumulative counts back (all lists, all starts). -/
theorem decumulate_cumulate_id (p : Int) (cs : List Int) : cumulate p (decumulate p cs) = cs := by
  induction cs generalizing p with
  | nil => rfl
  | cons c cs ih =>
    simp only [decumulate, cumulate]
    have h : p + (c - p) = c := by omega
    rw [h, ih]

/-- … and the other way round: bucket counts survive cumulate ∘ decumulate. -/
theorem cumulate_decumulate_id (p : Int) (ds : List Int) : decumulate p (cumulate p ds) = ds := by
  induction ds generalizing p with
  | nil => rfl
  | cons d ds ih =>
    simp only [cumulate, decumulate]
    have h : p + d - p = d := by omega
    rw [h, ih]

example : decumulate 0 [1, 16, 18] = [1, 15, 2] := by decide

/-- `nhcb_fields` (count clause): the number of de-cumulated buckets is the number of cumulative ones. -/
theorem decumulate_length (p : Int) (cs : List Int) : (decumulate p cs).length = cs.length := by
  induction cs generalizing p with
  | nil => rfl
  | cons c cs ih => simp [decumulate, ih]

/-- `nhcb_fields` (timestamp clause, repaired code = /repo): a converted histogram carries the timestamp
    remembered from the first collated series, whatever entry ended the collation. -/
theorem nhcb_timestamp_fixed (cfg : Cfg) (s s' : St) (b : String) (ls : Labels) (ts : Option Int) (st : Int)
    (ex : List String) (c : Conv) (hf : cfg.fixed = true)
    (h : processNHCB cfg s = (some (.nhcb b ls ts st ex c), s')) : ts = s.tempTS ∧ ls = s.tempLset ∧ st = s.tempST := by
  unfold processNHCB at h
  split at h
  · simp at h
  · split at h
    · split at h
      · simp at h
      · simp [hf] at h
        obtain ⟨⟨_, h2, h3, h4, _⟩, _⟩ := h
        exact ⟨h3.symm, h2.symm, h4.symm⟩
    · simp at h

/-- unfixed code: the timestamp is the one cached from the inner series parsed last (finding F23). -/
theorem timestamp_witness (cfg : Cfg) (s s' : St) (b : String) (ls : Labels) (ts : Option Int) (st : Int)
    (ex : List String) (c : Conv) (hf : cfg.fixed = false)
    (h : processNHCB cfg s = (some (.nhcb b ls ts st ex c), s')) : ts = s.ts := by
  unfold processNHCB at h
  split at h
  · simp at h
  · split at h
    · split at h
      · simp at h
      · simp [hf] at h
        exact h.1.2.2.1.symm
    · simp at h

/-- `no_nhcb_when_exponential`: after an exponential histogram, a series of the same metric (same name
    after suffix removal, same labels without `le`, family typed histogram) is passed through unchanged,
    nothing is collected and the parser stays inhibited — for every state and every such series. -/
theorem no_nhcb_when_exponential (cfg : Cfg) (s : St) (b : String) (ls : Labels) (v : Nat) (ts : Option Int)
    (st : Int) (ex : List String) (hs : s.state = .inhibiting)
    (hd : differentMetric { s with ts := ts } ls = false) :
    step cfg s (.series b ls v ts st ex) = ([.series b ls v ts st ex], { s with ts := ts }) := by
  cases s
  simp only at hs
  subst hs
  simp [step, hd, passST]

/-- An exponential histogram entry is always passed through and always inhibits. -/
theorem exponential_passthrough (cfg : Cfg) (s : St) (b : String) (ls : Labels) (ts : Option Int) (st : Int)
    (ex : List String) (h : String) :
    (step cfg s (.hist b ls ts st ex h)).1 = [.hist b ls ts st ex h] ∧ (step cfg s (.hist b ls ts st ex h)).2.state = .inhibiting := by
  simp [step]

/-- Outside a collection nothing is ever converted: `processNHCB` is the identity. -/
theorem processNHCB_idle (cfg : Cfg) (s : St) (h : s.state ≠ .collecting) : processNHCB cfg s = (none, s) := by
  simp [processNHCB, h]

/-- `keep_classic_superset` (per entry): metadata entries are always handed on, as the last entry of the step. -/
theorem meta_passthrough (cfg : Cfg) (s : St) (n t : String) :
    (step cfg s (.typ n t)).1.getLast? = some (.typ n t) ∧ (step cfg s (.help n t)).1.getLast? = some (.help n t) := by
  simp [step]

end Prom.C36
