import PromModel.Suites.ExpoSuite
import PromProofs.ExpoLine
/-
  C35 — exposition formats are parsed faithfully and consistently: theorems about the model
  (`PromModel/Ingest/TextExpo.lean`, `OpenMetrics.lean`; judge in `PromModel/Suites/ExpoSuite.lean`).

  Proved for all inputs: the escaping round trips of both formats; the lexers of both parsers return an
  encoded label value as one token whose content unescapes to the original (any follow-up input);
  `Next` of the text parser on an encoded sample line (legacy name, no label set, no timestamp) returns
  exactly that series; the text parser never panics or hangs on any byte string.  Proved counter-examples
  (`_witness`): negative timestamps (F21), the StartTimestamp panic and hang of the OpenMetrics parser, the
  1001 ms timestamp.  The whole-payload round trips are stated in full (`*_full`) and proved on a concrete
  family set (`*_example`); in general they are checked by the judge on the implementation's outputs.
-/
namespace Prom.C35
open Prom.Expo Prom.Api.Json

set_option maxRecDepth 1000000
set_option exponentiation.threshold 3000

/-! ## escaping -/

/-- text-format HELP: the parser's `helpReplacer` inverts expfmt's `escaper`. -/
theorem help_unescape_escape (s : Prom.Expo.Bytes) : unescHelp (escHelp s) = s := unescHelp_escHelp s

/-- label values, quoted metric/label names, OpenMetrics HELP: `lvalReplacer` inverts `quotedEscaper`. -/
theorem quoted_unescape_escape (s : Prom.Expo.Bytes) : unescQuoted (escQuoted s) = s := unescQuoted_escQuoted s

/-! ## label values through the lexers -/

/-- Text format: in start condition sLValue the lexer returns `"<escaped v>"` as ONE tLValue token, whatever
    follows (`rest` not starting with a NUL, which this state would swallow), and the token's inside
    unescapes to `v`. -/
theorem text_label_value_roundtrip (v rest : Prom.Expo.Bytes) (hv : NoNul v) (hr : rest.head? ≠ some 0) :
    let x := textLex sLValue (34 :: (escQuoted v ++ 34 :: rest))
    x.tok = .lvalue ∧ x.st = sLabels ∧ x.rest = rest ∧ unescQuoted (inner x.buf) = v := by
  have h : textLex sLValue (34 :: (escQuoted v ++ 34 :: rest)) = ⟨.lvalue, 34 :: (escQuoted v ++ [34]), sLabels, rest⟩ := by
    simp [textLex, textLexFrom, sLValue, sInit, sComment, sMeta1, sMeta2, sLabels, cur, scanQuoted_esc _ _ v rest hv hr]
  simp only [h, inner_quoted, unescQuoted_escQuoted, and_self]

/-- OpenMetrics: the same for `openMetricsLexer` (which additionally forbids a raw newline in the value —
    the encoder never writes one). -/
theorem om_label_value_roundtrip (v rest : Prom.Expo.Bytes) (hv : NoNul v) (hr : rest.head? ≠ some 0) :
    let x := omLex sLValue (34 :: (escQuoted v ++ 34 :: rest))
    x.tok = .lvalue ∧ x.st = sLabels ∧ x.rest = rest ∧ unescQuoted (inner x.buf) = v := by
  have h : omLex sLValue (34 :: (escQuoted v ++ 34 :: rest)) = ⟨.lvalue, 34 :: (escQuoted v ++ [34]), sLabels, rest⟩ := by
    simp [omLex, omLexFrom, sLValue, sInit, sComment, sMeta1, sMeta2, sLabels, sExemplar, cur, scanQuoted_esc _ _ v rest hv hr]
  simp only [h, inner_quoted, unescQuoted_escQuoted, and_self]

example : NoNul (kw "a\"b\\c\nd") ∧ ([] : Prom.Expo.Bytes).head? ≠ some 0 := by
  constructor
  · intro c hc; revert c; decide
  · simp

/-! ## one sample line -/

/-- the float text written for `b` is a value token that parses back to `v` (the `strconv` shortest-format
    round trip, a parameter of the line theorem; `v` = `b` up to NaN canonicalisation and the dropped sign of zero) -/
def FloatTextOK (b v : Nat) : Prop :=
  ∃ v0 vt', writeFloat b = v0 :: vt' ∧ isValChar v0 = true ∧ (∀ x ∈ vt', isValChar x = true) ∧ parseFloat (v0 :: vt') = some v

/-- `line_roundtrip` for sample lines without label set and timestamp: `Next` on the line expfmt writes for a
    legacy-named sample returns exactly the series (name, `__name__` label, value), and leaves the lexer at
    the start of the next line. -/
theorem line_roundtrip_partial (p : TP) (fuel : Nat) (name rest : Prom.Expo.Bytes) (m : Metric) (b v : Nat)
    (hname : legacyName name = true) (hl0 : m.lbls = []) (ht : m.ts = none) (hf : FloatTextOK b v)
    (hl : p.lst = sInit) (hr : p.rest = textSample name [] m none b ++ rest) :
    tNextEntry (fuel + 1) p =
      .ok (some (.series name (buildLabels p.tu p.mtype [] name []) (if isNaNBits v then canonNaN else v) none none 0,
                 { p with lst := sInit, rest := rest })) := by
  obtain ⟨v0, vt', hw, hv0, hvt, hpf⟩ := hf
  cases name with
  | nil => simp [legacyName] at hname
  | cons c0 n' =>
    simp only [legacyName, Bool.and_eq_true, List.all_eq_true] at hname
    have enc : textSample (c0 :: n') [] m none b ++ rest = c0 :: n' ++ 32 :: v0 :: vt' ++ 10 :: rest := by
      simp [textSample, writeNameAndLabels, hl0, ht, hw, legacyName, writeName, hname.1, List.all_eq_true.mpr hname.2]
    rw [enc] at hr
    exact tNextEntry_plain_line p fuel c0 n' v0 vt' rest hname.1 hname.2 hv0 hvt v hpf hl hr

/-- the same with the non-negative millisecond timestamp the encoder appends (`name SP value SP ts LF`) -/
theorem line_roundtrip_ts_partial (p : TP) (fuel : Nat) (name rest : Prom.Expo.Bytes) (m : Metric) (b v t : Nat)
    (hname : legacyName name = true) (hl0 : m.lbls = []) (ht : m.ts = some (t : Int)) (htr : t ≤ maxI64) (hf : FloatTextOK b v)
    (hl : p.lst = sInit) (hr : p.rest = textSample name [] m none b ++ rest) :
    tNextEntry (fuel + 1) p =
      .ok (some (.series name (buildLabels p.tu p.mtype [] name []) (if isNaNBits v then canonNaN else v) (some (t : Int)) none 0,
                 { p with lst := sInit, rest := rest })) := by
  obtain ⟨v0, vt', hw, hv0, hvt, hpf⟩ := hf
  cases name with
  | nil => simp [legacyName] at hname
  | cons c0 n' =>
    simp only [legacyName, Bool.and_eq_true, List.all_eq_true] at hname
    have enc : textSample (c0 :: n') [] m none b ++ rest = c0 :: n' ++ 32 :: v0 :: vt' ++ 32 :: natDec t ++ 10 :: rest := by
      simp [textSample, writeNameAndLabels, hl0, ht, hw, legacyName, writeName, hname.1, List.all_eq_true.mpr hname.2, intDec,
        writeInt64_ofNat]
    rw [enc] at hr
    exact tNextEntry_ts_line p fuel c0 n' v0 vt' rest hname.1 hname.2 hv0 hvt v hpf t htr hl hr

/-- the hypotheses are satisfiable: `1.5` is written as `1.5` and read back bit-exactly -/
example : FloatTextOK 0x3ff8000000000000 0x3ff8000000000000 :=
  ⟨49, [46, 53], by decide, by decide, by decide, by decide⟩

/-- the full statement (any WF metric: label set incl. quoted UTF-8 names and escapes, `le`/`quantile`, signed
    timestamps); proved only in the form above. Missing: induction over the label set (`tParseLVals` over
    `writeNameAndLabels`), quoted names, the timestamp token. -/
def line_roundtrip_full : Prop :=
  ∀ (tu : Bool) (mtype name rest : Prom.Expo.Bytes) (m : Metric) (b v : Nat) (fuel : Nat),
    goodStr name = true → wfLabels [kwName] m.lbls = true → (∀ t, m.ts = some t → 0 ≤ t) → FloatTextOK b v →
    ∃ raw, tNextEntry (fuel + 1) { rest := textSample name [] m none b ++ rest, lst := sInit, mtype := mtype, tu := tu } =
      .ok (some (.series raw (buildLabels tu mtype [] (escQuoted name) (m.lbls.map fun l => (escQuoted l.1, escQuoted l.2)))
                   (if isNaNBits v then canonNaN else v) m.ts none 0,
                 { rest := rest, lst := sInit, mtype := mtype, tu := tu }))

/-! ## totality -/

theorem tParseLVals_err : ∀ n t acc name lbls e, tParseLVals n t acc name lbls = .error e → e = .err := by
  intro n
  induction n with
  | zero => intro t acc name lbls e h; simp [tParseLVals] at h; exact h.symm
  | succ n ih =>
    intro t acc name lbls e h
    unfold tParseLVals at h
    simp only at h
    repeat' split at h
    all_goals first
      | (exact ih _ _ _ _ _ h)
      | (simp at h; done)
      | (simp at h; exact h.symm)

theorem tParseSuffix_err (t : TokR) (e : PErr) (h : tParseSuffix t = .error e) : e = .err := by
  unfold tParseSuffix at h
  simp only at h
  repeat' split at h
  all_goals first
    | (simp at h; done)
    | (simp at h; exact h.symm)

theorem tNextEntry_err : ∀ n p e, tNextEntry n p = .error e → e = .err := by
  intro n
  induction n with
  | zero => intro p e h; simp [tNextEntry] at h; exact h.symm
  | succ n ih =>
    intro p e h
    unfold tNextEntry at h
    simp only at h
    repeat' split at h
    all_goals first
      | (exact ih _ _ h)
      | (simp at h; done)
      | (simp at h; exact h.symm)
      | (simp at h; subst h; apply tParseLVals_err; assumption)
      | (simp at h; subst h; apply tParseSuffix_err; assumption)

theorem tRun_fin : ∀ n p acc, (tRun n p acc).2 = .eof ∨ (tRun n p acc).2 = .err ∨ (tRun n p acc).2 = .fuel := by
  intro n
  induction n with
  | zero => intro p acc; simp [tRun]
  | succ n ih =>
    intro p acc
    unfold tRun
    split
    · rename_i e h
      have := tNextEntry_err _ _ _ h
      subst this
      simp [PErr.fin]
    · simp
    · exact ih _ _

/-- `parse_total` (text format): on EVERY byte string and option the text parser of the model ends with EOF or
    an error after finitely many entries — it never panics and never hangs (`.fuel`, the model's own step
    bound `len + 3`, was never reached in the correspondence; excluding it needs a progress lemma per token). -/
theorem text_parse_total (tu : Bool) (b : Prom.Expo.Bytes) :
    (parseText tu b).2 ≠ .panic ∧ (parseText tu b).2 ≠ .hang := by
  unfold parseText
  rcases tRun_fin (b.length + 3) { rest := b ++ [10], tu := tu } [] with h | h | h <;> simp [h]

/-- The same statement is FALSE for the OpenMetrics parser when `StartTimestamp()` is called: findings
    C35-F2 (panic) and C35-F3 (hang). -/
def om_parse_total_full : Prop :=
  ∀ (tu skip st : Bool) (b : Prom.Expo.Bytes), (parseOM tu skip st b).2 ≠ .panic ∧ (parseOM tu skip st b).2 ≠ .hang

theorem start_timestamp_panic_witness :
    (parseOM false true true (kw "# TYPE aaaaaaaaaaaaaaaaaaaaaaaaaaaaaaaaaaaaaaaa counter\nx 1\n# EOF\n")).2 = .panic := by decide

theorem start_timestamp_hang_witness :
    (parseOM false true true (kw "# TYPE a counter\na_total 1\nb 1 # {x\n# EOF\n")).2 = .hang := by decide

theorem om_parse_total_witness : ¬ om_parse_total_full := by
  intro h
  have := (h false true true (kw "# TYPE a counter\na_total 1\nb 1 # {x\n# EOF\n")).2
  exact this start_timestamp_hang_witness

/-! ## findings about faithfulness -/

/-- F21: the text format cannot parse the negative timestamp the text encoder writes; OpenMetrics can
    (code before fixes/F21.patch; `repoF21Fixed` says which code the model follows). -/
theorem text_negative_timestamp_witness : repoF21Fixed = false →
    encodeText [⟨.gauge, kw "m", none, none, [{ kind := .g, lbls := [], ts := some (-1), created := none, val := oneBits }]⟩] = some (kw "# TYPE m gauge\nm 1 -1\n")
    ∧ (parseText false (kw "# TYPE m gauge\nm 1 -1\n")).2 = .err
    ∧ (parseText false (kw "# TYPE m gauge\nm 1 1\n")).2 = .eof
    ∧ (parseOM false false false (kw "m 1.0 -0.001\n# EOF\n")).2 = .eof := by decide

/-- C35-F4: the millisecond 1001 is written as `1.001` seconds and read back as 1000. -/
theorem om_timestamp_1001_witness :
    writeOMFloat (divConst (intToF64 1001) 1000) = kw "1.001" ∧ mul1000ToInt (divConst (intToF64 1001) 1000) = 1000 := by decide

/-! ## whole payloads -/

def seriesOf (r : List Entry × Prom.Expo.Fin) : List XS :=
  r.1.filterMap fun e => match e with
    | .series _ l v ts ex st => some ⟨dropEmpty l, v, ts, ex, st⟩
    | _ => none

def metaOf (r : List Entry × Prom.Expo.Fin) : List Meta :=
  r.1.filterMap fun e => match e with
    | .typ n t => some (.typ n t) | .help n t => some (.help n t) | .unit n t => some (.unit n t) | _ => none

def noNegTs (fs : List Family) : Bool := fs.all fun f => f.ms.all fun m => match m.ts with | some t => decide (0 ≤ t) | none => true

/-- `text_roundtrip`: what the judge checks on the real code, as a statement about the model. Not proved in
    general (needs `line_roundtrip_full`, the float round trip, and the exclusion of the known findings:
    whitespace-only help, names needing escapes, label names with a colon). -/
def text_roundtrip_full : Prop :=
  ∀ fs b, wfAll false fs = true → noNegTs fs = true → encodeText fs = some b →
    (parseText false b).2 = .eof ∧ sortXS (seriesOf (parseText false b)) = sortXS (expSeries false false false fs) ∧
    metaOf (parseText false b) = expMeta false fs

def om_roundtrip_full : Prop :=
  ∀ fs b, wfAll true fs = true → encodeOM false fs = some b →
    (parseOM false false false b).2 = .eof ∧ sortXS (seriesOf (parseOM false false false b)) = sortXS (expSeries true false false fs) ∧
    metaOf (parseOM false false false b) = expMeta true fs

/-- the formats agree on the common projection (no exemplars, no start timestamps) -/
def formats_agree_full : Prop :=
  ∀ fs bt bo, wfAll true fs = true → noNegTs fs = true → encodeText fs = some bt → encodeOM false fs = some bo →
    sortXS ((seriesOf (parseText false bt)).map fun x => { x with ex := none, st := 0 }) =
    sortXS ((seriesOf (parseOM false false false bo)).map fun x => { x with ex := none, st := 0 })

/-- a family set exercising quoted UTF-8 names, escapes in label values and help, `le` normalisation,
    the implicit `+Inf` bucket, a timestamp and an exemplar -/
def sampleFams : List Family :=
  [⟨.histogram, kw "rpc.dur_seconds", some (kw "he\\lp\n\"x\""), some (kw "seconds"),
     [{ kind := .h, lbls := [(kw "la.bel", kw "v\"\\\n"), (kw "job", kw "a b")], ts := some 1000, created := none,
        count := 5, sum := 0x4004000000000000,
        buckets := [⟨0xbff0000000000000, 1, 0, none⟩, ⟨0x3fe0000000000000, 5, 0, some ⟨[(kw "trace_id", kw "abc")], 0x3fd0000000000000, some ⟨2, 0⟩⟩⟩] }]⟩,
   ⟨.counter, kw "c_total", none, none, [{ kind := .c, lbls := [], ts := none, created := none, val := 0x4045000000000000 }]⟩]

end Prom.C35
