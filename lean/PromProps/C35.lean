import PromModel.Ingest.OpenMetrics
/-
  C35 — exposition formats are parsed faithfully and consistently (theorems on the model).
-/
namespace Prom.C35
open Prom.Expo

/-- text-format HELP escaping is inverted by the parser's `helpReplacer`. -/
theorem help_unescape_escape (s : Bytes) : unescHelp (escHelp s) = s := by
  induction s with
  | nil => rfl
  | cons c r ih =>
    by_cases h1 : c = 92
    · subst h1; simp [escHelp, unescHelp, ih]
    · by_cases h2 : c = 10
      · subst h2; simp [escHelp, unescHelp, ih]
      · simp only [escHelp, h1, h2, if_false, List.singleton_append]
        rw [unescHelp.eq_def]
        split <;> simp_all

end Prom.C35
