import PromModel.Tsdb.Postings
/-
  C16 — Series selection and label queries follow matcher semantics.
-/
namespace Prom.C16
open Prom.Postings

/-- `Intersect()` of nothing is empty (the reason `PostingsForMatchers` adds all-postings when every
    matcher is subtracting). -/
theorem intersect_nil : intersect [] = [] := rfl

end Prom.C16
