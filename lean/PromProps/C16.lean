import PromProofs.LabelQ
/-
  C16 — Series selection and label queries follow matcher semantics.
  Property theorems only; helper lemmas live in PromProofs/Postings.lean, Pfm.lean and LabelQ.lean.

  Vocabulary: `Sorted p` = strictly increasing refs; `WFix ix` = well-formed index (refs positive and
  strictly increasing, label names/values non-empty, `lvs` enumerates the values in use);
  `WFm m` = well-formed matcher (non-empty name; `pred` is constant true for `.*`, non-emptiness for
  `.+`, emptiness for the empty regex, and enumerated by `setMatches` when those exist) — the theorems
  hold for ARBITRARY predicates `pred` satisfying it; `sat ms s` = every matcher matches the series'
  value for its name, an absent label reading as `""`.
-/
namespace Prom.C16
open Prom.Postings

/-! ## Combinators (any number of inputs) -/

/-- `Seek`: what remains is exactly the part `≥ target`, still strictly increasing. -/
theorem seek_spec {p : Postings} (hp : Sorted p) (t : Nat) :
    Sorted (seek t p) ∧ ∀ y, y ∈ seek t p ↔ y ∈ p ∧ t ≤ y :=
  ⟨sorted_seek hp, fun _ => mem_seek hp⟩

/-- `Intersect(its...)` of one or more strictly increasing lists is strictly increasing and contains
    exactly the refs present in every input. (`Intersect()` of nothing is empty: `intersect_nil`.) -/
theorem intersect_spec {its : List Postings} (hne : its ≠ []) (hs : ∀ p ∈ its, Sorted p) :
    Sorted (intersect its) ∧ ∀ y, y ∈ intersect its ↔ ∀ p ∈ its, y ∈ p :=
  ⟨sorted_intersect hs, mem_intersect hne hs⟩

theorem intersect_nil : intersect [] = [] := rfl

example : intersect [[1, 3, 5, 7], [3, 4, 5, 7], [2, 3, 7]] = [3, 7] := by decide

/-- `Merge(its...)` of any number of strictly increasing lists of positive refs is strictly increasing
    and contains exactly the refs present in some input. -/
theorem merge_spec {its : List Postings} (hs : ∀ p ∈ its, Sorted p) (hpos : ∀ p ∈ its, ∀ y ∈ p, 0 < y) :
    Sorted (merge its) ∧ ∀ y, y ∈ merge its ↔ ∃ p ∈ its, y ∈ p :=
  merge_spec' hs hpos

example : merge [[1, 4], [2, 4, 9], [3]] = [1, 2, 3, 4, 9] := by decide

/-- Why `merge_spec` needs positive refs: `mergedPostings.Next` drops duplicates by comparing with `cur`,
    which starts at 0, so series ref 0 disappears when two or more lists are merged (the head numbers
    series from 1 and block refs are offsets/16 past the header, so ref 0 never occurs). -/
theorem merge_drops_ref_zero_witness : merge [[0, 2], [1]] = [1, 2] := by decide

/-- `Without(full, drop)` is strictly increasing and contains exactly the refs of `full` not in `drop`. -/
theorem without_spec {full drop : Postings} (hf : Sorted full) (hd : Sorted drop) :
    Sorted (without full drop) ∧ ∀ y, y ∈ without full drop ↔ y ∈ full ∧ y ∉ drop :=
  ⟨sorted_without hf, mem_without hf hd⟩

example : without [1, 2, 5, 8, 9] [2, 3, 8] = [1, 5, 9] := by decide

/-! ## PostingsForMatchers -/

/-- Headline: for every well-formed index and every non-empty list of well-formed matchers,
    `PostingsForMatchers` never fails and returns exactly the refs of the series that satisfy every
    matcher (absent label = ""), in index order. -/
theorem pfm_exact {ix : Index} {ms : List Matcher} (wf : WFix ix) (hne : ms ≠ []) (hms : ∀ m ∈ ms, WFm m) :
    postingsForMatchers ix ms = .ok ((ix.series.filter (sat ms)).map (·.ref)) := by
  obtain ⟨p, hp, hsorted, hmem⟩ := pfm_mem wf hne hms
  rw [hp]
  congr 1
  apply sorted_ext hsorted
  · exact List.Pairwise.sublist (List.Sublist.map _ List.filter_sublist) wf.sorted
  · intro y
    rw [hmem]
    simp only [List.mem_map, List.mem_filter]
    constructor
    · rintro ⟨s, hs, rfl, h⟩; exact ⟨s, ⟨hs, h⟩, rfl⟩
    · rintro ⟨s, ⟨hs, h⟩, rfl⟩; exact ⟨s, hs, rfl, h⟩

/-- `ms ≠ []` is needed: with no matcher at all the code returns nothing although every series
    vacuously satisfies the (empty) conjunction. PromQL and the HTTP API reject empty selectors. -/
theorem pfm_no_matchers_witness :
    postingsForMatchers (mkHead [[("a", "x")]]) [] = .ok [] ∧ sat [] ⟨1, [("a", "x")]⟩ = true := by
  constructor <;> rfl

/-- `WFm.nameNe` is needed: a lone matcher with empty name and empty value is taken for the
    all-postings key whatever its type, so `{""!=""}` (which no series satisfies) selects everything. -/
theorem pfm_empty_name_witness :
    let m : Matcher := ⟨"", .ne, "", fun _ => false, []⟩
    postingsForMatchers (mkHead [[("a", "x")], [("b", "y")]]) [m] = .ok [1, 2] ∧
      sat [m] ⟨1, [("a", "x")]⟩ = false := by
  constructor <;> rfl

/-! ## Select -/

/-- `Select`: for both values of `sortSeries` the returned series are exactly the stored series that
    satisfy every matcher; unsorted they come in index order. -/
theorem select_exact {ix : Index} {ms : List Matcher} (wf : WFix ix) (hne : ms ≠ []) (hms : ∀ m ∈ ms, WFm m)
    (sorted : Bool) :
    ∃ ss, select ix sorted ms = .ok ss ∧ (sorted = false → ss = ix.series.filter (sat ms)) ∧
      ∀ s, s ∈ ss ↔ s ∈ ix.series ∧ sat ms s = true := by
  obtain ⟨ss, h1, _, h3, h4⟩ := select_spec wf hne hms sorted
  exact ⟨ss, h1, h3, h4⟩

/-- With `sortSeries` every earlier series compares `labels.Compare ≤ 0` with every later one. -/
theorem select_sorted {ix : Index} {ms : List Matcher} (wf : WFix ix) (hne : ms ≠ []) (hms : ∀ m ∈ ms, WFm m) :
    ∃ ss, select ix true ms = .ok ss ∧ ss.Pairwise (fun a b => labelsLe a.labels b.labels = true) := by
  obtain ⟨ss, h1, h2, _⟩ := select_spec wf hne hms true
  exact ⟨ss, h1, h2 rfl⟩

/-! ## Label names / label values -/

/-- `LabelNames` without limit: strictly increasing (sorted, duplicate-free), sound and complete with
    respect to the series satisfying the matchers (no matchers = all series). -/
theorem label_names_exact {ix : Index} {ms : List Matcher} (wf : WFix ix) (hms : ∀ m ∈ ms, WFm m) :
    ∃ ns, labelNames ix 0 ms = .ok ns ∧ ns.Pairwise (· < ·) ∧
      ∀ n, n ∈ ns ↔ ∃ s ∈ ix.series, sat ms s = true ∧ n ∈ s.labels.map (·.1) :=
  labelNames_spec wf hms

/-- `LabelValues` without limit: strictly increasing (sorted, duplicate-free), sound and complete. -/
theorem label_values_exact {ix : Index} {ms : List Matcher} (wf : WFix ix) (hms : ∀ m ∈ ms, WFm m)
    {name : String} (hn : name ≠ "") (hnd : (ix.lvs name).Nodup) :
    ∃ vs, labelValues ix name 0 ms = .ok vs ∧ vs.Pairwise (· < ·) ∧
      ∀ v, v ∈ vs ↔ ∃ s ∈ ix.series, sat ms s = true ∧ s.labels.lookup name = some v := by
  obtain ⟨vs, h1, _, h3⟩ := labelValues_spec wf hms hn
  obtain ⟨vs', h1', h2'⟩ := labelValues_strict wf hms name hnd
  rw [h1] at h1'
  cases h1'
  exact ⟨vs, h1, h2', h3⟩

/-- Limits: with limit `n > 0` both queries return `min n (size of the unlimited result)` entries, all
    taken from the unlimited result (label names: its first `n`; label values: a sorted subset — in the
    head the truncation happens in insertion order *before* sorting, so it need not be a prefix). -/
theorem limit_prefix {ix : Index} {ms : List Matcher} (wf : WFix ix) (hms : ∀ m ∈ ms, WFm m)
    (name : String) (n : Nat) (hn : 0 < n) :
    (∃ lim unl, labelNames ix n ms = .ok lim ∧ labelNames ix 0 ms = .ok unl ∧
        lim = unl.take n ∧ lim.length = min n unl.length) ∧
    (∃ lim unl, labelValues ix name n ms = .ok lim ∧ labelValues ix name 0 ms = .ok unl ∧
        lim.length = min n unl.length ∧ ∀ v ∈ lim, v ∈ unl) := by
  constructor
  · obtain ⟨lim, unl, h1, h2, h3⟩ := labelNames_limit wf hms n hn
    exact ⟨lim, unl, h1, h2, h3, by rw [h3, List.length_take]⟩
  · obtain ⟨X, h0, h1⟩ := labelValues_limit wf hms name n
    refine ⟨_, _, h1, h0, ?_, ?_⟩
    · have := (truncate_spec n X).1
      have hn' : n ≠ 0 := by omega
      rw [length_sortS, length_sortS, this, if_neg hn']
    · intro v hv
      rw [mem_sortS] at hv ⊢
      exact (truncate_spec n X).2.subset hv

/-- the limited label-values answer need not be a prefix of the unlimited one (head, insertion order) -/
theorem limit_not_prefix_witness :
    let ix := mkHead [[("a", "y")], [("a", "x")]]
    labelValues ix "a" 1 [] = .ok ["y"] ∧ labelValues ix "a" 0 [] = .ok ["x", "y"] := by
  constructor <;> rfl

/-! ## The hypotheses are satisfiable: every index the suite builds is well-formed -/

theorem wfix_mkHead {lsets : List (List (String × String))}
    (h : ∀ ls ∈ lsets, ∀ kv ∈ ls, kv.1 ≠ "" ∧ kv.2 ≠ "") : WFix (mkHead lsets) ∧ ∀ n, ((mkHead lsets).lvs n).Nodup :=
  ⟨wfix_of_renumber lsets h _ (fun _ _ => mem_dedup), fun _ => nodup_dedup _⟩

theorem wfix_mkBlock {lsets : List (List (String × String))}
    (h : ∀ ls ∈ lsets, ∀ kv ∈ ls, kv.1 ≠ "" ∧ kv.2 ≠ "") : WFix (mkBlock lsets) ∧ ∀ n, ((mkBlock lsets).lvs n).Nodup := by
  refine ⟨wfix_of_renumber _ ?_ _ (fun _ _ => mem_sortS.trans mem_dedup), fun _ => ?_⟩
  · intro ls hls
    obtain ⟨s, hs, rfl⟩ := List.mem_map.mp hls
    obtain ⟨ls', hl', rfl⟩ := List.mem_map.mp (mem_sortByLabels.mp hs)
    exact h ls' hl'
  · exact List.nodup_iff_pairwise_ne.mpr ((sortS_strict (nodup_dedup _)).imp (fun h e => by
      rw [e] at h; exact String.lt_irrefl _ h))

example : WFm ⟨"a", .re, "x|y", fun s => s == "x" || s == "y", ["x", "y"]⟩ :=
  ⟨by decide, by simp, by simp, by simp, by intro _ _ s; simp only [List.contains_cons, List.contains_nil, Bool.or_false]⟩

/-- a concrete instance of `pfm_exact`: `{a=~"x|y", b=""}` over three series -/
example :
    let ms : List Matcher := [⟨"a", .re, "x|y", fun s => s == "x" || s == "y", ["x", "y"]⟩,
                              ⟨"b", .eq, "", fun s => s == "", []⟩]
    postingsForMatchers (mkHead [[("a", "x")], [("a", "y"), ("b", "z")], [("a", "z")]]) ms = .ok [1] := by
  rfl

end Prom.C16
