import PromProofs.Pfm
/-
  C16 — Series selection and label queries follow matcher semantics.
  Property theorems only; helper lemmas live in PromProofs/Postings.lean and PromProofs/Pfm.lean.

  Vocabulary: `Sorted p` = strictly increasing refs; `WFix ix` = well-formed index (refs positive and
  strictly increasing, label names/values non-empty, `lvs` enumerates the values in use);
  `WFm m` = well-formed matcher (non-empty name; `pred` is constant true for `.*`, non-emptiness for
  `.+`, emptiness for the empty regex, and enumerated by `setMatches` when those exist) — the theorems
  hold for ARBITRARY predicates `pred` satisfying it; `sat ms s` = every matcher matches the series'
  value for its name, an absent label reading as `""`.
-/
namespace Prom.C16
open Prom.Postings

/-! ## Combinators (any number of inputs) -/

/-- `Seek`: what remains is exactly the part `≥ target`, still strictly increasing. -/
theorem seek_spec {p : Postings} (hp : Sorted p) (t : Nat) :
    Sorted (seek t p) ∧ ∀ y, y ∈ seek t p ↔ y ∈ p ∧ t ≤ y :=
  ⟨sorted_seek hp, fun _ => mem_seek hp⟩

/-- `Intersect(its...)` of one or more strictly increasing lists is strictly increasing and contains
    exactly the refs present in every input. (`Intersect()` of nothing is empty: `intersect_nil`.) -/
theorem intersect_spec {its : List Postings} (hne : its ≠ []) (hs : ∀ p ∈ its, Sorted p) :
    Sorted (intersect its) ∧ ∀ y, y ∈ intersect its ↔ ∀ p ∈ its, y ∈ p :=
  ⟨sorted_intersect hs, mem_intersect hne hs⟩

theorem intersect_nil : intersect [] = [] := rfl

example : intersect [[1, 3, 5, 7], [3, 4, 5, 7], [2, 3, 7]] = [3, 7] := by decide

/-- `Merge(its...)` of any number of strictly increasing lists of positive refs is strictly increasing
    and contains exactly the refs present in some input. -/
theorem merge_spec {its : List Postings} (hs : ∀ p ∈ its, Sorted p) (hpos : ∀ p ∈ its, ∀ y ∈ p, 0 < y) :
    Sorted (merge its) ∧ ∀ y, y ∈ merge its ↔ ∃ p ∈ its, y ∈ p :=
  merge_spec' hs hpos

example : merge [[1, 4], [2, 4, 9], [3]] = [1, 2, 3, 4, 9] := by decide

/-- Why `merge_spec` needs positive refs: `mergedPostings.Next` drops duplicates by comparing with `cur`,
    which starts at 0, so series ref 0 disappears when two or more lists are merged (the head numbers
    series from 1 and block refs are offsets/16 past the header, so ref 0 never occurs). -/
theorem merge_drops_ref_zero_witness : merge [[0, 2], [1]] = [1, 2] := by decide

/-- `Without(full, drop)` is strictly increasing and contains exactly the refs of `full` not in `drop`. -/
theorem without_spec {full drop : Postings} (hf : Sorted full) (hd : Sorted drop) :
    Sorted (without full drop) ∧ ∀ y, y ∈ without full drop ↔ y ∈ full ∧ y ∉ drop :=
  ⟨sorted_without hf, mem_without hf hd⟩

example : without [1, 2, 5, 8, 9] [2, 3, 8] = [1, 5, 9] := by decide

/-! ## PostingsForMatchers -/

/-- Headline: for every well-formed index and every non-empty list of well-formed matchers,
    `PostingsForMatchers` never fails and returns exactly the refs of the series that satisfy every
    matcher (absent label = ""), in index order. -/
theorem pfm_exact {ix : Index} {ms : List Matcher} (wf : WFix ix) (hne : ms ≠ []) (hms : ∀ m ∈ ms, WFm m) :
    postingsForMatchers ix ms = .ok ((ix.series.filter (sat ms)).map (·.ref)) := by
  obtain ⟨p, hp, hsorted, hmem⟩ := pfm_mem wf hne hms
  rw [hp]
  congr 1
  apply sorted_ext hsorted
  · exact List.Pairwise.sublist (List.Sublist.map _ List.filter_sublist) wf.sorted
  · intro y
    rw [hmem]
    simp only [List.mem_map, List.mem_filter]
    constructor
    · rintro ⟨s, hs, rfl, h⟩; exact ⟨s, ⟨hs, h⟩, rfl⟩
    · rintro ⟨s, ⟨hs, h⟩, rfl⟩; exact ⟨s, hs, rfl, h⟩

/-- `ms ≠ []` is needed: with no matcher at all the code returns nothing although every series
    vacuously satisfies the (empty) conjunction. PromQL and the HTTP API reject empty selectors. -/
theorem pfm_no_matchers_witness :
    postingsForMatchers (mkHead [[("a", "x")]]) [] = .ok [] ∧ sat [] ⟨1, [("a", "x")]⟩ = true := by
  constructor <;> rfl

/-- `WFm.nameNe` is needed: a lone matcher with empty name and empty value is taken for the
    all-postings key whatever its type, so `{""!=""}` (which no series satisfies) selects everything. -/
theorem pfm_empty_name_witness :
    let m : Matcher := ⟨"", .ne, "", fun _ => false, []⟩
    postingsForMatchers (mkHead [[("a", "x")], [("b", "y")]]) [m] = .ok [1, 2] ∧
      sat [m] ⟨1, [("a", "x")]⟩ = false := by
  constructor <;> rfl

end Prom.C16
