import PromModel.Remote.WriteHandler
import PromProofs.RWCodec
import PromProofs.RWHandler
/-
  C41 — Remote write receivers store exactly what they report as written.
  Property theorems about the transcribed receiver `PromModel/Remote/WriteHandler.lean`
  (on the C02 appender rules of `PromModel/Tsdb/Appendable.lean`).
-/
namespace Prom.C41
open Prom Prom.Admit Prom.RW

/-! ### codecs -/

/-- `symbols_roundtrip`: starting from any well-formed table (no duplicates, `""` at index 0 — in
    particular `NewSymbolTable()`), `SymbolizeLabels` keeps the table well-formed, only ever appends to it,
    and the returned references decode — in the resulting table and in every later extension of it (more
    series symbolized into the same request) — to exactly the input pairs. -/
theorem symbols_roundtrip {α : Type} [DecidableEq α] (t : SymTab α) (e : α) (h : t.WF e)
    (ls : List (α × α)) (ext : List α) :
    (t.symbolizeLabels ls).1.WF e ∧
    (∃ added, (t.symbolizeLabels ls).1.strings = t.strings ++ added) ∧
    desymRaw ((t.symbolizeLabels ls).1.strings ++ ext) (t.symbolizeLabels ls).2 = .ok ls :=
  ⟨symbolizeLabels_wf t e ls h, symbolizeLabels_prefix t ls, symbolizeLabels_roundtrip t ls ext⟩

example : (SymTab.new "").WF "" := SymTab.new_wf ""

/-- interning is idempotent: the same string gets the same reference and the table does not grow -/
theorem symbolize_idempotent {α : Type} [DecidableEq α] (t : SymTab α) (e s : α) (h : t.WF e) :
    (t.symbolize s).1.symbolize s = ((t.symbolize s).1, (t.symbolize s).2) :=
  symbolize_idem t e s h

/-- `v2_label_codec_roundtrip`: a sorted label set symbolized into a fresh table and decoded by
    `desymbolizeLabels` (bounds checks, `b.Sort()`) comes back unchanged. -/
theorem v2_label_codec_roundtrip (ls : Labels) (h : NameSorted ls) :
    desymbolize ((SymTab.new "").symbolizeLabels ls).1.strings ((SymTab.new "").symbolizeLabels ls).2 = .ok ls :=
  desymbolize_symbolize ls h

example : NameSorted [("5f5f6e616d655f5f", "6d31"), ("6a6f62", "61")] := by
  unfold NameSorted; decide

/-- malformed references never decode: an odd number of references, or any reference outside the table -/
theorem desymbolize_rejects {α : Type} [DecidableEq α] (symbols : List α) (refs : List Nat) :
    (refs.length % 2 = 1 → desymRaw symbols refs = .error .oddLen) ∧
    (∀ r ∈ refs, symbols.length ≤ r → ∃ e, desymRaw symbols refs = .error e) :=
  ⟨desymRaw_odd symbols refs, fun r hr hb => desymRaw_out_of_range symbols refs r hr hb⟩

/-! ### status classes -/

/-- `status_class_spec` (v2): 500 iff a non-classified appender error ended the loop — then the reported
    counts are zero and nothing is committed (the head is the one the loop left: samples untouched, see
    `core_stores_nothing`); otherwise 400 iff at least one bad-request error was collected, else 204; in
    both non-5xx cases the counts are the loop's counts and the appender is committed. -/
theorem status_class_spec (r : Run) :
    (r.fatal = true → (finishV2 r).status = 500 ∧ (finishV2 r).samples = 0 ∧ (finishV2 r).histograms = 0 ∧
        (finishV2 r).exemplars = 0 ∧ (finishV2 r).head = r.head) ∧
    (r.fatal = false → ((finishV2 r).status = 400 ↔ r.errs ≠ []) ∧ ((finishV2 r).status = 204 ↔ r.errs = []) ∧
        (finishV2 r).samples = r.samples ∧ (finishV2 r).histograms = r.histograms ∧
        (finishV2 r).exemplars = r.exemplars ∧ (finishV2 r).head = r.app.commit r.head) := by
  constructor
  · intro h; simp [finishV2, h]
  · intro h
    cases he : r.errs <;> simp [finishV2, h, he]

/-- `status_class_spec` (v1): the request fails as a whole with 400 for out-of-order / out-of-bounds /
    duplicate / too-old samples and invalid histograms, 500 for anything else, and nothing is committed;
    otherwise 204 and the appender is committed. -/
theorem status_class_spec_v1 (r : Run) :
    (r.fatal = false → (finishV1 r).status = 204 ∧ (finishV1 r).head = r.app.commit r.head) ∧
    (r.fatal = true → (finishV1 r).head = r.head ∧
      ∀ e rest, r.errs = e :: rest →
        ((finishV1 r).status = 400 ↔ e ∈ [ErrC.ooo, .oob, .dup, .tooOld, .histInvalid]) ∧
        ((finishV1 r).status = 500 ↔ e ∉ [ErrC.ooo, .oob, .dup, .tooOld, .histInvalid])) := by
  constructor
  · intro h; simp [finishV1, h]
  · intro h
    refine ⟨by simp [finishV1, h], ?_⟩
    intro e rest he
    cases e <;> simp [finishV1, h, he, v1Status]

/-! ### invalid series -/

/-- `invalid_series_rejected_as_spec`: a series rejected by label decoding / validation (bad symbol or
    metadata reference, missing or invalid metric name, invalid or duplicate label names, no samples)
    contributes nothing — head, appender (hence what `Commit` will store), exemplars, the three counters are
    untouched — except one bad-request error; the loop goes on with the remaining series, which are
    processed exactly as if the invalid one had not been sent; and unless a 5xx intervenes the answer
    is 400. -/
theorem invalid_series_rejected_as_spec (fl : Flags) (s : SeriesD) (b : Bad) (hb : s.bad = some b)
    (rest : List SeriesD) (r : Run) (hf : r.fatal = false) :
    v2Series fl s r = { r with errs := r.errs ++ [ErrC.ofBad b] } ∧
    coreV2 fl (s :: rest) r = coreV2 fl rest { r with errs := r.errs ++ [ErrC.ofBad b] } ∧
    ((coreV2 fl (s :: rest) r).fatal = false → (finishV2 (coreV2 fl (s :: rest) r)).status = 400) := by
  have h1 : v2Series fl s r = { r with errs := r.errs ++ [ErrC.ofBad b] } := by simp [v2Series, hb]
  have h2 : coreV2 fl (s :: rest) r = coreV2 fl rest { r with errs := r.errs ++ [ErrC.ofBad b] } := by
    simp [coreV2, h1, hf]
  refine ⟨h1, h2, ?_⟩
  intro hnf
  have hne : (coreV2 fl (s :: rest) r).errs ≠ [] := by
    rw [h2]; exact coreV2_errs_ne fl rest _ (by simp)
  exact ((status_class_spec _).2 hnf).1.mpr hne

example : ({ bad := some .dupLabel, key := "k", samples := [], hists := [], exs := [] } : SeriesD).bad
    = some .dupLabel := rfl

/-! ### nothing is stored before `Commit`; v1 is all-or-nothing -/

/-- the append loops never touch stored samples: whatever happens, every series of the head holds after
    the loop what it held before (only empty series may have been created) -/
theorem core_stores_nothing (fl : Flags) (req : List SeriesD) (r : Run) (n : String) :
    ((coreV2 fl req r).head.store.get n) = (r.head.store.get n) ∧
    ((coreV1 req r).head.store.get n) = (r.head.store.get n) :=
  ⟨coreV2_store fl req r n, coreV1_store req r n⟩

/-- `v1_all_or_nothing`: a v1 request answered with anything but 204 leaves every series exactly as it
    was; a v2 request answered 500 likewise (rollback) and reports zero counts. What v1 does *not*
    guarantee is the converse — see `written_gt_stored_witness`: 204 does not mean everything was stored. -/
theorem v1_all_or_nothing (head : Head) (ring : Exemplars.Ring) (hists : List String)
    (req : List SeriesD) (n : String) :
    ((writeV1 head ring hists req).status ≠ 204 → (writeV1 head ring hists req).head.store.get n = head.store.get n) ∧
    (∀ fl, (writeV2 fl head ring hists req).status = 500 →
      (writeV2 fl head ring hists req).head.store.get n = head.store.get n ∧
      (writeV2 fl head ring hists req).samples = 0 ∧ (writeV2 fl head ring hists req).histograms = 0 ∧
      (writeV2 fl head ring hists req).exemplars = 0) := by
  constructor
  · intro hs
    unfold writeV1 at *
    cases hf : (coreV1 req { head := head, ring := ring, hists := hists }).fatal with
    | false => exact absurd ((status_class_spec_v1 _).1 hf).1 hs
    | true =>
      rw [((status_class_spec_v1 _).2 hf).1]
      exact coreV1_store req _ n
  · intro fl hs
    unfold writeV2 at *
    cases hf : (coreV2 fl req { head := head, ring := ring, hists := hists }).fatal with
    | false =>
      have := (status_class_spec _).2 hf
      cases he : (coreV2 fl req { head := head, ring := ring, hists := hists }).errs with
      | nil => rw [(this.2.1).mpr he] at hs; exact absurd hs (by decide)
      | cons a l => rw [(this.1).mpr (by simp [he])] at hs; exact absurd hs (by decide)
    | true =>
      have := (status_class_spec _).1 hf
      rw [this.2.2.2.2]
      exact ⟨coreV2_store fl req _ n, this.2.1, this.2.2.1, this.2.2.2.1⟩

/-! ### written = stored, where it holds -/

/-- The headline statement at full strength: the samples counter equals the number of samples the
    request added to the storage.  It is FALSE for the code as it stands — `written_gt_stored_witness`. -/
def WrittenEqStoredFull : Prop :=
  ∀ (fl : Flags) (head : Head) (ring : Exemplars.Ring) (s : SeriesD), s.bad = none → s.hists = [] →
    (writeV2 fl head ring [] [s]).samples + ((head.store.get s.key).inorder.length) =
      ((writeV2 fl head ring [] [s]).head.store.get s.key).inorder.length

/-- `written_eq_stored_partial` (the commit half, where the counted samples can get lost): when the samples
    the appender accepted for a series — each accepted `Append` pushes one sample and bumps the counter by
    one — are inside the window, strictly increasing in time and newer than the newest stored sample of the
    series (floats and histograms alike), `Commit` stores every one of them, in order, and touches no other
    series: written = stored.  Missing for the full statement: the link `counter = |accepted|` through the
    handler loops for several series, start-timestamp zero samples; and it is false without the ordering
    hypothesis (`written_gt_stored_witness`). -/
theorem written_eq_stored_partial (h : Head) (a : App) (hl : a.live = true) (key : String)
    (xs : List Sample) (hp : a.pend = xs.map fun x => (key, x))
    (hfresh : FreshFor a.w (h.store.get key).view xs) :
    ((a.commit h).store.get key).inorder = xs.reverse ++ (h.store.get key).inorder ∧
    ((a.commit h).store.get key).inorder.length = (h.store.get key).inorder.length + a.pend.length ∧
    ∀ m, m ≠ key → (a.commit h).store.get m = h.store.get m := by
  have := commitList_fresh a.w h.capMax key xs { store := h.store } hfresh
  unfold App.commit
  simp only [hl, hp, Bool.not_true, Bool.false_eq_true, if_false]
  refine ⟨this.1, ?_, this.2⟩
  rw [this.1]; simp; omega

example : FreshFor ⟨900, 1000, 0⟩ ({ inorder := [⟨1000, .f, 7⟩] } : Series).view
    [⟨1001, .f, 1⟩, ⟨1005, .h, 2⟩] := by
  simp [FreshFor, Series.view]

/-! ### finding F9 -/

def f9Head : Head := { oooWin := 0, chunkRange := 1000, capMax := 32 }
def f9Req : List SeriesD :=
  [{ bad := none, key := "s", samples := [⟨1000, 1, 0⟩, ⟨1000, 2, 0⟩, ⟨999, 3, 0⟩], hists := [], exs := [] }]

/-- `written_gt_stored_witness` (finding F9): one series with samples `(now,1),(now,2),(now−1,3)`:
    every `Append` succeeds against the head as it was (the series is empty), so the answer is 204 with
    `Samples-Written: 3`; the commit-time re-check then drops the second (duplicate timestamp, other value)
    and the third (out of order): one sample is stored. -/
theorem written_gt_stored_witness :
    (writeV2 {} f9Head (Exemplars.Ring.new 0 0) [] f9Req).status = 204 ∧
    (writeV2 {} f9Head (Exemplars.Ring.new 0 0) [] f9Req).samples = 3 ∧
    ((writeV2 {} f9Head (Exemplars.Ring.new 0 0) [] f9Req).head.store.get "s").inorder = [⟨1000, .f, 1⟩] ∧
    ((writeV2 {} f9Head (Exemplars.Ring.new 0 0) [] f9Req).head.store.get "s").oooHead = none := by
  decide

/-- the same request through protocol 1.0: acknowledged with 204, one sample stored -/
theorem v1_ack_gt_stored_witness :
    (writeV1 f9Head (Exemplars.Ring.new 0 0) [] f9Req).status = 204 ∧
    ((writeV1 f9Head (Exemplars.Ring.new 0 0) [] f9Req).head.store.get "s").inorder = [⟨1000, .f, 1⟩] := by
  decide

theorem written_eq_stored_full_witness : ¬ WrittenEqStoredFull := by
  intro h
  have := h {} f9Head (Exemplars.Ring.new 0 0) f9Req.head! rfl rfl
  revert this
  decide

/-! ### finding C41-F4 -/

/-- Finding C41-F4, the code as found (`App.appendSTG false`): a sample beyond `now + 10 min` is rejected by
    `remoteWriteAppender.Append`, but its synthetic start-timestamp zero sample (equally far in the future)
    is accepted by the unbounded `AppendSTZeroSample` and will be committed, and the fresh head is initialised
    to the far-future time (every normal sample is out of bounds afterwards). Which appender /repo has is
    `repoFixedFutureST` (fixes/C41-F4.patch). -/
theorem future_st_zero_witness :
    (App.append f9Head {} "s" ⟨futureLimit + 2000, .f, 1⟩ false).2.2 = some .oobFuture ∧
    (App.appendSTG false f9Head {} "s" (futureLimit + 2000) (futureLimit + 1900) ⟨futureLimit + 1900, .f, 0⟩).2.pend
      = [("s", ⟨futureLimit + 1900, .f, 0⟩)] ∧
    (App.appendSTG false f9Head {} "s" (futureLimit + 2000) (futureLimit + 1900) ⟨futureLimit + 1900, .f, 0⟩).1.maxTime
      = futureLimit + 2000 := by
  decide

/-- The repaired appender (`App.appendSTG true`): for a sample or start timestamp beyond the bound nothing
    happens at all (no pending zero sample, the head is not initialised to a far-future time). -/
theorem future_st_zero_fixed (h : Head) (a : App) (key : String) (t st : Int) (z : Sample)
    (hfut : t > futureLimit ∨ st > futureLimit) :
    App.appendSTG true h a key t st z = (h, a) := by
  rcases hfut with ht | hst <;> simp [App.appendSTG, *]

end Prom.C41
