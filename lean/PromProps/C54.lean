import PromModel.Remote.Fanout
import PromModel.Suites.FanoutSuite
import PromProofs.Fanout
/-!
  Property C54 — Fanout storage merges primary and secondary data with best-effort secondaries.

  All theorems are about the model `Prom.Fanout` (PromModel/Remote/Fanout.lean), for ANY number of
  secondaries (lists, induction), ANY arrival order `ord` of the concurrent Selects and ANY placement of
  the scripted failures.  The model is tied to storage/fanout.go, secondary.go, merge.go by the `fanout`
  correspondence suite on every run.

  * query path: `merged_eq_union_of_healthy` (+ `union_is_sorted_dedup_union`, `union_samples_sound`),
    `failed_secondary_contributes_nothing`, `secondary_first_next_failure_is_warning`,
    `primary_failure_fails_query`, `primary_first_failure_fails_query`, `secondary_creation_failure_fails_querier`,
    `late_failure_witness` (finding F10: the statement "a failing secondary never fails the query and
    contributes nothing" is FALSE for failures at the 2nd or later `Next`; `secondary_never_fails_query_full`
    keeps the full statement visible, `secondary_never_fails_query_partial` proves it for the failure
    placements `secondaryQuerier` handles).
  * append path: `append_reaches_all`, `commit_reaches_all`, `primary_commit_fail_no_secondary_commit`,
    `secondary_commit_fail_stops_later_commits`.
-/
namespace Prom.C54
open Prom.Fanout

/-! ## query path -/

/-- A set script that never fails. -/
def HealthySet (s : SetScript) : Prop := s.selErr = false ∧ s.failAt = none

/-- A fresh secondary querier (no `Next` called yet) all of whose sets are healthy. -/
def HealthySec (s : SecQ) : Prop := s.lazy = none ∧ ∀ x ∈ s.sets, HealthySet x

theorem healthy_emitted (s : SetScript) (h : HealthySet s) :
    s.emitted = s.data ∧ s.errs = false ∧ s.firstFails = false := by
  obtain ⟨h1, h2⟩ := h
  simp [SetScript.emitted, SetScript.errs, SetScript.firstFails, h1, h2]

private theorem healthy_any (s : SecQ) (h : HealthySec s) : s.sets.any (·.firstFails) = false := by
  rw [List.any_eq_false]
  intro x hx
  simp [(healthy_emitted x (h.2 x hx)).2.2]

private theorem getD_healthy (sets : List SetScript) (h : ∀ x ∈ sets, HealthySet x) (j : Nat) :
    HealthySet (sets.getD j default) := by
  rw [List.getD_eq_getElem?_getD]
  cases hj : sets[j]? with
  | none => exact ⟨rfl, rfl⟩
  | some x => exact h x (List.mem_of_getElem? hj)

/-- What a healthy secondary looks like after its probe: it contributes exactly its data, no error, no warning. -/
theorem healthy_probe (s : SecQ) (h : HealthySec s) (c j : Nat) :
    (s.probe c).contrib j = (s.sets.getD j default).data ∧ (s.probe c).errsAt j = false ∧
      (s.probe c).warnsAt j = false := by
  have hany := healthy_any s h
  have hst : (s.probe c).state j = s.sets[j]?.map fun x => if x.data.isEmpty then LazySt.quiet else LazySt.real := by
    simp only [SecQ.probe, h.1, SecQ.state, Option.bind_some]
    exact probeStates_healthy c s.sets hany j
  have hsets : (s.probe c).sets = s.sets := s.probe_sets c
  have hg := healthy_emitted _ (getD_healthy s.sets h.2 j)
  refine ⟨?_, ?_, ?_⟩
  · simp only [SecQ.contrib, hst, hsets, hg.1]
    cases hj : s.sets[j]? with
    | none => simp [List.getD_eq_getElem?_getD, hj]; rfl
    | some x =>
      simp only [Option.map_some, List.getD_eq_getElem?_getD, hj, Option.getD_some]
      by_cases he : x.data.isEmpty = true
      · simp [he, List.isEmpty_iff.1 he]
      · simp [he]
  · have hg2 := hg.2.1
    rw [List.getD_eq_getElem?_getD] at hg2
    simp [SecQ.errsAt, hsets, hg2]
  · simp only [SecQ.warnsAt, hst]
    cases s.sets[j]? with
    | none => simp
    | some x => by_cases he : x.data = [] <;> simp [he]

/-- **No failures: the result is the merge of everything, whatever the arrival order.**
    With a healthy primary and healthy fresh secondaries, all of which take part in the Select
    (`ord` mentions every storage), draining Select `j` yields the merge of the primary's and every
    secondary's selected data, no error and no warning. -/
theorem merged_eq_union_of_healthy (prim : SetScript) (secs : List SecQ) (ord : List Nat) (j : Nat)
    (hp : HealthySet prim) (hs : ∀ s ∈ secs, HealthySec s)
    (hord : ∀ p, p < secs.length → ord.contains (p + 1) = true) :
    (drain prim secs ord j).2 =
      { series := mergeAll (prim.data :: secs.map fun s => (s.sets.getD j default).data),
        err := none, warn := [] } := by
  obtain ⟨he, hne, hff⟩ := healthy_emitted prim hp
  have hget : ∀ p : Nat, (probeAll ord j 1 secs)[p]? = (secs[p]?).map fun (s : SecQ) => s.probe j := by
    intro p
    rw [probeAll_getElem?]
    cases hsp : secs[p]? with
    | none => rfl
    | some s =>
      have hlt : p < secs.length := by
        rcases Nat.lt_or_ge p secs.length with h | h
        · exact h
        · rw [List.getElem?_eq_none h] at hsp; cases hsp
      have : (1 + p) ∈ ord := by rw [Nat.add_comm]; simpa using hord p hlt
      simp [this]
  have hmap : probeAll ord j 1 secs = secs.map fun s => s.probe j := by
    apply List.ext_getElem?
    intro p
    rw [hget, List.getElem?_map]
  simp only [drain, hff, reached, Bool.false_eq_true, if_false, hmap, he]
  have h1 : (secs.map fun s => s.probe j).map (·.contrib j) = secs.map fun s => (s.sets.getD j default).data := by
    rw [List.map_map]
    apply List.map_congr_left
    intro s hs'
    exact (healthy_probe s (hs s hs') j j).1
  have h2 : firstErr prim (secs.map fun s => s.probe j) j ord = none := by
    simp only [firstErr, List.find?_eq_none]
    intro idx _
    cases idx with
    | zero => simp [errOf, hne]
    | succ p =>
      simp only [errOf, List.getElem?_map]
      cases hsp : secs[p]? with
      | none => simp
      | some s => simp [(healthy_probe s (hs s (List.mem_of_getElem? hsp)) j j).2.1]
  have h3 : warnIdx j 1 (secs.map fun s => s.probe j) = [] := by
    apply warnIdx_nil
    intro s' hs'
    obtain ⟨s, hs'', rfl⟩ := List.mem_map.1 hs'
    exact (healthy_probe s (hs s hs'') j j).2.2
  rw [h1, h2, h3]

example : HealthySec { sets := [{ data := [⟨1, [(0, 5)]⟩], selErr := false, failAt := none }], lazy := none } :=
  ⟨rfl, by intro x hx; simp at hx; subst hx; exact ⟨rfl, rfl⟩⟩

/-- The merge is the **sorted, de-duplicated union** of the label sets: strictly increasing label ids
    (every series exactly once) and a label id occurs iff some input has it. -/
theorem union_is_sorted_dedup_union (ls : List (List Series)) :
    ((mergeAll ls).map fun s => (s.lid : Int)).Pairwise (· < ·) ∧
    ∀ k : Int, k ∈ (mergeAll ls).map (fun s => (s.lid : Int)) ↔ ∃ l ∈ ls, k ∈ l.map (fun s => (s.lid : Int)) :=
  ⟨mergeAll_sorted ls, mergeAll_lids ls⟩

/-- The merge invents nothing: every sample of a merged series is a sample of an input series with the
    same label set. -/
theorem union_samples_sound (ls : List (List Series)) (s : Series) (hs : s ∈ mergeAll ls)
    (x : Sample) (hx : x ∈ s.samples) : ∃ l ∈ ls, ∃ s' ∈ l, s'.lid = s.lid ∧ x ∈ s'.samples :=
  mergeAll_samples_from ls s hs x hx

/-- Merging two sample lists keeps exactly the union of the timestamps, each once. -/
theorem chained_merge_dedups (a b : List Sample) (hb : (b.map (·.1)).Pairwise (· < ·)) :
    ((mergeSamples a b).map (·.1)).Pairwise (· < ·) ∧
    ∀ t, t ∈ (mergeSamples a b).map (·.1) ↔ t ∈ a.map (·.1) ∨ t ∈ b.map (·.1) :=
  ⟨mergeSamples_sorted a b hb, mergeSamples_ts a b⟩

/-- **A failed secondary contributes nothing** — for any number of secondaries in any probing state
    reachable by `drain` (`WF`), any arrival order and any Select: if the primary's first `Next` succeeds,
    the drained series are the merge of the primary and of the secondaries that did NOT fail at
    Select / first `Next` of any of their sets, and the error (if any) is never a failed secondary's. -/
theorem failed_secondary_contributes_nothing (prim : SetScript) (secs : List SecQ) (ord : List Nat) (j : Nat)
    (hwf : ∀ s ∈ secs, s.WF) (hp : prim.firstFails = false) :
    (drain prim secs ord j).2.series =
      mergeAll (prim.emitted :: ((drain prim secs ord j).1.filter fun s => !s.failed).map (·.contrib j))
    ∧ ∀ p s, (drain prim secs ord j).1[p]? = some s → s.failed = true →
        (drain prim secs ord j).2.err ≠ some (p + 1) := by
  have hwf' := probeAll_wf (reached ord prim.firstFails) j 1 secs hwf
  simp only [drain, hp, Bool.false_eq_true, if_false]
  constructor
  · show mergeSeries _ (mergeAll _) = mergeSeries _ (mergeAll _)
    rw [mergeAll_map_filter (fun s : SecQ => s.contrib j) (fun s => !s.failed)]
    intro s hs hf
    exact (s.failed_contrib (hwf' s (by simpa [hp] using hs)) (by simpa using hf) j).1
  · intro p s hps hf herr
    have := List.find?_some herr
    simp only [errOf, hps] at this
    have hs : s ∈ probeAll (reached ord false) j 1 secs := List.mem_of_getElem? hps
    rw [(s.failed_contrib (hwf' s (by simpa [hp] using hs)) hf j).2] at this
    cases this

/-- **…and yields a warning.** A fresh secondary with a set failing at Select / first `Next`, taking part
    in the Select being drained (`p+1 ∈ ord`, Select `j` exists), puts a warning — not an error — on the
    drained set, provided the primary's first `Next` succeeds. -/
theorem secondary_first_next_failure_is_warning (prim : SetScript) (secs : List SecQ) (ord : List Nat) (j p : Nat)
    (s : SecQ) (hp : prim.firstFails = false) (hs : secs[p]? = some s) (hfresh : s.lazy = none)
    (hf : s.failed = true) (hj : j < s.sets.length) (hord : ord.contains (p + 1) = true) :
    (p + 1) ∈ (drain prim secs ord j).2.warn ∧ (drain prim secs ord j).2.err ≠ some (p + 1) := by
  have hget : (probeAll ord j 1 secs)[p]? = some (s.probe j) := by
    rw [probeAll_getElem?, hs]
    have : (1 + p) ∈ ord := by rw [Nat.add_comm]; simpa using hord
    simp [this]
  have hw : (s.probe j).warnsAt j = true := by
    simp only [SecQ.warnsAt, SecQ.state, SecQ.probe, hfresh, Option.bind_some]
    simpa using probeStates_warn j s.sets hf hj
  constructor
  · simp only [drain, hp, Bool.false_eq_true, if_false, reached]
    have := mem_warnIdx j 1 _ p _ hget hw
    rwa [Nat.add_comm] at this
  · intro herr
    simp only [drain, hp, Bool.false_eq_true, if_false, reached] at herr
    have := List.find?_some herr
    simp only [errOf, hget] at this
    have hwf : (s.probe j).WF := s.probe_wf j (Or.inl hfresh)
    rw [((s.probe j).failed_contrib hwf (by rw [s.probe_failed]; exact hf) j).2] at this
    cases this

example : (drain { data := [⟨1, [(0, 1)]⟩], selErr := false, failAt := none }
    [{ sets := [{ data := [⟨2, [(0, 2)]⟩], selErr := false, failAt := some 1 }], lazy := none }] [1, 0] 0).2 =
    { series := [⟨1, [(0, 1)]⟩], err := none, warn := [1] } := by decide

/-- **The primary failing at Select / first `Next` fails the query**: error-only result. -/
theorem primary_first_failure_fails_query (prim : SetScript) (secs : List SecQ) (ord : List Nat) (j : Nat)
    (h : prim.firstFails = true) :
    (drain prim secs ord j).2 = { series := [], err := some 0, warn := [] } := by
  simp [drain, h]

/-- **Any primary failure reached by the iteration fails the query** (with some error), whatever the
    secondaries do; with no secondary the error is the primary's. -/
theorem primary_failure_fails_query (prim : SetScript) (secs : List SecQ) (ord : List Nat) (j : Nat)
    (h : prim.errs = true) (hord : 0 ∈ ord) :
    ((drain prim secs ord j).2.err).isSome = true ∧ (drainPrimaryOnly prim).err = some 0 := by
  constructor
  · by_cases hf : prim.firstFails = true
    · simp [drain, hf]
    · have hf' : prim.firstFails = false := by simpa using hf
      simp only [drain, hf', firstErr, Bool.false_eq_true, if_false]
      rw [List.find?_isSome]
      exact ⟨0, hord, by simp [errOf, h]⟩
  · simp [drainPrimaryOnly, h]

/-- **A secondary whose `Querier()` fails makes `fanout.Querier` fail** with that secondary's error,
    after closing the primary and exactly the secondaries created before it (any number of secondaries). -/
theorem secondary_creation_failure_fails_querier (prim : Storage) (before after : List Storage) (bad : Storage)
    (hp : prim.createFails = false) (hb : ∀ s ∈ before, s.createFails = false) (hbad : bad.createFails = true) :
    mkQuerier prim (before ++ bad :: after) = some (before.length + 1, List.range (before.length + 1)) := by
  have gen : ∀ (i : Nat) (before : List Storage), (∀ s ∈ before, s.createFails = false) →
      mkQuerierSecs i (before ++ bad :: after) = some (i + before.length, List.range (i + before.length)) := by
    intro i before
    induction before generalizing i with
    | nil => intro _; simp [mkQuerierSecs, hbad]
    | cons x xs ih =>
      intro h
      have hx : x.createFails = false := h x (by simp)
      simp only [List.cons_append, mkQuerierSecs, hx, Bool.false_eq_true, if_false]
      rw [ih (i + 1) (fun s hs => h s (by simp [hs]))]
      have e : i + 1 + xs.length = i + (xs.length + 1) := by omega
      simp only [List.length_cons, e]
  simp only [mkQuerier, hp, Bool.false_eq_true, if_false]
  rw [gen 1 before hb]
  simp [Nat.add_comm]

/-- …and a primary creation failure fails it, closing nothing. -/
theorem primary_creation_failure_fails_querier (prim : Storage) (secs : List Storage)
    (h : prim.createFails = true) : mkQuerier prim secs = some (0, []) := by
  simp [mkQuerier, h]

/-- Label queries: a primary failure is an error. -/
theorem label_query_primary_failure (fault : Fault) (get : Storage → List String) (prim : Storage)
    (secs : List Storage) (h : prim.faults.contains fault = true) :
    (labelQuery fault get prim secs).err = some 0 := by
  have h' : fault ∈ prim.faults := by simpa using h
  simp [labelQuery, h']

/-- Label queries: secondary failures are warnings, never errors. -/
theorem label_query_secondary_failure_is_warning (fault : Fault) (get : Storage → List String) (prim : Storage)
    (secs : List Storage) (h : prim.faults.contains fault = false) :
    (labelQuery fault get prim secs).err = none := by
  have h' : ¬ fault ∈ prim.faults := by simpa using h
  simp [labelQuery, h']

/-! ### finding F10: failures at the 2nd or later `Next` -/

/-- The full best-effort statement: a secondary with ANY failure never fails the query. FALSE (F10). -/
def secondary_never_fails_query_full : Prop :=
  ∀ (prim : SetScript) (secs : List SecQ) (ord : List Nat) (j p : Nat),
    HealthySet prim → (∀ s ∈ secs, s.lazy = none) → (drain prim secs ord j).2.err ≠ some (p + 1)

/-- What holds: the statement restricted to secondaries that fail where `secondaryQuerier` looks
    (Select / first `Next` of any of their sets); see `failed_secondary_contributes_nothing`.
    Missing for the full statement: failures at the k-th `Next`, k ≥ 2 (`late_failure_witness`). -/
theorem secondary_never_fails_query_partial (prim : SetScript) (secs : List SecQ) (ord : List Nat) (j p : Nat)
    (s : SecQ) (hp : prim.firstFails = false) (hfresh : ∀ s ∈ secs, s.lazy = none)
    (hs : (drain prim secs ord j).1[p]? = some s) (hf : s.failed = true) :
    (drain prim secs ord j).2.err ≠ some (p + 1) :=
  (failed_secondary_contributes_nothing prim secs ord j (fun s hs => Or.inl (hfresh s hs)) hp).2 p s hs hf

/-- **F10 (proved counter-example).** Healthy primary {1}, one secondary {2, 3} failing at its 2nd `Next`:
    the query fails with the secondary's error (1), there is no warning, and the secondary's first series
    (label id 2) has already been emitted. -/
theorem late_failure_witness :
    (drain { data := [⟨1, [(0, 1)]⟩], selErr := false, failAt := none }
      [{ sets := [{ data := [⟨2, [(0, 2)]⟩, ⟨3, [(0, 3)]⟩], selErr := false, failAt := some 2 }], lazy := none }]
      [0, 1] 0).2 = { series := [⟨1, [(0, 1)]⟩, ⟨2, [(0, 2)]⟩], err := some 1, warn := [] }
    ∧ ¬ secondary_never_fails_query_full := by
  refine ⟨by decide, ?_⟩
  intro h
  exact h { data := [⟨1, [(0, 1)]⟩], selErr := false, failAt := none }
    [{ sets := [{ data := [⟨2, [(0, 2)]⟩, ⟨3, [(0, 3)]⟩], selErr := false, failAt := some 2 }], lazy := none }]
    [0, 1] 0 0 ⟨rfl, rfl⟩ (by intro s hs; simp at hs; subst hs; rfl) (by decide)

/-! ## append path -/

def NoAppFault (s : Storage) : Prop := appFault s.faults = none

/-- **Append reaches everybody**: with no append fault, primary and every secondary record the sample,
    every secondary is called with the primary's ref, and that ref is returned (V1 and V2). -/
theorem append_reaches_all (v2 : Bool) (prim : Storage) (secs : List Storage) (pa : FakeApp) (sas : List FakeApp)
    (ref : Nat) (r : Rec) (hl : sas.length = secs.length) (hp : NoAppFault prim) (hs : ∀ s ∈ secs, NoAppFault s) :
    fanoutAppend v2 prim secs pa sas ref r =
      (pushRec r pa, sas.map (pushRec r),
        { ref := if ref ≠ 0 then ref else 100 + r.lid, err := none,
          saw := some ref :: sas.map fun _ => some (if ref ≠ 0 then ref else 100 + r.lid) }) := by
  simp only [fanoutAppend, fakeAppend_healthy 0 prim pa ref r hp]
  rw [appendSecs_healthy _ r 1 secs sas hl hs]
  simp

/-- Running a whole list of appends through the fanout appender. -/
def runAppends (v2 : Bool) (prim : Storage) (secs : List Storage) :
    FakeApp → List FakeApp → List (Nat × Rec) → FakeApp × List FakeApp
  | pa, sas, [] => (pa, sas)
  | pa, sas, (ref, r) :: rest =>
    let (pa', sas', _) := fanoutAppend v2 prim secs pa sas ref r
    runAppends v2 prim secs pa' sas' rest

theorem runAppends_healthy (v2 : Bool) (prim : Storage) (secs : List Storage) (pa : FakeApp) (sas : List FakeApp)
    (rs : List (Nat × Rec)) (hl : sas.length = secs.length) (hp : NoAppFault prim) (hs : ∀ s ∈ secs, NoAppFault s) :
    (runAppends v2 prim secs pa sas rs).1.pending = pa.pending ++ rs.map (·.2) ∧
    (runAppends v2 prim secs pa sas rs).2.map (·.pending) = sas.map fun a => a.pending ++ rs.map (·.2) := by
  induction rs generalizing pa sas with
  | nil => simp [runAppends]
  | cons x rest ih =>
    obtain ⟨ref, r⟩ := x
    simp only [runAppends, append_reaches_all v2 prim secs pa sas ref r hl hp hs]
    have := ih (pushRec r pa) (sas.map (pushRec r)) (by simpa using hl)
    rw [this.1, this.2]
    simp [pushRec, List.map_map, Function.comp_def]

/-- **A committed append reaches the primary and every secondary**: all storages healthy (no append and
    no commit fault), any number of secondaries, any list of appends — `Commit` succeeds, commits everywhere,
    and every storage receives exactly the appended samples, in order. -/
theorem commit_reaches_all (v2 : Bool) (prim : Storage) (secs : List Storage) (rs : List (Nat × Rec))
    (hp : NoAppFault prim) (hs : ∀ s ∈ secs, NoAppFault s)
    (hcp : prim.commitFails = false) (hcs : ∀ s ∈ secs, s.commitFails = false) :
    let fresh : FakeApp := { n := 0, pending := [] }
    let st := runAppends v2 prim secs fresh (secs.map fun _ => fresh) rs
    fanoutCommit prim secs st.1 st.2 =
      { err := none, calls := Call.commit :: secs.map (fun _ => Call.commit),
        committed := rs.map (·.2) :: secs.map fun _ => rs.map (·.2) } := by
  intro fresh st
  have hl : (secs.map fun _ => fresh).length = secs.length := by simp
  have hr := runAppends_healthy v2 prim secs fresh (secs.map fun _ => fresh) rs hl hp hs
  have hl2 : st.2.length = secs.length := by
    have := congrArg List.length hr.2
    simpa using this
  simp only [fanoutCommit, hcp, Bool.false_eq_true, if_false]
  rw [commitSecs_healthy 1 secs st.2 hl2 hcs, hr.2, hr.1]
  simp [fresh, List.map_map, Function.comp_def]

example : NoAppFault { faults := [.lv, .rollback], data := [] } := rfl

/-- **If the primary's commit fails no secondary commits**: every secondary is rolled back, nothing is
    stored anywhere, and the primary's error is returned (any number of secondaries, any faults on them). -/
theorem primary_commit_fail_no_secondary_commit (prim : Storage) (secs : List Storage) (pa : FakeApp)
    (sas : List FakeApp) (hl : sas.length = secs.length) (h : prim.commitFails = true) :
    fanoutCommit prim secs pa sas =
      { err := some 0, calls := Call.commit :: secs.map (fun _ => Call.rollback),
        committed := [] :: secs.map fun _ => [] } := by
  simp only [fanoutCommit, h, if_true]
  rw [commitSecs_after_error 0 1 secs sas hl]

/-- A failing secondary commit stops the commits of all later secondaries (they are rolled back). -/
theorem secondary_commit_fail_stops_later_commits (before after : List Storage) (bad : Storage)
    (bas aas : List FakeApp) (ba : FakeApp) (i : Nat)
    (hb : ∀ s ∈ before, s.commitFails = false) (hbad : bad.commitFails = true)
    (hl1 : bas.length = before.length) (hl2 : aas.length = after.length) :
    commitSecs none i (before ++ bad :: after) (bas ++ ba :: aas) =
      (some (i + before.length),
       before.map (fun _ => Call.commit) ++ Call.commit :: after.map (fun _ => Call.rollback),
       bas.map (·.pending) ++ [] :: after.map fun _ => []) := by
  induction before generalizing i bas with
  | nil =>
    cases bas with
    | nil =>
      simp only [List.nil_append, commitSecs, hbad, if_true]
      rw [commitSecs_after_error i (i + 1) after aas hl2]
      simp
    | cons _ _ => simp at hl1
  | cons x xs ih =>
    cases bas with
    | nil => simp at hl1
    | cons b bs =>
      have hx : x.commitFails = false := hb x (by simp)
      simp only [List.cons_append, commitSecs, hx, Bool.false_eq_true, if_false]
      rw [ih bs (i + 1) (fun s hs => hb s (by simp [hs])) (by simpa using hl1)]
      simp; omega

/-- Rollback reaches everybody. -/
theorem rollback_reaches_all (prim : Storage) (secs : List Storage) :
    (fanoutRollback prim secs).calls = Call.rollback :: secs.map (fun _ => Call.rollback) ∧
    (fanoutRollback prim secs).committed = [] :: secs.map fun _ => [] := ⟨rfl, rfl⟩

end Prom.C54
