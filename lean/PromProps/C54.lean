import PromModel.Remote.Fanout
import PromModel.Suites.FanoutSuite
/-! Property C54 — theorems (work in progress). -/
namespace Prom.C54
open Prom.Fanout

/-- If the primary's `Querier()` fails the fanout querier fails with the primary's error, closing nothing. -/
theorem primary_creation_failure_fails_querier (prim : Storage) (secs : List Storage)
    (h : prim.createFails = true) : mkQuerier prim secs = some (0, []) := by
  simp [mkQuerier, h]

end Prom.C54
