import PromProofs.AlertingLemmas
/-
  C44 — Alert states follow the `for` and `keep_firing_for` semantics.

  Model: `Prom.Alerting` (transcription of rules/alerting.go and of the 'for'-state restore of
  rules/group.go). Reference: `Prom.Alerting.Ref` (trace semantics written from the documentation).
  `abs` maps an entry of the rule's `active` map to the documented state; `runOk` runs a history of
  evaluations that all succeed; `traceOf c k h` is the documented trace `(ts, present)` of label set `k`.

  All theorems hold for arbitrary (irregular, even non-monotonic unless stated) evaluation times, arbitrary
  result sets, arbitrary `for` / `keep_firing_for` values.
-/
namespace Prom.C44
open Prom.Alerting

/-! ### Failed evaluations -/

/-- A failing query leaves the rule's state untouched. -/
theorem query_error_keeps_state (s : RuleSt) (ts qoff limit : Int) :
    (eval s ts qoff limit none).1 = s := by rfl

/-- A duplicate alert label set is reported exactly when two result samples map to the same alert
    labels, and the state is untouched. -/
theorem duplicate_keeps_state (s : RuleSt) (ts qoff limit : Int) (res : List Sample)
    (h : hasDup ((resultAlerts s.cfg res).map (·.1)) = true) :
    eval s ts qoff limit (some res) = (s, .error .dup) := by
  simp [eval, collect, h]

/-- Exceeding the limit clears every alert of the rule. -/
theorem limit_clears_state (s : RuleSt) (ts qoff limit : Int) (q : Option (List Sample)) (n : Nat)
    (h : (eval s ts qoff limit q).2 = .error (.limit n)) (k : Labels) :
    (eval s ts qoff limit q).1.get k = none := by
  unfold eval at h ⊢
  cases q with
  | none => simp at h
  | some res =>
    cases hc : collect s.cfg res with
    | none => simp [hc] at h
    | some rs =>
      simp only [hc] at h ⊢
      split
      · rfl
      · rename_i hl; rw [if_neg hl] at h; simp at h

/-! ### Single evaluations, clause by clause -/

/-- The alert created for a label set that becomes active at `ts`: pending, or firing at once when
    the hold duration is zero. -/
def started (c : Cfg) (k : Labels) (ts : Int) (v : Nat) : Alert :=
  if c.hold ≤ 0 then { fresh k ts v with state := .firing, firedAt := some ts } else fresh k ts v

theorem perKey_start (c : Cfg) (ts : Int) (k : Labels) (v : Nat) (old : Option Alert)
    (h : old = none ∨ ∃ a, old = some a ∧ a.state = .inactive) :
    (perKey c ts k (some v) old).kept = some (started c k ts v) := by
  have hm : merge1 k ts (some v) old = some (fresh k ts v) := by
    rcases h with rfl | ⟨a, rfl, ha⟩
    · rfl
    · simp [merge1, ha]
  simp only [perKey, hm, advance, Option.isSome_some, if_true]
  rw [settle_pending _ _ _ (by simp [fresh])]
  by_cases hh : c.hold ≤ 0
  · simp [fresh, started, hh]
  · simp [fresh, started, hh]

/-- Clause 1: an alert is pending from its first active evaluation (`activeAt` = that evaluation's
    time; with `for: 0` it fires in the same evaluation). -/
theorem pending_from_first_active (s : RuleSt) (ts qoff limit : Int) (res : List Sample) (vec : List OutSample)
    (hok : (eval s ts qoff limit (some res)).2 = .ok vec) (k : Labels)
    (hp : present s.cfg res k = true) (hnew : s.get k = none) :
    ∃ v, (eval s ts qoff limit (some res)).1.get k = some (started s.cfg k ts v) := by
  obtain ⟨v, hv⟩ := Option.isSome_iff_exists.mp hp
  refine ⟨v, ?_⟩
  rw [(eval_ok_get s ts qoff limit res vec hok k).1, hv, hnew]
  exact perKey_start _ _ _ _ _ (Or.inl rfl)

/-- Clause 5: a resolved (retained) alert that reappears starts a new pending period: a fresh alert
    with `activeAt = ts`, no `firedAt`/`resolvedAt`/`lastSentAt` carried over. -/
theorem reappear_starts_new_pending (s : RuleSt) (ts qoff limit : Int) (res : List Sample) (vec : List OutSample)
    (hok : (eval s ts qoff limit (some res)).2 = .ok vec) (k : Labels) (a : Alert)
    (hp : present s.cfg res k = true) (hold : s.get k = some a) (hst : a.state = .inactive) :
    ∃ v, (eval s ts qoff limit (some res)).1.get k = some (started s.cfg k ts v) := by
  obtain ⟨v, hv⟩ := Option.isSome_iff_exists.mp hp
  refine ⟨v, ?_⟩
  rw [(eval_ok_get s ts qoff limit res vec hok k).1, hv, hold]
  exact perKey_start _ _ _ _ _ (Or.inr ⟨a, rfl, hst⟩)

example : started { name := "A", hold := 5, kff := 0, rlabels := [] } [] 7 0
    = { state := .pending, labels := [], value := 0, activeAt := 7 } := by decide

/-- Clause 3a: a pending alert that is absent from an evaluation is dropped. -/
theorem absent_pending_dropped (s : RuleSt) (ts qoff limit : Int) (res : List Sample) (vec : List OutSample)
    (hok : (eval s ts qoff limit (some res)).2 = .ok vec) (k : Labels) (a : Alert)
    (hp : present s.cfg res k = false) (hold : s.get k = some a) (hst : a.state = .pending) :
    (eval s ts qoff limit (some res)).1.get k = none := by
  have hv : (resultAlerts s.cfg res).lookup k = none := by
    simpa [present] using hp
  rw [(eval_ok_get s ts qoff limit res vec hok k).1, hv, hold]
  simp [perKey, merge1, advance, hst]

/-- Clause 3b: a firing alert that is absent keeps firing (unchanged, remembering the first absence in
    `keepFiringSince`) while `ts − keepFiringSince < keep_firing_for`; otherwise it is resolved at `ts`
    and retained. (`ts − activeAt ≥ hold` excludes a hold duration raised by a reload.) -/
theorem absent_firing_resolved_unless_keep (s : RuleSt) (ts qoff limit : Int) (res : List Sample)
    (vec : List OutSample) (hok : (eval s ts qoff limit (some res)).2 = .ok vec) (k : Labels) (a : Alert)
    (hp : present s.cfg res k = false) (hold : s.get k = some a) (hst : a.state = .firing)
    (hr : a.resolvedAt = none) (hh : ts - a.activeAt ≥ s.cfg.hold) :
    let kfs := a.keepFiringSince.getD ts
    (s.cfg.kff > 0 ∧ ts - kfs < s.cfg.kff →
        (eval s ts qoff limit (some res)).1.get k = some { a with keepFiringSince := some kfs })
    ∧ (¬ (s.cfg.kff > 0 ∧ ts - kfs < s.cfg.kff) →
        ∃ a', (eval s ts qoff limit (some res)).1.get k = some a' ∧ a'.state = .inactive ∧
          a'.resolvedAt = some ts ∧ a'.activeAt = a.activeAt ∧ a'.firedAt = a.firedAt ∧ a'.value = a.value) := by
  have hv : (resultAlerts s.cfg res).lookup k = none := by
    simpa [present] using hp
  rw [(eval_ok_get s ts qoff limit res vec hok k).1, hv, hold]
  intro kfs
  constructor
  · intro ⟨hk, hw⟩
    have hw' : ts - a.keepFiringSince.getD ts < s.cfg.kff := hw
    simp only [perKey, merge1, advance, hst, hk, hw', hr, Option.isSome_none]
    simp only [and_self, if_true, Bool.false_eq_true, if_false, reduceCtorEq, decide_false, Bool.or_false,
      not_true_eq_false, and_false, ne_eq, not_false_eq_true]
    rw [settle_firing _ _ _ (by simp [hst])]
    simp [hh, kfs]
  · intro hn
    by_cases hk : s.cfg.kff > 0
    · have hw : ¬ ts - a.keepFiringSince.getD ts < s.cfg.kff := fun h => hn ⟨hk, h⟩
      simp [perKey, merge1, advance, hst, hk, hw, hr]
    · simp [perKey, merge1, advance, hst, hk, hr]

/-- Clause 6 (single step): an absent resolved alert is retained *unchanged* while
    `ts − resolvedAt ≤ 15 min` and deleted by the first evaluation after that. -/
theorem resolved_retained_step (s : RuleSt) (ts qoff limit : Int) (res : List Sample) (vec : List OutSample)
    (hok : (eval s ts qoff limit (some res)).2 = .ok vec) (k : Labels) (a : Alert) (r : Int)
    (hp : present s.cfg res k = false) (hold : s.get k = some a) (hst : a.state = .inactive)
    (hr : a.resolvedAt = some r) :
    (eval s ts qoff limit (some res)).1.get k = if ts - r > resolvedRetention then none else some a := by
  have hv : (resultAlerts s.cfg res).lookup k = none := by
    simpa [present] using hp
  rw [(eval_ok_get s ts qoff limit res vec hok k).1, hv, hold]
  by_cases hh : ts - r > resolvedRetention
  · simp [perKey, merge1, advance, hst, hr, hh]
  · simp [perKey, merge1, advance, hst, hr, hh]

/-! ### Refinement of the documented trace semantics -/

/-- Every state reachable from a new rule by successful evaluations satisfies the entry invariant
    (`ResolvedAt` set ⇔ inactive), and for every label set the entry of the `active` map is, up to `abs`,
    the documented state after the label set's trace. -/
theorem eval_refines_trace (c : Cfg) (restored : Bool) (h : List EvalIn) (s : RuleSt) (k : Labels)
    (hr : runOk (RuleSt.init c restored) h = some s) :
    abs (s.get k) = Ref.stateAt c.hold c.kff (traceOf c k h) ∧ InvS s := by
  have hinv : InvS (RuleSt.init c restored) := by intro k a h; simp [RuleSt.init] at h
  obtain ⟨h1, h2, _⟩ := runOk_refines (RuleSt.init c restored) h s k hinv hr
  exact ⟨by simpa [RuleSt.init, abs, RefL.foldSt, Ref.stateAt] using h1, h2⟩

/-- One evaluation refines one step of the reference, from any state satisfying the invariant. -/
theorem eval_refines_step (s : RuleSt) (ts qoff limit : Int) (res : List Sample) (vec : List OutSample)
    (hok : (eval s ts qoff limit (some res)).2 = .ok vec) (k : Labels) (hinv : InvS s) :
    abs ((eval s ts qoff limit (some res)).1.get k)
      = Ref.step s.cfg.hold s.cfg.kff ts (present s.cfg res k) (abs (s.get k)) := by
  rw [(eval_ok_get s ts qoff limit res vec hok k).1, (perKey_refines _ _ _ _ _ (hinv k)).1]
  rfl

/-! ### Histories (arbitrary irregular evaluation times) -/

theorem traceOf_const (c : Cfg) (k : Labels) (h : List EvalIn) (b : Bool)
    (hb : ∀ e ∈ h, present c e.res k = b) : traceOf c k h = (h.map (·.ts)).map (·, b) := by
  induction h with
  | nil => rfl
  | cons e rest ih =>
    simp only [traceOf, List.map_cons, List.map_map] at ih ⊢
    rw [hb e (by simp), ih (fun e he => hb e (by simp [he]))]

/-- Clause 2: an alert that becomes active at the first evaluation `e0` of a history and stays active
    through it is — at non-decreasing evaluation times — firing exactly from the *first* evaluation whose
    time is at least `hold` after `e0.ts` (`firedAt` = that evaluation's time), and pending before. -/
theorem fires_at_first_eval_after_hold (s0 s : RuleSt) (e0 : EvalIn) (rest : List EvalIn) (k : Labels)
    (hinv : InvS s0) (hidle : (abs (s0.get k)).active = false)
    (hr : runOk s0 (e0 :: rest) = some s)
    (hp : ∀ e ∈ e0 :: rest, present s0.cfg e.res k = true)
    (hs : ((e0 :: rest).map (·.ts)).Pairwise (· ≤ ·)) :
    abs (s.get k) = RefL.activeSpec s0.cfg.hold e0.ts ((e0 :: rest).map (·.ts)) := by
  rw [(runOk_refines s0 _ s k hinv hr).1, traceOf_const _ _ _ true hp]
  simp only [List.map_cons, RefL.foldSt, List.foldl_cons]
  have h0 : Ref.step s0.cfg.hold s0.cfg.kff e0.ts true (abs (s0.get k))
      = RefL.activeSpec s0.cfg.hold e0.ts [e0.ts] := by
    have hstart : Ref.start s0.cfg.hold e0.ts = RefL.activeSpec s0.cfg.hold e0.ts [e0.ts] := by
      by_cases hh : s0.cfg.hold ≤ 0
      · simp [Ref.start, RefL.activeSpec, hh]
      · simp [Ref.start, RefL.activeSpec, hh]
    cases hst : abs (s0.get k) with
    | idle => simpa [Ref.step] using hstart
    | resolved a f r => simpa [Ref.step] using hstart
    | pending a => rw [hst] at hidle; simp [Ref.St.active] at hidle
    | firing a f ks => rw [hst] at hidle; simp [Ref.St.active] at hidle
  rw [h0]
  have := RefL.fold_active s0.cfg.hold s0.cfg.kff e0.ts [e0.ts] (rest.map (·.ts)) (by simpa using hs)
  simpa [RefL.foldSt] using this

/-- Clause 4: keep-firing is bounded. A firing alert absent from the evaluations `e1 :: rest` is still
    firing after them (with `keepFiringSince = e1.ts`) if every one of them is less than
    `keep_firing_for` after `e1.ts`, and is no longer active (resolved or already forgotten) if one of them
    is not. -/
theorem keep_firing_bounded (s0 s : RuleSt) (e1 : EvalIn) (rest : List EvalIn) (k : Labels) (a f : Int)
    (hinv : InvS s0) (hfire : abs (s0.get k) = .firing a f none)
    (hr : runOk s0 (e1 :: rest) = some s)
    (hp : ∀ e ∈ e1 :: rest, present s0.cfg e.res k = false)
    (hk : s0.cfg.kff > 0) (hh : ∀ e ∈ e1 :: rest, e.ts - a ≥ s0.cfg.hold) :
    ((∀ e ∈ e1 :: rest, e.ts - e1.ts < s0.cfg.kff) → abs (s.get k) = .firing a f (some e1.ts))
    ∧ ((∃ e ∈ e1 :: rest, ¬ e.ts - e1.ts < s0.cfg.kff) → (abs (s.get k)).active = false) := by
  rw [(runOk_refines s0 _ s k hinv hr).1, traceOf_const _ _ _ false hp, hfire]
  simp only [List.map_cons, RefL.foldSt, List.foldl_cons]
  have h1 : Ref.step s0.cfg.hold s0.cfg.kff e1.ts false (.firing a f none) = .firing a f (some e1.ts) := by
    have := hh e1 (by simp)
    simp [Ref.step, hk, this]
  rw [h1]
  have hh' : ∀ t ∈ rest.map (·.ts), t - a ≥ s0.cfg.hold := by
    intro t ht; simp at ht; obtain ⟨e, he, rfl⟩ := ht; exact hh e (by simp [he])
  constructor
  · intro hw
    have := RefL.fold_keep s0.cfg.hold s0.cfg.kff a f e1.ts (rest.map (·.ts)) hk hh'
      (by intro t ht; simp at ht; obtain ⟨e, he, rfl⟩ := ht; exact hw e (by simp [he]))
    simpa [RefL.foldSt] using this
  · intro ⟨e, he, hne⟩
    have hne1 : e ≠ e1 ∨ True := Or.inr trivial
    have hex : ∃ t ∈ rest.map (·.ts), ¬ t - e1.ts < s0.cfg.kff := by
      simp at he
      rcases he with rfl | he
      · exact absurd (by omega) hne
      · exact ⟨e.ts, by simp; exact ⟨e, he, rfl⟩, hne⟩
    have := RefL.fold_keep_expired s0.cfg.hold s0.cfg.kff a f e1.ts (rest.map (·.ts)) hk hh' hex
    simpa [RefL.foldSt] using this

/-- Clause 6: a resolved alert absent from a history is retained (same activation, firing and resolution
    times) as long as every evaluation is at most the retention after `resolvedAt`, and is forgotten
    (the map has no entry) once one evaluation is later than that. -/
theorem resolved_retained_for_retention (s0 s : RuleSt) (h : List EvalIn) (k : Labels) (a f r : Int)
    (hinv : InvS s0) (hres : abs (s0.get k) = .resolved a f r)
    (hr : runOk s0 h = some s) (hp : ∀ e ∈ h, present s0.cfg e.res k = false) :
    ((∀ e ∈ h, e.ts - r ≤ Ref.retention) → abs (s.get k) = .resolved a f r)
    ∧ ((∃ e ∈ h, e.ts - r > Ref.retention) → s.get k = none) := by
  have hrf := (runOk_refines s0 _ s k hinv hr).1
  rw [traceOf_const _ _ _ false hp, hres] at hrf
  constructor
  · intro hw
    rw [hrf]
    exact RefL.fold_retained _ _ a f r _ (by intro t ht; simp at ht; obtain ⟨e, he, rfl⟩ := ht; exact hw e he)
  · intro ⟨e, he, hlt⟩
    have := RefL.fold_retention_expired s0.cfg.hold s0.cfg.kff a f r (h.map (·.ts))
      ⟨e.ts, by simp; exact ⟨e, he, rfl⟩, hlt⟩
    rw [this] at hrf
    cases hg : s.get k with
    | none => rfl
    | some x => rw [hg] at hrf; simp only [abs] at hrf; split at hrf <;> simp at hrf

/-! ### 'for'-state restore -/

/-- The restore arithmetic of `Group.RestoreForState` is the documented shift: with `downAt` the last
    stored sample's time (whole seconds) and `stored` the stored activation time, (1) if the alert had
    already been pending for `hold`, the stored activation time is kept; (2) if less than the grace period
    remained, the alert fires exactly `grace` after the restore time (`activeAt + hold = ts + grace`);
    (3) otherwise the activation time is shifted by the down time `ts − downAt`. -/
theorem restore_shift_spec (hold grace ts t v : Int) :
    let downAt := Int.tdiv t 1000 * 1000000000
    let stored := v * 1000000000
    let remaining := hold - (downAt - stored)
    restoredActiveAt hold grace ts t v = Ref.restoreSpec hold grace ts downAt stored
    ∧ (remaining ≤ 0 → restoredActiveAt hold grace ts t v = stored)
    ∧ (0 < remaining → remaining < grace → restoredActiveAt hold grace ts t v + hold = ts + grace)
    ∧ (0 < remaining → grace ≤ remaining → restoredActiveAt hold grace ts t v = stored + (ts - downAt)) := by
  intro downAt stored remaining
  refine ⟨rfl, ?_, ?_, ?_⟩
  · intro h; simp only [restoredActiveAt]; rw [if_pos h]
  · intro h1 h2; simp only [restoredActiveAt]; rw [if_neg (by omega), if_pos h2]; omega
  · intro h1 h2; simp only [restoredActiveAt]; rw [if_neg (by omega), if_neg (by omega)]

/-- Restoring never changes anything but activation times (and the `restored` flag). -/
theorem restore_only_shifts_activeAt (s : RuleSt) (ts tol grace : Int) (series : List ForSeries) (k : Labels) :
    ((restoreForState s ts tol grace series).get k).map (fun a => { a with activeAt := 0 })
      = (s.get k).map (fun a => { a with activeAt := 0 })
    ∧ (restoreForState s ts tol grace series).restored = true := by
  simp only [restoreForState]
  split
  · simp
  · split
    · simp
    · refine ⟨?_, rfl⟩
      cases hg : s.get k with
      | none => simp [hg]
      | some a =>
        simp only [hg, Option.map_some]
        split
        · rfl
        · split <;> rfl

/-! ### ALERTS / ALERTS_FOR_STATE series -/

/-- The alerts whose `ALERTS` / `ALERTS_FOR_STATE` samples an evaluation emits are exactly the entries
    that are active (pending or firing) after it. -/
theorem series_reflect_state (c : Cfg) (ts : Int) (k : Labels) (v : Option Nat) (old : Option Alert)
    (hinv : InvO old) :
    (perKey c ts k v old).emitted = (perKey c ts k v old).kept.filter (fun a => a.state != .inactive) := by
  cases old with
  | none =>
    cases v with
    | none => simp [perKey, merge1, Option.filter]
    | some v =>
      simp only [perKey, merge1, advance, Option.isSome_some, if_true]
      rw [settle_pending _ _ _ (by simp [fresh])]
      by_cases hh : c.hold ≤ 0
      · simp [hh, fresh, Option.filter]
      · simp [hh, fresh, Option.filter]
  | some a =>
    have hi : Inv a := hinv a rfl
    unfold Inv at hi
    cases v with
    | some v =>
      cases hst : a.state with
      | inactive =>
        simp only [perKey, merge1, hst, advance, Option.isSome_some, if_true, ne_eq, not_true_eq_false, if_false]
        rw [settle_pending _ _ _ (by simp [fresh])]
        by_cases hh : c.hold ≤ 0
        · simp [hh, fresh, Option.filter]
        · simp [hh, fresh, Option.filter]
      | pending =>
        simp only [perKey, merge1, hst, advance, Option.isSome_some, if_true, ne_eq]
        simp only [reduceCtorEq, not_false_eq_true, if_true]
        rw [settle_pending _ _ _ (by simp [hst])]
        by_cases hh : ts - a.activeAt ≥ c.hold
        · simp [hh, hst, Option.filter]
        · simp [hh, hst, Option.filter]
      | firing =>
        simp only [perKey, merge1, hst, advance, Option.isSome_some, if_true, ne_eq]
        simp only [reduceCtorEq, not_false_eq_true, if_true]
        rw [settle_firing _ _ _ (by simp [hst])]
        by_cases hh : ts - a.activeAt ≥ c.hold
        · simp [hh, hst, Option.filter]
        · simp [hh, hst, Option.filter]
    | none =>
      cases hst : a.state with
      | pending => simp [perKey, merge1, advance, hst, Option.filter]
      | inactive =>
        have hr : a.resolvedAt.isSome := hi.mp hst
        obtain ⟨r, hr⟩ := Option.isSome_iff_exists.mp hr
        by_cases hh : ts - r > resolvedRetention
        · simp [perKey, merge1, advance, hst, hr, hh, Option.filter]
        · simp [perKey, merge1, advance, hst, hr, hh, Option.filter]
      | firing =>
        have hr : a.resolvedAt = none := by
          cases h : a.resolvedAt with
          | none => rfl
          | some r => have := hi.mpr (by simp [h]); simp [hst] at this
        by_cases hk : c.kff > 0
        · by_cases hw : ts - a.keepFiringSince.getD ts < c.kff
          · simp only [perKey, merge1, advance, hst, hk, hw, hr, Option.isSome_none]
            simp only [and_self, if_true, Bool.false_eq_true, if_false, reduceCtorEq, decide_false, Bool.or_false,
              not_true_eq_false, and_false, ne_eq, not_false_eq_true]
            rw [settle_firing _ _ _ (by simp [hst])]
            by_cases hh : ts - a.activeAt ≥ c.hold
            · simp [hh, hst, Option.filter]
            · simp [hh, hst, Option.filter]
          · simp [perKey, merge1, advance, hst, hk, hw, hr, Option.filter]
        · simp [perKey, merge1, advance, hst, hk, hr, Option.filter]

/-- `ALERTS` / `ALERTS_FOR_STATE` are written only once the 'for' state has been restored. -/
theorem series_only_after_restore (s : RuleSt) (ts qoff limit : Int) (res : List Sample) (vec : List OutSample)
    (hok : (eval s ts qoff limit (some res)).2 = .ok vec) (hr : s.restored = false) : vec = [] := by
  unfold eval at hok
  cases hc : collect s.cfg res with
  | none => simp [hc] at hok
  | some rs =>
    simp only [hc] at hok
    split at hok
    · simp at hok
    · simp [hr] at hok; exact hok

/-! ### Notifications -/

/-- Pending alerts are never sent; an alert resolved after its last notification is always sent. -/
theorem needsSending_spec (a : Alert) (ts resend : Int) :
    (a.state = .pending → needsSending a ts resend = false)
    ∧ (a.state ≠ .pending → a.lastSentAt = none → needsSending a ts resend = true)
    ∧ (a.state ≠ .pending → ∀ r l, a.resolvedAt = some r → a.lastSentAt = some l → r > l →
        needsSending a ts resend = true)
    ∧ (a.state ≠ .pending → a.resolvedAt = none → ∀ l, a.lastSentAt = some l →
        (needsSending a ts resend = true ↔ l + resend < ts)) := by
  refine ⟨?_, ?_, ?_, ?_⟩
  · intro h; simp [needsSending, h]
  · intro h hl; simp [needsSending, h, hl, optAfter]
  · intro h r l hr hl hgt; simp [needsSending, h, hr, hl, optAfter, hgt]
  · intro h hr l hl; simp [needsSending, h, hr, hl, optAfter]

/-! ### The hypotheses are satisfiable: a concrete history -/

/-- hold 5, keep 3: active at 0, 2, 5 (fires at 5), absent at 6 (kept), absent at 9 (resolved). -/
example :
    let c : Cfg := { name := "A", hold := 5, kff := 3, rlabels := [] }
    Ref.stateAt c.hold c.kff [(0, true), (2, true), (5, true), (6, false), (9, false)] = .resolved 0 5 9 := by
  decide

end Prom.C44
