import PromModel.Rules.Alerting
import PromModel.Rules.AlertingRef
/-
  C44 — Alert states follow the `for` and `keep_firing_for` semantics.
-/
namespace Prom.C44
open Prom.Alerting

/-- A failing query leaves the rule's state untouched. -/
theorem query_error_keeps_state (s : RuleSt) (ts qoff limit : Int) :
    (eval s ts qoff limit none).1 = s := by rfl

end Prom.C44
