import PromProofs.ExemplarsOrd
/-
  C21 — Exemplar storage keeps the newest accepted exemplars in order.
  Property theorems about the transcribed `CircularExemplarStorage` (PromModel/Tsdb/Exemplars.lean).
  Helper lemmas live in PromProofs/Exemplars*.lean.
-/
namespace Prom.C21
open Prom.Exemplars

theorem add_disabled (r : Ring) (s : Nat) (e : Ex) (h : r.exs.length = 0) :
    add r s e = (r, .err .disabled) := by
  simp [add, h]

/-- A fresh storage satisfies the ring-order invariant (all slots free). -/
theorem ringOrd_new (c w : Int) : RingOrd (Ring.new c w) := by
  refine ⟨c.toNat, [], ?_, ?_⟩
  · simp [Ring.new]; omega
  · simp [rot, contents, Ring.new, Entry.zero]

/-- **Eviction is in acceptance order** (`AddExemplar`). Reading the ring in ingestion order gives
    `absAcc r`. A stored exemplar is appended to it and the result is cut to the newest `cap`; an
    exemplar that is not stored (error, duplicate, silent drop) leaves the whole state unchanged. -/
theorem evict_in_acceptance_order (r : Ring) (s : Nat) (e : Ex) (h : RingOrd r) :
    RingOrd (add r s e).1 ∧
    ((add r s e).2 = .stored → absAcc (add r s e).1 = lastN r.exs.length (absAcc r ++ [(s, e)])) ∧
    ((add r s e).2 ≠ .stored → (add r s e).1 = r) := by
  obtain ⟨k, acc, hw⟩ := h
  by_cases hst : (add r s e).2 = .stored
  · have h' := add_ringOrd r s e k acc hw hst
    refine ⟨⟨_, _, h'⟩, fun _ => ?_, fun hn => absurd hst hn⟩
    rw [h'.absAcc, hw.absAcc]
  · refine ⟨?_, fun h => absurd h hst, fun _ => add_not_stored r s e hst⟩
    rw [add_not_stored r s e hst]; exact ⟨k, acc, hw⟩

/-- Never evicts while capacity remains. -/
theorem no_eviction_while_free (r : Ring) (s : Nat) (e : Ex) (h : RingOrd r)
    (hfree : (absAcc r).length < r.exs.length) (hst : (add r s e).2 = .stored) :
    absAcc (add r s e).1 = absAcc r ++ [(s, e)] := by
  rw [(evict_in_acceptance_order r s e h).2.1 hst, lastN_all]
  simp; omega

/-- When full, exactly the oldest accepted exemplar is evicted. -/
theorem evicts_oldest_when_full (r : Ring) (s : Nat) (e : Ex) (h : RingOrd r)
    (hfull : (absAcc r).length = r.exs.length) (hst : (add r s e).2 = .stored) :
    absAcc (add r s e).1 = (absAcc r).tail ++ [(s, e)] := by
  rw [(evict_in_acceptance_order r s e h).2.1 hst]
  cases hacc : absAcc r with
  | nil =>
    have := (add_stored_eq r s e hst).1
    rw [hacc] at hfull; simp at hfull; omega
  | cons a t =>
    rw [hacc] at hfull
    simp [lastN, ← hfull]

/-- The hypotheses are satisfiable: a ring of capacity 1 that already holds one exemplar. -/
example : ∃ r : Ring, RingOrd r ∧ (absAcc r).length = r.exs.length ∧ (add r 0 ⟨5, 0, true, "-", 0⟩).2 = .stored :=
  ⟨(add (Ring.new 1 0) 0 ⟨3, 0, true, "-", 0⟩).1,
    (evict_in_acceptance_order _ _ _ (ringOrd_new 1 0)).1, by decide, by decide⟩

end Prom.C21
