import PromProofs.ExemplarsOrd
import PromProofs.ExemplarsResize
import PromProofs.ExemplarsSelect
import PromProofs.ExemplarsLinksAdd
/-
  C21 — Exemplar storage keeps the newest accepted exemplars in order.
  Property theorems about the transcribed `CircularExemplarStorage` (PromModel/Tsdb/Exemplars.lean).
  Helper lemmas live in PromProofs/Exemplars*.lean.
-/
namespace Prom.C21
open Prom.Exemplars

theorem add_disabled (r : Ring) (s : Nat) (e : Ex) (h : r.exs.length = 0) :
    add r s e = (r, .err .disabled) := by
  simp [add, h]

/-- A fresh storage satisfies the ring-order invariant (all slots free). -/
theorem ringOrd_new (c w : Int) : RingOrd (Ring.new c w) := by
  refine ⟨c.toNat, [], ?_, ?_⟩
  · simp [Ring.new]; omega
  · simp [rot, contents, Ring.new, Entry.zero]

/-- **Eviction is in acceptance order** (`AddExemplar`). Reading the ring in ingestion order gives
    `absAcc r`. A stored exemplar is appended to it and the result is cut to the newest `cap`; an
    exemplar that is not stored (error, duplicate, silent drop) leaves the whole state unchanged. -/
theorem evict_in_acceptance_order (r : Ring) (s : Nat) (e : Ex) (h : RingOrd r) :
    RingOrd (add r s e).1 ∧
    ((add r s e).2 = .stored → absAcc (add r s e).1 = lastN r.exs.length (absAcc r ++ [(s, e)])) ∧
    ((add r s e).2 ≠ .stored → (add r s e).1 = r) := by
  obtain ⟨k, acc, hw⟩ := h
  by_cases hst : (add r s e).2 = .stored
  · have h' := add_ringOrd r s e k acc hw hst
    refine ⟨⟨_, _, h'⟩, fun _ => ?_, fun hn => absurd hst hn⟩
    rw [h'.absAcc, hw.absAcc]
  · refine ⟨?_, fun h => absurd h hst, fun _ => add_not_stored r s e hst⟩
    rw [add_not_stored r s e hst]; exact ⟨k, acc, hw⟩

/-- Never evicts while capacity remains. -/
theorem no_eviction_while_free (r : Ring) (s : Nat) (e : Ex) (h : RingOrd r)
    (hfree : (absAcc r).length < r.exs.length) (hst : (add r s e).2 = .stored) :
    absAcc (add r s e).1 = absAcc r ++ [(s, e)] := by
  rw [(evict_in_acceptance_order r s e h).2.1 hst, lastN_all]
  simp; omega

/-- When full, exactly the oldest accepted exemplar is evicted. -/
theorem evicts_oldest_when_full (r : Ring) (s : Nat) (e : Ex) (h : RingOrd r)
    (hfull : (absAcc r).length = r.exs.length) (hst : (add r s e).2 = .stored) :
    absAcc (add r s e).1 = (absAcc r).tail ++ [(s, e)] := by
  rw [(evict_in_acceptance_order r s e h).2.1 hst]
  cases hacc : absAcc r with
  | nil =>
    have := (add_stored_eq r s e hst).1
    rw [hacc] at hfull; simp at hfull; omega
  | cons a t =>
    rw [hacc] at hfull
    simp [lastN, ← hfull]

/-- The hypotheses are satisfiable: a ring of capacity 1 that already holds one exemplar. -/
example : ∃ r : Ring, RingOrd r ∧ (absAcc r).length = r.exs.length ∧ (add r 0 ⟨5, 0, true, "-", 0⟩).2 = .stored :=
  ⟨(add (Ring.new 1 0) 0 ⟨3, 0, true, "-", 0⟩).1,
    (evict_in_acceptance_order _ _ _ (ringOrd_new 1 0)).1, by decide, by decide⟩

/-- **Resizing keeps the most recently accepted exemplars that fit** (grow, shrink, zero, no-op),
    keeps the ring-order invariant and the window. -/
theorem resize_keeps_newest_that_fit (r : Ring) (l : Int) (h : RingOrd r) :
    RingOrd (resize r l).1 ∧
    (resize r l).1.exs.length = (if l ≤ 0 then 0 else l.toNat) ∧
    (resize r l).1.window = r.window ∧
    absAcc (resize r l).1 = lastN (if l ≤ 0 then 0 else l.toNat) (absAcc r) := by
  obtain ⟨k, acc, hw⟩ := h
  obtain ⟨h1, h2, k', h3⟩ := resize_ringOrd r l k acc hw
  exact ⟨⟨k', _, h3⟩, h1, h2, by rw [h3.absAcc, hw.absAcc]⟩

/-- The ring-order invariant holds in every state reachable by `add`/`resize`/window changes. -/
inductive Reachable : Ring → Prop
  | new (c w : Int) : Reachable (Ring.new c w)
  | add {r} (s : Nat) (e : Ex) : Reachable r → Reachable (add r s e).1
  | resize {r} (l : Int) : Reachable r → Reachable (resize r l).1
  | window {r} (d : Int) : Reachable r → Reachable { r with window := d }

theorem ringOrd_reachable {r : Ring} (h : Reachable r) : RingOrd r := by
  induction h with
  | new c w => exact ringOrd_new c w
  | add s e _ ih => exact (evict_in_acceptance_order _ s e ih).1
  | resize l _ ih => exact (resize_keeps_newest_that_fit _ l ih).1
  | window d _ ih => obtain ⟨k, acc, h1, h2⟩ := ih; exact ⟨k, acc, h1, h2⟩

/-- **Refinement of the data part** (`ring_refines_spec`, proved part). Under the abstraction `absf`
    (capacity, window, retained exemplars in acceptance order) every reachable concrete step is the
    abstract step: a stored add appends and cuts to the newest `cap`; any other add is the identity;
    `resize` is `Spec.resize`. What is *not* proved here is that the model's accept/drop decision
    (`(add r s e).2`, taken from `idx.newest` and the links) equals `Spec.add`'s decision
    (`Spec.classify` / `Spec.silentDrop` on the retained list) — see `ring_refines_spec_full`. -/
theorem ring_refines_spec_partial {r : Ring} (h : Reachable r) :
    (∀ s e, absf (add r s e).1 =
      if (add r s e).2 = .stored then { absf r with acc := lastN (absf r).cap ((absf r).acc ++ [(s, e)]) }
      else absf r) ∧
    (∀ l, absf (resize r l).1 = (absf r).resize l) := by
  have ho := ringOrd_reachable h
  constructor
  · intro s e
    obtain ⟨_, h2, h3⟩ := evict_in_acceptance_order r s e ho
    by_cases hst : (add r s e).2 = .stored
    · obtain ⟨k, acc, hw⟩ := ho
      have hs := add_stored_eq r s e hst
      have hd := store_data r s e (r.index s).isSome (oooCheck r (r.index s) e).1 (oooCheck r (r.index s) e).2
      simp only [hst, if_true, absf]
      rw [h2 hst, hs.2, hd.1, hd.2.1]
    · simp only [hst, if_false]; rw [h3 hst]
  · intro l
    obtain ⟨_, h2, h3, h4⟩ := resize_keeps_newest_that_fit r l ho
    simp only [absf, Spec.resize, h2, h3, h4]

/-- The full refinement statement (decision included); not proved. Needs `links_wellformed` for all
    steps plus "`idx.newest` is the last accepted among the greatest timestamps of the series". -/
def ring_refines_spec_full : Prop :=
  ∀ r, Reachable r → ∀ s e, (Spec.add (absf r) s e).2 = (add r s e).2 ∧ absf (add r s e).1 = (Spec.add (absf r) s e).1

/-- **Select returns, per series, the retained exemplars in range, time-sorted.**  For a series whose
    list `a :: c` is well formed (`ChainOK`, see `links_wellformed`), the inner loop of `Select` started
    at the oldest entry returns exactly the series' exemplars with `start ≤ ts ≤ stop`, all of them, in
    non-decreasing timestamp order. -/
theorem select_sorted_in_range (r : Ring) (s a : Nat) (c : List Nat) (start stop : Int)
    (h : ChainOK r s (a :: c)) :
    let out := walk r start stop (r.exs.length + 1) (r.getN a)
    out = ((a :: c).map fun i => (r.getN i).ex).filter (inRange start stop) ∧
    (out.map (·.ts)).Pairwise (· ≤ ·) ∧
    (∀ x ∈ out, start ≤ x.ts ∧ x.ts ≤ stop) := by
  have hw := walk_chainOK r s a c start stop h
  refine ⟨hw, ?_, ?_⟩
  · simp only [hw]
    have hsub : (((a :: c).map fun i => (r.getN i).ex).filter (inRange start stop)).Sublist
        ((a :: c).map fun i => (r.getN i).ex) := List.filter_sublist
    have hs : (((a :: c).map fun i => (r.getN i).ex).map (·.ts)).Pairwise (· ≤ ·) := by
      simpa [List.map_map, Function.comp_def] using h.sorted
    exact hs.sublist (hsub.map _)
  · intro x hx
    simp only [hw, List.mem_filter, inRange, Bool.and_eq_true, decide_eq_true_eq] at hx
    exact hx.2

/-- `Select` as a whole: series strictly ascending (= sorted by series labels, each once); and every
    returned entry of a series with a well-formed list is exactly that series' stored exemplars in
    `[start, stop]`, non-empty, time-sorted. -/
theorem select_result (r : Ring) (start stop : Int) (sel : Nat → Bool) :
    ((select r start stop sel).map (·.1)).Pairwise (· < ·) ∧
    ∀ s xs c, (s, xs) ∈ select r start stop sel → ChainOK r s c →
      sel s = true ∧ xs ≠ [] ∧
      xs = (c.map fun i => (r.getN i).ex).filter (inRange start stop) ∧
      (xs.map (·.ts)).Pairwise (· ≤ ·) ∧ (∀ x ∈ xs, start ≤ x.ts ∧ x.ts ≤ stop) := by
  refine ⟨select_series_ascending r start stop sel, ?_⟩
  intro s xs c hmem hc
  obtain ⟨hsel, hne, ie, hie, hxs⟩ := select_mem r start stop sel s xs hmem
  cases c with
  | nil => have := hc.index; simp [hie] at this
  | cons a t =>
    have hidx := hc.index
    simp only [hie, reduceCtorEq, if_false, List.head?_cons, Option.some.injEq] at hidx
    have hold : ie.oldest = some a := by rw [hidx]
    rw [hold] at hxs
    have := select_sorted_in_range r s a t start stop hc
    simp only [] at this
    change xs = walk r start stop (r.exs.length + 1) (r.getN a) at hxs
    rw [← hxs] at this
    exact ⟨hsel, hne, this.1, this.2.1, this.2.2⟩

/-- `select_sorted_in_range` is not vacuous: the list of series 0 after two adds. -/
example : ChainOK (add (add (Ring.new 3 0) 0 ⟨3, 0, true, "-", 0⟩).1 0 ⟨5, 0, true, "-", 0⟩).1 0 [0, 1] := by
  refine ⟨by decide, ?_, by simp only [LinkedFrom]; decide, by decide, by decide⟩
  intro i
  by_cases h0 : i = 0
  · subst h0; decide
  · by_cases h1 : i = 1
    · subst h1; decide
    · by_cases h2 : i = 2
      · subst h2; decide
      · simp [h0, h1]; intro hlt
        have : (add (add (Ring.new 3 0) 0 ⟨3, 0, true, "-", 0⟩).1 0 ⟨5, 0, true, "-", 0⟩).1.exs.length = 3 := by decide
        omega

/-- **Accept/reject table** of `validateExemplar` against the newest exemplar `n` of the series. -/
theorem validate_table (r : Ring) (ie : IdxEntry) (e : Ex)
    (hcap : r.exs.length ≠ 0) (hlen : labelSetLen e.lbl ≤ maxLabelSetLen) :
    let n := (r.getO ie.newest).ex
    let late := (e.ts < n.ts ∧ e.ts ≤ n.ts - r.window) ∨ (e.ts = n.ts ∧ f64lt e.val n.val = true) ∨
      (e.ts = n.ts ∧ f64eq e.val n.val = true ∧ e.hash < n.hash)
    (validate r (some ie) e = some .dup ↔ n.equals e = true) ∧
    (validate r (some ie) e = some .ooo ↔ n.equals e = false ∧ late) ∧
    (validate r (some ie) e = none ↔ n.equals e = false ∧ ¬ late) := by
  have hl : ¬ labelSetLen e.lbl > maxLabelSetLen := by omega
  simp only [validate, hcap, hl, if_false]
  by_cases heq : (r.getO ie.newest).ex.equals e = true
  · simp [heq]
  · simp only [heq, if_false, Bool.false_eq_true]
    split <;> simp_all

/-- Remaining rows of the table: disabled storage, over-long label set, series without exemplars. -/
theorem validate_table_other (r : Ring) (idx : Option IdxEntry) (e : Ex) :
    (r.exs.length = 0 → validate r idx e = some .disabled) ∧
    (r.exs.length ≠ 0 → labelSetLen e.lbl > maxLabelSetLen → validate r idx e = some .toolong) ∧
    (r.exs.length ≠ 0 → labelSetLen e.lbl ≤ maxLabelSetLen → validate r none e = none) := by
  refine ⟨fun h => by simp [validate, h], fun h1 h2 => by simp [validate, h1, h2], fun h1 h2 => ?_⟩
  have : ¬ labelSetLen e.lbl > maxLabelSetLen := by omega
  simp [validate, h1, this]

/-- What `AddExemplar` does with the verdict: errors other than "duplicate" are returned, a duplicate
    and an out-of-order exemplar whose timestamp is already at the insertion point are dropped silently
    (`noop`), everything else is stored. -/
theorem add_result_table (r : Ring) (s : Nat) (e : Ex) (hcap : r.exs.length ≠ 0) :
    (add r s e).2 =
      match validate r (r.index s) e with
      | some .dup => .noop
      | some err => .err err
      | none =>
        if (oooCheck r (r.index s) e).1 = true ∧ (r.getN (oooCheck r (r.index s) e).2).ex.ts = e.ts then .noop
        else .stored := by
  simp only [add, hcap, if_false]
  generalize validate r (r.index s) e = v
  cases v with
  | none => simp only []; split <;> rfl
  | some x => cases x <;> rfl

/-- The full invariant statement: in every reachable state every series has a well-formed list
    (acyclic, doubly linked, time non-decreasing, covering exactly the series' occupied slots, delimited
    by its index entry). `links_wellformed_partial` proves it for all histories of `add` and window
    changes from a fresh ring of any capacity; what is missing is preservation by `Resize`
    (`copyExemplarRanges` relocating links and index entries). On every generated history the
    differential + judge check its observable consequences (Select output, accept/reject decisions). -/
def links_wellformed_full : Prop := ∀ r, Reachable r → LinksWF r

theorem links_wellformed_new_partial (c w : Int) : LinksWF (Ring.new c w) := linksWF_new c w

/-- **`AddExemplar` preserves the link invariant** — all insertion cases (first, tip, tail, middle),
    with eviction of the slot at `nextIndex` (same or other series, last exemplar of a series, the
    insertion anchor itself) and without. -/
theorem links_wellformed_add (r : Ring) (s : Nat) (e : Ex) (h : LinksWF r) (ho : RingOrd r) :
    LinksWF (add r s e).1 := by
  obtain ⟨k, acc, h1, _⟩ := ho
  exact add_linksWF r s e h (by rcases h1 with h1 | h1; exact Or.inl h1; exact Or.inr h1.1)

/-- States reachable without `Resize`. -/
inductive ReachableNoResize : Ring → Prop
  | new (c w : Int) : ReachableNoResize (Ring.new c w)
  | add {r} (s : Nat) (e : Ex) : ReachableNoResize r → ReachableNoResize (add r s e).1
  | window {r} (d : Int) : ReachableNoResize r → ReachableNoResize { r with window := d }

theorem ReachableNoResize.reachable {r : Ring} (h : ReachableNoResize r) : Reachable r := by
  induction h with
  | new c w => exact .new c w
  | add s e _ ih => exact .add s e ih
  | window d _ ih => exact .window d ih

theorem linkedFrom_window (r : Ring) (d : Int) : ∀ (c : List Nat) (p : Option Nat),
    LinkedFrom { r with window := d } p c ↔ LinkedFrom r p c := by
  intro c
  induction c with
  | nil => intro p; simp [LinkedFrom]
  | cons a t ih =>
    intro p
    cases t with
    | nil => simp [LinkedFrom, Ring.getN]
    | cons b t' =>
      simp only [LinkedFrom]
      rw [ih (some a)]
      simp [Ring.getN]

/-- **`links_wellformed`, proved for every history of adds and window changes** (any capacity, any
    number of series, eviction and wrap-around included); see `links_wellformed_full` for the rest. -/
theorem links_wellformed_partial {r : Ring} (h : ReachableNoResize r) : LinksWF r := by
  induction h with
  | new c w => exact linksWF_new c w
  | add s e hr ih => exact links_wellformed_add _ s e ih (ringOrd_reachable hr.reachable)
  | window d _ ih =>
    obtain ⟨ch, hch⟩ := ih
    refine ⟨ch, fun s => ?_⟩
    have h0 := hch s
    exact ⟨h0.nodup, h0.covers, (linkedFrom_window _ d _ _).mpr h0.linked, h0.sorted, h0.index⟩

/-- Consequence for queries: in every state reachable by adds and window changes, every entry that
    `Select` returns is non-empty, inside `[start, stop]`, in non-decreasing timestamp order, and is
    exactly the set of stored exemplars of that series in range. -/
theorem select_sorted_in_range_reachable_partial {r : Ring} (h : ReachableNoResize r)
    (start stop : Int) (sel : Nat → Bool) (s : Nat) (xs : List Ex) (hm : (s, xs) ∈ select r start stop sel) :
    xs ≠ [] ∧ (xs.map (·.ts)).Pairwise (· ≤ ·) ∧ (∀ x ∈ xs, start ≤ x.ts ∧ x.ts ≤ stop) ∧
    ∃ c : List Nat, (∀ i, i ∈ c ↔ i < r.exs.length ∧ (r.getN i).ref = some s) ∧ c.Nodup ∧
      xs = (c.map fun i => (r.getN i).ex).filter (inRange start stop) := by
  obtain ⟨ch, hch⟩ := links_wellformed_partial h
  obtain ⟨_, hne, hx, hs, hr⟩ := (select_result r start stop sel).2 s xs (ch s) hm (hch s)
  exact ⟨hne, hs, hr, ch s, (hch s).covers, (hch s).nodup, hx⟩

end Prom.C21
