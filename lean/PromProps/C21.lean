import PromModel.Tsdb.Exemplars
namespace Prom.C21
open Prom.Exemplars

theorem add_disabled (r : Ring) (s : Nat) (e : Ex) (h : r.exs.length = 0) :
    add r s e = (r, .err .disabled) := by
  simp [add, h]

end Prom.C21
