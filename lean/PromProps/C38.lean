import PromModel.Ingest.Relabel
/-
  C38 — Relabeling follows its documented semantics.
  Property theorems only; helper lemmas live in PromProofs/Relabel.lean.
-/
namespace Prom.C38
open Prom.Relabel

/-- One step of the left fold with early exit: once dropped, later rules are not applied. -/
def foldStep (st : Bool × Builder) (c : Config) : Bool × Builder :=
  if st.1 then relabel c st.2 else st

theorem foldStep_false (cs : List Config) (b : Builder) :
    cs.foldl foldStep (false, b) = (false, b) := by
  induction cs with
  | nil => rfl
  | cons c cs ih => simpa [List.foldl, foldStep] using ih

/-- `ProcessBuilder` is the left fold of `relabel` with early exit on drop. -/
theorem process_fold (cs : List Config) (b : Builder) :
    process cs b = cs.foldl foldStep (true, b) := by
  induction cs generalizing b with
  | nil => rfl
  | cons c cs ih =>
    simp only [process, List.foldl, foldStep]
    cases h : (relabel c b).1 with
    | true => simp [ih, ← h]
    | false =>
      have : relabel c b = (false, (relabel c b).2) := by rw [← h]
      simp
      rw [this, foldStep_false]

end Prom.C38
