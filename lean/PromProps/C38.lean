import PromModel.Ingest.Relabel
import PromModel.Suites.RelabelSuite
import PromProofs.Relabel
/-
  C38 — Relabeling follows its documented semantics.
  Property theorems only; helper lemmas live in PromProofs/Relabel.lean.

  The regex of a rule enters as the parameter `Config.regex : Regex` (its anchored submatch
  function `run : String → Option (List String)`, its group names, and whether it is the default
  regex object); every theorem below holds for an arbitrary such function, hypotheses on it are
  stated explicitly where needed.
-/
namespace Prom.C38
open Prom.Relabel

/-! ## result_canonical -/

/-- The result clause of the property: sorted by name (byte-wise), no empty values, no duplicate names. -/
def Canonical (ls : List Label) : Prop :=
  Sorted ls ∧ (∀ l ∈ ls, l.value ≠ "") ∧ NodupNames ls

/-- For any rule chain (valid or not) and any builder satisfying the builder invariant, whatever
    `ProcessBuilder` leaves behind yields a canonical label set. -/
theorem result_canonical_inv (cs : List Config) (b : Builder) (h : Inv b) :
    Canonical (process cs b).2.labels := by
  have hc := labels_canonical (inv_process cs h)
  exact ⟨hc.1, hc.2, hc.1.nodup⟩

/-- For any rule chain and any sorted input label set (empty values allowed, as `FromStrings`
    produces them), the output of `ProcessBuilder` + `Labels()` is sorted, has no empty values and
    no duplicate names. -/
theorem result_canonical (cs : List Config) (base : List Label) (h : Sorted base) :
    Canonical (process cs (Builder.new base)).2.labels :=
  result_canonical_inv cs _ (inv_new h)

/-- The judge's canonical clause is the theorem's predicate. -/
theorem canonicalB_of_canonical {ls : List Label} (h : Canonical ls) : canonicalB ls = true := by
  obtain ⟨hs, hv, hn⟩ := h
  have h1 : sortedB ls = true := by
    induction ls with
    | nil => rfl
    | cons a rest ih =>
      cases rest with
      | nil => rfl
      | cons b rest =>
        have hp := List.pairwise_cons.mp hs
        have hn' := List.pairwise_cons.mp hn
        simp only [sortedB, Bool.and_eq_true]
        exact ⟨hp.1 b (by simp), ih hp.2 (fun l hl => hv l (by simp [hl])) hn'.2⟩
  have h2 : noEmptyB ls = true := by
    simp only [noEmptyB, List.all_eq_true]
    intro l hl
    simpa using hv l hl
  have h3 : nodupB ls = true := by
    clear h1 h2
    induction ls with
    | nil => rfl
    | cons a rest ih =>
      have hp := List.pairwise_cons.mp hs
      have hn' := List.pairwise_cons.mp hn
      simp only [nodupB, Bool.and_eq_true]
      refine ⟨?_, ih hp.2 (fun l hl => hv l (by simp [hl])) hn'.2⟩
      cases hh : hasName rest a.name with
      | false => rfl
      | true =>
        obtain ⟨x, hx, e⟩ := hasName_iff.mp hh
        exact absurd e.symm (hn'.1 x hx)
  simp [canonicalB, h1, h2, h3]

/-- The model's own output passes the judge's canonical clause. -/
theorem model_result_canonicalB (cs : List Config) (base : List Label) (h : Sorted base) :
    canonicalB (process cs (Builder.new base)).2.labels = true :=
  canonicalB_of_canonical (result_canonical cs base h)

example : Sorted [⟨"a", ""⟩, ⟨"b", "x"⟩] := by
  unfold Sorted; decide

/-! ## process_fold -/

/-- One step of the left fold with early exit: once dropped, later rules are not applied. -/
def foldStep (st : Bool × Builder) (c : Config) : Bool × Builder :=
  if st.1 then relabel c st.2 else st

theorem foldStep_false (cs : List Config) (b : Builder) :
    cs.foldl foldStep (false, b) = (false, b) := by
  induction cs with
  | nil => rfl
  | cons c cs ih => simpa [List.foldl, foldStep] using ih

/-- `ProcessBuilder` is the left fold of `relabel` with early exit on drop. -/
theorem process_fold (cs : List Config) (b : Builder) :
    process cs b = cs.foldl foldStep (true, b) := by
  induction cs generalizing b with
  | nil => rfl
  | cons c cs ih =>
    simp only [process, List.foldl, foldStep]
    cases h : (relabel c b).1 with
    | true => simp [ih, ← h]
    | false =>
      have : relabel c b = (false, (relabel c b).2) := by rw [← h]
      simp
      rw [this, foldStep_false]

/-! ## keep_drop_spec -/

/-- `keep` retains the target iff the joined source value matches and never touches the labels;
    `drop` is the opposite; `keepequal`/`dropequal` compare the joined value with the target label. -/
theorem keep_drop_spec (c : Config) (b : Builder) :
    (c.action = .keep → relabel c b = ((c.regex.run (joinVals c b)).isSome, b)) ∧
    (c.action = .drop → relabel c b = (!(c.regex.run (joinVals c b)).isSome, b)) ∧
    (c.action = .keepequal → relabel c b = (b.get c.targetLabel == joinVals c b, b)) ∧
    (c.action = .dropequal → relabel c b = (b.get c.targetLabel != joinVals c b, b)) := by
  refine ⟨?_, ?_, ?_, ?_⟩ <;> intro h <;> simp [relabel, h]

/-! ## replace_spec and fast_path_eq_general -/

/-- `replace`, general path: no match ⇒ nothing changes. -/
theorem replace_nomatch (c : Config) (b : Builder) (ha : c.action = .replace)
    (hf : fastPath c (joinVals c b) = false) (hm : c.regex.run (joinVals c b) = none) :
    relabel c b = (true, b) := by
  simp [relabel, ha, replaceStep, hf, replaceGeneral, hm]

/-- `replace`, general path: on a match with a valid expanded target name, the target label is set
    to the expanded replacement (an empty expansion deletes it: `Get` = ""), every other label is
    untouched, and the target is kept. An invalid expanded target name leaves everything unchanged. -/
theorem replace_spec (c : Config) (b : Builder) (caps : List String) (ha : c.action = .replace)
    (hf : fastPath c (joinVals c b) = false) (hm : c.regex.run (joinVals c b) = some caps) :
    let target := expand c.regex.names caps c.targetLabel
    let res := expand c.regex.names caps c.replacement
    (relabel c b).1 = true ∧
    (validName c.utf8 target = false → (relabel c b).2 = b) ∧
    (validName c.utf8 target = true →
       (relabel c b).2.get target = res ∧ ∀ n, n ≠ target → (relabel c b).2.get n = b.get n) := by
  intro target res
  have hr : (relabel c b).2 = replaceGeneral c b (joinVals c b) := by
    simp [relabel, ha, replaceStep, hf]
  refine ⟨by simp [relabel, ha], ?_, ?_⟩
  · intro hv
    rw [hr]
    simp only [replaceGeneral, hm]
    simp [target] at hv
    simp [hv]
  · intro hv
    rw [hr]
    simp only [replaceGeneral, hm]
    simp only [target] at hv
    simp only [hv, Bool.not_true, Bool.false_eq_true, if_false]
    split
    · rename_i he
      have he : res = "" := by simpa [res] using he
      refine ⟨by rw [get_delete_eq, he], fun n hn => get_delete_ne b hn⟩
    · exact ⟨get_set_eq b _ _, fun n hn => get_set_ne b _ hn⟩

/-- The hypotheses of `replace_spec` are satisfiable (general path, match, template target). -/
example : ∃ (c : Config) (b : Builder) (caps : List String), c.action = .replace ∧
    fastPath c (joinVals c b) = false ∧ c.regex.run (joinVals c b) = some caps ∧
    validName c.utf8 (expand c.regex.names caps c.targetLabel) = true :=
  ⟨{ action := .replace, sourceLabels := ["a"], separator := ";",
     regex := { run := fun s => some [s, s], names := ["", ""], isDefault := false },
     modulus := 0, targetLabel := "l_${1}", replacement := "$1", utf8 := false },
   Builder.new [⟨"a", "v"⟩], ["v", "v"], rfl, by decide, by decide, by decide⟩

/-- The `replace` fast path (`val == ""`, default regex object, no `$` in target and replacement)
    equals the general path on its domain: whenever the regex matches the empty joined value (the
    default `(.*)` does) and the target is a valid name (guaranteed by `Validate`). -/
theorem fast_path_eq_general (c : Config) (b : Builder) (val : String) (caps : List String)
    (hf : fastPath c val = true) (hm : c.regex.run val = some caps)
    (hv : validName c.utf8 c.targetLabel = true) :
    b.set c.targetLabel c.replacement = replaceGeneral c b val := by
  simp only [fastPath, Bool.and_eq_true, Bool.not_eq_true'] at hf
  obtain ⟨⟨⟨_, _⟩, ht⟩, hr⟩ := hf
  simp only [replaceGeneral, hm, expand_noVar _ _ _ ht, expand_noVar _ _ _ hr, hv, Bool.not_true,
    Bool.false_eq_true, if_false]
  split
  · rename_i he
    simp only [Builder.set, he, if_true]
  · rfl

/-- The hypotheses of `fast_path_eq_general` are satisfiable: the default rule `(.*)` → `$1`-free
    replacement on an absent source label. -/
example : ∃ (c : Config) (caps : List String), fastPath c "" = true ∧ c.regex.run "" = some caps ∧
    validName c.utf8 c.targetLabel = true ∧ c.validate = true :=
  ⟨{ action := .replace, sourceLabels := ["missing"], separator := ";",
     regex := { run := fun s => some [s, s], names := ["", ""], isDefault := true },
     modulus := 0, targetLabel := "job", replacement := "x", utf8 := false }, ["", ""],
   by decide, rfl, by decide, by decide⟩

/-- `Validate` guarantees the side condition of `fast_path_eq_general`. -/
theorem validate_fast_path_target (c : Config) (ha : c.action = .replace) (hval : c.validate = true)
    (ht : hasVar c.targetLabel = false) : validName c.utf8 c.targetLabel = true := by
  simp only [Config.validate, ha, ht] at hval
  simp at hval
  cases h : validName c.utf8 c.targetLabel with
  | true => rfl
  | false => simp [h] at hval

/-! ## labelmap_uses_snapshot -/

/-- `labelmap` iterates over the snapshot `b.range` taken before the first `Set`: exactly one
    callback per label visible *before* the rule, so labels created by the rule are not re-mapped. -/
theorem labelmap_uses_snapshot (c : Config) (b : Builder) (ha : c.action = .labelmap) :
    relabel c b = (true, b.range.foldl (labelMapStep c) b) := by
  simp [relabel, ha]

/-- Consequence: a name that is not the image of any snapshot label keeps its value. -/
theorem labelmap_untouched (c : Config) (b : Builder) (ha : c.action = .labelmap) (n : String)
    (hn : ∀ l ∈ b.range, ∀ caps, c.regex.run l.name = some caps →
            expand c.regex.names caps c.replacement ≠ n) :
    (relabel c b).2.get n = b.get n := by
  rw [labelmap_uses_snapshot c b ha]
  simp only
  generalize b.range = ls at hn
  induction ls generalizing b with
  | nil => rfl
  | cons x xs ih =>
    simp only [List.foldl]
    have h1 : (labelMapStep c b x).get n = b.get n := by
      unfold labelMapStep
      split
      · rename_i caps hc
        exact get_set_ne b _ (fun e => hn x (by simp) caps hc e.symm)
      · rfl
    rw [← h1]
    exact ih (labelMapStep c b x) (fun l hl => hn l (by simp [hl]))

/-- Witness that the snapshot matters: with a live iteration `a ↦ aa ↦ aaa ↦ …` would not stop. -/
theorem labelmap_snapshot_witness :
    let re : Regex := { run := fun s => some [s, s], names := ["", ""], isDefault := false }
    let c : Config := { action := .labelmap, sourceLabels := [], separator := ";", regex := re,
                        modulus := 0, targetLabel := "", replacement := "${1}a", utf8 := false }
    (relabel c (Builder.new [⟨"a", "1"⟩])).2.labels = [⟨"a", "1"⟩, ⟨"aa", "1"⟩] := by
  decide

/-! ## labeldrop_labelkeep_spec -/

/-- After `labeldrop` a label is gone iff its name matches, all others keep their values;
    `labelkeep` is the complement. Stated on `Get` (absent = ""), for every name. -/
theorem labeldrop_labelkeep_spec (c : Config) (b : Builder) (n : String) :
    (c.action = .labeldrop →
      (relabel c b).1 = true ∧
      (relabel c b).2.get n = if (c.regex.run n).isSome then "" else b.get n) ∧
    (c.action = .labelkeep →
      (relabel c b).1 = true ∧
      (relabel c b).2.get n = if (c.regex.run n).isSome then b.get n else "") := by
  have key : ∀ p : String → Bool,
      (b.range.foldl (fun acc l => if p l.name then acc.delete l.name else acc) b).get n
        = if p n then "" else b.get n := by
    intro p
    rw [get_foldl_delete]
    by_cases hp : p n = true
    · simp only [hp, if_true]
      split
      · rfl
      · rename_i hany
        by_cases hg : b.get n = ""
        · exact hg
        · obtain ⟨l, hl, hln⟩ := get_ne_empty_mem_range hg
          exfalso; apply hany
          rw [List.any_eq_true]
          exact ⟨l, hl, by simp [hln, hp]⟩
    · have hp' : p n = false := by simpa using hp
      simp only [hp', Bool.false_eq_true, if_false]
      split
      · rename_i hany
        rw [List.any_eq_true] at hany
        obtain ⟨l, _, hl⟩ := hany
        simp only [Bool.and_eq_true, beq_iff_eq] at hl
        rw [hl.2] at hl
        rw [hl.1] at hp'
        exact Bool.noConfusion hp'
      · rfl
  constructor
  · intro ha
    refine ⟨by simp [relabel, ha], ?_⟩
    have := key (fun s => (c.regex.run s).isSome)
    have h2 : (relabel c b).2 = b.range.foldl (labelDropStep c) b := by simp [relabel, ha]
    rw [h2]
    exact this
  · intro ha
    refine ⟨by simp [relabel, ha], ?_⟩
    have := key (fun s => !(c.regex.run s).isSome)
    have h2 : (relabel c b).2 = b.range.foldl (fun acc l => if (fun s => !(c.regex.run s).isSome) l.name then acc.delete l.name else acc) b := by
      simp only [relabel, ha]
      congr 1
      funext acc l
      simp only [labelKeepStep]
      by_cases h : (c.regex.run l.name).isSome = true <;> simp [h]
    rw [h2, this]
    by_cases h : (c.regex.run n).isSome = true <;> simp [h]

/-! ## hashmod_range -/

/-- `hashmod` writes the decimal form of a number below the modulus into the target label
    (whatever the hash function is — MD5 is executable-only), and keeps the target. -/
theorem hashmod_range (c : Config) (b : Builder) (ha : c.action = .hashmod) (hm : 0 < c.modulus) :
    ∃ k, k < c.modulus ∧ relabel c b = (true, b.set c.targetLabel (toString k)) :=
  ⟨md5Last8 (joinVals c b) % c.modulus, Nat.mod_lt _ hm, by simp [relabel, ha]⟩

example : ∃ c : Config, c.action = .hashmod ∧ 0 < c.modulus ∧ c.validate = true :=
  ⟨{ action := .hashmod, sourceLabels := ["a"], separator := ";",
     regex := { run := fun s => some [s, s], names := ["", ""], isDefault := true },
     modulus := 7, targetLabel := "shard", replacement := "$1", utf8 := false }, rfl, by decide, by decide⟩

end Prom.C38
