import PromModel.Remote.ReadCodec
import PromProofs.ReadCodec
import PromModel.Suites.RemoteReadSuite
/-
  C42 — Remote read returns the same data as a local query.

  Model: `Prom.ReadCodec` (sampled path `toQueryResult`/`wire`/`fromQueryResult`, chunked path
  `stream`/`decodeFrames`, external labels).  Everything below is about those definitions, which the
  suite `rr` runs against the real read handler + read client on every check.
-/
namespace Prom.C42
open Prom.Merge (Sample Kind Labels)
open Prom.ReadCodec Prom.ReadCodecProofs

/-! ## Range trimming (`chunkedSeriesIterator`) -/

/-- Draining the client's chunk iterator over time-ordered samples returns exactly the samples inside
    `[mint, maxt]`: samples outside are dropped, nothing else is. -/
theorem range_trim_spec (mint maxt : Int) (xs : List Sample) (hs : xs.Pairwise (fun a b => a.t ≤ b.t)) :
    trimWalk mint maxt xs = xs.filter (fun s => decide (mint ≤ s.t ∧ s.t ≤ maxt)) :=
  trimWalk_eq_filter mint maxt xs hs

example : trimWalk 2 3 [⟨1, .float, 0⟩, ⟨2, .float, 1⟩, ⟨3, .hist, 4⟩, ⟨4, .float, 2⟩] = [⟨2, .float, 1⟩, ⟨3, .hist, 4⟩] := by
  decide

/-! ## Streamed chunks -/

/-- Cutting a series into frames loses and reorders nothing: the frames' chunks concatenate to the
    series' chunks, for every byte budget (also ≤ 0). -/
theorem frames_concat (maxData : Int) (cs : List RChunk) (h : cs ≠ []) :
    (framesAux maxData maxData [] cs).flatten = cs := by
  simpa using framesAux_flatten maxData cs maxData [] h

/-- `chunked_roundtrip` — for the REPAIRED client (adjacent frames with equal labels are one series):
    for every frame size (any `maxBytes`, also smaller than one chunk or than the labels), any external
    labels and any range, decoding the stream yields exactly the input series — same labels (with the
    server's external labels), in the same order, each with the samples of all its chunks trimmed to
    the range.  Hypotheses: every series has a chunk and neighbouring series differ in their labels
    (the storage returns each series once). -/
theorem chunked_roundtrip (ext : Labels) (maxBytes mint maxt : Int) (ss : List ChunkSeries)
    (hne : ∀ s ∈ ss, s.chunks ≠ []) (hadj : AdjDistinct ext ss) :
    decodeFrames true mint maxt (stream ext maxBytes ss) =
      ss.map fun s => ⟨mergeLabels s.labels ext, trimWalk mint maxt (s.chunks.flatMap (·.samples))⟩ := by
  unfold decodeFrames clientFrames
  simp only [if_true]
  rw [mergeAdj_stream ext maxBytes ss hne hadj, List.map_map]
  rfl

example : AdjDistinct [] [⟨[("a", "1")], []⟩, ⟨[("a", "2")], []⟩] := ⟨by decide, trivial⟩

/-- the byte budget of a frame is never exhausted before the last chunk of the series -/
def FitsOneFrame (left : Int) : List RChunk → Prop
  | c :: d :: rest => left - chunkSize c > 0 ∧ FitsOneFrame (left - chunkSize c) (d :: rest)
  | _ => True

theorem framesAux_single (m : Int) : ∀ (cs : List RChunk) (left : Int) (acc : List RChunk), cs ≠ [] →
    FitsOneFrame left cs → framesAux m left acc cs = [acc.reverse ++ cs] := by
  intro cs
  induction cs with
  | nil => intro _ _ h; exact absurd rfl h
  | cons c rest ih =>
    intro left acc _ hf
    cases rest with
    | nil => simp [framesAux]
    | cons d rest' =>
      unfold framesAux
      simp only [hf.1, if_true]
      rw [ih _ _ (by simp) hf.2]; simp

/-- `chunked_roundtrip_partial` — the client AS IT STANDS (one series per frame): the round trip holds
    when every series fits one frame.  The full statement (`chunked_roundtrip` with `fixed = false`) is
    false: `split_series_duplicated_witness`. -/
theorem chunked_roundtrip_partial (ext : Labels) (maxBytes mint maxt : Int) (ss : List ChunkSeries)
    (hne : ∀ s ∈ ss, s.chunks ≠ [])
    (hfit : ∀ s ∈ ss, FitsOneFrame (maxDataLength maxBytes (mergeLabels s.labels ext)) s.chunks) :
    decodeFrames false mint maxt (stream ext maxBytes ss) =
      ss.map fun s => ⟨mergeLabels s.labels ext, trimWalk mint maxt (s.chunks.flatMap (·.samples))⟩ := by
  unfold decodeFrames clientFrames stream
  simp only [Bool.false_eq_true, if_false]
  induction ss with
  | nil => simp
  | cons s rest ih =>
    have ih' := ih (fun x hx => hne x (List.mem_cons_of_mem _ hx)) (fun x hx => hfit x (List.mem_cons_of_mem _ hx))
    rw [List.flatMap_cons, List.map_append, ih']
    have hs := hne s (List.mem_cons_self ..)
    have hf := hfit s (List.mem_cons_self ..)
    have hse : streamSeries ext maxBytes s = (framesAux (maxDataLength maxBytes (mergeLabels s.labels ext))
        (maxDataLength maxBytes (mergeLabels s.labels ext)) [] s.chunks).map fun cs => (⟨mergeLabels s.labels ext, cs⟩ : Frame) := rfl
    rw [hse, framesAux_single _ _ _ _ hs hf]
    simp [decodeFrame]

def wLabels : Labels := [("__name__", "m")]
def wC1 : RChunk := ⟨1, 2, 1, 100, [⟨1, .float, 7⟩, ⟨2, .float, 8⟩]⟩
def wC2 : RChunk := ⟨3, 4, 1, 100, [⟨3, .float, 9⟩, ⟨4, .float, 10⟩]⟩

example : FitsOneFrame (maxDataLength 1000 (mergeLabels wLabels [])) [wC1, wC2] := ⟨by decide, trivial⟩

/-- F22: with a 50-byte frame limit one series with two 100-byte chunks is streamed as two frames; the
    client as it stands hands out the label set TWICE with disjoint samples, the repaired client once. -/
theorem split_series_duplicated_witness :
    decodeFrames false 0 100 (stream [] 50 [⟨wLabels, [wC1, wC2]⟩]) =
      [⟨wLabels, [⟨1, .float, 7⟩, ⟨2, .float, 8⟩]⟩, ⟨wLabels, [⟨3, .float, 9⟩, ⟨4, .float, 10⟩]⟩] ∧
    decodeFrames true 0 100 (stream [] 50 [⟨wLabels, [wC1, wC2]⟩]) =
      [⟨wLabels, [⟨1, .float, 7⟩, ⟨2, .float, 8⟩, ⟨3, .float, 9⟩, ⟨4, .float, 10⟩]⟩] := by
  decide

/-! ## Sampled response -/

/-- `sampled_roundtrip` — encoding a query result as `prompb.QueryResult` (floats and histograms in
    separate arrays), sending it, and decoding it with `FromQueryResult` + `concreteSeriesIterator`
    gives back exactly the series: for all series lists in label order with valid labels, strictly
    increasing timestamps (floats, histograms and float histograms mixed freely), no `-0.0` value, and
    a sample limit that is off or not exceeded. -/
theorem sampled_roundtrip (ss : List Series) (limit : Int)
    (hlim : limit ≤ 0 ∨ ((total ss : Nat) : Int) ≤ limit)
    (hvalid : ∀ s ∈ ss, validLabels s.labels = true)
    (hsorted : AdjSorted (·.labels) ss)
    (hts : ∀ s ∈ ss, s.samples.Pairwise (fun a b => a.t < b.t))
    (hnz : ∀ s ∈ ss, ∀ x ∈ s.samples, x.kind = .float → x.payload ≠ negZeroBits) :
    (toQueryResult ss limit).bind (fun ps => fromQueryResult true (wire ps)) = .ok ss := by
  unfold toQueryResult
  rw [toQueryResultAux_ok limit ss 0 (by simpa using hlim)]
  simp only [Except.bind]
  have hw : wire (ss.map fun s => (⟨s.labels, splitFloats s.samples, splitHists s.samples⟩ : PbSeries)) =
      ss.map fun s => (⟨s.labels, splitFloats s.samples, splitHists s.samples⟩ : PbSeries) := by
    unfold wire
    rw [List.map_map]
    apply List.map_congr_left
    intro s hs
    simp [wireFloat_id s.samples (hnz s hs)]
  rw [hw]
  unfold fromQueryResult
  have hall : (ss.map fun s => (⟨s.labels, splitFloats s.samples, splitHists s.samples⟩ : PbSeries)).all
      (fun p => validLabels p.labels) = true := by
    simp only [List.all_map, List.all_eq_true]
    intro s hs; exact hvalid s hs
  simp only [hall, if_true]
  have hsrt : AdjSorted (fun p : PbSeries => p.labels)
      (ss.map fun s => (⟨s.labels, splitFloats s.samples, splitHists s.samples⟩ : PbSeries)) := by
    clear hw hall hlim hvalid hts hnz
    induction ss with
    | nil => trivial
    | cons a r ih =>
      cases r with
      | nil => trivial
      | cons b r' => exact ⟨hsorted.1, ih hsorted.2⟩
  rw [sortBy_id _ _ hsrt, List.map_map]
  congr 1
  conv => rhs; rw [← List.map_id ss]
  apply List.map_congr_left
  intro s hs
  simp only [Function.comp, id]
  rw [interleave_split s.samples (hts s hs)]

example : AdjSorted (·.labels) [(⟨[("a", "1")], []⟩ : Series), ⟨[("a", "1"), ("b", "2")], []⟩] := ⟨by decide, trivial⟩

/-- C42-F1: the wire drops the sign of `-0.0` (proto3 omits a double equal to zero). -/
theorem negative_zero_lost_witness :
    wire [⟨wLabels, [⟨5, negZeroBits⟩], []⟩] = [⟨wLabels, [⟨5, 0⟩], []⟩] := by decide

/-- `concrete_iterator_seek_spec`, full statement: every `Seek`/`Next` script on a fresh
    `concreteSeriesIterator` answers like the reference iterator over the interleaved samples (`Seek t`
    stays on the current sample if it is at or after `t`, else moves to the first later sample with
    timestamp ≥ `t`; `Next` moves to the following sample; exhausted stays exhausted).  NOT proved — it is
    FALSE for the code as it stands (`noop_seek_skips_first_histogram_witness`, finding C42-F3); the
    suite's judge evaluates exactly this equation on every generated script of the real iterator. -/
def concrete_iterator_seek_spec_full : Prop :=
  ∀ (p : PbSeries) (script : List Prom.RemoteRead.Step),
    (∀ f ∈ p.floats, ∀ h ∈ p.hists, f.t ≠ h.t) →
    p.floats.Pairwise (fun a b => a.t < b.t) → p.hists.Pairwise (fun a b => a.t < b.t) →
    Prom.RemoteRead.runScriptC (CIt.fresh p) script =
      Prom.RemoteRead.specScript (Prom.Merge.It.ofList 0 (interleave p.floats p.hists)) script

/-- the full statement is refuted by the script `Next, Seek 1026, Next` -/
theorem concrete_iterator_seek_spec_full_false_witness : ¬ concrete_iterator_seek_spec_full := by
  intro h
  have := h ⟨[], [⟨1051, 0⟩], [⟨1065, true, 12⟩, ⟨1082, true, 24⟩]⟩ [.next, .seek 1026, .next]
    (by decide) (by decide) (by decide)
  have hi : interleave [⟨1051, 0⟩] [⟨1065, true, 12⟩, ⟨1082, true, 24⟩] =
      [⟨1051, .float, 0⟩, ⟨1065, .fhist, 12⟩, ⟨1082, .fhist, 24⟩] := by
    simp [interleave, PF.sample, PH.sample]
  rw [hi] at this
  revert this
  decide

/-- C42-F3: floats [1051], histograms [1065, 1082]: `Next` → 1051, `Seek(1026)` → 1051 (no-op, but the
    histogram cursor moved from -1 to 0), `Next` → 1082: the histogram at 1065 is skipped. -/
theorem noop_seek_skips_first_histogram_witness :
    let c := CIt.fresh ⟨[], [⟨1051, 0⟩], [⟨1065, true, 12⟩, ⟨1082, true, 24⟩]⟩
    c.next.at = some ⟨1051, .float, 0⟩ ∧ (c.next.seek 1026).at = some ⟨1051, .float, 0⟩ ∧
    ((c.next.seek 1026).next).at = some ⟨1082, .fhist, 24⟩ ∧
    interleave [⟨1051, 0⟩] [⟨1065, true, 12⟩, ⟨1082, true, 24⟩] =
      [⟨1051, .float, 0⟩, ⟨1065, .fhist, 12⟩, ⟨1082, .fhist, 24⟩] := by
  refine ⟨by decide, by decide, by decide, ?_⟩
  simp [interleave, PF.sample, PH.sample]

/-- `Seek`/`Next` on a concrete mixed series where the contract does hold (seek forward across kinds,
    no-op seek, seek past the end). -/
theorem concrete_iterator_seek_examples :
    let c := CIt.fresh ⟨[], [⟨10, 1⟩, ⟨30, 3⟩], [⟨20, false, 8⟩, ⟨40, true, 12⟩]⟩
    (c.seek 15).at = some ⟨20, .hist, 8⟩ ∧ ((c.seek 15).next).at = some ⟨30, .float, 3⟩ ∧
    ((c.seek 15).seek 5).at = some ⟨20, .hist, 8⟩ ∧ ((c.seek 31)).at = some ⟨40, .fhist, 12⟩ ∧
    (c.seek 41).at = none ∧ ((c.seek 41).next).at = none := by
  decide

/-! ## External labels -/

/-- `external_labels_roundtrip` (labels): the server attaches its external labels `E`, the client strips
    the names it had added as matchers — the label set the caller sees is the stored one, provided the
    stored series carries none of those names and no user matcher mentions them. -/
theorem external_labels_roundtrip (ms : List Matcher) (E ls : Labels)
    (hms : ∀ m ∈ ms, ∀ e ∈ E, m.name ≠ e.1) (hls : ∀ l ∈ ls, ∀ e ∈ E, l.1 ≠ e.1) :
    stripNames (addExternalLabels ms E).2 (mergeLabels ls E) = ls := by
  have hfil : (E.filter fun l => !ms.any fun m => m.name = l.1) = E := by
    apply List.filter_eq_self.mpr
    intro e he
    simp only [Bool.not_eq_true', List.any_eq_false, decide_eq_true_eq]
    intro m hm; exact hms m hm e he
  apply strip_merge
  · intro l hl hmem
    simp only [addExternalLabels, hfil, List.mem_map] at hmem
    obtain ⟨e, he, heq⟩ := hmem
    exact hls l hl e he heq.symm
  · intro e he
    simp only [addExternalLabels, hfil, List.mem_map]
    exact ⟨e, he, rfl⟩

theorem lookup_self : ∀ (E : Labels), E.Pairwise (fun a b => a.1 ≠ b.1) → ∀ e ∈ E, lookup E e.1 = e.2 := by
  intro E
  induction E with
  | nil => intro _ e he; cases he
  | cons a r ih =>
    intro hE e he
    unfold lookup
    rcases List.mem_cons.mp he with h | h
    · subst h; simp
    · have hne : a.1 ≠ e.1 := (List.pairwise_cons.mp hE).1 e h
      rw [List.find?_cons_of_neg (by simp [hne])]
      exact ih (List.pairwise_cons.mp hE).2 e h

/-- `external_labels_roundtrip` (matchers): the equality matchers the client adds for its external labels
    reach the storage as `name=""` (the stored series do not carry them), the user's matchers unchanged. -/
theorem external_labels_matchers (ms : List Matcher) (E : Labels)
    (hms : ∀ m ∈ ms, ∀ e ∈ E, m.name ≠ e.1) (hE : E.Pairwise (fun a b => a.1 ≠ b.1)) :
    filterExt (addExternalLabels ms E).1 E = ms ++ E.map (fun e => ⟨.eq, e.1, ""⟩) := by
  have hfil : (E.filter fun l => !ms.any fun m => m.name = l.1) = E := by
    apply List.filter_eq_self.mpr
    intro e he
    simp only [Bool.not_eq_true', List.any_eq_false, decide_eq_true_eq]
    intro m hm; exact hms m hm e he
  have hlook_none : ∀ m ∈ ms, lookup E m.name = "" := by
    intro m hm
    unfold lookup
    have : E.find? (fun x => decide (x.1 = m.name)) = none := by
      apply List.find?_eq_none.mpr
      intro e he; simp; exact fun h => hms m hm e he h.symm
    rw [this]
  have hlook := lookup_self E hE
  simp only [addExternalLabels, hfil, filterExt, List.map_append, List.map_map]
  congr 1
  · conv => rhs; rw [← List.map_id ms]
    apply List.map_congr_left
    intro m hm
    simp only [id]
    split
    · rename_i h
      obtain ⟨m1, m2, m3⟩ := m
      simp only at h
      rw [hlook_none _ hm] at h
      simp_all
    · rfl
  · apply List.map_congr_left
    intro e he
    simp [hlook e he]

example : ∀ m ∈ [(⟨.eq, "__name__", "m1"⟩ : Matcher)], ∀ e ∈ [("region", "r")], m.name ≠ e.1 := by decide

/-- C42-F2: the sampled response is sorted with the external label `c` still attached and stripped
    afterwards: `{m1}`, `{m1,b=1}` come back as `{m1,b=1}`, `{m1}` although `{m1} < {m1,b=1}`. -/
theorem external_label_order_witness :
    (sortBy (fun (x : Labels) => x)
        [mergeLabels [("__name__", "m1")] [("c", "s1")], mergeLabels [("__name__", "m1"), ("b", "1")] [("c", "s1")]]).map
      (stripNames ["c"]) = [[("__name__", "m1"), ("b", "1")], [("__name__", "m1")]] ∧
    Labels.compare [("__name__", "m1")] [("__name__", "m1"), ("b", "1")] = .lt := by decide

/-! ## Frame layout of `chunked.go` -/

def frameErr? : Except FrameErr α → Option FrameErr
  | .error e => some e
  | .ok _ => none

/-- a written frame is read back (and a damaged payload byte is rejected) — concrete instance with the
    checksum `crc = sum of the bytes`; the checksum function is a parameter of the model. -/
theorem frame_roundtrip_example :
    (readFrame (fun b => (b.map (·.toNat)).sum) 100 (writeFrame (fun b => (b.map (·.toNat)).sum) [1, 2, 3] ++ [9])).toOption = some ([1, 2, 3], [9]) ∧
    frameErr? (readFrame (fun b => (b.map (·.toNat)).sum) 100 [3, 0, 0, 0, 6, 1, 2, 4]) = some .checksum ∧
    frameErr? (readFrame (fun b => (b.map (·.toNat)).sum) 2 [3, 0, 0, 0, 6, 1, 2, 3]) = some .tooLarge := by
  decide

end Prom.C42
