import PromModel.Remote.ReadCodec
import PromModel.Suites.RemoteReadSuite
/-
  C42 — Remote read returns the same data as a local query.
-/
namespace Prom.C42
open Prom.Merge (Sample Kind Labels)
open Prom.ReadCodec

/-- `trimWalk` keeps nothing above `maxt`. -/
theorem trimWalk_le_maxt (mint maxt : Int) (xs : List Sample) :
    ∀ s ∈ trimWalk mint maxt xs, mint ≤ s.t ∧ s.t ≤ maxt := by
  induction xs with
  | nil => simp [trimWalk]
  | cons x r ih =>
    intro s hs
    unfold trimWalk at hs
    split at hs
    · simp at hs
    · split at hs
      · rcases List.mem_cons.mp hs with h | h
        · subst h; omega
        · exact ih s h
      · exact ih s hs

end Prom.C42
