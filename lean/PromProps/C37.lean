import PromModel.Ingest.ScrapeCache
import PromModel.Suites.ScrapeSuite
import PromProofs.Scrape
/-
  C37 — Scraping stores exactly the exposed samples and marks vanished series stale.
  Theorems about the model `Prom.Scrape` (PromModel/Ingest/ScrapeCache.lean), for ALL parameters
  (`mutate`, `check`, limits), ALL storages (`Store σ` is an arbitrary state machine) and all states.
-/
namespace Prom.C37
open Prom.Scrape

/-- `iterDone` swaps the staleness sets: what was tracked in this scrape becomes `seriesPrev`,
    `seriesCur` starts empty — whether or not the cache is flushed. -/
theorem iterDone_swaps (c : Cache) (flush : Bool) :
    (c.iterDone flush).prev = c.cur ∧ (c.iterDone flush).cur = [] ∧ (c.iterDone flush).heap = c.heap := by
  simp [Cache.iterDone]

/-- **failure_stales_all** (scrape error). From a loop state in which nothing is tracked for the
    current scrape (true between cycles, `cur_empty_invariant`), a failed scrape sends the storage
    exactly: one staleness marker at the scrape time for EVERY series tracked by the previous scrape
    (sorted), then the five report samples with `up = 0` and zero counts, then commits. Holds for every
    storage behaviour. -/
theorem failure_stales_all {σ} (S : Store σ) (P : Params) (l : Loop σ) (t : Int) (h : l.c.cur = []) :
    ∃ ms e1 e2 e3 e4 e5, (cycle S P l t .err).2 = ms ++ [e1, e2, e3, e4, e5, Ev.commit] ∧
      ms.map Ev.sig = (P.sortStale (l.c.prev.map fun p => ((l.c.ce p.2).ref, (l.c.ce p.2).lset))).map
        (fun x => some (x.2, t, some staleBits)) ∧
      e1.tv = some (t, some 0) ∧ e2.tv = some (t, none) ∧ e3.tv = some (t, some 0) ∧
      e4.tv = some (t, some 0) ∧ e5.tv = some (t, some 0) := by
  obtain ⟨hok, hk, hc, hev⟩ := appendBody_empty S P t l.c l.st
  rw [stale_of_cur_nil l.c h] at hev
  simp only [cycle, Scrape.items, Scrape.isBody, hok, if_true, Bool.and_false, hk]
  obtain ⟨e1, e2, e3, e4, e5, hr, t1, t2, t3, t4, t5, _, _⟩ :=
    report_spec S P (appendBody S P t l.c l.st []).s t false {}
  refine ⟨(appendBody S P t l.c l.st []).s.evs.reverse, e1, e2, e3, e4, e5, ?_, hev, ?_, t2, ?_, ?_, ?_⟩
  · simp [hr]
  · simpa using t1
  · simpa [natToF64Bits] using t3
  · simpa [natToF64Bits] using t4
  · simpa [natToF64Bits] using t5


/-- A scrape whose body could not be read completely is handled exactly like a scrape whose request
    failed: the cycle (next loop state and every storage event) does not depend on the part `read` of
    the body that `readResponse` had already copied into the scrape buffer — `scrapeAndReport` takes
    `buf.Bytes()` only `if scrapeErr == nil`. -/
theorem read_failure_ignores_partial_body {σ} (S : Store σ) (P : Params) (l : Loop σ) (t : Int)
    (read : List Item) : cycle S P l t (.readFail read) = cycle S P l t .err := rfl

/-- **read_failure_stores_nothing_partial_body**. A scrape whose read failed (connection cut or timeout
    in the middle of the body, `body_size_limit` reached) — WHATEVER prefix `read` of the body had been
    read, cut inside a line, at a line boundary or after the last line — sends the storage, for every
    storage behaviour: one staleness marker at the scrape time for EVERY series tracked by the previous
    scrape (sorted) and nothing else before the reports (so no sample of `read`, no rollback), then the
    five report samples with `up = 0` and ZERO counts (`scrape_samples_scraped`, `…_post_metric_relabeling`,
    `scrape_series_added`), then `commit`; and it tracks nothing for the next scrape (no series of the
    partial body can get a marker later). -/
theorem read_failure_stores_nothing_partial_body {σ} (S : Store σ) (P : Params) (l : Loop σ) (t : Int)
    (read : List Item) (h : l.c.cur = []) :
    ∃ ms e1 e2 e3 e4 e5, (cycle S P l t (.readFail read)).2 = ms ++ [e1, e2, e3, e4, e5, Ev.commit] ∧
      ms.map Ev.sig = (P.sortStale (l.c.prev.map fun p => ((l.c.ce p.2).ref, (l.c.ce p.2).lset))).map
        (fun x => some (x.2, t, some staleBits)) ∧
      e1.tv = some (t, some 0) ∧ e2.tv = some (t, none) ∧ e3.tv = some (t, some 0) ∧
      e4.tv = some (t, some 0) ∧ e5.tv = some (t, some 0) ∧
      (cycle S P l t (.readFail read)).1.c.prev = [] ∧ (cycle S P l t (.readFail read)).1.c.cur = [] := by
  obtain ⟨ms, e1, e2, e3, e4, e5, hev, hms, t1, t2, t3, t4, t5⟩ := failure_stales_all S P l t h
  refine ⟨ms, e1, e2, e3, e4, e5, ?_, hms, t1, t2, t3, t4, t5, ?_, ?_⟩
  · rw [read_failure_ignores_partial_body]; exact hev
  · obtain ⟨hok, _, hc, _⟩ := appendBody_empty S P t l.c l.st
    simp only [cycle, Scrape.items, Scrape.isBody, hok, if_true]
    rw [(report_spec S P _ t _ _).choose_spec.choose_spec.choose_spec.choose_spec.choose_spec.2.2.2.2.2.2.2, hc]
    simpa [Cache.iterDone] using h
  · obtain ⟨hok, _, hc, _⟩ := appendBody_empty S P t l.c l.st
    simp only [cycle, Scrape.items, Scrape.isBody, hok, if_true]
    rw [(report_spec S P _ t _ _).choose_spec.choose_spec.choose_spec.choose_spec.choose_spec.2.2.2.2.2.2.1, hc]
    simp [Cache.iterDone]

/-- a non-trivial instance of the hypothesis and of the partial body: the loop after a successful
    scrape of two series; the failed read had already delivered a parseable sample of one of them -/
example :
    let P : Params := {
      v2 := false, mutate := id, check := (fun _ => true), honorTs := true, trackTs := false,
      sampleLimit := 0, maxTime := 10 ^ 9, reportLabels := (fun n => [⟨"__name__", n⟩]),
      lsetLt := (fun a b => a.length < b.length) }
    let x : Sample := { key := "a", labels := [⟨"__name__", "a"⟩], bits := 1, ts := none }
    let y : Sample := { key := "b", labels := [⟨"__name__", "b"⟩], bits := 1, ts := none }
    let l := (cycle dblStore P { st := {} } 1000 (.body [.sample x, .sample y])).1
    l.c.cur = [] ∧ l.c.prev.length = 2 ∧
      ((cycle dblStore P l 2000 (.readFail [.sample { x with bits := 27 }])).2.filter
        (fun e => e.sig.map (·.2.2) == some (some staleBits))).length = 2 ∧
      (cycle dblStore P l 2000 (.readFail [.sample { x with bits := 27 }])).2.length = 8 := by
  decide

/-- **failed_scrape_stores_nothing_but_reports**. If the append of a body fails (parse error, missing
    name, invalid labels, label limit, sample limit), then for every storage the cycle is: whatever
    the failed append had sent, `rollback`, then ONLY staleness markers at the scrape time, the five
    report samples with `up = 0` (and the counters of the failed append), `commit`.
    The markers are those of `seriesPrev ∖ seriesCur` of the cache as the failed append left it — NOT of
    all of `seriesPrev`: the model keeps the implementation's behaviour (known finding C37-F1). -/
theorem failed_scrape_stores_nothing_but_reports {σ} (S : Store σ) (P : Params) (l : Loop σ) (t : Int)
    (items : List Item) (hf : (appendBody S P t l.c l.st items).ok = false) :
    ∃ ms e1 e2 e3 e4 e5, (cycle S P l t (.body items)).2 =
        (appendBody S P t l.c l.st items).s.evs.reverse ++ Ev.rollback :: ms ++ [e1, e2, e3, e4, e5, Ev.commit] ∧
      ms.map Ev.sig = (P.sortStale (appendBody S P t l.c l.st items).s.c.stale).map
        (fun x => some (x.2, t, some staleBits)) ∧
      e1.tv = some (t, some 0) ∧ e2.tv = some (t, none) ∧
      e3.tv = some (t, some (natToF64Bits (appendBody S P t l.c l.st items).k.total)) ∧
      e4.tv = some (t, some (natToF64Bits (appendBody S P t l.c l.st items).k.added)) ∧
      e5.tv = some (t, some (natToF64Bits (appendBody S P t l.c l.st items).k.seriesAdded)) := by
  generalize ha : appendBody S P t l.c l.st items = a at hf
  obtain ⟨hok, hk, hc, hev⟩ := appendBody_empty S P t (rollbackSt S a.s).c (rollbackSt S a.s).st
  simp only [cycle, Scrape.items, Scrape.isBody, ha, hf, Bool.false_eq_true, if_false, hok, if_true, Bool.false_and]
  generalize hb : appendBody S P t (rollbackSt S a.s).c (rollbackSt S a.s).st [] = b at hok hk hc hev
  obtain ⟨e1, e2, e3, e4, e5, hr, t1, t2, t3, t4, t5, _, _⟩ :=
    report_spec S P { b.s with evs := b.s.evs ++ (rollbackSt S a.s).evs } t false a.k
  refine ⟨b.s.evs.reverse, e1, e2, e3, e4, e5, ?_, ?_, ?_, t2, t3, t4, t5⟩
  · simp only [rollbackSt] at hr ⊢
    simp [hr]
  · simpa [rollbackSt] using hev
  · simpa using t1


/-- **stale_markers_exact**. A successful non-empty scrape sends, after the samples of the body, exactly
    one staleness marker at the scrape time for every entry of `seriesPrev` whose series ref was not
    tracked while this body was processed (`Cache.stale` of the cache at the end of the body loop),
    nothing else, then swaps: what this body tracked is `seriesPrev` of the next scrape. Together with
    `iterDone_swaps`/`cur_empty_invariant` this is: markers at scrape k = tracked(k−1) ∖ tracked(k). -/
theorem stale_markers_exact {σ} (S : Store σ) (P : Params) (t : Int) (c : Cache) (st : σ) (items : List Item)
    (hne : items ≠ []) (hok : (appendBody S P t c st items).ok = true) :
    ∃ mid k new, runItems S P t { c := c, st := st } {} items = (mid, k, true) ∧ k.limitErr = false ∧
      (appendBody S P t c st items).s.evs = new ++ mid.evs ∧
      new.reverse.map Ev.sig = (P.sortStale mid.c.stale).map (fun x => some (x.2, t, some staleBits)) ∧
      (appendBody S P t c st items).s.c = mid.c.iterDone true ∧
      (appendBody S P t c st items).s.c.prev = mid.c.cur ∧ (appendBody S P t c st items).k = k := by
  have hne' : items.isEmpty = false := by cases items <;> simp_all
  simp only [appendBody, hne'] at hok ⊢
  generalize hr : runItems S P t { c := c, st := st } {} items = r at hok ⊢
  obtain ⟨mid, k, ok⟩ := r
  simp only at hok ⊢
  by_cases h1 : (ok && !k.limitErr) = true
  · simp only [h1] at hok ⊢
    simp only [Bool.not_true, Bool.false_eq_true, if_false] at hok ⊢
    by_cases h2 : (staleMarkers (limitedAppend S P) t mid (P.sortStale mid.c.stale)).2 = true
    · obtain ⟨hc, new, hev, hsig⟩ := staleMarkers_limited S P t (P.sortStale mid.c.stale) mid h2
      simp only [Bool.and_eq_true, Bool.not_eq_eq_eq_not, Bool.not_true] at h1
      refine ⟨mid, k, new, by rw [h1.1], h1.2, ?_, hsig, ?_, ?_, ?_⟩ <;> simp [h2, hev, hc, Cache.iterDone]
    · simp [h2] at hok
  · simp [h1] at hok

/-- **cur_empty_invariant** (one step). After every `scrapeAndReport` cycle — successful or not, for every
    storage — nothing is tracked for the "current" scrape. -/
theorem cycle_cur_empty {σ} (S : Store σ) (P : Params) (l : Loop σ) (t : Int) (sc : Scrape) :
    (cycle S P l t sc).1.c.cur = [] := by
  have hempty : ∀ c st, (appendBody S P t c st []).s.c.cur = [] := by
    intro c st
    rw [(appendBody_empty S P t c st).2.2.1]; simp [Cache.iterDone]
  have hokcur : ∀ items, (appendBody S P t l.c l.st items).ok = true →
      (appendBody S P t l.c l.st items).s.c.cur = [] := by
    intro items hok
    by_cases hne : items = []
    · subst hne; exact hempty _ _
    · obtain ⟨mid, k, new, _, _, _, _, hc, _, _⟩ := stale_markers_exact S P t l.c l.st items hne hok
      rw [hc]; simp [Cache.iterDone]
  simp only [cycle]
  generalize sc.items = items
  rw [(report_spec S P _ t _ _).choose_spec.choose_spec.choose_spec.choose_spec.choose_spec.2.2.2.2.2.2.1]
  by_cases hok : (appendBody S P t l.c l.st items).ok = true
  · simp only [hok, if_true]; exact hokcur items hok
  · simp only [hok, Bool.false_eq_true, if_false]
    have hb := (appendBody_empty S P t (rollbackSt S (appendBody S P t l.c l.st items).s).c
      (rollbackSt S (appendBody S P t l.c l.st items).s).st).1
    simp only [hb, if_true]
    exact hempty _ _

theorem reportStale_tracking {σ} (S : Store σ) (P : Params) (t : Int) (names : List String) (s : LoopSt σ) :
    (names.foldl (fun s n => addReportSample S P s n t staleBits (some staleBits)) s).c.cur = s.c.cur := by
  induction names generalizing s with
  | nil => rfl
  | cons n rest ih =>
    simp only [List.foldl_cons]
    rw [ih]
    obtain ⟨_, _, _, hc, _⟩ := addReportSample_spec S P s n t staleBits (some staleBits)
    exact hc

theorem endOfRun_cur_empty {σ} (S : Store σ) (P : Params) (l : Loop σ) (h : l.c.cur = []) :
    (endOfRun S P l).1.c.cur = [] := by
  simp only [endOfRun]
  split
  · exact h
  · obtain ⟨hok, _, hc, _⟩ := appendBody_empty S P nowT l.c l.st
    simp only [hok, if_true, reportStale]
    rw [reportStale_tracking, hc]
    simp [Cache.iterDone]

/-- A history of a scrape loop: scrapes with arbitrary outcomes, target removal, and arbitrary
    interference with the storage (head GC, other writers, restarts of the storage …). -/
inductive HOp (σ : Type) where
  | scrape (t : Int) (sc : Scrape)
  | endRun
  | store (f : σ → σ)

def runH {σ} (S : Store σ) (P : Params) : Loop σ → List (HOp σ) → Loop σ
  | l, [] => l
  | l, .scrape t sc :: r => runH S P (cycle S P l t sc).1 r
  | l, .endRun :: r => runH S P (endOfRun S P l).1 r
  | l, .store f :: r => runH S P { l with st := f l.st } r

/-- **cur_empty_invariant**: in every state reachable by any history from a fresh loop, nothing is
    tracked for the current scrape — so (`failure_stales_all`) a failed scrape marks ALL series tracked
    by the previous cycle, and (`stale_markers_exact`) a successful one exactly those it did not track. -/
theorem cur_empty_invariant {σ} (S : Store σ) (P : Params) (ops : List (HOp σ)) (l : Loop σ)
    (h : l.c.cur = []) : (runH S P l ops).c.cur = [] := by
  induction ops generalizing l with
  | nil => exact h
  | cons op rest ih =>
    cases op with
    | scrape t sc => exact ih _ (cycle_cur_empty S P l t sc)
    | endRun => exact ih _ (endOfRun_cur_empty S P l h)
    | store f => exact ih _ h

example : ({ st := () } : Loop Unit).c.cur = [] := rfl

/-- **failure_stales_all** along histories: after ANY history, a failed scrape marks every entry of
    `seriesPrev`. -/
theorem failure_stales_all_reachable {σ} (S : Store σ) (P : Params) (ops : List (HOp σ)) (st0 : σ) (t : Int) :
    let l := runH S P { st := st0 } ops
    ∃ ms e1 e2 e3 e4 e5, (cycle S P l t .err).2 = ms ++ [e1, e2, e3, e4, e5, Ev.commit] ∧
      ms.map Ev.sig = (P.sortStale (l.c.prev.map fun p => ((l.c.ce p.2).ref, (l.c.ce p.2).lset))).map
        (fun x => some (x.2, t, some staleBits)) := by
  intro l
  obtain ⟨ms, e1, e2, e3, e4, e5, h1, h2, _⟩ :=
    failure_stales_all S P l t (cur_empty_invariant S P ops { st := st0 } rfl)
  exact ⟨ms, e1, e2, e3, e4, e5, h1, h2⟩

/-- **read_failure_stores_nothing_partial_body** along histories: after ANY history (including earlier
    failed reads and storage interference), a scrape whose read fails after an arbitrary part of the
    body marks every entry of `seriesPrev` stale, stores nothing else, reports `up = 0` with zero counts. -/
theorem read_failure_stores_nothing_reachable {σ} (S : Store σ) (P : Params) (ops : List (HOp σ)) (st0 : σ)
    (t : Int) (read : List Item) :
    let l := runH S P { st := st0 } ops
    ∃ ms e1 e2 e3 e4 e5, (cycle S P l t (.readFail read)).2 = ms ++ [e1, e2, e3, e4, e5, Ev.commit] ∧
      ms.map Ev.sig = (P.sortStale (l.c.prev.map fun p => ((l.c.ce p.2).ref, (l.c.ce p.2).lset))).map
        (fun x => some (x.2, t, some staleBits)) ∧
      e1.tv = some (t, some 0) ∧ e3.tv = some (t, some 0) ∧ e4.tv = some (t, some 0) ∧
      e5.tv = some (t, some 0) := by
  intro l
  obtain ⟨ms, e1, e2, e3, e4, e5, h1, h2, t1, _, t3, t4, t5, _⟩ :=
    read_failure_stores_nothing_partial_body S P l t read (cur_empty_invariant S P ops { st := st0 } rfl)
  exact ⟨ms, e1, e2, e3, e4, e5, h1, h2, t1, t3, t4, t5⟩

/-- **cache_flush_preserves_semantics** (partial). Flushing (`iterDone(true)`, or the forced flush of
    `iterDone(false)`) only removes entries from the two lookup maps: the staleness sets, the entries
    they point to and the iteration counter are the same as without a flush, hence so are the
    staleness markers of the next cycle (`Cache.stale` reads nothing else).
    Missing for the full statement (`cache_flush_preserves_semantics_full`): that re-deriving a flushed
    entry (relabel again, `Append` with ref 0) yields the same samples — needs the coherence invariant
    `cached lset = mutate (labels of key)` and a storage that resolves ref 0 to the same series. -/
theorem cache_flush_preserves_semantics_partial (c : Cache) :
    (c.iterDone true).stale = (c.iterDone false).stale ∧ (c.iterDone true).prev = (c.iterDone false).prev ∧
    (c.iterDone true).cur = (c.iterDone false).cur ∧ (c.iterDone true).heap = (c.iterDone false).heap ∧
    (c.iterDone true).iter = (c.iterDone false).iter := by
  simp [Cache.iterDone, Cache.stale, Cache.ce]

/-- The full statement (not proved): the events of every later cycle do not depend on whether the
    lookup maps were flushed, for inputs whose keys determine their labels and storages that resolve
    a ref and the labels it was handed out for to the same series. -/
def cache_flush_preserves_semantics_full : Prop :=
  ∀ {σ} (S : Store σ) (P : Params) (l : Loop σ) (t : Int) (sc : Scrape),
    (cycle S P { l with c := { l.c with series := [], dropped := [] } } t sc).2.map Ev.sig
      = (cycle S P l t sc).2.map Ev.sig

/-- **report_values_spec**. A cycle whose append succeeded ends with the five report samples at the
    scrape time: `up` = 1 iff the scrape itself succeeded, the duration, and the three counters the
    append returned, followed by `commit`; before them only what the append sent. -/
theorem report_values_spec {σ} (S : Store σ) (P : Params) (l : Loop σ) (t : Int) (sc : Scrape)
    (hok : (appendBody S P t l.c l.st sc.items).ok = true) :
    ∃ e1 e2 e3 e4 e5, (cycle S P l t sc).2 =
        (appendBody S P t l.c l.st sc.items).s.evs.reverse ++ [e1, e2, e3, e4, e5, Ev.commit] ∧
      e1.tv = some (t, some (if sc.isBody then natToF64Bits 1 else 0)) ∧ e2.tv = some (t, none) ∧
      e3.tv = some (t, some (natToF64Bits (appendBody S P t l.c l.st sc.items).k.total)) ∧
      e4.tv = some (t, some (natToF64Bits (appendBody S P t l.c l.st sc.items).k.added)) ∧
      e5.tv = some (t, some (natToF64Bits (appendBody S P t l.c l.st sc.items).k.seriesAdded)) := by
  simp only [cycle, hok, if_true, Bool.true_and]
  obtain ⟨e1, e2, e3, e4, e5, hr, t1, t2, t3, t4, t5, _, _⟩ :=
    report_spec S P (appendBody S P t l.c l.st sc.items).s t sc.isBody (appendBody S P t l.c l.st sc.items).k
  exact ⟨e1, e2, e3, e4, e5, by simp [hr], t1, t2, t3, t4, t5⟩

/-- The full first clause (not proved as a theorem; checked on every run by the judge against the real
    loop): for inputs whose key determines the labels, every sample event of a body carries
    `mutate labels`, the explicit timestamp (if honoured) or the scrape time, and the exposed value. The
    proof needs the coherence invariant `cached lset = mutate (labels of key)` over histories. -/
def scrape_stores_exposed_full : Prop :=
  ∀ {σ} (S : Store σ) (P : Params) (f : String → Labels) (ops : List (HOp σ)) (st0 : σ) (t : Int)
    (items : List Item), (∀ x, Item.sample x ∈ items → x.labels = f x.key) →
    (∀ op ∈ ops, ∀ t' items', op = HOp.scrape t' (.body items') → ∀ x, Item.sample x ∈ items' → x.labels = f x.key) →
    let l := runH S P { st := st0 } ops
    ∀ e ∈ (runItems S P t { c := l.c, st := l.st } {} items).1.evs, ∃ x, Item.sample x ∈ items ∧
      e.sig = some (P.mutate x.labels, (if P.honorTs then x.ts else none).getD t, some x.bits)

example : natToF64Bits 1 = 0x3ff0000000000000 := by decide
example : natToF64Bits 5 = 0x4014000000000000 := by decide

end Prom.C37
