import PromModel.Ingest.ScrapeCache
import PromModel.Suites.ScrapeSuite
/-
  C37 — Scraping stores exactly the exposed samples and marks vanished series stale.
  Theorems about the model `Prom.Scrape` (PromModel/Ingest/ScrapeCache.lean), for ALL parameters
  (`mutate`, `check`, limits), ALL storages (`Store σ` is an arbitrary state machine) and all states.
-/
namespace Prom.C37
open Prom.Scrape

/-- `iterDone` swaps the staleness sets: what was tracked in this scrape becomes `seriesPrev`,
    `seriesCur` starts empty — whether or not the cache is flushed. -/
theorem iterDone_swaps (c : Cache) (flush : Bool) :
    (c.iterDone flush).prev = c.cur ∧ (c.iterDone flush).cur = [] ∧ (c.iterDone flush).heap = c.heap := by
  simp [Cache.iterDone]

end Prom.C37
