import PromModel.Tsdb.BlockIndex
import PromProofs.BlockIndex
/-
  C24 — persistent blocks round-trip and detect corruption.

  Everything below is about the model `PromModel/Tsdb/BlockIndex.lean` (chunk segment records,
  index series entries, symbol table, TOC, whole index file), for an ARBITRARY checksum function
  `crc`; the damage theorems for bytes inside a CRC-covered region additionally assume
  `CrcDetects1 crc` (a single changed byte changes the checksum), those for the stored checksum
  bytes assume nothing.  Not claimed: damage of the length prefix (it is outside the covered region:
  the reader then checks a different region against different "checksum" bytes, which is caught
  with probability 1 − 2⁻³² only) and of padding; the harness reports those positions separately.
-/
namespace Prom.C24
open Prom.Enc Prom.BlockIndex

/-! ## Chunk records -/

/-- `ChunkOrIterable` on a record written by `WriteChunks`, anywhere in a segment: the encoding and
    the bytes come back for every data length `< 2^35` (the bound of the 5-byte length field the
    writer and the reader use); an encoding outside 1..6 is an error (chunkenc pool). -/
theorem chunk_record_roundtrip (crc : Crc) (enc : UInt8) (data pre post : Bytes)
    (hlen : data.length < 34359738368) :
    readChunkAt crc (pre ++ chunkRecord crc enc data ++ post) pre.length =
      if validEnc enc then .ok (enc, data) else .error .badEncoding := by
  unfold chunkRecord
  rw [readChunkAt_frame crc pre post (enc :: data) _ data.length hlen (by simp; omega) (crcBytes_length _ _)]
  simp

example : readChunkAt (fun _ => 7) ([1, 2] ++ chunkRecord (fun _ => 7) 1 [9, 9, 9] ++ [5]) 2 = .ok (1, [9, 9, 9]) := by
  rfl

/-- The same through a reference `segment·2^32 + offset`. -/
theorem chunk_roundtrip_by_ref (crc : Crc) (segs : List Bytes) (sgm : Nat) (enc : UInt8) (data pre post : Bytes)
    (hlen : data.length < 34359738368) (hs : sgm < 4294967296) (hp : pre.length < 4294967296)
    (hseg : segs[sgm]? = some (pre ++ chunkRecord crc enc data ++ post)) (henc : validEnc enc = true) :
    readChunk crc segs (sgm * 4294967296 + pre.length) = .ok (enc, data) := by
  unfold readChunk
  have e1 : (sgm * 4294967296 + pre.length) / 4294967296 % 4294967296 = sgm := by omega
  have e2 : (sgm * 4294967296 + pre.length) % 4294967296 = pre.length := by omega
  simp only [e1, e2, hseg]
  rw [chunk_record_roundtrip crc enc data pre post hlen, if_pos henc]

/-- A changed byte inside the CRC-covered region (encoding byte or data) of a chunk record is an
    error — never different data. -/
theorem chunk_damage_detected (crc : Crc) (hcrc : CrcDetects1 crc) (enc : UInt8) (data pre post b1 b2 : Bytes)
    (x y : UInt8) (hlen : data.length < 34359738368) (hsplit : enc :: data = b1 ++ x :: b2) (hxy : x ≠ y) :
    readChunkAt crc (pre ++ (putUvarint data.length ++ (b1 ++ y :: b2) ++ crcBytes crc (enc :: data)) ++ post)
      pre.length = .error .checksum := by
  have hl : (b1 ++ y :: b2).length = 1 + data.length := by
    have := congrArg List.length hsplit
    simp only [List.length_cons, List.length_append] at this ⊢; omega
  rw [readChunkAt_frame crc pre post _ _ data.length hlen hl (crcBytes_length _ _)]
  rw [if_pos]
  rw [hsplit]
  exact crcBytes_ne crc (hcrc b1 b2 y x (fun h => hxy h.symm))

/-- A changed byte of the stored checksum of a chunk record is an error (no assumption on `crc`). -/
theorem chunk_crc_damage_detected (crc : Crc) (enc : UInt8) (data pre post c1 c2 : Bytes)
    (x y : UInt8) (hlen : data.length < 34359738368) (hsplit : crcBytes crc (enc :: data) = c1 ++ x :: c2)
    (hxy : x ≠ y) :
    readChunkAt crc (pre ++ (putUvarint data.length ++ (enc :: data) ++ (c1 ++ y :: c2)) ++ post)
      pre.length = .error .checksum := by
  have hl : (c1 ++ y :: c2).length = 4 := by
    have := congrArg List.length hsplit
    rw [crcBytes_length] at this
    simp only [List.length_cons, List.length_append] at this ⊢; omega
  rw [readChunkAt_frame crc pre post _ _ data.length hlen (by simp; omega) hl]
  rw [if_pos]
  rw [hsplit]
  intro h
  have := List.append_cancel_left h
  simp at this
  exact hxy this

/-! ## Series entries -/

/-- What `AddSeries` accepts at the byte level: symbol references are `uint32` and resolvable, counts
    are non-negative `int`s, times are `int64`, chunk references `uint64`, the body fits the 5-byte
    length field.  (No ordering of the chunks is needed: the delta encoding wraps around.) -/
structure SeriesWF (lookup : Lookup) (get : Nat → Bytes) (s : Series) : Prop where
  labels : LabelsWF lookup get s.labels
  nlabels : s.labels.length < 9223372036854775808
  chunks : ∀ c ∈ s.chunks, ChunkWF c
  nchunks : s.chunks.length < 9223372036854775808
  size : (seriesBody s).length < 34359738368

def strsOf (get : Nat → Bytes) (s : Series) : SeriesOut :=
  ⟨s.labels.map fun p => (get p.1, get p.2), s.chunks⟩

/-- `Decoder.Series` on the body `AddSeries` builds: labels (through the symbol lookup) and all
    chunk metas — every `int64` mint/maxt (also mint > maxt, overlapping or decreasing chunks, gaps
    larger than 2^63) and every `uint64` reference. -/
theorem series_body_roundtrip (lookup : Lookup) (get : Nat → Bytes) (s : Series) (h : SeriesWF lookup get s) :
    decSeriesBody lookup (seriesBody s) = .ok (strsOf get s) := by
  unfold decSeriesBody seriesBody
  simp only [List.append_assoc]
  rw [uv_put (by unfold U64; have := h.nlabels; omega)]
  simp only
  rw [toI64_small h.nlabels]
  simp only [Int.toNat_natCast]
  rw [decLabels_enc lookup get s.labels _ h.labels]
  simp only
  have := decChunks_enc s.chunks [] h.nchunks h.chunks
  simp only [List.append_nil, List.append_assoc] at this
  rw [this]
  rfl

/-- `Reader.Series(id)` on an entry written by `AddSeries`, anywhere in a file. -/
theorem series_entry_roundtrip (crc : Crc) (lookup : Lookup) (get : Nat → Bytes) (s : Series) (pre post : Bytes)
    (h : SeriesWF lookup get s) :
    readSeriesAt crc lookup (pre ++ seriesEntry crc s ++ post) pre.length = .ok (strsOf get s) := by
  unfold readSeriesAt seriesEntry
  rw [decbufUvarintAt_frame crc pre post (seriesBody s) _ _ h.size rfl (crcBytes_length _ _)]
  simp only [ne_eq, not_true_eq_false, if_false]
  exact series_body_roundtrip lookup get s h

example : SeriesWF (lookupIn [[97], [98]]) (strOf [[97], [98]])
    ⟨[(0, 1)], [⟨-9223372036854775808, 9223372036854775807, 18446744073709551615⟩, ⟨5, 3, 0⟩]⟩ :=
  ⟨by intro p hp; simp at hp; subst hp; exact ⟨by decide, by decide, rfl, rfl⟩, by decide,
   by intro c hc; simp at hc; rcases hc with rfl | rfl <;> (unfold ChunkWF I64 U64; decide), by decide, by decide⟩

/-- A changed byte inside the body of a series entry is an error — never different data. -/
theorem entry_damage_detected (crc : Crc) (hcrc : CrcDetects1 crc) (lookup : Lookup) (s : Series)
    (pre post b1 b2 : Bytes) (x y : UInt8) (hsize : (seriesBody s).length < 34359738368)
    (hsplit : seriesBody s = b1 ++ x :: b2) (hxy : x ≠ y) :
    readSeriesAt crc lookup
      (pre ++ (putUvarint (seriesBody s).length ++ (b1 ++ y :: b2) ++ crcBytes crc (seriesBody s)) ++ post)
      pre.length = .error .checksum := by
  have hl : (b1 ++ y :: b2).length = (seriesBody s).length := by
    rw [hsplit]; simp
  unfold readSeriesAt
  rw [decbufUvarintAt_frame crc pre post _ _ _ hsize hl (crcBytes_length _ _)]
  rw [if_pos]
  rw [hsplit]
  exact crcBytes_ne crc (hcrc b1 b2 y x (fun h => hxy h.symm))

/-- A changed byte of the stored checksum of a series entry is an error (no assumption on `crc`). -/
theorem entry_crc_damage_detected (crc : Crc) (lookup : Lookup) (s : Series)
    (pre post c1 c2 : Bytes) (x y : UInt8) (hsize : (seriesBody s).length < 34359738368)
    (hsplit : crcBytes crc (seriesBody s) = c1 ++ x :: c2) (hxy : x ≠ y) :
    readSeriesAt crc lookup
      (pre ++ (putUvarint (seriesBody s).length ++ seriesBody s ++ (c1 ++ y :: c2)) ++ post)
      pre.length = .error .checksum := by
  have hl : (c1 ++ y :: c2).length = 4 := by
    have := congrArg List.length hsplit
    rw [crcBytes_length] at this
    simp only [List.length_cons, List.length_append] at this ⊢; omega
  unfold readSeriesAt
  rw [decbufUvarintAt_frame crc pre post _ _ _ hsize rfl hl]
  rw [if_pos]
  rw [hsplit]
  intro h
  have := List.append_cancel_left h
  simp at this
  exact hxy this

/-- The fault-sweep statement for a series entry: position `i` ranges over the body and the stored
    checksum (everything after the length prefix); any other byte value there makes `Reader.Series`
    fail with a checksum error. -/
theorem entry_damage_any_position (crc : Crc) (hcrc : CrcDetects1 crc) (lookup : Lookup) (s : Series)
    (pre post : Bytes) (hsize : (seriesBody s).length < 34359738368)
    (i : Nat) (hi : i < (seriesBody s).length + 4) (y : UInt8)
    (hy : (seriesBody s ++ crcBytes crc (seriesBody s))[i]? ≠ some y) :
    readSeriesAt crc lookup
      (pre ++ (putUvarint (seriesBody s).length ++ (seriesBody s ++ crcBytes crc (seriesBody s)).set i y) ++ post)
      pre.length = .error .checksum := by
  rw [List.set_append]
  by_cases hlt : i < (seriesBody s).length
  · rw [if_pos hlt]
    obtain ⟨e1, e2⟩ := set_split (seriesBody s) i y hlt
    rw [List.getElem?_append_left hlt, List.getElem?_eq_getElem hlt] at hy
    have hxy : (seriesBody s)[i] ≠ y := fun e => hy (by rw [e])
    rw [e2]
    have := entry_damage_detected crc hcrc lookup s pre post _ _ _ y hsize e1 hxy
    simp only [List.append_assoc] at this ⊢
    exact this
  · rw [if_neg hlt]
    have hj : i - (seriesBody s).length < (crcBytes crc (seriesBody s)).length := by
      rw [crcBytes_length]; omega
    obtain ⟨e1, e2⟩ := set_split (crcBytes crc (seriesBody s)) (i - (seriesBody s).length) y hj
    rw [List.getElem?_append_right (by omega), List.getElem?_eq_getElem hj] at hy
    have hxy : (crcBytes crc (seriesBody s))[i - (seriesBody s).length] ≠ y := fun e => hy (by rw [e])
    rw [e2]
    have := entry_crc_damage_detected crc lookup s pre post _ _ _ y hsize e1 hxy
    simp only [List.append_assoc] at this ⊢
    exact this

/-- The fault-sweep statement for a chunk record: every position after the length prefix. -/
theorem chunk_damage_any_position (crc : Crc) (hcrc : CrcDetects1 crc) (enc : UInt8) (data pre post : Bytes)
    (hlen : data.length < 34359738368) (i : Nat) (hi : i < 1 + data.length + 4) (y : UInt8)
    (hy : ((enc :: data) ++ crcBytes crc (enc :: data))[i]? ≠ some y) :
    readChunkAt crc
      (pre ++ (putUvarint data.length ++ ((enc :: data) ++ crcBytes crc (enc :: data)).set i y) ++ post)
      pre.length = .error .checksum := by
  rw [List.set_append]
  by_cases hlt : i < (enc :: data).length
  · rw [if_pos hlt]
    obtain ⟨e1, e2⟩ := set_split (enc :: data) i y hlt
    rw [List.getElem?_append_left hlt, List.getElem?_eq_getElem hlt] at hy
    have hxy : (enc :: data)[i] ≠ y := fun e => hy (by rw [e])
    rw [e2]
    have := chunk_damage_detected crc hcrc enc data pre post _ _ _ y hlen e1 hxy
    simp only [List.append_assoc] at this ⊢
    exact this
  · rw [if_neg hlt]
    have hj : i - (enc :: data).length < (crcBytes crc (enc :: data)).length := by
      rw [crcBytes_length]; simp only [List.length_cons] at hlt ⊢; omega
    obtain ⟨e1, e2⟩ := set_split (crcBytes crc (enc :: data)) (i - (enc :: data).length) y hj
    rw [List.getElem?_append_right (by omega), List.getElem?_eq_getElem hj] at hy
    have hxy : (crcBytes crc (enc :: data))[i - (enc :: data).length] ≠ y := fun e => hy (by rw [e])
    rw [e2]
    have := chunk_crc_damage_detected crc enc data pre post _ _ _ y hlen e1 hxy
    simp only [List.append_assoc] at this ⊢
    exact this

/-- The hypothesis `CrcDetects1` is satisfiable (byte sum modulo 2^32); that CRC32-Castagnoli
    satisfies it is the assumption of DESIGN §6. -/
example : CrcDetects1 sumCrc := sumCrc_detects1

/-! ## Symbol table and TOC -/

/-- `NewSymbols` + `Lookup` on the table `AddSymbol`/`finishSymbols` write: all strings, in order. -/
theorem symbol_table_roundtrip (crc : Crc) (syms : List Bytes) (pre post : Bytes)
    (hstr : ∀ s ∈ syms, s.length < 9223372036854775808) (hcnt : syms.length < 4294967296)
    (hsize : (symbolsContent syms).length < 4294967296) (hpre : pre.length < 9223372036854775808) :
    readSymbols crc (pre ++ symbolTable crc syms ++ post) pre.length = .ok syms := by
  unfold readSymbols symbolTable sect
  rw [decbufAt_frame crc pre post (symbolsContent syms) _ _ hsize rfl (crcBytes_length _ _) hpre]
  simp only [ne_eq, not_true_eq_false, if_false]
  unfold symbolsContent
  rw [getBE32_putBE32 hcnt]
  simp only
  have := readStrs_enc syms [] hstr
  rw [List.append_nil] at this
  exact this

theorem symbol_lookup (syms : List Bytes) (o : Nat) (h : o < syms.length) :
    lookupIn syms o = .ok (strOf syms o) := by
  unfold lookupIn strOf
  rw [List.getElem?_eq_getElem h]; rfl

/-- `NewTOCFromByteSlice` on a file that ends with `writeTOC`'s bytes. -/
theorem toc_roundtrip (crc : Crc) (t : Toc) (pre : Bytes) (h : TocWF t) :
    readToc crc (pre ++ encToc crc t) = .ok t := by
  unfold encToc
  rw [readToc_frame crc pre _ _ (tocContent_length t) (crcBytes_length _ _)]
  simp only [ne_eq, not_true_eq_false, if_false]
  exact decTocContent_enc t h

/-- A changed byte of the TOC body is an error. -/
theorem toc_damage_detected (crc : Crc) (hcrc : CrcDetects1 crc) (t : Toc) (pre b1 b2 : Bytes) (x y : UInt8)
    (hsplit : tocContent t = b1 ++ x :: b2) (hxy : x ≠ y) :
    readToc crc (pre ++ ((b1 ++ y :: b2) ++ crcBytes crc (tocContent t))) = .error .checksum := by
  have hl : (b1 ++ y :: b2).length = 48 := by
    have := congrArg List.length hsplit
    rw [tocContent_length] at this
    simp only [List.length_cons, List.length_append] at this ⊢; omega
  rw [readToc_frame crc pre _ _ hl (crcBytes_length _ _)]
  rw [if_pos]
  rw [hsplit]
  exact crcBytes_ne crc (hcrc b1 b2 y x (fun h => hxy h.symm))

/-! ## Postings lists and the postings offset table -/

/-- `Reader.Postings` on one list written by `writePosting`: all series ids, in order. -/
theorem postings_list_roundtrip (crc : Crc) (ids : List Nat) (pre post : Bytes)
    (hids : ∀ i ∈ ids, i < 4294967296) (hn : ids.length < 1073741823)
    (hpre : pre.length < 9223372036854775808) :
    readPostingsAt crc (pre ++ postingsList crc ids ++ post) pre.length = .ok ids := by
  unfold readPostingsAt postingsList sect
  have hl : (postingsContent ids).length < 4294967296 := by
    simp only [postingsContent, List.length_append, putBE32_length, flatMap_putBE32_length]; omega
  rw [decbufAt_frame crc pre post (postingsContent ids) _ _ hl rfl (crcBytes_length _ _) hpre]
  simp only [ne_eq, not_true_eq_false, if_false]
  unfold postingsContent
  rw [getBE32_putBE32 (by omega)]
  simp only
  rw [if_neg (by rw [flatMap_putBE32_length]; simp)]
  have := readBE32s_enc ids [] hids
  rw [List.append_nil] at this
  rw [this]

/-- `ReadPostingsOffsetTable` on the table `writePostingsOffsetTable` writes: every entry
    (name, value, offset), in order. -/
theorem offset_table_roundtrip (crc : Crc) (es : List TableEntry) (pre post : Bytes)
    (hes : ∀ e ∈ es, EntryWF e) (hn : es.length < 4294967296)
    (hsize : (offsetTableContent es).length < 4294967296) (hpre : pre.length < 9223372036854775808) :
    readOffsetTable crc (pre ++ offsetTable crc es ++ post) pre.length = .ok es := by
  unfold readOffsetTable offsetTable sect
  rw [decbufAt_frame crc pre post (offsetTableContent es) _ _ hsize rfl (crcBytes_length _ _) hpre]
  simp only [ne_eq, not_true_eq_false, if_false]
  unfold offsetTableContent
  rw [getBE32_putBE32 hn]
  simp only
  have := readTableEntries_enc es [] hes
  rw [List.append_nil] at this
  exact this

/-! ## The whole index file -/

/-- Inputs of a block as `index.Writer` accepts them. -/
structure BlockWF (syms : List Bytes) (series : List Series) : Prop where
  strs : ∀ s ∈ syms, s.length < 9223372036854775808
  nsyms : syms.length < 4294967296
  symsize : (symbolsContent syms).length < 4294967296
  series : ∀ s ∈ series, SeriesWF (lookupIn syms) (strOf syms) s

/-- Whole-file statement, first part: in the file `index.Writer` produces (header, symbol table,
    16-aligned series entries, postings, postings offset table, TOC), the reader finds the TOC,
    all symbols, and — at `16·id` for the id the writer assigned — every series with its label
    strings and chunk metas. -/
theorem block_roundtrip_sem_partial (crc : Crc) (syms : List Bytes) (series : List Series)
    (h : BlockWF syms series)
    (hfile : (writeIndex crc syms series).bytes.length < 9223372036854775808) :
    readToc crc (writeIndex crc syms series).bytes = .ok (writeIndex crc syms series).toc ∧
    readSymbols crc (writeIndex crc syms series).bytes (writeIndex crc syms series).toc.symbols = .ok syms ∧
    (writeIndex crc syms series).ids.length = series.length ∧
    ∀ (k : Nat) (s : Series) (id : Nat), series[k]? = some s → (writeIndex crc syms series).ids[k]? = some id →
      readSeriesAt crc (lookupIn syms) (writeIndex crc syms series).bytes (id * 16) = .ok (strsOf (strOf syms) s) := by
  have hlen := hfile
  simp only [writeIndex, List.length_append, zeros, List.length_replicate] at hlen
  refine ⟨?_, ?_, ?_, ?_⟩
  · simp only [writeIndex]
    apply toc_roundtrip
    unfold TocWF U64
    simp only [encToc, List.length_append, tocContent_length, crcBytes_length] at hlen
    refine ⟨?_, ?_, ?_, ?_, ?_, ?_⟩ <;> simp only <;> omega
  · rw [writeIndex_bytes]
    have := symbol_table_roundtrip crc syms indexHeader
      ((placeSeries crc (indexHeader.length + (symbolTable crc syms).length) series).1 ++
        indexMid crc syms series ++ encToc crc (writeIndex crc syms series).toc)
      h.strs h.nsyms h.symsize (by decide)
    simp only [List.append_assoc] at this ⊢
    exact this
  · simp only [writeIndex]
    exact placeSeries_ids_length crc series _
  · intro k s id hs hid
    have hid' : (placeSeries crc (indexHeader.length + (symbolTable crc syms).length) series).2[k]? = some id := hid
    obtain ⟨a, b, hab, hpos⟩ := placeSeries_spec crc series _ k s id hs hid'
    rw [writeIndex_bytes, hab]
    have hwf := h.series s (List.mem_of_getElem? hs)
    have := series_entry_roundtrip crc (lookupIn syms) (strOf syms) s
      (indexHeader ++ symbolTable crc syms ++ a)
      (b ++ indexMid crc syms series ++ encToc crc (writeIndex crc syms series).toc) hwf
    have hl : (indexHeader ++ symbolTable crc syms ++ a).length = id * 16 := by
      simp only [List.length_append]; omega
    rw [hl] at this
    simp only [List.append_assoc] at this ⊢
    exact this

/-- The complete whole-file statement, NOT proved: it adds to `block_roundtrip_sem_partial` that
    `newReader` succeeds on the written file and that postings, label values and label names read
    back.  Proved pieces: `postings_list_roundtrip`, `offset_table_roundtrip` (the codecs of both
    sections at any position).  Missing: the placement lemma for the postings lists (the offsets in
    the table point at the lists, as `placeSeries_spec` shows for series) and that `find?` in the
    table hits the right entry (pairs are distinct because the symbol table is strictly sorted).
    Those reads are tied to the real code by the `block` suite only (`rpost`, `rlv`, `rln`, `openq`). -/
def block_roundtrip_sem_full : Prop :=
  ∀ (crc : Crc) (syms : List Bytes) (series : List Series), BlockWF syms series →
    syms.Pairwise (fun a b => bytesLt a b = true) →
    (writeIndex crc syms series).bytes.length < 9223372036854775808 →
    ∃ r, openIndex crc (writeIndex crc syms series).bytes = .ok r ∧ r.syms = syms ∧
      (∀ (k : Nat) (s : Series) (id : Nat), series[k]? = some s → (writeIndex crc syms series).ids[k]? = some id →
        r.series crc id = .ok (strsOf (strOf syms) s)) ∧
      (∀ n v, r.postings crc (strOf syms n) (strOf syms v) =
        .ok (idsWith ((writeIndex crc syms series).ids.zip series) n v)) ∧
      (∀ n, n ∈ namesOf series → r.labelValues (strOf syms n) = (valuesOf series n).map (strOf syms)) ∧
      r.labelNames = (namesOf series).map (strOf syms)

end Prom.C24
