import PromModel.Tsdb.BlockIndex
import PromProofs.BlockIndex
/-
  C24 — persistent blocks round-trip and detect corruption.

  Everything below is about the model `PromModel/Tsdb/BlockIndex.lean` (chunk segment records,
  index series entries, symbol table, TOC, whole index file), for an ARBITRARY checksum function
  `crc`; the damage theorems for bytes inside a CRC-covered region additionally assume
  `CrcDetects1 crc` (a single changed byte changes the checksum), those for the stored checksum
  bytes assume nothing.  Not claimed: damage of the length prefix (it is outside the covered region:
  the reader then checks a different region against different "checksum" bytes, which is caught
  with probability 1 − 2⁻³² only) and of padding; the harness reports those positions separately.
-/
namespace Prom.C24
open Prom.Enc Prom.BlockIndex

/-! ## Chunk records -/

/-- `ChunkOrIterable` on a record written by `WriteChunks`, anywhere in a segment: the encoding and
    the bytes come back for every data length `< 2^35` (the bound of the 5-byte length field the
    writer and the reader use); an encoding outside 1..6 is an error (chunkenc pool). -/
theorem chunk_record_roundtrip (crc : Crc) (enc : UInt8) (data pre post : Bytes)
    (hlen : data.length < 34359738368) :
    readChunkAt crc (pre ++ chunkRecord crc enc data ++ post) pre.length =
      if validEnc enc then .ok (enc, data) else .error .badEncoding := by
  unfold chunkRecord
  rw [readChunkAt_frame crc pre post (enc :: data) _ data.length hlen (by simp; omega) (crcBytes_length _ _)]
  simp

example : readChunkAt (fun _ => 7) ([1, 2] ++ chunkRecord (fun _ => 7) 1 [9, 9, 9] ++ [5]) 2 = .ok (1, [9, 9, 9]) := by
  rfl

/-- The same through a reference `segment·2^32 + offset`. -/
theorem chunk_roundtrip_by_ref (crc : Crc) (segs : List Bytes) (sgm : Nat) (enc : UInt8) (data pre post : Bytes)
    (hlen : data.length < 34359738368) (hs : sgm < 4294967296) (hp : pre.length < 4294967296)
    (hseg : segs[sgm]? = some (pre ++ chunkRecord crc enc data ++ post)) (henc : validEnc enc = true) :
    readChunk crc segs (sgm * 4294967296 + pre.length) = .ok (enc, data) := by
  unfold readChunk
  have e1 : (sgm * 4294967296 + pre.length) / 4294967296 % 4294967296 = sgm := by omega
  have e2 : (sgm * 4294967296 + pre.length) % 4294967296 = pre.length := by omega
  simp only [e1, e2, hseg]
  rw [chunk_record_roundtrip crc enc data pre post hlen, if_pos henc]

/-- A changed byte inside the CRC-covered region (encoding byte or data) of a chunk record is an
    error — never different data. -/
theorem chunk_damage_detected (crc : Crc) (hcrc : CrcDetects1 crc) (enc : UInt8) (data pre post b1 b2 : Bytes)
    (x y : UInt8) (hlen : data.length < 34359738368) (hsplit : enc :: data = b1 ++ x :: b2) (hxy : x ≠ y) :
    readChunkAt crc (pre ++ (putUvarint data.length ++ (b1 ++ y :: b2) ++ crcBytes crc (enc :: data)) ++ post)
      pre.length = .error .checksum := by
  have hl : (b1 ++ y :: b2).length = 1 + data.length := by
    have := congrArg List.length hsplit
    simp only [List.length_cons, List.length_append] at this ⊢; omega
  rw [readChunkAt_frame crc pre post _ _ data.length hlen hl (crcBytes_length _ _)]
  rw [if_pos]
  rw [hsplit]
  exact crcBytes_ne crc (hcrc b1 b2 y x (fun h => hxy h.symm))

/-- A changed byte of the stored checksum of a chunk record is an error (no assumption on `crc`). -/
theorem chunk_crc_damage_detected (crc : Crc) (enc : UInt8) (data pre post c1 c2 : Bytes)
    (x y : UInt8) (hlen : data.length < 34359738368) (hsplit : crcBytes crc (enc :: data) = c1 ++ x :: c2)
    (hxy : x ≠ y) :
    readChunkAt crc (pre ++ (putUvarint data.length ++ (enc :: data) ++ (c1 ++ y :: c2)) ++ post)
      pre.length = .error .checksum := by
  have hl : (c1 ++ y :: c2).length = 4 := by
    have := congrArg List.length hsplit
    rw [crcBytes_length] at this
    simp only [List.length_cons, List.length_append] at this ⊢; omega
  rw [readChunkAt_frame crc pre post _ _ data.length hlen (by simp; omega) hl]
  rw [if_pos]
  rw [hsplit]
  intro h
  have := List.append_cancel_left h
  simp at this
  exact hxy this

/-! ## Series entries -/

/-- What `AddSeries` accepts at the byte level: symbol references are `uint32` and resolvable, counts
    are non-negative `int`s, times are `int64`, chunk references `uint64`, the body fits the 5-byte
    length field.  (No ordering of the chunks is needed: the delta encoding wraps around.) -/
structure SeriesWF (lookup : Lookup) (get : Nat → Bytes) (s : Series) : Prop where
  labels : LabelsWF lookup get s.labels
  nlabels : s.labels.length < 9223372036854775808
  chunks : ∀ c ∈ s.chunks, ChunkWF c
  nchunks : s.chunks.length < 9223372036854775808
  size : (seriesBody s).length < 34359738368

def strsOf (get : Nat → Bytes) (s : Series) : SeriesOut :=
  ⟨s.labels.map fun p => (get p.1, get p.2), s.chunks⟩

/-- `Decoder.Series` on the body `AddSeries` builds: labels (through the symbol lookup) and all
    chunk metas — every `int64` mint/maxt (also mint > maxt, overlapping or decreasing chunks, gaps
    larger than 2^63) and every `uint64` reference. -/
theorem series_body_roundtrip (lookup : Lookup) (get : Nat → Bytes) (s : Series) (h : SeriesWF lookup get s) :
    decSeriesBody lookup (seriesBody s) = .ok (strsOf get s) := by
  unfold decSeriesBody seriesBody
  simp only [List.append_assoc]
  rw [uv_put (by unfold U64; have := h.nlabels; omega)]
  simp only
  rw [toI64_small h.nlabels]
  simp only [Int.toNat_natCast]
  rw [decLabels_enc lookup get s.labels _ h.labels]
  simp only
  have := decChunks_enc s.chunks [] h.nchunks h.chunks
  simp only [List.append_nil, List.append_assoc] at this
  rw [this]
  rfl

/-- `Reader.Series(id)` on an entry written by `AddSeries`, anywhere in a file. -/
theorem series_entry_roundtrip (crc : Crc) (lookup : Lookup) (get : Nat → Bytes) (s : Series) (pre post : Bytes)
    (h : SeriesWF lookup get s) :
    readSeriesAt crc lookup (pre ++ seriesEntry crc s ++ post) pre.length = .ok (strsOf get s) := by
  unfold readSeriesAt seriesEntry
  rw [decbufUvarintAt_frame crc pre post (seriesBody s) _ _ h.size rfl (crcBytes_length _ _)]
  simp only [ne_eq, not_true_eq_false, if_false]
  exact series_body_roundtrip lookup get s h

example : SeriesWF (lookupIn [[97], [98]]) (strOf [[97], [98]])
    ⟨[(0, 1)], [⟨-9223372036854775808, 9223372036854775807, 18446744073709551615⟩, ⟨5, 3, 0⟩]⟩ :=
  ⟨by intro p hp; simp at hp; subst hp; exact ⟨by decide, by decide, rfl, rfl⟩, by decide,
   by intro c hc; simp at hc; rcases hc with rfl | rfl <;> (unfold ChunkWF I64 U64; decide), by decide, by decide⟩

/-- A changed byte inside the body of a series entry is an error — never different data. -/
theorem entry_damage_detected (crc : Crc) (hcrc : CrcDetects1 crc) (lookup : Lookup) (s : Series)
    (pre post b1 b2 : Bytes) (x y : UInt8) (hsize : (seriesBody s).length < 34359738368)
    (hsplit : seriesBody s = b1 ++ x :: b2) (hxy : x ≠ y) :
    readSeriesAt crc lookup
      (pre ++ (putUvarint (seriesBody s).length ++ (b1 ++ y :: b2) ++ crcBytes crc (seriesBody s)) ++ post)
      pre.length = .error .checksum := by
  have hl : (b1 ++ y :: b2).length = (seriesBody s).length := by
    rw [hsplit]; simp
  unfold readSeriesAt
  rw [decbufUvarintAt_frame crc pre post _ _ _ hsize hl (crcBytes_length _ _)]
  rw [if_pos]
  rw [hsplit]
  exact crcBytes_ne crc (hcrc b1 b2 y x (fun h => hxy h.symm))

/-- A changed byte of the stored checksum of a series entry is an error (no assumption on `crc`). -/
theorem entry_crc_damage_detected (crc : Crc) (lookup : Lookup) (s : Series)
    (pre post c1 c2 : Bytes) (x y : UInt8) (hsize : (seriesBody s).length < 34359738368)
    (hsplit : crcBytes crc (seriesBody s) = c1 ++ x :: c2) (hxy : x ≠ y) :
    readSeriesAt crc lookup
      (pre ++ (putUvarint (seriesBody s).length ++ seriesBody s ++ (c1 ++ y :: c2)) ++ post)
      pre.length = .error .checksum := by
  have hl : (c1 ++ y :: c2).length = 4 := by
    have := congrArg List.length hsplit
    rw [crcBytes_length] at this
    simp only [List.length_cons, List.length_append] at this ⊢; omega
  unfold readSeriesAt
  rw [decbufUvarintAt_frame crc pre post _ _ _ hsize rfl hl]
  rw [if_pos]
  rw [hsplit]
  intro h
  have := List.append_cancel_left h
  simp at this
  exact hxy this

/-- `CrcDetects1` is satisfiable together with the layout (a checksum that sums the bytes mod 2^32
    detects single-byte changes); CRC32-Castagnoli itself is an assumption (DESIGN §6). -/
def sumCrc : Crc := fun bs => UInt32.ofNat (bs.foldl (fun a b => a + b.toNat) 0)

/-! ## Symbol table and TOC -/

/-- `NewSymbols` + `Lookup` on the table `AddSymbol`/`finishSymbols` write: all strings, in order. -/
theorem symbol_table_roundtrip (crc : Crc) (syms : List Bytes) (pre post : Bytes)
    (hstr : ∀ s ∈ syms, s.length < 9223372036854775808) (hcnt : syms.length < 4294967296)
    (hsize : (symbolsContent syms).length < 4294967296) (hpre : pre.length < 9223372036854775808) :
    readSymbols crc (pre ++ symbolTable crc syms ++ post) pre.length = .ok syms := by
  unfold readSymbols symbolTable sect
  rw [decbufAt_frame crc pre post (symbolsContent syms) _ _ hsize rfl (crcBytes_length _ _) hpre]
  simp only [ne_eq, not_true_eq_false, if_false]
  unfold symbolsContent
  rw [getBE32_putBE32 hcnt]
  simp only
  have := readStrs_enc syms [] hstr
  rw [List.append_nil] at this
  exact this

theorem symbol_lookup (syms : List Bytes) (o : Nat) (h : o < syms.length) :
    lookupIn syms o = .ok (strOf syms o) := by
  unfold lookupIn strOf
  rw [List.getElem?_eq_getElem h]; rfl

/-- `NewTOCFromByteSlice` on a file that ends with `writeTOC`'s bytes. -/
theorem toc_roundtrip (crc : Crc) (t : Toc) (pre : Bytes) (h : TocWF t) :
    readToc crc (pre ++ encToc crc t) = .ok t := by
  unfold encToc
  rw [readToc_frame crc pre _ _ (tocContent_length t) (crcBytes_length _ _)]
  simp only [ne_eq, not_true_eq_false, if_false]
  exact decTocContent_enc t h

/-- A changed byte of the TOC body is an error. -/
theorem toc_damage_detected (crc : Crc) (hcrc : CrcDetects1 crc) (t : Toc) (pre b1 b2 : Bytes) (x y : UInt8)
    (hsplit : tocContent t = b1 ++ x :: b2) (hxy : x ≠ y) :
    readToc crc (pre ++ ((b1 ++ y :: b2) ++ crcBytes crc (tocContent t))) = .error .checksum := by
  have hl : (b1 ++ y :: b2).length = 48 := by
    have := congrArg List.length hsplit
    rw [tocContent_length] at this
    simp only [List.length_cons, List.length_append] at this ⊢; omega
  rw [readToc_frame crc pre _ _ hl (crcBytes_length _ _)]
  rw [if_pos]
  rw [hsplit]
  exact crcBytes_ne crc (hcrc b1 b2 y x (fun h => hxy h.symm))

end Prom.C24
