import PromModel.Tsdb.BlockIndex
import PromProofs.BlockIndex
/-
  C24 — persistent blocks round-trip and detect corruption.

  Everything below is about the model `PromModel/Tsdb/BlockIndex.lean` (chunk segment records,
  index series entries, symbol table, TOC, whole index file), for an ARBITRARY checksum function
  `crc`; the damage theorems for bytes inside a CRC-covered region additionally assume
  `CrcDetects1 crc` (a single changed byte changes the checksum), those for the stored checksum
  bytes assume nothing.  Not claimed: damage of the length prefix (it is outside the covered region:
  the reader then checks a different region against different "checksum" bytes, which is caught
  with probability 1 − 2⁻³² only) and of padding; the harness reports those positions separately.
-/
namespace Prom.C24
open Prom.Enc Prom.BlockIndex

/-! ## Chunk records -/

/-- `ChunkOrIterable` on a record written by `WriteChunks`, anywhere in a segment: the encoding and
    the bytes come back for every data length `< 2^35` (the bound of the 5-byte length field the
    writer and the reader use); an encoding outside 1..6 is an error (chunkenc pool). -/
theorem chunk_record_roundtrip (crc : Crc) (enc : UInt8) (data pre post : Bytes)
    (hlen : data.length < 34359738368) :
    readChunkAt crc (pre ++ chunkRecord crc enc data ++ post) pre.length =
      if validEnc enc then .ok (enc, data) else .error .badEncoding := by
  unfold chunkRecord
  rw [readChunkAt_frame crc pre post (enc :: data) _ data.length hlen (by simp; omega) (crcBytes_length _ _)]
  simp

example : readChunkAt (fun _ => 7) ([1, 2] ++ chunkRecord (fun _ => 7) 1 [9, 9, 9] ++ [5]) 2 = .ok (1, [9, 9, 9]) := by
  rfl

/-- The same through a reference `segment·2^32 + offset`. -/
theorem chunk_roundtrip_by_ref (crc : Crc) (segs : List Bytes) (sgm : Nat) (enc : UInt8) (data pre post : Bytes)
    (hlen : data.length < 34359738368) (hs : sgm < 4294967296) (hp : pre.length < 4294967296)
    (hseg : segs[sgm]? = some (pre ++ chunkRecord crc enc data ++ post)) (henc : validEnc enc = true) :
    readChunk crc segs (sgm * 4294967296 + pre.length) = .ok (enc, data) := by
  unfold readChunk
  have e1 : (sgm * 4294967296 + pre.length) / 4294967296 % 4294967296 = sgm := by omega
  have e2 : (sgm * 4294967296 + pre.length) % 4294967296 = pre.length := by omega
  simp only [e1, e2, hseg]
  rw [chunk_record_roundtrip crc enc data pre post hlen, if_pos henc]

/-- A changed byte inside the CRC-covered region (encoding byte or data) of a chunk record is an
    error — never different data. -/
theorem chunk_damage_detected (crc : Crc) (hcrc : CrcDetects1 crc) (enc : UInt8) (data pre post b1 b2 : Bytes)
    (x y : UInt8) (hlen : data.length < 34359738368) (hsplit : enc :: data = b1 ++ x :: b2) (hxy : x ≠ y) :
    readChunkAt crc (pre ++ (putUvarint data.length ++ (b1 ++ y :: b2) ++ crcBytes crc (enc :: data)) ++ post)
      pre.length = .error .checksum := by
  have hl : (b1 ++ y :: b2).length = 1 + data.length := by
    have := congrArg List.length hsplit
    simp only [List.length_cons, List.length_append] at this ⊢; omega
  rw [readChunkAt_frame crc pre post _ _ data.length hlen hl (crcBytes_length _ _)]
  rw [if_pos]
  rw [hsplit]
  exact crcBytes_ne crc (hcrc b1 b2 y x (fun h => hxy h.symm))

/-- A changed byte of the stored checksum of a chunk record is an error (no assumption on `crc`). -/
theorem chunk_crc_damage_detected (crc : Crc) (enc : UInt8) (data pre post c1 c2 : Bytes)
    (x y : UInt8) (hlen : data.length < 34359738368) (hsplit : crcBytes crc (enc :: data) = c1 ++ x :: c2)
    (hxy : x ≠ y) :
    readChunkAt crc (pre ++ (putUvarint data.length ++ (enc :: data) ++ (c1 ++ y :: c2)) ++ post)
      pre.length = .error .checksum := by
  have hl : (c1 ++ y :: c2).length = 4 := by
    have := congrArg List.length hsplit
    rw [crcBytes_length] at this
    simp only [List.length_cons, List.length_append] at this ⊢; omega
  rw [readChunkAt_frame crc pre post _ _ data.length hlen (by simp; omega) hl]
  rw [if_pos]
  rw [hsplit]
  intro h
  have := List.append_cancel_left h
  simp at this
  exact hxy this

/-! ## The chunk writer (`WriteChunks` with segment cutting) -/

/-- A stored chunk is what `ChunkOrIterable` returns for its reference. -/
theorem stored_read (crc : Crc) (segs : List Bytes) (ref : Nat) (c : Chunk) (h : Stored crc segs ref c)
    (hsegs : segs.length ≤ 4294967296) (hlen : ∀ s ∈ segs, s.length < 4294967296) :
    readChunk crc segs ref = if validEnc c.1 then .ok c else .error .badEncoding := by
  obtain ⟨sgm, pre, post, hs, hr, hl⟩ := h
  have hlt : sgm < segs.length := (List.getElem?_eq_some_iff.mp hs).1
  have hpl := hlen _ (List.mem_of_getElem? hs)
  simp only [List.length_append] at hpl
  subst hr
  unfold readChunk
  have e1 : (sgm * 4294967296 + pre.length) / 4294967296 % 4294967296 = sgm := by omega
  have e2 : (sgm * 4294967296 + pre.length) % 4294967296 = pre.length := by omega
  simp only [e1, e2, hs]
  have := chunk_record_roundtrip crc c.1 c.2 pre post hl
  rw [this]


/-- `WriteChunks` followed by `ChunkOrIterable`: every chunk handed to one call comes back under the
    reference the call assigned, whatever the batching cut (any segment size), and chunks written
    by earlier calls stay readable (`writeChunks_spec` keeps `Stored`). -/
theorem chunks_written_read_back (crc : Crc) (w w' : CW) (chks : List Chunk) (refs : List Nat)
    (hinv : w.n ≠ 0 → CWInv w) (h : w.writeChunks crc chks = .ok (w', refs))
    (hsegs : w'.segs.length ≤ 4294967296) (hlen : ∀ s ∈ w'.segs, s.length < 4294967296) :
    refs.length = chks.length ∧
    ∀ (i : Nat) (c : Chunk) (ref : Nat), chks[i]? = some c → refs[i]? = some ref →
      readChunk crc w'.segs ref = if validEnc c.1 then .ok c else .error .badEncoding := by
  obtain ⟨_, _, h3, h4⟩ := writeChunks_spec crc w w' chks refs hinv h
  exact ⟨h3, fun i c ref hc hr => stored_read crc w'.segs ref c (h4 i c ref hc hr) hsegs hlen⟩

example : ((⟨64, 0, []⟩ : CW).writeChunks (fun _ => 7) [(1, [1, 2, 3]), (2, List.replicate 60 0), (3, [])]).map
    (fun r => (r.2, r.1.segs.length)) = .ok ([8, 4294967304, 8589934600], 3) := by
  rfl

/-! ## Series entries -/

/-- What `AddSeries` accepts at the byte level: symbol references are `uint32` and resolvable, counts
    are non-negative `int`s, times are `int64`, chunk references `uint64`, the body fits the 5-byte
    length field.  (No ordering of the chunks is needed: the delta encoding wraps around.) -/
structure SeriesWF (lookup : Lookup) (get : Nat → Bytes) (s : Series) : Prop where
  labels : LabelsWF lookup get s.labels
  nlabels : s.labels.length < 9223372036854775808
  chunks : ∀ c ∈ s.chunks, ChunkWF c
  nchunks : s.chunks.length < 9223372036854775808
  size : (seriesBody s).length < 34359738368

def strsOf (get : Nat → Bytes) (s : Series) : SeriesOut :=
  ⟨s.labels.map fun p => (get p.1, get p.2), s.chunks⟩

/-- `Decoder.Series` on the body `AddSeries` builds: labels (through the symbol lookup) and all
    chunk metas — every `int64` mint/maxt (also mint > maxt, overlapping or decreasing chunks, gaps
    larger than 2^63) and every `uint64` reference. -/
theorem series_body_roundtrip (lookup : Lookup) (get : Nat → Bytes) (s : Series) (h : SeriesWF lookup get s) :
    decSeriesBody lookup (seriesBody s) = .ok (strsOf get s) := by
  unfold decSeriesBody seriesBody
  simp only [List.append_assoc]
  rw [uv_put (by unfold U64; have := h.nlabels; omega)]
  simp only
  rw [toI64_small h.nlabels]
  simp only [Int.toNat_natCast]
  rw [decLabels_enc lookup get s.labels _ h.labels]
  simp only
  have := decChunks_enc s.chunks [] h.nchunks h.chunks
  simp only [List.append_nil, List.append_assoc] at this
  rw [this]
  rfl

/-- `Reader.Series(id)` on an entry written by `AddSeries`, anywhere in a file. -/
theorem series_entry_roundtrip (crc : Crc) (lookup : Lookup) (get : Nat → Bytes) (s : Series) (pre post : Bytes)
    (h : SeriesWF lookup get s) :
    readSeriesAt crc lookup (pre ++ seriesEntry crc s ++ post) pre.length = .ok (strsOf get s) := by
  unfold readSeriesAt seriesEntry
  rw [decbufUvarintAt_frame crc pre post (seriesBody s) _ _ h.size rfl (crcBytes_length _ _)]
  simp only [ne_eq, not_true_eq_false, if_false]
  exact series_body_roundtrip lookup get s h

example : SeriesWF (lookupIn [[97], [98]]) (strOf [[97], [98]])
    ⟨[(0, 1)], [⟨-9223372036854775808, 9223372036854775807, 18446744073709551615⟩, ⟨5, 3, 0⟩]⟩ :=
  ⟨by intro p hp; simp at hp; subst hp; exact ⟨by decide, by decide, rfl, rfl⟩, by decide,
   by intro c hc; simp at hc; rcases hc with rfl | rfl <;> (unfold ChunkWF I64 U64; decide), by decide, by decide⟩

/-- A changed byte inside the body of a series entry is an error — never different data. -/
theorem entry_damage_detected (crc : Crc) (hcrc : CrcDetects1 crc) (lookup : Lookup) (s : Series)
    (pre post b1 b2 : Bytes) (x y : UInt8) (hsize : (seriesBody s).length < 34359738368)
    (hsplit : seriesBody s = b1 ++ x :: b2) (hxy : x ≠ y) :
    readSeriesAt crc lookup
      (pre ++ (putUvarint (seriesBody s).length ++ (b1 ++ y :: b2) ++ crcBytes crc (seriesBody s)) ++ post)
      pre.length = .error .checksum := by
  have hl : (b1 ++ y :: b2).length = (seriesBody s).length := by
    rw [hsplit]; simp
  unfold readSeriesAt
  rw [decbufUvarintAt_frame crc pre post _ _ _ hsize hl (crcBytes_length _ _)]
  rw [if_pos]
  rw [hsplit]
  exact crcBytes_ne crc (hcrc b1 b2 y x (fun h => hxy h.symm))

/-- A changed byte of the stored checksum of a series entry is an error (no assumption on `crc`). -/
theorem entry_crc_damage_detected (crc : Crc) (lookup : Lookup) (s : Series)
    (pre post c1 c2 : Bytes) (x y : UInt8) (hsize : (seriesBody s).length < 34359738368)
    (hsplit : crcBytes crc (seriesBody s) = c1 ++ x :: c2) (hxy : x ≠ y) :
    readSeriesAt crc lookup
      (pre ++ (putUvarint (seriesBody s).length ++ seriesBody s ++ (c1 ++ y :: c2)) ++ post)
      pre.length = .error .checksum := by
  have hl : (c1 ++ y :: c2).length = 4 := by
    have := congrArg List.length hsplit
    rw [crcBytes_length] at this
    simp only [List.length_cons, List.length_append] at this ⊢; omega
  unfold readSeriesAt
  rw [decbufUvarintAt_frame crc pre post _ _ _ hsize rfl hl]
  rw [if_pos]
  rw [hsplit]
  intro h
  have := List.append_cancel_left h
  simp at this
  exact hxy this

/-- The fault-sweep statement for a series entry: position `i` ranges over the body and the stored
    checksum (everything after the length prefix); any other byte value there makes `Reader.Series`
    fail with a checksum error. -/
theorem entry_damage_any_position (crc : Crc) (hcrc : CrcDetects1 crc) (lookup : Lookup) (s : Series)
    (pre post : Bytes) (hsize : (seriesBody s).length < 34359738368)
    (i : Nat) (hi : i < (seriesBody s).length + 4) (y : UInt8)
    (hy : (seriesBody s ++ crcBytes crc (seriesBody s))[i]? ≠ some y) :
    readSeriesAt crc lookup
      (pre ++ (putUvarint (seriesBody s).length ++ (seriesBody s ++ crcBytes crc (seriesBody s)).set i y) ++ post)
      pre.length = .error .checksum := by
  rw [List.set_append]
  by_cases hlt : i < (seriesBody s).length
  · rw [if_pos hlt]
    obtain ⟨e1, e2⟩ := set_split (seriesBody s) i y hlt
    rw [List.getElem?_append_left hlt, List.getElem?_eq_getElem hlt] at hy
    have hxy : (seriesBody s)[i] ≠ y := fun e => hy (by rw [e])
    rw [e2]
    have := entry_damage_detected crc hcrc lookup s pre post _ _ _ y hsize e1 hxy
    simp only [List.append_assoc] at this ⊢
    exact this
  · rw [if_neg hlt]
    have hj : i - (seriesBody s).length < (crcBytes crc (seriesBody s)).length := by
      rw [crcBytes_length]; omega
    obtain ⟨e1, e2⟩ := set_split (crcBytes crc (seriesBody s)) (i - (seriesBody s).length) y hj
    rw [List.getElem?_append_right (by omega), List.getElem?_eq_getElem hj] at hy
    have hxy : (crcBytes crc (seriesBody s))[i - (seriesBody s).length] ≠ y := fun e => hy (by rw [e])
    rw [e2]
    have := entry_crc_damage_detected crc lookup s pre post _ _ _ y hsize e1 hxy
    simp only [List.append_assoc] at this ⊢
    exact this

/-- The fault-sweep statement for a chunk record: every position after the length prefix. -/
theorem chunk_damage_any_position (crc : Crc) (hcrc : CrcDetects1 crc) (enc : UInt8) (data pre post : Bytes)
    (hlen : data.length < 34359738368) (i : Nat) (hi : i < 1 + data.length + 4) (y : UInt8)
    (hy : ((enc :: data) ++ crcBytes crc (enc :: data))[i]? ≠ some y) :
    readChunkAt crc
      (pre ++ (putUvarint data.length ++ ((enc :: data) ++ crcBytes crc (enc :: data)).set i y) ++ post)
      pre.length = .error .checksum := by
  rw [List.set_append]
  by_cases hlt : i < (enc :: data).length
  · rw [if_pos hlt]
    obtain ⟨e1, e2⟩ := set_split (enc :: data) i y hlt
    rw [List.getElem?_append_left hlt, List.getElem?_eq_getElem hlt] at hy
    have hxy : (enc :: data)[i] ≠ y := fun e => hy (by rw [e])
    rw [e2]
    have := chunk_damage_detected crc hcrc enc data pre post _ _ _ y hlen e1 hxy
    simp only [List.append_assoc] at this ⊢
    exact this
  · rw [if_neg hlt]
    have hj : i - (enc :: data).length < (crcBytes crc (enc :: data)).length := by
      rw [crcBytes_length]; simp only [List.length_cons] at hlt ⊢; omega
    obtain ⟨e1, e2⟩ := set_split (crcBytes crc (enc :: data)) (i - (enc :: data).length) y hj
    rw [List.getElem?_append_right (by omega), List.getElem?_eq_getElem hj] at hy
    have hxy : (crcBytes crc (enc :: data))[i - (enc :: data).length] ≠ y := fun e => hy (by rw [e])
    rw [e2]
    have := chunk_crc_damage_detected crc enc data pre post _ _ _ y hlen e1 hxy
    simp only [List.append_assoc] at this ⊢
    exact this

/-- The hypothesis `CrcDetects1` is satisfiable (byte sum modulo 2^32); that CRC32-Castagnoli
    satisfies it is the assumption of DESIGN §6. -/
example : CrcDetects1 sumCrc := sumCrc_detects1

/-! ## Symbol table and TOC -/

/-- `NewSymbols` + `Lookup` on the table `AddSymbol`/`finishSymbols` write: all strings, in order. -/
theorem symbol_table_roundtrip (crc : Crc) (syms : List Bytes) (pre post : Bytes)
    (hstr : ∀ s ∈ syms, s.length < 9223372036854775808) (hcnt : syms.length < 4294967296)
    (hsize : (symbolsContent syms).length < 4294967296) (hpre : pre.length < 9223372036854775808) :
    readSymbols crc (pre ++ symbolTable crc syms ++ post) pre.length = .ok syms := by
  unfold readSymbols symbolTable sect
  rw [decbufAt_frame crc pre post (symbolsContent syms) _ _ hsize rfl (crcBytes_length _ _) hpre]
  simp only [ne_eq, not_true_eq_false, if_false]
  unfold symbolsContent
  rw [getBE32_putBE32 hcnt]
  simp only
  have := readStrs_enc syms [] hstr
  rw [List.append_nil] at this
  exact this

theorem symbol_lookup (syms : List Bytes) (o : Nat) (h : o < syms.length) :
    lookupIn syms o = .ok (strOf syms o) := by
  unfold lookupIn strOf
  rw [List.getElem?_eq_getElem h]; rfl

/-- `NewTOCFromByteSlice` on a file that ends with `writeTOC`'s bytes. -/
theorem toc_roundtrip (crc : Crc) (t : Toc) (pre : Bytes) (h : TocWF t) :
    readToc crc (pre ++ encToc crc t) = .ok t := by
  unfold encToc
  rw [readToc_frame crc pre _ _ (tocContent_length t) (crcBytes_length _ _)]
  simp only [ne_eq, not_true_eq_false, if_false]
  exact decTocContent_enc t h

/-- A changed byte of the TOC body is an error. -/
theorem toc_damage_detected (crc : Crc) (hcrc : CrcDetects1 crc) (t : Toc) (pre b1 b2 : Bytes) (x y : UInt8)
    (hsplit : tocContent t = b1 ++ x :: b2) (hxy : x ≠ y) :
    readToc crc (pre ++ ((b1 ++ y :: b2) ++ crcBytes crc (tocContent t))) = .error .checksum := by
  have hl : (b1 ++ y :: b2).length = 48 := by
    have := congrArg List.length hsplit
    rw [tocContent_length] at this
    simp only [List.length_cons, List.length_append] at this ⊢; omega
  rw [readToc_frame crc pre _ _ hl (crcBytes_length _ _)]
  rw [if_pos]
  rw [hsplit]
  exact crcBytes_ne crc (hcrc b1 b2 y x (fun h => hxy h.symm))

/-! ## Postings lists and the postings offset table -/

/-- `Reader.Postings` on one list written by `writePosting`: all series ids, in order. -/
theorem postings_list_roundtrip (crc : Crc) (ids : List Nat) (pre post : Bytes)
    (hids : ∀ i ∈ ids, i < 4294967296) (hn : ids.length < 1073741823)
    (hpre : pre.length < 9223372036854775808) :
    readPostingsAt crc (pre ++ postingsList crc ids ++ post) pre.length = .ok ids := by
  unfold readPostingsAt postingsList sect
  have hl : (postingsContent ids).length < 4294967296 := by
    simp only [postingsContent, List.length_append, putBE32_length, flatMap_putBE32_length]; omega
  rw [decbufAt_frame crc pre post (postingsContent ids) _ _ hl rfl (crcBytes_length _ _) hpre]
  simp only [ne_eq, not_true_eq_false, if_false]
  unfold postingsContent
  rw [getBE32_putBE32 (by omega)]
  simp only
  rw [if_neg (by rw [flatMap_putBE32_length]; simp)]
  have := readBE32s_enc ids [] hids
  rw [List.append_nil] at this
  rw [this]

/-- `ReadPostingsOffsetTable` on the table `writePostingsOffsetTable` writes: every entry
    (name, value, offset), in order. -/
theorem offset_table_roundtrip (crc : Crc) (es : List TableEntry) (pre post : Bytes)
    (hes : ∀ e ∈ es, EntryWF e) (hn : es.length < 4294967296)
    (hsize : (offsetTableContent es).length < 4294967296) (hpre : pre.length < 9223372036854775808) :
    readOffsetTable crc (pre ++ offsetTable crc es ++ post) pre.length = .ok es := by
  unfold readOffsetTable offsetTable sect
  rw [decbufAt_frame crc pre post (offsetTableContent es) _ _ hsize rfl (crcBytes_length _ _) hpre]
  simp only [ne_eq, not_true_eq_false, if_false]
  unfold offsetTableContent
  rw [getBE32_putBE32 hn]
  simp only
  have := readTableEntries_enc es [] hes
  rw [List.append_nil] at this
  exact this

/-! ## The whole index file -/

/-- Inputs of a block as `index.Writer` accepts them. -/
structure BlockWF (syms : List Bytes) (series : List Series) : Prop where
  strs : ∀ s ∈ syms, s.length < 9223372036854775808
  nsyms : syms.length < 4294967296
  symsize : (symbolsContent syms).length < 4294967296
  series : ∀ s ∈ series, SeriesWF (lookupIn syms) (strOf syms) s

/-- Whole-file statement, first part: in the file `index.Writer` produces (header, symbol table,
    16-aligned series entries, postings, postings offset table, TOC), the reader finds the TOC,
    all symbols, and — at `16·id` for the id the writer assigned — every series with its label
    strings and chunk metas. -/
theorem block_roundtrip_sem_partial (crc : Crc) (syms : List Bytes) (series : List Series)
    (h : BlockWF syms series)
    (hfile : (writeIndex crc syms series).bytes.length < 9223372036854775808) :
    readToc crc (writeIndex crc syms series).bytes = .ok (writeIndex crc syms series).toc ∧
    readSymbols crc (writeIndex crc syms series).bytes (writeIndex crc syms series).toc.symbols = .ok syms ∧
    (writeIndex crc syms series).ids.length = series.length ∧
    ∀ (k : Nat) (s : Series) (id : Nat), series[k]? = some s → (writeIndex crc syms series).ids[k]? = some id →
      readSeriesAt crc (lookupIn syms) (writeIndex crc syms series).bytes (id * 16) = .ok (strsOf (strOf syms) s) := by
  have hlen := hfile
  simp only [writeIndex, List.length_append, zeros, List.length_replicate] at hlen
  refine ⟨?_, ?_, ?_, ?_⟩
  · simp only [writeIndex]
    apply toc_roundtrip
    unfold TocWF U64
    simp only [encToc, List.length_append, tocContent_length, crcBytes_length] at hlen
    refine ⟨?_, ?_, ?_, ?_, ?_, ?_⟩ <;> simp only <;> omega
  · rw [writeIndex_bytes]
    have := symbol_table_roundtrip crc syms indexHeader
      ((placeSeries crc (indexHeader.length + (symbolTable crc syms).length) series).1 ++
        indexMid crc syms series ++ encToc crc (writeIndex crc syms series).toc)
      h.strs h.nsyms h.symsize (by decide)
    simp only [List.append_assoc] at this ⊢
    exact this
  · simp only [writeIndex]
    exact placeSeries_ids_length crc series _
  · intro k s id hs hid
    have hid' : (placeSeries crc (indexHeader.length + (symbolTable crc syms).length) series).2[k]? = some id := hid
    obtain ⟨a, b, hab, hpos⟩ := placeSeries_spec crc series _ k s id hs hid'
    rw [writeIndex_bytes, hab]
    have hwf := h.series s (List.mem_of_getElem? hs)
    have := series_entry_roundtrip crc (lookupIn syms) (strOf syms) s
      (indexHeader ++ symbolTable crc syms ++ a)
      (b ++ indexMid crc syms series ++ encToc crc (writeIndex crc syms series).toc) hwf
    have hl : (indexHeader ++ symbolTable crc syms ++ a).length = id * 16 := by
      simp only [List.length_append]; omega
    rw [hl] at this
    simp only [List.append_assoc] at this ⊢
    exact this

theorem indexHeader_length : indexHeader.length = 5 := rfl

theorem strOf_length (syms : List Bytes) (h : ∀ s ∈ syms, s.length < 9223372036854775808) (n : Nat) :
    (strOf syms n).length < 9223372036854775808 := by
  unfold strOf
  cases hn : syms[n]? with
  | none => simp
  | some s => simp only [Option.getD_some]; exact h s (List.mem_of_getElem? hn)

/-- names and values of the postings lists are symbols (or the empty all-postings key) -/
theorem allPLists_names (syms : List Bytes) (series : List Series) (ids : List Nat) (p : PList)
    (hp : p ∈ allPLists syms series ids) :
    (p.name = [] ∧ p.value = []) ∨ ∃ n v, n ∈ namesOf series ∧ p.name = strOf syms n ∧ p.value = strOf syms v := by
  unfold allPLists at hp
  simp only [List.mem_cons, List.mem_flatMap, List.mem_map] at hp
  rcases hp with hp | ⟨n, hn, v, _, hv⟩
  · left; subst hp; exact ⟨rfl, rfl⟩
  · right; subst hv; exact ⟨n, v, hn, rfl, rfl⟩

theorem namesOf_valid (syms : List Bytes) (series : List Series)
    (h : ∀ s ∈ series, SeriesWF (lookupIn syms) (strOf syms) s) (n : Nat) (hn : n ∈ namesOf series) :
    n < syms.length := by
  unfold namesOf at hn
  have := mem_sortUniq hn
  simp only [List.mem_flatMap, List.mem_map] at this
  obtain ⟨s, hs, p, hp, hpn⟩ := this
  have := ((h s hs).labels p hp).2.2.1
  subst hpn
  unfold lookupIn at this
  by_cases hlt : p.1 < syms.length
  · exact hlt
  · rw [List.getElem?_eq_none (by omega)] at this
    simp at this

/-- `newReader` succeeds on the file the writer produced and holds the symbols and the whole
    postings offset table. -/
theorem openIndex_written (crc : Crc) (syms : List Bytes) (series : List Series) (h : BlockWF syms series)
    (hfile : (writeIndex crc syms series).bytes.length < 4294967296) :
    openIndex crc (writeIndex crc syms series).bytes =
      .ok ⟨(writeIndex crc syms series).bytes, 2, (writeIndex crc syms series).toc, syms, tableOf crc syms series⟩ := by
  obtain ⟨htoc, hsyms, _, _⟩ := block_roundtrip_sem_partial crc syms series h (by omega)
  have hb := writeIndex_bytes crc syms series
  have hb2 := writeIndex_bytes2 crc syms series
  -- header
  have h5 : ¬ (writeIndex crc syms series).bytes.length < 5 := by
    rw [hb]; simp only [List.length_append, indexHeader_length]; omega
  have hmagic : be32At (writeIndex crc syms series).bytes 0 = magicIndex := by
    rw [hb]
    have := be32At_put [] ([2] ++ (symbolTable crc syms ++
      ((placeSeries crc (indexHeader.length + (symbolTable crc syms).length) series).1 ++
        (indexMid crc syms series ++ encToc crc (writeIndex crc syms series).toc)))) magicIndex (by decide)
    simp only [indexHeader, List.append_assoc, List.nil_append, List.length_nil] at this ⊢
    exact this
  have hver : (((writeIndex crc syms series).bytes.drop 4).head?.getD 0).toNat = 2 := by
    rw [hb]; rfl
  -- postings offset table
  have hlen2 := hfile
  rw [hb2] at hlen2
  simp only [List.length_append, offsetTable, sect, putBE32_length, crcBytes_length] at hlen2
  have htable : readOffsetTable crc (writeIndex crc syms series).bytes (writeIndex crc syms series).toc.postingsTable
      = .ok (tableOf crc syms series) := by
    rw [← beforeTable_length, hb2]
    apply offset_table_roundtrip
    · intro e he
      unfold tableOf at he
      simp only [List.mem_map] at he
      obtain ⟨e0, he0, rfl⟩ := he
      obtain ⟨hoff, p, hp, hn, hv⟩ := placePostings_mem crc _ 0 e0 he0
      have hpa := pstartOf_add crc syms series
      refine ⟨?_, ?_, ?_⟩
      · simp only [hn]
        rcases allPLists_names syms series _ p hp with ⟨h1, _⟩ | ⟨n, v, _, h1, _⟩
        · rw [h1]; decide
        · rw [h1]; exact strOf_length syms h.strs n
      · simp only [hv]
        rcases allPLists_names syms series _ p hp with ⟨_, h1⟩ | ⟨n, v, _, _, h1⟩
        · rw [h1]; decide
        · rw [h1]; exact strOf_length syms h.strs v
      · unfold U64
        simp only
        unfold ppOf at hpa
        omega
    · have := flatMap_enc_length_ge (tableOf crc syms series)
      simp only [offsetTableContent, List.length_append, putBE32_length] at hlen2
      omega
    · omega
    · omega
  -- label names are symbols
  have hall : (tableOf crc syms series).all (fun e => e.name.isEmpty || syms.contains e.name) = true := by
    rw [List.all_eq_true]
    intro e he
    unfold tableOf at he
    simp only [List.mem_map] at he
    obtain ⟨e0, he0, rfl⟩ := he
    obtain ⟨_, p, hp, hn, _⟩ := placePostings_mem crc _ 0 e0 he0
    simp only [hn]
    rcases allPLists_names syms series _ p hp with ⟨h1, _⟩ | ⟨n, v, hnn, h1, _⟩
    · rw [h1]; rfl
    · rw [h1]
      have hlt := namesOf_valid syms series h.series n hnn
      have : strOf syms n ∈ syms := by
        unfold strOf
        rw [List.getElem?_eq_getElem hlt]
        simp
      simp [this]
  unfold openIndex
  rw [if_neg h5, if_neg (by rw [hmagic]; simp)]
  simp only [hver]
  rw [if_neg (by decide), htoc]
  simp only
  rw [hsyms]
  simp only
  rw [htable]
  simp only [hall, if_true]


/-- Distinct postings lists have distinct (name, value) keys. -/
def KeysDistinct (ps : List PList) : Prop :=
  ∀ (i j : Nat) (p q : PList), ps[i]? = some p → ps[j]? = some q → p.name = q.name → p.value = q.value → i = j

/-- `Reader.Postings(name, value)` on the written file returns exactly the list the writer stored
    under that key (given that keys are distinct, see `allPLists_keys_distinct`). -/
theorem postings_written (crc : Crc) (syms : List Bytes) (series : List Series) (h : BlockWF syms series)
    (hfile : (writeIndex crc syms series).bytes.length < 4294967296)
    (hkeys : KeysDistinct (allPLists syms series (writeIndex crc syms series).ids))
    (k : Nat) (p : PList) (hp : (allPLists syms series (writeIndex crc syms series).ids)[k]? = some p) :
    Reader.postings crc ⟨(writeIndex crc syms series).bytes, 2, (writeIndex crc syms series).toc, syms,
      tableOf crc syms series⟩ p.name p.value = .ok p.ids := by
  have hp' : (allPLists syms series
      (placeSeries crc (indexHeader.length + (symbolTable crc syms).length) series).2)[k]? = some p := hp
  obtain ⟨e, a, b, he, hn, hv, hab, hoff⟩ := placePostings_spec crc _ 0 k p hp'
  -- the table entry at index k
  have hek : (tableOf crc syms series)[k]? = some { e with off := e.off + pstartOf crc syms series } := by
    unfold tableOf ppOf
    rw [List.getElem?_map, he]; rfl
  have hfind : (tableOf crc syms series).find? (fun e => decide (e.name = p.name ∧ e.value = p.value))
      = some { e with off := e.off + pstartOf crc syms series } := by
    apply find?_unique_index _ _ k _ hek
    · simp [hn, hv]
    · intro j y hj hy
      unfold tableOf ppOf at hj
      rw [List.getElem?_map] at hj
      cases hj0 : (placePostings crc 0 (allPLists syms series
          (placeSeries crc (indexHeader.length + (symbolTable crc syms).length) series).2)).2[j]? with
      | none => rw [hj0] at hj; simp at hj
      | some y0 =>
        rw [hj0] at hj
        simp only [Option.map_some, Option.some.injEq] at hj
        have hjlt : j < (allPLists syms series
            (placeSeries crc (indexHeader.length + (symbolTable crc syms).length) series).2).length := by
          have := (List.getElem?_eq_some_iff.mp hj0).1
          rw [placePostings_length] at this
          exact this
        have hq := List.getElem?_eq_getElem hjlt
        obtain ⟨e', _, _, he', hn', hv', _, _⟩ := placePostings_spec crc _ 0 j _ hq
        rw [hj0] at he'
        cases he'
        subst hj
        simp only [decide_eq_true_eq] at hy
        exact hkeys j k _ p hq hp' (by rw [← hn']; exact hy.1) (by rw [← hv']; exact hy.2)
  unfold Reader.postings
  simp only [hfind]
  -- the list sits at that offset
  have hb2 := writeIndex_bytes2 crc syms series
  have hpa := pstartOf_add crc syms series
  have hfile2 := hfile
  rw [hb2] at hfile2
  simp only [List.length_append] at hfile2
  unfold ppOf at hpa
  rw [hab] at hpa
  simp only [List.length_append] at hpa
  have hpre : (indexHeader ++ symbolTable crc syms ++
      (placeSeries crc (indexHeader.length + (symbolTable crc syms).length) series).1 ++
      zeros (padLen 4 (indexHeader.length + (symbolTable crc syms).length +
        (placeSeries crc (indexHeader.length + (symbolTable crc syms).length) series).1.length)) ++ a).length
      = e.off + pstartOf crc syms series := by
    simp only [pstartOf, List.length_append, zeros, List.length_replicate] at hoff ⊢
    omega
  have hfileeq : (writeIndex crc syms series).bytes =
      (indexHeader ++ symbolTable crc syms ++
        (placeSeries crc (indexHeader.length + (symbolTable crc syms).length) series).1 ++
        zeros (padLen 4 (indexHeader.length + (symbolTable crc syms).length +
          (placeSeries crc (indexHeader.length + (symbolTable crc syms).length) series).1.length)) ++ a) ++
      postingsList crc p.ids ++
      (b ++ offsetTable crc (tableOf crc syms series) ++ encToc crc (writeIndex crc syms series).toc) := by
    rw [hb2]
    unfold beforeTable ppOf
    rw [hab]
    simp only [List.append_assoc]
  rw [hfileeq, ← hpre]
  have hplen : (postingsList crc p.ids).length = 4 + (4 + 4 * p.ids.length) + 4 := by
    simp only [postingsList, sect, postingsContent, List.length_append, putBE32_length, crcBytes_length,
      flatMap_putBE32_length]
  apply postings_list_roundtrip
  · intro id hid
    have hmem := allPLists_ids_subset syms series _ p (List.mem_of_getElem? hp') id hid
    have := placeSeries_ids_bound crc series _ id hmem
    simp only [beforeTable, List.length_append] at hfile2
    omega
  · omega
  · rw [hpre]; unfold pstartOf at hpa ⊢; omega


theorem valuesOf_valid (syms : List Bytes) (series : List Series)
    (h : ∀ s ∈ series, SeriesWF (lookupIn syms) (strOf syms) s) (n v : Nat) (hv : v ∈ valuesOf series n) :
    v < syms.length := by
  unfold valuesOf at hv
  have := mem_sortUniq hv
  simp only [List.mem_flatMap, List.mem_map, List.mem_filter] at this
  obtain ⟨s, hs, p, ⟨hp, _⟩, hpv⟩ := this
  have := ((h s hs).labels p hp).2.2.2
  subst hpv
  unfold lookupIn at this
  by_cases hlt : p.2 < syms.length
  · exact hlt
  · rw [List.getElem?_eq_none (by omega)] at this
    simp at this

theorem keysDistinct_of_pairwise (ps : List PList)
    (h : ps.Pairwise fun p q => ¬ (p.name = q.name ∧ p.value = q.value)) : KeysDistinct ps := by
  intro i j p q hp hq hn hv
  rw [List.pairwise_iff_getElem] at h
  obtain ⟨hi, rfl⟩ := List.getElem?_eq_some_iff.mp hp
  obtain ⟨hj, rfl⟩ := List.getElem?_eq_some_iff.mp hq
  rcases Nat.lt_trichotomy i j with hlt | heq | hgt
  · exact absurd ⟨hn, hv⟩ (h i j hi hj hlt)
  · exact heq
  · exact absurd ⟨hn.symm, hv.symm⟩ (h j i hj hi hgt)

/-- The keys of the postings lists are pairwise distinct when the symbol table has no duplicates
    (`AddSymbol` enforces a strictly increasing table) and label names are non-empty. -/
theorem allPLists_keys_distinct (syms : List Bytes) (series : List Series) (ids : List Nat)
    (h : BlockWF syms series) (hnd : syms.Nodup) (hne : ∀ n ∈ namesOf series, strOf syms n ≠ []) :
    KeysDistinct (allPLists syms series ids) := by
  apply keysDistinct_of_pairwise
  unfold allPLists
  rw [List.pairwise_cons]
  constructor
  · intro q hq
    simp only [List.mem_flatMap, List.mem_map] at hq
    obtain ⟨n, hn, v, _, rfl⟩ := hq
    intro hc
    exact hne n hn hc.1.symm
  · rw [List.pairwise_flatMap]
    constructor
    · intro n hn
      rw [List.pairwise_map]
      apply List.Pairwise.imp_of_mem _ (sortUniq_sorted _)
      intro a b ha hb hab hc
      have hva := valuesOf_valid syms series h.series n a ha
      have hvb := valuesOf_valid syms series h.series n b hb
      have := strOf_inj syms hnd a b hva hvb hc.2
      omega
    · apply List.Pairwise.imp_of_mem _ (sortUniq_sorted _)
      intro a b ha hb hab x hx y hy hc
      simp only [List.mem_map] at hx hy
      obtain ⟨_, _, rfl⟩ := hx
      obtain ⟨_, _, rfl⟩ := hy
      have hva := namesOf_valid syms series h.series a ha
      have hvb := namesOf_valid syms series h.series b hb
      have := strOf_inj syms hnd a b hva hvb hc.1
      omega


/-- Whole-file statement, second part (superseded by `block_roundtrip_sem` below, kept as its
    stepping stone): `newReader` accepts the written file; through the opened
    reader every series, the all-postings list and the postings of every label pair in use read
    back (file below 4 GiB, symbol table without duplicates — `AddSymbol` enforces strictly
    increasing symbols —, non-empty label names). -/
theorem block_roundtrip_reader_partial (crc : Crc) (syms : List Bytes) (series : List Series)
    (h : BlockWF syms series) (hfile : (writeIndex crc syms series).bytes.length < 4294967296)
    (hnd : syms.Nodup) (hne : ∀ n ∈ namesOf series, strOf syms n ≠ []) :
    ∃ r, openIndex crc (writeIndex crc syms series).bytes = .ok r ∧ r.syms = syms ∧
      (∀ (k : Nat) (s : Series) (id : Nat), series[k]? = some s → (writeIndex crc syms series).ids[k]? = some id →
        r.series crc id = .ok (strsOf (strOf syms) s)) ∧
      r.postings crc [] [] = .ok (writeIndex crc syms series).ids ∧
      (∀ n v, n ∈ namesOf series → v ∈ valuesOf series n →
        r.postings crc (strOf syms n) (strOf syms v) =
          .ok (idsWith ((writeIndex crc syms series).ids.zip series) n v)) := by
  refine ⟨_, openIndex_written crc syms series h hfile, rfl, ?_, ?_, ?_⟩
  · intro k s id hs hid
    exact (block_roundtrip_sem_partial crc syms series h (by omega)).2.2.2 k s id hs hid
  · have hk := allPLists_keys_distinct syms series (writeIndex crc syms series).ids h hnd hne
    exact postings_written crc syms series h hfile hk 0 ⟨[], [], (writeIndex crc syms series).ids⟩ (by simp [allPLists])
  · intro n v hn hv
    have hk := allPLists_keys_distinct syms series (writeIndex crc syms series).ids h hnd hne
    have hmem : (⟨strOf syms n, strOf syms v, idsWith ((writeIndex crc syms series).ids.zip series) n v⟩ : PList)
        ∈ allPLists syms series (writeIndex crc syms series).ids := by
      unfold allPLists
      simp only [List.mem_cons, List.mem_flatMap, List.mem_map]
      exact Or.inr ⟨n, hn, v, hv, rfl⟩
    obtain ⟨k, hk1, hk2⟩ := List.getElem_of_mem hmem
    have := postings_written crc syms series h hfile hk k _ (by rw [List.getElem?_eq_getElem hk1, hk2])
    exact this

theorem nodup_of_sorted (syms : List Bytes) (h : syms.Pairwise (fun a b => bytesLt a b = true)) : syms.Nodup := by
  rw [List.nodup_iff_pairwise_ne]
  apply List.Pairwise.imp _ h
  intro a b hab hc
  subst hc
  rw [bytesLt_irrefl] at hab
  cases hab

theorem strOf_lt (syms : List Bytes) (h : syms.Pairwise (fun a b => bytesLt a b = true)) (i j : Nat)
    (hij : i < j) (hj : j < syms.length) : bytesLt (strOf syms i) (strOf syms j) = true := by
  rw [List.pairwise_iff_getElem] at h
  have := h i j (by omega) hj hij
  unfold strOf
  rw [List.getElem?_eq_getElem (by omega : i < syms.length), List.getElem?_eq_getElem hj]
  exact this

/-- `Reader.LabelValues(name)` on the written file. -/
theorem labelValues_written (crc : Crc) (syms : List Bytes) (series : List Series) (h : BlockWF syms series)
    (hnd : syms.Nodup) (hne : ∀ n ∈ namesOf series, strOf syms n ≠ []) (n : Nat) (hn : n ∈ namesOf series) :
    Reader.labelValues ⟨(writeIndex crc syms series).bytes, 2, (writeIndex crc syms series).toc, syms,
      tableOf crc syms series⟩ (strOf syms n) = (valuesOf series n).map (strOf syms) := by
  unfold Reader.labelValues
  simp only
  have h1 : ((tableOf crc syms series).filter fun e => decide (e.name = strOf syms n)).map (·.value) =
      (((tableOf crc syms series).map fun e => (e.name, e.value)).filter
        (fun k => decide (k.1 = strOf syms n))).map (·.2) := by
    rw [List.filter_map, List.map_map]; rfl
  rw [h1, tableOf_keys, allPLists_keys]
  have h2 : decide ((([] : Bytes), ([] : Bytes)).1 = strOf syms n) = false := by
    simp only [decide_eq_false_iff_not]; intro hc; exact hne n hn hc.symm
  rw [List.filter_cons_of_neg (by rw [h2]; simp)]
  exact filter_keys syms (valuesOf series) hnd (namesOf series) n (sortUniq_sorted _)
    (fun m hm => namesOf_valid syms series h.series m hm) hn

/-- `Reader.LabelNames()` on the written file. -/
theorem labelNames_written (crc : Crc) (syms : List Bytes) (series : List Series) (h : BlockWF syms series)
    (hsorted : syms.Pairwise (fun a b => bytesLt a b = true)) (hne : ∀ n ∈ namesOf series, strOf syms n ≠ []) :
    Reader.labelNames ⟨(writeIndex crc syms series).bytes, 2, (writeIndex crc syms series).toc, syms,
      tableOf crc syms series⟩ = (namesOf series).map (strOf syms) := by
  unfold Reader.labelNames
  simp only
  have h1 : (tableOf crc syms series).map (·.name) =
      ((tableOf crc syms series).map fun e => (e.name, e.value)).map (·.1) := by
    rw [List.map_map]; rfl
  rw [h1, tableOf_keys, allPLists_keys]
  simp only [List.map_cons, List.filter_cons, List.isEmpty_nil, Bool.not_true, Bool.false_eq_true, if_false]
  have h2 : (restKeys syms series).map (·.1) =
      (namesOf series).flatMap fun n => (valuesOf series n).map fun _ => strOf syms n := by
    unfold restKeys
    simp only [List.map_flatMap, List.map_map]
    rfl
  rw [h2]
  have h3 : ((namesOf series).flatMap fun n => (valuesOf series n).map fun _ => strOf syms n).filter
      (fun n => !n.isEmpty) = (namesOf series).flatMap fun n => (valuesOf series n).map fun _ => strOf syms n := by
    rw [List.filter_eq_self]
    intro a ha
    simp only [List.mem_flatMap, List.mem_map] at ha
    obtain ⟨n, hn, _, _, rfl⟩ := ha
    have := hne n hn
    cases hs : strOf syms n with
    | nil => exact absurd hs this
    | cons _ _ => rfl
  rw [h3]
  apply foldr_insertBytes_blocks
  · rw [List.pairwise_map]
    apply List.Pairwise.imp_of_mem _ (sortUniq_sorted _)
    intro a b _ hb hab
    exact strOf_lt syms hsorted a b hab (namesOf_valid syms series h.series b hb)
  · intro n hn; exact valuesOf_ne_nil series n hn

/-- **Whole-file round trip.**  For every symbol table (strictly sorted, as `AddSymbol` enforces) and
    every list of series `index.Writer` accepts (label names non-empty, file below 4 GiB):
    `newReader` opens the written file, and symbols, every series (labels + chunk metas), the
    all-postings list, the postings of every label pair, the values of every label name and the
    label names read back exactly. -/
theorem block_roundtrip_sem (crc : Crc) (syms : List Bytes) (series : List Series) (h : BlockWF syms series)
    (hsorted : syms.Pairwise (fun a b => bytesLt a b = true))
    (hne : ∀ n ∈ namesOf series, strOf syms n ≠ [])
    (hfile : (writeIndex crc syms series).bytes.length < 4294967296) :
    ∃ r, openIndex crc (writeIndex crc syms series).bytes = .ok r ∧ r.syms = syms ∧
      (∀ (k : Nat) (s : Series) (id : Nat), series[k]? = some s → (writeIndex crc syms series).ids[k]? = some id →
        r.series crc id = .ok (strsOf (strOf syms) s)) ∧
      r.postings crc [] [] = .ok (writeIndex crc syms series).ids ∧
      (∀ n v, n ∈ namesOf series → v ∈ valuesOf series n →
        r.postings crc (strOf syms n) (strOf syms v) =
          .ok (idsWith ((writeIndex crc syms series).ids.zip series) n v)) ∧
      (∀ n, n ∈ namesOf series → r.labelValues (strOf syms n) = (valuesOf series n).map (strOf syms)) ∧
      r.labelNames = (namesOf series).map (strOf syms) := by
  have hnd := nodup_of_sorted syms hsorted
  obtain ⟨r, hr, h1, h2, h3, h4⟩ := block_roundtrip_reader_partial crc syms series h hfile hnd hne
  have hreq : r = ⟨(writeIndex crc syms series).bytes, 2, (writeIndex crc syms series).toc, syms,
      tableOf crc syms series⟩ := by
    have := openIndex_written crc syms series h hfile
    rw [hr] at this
    cases this; rfl
  refine ⟨r, hr, h1, h2, h3, h4, ?_, ?_⟩
  · intro n hn; rw [hreq]; exact labelValues_written crc syms series h hnd hne n hn
  · rw [hreq]; exact labelNames_written crc syms series h hsorted hne

/-- The hypotheses of `block_roundtrip_sem` hold for a concrete block (two series sharing a label
    name, extreme chunk metas). -/
example :
    BlockWF [[97], [98], [99]]
      [⟨[(0, 1)], [⟨-9223372036854775808, 9223372036854775807, 18446744073709551615⟩]⟩, ⟨[(0, 2)], []⟩] ∧
    [[97], [98], [99]].Pairwise (fun a b => bytesLt a b = true) ∧
    (∀ n ∈ namesOf [⟨[(0, 1)], [⟨-9223372036854775808, 9223372036854775807, 18446744073709551615⟩]⟩, ⟨[(0, 2)], []⟩],
      strOf [[97], [98], [99]] n ≠ []) := by
  refine ⟨⟨?_, by decide, by decide, ?_⟩, by decide, ?_⟩
  · intro s hs; simp at hs; rcases hs with rfl | rfl | rfl <;> decide
  · intro s hs
    simp at hs
    rcases hs with rfl | rfl
    · exact ⟨by intro p hp; simp at hp; subst hp; exact ⟨by decide, by decide, rfl, rfl⟩, by decide,
        by intro c hc; simp at hc; subst hc; unfold ChunkWF I64 U64; decide, by decide, by decide⟩
    · exact ⟨by intro p hp; simp at hp; subst hp; exact ⟨by decide, by decide, rfl, rfl⟩, by decide,
        by intro c hc; simp at hc, by decide, by decide⟩
  · intro n hn
    have : namesOf [⟨[(0, 1)], [⟨-9223372036854775808, 9223372036854775807, 18446744073709551615⟩]⟩, ⟨[(0, 2)], []⟩] = [0] := by decide
    rw [this] at hn
    simp at hn
    subst hn
    decide

/-! ### merged postings of several values of one label name -/

/-- If every listed value reads back its list, `postingsOfValues` returns the lists in order. -/
theorem postingsOfValues_ok (crc : Crc) (r : Reader) (name : Bytes) (f : Nat → Bytes) (g : Nat → List Nat) :
    ∀ (vs : List Nat), (∀ v ∈ vs, r.postings crc name (f v) = .ok (g v)) →
      r.postingsOfValues crc name (vs.map f) = .ok (vs.map g) := by
  intro vs
  induction vs with
  | nil => intro _; rfl
  | cons v vs ih =>
    intro h
    simp only [List.map_cons, Reader.postingsOfValues]
    rw [h v (by simp), ih (fun w hw => h w (by simp [hw]))]

/-- **Merged reads on the written file** (extends `block_roundtrip_sem` to the reads that walk the
    postings offset table of one label name): on the file written by the model of `index.Writer`,
    for every label name in use
    * `PostingsForLabelMatching(name, match)` is the merge of the lists of exactly the values of that
      name accepted by `match` — every value, the largest one included —, each list being the series
      carrying the pair;
    * `PostingsForAllLabelValues(name)` is the merge over all its values;
    * `Postings(name, values...)` for values in use is the merge of their lists. -/
theorem block_merged_postings_sem (crc : Crc) (syms : List Bytes) (series : List Series) (h : BlockWF syms series)
    (hsorted : syms.Pairwise (fun a b => bytesLt a b = true))
    (hne : ∀ n ∈ namesOf series, strOf syms n ≠ [])
    (hfile : (writeIndex crc syms series).bytes.length < 4294967296) :
    ∃ r, openIndex crc (writeIndex crc syms series).bytes = .ok r ∧
      (∀ n (pred : Bytes → Bool), n ∈ namesOf series →
        r.postingsMatching crc (strOf syms n) pred =
          .ok (mergeIds (((valuesOf series n).filter fun v => pred (strOf syms v)).map fun v =>
            idsWith ((writeIndex crc syms series).ids.zip series) n v))) ∧
      (∀ n, n ∈ namesOf series →
        r.postingsAll crc (strOf syms n) =
          .ok (mergeIds ((valuesOf series n).map fun v =>
            idsWith ((writeIndex crc syms series).ids.zip series) n v))) ∧
      (∀ n (vs : List Nat), n ∈ namesOf series → (∀ v ∈ vs, v ∈ valuesOf series n) →
        r.postingsMulti crc (strOf syms n) (vs.map (strOf syms)) =
          .ok (mergeIds (vs.map fun v => idsWith ((writeIndex crc syms series).ids.zip series) n v))) := by
  obtain ⟨r, hr, _, _, _, hpost, hlv, _⟩ := block_roundtrip_sem crc syms series h hsorted hne hfile
  have hmatch : ∀ n (pred : Bytes → Bool), n ∈ namesOf series →
      r.postingsMatching crc (strOf syms n) pred =
        .ok (mergeIds (((valuesOf series n).filter fun v => pred (strOf syms v)).map fun v =>
          idsWith ((writeIndex crc syms series).ids.zip series) n v)) := by
    intro n pred hn
    unfold Reader.postingsMatching
    rw [hlv n hn, List.filter_map]
    rw [postingsOfValues_ok crc r (strOf syms n) (strOf syms)
      (fun v => idsWith ((writeIndex crc syms series).ids.zip series) n v)]
    · rfl
    · intro v hv
      exact hpost n v hn (List.mem_filter.mp hv).1
  refine ⟨r, hr, hmatch, ?_, ?_⟩
  · intro n hn
    have := hmatch n (fun _ => true) hn
    have hf : (valuesOf series n).filter (fun v => (fun _ : Bytes => true) (strOf syms v)) = valuesOf series n :=
      List.filter_eq_self.mpr (fun _ _ => rfl)
    rw [hf] at this
    exact this
  · intro n vs hn hvs
    unfold Reader.postingsMulti
    have hall : (vs.map (strOf syms)).filter (fun v => (r.labelValues (strOf syms n)).contains v) =
        vs.map (strOf syms) := by
      rw [List.filter_eq_self]
      intro a ha
      obtain ⟨v, hv, rfl⟩ := List.mem_map.mp ha
      rw [hlv n hn, List.contains_iff_mem]
      exact List.mem_map.mpr ⟨v, hvs v hv, rfl⟩
    rw [hall, postingsOfValues_ok crc r (strOf syms n) (strOf syms)
      (fun v => idsWith ((writeIndex crc syms series).ids.zip series) n v)]
    intro v hv
    exact hpost n v hn (hvs v hv)

/-- `mergeIds` of the lists of a label name with three values over three series: one list, and the
    sorted union of several (non-trivial instance of the right-hand sides above). -/
example : mergeIds [[3, 7]] = [3, 7] ∧ mergeIds [[3, 7], [5], [7, 9]] = [3, 5, 7, 9] ∧ mergeIds [] = [] := by decide

/-! ## Damage of sections and of the whole file -/

/-- Any length-prefixed section (`BE32 len | content | crc32`: symbol table, postings list, postings
    offset table): a changed content byte is a checksum error for `NewDecbufAt`. -/
theorem section_damage_detected (crc : Crc) (hcrc : CrcDetects1 crc) (content pre post b1 b2 : Bytes) (x y : UInt8)
    (hsize : content.length < 4294967296) (hpre : pre.length < 9223372036854775808)
    (hsplit : content = b1 ++ x :: b2) (hxy : x ≠ y) :
    decbufAt crc true (pre ++ (putBE32 content.length ++ (b1 ++ y :: b2) ++ crcBytes crc content) ++ post) pre.length
      = .error .checksum := by
  have hl : (b1 ++ y :: b2).length = content.length := by rw [hsplit]; simp
  rw [decbufAt_frame crc pre post _ _ _ hsize hl (crcBytes_length _ _) hpre]
  rw [if_pos]
  rw [hsplit]
  exact crcBytes_ne crc (hcrc b1 b2 y x (fun h => hxy h.symm))

/-- … and a changed byte of the stored checksum as well (no assumption on `crc`). -/
theorem section_crc_damage_detected (crc : Crc) (content pre post c1 c2 : Bytes) (x y : UInt8)
    (hsize : content.length < 4294967296) (hpre : pre.length < 9223372036854775808)
    (hsplit : crcBytes crc content = c1 ++ x :: c2) (hxy : x ≠ y) :
    decbufAt crc true (pre ++ (putBE32 content.length ++ content ++ (c1 ++ y :: c2)) ++ post) pre.length
      = .error .checksum := by
  have hl : (c1 ++ y :: c2).length = 4 := by
    have := congrArg List.length hsplit
    rw [crcBytes_length] at this
    simp only [List.length_cons, List.length_append] at this ⊢; omega
  rw [decbufAt_frame crc pre post _ _ _ hsize rfl hl hpre]
  rw [if_pos]
  rw [hsplit]
  intro h
  have := List.append_cancel_left h
  simp at this
  exact hxy this

/-- The fault sweep on the whole index file: altering byte `i` of the body-or-checksum part of the
    `k`-th series entry (absolute position `16·id + len(uvarint) + i`) makes `Reader.Series(id)` fail
    with a checksum error. -/
theorem block_entry_damage_detected (crc : Crc) (hcrc : CrcDetects1 crc) (lookup : Lookup)
    (syms : List Bytes) (series : List Series) (k : Nat) (s : Series) (id : Nat)
    (hs : series[k]? = some s) (hid : (writeIndex crc syms series).ids[k]? = some id)
    (hsize : (seriesBody s).length < 34359738368)
    (i : Nat) (hi : i < (seriesBody s).length + 4) (y : UInt8)
    (hy : (seriesBody s ++ crcBytes crc (seriesBody s))[i]? ≠ some y) :
    readSeriesAt crc lookup
      ((writeIndex crc syms series).bytes.set (id * 16 + (putUvarint (seriesBody s).length).length + i) y)
      (id * 16) = .error .checksum := by
  have hid' : (placeSeries crc (indexHeader.length + (symbolTable crc syms).length) series).2[k]? = some id := hid
  obtain ⟨a, b, hab, hpos⟩ := placeSeries_spec crc series _ k s id hs hid'
  have hfile : (writeIndex crc syms series).bytes =
      (indexHeader ++ symbolTable crc syms ++ a) ++
        (putUvarint (seriesBody s).length ++ (seriesBody s ++ crcBytes crc (seriesBody s))) ++
        (b ++ indexMid crc syms series ++ encToc crc (writeIndex crc syms series).toc) := by
    rw [writeIndex_bytes, hab]
    simp only [seriesEntry, List.append_assoc]
  have hl : (indexHeader ++ symbolTable crc syms ++ a).length = id * 16 := by
    simp only [List.length_append]; omega
  rw [hfile, ← hl]
  have hset : ((indexHeader ++ symbolTable crc syms ++ a) ++
        (putUvarint (seriesBody s).length ++ (seriesBody s ++ crcBytes crc (seriesBody s))) ++
        (b ++ indexMid crc syms series ++ encToc crc (writeIndex crc syms series).toc)).set
        ((indexHeader ++ symbolTable crc syms ++ a).length + (putUvarint (seriesBody s).length).length + i) y =
      (indexHeader ++ symbolTable crc syms ++ a) ++
        (putUvarint (seriesBody s).length ++ (seriesBody s ++ crcBytes crc (seriesBody s)).set i y) ++
        (b ++ indexMid crc syms series ++ encToc crc (writeIndex crc syms series).toc) := by
    have hlen : (seriesBody s ++ crcBytes crc (seriesBody s)).length = (seriesBody s).length + 4 := by
      simp [crcBytes_length]
    rw [List.append_assoc, List.set_append, if_neg (by omega)]
    rw [List.set_append, if_pos (by simp only [List.length_append, hlen]; omega)]
    rw [List.set_append, if_neg (by omega)]
    have e : (indexHeader ++ symbolTable crc syms ++ a).length + (putUvarint (seriesBody s).length).length + i -
        (indexHeader ++ symbolTable crc syms ++ a).length - (putUvarint (seriesBody s).length).length = i := by omega
    rw [e]
    simp only [List.append_assoc]
  rw [hset]
  exact entry_damage_any_position crc hcrc lookup s _ _ hsize i hi y hy

end Prom.C24
