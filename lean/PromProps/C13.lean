import PromModel.Tsdb.WalFrame
import PromModel.Suites.WalSuite
import PromProofs.WalRoundtrip
/-
  C13 — The write-ahead log returns exactly the records written.
  Property theorems only; the model is PromModel/Tsdb/WalFrame.lean, helper lemmas are in
  PromProofs/WalFrame.lean and PromProofs/WalRoundtrip.lean.

  All theorems are for every page size `ps` with `8 ≤ ps ≤ 65542` (a fragment length must fit the
  16-bit length field: `ps - 7 ≤ 65535`; Go's constant is 32768), every number of pages per segment
  `pps` (so every segment size `pps·ps`, including the degenerate `pps = 0`), every checksum function
  `crc`, and every sequence of batches of records of any length (empty records, records larger than
  a page or than a whole segment included).
-/
namespace Prom.C13
open Prom.Wal

/-- Admissible page sizes. -/
def WF (ps : Nat) : Prop := 8 ≤ ps ∧ ps ≤ 65542

example : WF 32768 := by unfold WF; omega
example : WF 8 := by unfold WF; omega

/-- **Round trip.** Reading the segment files left by `Log(batch₁) … Log(batchₙ); Close()` with the
    `Reader` returns exactly the logged records, in order, and ends without an error having consumed
    every byte. -/
theorem wal_roundtrip (ps pps : Nat) (crc : Crc) (hps : WF ps) (batches : List (List Bytes)) :
    readAll ps crc (segments ps (logAll ps pps crc batches)) =
      (batches.flatten, .eof (segStream ps (segments ps (logAll ps pps crc batches))).length) := by
  obtain ⟨sr, hseg, hsr, hrecs⟩ := (Inv.logAll pps hps.1 hps.2 batches (crc := crc)).segments
  unfold readAll
  rw [hseg, segStream_aligned sr hsr, (Reads.flatten sr hsr).rloop_eq, hrecs]

/-- **Fragments never cross segments.** Every segment file is page aligned and is a complete log on
    its own: read alone it yields whole records without error, and the per-segment record lists
    concatenate to the logged sequence (no record is split between two files). -/
theorem fragments_never_cross_segments (ps pps : Nat) (crc : Crc) (hps : WF ps)
    (batches : List (List Bytes)) :
    ∃ sr : List (Bytes × List Bytes),
      segments ps (logAll ps pps crc batches) = sr.map Prod.fst ∧
      (∀ p ∈ sr, p.1.length % ps = 0 ∧ readAll ps crc [p.1] = (p.2, .eof p.1.length)) ∧
      (sr.map Prod.snd).flatten = batches.flatten := by
  obtain ⟨sr, hseg, hsr, hrecs⟩ := (Inv.logAll pps hps.1 hps.2 batches (crc := crc)).segments
  refine ⟨sr, hseg, ?_, hrecs⟩
  intro p hp
  have h := hsr p hp
  refine ⟨h.end_mod, ?_⟩
  unfold readAll segStream
  simp only [List.map_cons, List.map_nil, List.flatten_cons, List.flatten_nil, List.append_nil,
    segPad_aligned h.end_mod]
  exact h.rloop_eq

/-- The writer's fragment loop never runs out of the fuel the model gives it: the record is
    returned whole (a consequence of `Reads.frag`, stated for the first fragment of a page). -/
theorem frag_fuel_enough (ps : Nat) (crc : Crc) (hps : WF ps) (a : Nat) (ha : a + 7 ≤ ps) (rec : Bytes) :
    ∃ a', rloop ps crc ⟨a, 0, [], 0⟩ (fragBytes ps crc (fragFuel rec) 0 a rec) =
      ([rec], .eof (a + (fragBytes ps crc (fragFuel rec) 0 a rec).length)) ∧ a' + 7 ≤ ps := by
  obtain ⟨a', ha', h⟩ := Reads.frag crc hps.1 hps.2 ha rec
  obtain ⟨ty', hty', _, e⟩ := h a 0 [] (Nat.mod_eq_of_lt (by omega)) nonTorn_zero
  refine ⟨a', ?_, ha'⟩
  rw [List.append_nil] at e
  rw [e, rloop_nil]
  simp [prep, eofStatus_nonTorn hty']

end Prom.C13
