import PromModel.Tsdb.WalFrame
import PromModel.Suites.WalSuite
import PromProofs.WalRoundtrip
import PromProofs.WalLayout
import PromProofs.WalLiveSim
import PromProofs.WalLiveToks
import PromProofs.WalTruncate
/-
  C13 — The write-ahead log returns exactly the records written.
  Property theorems only; the model is PromModel/Tsdb/WalFrame.lean, helper lemmas are in
  PromProofs/WalFrame.lean and PromProofs/WalRoundtrip.lean.

  All theorems are for every page size `ps` with `8 ≤ ps ≤ 65542` (a fragment length must fit the
  16-bit length field: `ps - 7 ≤ 65535`; Go's constant is 32768), every number of pages per segment
  `pps` (so every segment size `pps·ps`, including the degenerate `pps = 0`), every checksum function
  `crc`, and every sequence of batches of records of any length (empty records, records larger than
  a page or than a whole segment included).
-/
namespace Prom.C13
open Prom.Wal

/-- Admissible page sizes. -/
def WF (ps : Nat) : Prop := 8 ≤ ps ∧ ps ≤ 65542

example : WF 32768 := by unfold WF; omega
example : WF 8 := by unfold WF; omega

/-- **Round trip.** Reading the segment files left by `Log(batch₁) … Log(batchₙ); Close()` with the
    `Reader` returns exactly the logged records, in order, and ends without an error having consumed
    every byte. -/
theorem wal_roundtrip (ps pps : Nat) (crc : Crc) (hps : WF ps) (batches : List (List Bytes)) :
    readAll ps crc (segments ps (logAll ps pps crc batches)) =
      (batches.flatten, .eof (segStream ps (segments ps (logAll ps pps crc batches))).length) := by
  obtain ⟨sr, hseg, hsr, hrecs⟩ := (Inv.logAll pps hps.1 hps.2 batches (crc := crc)).segments
  unfold readAll
  rw [hseg, segStream_aligned sr hsr, (Reads.flatten sr hsr).rloop_eq, hrecs]

/-- **Fragments never cross segments.** Every segment file is page aligned and is a complete log on
    its own: read alone it yields whole records without error, and the per-segment record lists
    concatenate to the logged sequence (no record is split between two files). -/
theorem fragments_never_cross_segments (ps pps : Nat) (crc : Crc) (hps : WF ps)
    (batches : List (List Bytes)) :
    ∃ sr : List (Bytes × List Bytes),
      segments ps (logAll ps pps crc batches) = sr.map Prod.fst ∧
      (∀ p ∈ sr, p.1.length % ps = 0 ∧ readAll ps crc [p.1] = (p.2, .eof p.1.length)) ∧
      (sr.map Prod.snd).flatten = batches.flatten := by
  obtain ⟨sr, hseg, hsr, hrecs⟩ := (Inv.logAll pps hps.1 hps.2 batches (crc := crc)).segments
  refine ⟨sr, hseg, ?_, hrecs⟩
  intro p hp
  have h := hsr p hp
  refine ⟨h.end_mod, ?_⟩
  unfold readAll segStream
  simp only [List.map_cons, List.map_nil, List.flatten_cons, List.flatten_nil, List.append_nil,
    segPad_aligned h.end_mod]
  exact h.rloop_eq

/-- The writer's fragment loop never runs out of the fuel the model gives it: the record is
    returned whole (a consequence of `Reads.frag`, stated for the first fragment of a page). -/
theorem frag_fuel_enough (ps : Nat) (crc : Crc) (hps : WF ps) (a : Nat) (ha : a + 7 ≤ ps) (rec : Bytes) :
    ∃ a', rloop ps crc ⟨a, 0, [], 0⟩ (fragBytes ps crc (fragFuel rec) 0 a rec) =
      ([rec], .eof (a + (fragBytes ps crc (fragFuel rec) 0 a rec).length)) ∧ a' + 7 ≤ ps := by
  obtain ⟨a', ha', h⟩ := Reads.frag crc hps.1 hps.2 ha rec
  obtain ⟨ty', hty', _, e⟩ := h a 0 [] (Nat.mod_eq_of_lt (by omega)) nonTorn_zero
  refine ⟨a', ?_, ha'⟩
  rw [List.append_nil] at e
  rw [e, rloop_nil]
  simp [prep, eofStatus_nonTorn hty']


/-- **Page layout.** Every segment file is a sequence of pages of exactly `ps` bytes, and every page
    consists of whole fragments (`type len16 crc32 data`, type ∈ full/first/middle/last) followed by
    zero bytes only: no fragment straddles a page, nothing but zeros follows the last fragment. -/
theorem page_layout_inv (ps pps : Nat) (crc : Crc) (hps : WF ps) (batches : List (List Bytes)) :
    ∀ seg ∈ segments ps (logAll ps pps crc batches),
      ∃ pages : List Bytes, seg = pages.flatten ∧
        ∀ p ∈ pages, p.length = ps ∧ ∃ fs k, Frames crc fs ∧ p = fs ++ zeros k :=
  (LInv.logAll pps hps.1 batches).segments

/-! ### Huge records (suite ops `big*`)

  Records of 1 MiB … 128 MiB+1 are written by the harness as runs of one byte (`r<n>x<b>`) with every
  compression type and read back with `Reader` and `LiveReader`; neither the ops file nor the judge ever
  holds `n` bytes.  The harness prints for every record it gets back the fingerprint `recFp` (length, byte
  sum, smallest and largest byte); the judge compares with `Spec.fp`, a closed form.  The theorems below
  connect that closed form to the byte-list definitions, show the fingerprint loses nothing for a run,
  and instantiate `wal_roundtrip` for such records. -/

open Prom.Wal.Suite in
theorem byteSum_replicate (n : Nat) (b : UInt8) : byteSum (List.replicate n b) = n * b.toNat := by
  have h : ∀ (n a : Nat), (List.replicate n b).foldl (fun a x => a + x.toNat) a = a + n * b.toNat := by
    intro n
    induction n with
    | zero => intro a; simp
    | succ n ih => intro a; rw [List.replicate_succ, List.foldl_cons, ih, Nat.succ_mul]; omega
  simpa [byteSum] using h n 0

open Prom.Wal.Suite in
theorem byteMin_replicate (n : Nat) (b : UInt8) (hn : 0 < n) : byteMin (List.replicate n b) = b.toNat := by
  have h : ∀ (n a : Nat), (List.replicate (n + 1) b).foldl (fun a x => min a x.toNat) a = min a b.toNat := by
    intro n
    induction n with
    | zero => intro a; simp
    | succ n ih => intro a; rw [List.replicate_succ, List.foldl_cons, ih]; omega
  obtain ⟨m, rfl⟩ : ∃ m, n = m + 1 := ⟨n - 1, by omega⟩
  have hb := b.toNat_lt
  rw [byteMin, h]; omega

open Prom.Wal.Suite in
theorem byteMax_replicate (n : Nat) (b : UInt8) (hn : 0 < n) : byteMax (List.replicate n b) = b.toNat := by
  have h : ∀ (n a : Nat), (List.replicate (n + 1) b).foldl (fun a x => max a x.toNat) a = max a b.toNat := by
    intro n
    induction n with
    | zero => intro a; simp
    | succ n ih => intro a; rw [List.replicate_succ, List.foldl_cons, ih]; omega
  obtain ⟨m, rfl⟩ : ∃ m, n = m + 1 := ⟨n - 1, by omega⟩
  rw [byteMax, h]; omega

/-- **Closed form = definition.** What the judge expects for a `biglog` record (`Spec.fp`: for a run of
    `n ≥ 2^19` copies of `b` the string `n:s(n·b):b:b`, computed without building the record) is the
    fingerprint `recFp` of the bytes the harness logs for that spec. -/
theorem huge_fp_closed_form (s : Prom.Wal.Suite.Spec) : s.fp = Prom.Wal.Suite.recFp s.bytes := by
  cases s with
  | gen l sd => rfl
  | run n b =>
    simp only [Prom.Wal.Suite.Spec.fp, Prom.Wal.Suite.Spec.bytes, Prom.Wal.Suite.recFp, List.length_replicate]
    split
    · rfl
    · next h =>
      have hn : 0 < n := by unfold Prom.Wal.Suite.bigThreshold at h; omega
      rw [byteSum_replicate, byteMin_replicate n b hn, byteMax_replicate n b hn]

open Prom.Wal.Suite in
theorem byteMin_le_mem (r : Bytes) (x : UInt8) (hx : x ∈ r) : byteMin r ≤ x.toNat := by
  have h : ∀ (r : Bytes) (a : Nat), r.foldl (fun a x => min a x.toNat) a ≤ a ∧
      ∀ x ∈ r, r.foldl (fun a x => min a x.toNat) a ≤ x.toNat := by
    intro r
    induction r with
    | nil => intro a; simp
    | cons y r ih =>
      intro a
      rw [List.foldl_cons]
      have h1 := (ih (min a y.toNat)).1
      refine ⟨by omega, ?_⟩
      intro x hx
      rcases List.mem_cons.mp hx with rfl | hx
      · omega
      · exact (ih _).2 x hx
  exact (h r 255).2 x hx

open Prom.Wal.Suite in
theorem le_byteMax_mem (r : Bytes) (x : UInt8) (hx : x ∈ r) : x.toNat ≤ byteMax r := by
  have h : ∀ (r : Bytes) (a : Nat), a ≤ r.foldl (fun a x => max a x.toNat) a ∧
      ∀ x ∈ r, x.toNat ≤ r.foldl (fun a x => max a x.toNat) a := by
    intro r
    induction r with
    | nil => intro a; simp
    | cons y r ih =>
      intro a
      rw [List.foldl_cons]
      have h1 := (ih (max a y.toNat)).1
      refine ⟨by omega, ?_⟩
      intro x hx
      rcases List.mem_cons.mp hx with rfl | hx
      · omega
      · exact (ih _).2 x hx
  exact (h r 0).2 x hx

/-- **The fingerprint identifies a run.** A record that comes back with the length `n` and with smallest
    and largest byte both `b` IS the run of `n` copies of `b`: for the huge records the judge's comparison of
    fingerprints is a comparison of the records themselves. -/
theorem huge_fp_identifies_run (r : Bytes) (n : Nat) (b : UInt8) (hl : r.length = n)
    (hmin : Prom.Wal.Suite.byteMin r = b.toNat) (hmax : Prom.Wal.Suite.byteMax r = b.toNat) :
    r = List.replicate n b := by
  rw [List.eq_replicate_iff]
  refine ⟨hl, fun x hx => ?_⟩
  have h1 := byteMin_le_mem r x hx
  have h2 := le_byteMax_mem r x hx
  exact UInt8.toNat_inj.mp (by omega)

/-- **Round trip with a huge record** (`wal_roundtrip` instantiated): any records `pre`, then `n` copies of
    `b` for any `n` (128 MiB+1 included), then any records `post`, in three `Log` calls, any page and
    segment size: read back exactly, no error. -/
theorem wal_roundtrip_huge (ps pps : Nat) (crc : Crc) (hps : WF ps) (pre post : List Bytes) (n : Nat) (b : UInt8) :
    readAll ps crc (segments ps (logAll ps pps crc [pre, [List.replicate n b], post])) =
      (pre ++ List.replicate n b :: post,
       .eof (segStream ps (segments ps (logAll ps pps crc [pre, [List.replicate n b], post]))).length) := by
  rw [wal_roundtrip ps pps crc hps]
  simp

/-! ### LiveReader

  The model (`lrReadRecord`, `lrBuild`, `lrNext`, `lrDrain`, `liveRun`) transcribes live_reader.go and is
  tied to the real `LiveReader` by the suite `wal` (ops `liveread`, `liveall`, `livecuts`, `livemut`) at
  every `Log` boundary and at generated prefix lengths around fragment headers/ends and page ends.
  The general theorem `live_reader_eq` below is proved by simulating `buildRecord`/`Next`/the drain loop
  against the token structure of the file (`LToks`, derived from `page_layout_inv` and the successful
  `Reader` run): the LiveReader's buffer is always a partly filled page of the file, `readIndex` a token
  boundary, `(index, rec)` agree with the `Reader`'s fragment state; `Next` returns a record as soon as
  its last fragment is wholly visible and otherwise `io.EOF` after having fetched every visible byte
  (`lrNext_spec`, PromProofs/WalLiveSim.lean); no fuel of the model runs out. -/

/-- Full statement: for every segment file of every log and every way of observing it grow (`chunks` =
    the successive pieces appended between observations, any lengths, `chunks.flatten = seg`), the
    LiveReader drained after each observation never reports corruption, and the records it returns over
    all observations are exactly the records of that segment, in order (no skip, no duplicate). Together
    with `fragments_never_cross_segments` this is the live half of C13. -/
def live_reader_eq_full : Prop :=
  ∀ (ps pps : Nat) (crc : Crc), WF ps → ∀ (batches : List (List Bytes)),
    ∀ seg ∈ segments ps (logAll ps pps crc batches), ∀ chunks : List Bytes, chunks.flatten = seg →
      let obs := liveRun ps crc LState.init [] chunks
      obs.length = chunks.length ∧ (∀ o ∈ obs, o.2 = LStatus.eof) ∧
        (obs.map (·.1)).flatten = (readAll ps crc [seg]).1

/-- **LiveReader = Reader on page-structured files.** For ANY byte string `F` made of pages of whole
    fragments followed by zeros (the writer's layout invariant, `page_layout_inv`) that the `Reader`
    reads to its end without error, and ANY way of observing it grow, the LiveReader drained after each
    observation always ends with `io.EOF` (it waits on a partial fragment or record; it never reports
    corruption, never gets stuck) and returns over all observations exactly the `Reader`'s records, in
    order, each once. -/
theorem live_reader_agrees_with_reader (ps : Nat) (crc : Crc) (hps : WF ps) (F : Bytes)
    (hF : PagesOK ps crc F) (out : List Bytes) (e : Nat)
    (hr : rloop ps crc RState.init F = (out, .eof e)) (chunks : List Bytes) (hc : chunks.flatten = F) :
    (liveRun ps crc LState.init [] chunks).length = chunks.length ∧
    (∀ o ∈ liveRun ps crc LState.init [] chunks, o.2 = LStatus.eof) ∧
    ((liveRun ps crc LState.init [] chunks).map (·.1)).flatten = out := by
  have htoks : LToks ps crc 0 0 [] F out := ltoks_of_pages hps.2 hF hr
  refine liveRun_spec hps.1 hps.2 chunks LState.init [] F out
    ⟨⟨Nat.le_refl _, by simp [LState.init], Nat.le_refl _, Nat.zero_le _⟩, htoks, by simp [LState.init, hc]⟩ ?_
  intro h0
  rw [h0] at hc
  exact htoks.out_of_nil hc.symm

/-- The same for a file whose last page is still open (whole fragments, not yet padded) — the state of
    the active segment after any `Log`. -/
theorem live_reader_open_file (ps : Nat) (crc : Crc) (hps : WF ps) (full last : Bytes)
    (hF : PagesOK ps crc full) (hl : Frames crc last) (hll : last.length ≤ ps) (out : List Bytes) (e : Nat)
    (hr : rloop ps crc RState.init (full ++ last) = (out, .eof e)) (chunks : List Bytes)
    (hc : chunks.flatten = full ++ last) :
    (liveRun ps crc LState.init [] chunks).length = chunks.length ∧
    (∀ o ∈ liveRun ps crc LState.init [] chunks, o.2 = LStatus.eof) ∧
    ((liveRun ps crc LState.init [] chunks).map (·.1)).flatten = out := by
  have htoks : LToks ps crc 0 0 [] (full ++ last) out := ltoks_of_open hps.2 hF hl hll hr
  refine liveRun_spec hps.1 hps.2 chunks LState.init [] (full ++ last) out
    ⟨⟨Nat.le_refl _, by simp [LState.init], Nat.le_refl _, Nat.zero_le _⟩, htoks, by simp [LState.init, hc]⟩ ?_
  intro h0
  rw [h0] at hc
  exact htoks.out_of_nil hc.symm

/-- **Promptness.** Once the reader has observed exactly the bytes of such a file (in any number of
    steps), it has returned exactly the file's records — whatever is appended to the file afterwards
    (`later`: any bytes at all).  With `live_reader_active_segment`: after every `Log` the tailing reader
    has returned every record logged so far, no more, no fewer. -/
theorem live_reader_prompt (ps : Nat) (crc : Crc) (hps : WF ps) (full last : Bytes)
    (hF : PagesOK ps crc full) (hl : Frames crc last) (hll : last.length ≤ ps) (out : List Bytes) (e : Nat)
    (hr : rloop ps crc RState.init (full ++ last) = (out, .eof e)) (chunks later : List Bytes)
    (hc : chunks.flatten = full ++ last) :
    let seen := (liveRun ps crc LState.init [] (chunks ++ later)).take chunks.length
    seen.length = chunks.length ∧ (∀ o ∈ seen, o.2 = LStatus.eof) ∧ (seen.map (·.1)).flatten = out := by
  intro seen
  have e1 : seen = liveRun ps crc LState.init [] chunks := liveRun_take ps crc chunks later LState.init []
  rw [e1]
  exact live_reader_open_file ps crc hps full last hF hl hll out e hr chunks hc

/-- The active segment after ANY sequence of `Log` calls (not closed, last page not padded) is such a
    file, and its records are the tail of the records logged (the earlier ones are in the terminated
    segments): tailing it returns exactly those. -/
theorem live_reader_active_segment (ps pps : Nat) (crc : Crc) (hps : WF ps) (batches : List (List Bytes)) :
    ∃ rsDone rsCur, rsDone ++ rsCur = batches.flatten ∧
      rloop ps crc RState.init (logAll ps pps crc batches).cur =
        (rsCur, .eof (logAll ps pps crc batches).cur.length) ∧
      ∀ chunks later : List Bytes, chunks.flatten = (logAll ps pps crc batches).cur →
        let seen := (liveRun ps crc LState.init [] (chunks ++ later)).take chunks.length
        seen.length = chunks.length ∧ (∀ o ∈ seen, o.2 = LStatus.eof) ∧ (seen.map (·.1)).flatten = rsCur := by
  obtain ⟨sr, rsCur, a, _, _, _, hcur, hrecs⟩ := Inv.logAll pps hps.1 hps.2 batches (crc := crc)
  obtain ⟨_, full, tail, hcur', hfull, ht, hfr⟩ := LInv.logAll pps hps.1 batches (crc := crc)
  refine ⟨(sr.map Prod.snd).flatten, rsCur, hrecs, hcur.rloop_eq, ?_⟩
  intro chunks later hc
  have hr := hcur.rloop_eq
  rw [hcur'] at hr hc
  exact live_reader_prompt ps crc hps full tail hfull hfr (by omega) rsCur _ hr chunks later hc

/-- **The live half of C13**: `live_reader_eq_full` holds — every segment of every log, observed
    growing through any nondecreasing sequence of prefix lengths, is returned by the tailing reader
    record for record, with `io.EOF` (never an error) after every observation. -/
theorem live_reader_eq : live_reader_eq_full := by
  intro ps pps crc hps batches seg hseg chunks hc
  obtain ⟨sr, hsegs, hsr, _⟩ := (Inv.logAll pps hps.1 hps.2 batches (crc := crc)).segments
  have hpages : PagesOK ps crc seg := (LInv.logAll pps hps.1 batches).segments seg hseg
  rw [hsegs] at hseg
  obtain ⟨p, hp, rfl⟩ := List.mem_map.mp hseg
  have h := hsr p hp
  have hread : readAll ps crc [p.1] = (p.2, .eof p.1.length) := by
    unfold readAll segStream
    simp only [List.map_cons, List.map_nil, List.flatten_cons, List.flatten_nil, List.append_nil,
      segPad_aligned h.end_mod]
    exact h.rloop_eq
  rw [hread]
  exact live_reader_agrees_with_reader ps crc hps p.1 hpages p.2 p.1.length h.rloop_eq chunks hc

/-- A concrete instance (8-byte pages, 32-byte segments, checksum ≡ 7): records `[1,2,3]`, `[]`, `[9]`
    in two batches fill the first segment to its last page and spill into a second one; the first segment
    observed at 5, 13 and 32 bytes yields nothing, nothing, then both records. -/
theorem live_reader_small_witness :
    let crc : Crc := fun _ => 7
    let segs := segments 8 (logAll 8 4 crc [[[1, 2, 3], []], [[9]]])
    let s0 := segs.getD 0 []
    let s1 := segs.getD 1 []
    segs.map List.length = [32, 8] ∧
    liveRun 8 crc LState.init [] [s0.take 5, (s0.drop 5).take 8, s0.drop 13] =
      [([], .eof), ([], .eof), ([[1, 2, 3], []], .eof)] ∧
    liveRun 8 crc LState.init [] [s1.take 7, s1.drop 7] = [([], .eof), ([[9]], .eof)] := by decide

/-! ### Truncation (the corollary C04 builds on)

  A log cut at an arbitrary byte.  Two readers matter: the plain `Reader` over the raw bytes (what
  `Repair` uses) and the `Reader` over `segmentBufReader` (`readAll`; what `Head.Init`/checkpoints use),
  which pads a segment whose length is not a multiple of the page size with zeros.  For the plain reader
  the result is a pure prefix of the records written.  For the zero-padding reader it is NOT: the zeros
  complete a fragment whose header was cut, and with `crc [] = 0` (true of CRC-32C, `crc32c_nil`)
  `<type> 00 00 | 00 00 00 00` is a valid empty fragment.  The exact truth, proved for every checksum
  function (no detection hypothesis), is `truncate_prefix`: a prefix of the records written, followed by
  at most ONE extra record `q ++ zeros m` where `q` is a prefix of the next record written — a phantom
  empty record (`truncate_phantom_witness`) or a record that lost its last fragment
  (`truncate_mangled_witness`); never anything after it, never a record unrelated to the next one. -/

/-- **Truncation, plain reader**: the first `n` bytes of the log (any `n`) read as a prefix of the records
    written — whole records only. -/
theorem truncate_prefix_plain (ps pps : Nat) (crc : Crc) (hps : WF ps) (batches : List (List Bytes))
    (n : Nat) :
    (rloop ps crc RState.init
      ((segStream ps (segments ps (logAll ps pps crc batches))).take n)).1 <+: batches.flatten :=
  plain_truncate_prefix ps pps crc hps.1 hps.2 batches n

/-- **Truncation, zero-padding reader.** The log directory cut in segment `k` at byte `len` (earlier
    segments whole, later ones gone; `truncSegs`), read with `readAll`: exactly the first `j` records
    written, then nothing or ONE extra record `q ++ zeros m` with `q` a prefix of record `j`.
    Unconditional in `crc`, `pps`, the batches, `k` and `len`. -/
theorem truncate_prefix (ps pps : Nat) (crc : Crc) (hps : WF ps) (batches : List (List Bytes))
    (k len : Nat) (hk : k < (segments ps (logAll ps pps crc batches)).length) :
    ∃ j extra, (readAll ps crc (truncSegs (segments ps (logAll ps pps crc batches)) k len)).1 =
        batches.flatten.take j ++ extra ∧
      (extra = [] ∨ ∃ r q m, batches.flatten[j]? = some r ∧ q <+: r ∧ extra = [q ++ zeros m]) :=
  readAll_truncSegs ps pps crc hps.1 hps.2 batches k len hk

/-- The same for a cut at byte `n` of the concatenated segment files followed by `z` zero bytes. -/
theorem truncate_prefix_stream (ps pps : Nat) (crc : Crc) (hps : WF ps) (batches : List (List Bytes))
    (n z : Nat) :
    ∃ j extra, (rloop ps crc RState.init
        ((segStream ps (segments ps (logAll ps pps crc batches))).take n ++ zeros z)).1 =
        batches.flatten.take j ++ extra ∧
      (extra = [] ∨ ∃ r q m, batches.flatten[j]? = some r ∧ q <+: r ∧ extra = [q ++ zeros m]) :=
  stream_cut_shape ps pps crc hps.1 hps.2 batches n z

/-- Weaker but handy form: a prefix of the records written plus at most one extra record. -/
theorem truncate_at_most_one_extra (ps pps : Nat) (crc : Crc) (hps : WF ps) (batches : List (List Bytes))
    (k len : Nat) (hk : k < (segments ps (logAll ps pps crc batches)).length) :
    ∃ pre extra, (readAll ps crc (truncSegs (segments ps (logAll ps pps crc batches)) k len)).1 = pre ++ extra ∧
      pre <+: batches.flatten ∧ extra.length ≤ 1 :=
  readAll_truncSegs_one_extra ps pps crc hps.1 hps.2 batches k len hk

/-- Phantom empty record: one record `[5,6,7]`, the file cut after its first byte; for EVERY checksum
    with `crc [] = 0` the zero-padding reader returns one empty record that was never written, no error. -/
theorem truncate_phantom_witness (crc : Crc) (hc : crc [] = 0) :
    segments 16 (logAll 16 1 crc [[[5, 6, 7]]]) = [frame crc recFull [5, 6, 7] ++ zeros 6] ∧
    readAll 16 crc (truncSegs [frame crc recFull [5, 6, 7] ++ zeros 6] 0 1) = ([[]], .eof 16) ∧
    ([] : Bytes) ∉ [[(5 : UInt8), 6, 7]] :=
  padded_truncation_phantom_witness crc hc

/-- Mangled record: one 12-byte record over two 16-byte pages, the file cut one byte into the header of
    its `last` fragment; for EVERY checksum with `crc [] = 0` the zero-padding reader returns, without
    error, the 9-byte record `[1..9]` that was never written. -/
theorem truncate_mangled_witness (crc : Crc) (hc : crc [] = 0) :
    segments 16 (logAll 16 2 crc [[[1, 2, 3, 4, 5, 6, 7, 8, 9, 10, 11, 12]]]) =
      [frame crc recFirst [1, 2, 3, 4, 5, 6, 7, 8, 9] ++ (frame crc recLast [10, 11, 12] ++ zeros 6)] ∧
    readAll 16 crc (truncSegs
      [frame crc recFirst [1, 2, 3, 4, 5, 6, 7, 8, 9] ++ (frame crc recLast [10, 11, 12] ++ zeros 6)] 0 17) =
      ([[1, 2, 3, 4, 5, 6, 7, 8, 9]], .eof 32) :=
  padded_truncation_mangled_witness crc hc

/-- CRC-32C of the empty string is 0, so both witnesses apply to the real checksum. -/
theorem crc32c_empty : crc32c [] = 0 := crc32c_nil

/-- The naive statement — "the zero-padding reader returns a prefix of the records written, possibly
    followed by empty records" — as a Prop … -/
def truncate_pure_prefix_full : Prop :=
  ∀ (ps pps : Nat) (crc : Crc), WF ps → ∀ (batches : List (List Bytes)) (k len : Nat),
    k < (segments ps (logAll ps pps crc batches)).length →
    ∃ m, (readAll ps crc (truncSegs (segments ps (logAll ps pps crc batches)) k len)).1 <+:
      batches.flatten ++ List.replicate m []

/-- … is FALSE (the mangled record above, checksum ≡ 0). -/
theorem truncate_pure_prefix_false_witness : ¬ truncate_pure_prefix_full := by
  intro h
  obtain ⟨h1, h2⟩ := truncate_mangled_witness (fun _ => 0) rfl
  obtain ⟨m, hm⟩ := h 16 2 (fun _ => 0) (by unfold WF; omega) [[[1, 2, 3, 4, 5, 6, 7, 8, 9, 10, 11, 12]]] 0 17
    (by rw [h1]; simp)
  rw [h1, h2] at hm
  obtain ⟨t, ht⟩ := hm
  simp at ht

/-! ### One damaged byte inside a checksummed payload -/

/-- **Payload damage is detected** (under the explicit hypothesis `CrcDetects1 crc`: changing one byte
    of a payload changes its checksum).  Let the intact read, after the bytes `A` and whatever follows
    them, stand in state `st` having returned `out`, in front of a fragment `typ`/`d`.  With one payload
    byte of that fragment changed on disk the reader returns exactly `out` — the records completed before
    the damaged fragment — then a checksum error at the end of that fragment, nothing after it; and `out`
    is a prefix of what the intact log returns. -/
theorem payload_damage_detected (ps : Nat) (crc : Crc) (hdet : CrcDetects1 crc)
    (A B d d' : Bytes) (typ : UInt8) (st : RState) (out : List Bytes)
    (hA : ∀ X, rloop ps crc RState.init (A ++ X) = prep out (rloop ps crc st X))
    (hty : DataTyp typ) (hlen : d.length ≤ ps - 7) (h16 : d.length < 65536) (hd : OneByteDiff d d') :
    rloop ps crc RState.init (A ++ (damagedFrame crc typ d d' ++ B)) =
        (out, .err .crc (st.total + 7 + d.length)) ∧
      out <+: (rloop ps crc RState.init (A ++ (frame crc typ d ++ B))).1 :=
  payload_damage_prefix ps crc hdet A B d d' typ st out hA hty hlen h16 hd

/-- The boundary hypothesis `hA` holds behind any whole records as the writer lays them out (`Reads`,
    the invariant of every log prefix): exactly those records, then the checksum error. -/
theorem payload_damage_detected_after_records (ps : Nat) (crc : Crc) (hdet : CrcDetects1 crc)
    (A B d d' : Bytes) (typ : UInt8) (a : Nat) (out : List Bytes) (hA : Reads ps crc 0 A a out)
    (hty : DataTyp typ) (hlen : d.length ≤ ps - 7) (h16 : d.length < 65536) (hd : OneByteDiff d d') :
    rloop ps crc RState.init (A ++ (damagedFrame crc typ d d' ++ B)) =
      (out, .err .crc (A.length + 7 + d.length)) :=
  payload_damage_after_records ps crc hdet A B d d' typ a out hA hty hlen h16 hd

/-- **One damaged payload byte anywhere in a written log.**  The byte stream of every closed log is a
    concatenation `items` of fragments and zero runs (the tiling produced by the writer) such that for
    EVERY fragment of it (payload `p`) and every `p'` differing from `p` in one byte, reading the damaged
    stream returns a prefix `o` of the records written — exactly what the intact read has returned when
    it reaches that fragment — and then a checksum error at the end of the damaged fragment. -/
theorem payload_damage_detected_written (ps pps : Nat) (crc : Crc) (hps : WF ps) (hdet : CrcDetects1 crc)
    (batches : List (List Bytes)) :
    ∃ items : List Item,
      segStream ps (segments ps (logAll ps pps crc batches)) = itemsBytes crc items ∧
      ∀ (I1 : List Item) (typ : UInt8) (p : Bytes) (I2 : List Item), items = I1 ++ Item.frag typ p :: I2 →
        ∃ o, o <+: batches.flatten ∧ Boundary ps crc (itemsBytes crc I1) o ∧
          ∀ p', OneByteDiff p p' →
            rloop ps crc RState.init (itemsBytes crc I1 ++ (damagedFrame crc typ p p' ++ itemsBytes crc I2)) =
              (o, .err .crc ((itemsBytes crc I1).length + 7 + p.length)) :=
  payload_damage_written ps pps crc hps.1 hps.2 hdet batches

/-- The hypotheses are satisfiable: the first fragment of a log written with a detecting checksum. -/
example (crc : Crc) (h : CrcDetects1 crc) :
    rloop 32768 crc RState.init ([] ++ (damagedFrame crc recFull [1, 2, 3] [1, 9, 3] ++ [])) =
      ([], .err .crc (0 + 7 + 3)) :=
  (payload_damage_detected 32768 crc h [] [] [1, 2, 3] [1, 9, 3] recFull RState.init []
    (fun X => by simp [prep]) (Or.inl rfl) (by decide) (by decide)
    ⟨rfl, 1, by decide, by decide, fun j hj => by
      match j with
      | 0 => rfl
      | 1 => exact absurd rfl hj
      | 2 => rfl
      | (_ + 3) => rfl⟩).1

end Prom.C13
