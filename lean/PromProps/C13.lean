import PromModel.Tsdb.WalFrame
import PromModel.Suites.WalSuite
namespace Prom.C13
open Prom.Wal

theorem be16_len (n : Nat) : (be16 n).length = 2 := rfl

end Prom.C13
