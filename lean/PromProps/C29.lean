import PromModel.Promql.Binop
/-
  C29 — Aggregations and binary operators follow the documented semantics.
  Property theorems only (over `Arith.exact`); helper lemmas live in PromProofs.
-/
namespace Prom.C29
open Prom.Ops
open Prom.F64 (Cls)

/-- `count` is the size of the group. -/
theorem count_eq_card (A : Arith) (p first : Cls) (rest : List Cls) :
    aggValue A .count p first rest = ofNat (rest.length + 1) := rfl

end Prom.C29
