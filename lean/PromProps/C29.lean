import PromModel.Promql.Binop
import PromProofs.OpsLemmas
/-
  C29 — Aggregations and binary operators follow the documented semantics.
  Property theorems only, about the transcription in `PromModel/Promql/Agg.lean` / `Binop.lean` run with
  exact arithmetic (`Arith.exact`); helper lemmas live in `PromProofs/OpsLemmas.lean`.
-/
namespace Prom.C29
open Prom.Ops
open Prom.F64 (Cls)

/-- `r` is the successful result `out` (decidable form of `r = .ok out`). -/
def okIs (r : Except Err (List Sample)) (out : List Sample) : Bool :=
  match r with | .ok o => o = out | .error _ => false
/-- `r` is the error `e`. -/
def errIs (r : Except Err (List Sample)) (e : Err) : Bool :=
  match r with | .error e' => e' = e | .ok _ => false

/-! ### grouping -/

/-- `group_partition`: the groups built by `rangeEvalAgg` partition the input by the projected labels.
    For every key `k` the members of group `k` are exactly the input samples whose key is `k`, in input
    order; group keys are pairwise distinct; a key has a group iff some input sample has it. -/
theorem group_partition (key : Labels → Labels) (xs : List Sample) :
    (∀ k, membersOf k (groupsOf key xs) = xs.filter (fun s => key s.labels = k)) ∧
    ((groupsOf key xs).map (·.1)).Nodup ∧
    (∀ k, k ∈ (groupsOf key xs).map (·.1) ↔ ∃ s ∈ xs, key s.labels = k) := by
  have h := groupsOf_spec_aux key xs [] (by simp)
  simp only [membersOf, lookupSig, Option.getD_none, List.nil_append, List.map_nil, List.not_mem_nil, false_or] at h
  exact h

example : (groupsOf (fun ls => ls.keep ["a"]) [⟨[("a", "x"), ("b", "1")], .fin 1⟩, ⟨[("a", "y")], .fin 2⟩,
    ⟨[("a", "x"), ("b", "2")], .fin 3⟩]).map (fun g => (g.1, g.2.length)) = [([("a", "x")], 2), ([("a", "y")], 1)] := by
  decide

/-- `grouping_key_injective`: the byte string hashed by `HashForLabels` / `HashWithoutLabels`
    (`name 0xFF value 0xFF …`) determines the projected labels, for labels without the byte 0xFF
    (which never occurs in UTF-8). The converse is congruence. xxhash collisions are outside the model. -/
theorem grouping_key_injective (p q : List (List UInt8 × List UInt8)) (hp : NoSep p) (hq : NoSep q) :
    keyBytes p = keyBytes q ↔ p = q :=
  ⟨keyBytes_inj p q hp hq, fun h => by rw [h]⟩

example : NoSep [([97], [120]), ([98], [])] := by
  intro x hx; simp at hx; rcases hx with rfl | rfl <;> decide

/-- Without the hypothesis the key is not injective: the separator inside a value shifts the boundary. -/
theorem grouping_key_needs_no_separator_witness :
    keyBytes [([1], [2, 0xFF, 3, 0xFF, 4])] = keyBytes [([1], [2]), ([3], [4])] ∧
    ([([1], [2, 0xFF, 3, 0xFF, 4])] : List (List UInt8 × List UInt8)) ≠ [([1], [2]), ([3], [4])] := by decide

/-! ### fold-style aggregators, exact arithmetic -/

/-- `count = |group|` (any arithmetic). -/
theorem count_eq_card (A : Arith) (p first : Cls) (rest : List Cls) :
    aggValue A .count p first rest = ofNat (rest.length + 1) := rfl

/-- `group = 1`. -/
theorem group_eq_one (A : Arith) (p first : Cls) (rest : List Cls) :
    aggValue A .group p first rest = ofNat 1 := rfl

/-- `sum`: in exact arithmetic the Kahan-compensated loop computes the plain IEEE sum
    (NaN absorbing, `+Inf + -Inf = NaN`), for ALL inputs including NaN and ±Inf. -/
theorem sum_eq_ieee_sum (p first : Cls) (rest : List Cls) :
    aggValue .exact .sum p first rest = rest.foldl (vadd .exact) first :=
  aggSum_eq_extSum first rest

/-- `sum = Σ` on finite inputs. -/
theorem sum_eq_rat_sum (p : Cls) (q : Rat) (qs : List Rat) :
    aggValue .exact .sum p (.fin q) (qs.map .fin) = .fin (qs.foldl (· + ·) q) := by
  rw [sum_eq_ieee_sum]; exact extSum_fin q qs

example : aggValue .exact .sum .nan (.fin 1) [.fin 2, .fin (-5)] = .fin ([2, -5].foldl (· + ·) 1) :=
  sum_eq_rat_sum .nan 1 [2, -5]

/-- `max`: the result is a member of the group, and it is ≥ every member in the IEEE order with NaN as
    bottom element — so it is NaN only if every member is NaN (docs: "NaN is only ever considered a
    minimum or maximum if all aggregated values are NaN"). -/
theorem max_spec (A : Arith) (p first : Cls) (rest : List Cls) :
    aggValue A .max p first rest ∈ first :: rest ∧
    ∀ x ∈ first :: rest, geNaNBot (aggValue A .max p first rest) x = true := by
  show aggMax first rest ∈ _ ∧ ∀ x ∈ first :: rest, geNaNBot (aggMax first rest) x = true
  obtain ⟨h1, h2, h3⟩ := foldl_max_spec rest first
  refine ⟨?_, ?_⟩
  · rcases h3 with h | h
    · rw [show aggMax first rest = rest.foldl maxStep first from rfl, h]; exact List.mem_cons_self
    · exact List.mem_cons_of_mem _ h
  · intro x hx
    rcases List.mem_cons.mp hx with rfl | hx
    · exact h1
    · exact h2 x hx

/-- `agg_perm_invariant` (sum, min, max, count, group): over exact arithmetic the value of a group does not
    depend on the order in which the engine meets its members. -/
theorem agg_perm_invariant (op : AggOp) (hop : op = .sum ∨ op = .min ∨ op = .max ∨ op = .count ∨ op = .group)
    (p f1 f2 : Cls) (r1 r2 : List Cls) (h : (f1 :: r1).Perm (f2 :: r2)) :
    aggValue .exact op p f1 r1 = aggValue .exact op p f2 r2 := by
  rcases hop with rfl | rfl | rfl | rfl | rfl
  · show aggSum _ f1 r1 = aggSum _ f2 r2
    rw [aggSum_eq_extSum, aggSum_eq_extSum]; exact extSum_perm f1 f2 r1 r2 h
  · exact aggMin_perm f1 f2 r1 r2 h
  · exact aggMax_perm f1 f2 r1 r2 h
  · show ofNat (r1.length + 1) = ofNat (r2.length + 1)
    have := h.length_eq; simp at this; rw [this]
  · rfl

example : aggValue .exact .sum .nan (.fin 1) [.posInf] = aggValue .exact .sum .nan .posInf [.fin 1] :=
  agg_perm_invariant .sum (Or.inl rfl) _ _ _ _ _ (List.Perm.swap _ _ _)

/-- The full statement also covers `avg` (and `stdvar`, `quantile`); for `avg` the engine switches to an
    incremental mean once the running sum becomes ±Inf, whose order-independence is not proved here. -/
def agg_perm_invariant_full : Prop :=
  ∀ (op : AggOp), op ≠ .topk → op ≠ .bottomk → ∀ (p f1 f2 : Cls) (r1 r2 : List Cls),
    (f1 :: r1).Perm (f2 :: r2) → aggValue .exact op p f1 r1 = aggValue .exact op p f2 r2

/-- topk/bottomk are NOT order-independent as sets of series: with a tie at the k-boundary the series that
    survives depends on the input order (only the multiset of values is determined). -/
theorem topk_tie_depends_on_order_witness :
    (topkGroup false 1 [⟨[("a", "x")], .fin 1⟩, ⟨[("a", "y")], .fin 1⟩]).map (·.labels) = [[("a", "x")]] ∧
    (topkGroup false 1 [⟨[("a", "y")], .fin 1⟩, ⟨[("a", "x")], .fin 1⟩]).map (·.labels) = [[("a", "y")]] := by
  decide

/-- NaN is farthest from the top: `topk(1)` of {NaN, 1} is 1 whatever the order. -/
theorem topk_nan_last_witness :
    (topkGroup false 1 [⟨[("a", "x")], .nan⟩, ⟨[("a", "y")], .fin 1⟩]).map (·.labels) = [[("a", "y")]] ∧
    (topkGroup false 1 [⟨[("a", "y")], .fin 1⟩, ⟨[("a", "x")], .nan⟩]).map (·.labels) = [[("a", "y")]] := by
  decide

/-- `topk_spec`, full statement (not proved: needs the heap invariant of container/heap): the output of a
    group is a sub-multiset of its members of size `min k |group|` whose values are the k greatest under
    the NaN-last order, listed in descending order. The judge checks exactly this on every output. -/
def topk_spec_full : Prop :=
  ∀ (k : Nat) (members : List Sample), 0 < k →
    (topkGroup false k members).length = min k members.length ∧
    (∀ s ∈ topkGroup false k members, s ∈ members) ∧
    ∀ s ∈ topkGroup false k members, ∀ t ∈ members, t ∉ topkGroup false k members →
      geNaNBot s.v t.v = true

/-! ### binary operators -/

/-- `output_no_duplicate_labelsets_or_error`: every successful vector/vector, set and vector/scalar
    operation returns a vector without duplicate label sets (otherwise the query fails). -/
theorem output_no_duplicate_labelsets_or_error :
    (∀ A op b m l r out, vectorBinop A op b m l r = .ok out → hasDupLabels out = false) ∧
    (∀ op on names l r out, vectorSet op on names l r = .ok out → hasDupLabels out = false) ∧
    (∀ A op b sw v sc out, vectorScalarBinop A op b sw v sc = .ok out → hasDupLabels out = false) :=
  ⟨vectorBinop_nodup, vectorSet_nodup, fun A op b sw v sc out h => vectorScalar_nodup A op b sw v out sc h⟩

/-- `and_or_unless_spec`: membership in the result of a set operator, by match signature. -/
theorem and_or_unless_spec (op : SetOp) (on : Bool) (names : List String) (l r out : List Sample)
    (h : vectorSet op on names l r = .ok out) (s : Sample) :
    s ∈ out ↔
      match op with
      | .and => s ∈ l ∧ ∃ t ∈ r, sigOf on names t.labels = sigOf on names s.labels
      | .or => s ∈ l ∨ (s ∈ r ∧ ¬ ∃ t ∈ l, sigOf on names t.labels = sigOf on names s.labels)
      | .unless => s ∈ l ∧ ¬ ∃ t ∈ r, sigOf on names t.labels = sigOf on names s.labels :=
  vectorSet_spec op on names l r out h s

example : okIs (vectorSet .unless true ["a"] [⟨[("a", "x")], .fin 1⟩, ⟨[("a", "y")], .fin 2⟩] [⟨[("a", "y"), ("b", "z")], .nan⟩])
    [⟨[("a", "x")], .fin 1⟩] = true := by decide

/-- `result_labels_spec` (one-to-one): a label is in the result iff it is a label of the LHS sample that
    survives (i) the metadata drop for arithmetic operators and `bool`, (ii) `on` (only listed labels) /
    `ignoring` (listed labels removed). Comparison filters therefore keep `__name__` under `ignoring`
    and drop it under `on(...)` unless it is listed. -/
theorem result_labels_spec (lhs rhs : Labels) (op : BinOp) (on : Bool) (names : List String) (drop : Bool)
    (nv : String × String) :
    nv ∈ resultMetric lhs rhs op { card := .oneToOne, on := on, labels := names } drop ↔
      nv ∈ lhs ∧ ((drop || op.changesSchema) = true → isMeta nv.1 = false) ∧
      (if on then nv.1 ∈ names else nv.1 ∉ names) := by
  cases on <;> cases h : (drop || op.changesSchema) <;>
    simp [resultMetric, h, Labels.dropMeta, Labels.keep, Labels.del, List.mem_filter]
  all_goals (intro _; exact and_comm)

/-- `match_pairs_spec`, proved part: the right-hand ("one") side either maps every sample to its
    signature, or the operation fails with the duplicate-series error. -/
theorem match_pairs_dup_series_partial (sigf : Labels → Labels) (rs : List Sample) :
    (∃ m, buildRightSigs sigf rs [] = .ok m ∧ m = rs.map (fun s => (sigf s.labels, s))) ∨
    buildRightSigs sigf rs [] = .error .dupSeries := by
  simpa using buildRightSigs_spec sigf rs []

/-- Full statement of `match_pairs_spec` (not proved): the error is raised exactly when two "one"-side
    samples share a signature, and otherwise the output pairs every "many"-side sample with the unique
    "one"-side sample of its signature. The judge evaluates this on every output. -/
def match_pairs_spec_full : Prop :=
  ∀ (sigf : Labels → Labels) (rs : List Sample),
    buildRightSigs sigf rs [] = .error .dupSeries ↔ sigDup sigf rs = true

/-- one-to-one matching fails on a duplicate RHS match group even when no LHS sample is in that group. -/
theorem dup_rhs_without_partner_errors_witness :
    errIs (vectorBinop .exact .add false { on := true, labels := ["a"] }
      [⟨[("a", "x")], .fin 1⟩] [⟨[("a", "y"), ("b", "1")], .fin 1⟩, ⟨[("a", "y"), ("b", "2")], .fin 2⟩])
      .dupSeries = true := by decide

/-- F(C29-F1): under `group_right` the transcription (as the engine) applies `fill_left` to the right operand. -/
theorem group_right_fill_exchanged_witness :
    okIs (vectorBinop .exact .gt false { card := .oneToMany, on := true, labels := ["a"], fillL := some (.fin 0) }
      [⟨[("a", "x")], .fin 1⟩] []) [⟨[("a", "x")], .fin 1⟩] = true := by decide

/-- F(C29-F2): `quantile(φ, {+Inf})` is NaN for every φ ∈ [0,1]: the term `+Inf · weight` with weight 0. -/
theorem quantile_single_inf_is_nan_witness (φ : Rat) (h0 : ¬ φ < 0) (h1 : ¬ φ > 1) :
    aggQuantile .exact (.fin φ) [.posInf] = .nan := by
  have hf : (0 : Rat).floor = 0 := by decide
  have e0 : ((0 : Rat) - 0 = 0) := by grind
  have e1 : ((1 : Rat) - 0 = 1) := by grind
  have e2 : ¬ ((1 : Rat) = 0) := by grind
  have e3 : ¬ ((1 : Rat) < 0) := by grind
  simp [aggQuantile, h0, h1, insSort, insRev, Arith.exact, vmul, vadd, isZero, isNeg, infOfSign, hf, e0, e1, e2, e3]

end Prom.C29
