import PromModel.Suites.CrashSuite
/-
  C03 — Acknowledged writes survive a process crash at any point.

  What is proved here (trace level): for EVERY action trace accepted by the crash-safety discipline
  (`CrashFs.run … = .ok`), at EVERY prefix — i.e. at every possible kill point — each WAL segment that
  has been removed is covered by a complete checkpoint that is still present, and the set of complete
  checkpoints never loses its maximum. The discipline itself is checked on the real syscall traces on
  every run (suite `crash`, op `trace`), and C03's statement is evaluated on the state recovered after
  a kill at every enumerated persistence syscall (op `kill`).

  Torn files (ops `stage` / `tear`, model `PromModel/Tsdb/CrashTear.lean`): the judge's predicate on a
  state recovered from ONE torn file is C03's statement with the samples of destroyed log records
  excused (`tearHolds_none_iff`; nothing is excused by a torn head-chunk file: `tearHolds_no_records`;
  tearing later excuses less: `lost_antitone`, `owed_monotone`), and the mechanism that makes a torn
  head-chunk file harmless for out-of-order data is proved for one series, all insert sequences, all
  chunk limits and all surviving prefixes: `wbl_replay_complete`. Witnesses: the seeded mistake
  (`stale_lastMmapRef_loses_witness`) and finding C03-F1 of the real code across two restarts
  (`stale_marker_after_restart_witness`).

  Not proved (kept visible): the content-level statement `crash_safe_full` over the storage model.
-/
namespace Prom.C03
open Prom.CrashFs

theorem hasCpGe_cons (s : St) (c : Log × Nat) (l : Log) (k : Nat)
    (h : hasCpGe s l k = true) : hasCpGe { s with cps := c :: s.cps } l k = true := by
  unfold hasCpGe at *
  simp only [List.any_cons, h, Bool.or_true]

/-- Removing checkpoint `cp` keeps coverage as long as a strictly newer one of the same log stays. -/
theorem hasCpGe_filter (s : St) (cp : Log × Nat) (l : Log) (k : Nat)
    (h : hasCpGe s l k = true) (hgt : hasCpGt s cp.1 cp.2 = true) :
    hasCpGe { s with cps := s.cps.filter (· ≠ cp) } l k = true := by
  unfold hasCpGe hasCpGt at *
  simp only [List.any_eq_true, List.mem_filter, Bool.and_eq_true, beq_iff_eq, decide_eq_true_eq] at *
  obtain ⟨c, hc, hlog, hk⟩ := h
  obtain ⟨c', hc', hlog', hk'⟩ := hgt
  by_cases hEq : c = cp
  · refine ⟨c', ⟨hc', ?_⟩, ?_, ?_⟩
    · simp only [ne_eq, decide_eq_true_eq]; intro h'; subst h'; omega
    · subst hEq; exact hlog'.trans hlog
    · subst hEq; omega
  · exact ⟨c, ⟨hc, by simpa using hEq⟩, hlog, hk⟩

/-- One allowed action preserves the recovery invariant. -/
theorem step_inv (s : St) (a : Act) (hinv : CrashFs.Inv s) (hok : stepOk s a = true) :
    CrashFs.Inv (step s a) := by
  unfold CrashFs.Inv at *
  intro seg hseg
  have hseg' : seg ∈ segsAfter s a := hseg
  -- coverage of the segments removed earlier survives the action
  have old : ∀ sg ∈ s.segsRemoved, sg.1 = Log.wbl ∨ hasCpGe (step s a) sg.1 sg.2 = true := by
    intro sg hm
    rcases hinv sg hm with h | h
    · exact Or.inl h
    · right
      show (cpsAfter s a).any (fun c => c.1 == sg.1 && decide (sg.2 ≤ c.2)) = true
      unfold cpsAfter
      split
      · rename_i l k
        have hgt : hasCpGt s l k = true := by simpa [stepOk] using hok
        exact hasCpGe_filter s (l, k) sg.1 sg.2 h hgt
      · split
        · exact hasCpGe_cons s _ sg.1 sg.2 h
        · exact h
      · exact h
  unfold segsAfter at hseg'
  split at hseg'
  · rename_i l k
    simp only [List.mem_cons] at hseg'
    rcases hseg' with h | h
    · subst h
      cases l with
      | wbl => exact Or.inl rfl
      | wal =>
        right
        have hok' : hasCpGe s .wal k = true := by simpa [stepOk] using hok
        -- unlinking a segment does not change the checkpoints
        show (cpsAfter s (.unlink (.seg .wal k))).any _ = true
        exact hok'
    · exact old seg h
  · exact old seg hseg'

/-- **Every kill point of a disciplined trace is recoverable**: if the whole trace is accepted, then
    after any prefix of it (the process may be killed between any two actions) every removed WAL
    segment is still covered by a complete checkpoint. -/
theorem discipline_inv_at_every_prefix (tr : List Act) (s : St) (k : Nat) (s' : St)
    (hinv : CrashFs.Inv s) (hrun : run s tr k = .ok s') :
    ∀ n, ∃ sn, run s (tr.take n) k = .ok sn ∧ CrashFs.Inv sn := by
  induction tr generalizing s k with
  | nil => intro n; exact ⟨s, by simp [run], hinv⟩
  | cons a rest ih =>
    intro n
    unfold run at hrun
    by_cases hok : stepOk s a = true
    · simp only [hok, if_true] at hrun
      cases n with
      | zero => exact ⟨s, by simp [run], hinv⟩
      | succ m =>
        obtain ⟨sn, h1, h2⟩ := ih (step s a) (k + 1) (step_inv s a hinv hok) hrun m
        exact ⟨sn, by simp [run, hok, h1], h2⟩
    · simp [hok] at hrun

theorem inv_init : CrashFs.Inv {} := by unfold CrashFs.Inv; intro seg h; simp at h

/-- The judge's predicate is C03's statement: it accepts exactly when the directory reopened, every
    acknowledged sample is present and every present sample was acknowledged or in flight. -/
theorem killHolds_none_iff (o : String) (acked inflight gone present : List String) :
    killHolds o acked inflight gone present = none ↔
      (o = "ok" ∧ (∀ a ∈ acked, a ∈ present) ∧ (∀ p ∈ present, p ∈ acked ∨ p ∈ inflight)) := by
  unfold killHolds
  by_cases ho : o = "ok"
  · simp only [ho, ne_eq, not_true_eq_false, if_false, true_and]
    cases h1 : acked.find? (fun a => !present.contains a) with
    | some a =>
      simp only [reduceCtorEq, false_iff, not_and]
      intro hall
      have := List.find?_some h1
      have hm := List.mem_of_find?_eq_some h1
      simp at this
      exact absurd (hall a hm) this
    | none =>
      have hall : ∀ a ∈ acked, a ∈ present := by
        intro a ha
        have := List.find?_eq_none.mp h1 a ha
        simpa using this
      cases h2 : present.find? (fun p => !(acked.contains p || inflight.contains p)) with
      | some p =>
        have hp := List.find?_some h2
        have hm := List.mem_of_find?_eq_some h2
        simp only [Bool.not_eq_eq_eq_not, Bool.not_true, Bool.or_eq_false_iff] at hp
        constructor
        · intro h
          by_cases hg : p ∈ gone <;> simp [hg] at h
        · intro ⟨_, h⟩
          rcases h p hm with h | h
          · have := hp.1; simp [h] at this
          · have := hp.2; simp [h] at this
      | none =>
        simp only [true_iff]
        refine ⟨hall, ?_⟩
        intro p hp
        have := List.find?_eq_none.mp h2 p hp
        simp only [Bool.not_eq_eq_eq_not, Bool.not_true, Bool.or_eq_false_iff, not_and, Bool.not_eq_false,
          List.contains_eq_mem, decide_eq_false_iff_not, decide_eq_true_eq] at this
        by_cases ha : p ∈ acked
        · exact Or.inl ha
        · exact Or.inr (Classical.not_not.mp (this ha))
  · simp [ho]

/-! ### Torn files (suite ops `stage` / `tear`) -/

open Prom.CrashTear

theorem mem_lost {off : Nat} {recs : List Rec} {x : String} :
    x ∈ lost off recs ↔ ∃ r ∈ recs, off < r.1 ∧ x ∈ r.2 := by
  unfold lost
  simp only [List.mem_flatMap, List.mem_filter, decide_eq_true_eq]
  constructor
  · rintro ⟨r, ⟨hr, ho⟩, hx⟩; exact ⟨r, hr, ho, hx⟩
  · rintro ⟨r, hr, ho, hx⟩; exact ⟨r, ⟨hr, ho⟩, hx⟩

theorem mem_owed {acked : List String} {off : Nat} {recs : List Rec} {a : String} :
    a ∈ owed acked off recs ↔ a ∈ acked ∧ a ∉ lost off recs := by
  unfold owed
  simp [List.mem_filter]

/-- Tearing later destroys less. -/
theorem lost_antitone {off off' : Nat} (h : off ≤ off') (recs : List Rec) :
    ∀ x ∈ lost off' recs, x ∈ lost off recs := by
  intro x hx
  obtain ⟨r, hr, ho, hxr⟩ := mem_lost.mp hx
  exact mem_lost.mpr ⟨r, hr, by omega, hxr⟩

/-- …hence owes more. -/
theorem owed_monotone {off off' : Nat} (h : off ≤ off') (acked : List String) (recs : List Rec) :
    ∀ a ∈ owed acked off recs, a ∈ owed acked off' recs := by
  intro a ha
  obtain ⟨h1, h2⟩ := mem_owed.mp ha
  exact mem_owed.mpr ⟨h1, fun h3 => h2 (lost_antitone h recs a h3)⟩

/-- A cut behind every record destroys nothing. -/
theorem lost_nil_of_complete (off : Nat) (recs : List Rec) (h : ∀ r ∈ recs, r.1 ≤ off) :
    lost off recs = [] := by
  apply List.eq_nil_iff_forall_not_mem.mpr
  intro x hx
  obtain ⟨r, hr, ho, _⟩ := mem_lost.mp hx
  have := h r hr
  omega

/-- The judge's predicate on a torn-file state is C03's statement. -/
theorem tearHolds_none_iff (o : String) (acked inflight present : List String) (off : Nat) (recs : List Rec) :
    tearHolds o acked inflight present off recs = none ↔
      (o = "ok" ∧ (∀ a ∈ acked, a ∉ lost off recs → a ∈ present) ∧
        (∀ p ∈ present, p ∈ acked ∨ p ∈ inflight ∨ p ∈ lost off recs)) := by
  unfold tearHolds
  rw [killHolds_none_iff]
  constructor
  · rintro ⟨ho, h1, h2⟩
    refine ⟨ho, fun a ha hl => h1 a (mem_owed.mpr ⟨ha, hl⟩), fun p hp => ?_⟩
    rcases h2 p hp with h | h
    · exact Or.inl (mem_owed.mp h).1
    · rcases List.mem_append.mp h with h | h
      · exact Or.inr (Or.inl h)
      · exact Or.inr (Or.inr h)
  · rintro ⟨ho, h1, h2⟩
    refine ⟨ho, fun a ha => h1 a (mem_owed.mp ha).1 (mem_owed.mp ha).2, fun p hp => ?_⟩
    rcases h2 p hp with h | h | h
    · by_cases hl : p ∈ lost off recs
      · exact Or.inr (List.mem_append.mpr (Or.inr hl))
      · exact Or.inl (mem_owed.mpr ⟨h, hl⟩)
    · exact Or.inr (List.mem_append.mpr (Or.inl h))
    · exact Or.inr (List.mem_append.mpr (Or.inr h))

/-- A torn head-chunk file destroys no log record: every acknowledged sample stays owed — the judge
    then evaluates exactly the kill predicate. -/
theorem tearHolds_no_records (o : String) (acked inflight present : List String) (off : Nat) :
    tearHolds o acked inflight present off [] = killHolds o acked inflight [] present := by
  have h : owed acked off [] = acked := by
    unfold owed lost
    exact List.filter_eq_self.mpr (by simp)
  unfold tearHolds
  rw [h]
  simp [lost]

/-! ### out-of-order m-map markers -/

theorem replay_append (L : Nat) (w1 w2 : List WEntry) (h : List Nat) :
    replay L (w1 ++ w2) h = replay L w2 (replay L w1 h) := by
  induction w1 generalizing h with
  | nil => rfl
  | cons e r ih => cases e <;> simp [replay, ih]

theorem loaded_append (L : Nat) (cs : List OChunk) (c : OChunk) :
    loaded L (cs ++ [c]) = loaded L cs ++ (if c.ref ≤ L then c.samples else []) := by
  unfold loaded
  by_cases h : c.ref ≤ L <;> simp [List.filter_append, h]

/-- Invariant of the writer w.r.t. a replay with reference `L`; `ins` = samples inserted so far. -/
structure WInv (L : Nat) (s : WState) (ins : List Nat) : Prop where
  cover : ∀ x ∈ ins, x ∈ loaded L s.chunks ∨ x ∈ replay L s.wbl []
  headSub : ∀ x ∈ s.head, x ∈ replay L s.wbl []
  exact : (∀ c ∈ s.chunks, c.ref ≤ L) → replay L s.wbl [] = s.head
  bound : ∀ c ∈ s.chunks, c.ref < s.nextRef
  empty : s.head = [] → replay L s.wbl [] = []

theorem winv_init (L : Nat) : WInv L {} [] :=
  ⟨by simp, by simp, by intro; rfl, by simp, by intro; rfl⟩

theorem winv_insert (cap L : Nat) (s : WState) (ins : List Nat) (x gap : Nat) (h : WInv L s ins) :
    WInv L (oooInsert cap s x gap) (ins ++ [x]) := by
  unfold oooInsert
  by_cases he : s.head.isEmpty = true
  · have hnil : s.head = [] := List.isEmpty_iff.mp he
    have hH := h.empty hnil
    rw [if_pos he]
    have hrep : replay L (s.wbl ++ [WEntry.mark 0, WEntry.smp x]) [] = [x] := by
      rw [replay_append, hH]; simp [replay]
    refine ⟨?_, ?_, ?_, h.bound, ?_⟩
    · intro y hy
      rcases List.mem_append.mp hy with hy | hy
      · rcases h.cover y hy with hc | hc
        · exact Or.inl hc
        · rw [hH] at hc; cases hc
      · right; simp only [hrep]; simpa using hy
    · intro y hy; simp only [hrep]; simpa using hy
    · intro _; exact hrep
    · intro hc; simp at hc
  · rw [if_neg he]
    by_cases hl : s.head.length < cap
    · rw [if_pos hl]
      have hrep : replay L (s.wbl ++ [WEntry.smp x]) [] = replay L s.wbl [] ++ [x] := by
        rw [replay_append]; simp [replay]
      refine ⟨?_, ?_, ?_, h.bound, ?_⟩
      · intro y hy
        rcases List.mem_append.mp hy with hy | hy
        · rcases h.cover y hy with hc | hc
          · exact Or.inl hc
          · right; simp only [hrep]; exact List.mem_append.mpr (Or.inl hc)
        · right; simp only [hrep]; exact List.mem_append.mpr (Or.inr hy)
      · intro y hy
        simp only [hrep]
        rcases List.mem_append.mp hy with hy | hy
        · exact List.mem_append.mpr (Or.inl (h.headSub y hy))
        · exact List.mem_append.mpr (Or.inr hy)
      · intro hall; simp only [hrep]; rw [h.exact hall]
      · intro hc; simp at hc
    · rw [if_neg hl]
      dsimp only
      have hrep : replay L (s.wbl ++ [WEntry.mark (s.nextRef + gap), WEntry.smp x]) [] =
          (if s.nextRef + gap ≤ L then [] else replay L s.wbl []) ++ [x] := by
        rw [replay_append]; simp [replay]
      by_cases hr : s.nextRef + gap ≤ L
      · have hall : ∀ c ∈ s.chunks, c.ref ≤ L := fun c hc => by have := h.bound c hc; omega
        have hH := h.exact hall
        refine ⟨?_, ?_, ?_, ?_, ?_⟩
        · intro y hy
          simp only [hrep, loaded_append, hr, if_true]
          rcases List.mem_append.mp hy with hy | hy
          · left
            rcases h.cover y hy with hc | hc
            · exact List.mem_append.mpr (Or.inl hc)
            · rw [hH] at hc; exact List.mem_append.mpr (Or.inr hc)
          · right; simpa using hy
        · intro y hy; simp only [hrep, hr, if_true]; simpa using hy
        · intro _; simp only [hrep, hr, if_true]; rfl
        · intro c hc
          rcases List.mem_append.mp hc with hc | hc
          · have := h.bound c hc; show c.ref < s.nextRef + gap + 1; omega
          · simp at hc; subst hc; show s.nextRef + gap < s.nextRef + gap + 1; omega
        · intro hc; simp at hc
      · refine ⟨?_, ?_, ?_, ?_, ?_⟩
        · intro y hy
          simp only [hrep, loaded_append, hr, if_false, List.append_nil]
          rcases List.mem_append.mp hy with hy | hy
          · rcases h.cover y hy with hc | hc
            · exact Or.inl hc
            · exact Or.inr (List.mem_append.mpr (Or.inl hc))
          · exact Or.inr (List.mem_append.mpr (Or.inr hy))
        · intro y hy; simp only [hrep, hr, if_false]
          exact List.mem_append.mpr (Or.inr hy)
        · intro hall
          have := hall ⟨s.nextRef + gap, s.head⟩ (List.mem_append.mpr (Or.inr (by simp)))
          exact absurd this hr
        · intro c hc
          rcases List.mem_append.mp hc with hc | hc
          · have := h.bound c hc; show c.ref < s.nextRef + gap + 1; omega
          · simp at hc; subst hc; show s.nextRef + gap < s.nextRef + gap + 1; omega
        · intro hc; simp at hc

theorem winv_run (cap L : Nat) (ops : List (Nat × Nat)) (s : WState) (ins : List Nat) (h : WInv L s ins) :
    WInv L (runW cap s ops) (ins ++ ops.map (·.1)) := by
  induction ops generalizing s ins with
  | nil => simpa [runW] using h
  | cons o rest ih =>
    obtain ⟨x, gap⟩ := o
    have := ih (oooInsert cap s x gap) (ins ++ [x]) (winv_insert cap L s ins x gap h)
    simpa [runW, List.append_assoc] using this

/-- **A torn head-chunk file loses no out-of-order sample**: whatever the chunk size limit, whatever
    sequence of out-of-order inserts (with arbitrary other chunks in between), and whatever part of the
    chunk files survives — as long as `lastMmapRef = L` is faithful (the surviving chunks are exactly
    those with reference `≤ L`; `L = 0`: all gone) — every sample ever inserted is in an m-mapped chunk
    that was loaded or in the OOO head chunk rebuilt from the WBL. -/
theorem wbl_replay_complete (cap L : Nat) (ops : List (Nat × Nat)) :
    ∀ x ∈ ops.map (·.1), x ∈ recovered L (runW cap {} ops).chunks (runW cap {} ops).wbl := by
  intro x hx
  have h := winv_run cap L ops {} [] (winv_init L)
  rcases h.cover x (by simpa using hx) with hc | hc
  · exact List.mem_append.mpr (Or.inl hc)
  · exact List.mem_append.mpr (Or.inr hc)

/-- Non-vacuity of `wbl_replay_complete` and the seeded mistake: limit 2, five inserts give the chunks
    `1 ↦ [10,11]`, `2 ↦ [12,13]` and the head `[14]`. If the torn file is deleted (nothing loadable,
    faithful reference 0) everything comes back from the WBL; replaying the WBL with the STALE
    reference of the failed first load (1, the chunk read before the torn one) honours the marker of
    chunk 1 although that chunk is gone: 10 and 11 are lost. -/
theorem stale_lastMmapRef_loses_witness :
    (runW 2 {} [(10, 0), (11, 0), (12, 0), (13, 0), (14, 0)]).chunks = [⟨1, [10, 11]⟩, ⟨2, [12, 13]⟩] ∧
    recovered 0 (runW 2 {} [(10, 0), (11, 0), (12, 0), (13, 0), (14, 0)]).chunks
      (runW 2 {} [(10, 0), (11, 0), (12, 0), (13, 0), (14, 0)]).wbl = [10, 11, 12, 13, 14] ∧
    recoveredWith 0 1 (runW 2 {} [(10, 0), (11, 0), (12, 0), (13, 0), (14, 0)]).chunks
      (runW 2 {} [(10, 0), (11, 0), (12, 0), (13, 0), (14, 0)]).wbl = [12, 13, 14] := by decide

/-- Finding C03-F1 (real code, unchanged tree): a marker is judged against `lastMmapRef` of the
    CURRENT restart, but the reference space moves on. Limit 2, inserts 10, 11, 12: the WBL is
    `mark 0, 10, 11, mark 1, 12` and chunk `1 ↦ [10,11]` sits in the chunk write buffer. The kill
    leaves the WBL cut behind the marker record (the transaction carrying 12 was in flight) and no
    chunk on disk. First restart (`lastMmapRef = 0`): marker skipped, 10 and 11 are served from the
    OOO head chunk. That session m-maps other chunks (in-order ones, other series) and shuts down
    cleanly; at the next restart `lastMmapRef ≥ 1`, the old marker is honoured, the head chunk is
    emptied — and no chunk on disk holds 10 and 11: acknowledged samples are gone. -/
theorem stale_marker_after_restart_witness :
    (runW 2 {} [(10, 0), (11, 0), (12, 0)]).wbl = [.mark 0, .smp 10, .smp 11, .mark 1, .smp 12] ∧
    recovered 0 [] (runW 2 {} [(10, 0), (11, 0), (12, 0)]).wbl.dropLast = [10, 11] ∧
    recovered 1 [] (runW 2 {} [(10, 0), (11, 0), (12, 0)]).wbl.dropLast = [] := by decide

/-- Non-vacuity: a concrete trace of a head compaction followed by a WAL checkpoint and truncation is
    accepted by the discipline (file 1 = `index`). -/
example : conforms [
    .write (.seg .wal 0), .write (.seg .wal 1), .mkdir (.blockTmp 1 0), .write (.blockTmp 1 1),
    .fsync (.blockTmp 1 1), .rename (.blockTmp 1 0) (.block 1 0 false) false,
    .mkdir (.cpTmp .wal 0 false), .write (.cpTmp .wal 0 true),
    .rename (.cpTmp .wal 0 false) (.cp .wal 0 false) false, .unlink (.seg .wal 0)] = true := by decide

/-- …and unlinking a segment before its checkpoint is complete is rejected (at that step). -/
theorem unlink_before_checkpoint_rejected_witness :
    firstViolation [.write (.seg .wal 0), .mkdir (.cpTmp .wal 0 false), .unlink (.seg .wal 0)] = some 2 := by
  decide

/-- Writing into a visible block in place is rejected. -/
theorem write_into_visible_block_rejected_witness :
    firstViolation [.mkdir (.blockTmp 1 0), .rename (.blockTmp 1 0) (.block 1 0 false) false,
            .write (.block 1 1 false)] = some 2 := by decide

/-- Making a block visible before one of its files was fsynced is rejected. -/
theorem rename_before_fsync_rejected_witness :
    firstViolation [.mkdir (.blockTmp 1 0), .write (.blockTmp 1 1),
            .rename (.blockTmp 1 0) (.block 1 0 false) false] = some 2 := by decide

/-- Removing the newest checkpoint is rejected. -/
theorem remove_newest_checkpoint_rejected_witness :
    firstViolation [.rename (.cpTmp .wal 3 false) (.cp .wal 3 false) false, .unlink (.cp .wal 3 false)]
      = some 1 := by decide

/-- The full content-level statement, over the storage model (DbModel) extended with the persistence
    scripts of each operation: after a kill at any action boundary (with a possibly torn last write),
    recovery yields every acknowledged sample and deletion and nothing unacknowledged. NOT proved here;
    it is evaluated on the real system at every enumerated syscall by the `kill` ops. -/
def crash_safe_full : Prop :=
  ∀ (acked inflight gone present : List String) (o : String),
    -- `present`/`o` = result of recovery after an arbitrary kill of an arbitrary workload
    killHolds o acked inflight gone present = none

end Prom.C03
