import PromModel.Suites.CrashSuite
/-
  C03 — Acknowledged writes survive a process crash at any point.

  What is proved here (trace level): for EVERY action trace accepted by the crash-safety discipline
  (`CrashFs.run … = .ok`), at EVERY prefix — i.e. at every possible kill point — each WAL segment that
  has been removed is covered by a complete checkpoint that is still present, and the set of complete
  checkpoints never loses its maximum. The discipline itself is checked on the real syscall traces on
  every run (suite `crash`, op `trace`), and C03's statement is evaluated on the state recovered after
  a kill at every enumerated persistence syscall (op `kill`).

  Not proved (kept visible): the content-level statement `crash_safe_full` over the storage model.
-/
namespace Prom.C03
open Prom.CrashFs

theorem hasCpGe_cons (s : St) (c : Log × Nat) (l : Log) (k : Nat)
    (h : hasCpGe s l k = true) : hasCpGe { s with cps := c :: s.cps } l k = true := by
  unfold hasCpGe at *
  simp only [List.any_cons, h, Bool.or_true]

/-- Removing checkpoint `cp` keeps coverage as long as a strictly newer one of the same log stays. -/
theorem hasCpGe_filter (s : St) (cp : Log × Nat) (l : Log) (k : Nat)
    (h : hasCpGe s l k = true) (hgt : hasCpGt s cp.1 cp.2 = true) :
    hasCpGe { s with cps := s.cps.filter (· ≠ cp) } l k = true := by
  unfold hasCpGe hasCpGt at *
  simp only [List.any_eq_true, List.mem_filter, Bool.and_eq_true, beq_iff_eq, decide_eq_true_eq] at *
  obtain ⟨c, hc, hlog, hk⟩ := h
  obtain ⟨c', hc', hlog', hk'⟩ := hgt
  by_cases hEq : c = cp
  · refine ⟨c', ⟨hc', ?_⟩, ?_, ?_⟩
    · simp only [ne_eq, decide_eq_true_eq]; intro h'; subst h'; omega
    · subst hEq; exact hlog'.trans hlog
    · subst hEq; omega
  · exact ⟨c, ⟨hc, by simpa using hEq⟩, hlog, hk⟩

/-- One allowed action preserves the recovery invariant. -/
theorem step_inv (s : St) (a : Act) (hinv : CrashFs.Inv s) (hok : stepOk s a = true) :
    CrashFs.Inv (step s a) := by
  unfold CrashFs.Inv at *
  intro seg hseg
  have hseg' : seg ∈ segsAfter s a := hseg
  -- coverage of the segments removed earlier survives the action
  have old : ∀ sg ∈ s.segsRemoved, sg.1 = Log.wbl ∨ hasCpGe (step s a) sg.1 sg.2 = true := by
    intro sg hm
    rcases hinv sg hm with h | h
    · exact Or.inl h
    · right
      show (cpsAfter s a).any (fun c => c.1 == sg.1 && decide (sg.2 ≤ c.2)) = true
      unfold cpsAfter
      split
      · rename_i l k
        have hgt : hasCpGt s l k = true := by simpa [stepOk] using hok
        exact hasCpGe_filter s (l, k) sg.1 sg.2 h hgt
      · split
        · exact hasCpGe_cons s _ sg.1 sg.2 h
        · exact h
      · exact h
  unfold segsAfter at hseg'
  split at hseg'
  · rename_i l k
    simp only [List.mem_cons] at hseg'
    rcases hseg' with h | h
    · subst h
      cases l with
      | wbl => exact Or.inl rfl
      | wal =>
        right
        have hok' : hasCpGe s .wal k = true := by simpa [stepOk] using hok
        -- unlinking a segment does not change the checkpoints
        show (cpsAfter s (.unlink (.seg .wal k))).any _ = true
        exact hok'
    · exact old seg h
  · exact old seg hseg'

/-- **Every kill point of a disciplined trace is recoverable**: if the whole trace is accepted, then
    after any prefix of it (the process may be killed between any two actions) every removed WAL
    segment is still covered by a complete checkpoint. -/
theorem discipline_inv_at_every_prefix (tr : List Act) (s : St) (k : Nat) (s' : St)
    (hinv : CrashFs.Inv s) (hrun : run s tr k = .ok s') :
    ∀ n, ∃ sn, run s (tr.take n) k = .ok sn ∧ CrashFs.Inv sn := by
  induction tr generalizing s k with
  | nil => intro n; exact ⟨s, by simp [run], hinv⟩
  | cons a rest ih =>
    intro n
    unfold run at hrun
    by_cases hok : stepOk s a = true
    · simp only [hok, if_true] at hrun
      cases n with
      | zero => exact ⟨s, by simp [run], hinv⟩
      | succ m =>
        obtain ⟨sn, h1, h2⟩ := ih (step s a) (k + 1) (step_inv s a hinv hok) hrun m
        exact ⟨sn, by simp [run, hok, h1], h2⟩
    · simp [hok] at hrun

theorem inv_init : CrashFs.Inv {} := by unfold CrashFs.Inv; intro seg h; simp at h

/-- The judge's predicate is C03's statement: it accepts exactly when the directory reopened, every
    acknowledged sample is present and every present sample was acknowledged or in flight. -/
theorem killHolds_none_iff (o : String) (acked inflight gone present : List String) :
    killHolds o acked inflight gone present = none ↔
      (o = "ok" ∧ (∀ a ∈ acked, a ∈ present) ∧ (∀ p ∈ present, p ∈ acked ∨ p ∈ inflight)) := by
  unfold killHolds
  by_cases ho : o = "ok"
  · simp only [ho, ne_eq, not_true_eq_false, if_false, true_and]
    cases h1 : acked.find? (fun a => !present.contains a) with
    | some a =>
      simp only [reduceCtorEq, false_iff, not_and]
      intro hall
      have := List.find?_some h1
      have hm := List.mem_of_find?_eq_some h1
      simp at this
      exact absurd (hall a hm) this
    | none =>
      have hall : ∀ a ∈ acked, a ∈ present := by
        intro a ha
        have := List.find?_eq_none.mp h1 a ha
        simpa using this
      cases h2 : present.find? (fun p => !(acked.contains p || inflight.contains p)) with
      | some p =>
        have hp := List.find?_some h2
        have hm := List.mem_of_find?_eq_some h2
        simp only [Bool.not_eq_eq_eq_not, Bool.not_true, Bool.or_eq_false_iff] at hp
        constructor
        · intro h
          by_cases hg : p ∈ gone <;> simp [hg] at h
        · intro ⟨_, h⟩
          rcases h p hm with h | h
          · have := hp.1; simp [h] at this
          · have := hp.2; simp [h] at this
      | none =>
        simp only [true_iff]
        refine ⟨hall, ?_⟩
        intro p hp
        have := List.find?_eq_none.mp h2 p hp
        simp only [Bool.not_eq_eq_eq_not, Bool.not_true, Bool.or_eq_false_iff, not_and, Bool.not_eq_false,
          List.contains_eq_mem, decide_eq_false_iff_not, decide_eq_true_eq] at this
        by_cases ha : p ∈ acked
        · exact Or.inl ha
        · exact Or.inr (Classical.not_not.mp (this ha))
  · simp [ho]

/-- Non-vacuity: a concrete trace of a head compaction followed by a WAL checkpoint and truncation is
    accepted by the discipline (file 1 = `index`). -/
example : conforms [
    .write (.seg .wal 0), .write (.seg .wal 1), .mkdir (.blockTmp 1 0), .write (.blockTmp 1 1),
    .fsync (.blockTmp 1 1), .rename (.blockTmp 1 0) (.block 1 0 false) false,
    .mkdir (.cpTmp .wal 0 false), .write (.cpTmp .wal 0 true),
    .rename (.cpTmp .wal 0 false) (.cp .wal 0 false) false, .unlink (.seg .wal 0)] = true := by decide

/-- …and unlinking a segment before its checkpoint is complete is rejected (at that step). -/
theorem unlink_before_checkpoint_rejected_witness :
    firstViolation [.write (.seg .wal 0), .mkdir (.cpTmp .wal 0 false), .unlink (.seg .wal 0)] = some 2 := by
  decide

/-- Writing into a visible block in place is rejected. -/
theorem write_into_visible_block_rejected_witness :
    firstViolation [.mkdir (.blockTmp 1 0), .rename (.blockTmp 1 0) (.block 1 0 false) false,
            .write (.block 1 1 false)] = some 2 := by decide

/-- Making a block visible before one of its files was fsynced is rejected. -/
theorem rename_before_fsync_rejected_witness :
    firstViolation [.mkdir (.blockTmp 1 0), .write (.blockTmp 1 1),
            .rename (.blockTmp 1 0) (.block 1 0 false) false] = some 2 := by decide

/-- Removing the newest checkpoint is rejected. -/
theorem remove_newest_checkpoint_rejected_witness :
    firstViolation [.rename (.cpTmp .wal 3 false) (.cp .wal 3 false) false, .unlink (.cp .wal 3 false)]
      = some 1 := by decide

/-- The full content-level statement, over the storage model (DbModel) extended with the persistence
    scripts of each operation: after a kill at any action boundary (with a possibly torn last write),
    recovery yields every acknowledged sample and deletion and nothing unacknowledged. NOT proved here;
    it is evaluated on the real system at every enumerated syscall by the `kill` ops. -/
def crash_safe_full : Prop :=
  ∀ (acked inflight gone present : List String) (o : String),
    -- `present`/`o` = result of recovery after an arbitrary kill of an arbitrary workload
    killHolds o acked inflight gone present = none

end Prom.C03
