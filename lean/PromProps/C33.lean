import PromProofs.EvalTotalSound
/-
  C33 — Query evaluation never fails internally.

  Model: `Prom.EvalTotal.evalT` (PromModel/Promql/EvalTotal.lean), the instant semantics of a PromQL tree with every
  partial operation explicit, over ABSTRACT sample values and law-free kernels (`Kernel ν`): the theorems hold for all
  data (floats, native histograms, staleness markers, NaN, ±Inf, empty vectors) and all behaviours of the numeric /
  string kernels, including kernels that raise user errors.

  PARTIAL BY NATURE (DESIGN §7, §10): the theorems rule out faults of the modelled ALGORITHM (node dispatch, type
  assertions on evaluated arguments, literal-ness of string parameters, operator/cardinality dispatch, absent
  parameters).  Go-level nil dereferences inside function bodies, slice aliasing through the point pools and data races
  cannot be exhibited by a Lean model; they are reachable only by the differential suite `promqltotal`
  (no internal error on generated queries; serial result = 16-way concurrent result in one engine).
-/
namespace Prom.C33
open Prom.EvalTotal
open Prom.Promql (VT FuncSig functionTable)
open Prom.RangeEval (AtMod Cfg)

variable {ν : Type}

/-! ### auxiliary facts about `typeOf` -/

theorem typesOf_length : ∀ (as : List Expr), (typesOf as).length = as.length
  | [] => by simp [typesOf]
  | a :: rest => by simp [typesOf, typesOf_length rest]

/-- A tree of type string is a string literal under parentheses: what `stringFromArg` /
    `e.Param.(*parser.StringLiteral)` rely on after `unwrapParenExpr`. -/
theorem string_typed_is_literal : ∀ (a : Expr), typeOf a = some .string → (strArg? a).isSome = true
  | .nil, h => by simp [typeOf] at h
  | .num _, h => by simp [typeOf] at h
  | .str s, _ => by simp [strArg?, stripParen]
  | .sel _, h => by simp [typeOf] at h
  | .msel _ r, h => by unfold typeOf at h; split at h <;> simp at h
  | .subq e r st _ _, h => by unfold typeOf at h; split at h <;> simp at h
  | .paren e, h => by
    have ih := string_typed_is_literal e (by simpa [typeOf] using h)
    simpa [strArg?, stripParen] using ih
  | .neg e, h => by unfold typeOf at h; split at h <;> simp at h
  | .agg op _ _ p e, h => by
    unfold typeOf at h
    split at h
    · simp at h
    · split at h
      · split at h <;> simp at h
      · split at h <;> simp at h
      · split at h <;> simp at h
  | .bin op b vm l r, h => by
    unfold typeOf at h
    split at h
    · rcases binType_ret h with h' | h' <;> simp at h'
    · simp at h
  | .call fn args, h => by
    unfold typeOf at h
    split at h
    · simp at h
    · rename_i sig hs
      split at h
      · have := sigOf_ret hs
        simp at h
        rw [h] at this
        simp at this
      · simp at h

theorem strLits_some : ∀ (args : List Expr) (vals : List (Value ν)),
    vals.map (fun v => some v.vt) = typesOf args → strLits args vals ≠ none
  | [], vals, _ => by cases vals <;> simp [strLits]
  | a :: as, [], _ => by simp [strLits]
  | a :: as, v :: vs, h => by
    simp only [typesOf, List.map_cons, List.cons.injEq] at h
    have ih := strLits_some as vs h.2
    cases v with
    | string s =>
      have hs : typeOf a = some .string := by simpa [Value.vt] using h.1.symm
      obtain ⟨x, hx⟩ := Option.isSome_iff_exists.mp (string_typed_is_literal a hs)
      cases hr : strLits as vs with
      | none => exact absurd hr ih
      | some rest => simp [strLits, hx, hr]
    | scalar x => simpa [strLits] using ih
    | vector x => simpa [strLits] using ih
    | matrix x => simpa [strLits] using ih

/-- arguments: no internal error, and the values have the arguments' static types -/
def ArgsSafe (as : List Expr) : Except EvalErr (List (Value ν)) → Prop
  | .ok vs => vs.map (fun v => some v.vt) = typesOf as
  | .error e => e ≠ .internal

theorem argTypesOk_allSome (tys : List VT) : ∀ (i : Nat) (os : List (Option VT)),
    argTypesOk tys i os = true → ∀ o ∈ os, o.isSome = true
  | _, [], _ => by simp
  | i, o :: rest, h => by
    simp only [argTypesOk, Bool.and_eq_true] at h
    intro x hx
    rcases List.mem_cons.mp hx with rfl | hx
    · exact h.1.1
    · exact argTypesOk_allSome tys (i + 1) rest h.2 x hx

/-! ### type soundness -/

mutual
theorem sound (K : Kernel ν) (cfg : Cfg) (env : Env ν) :
    ∀ (e : Expr) (τ : VT), typeOf e = some τ → ∀ t, Safe τ (evalT K cfg env e t)
  | .nil, τ, h, t => by simp [typeOf] at h
  | .num b, τ, h, t => by
    simp [typeOf] at h; subst h; simp [evalT, Safe, Value.vt]
  | .str s, τ, h, t => by
    simp [typeOf] at h; subst h; simp [evalT, Safe, Value.vt]
  | .sel s, τ, h, t => by
    simp [typeOf] at h; subst h
    unfold evalT
    exact Safe.of_map _ (checkDup_noInt _) (fun _ => rfl)
  | .msel s r, τ, h, t => by
    unfold typeOf at h
    split at h <;> simp at h
    subst h; simp [evalT, Safe, Value.vt]
  | .paren e, τ, h, t => by
    unfold evalT
    exact sound K cfg env e τ (by simpa [typeOf] using h) t
  | .neg e, τ, h, t => by
    unfold typeOf at h
    unfold evalT
    split at h
    · rename_i he
      simp at h; subst h
      have ih := sound K cfg env e .scalar he t
      apply Safe.of_bind ih.noInt
      intro v hv
      rw [hv] at ih
      exact evalNeg_safe_scalar K v ih
    · rename_i he
      simp at h; subst h
      have ih := sound K cfg env e .vector he t
      apply Safe.of_bind ih.noInt
      intro v hv
      rw [hv] at ih
      exact evalNeg_safe_vector K v ih
    · simp at h
  | .subq e r st off atm, τ, h, t => by
    unfold typeOf at h
    split at h <;> simp at h
    subst h
    rename_i hc
    simp only [Bool.and_eq_true, beq_iff_eq] at hc
    unfold evalT
    simp only []
    apply Safe.of_bind
    · apply mapE_noInt
      intro t' _
      have ih := sound K cfg env e .vector hc.1.1 t'
      apply NoInt.bind ih.noInt
      intro v hv
      rw [hv] at ih
      apply NoInt.bind (asVector_noInt v (Or.inr ih))
      intro xs _
      simp [NoInt, pure, Except.pure]
    · intro pts _
      simp [Safe, Value.vt, pure, Except.pure]
  | .agg op wo ls p e, τ, h, t => by
    unfold typeOf at h
    split at h
    · simp at h
    · rename_i he
      simp only [bne_iff_ne, ne_eq, Decidable.not_not] at he
      have ih := sound K cfg env e .vector he t
      unfold evalT
      apply Safe.of_bind ih.noInt
      intro v hv
      rw [hv] at ih
      apply Safe.of_bind (asVector_noInt v (Or.inr ih))
      intro xs _
      cases hk : op.paramKind <;> simp only [hk] at h ⊢
      · split at h <;> simp at h
        subst h
        exact Safe.of_map _ (evalAgg_noInt K op wo ls none none xs (by simp [hk]) (by simp [hk])) (fun _ => rfl)
      · split at h <;> simp at h
        subst h
        rename_i hp
        simp only [beq_iff_eq] at hp
        have ihp := sound K cfg env p .scalar hp t
        apply Safe.of_bind ihp.noInt
        intro pv hpv
        rw [hpv] at ihp
        have epv : pv.vt = .scalar := ihp
        cases pv <;> simp [Value.vt] at epv
        simp only []
        exact Safe.of_map _ (evalAgg_noInt K op wo ls (some _) none xs (by simp) (by simp [hk])) (fun _ => rfl)
      · split at h <;> simp at h
        subst h
        rename_i hp
        simp only [beq_iff_eq] at hp
        exact Safe.of_map _ (evalAgg_noInt K op wo ls none (strArg? p) xs (by simp [hk])
          (fun _ => string_typed_is_literal p hp)) (fun _ => rfl)
  | .bin op b vm l r, τ, h, t => by
    unfold typeOf at h
    split at h
    · rename_i lt rt hl hr
      have ihl := sound K cfg env l lt hl t
      have ihr := sound K cfg env r rt hr t
      unfold evalT
      apply Safe.of_bind ihl.noInt
      intro lv hlv
      rw [hlv] at ihl
      apply Safe.of_bind ihr.noInt
      intro rv hrv
      rw [hrv] at ihr
      have e1 : lv.vt = lt := ihl
      have e2 : rv.vt = rt := ihr
      exact evalBin_safe K op b vm lv rv τ (by rw [e1, e2]; exact h)
    · simp at h
  | .call fn args, τ, h, t => by
    unfold typeOf at h
    split at h
    · simp at h
    · rename_i sig hs
      split at h
      · rename_i hc
        simp at h; subst h
        simp only [Bool.and_eq_true] at hc
        unfold evalT
        simp only [hs]
        split
        · rename_i s hts
          have hfn : fn = "timestamp" := by
            unfold tsSel? at hts
            split at hts
            · rename_i hf; simpa using hf
            · simp at hts
          subst hfn
          have hr : sig.ret = .vector := by
            have : sigOf "timestamp" = some ⟨"timestamp", [.vector], 0, .vector, false⟩ := by
              simp [sigOf, functionTable]
            rw [this] at hs
            simp at hs
            rw [← hs]
          rw [hr]
          exact Safe.of_map _ (checkDup_noInt _) (fun _ => rfl)
        · have iha := soundArgs K cfg env args (argTypesOk_allSome _ _ _ hc.2) t
          cases hev : evalArgs K cfg env args t with
          | error e =>
            rw [hev] at iha
            simp only [bind, Except.bind]
            exact iha
          | ok vals =>
            rw [hev] at iha
            have hm : vals.map (fun v => some v.vt) = typesOf args := iha
            have hlen : vals.length = args.length := by
              have := congrArg List.length hm
              simpa [typesOf_length] using this
            have hvm : valsMatch sig vals = true := by
              simp only [valsMatch, Bool.and_eq_true, hm, hlen]
              exact hc
            simp only [bind, Except.bind, hvm, if_true]
            exact applyFn_safe K sig fn args vals t (sigOf_ret hs) (strLits_some args vals hm)
      · simp at h

theorem soundArgs (K : Kernel ν) (cfg : Cfg) (env : Env ν) :
    ∀ (as : List Expr), (∀ o ∈ typesOf as, o.isSome = true) → ∀ t, ArgsSafe as (evalArgs K cfg env as t)
  | [], _, t => by simp [evalArgs, ArgsSafe, typesOf]
  | a :: rest, h, t => by
    have ha : (typeOf a).isSome = true := h _ (by simp [typesOf])
    obtain ⟨τ, hτ⟩ := Option.isSome_iff_exists.mp ha
    have ih1 := sound K cfg env a τ hτ t
    have ih2 := soundArgs K cfg env rest (fun o ho => h o (by simp [typesOf, ho])) t
    unfold evalArgs
    cases h1 : evalT K cfg env a t with
    | error e =>
      rw [h1] at ih1
      simp only [bind, Except.bind]
      exact ih1
    | ok v =>
      rw [h1] at ih1
      cases h2 : evalArgs K cfg env rest t with
      | error e =>
        rw [h2] at ih2
        simp only [bind, Except.bind]
        exact ih2
      | ok vs =>
        rw [h2] at ih2
        have e1 : v.vt = τ := ih1
        have e2 : vs.map (fun v => some v.vt) = typesOf rest := ih2
        simp [bind, Except.bind, pure, Except.pure, ArgsSafe, typesOf, e1, e2, hτ]
end

/-- **Type soundness.**  A tree accepted by `checkAST` (`HasType e τ`) never evaluates to an internal error and a
    successful result has the value type `τ` — for every kernel (all numeric behaviours, NaN/Inf, histograms, kernels
    raising user errors), every storage content (mixed float/histogram series, staleness markers, empty), every
    lookback / default step / query range, and every evaluation time.
    Covered node kinds: number and string literals, parentheses, unary minus, vector and matrix selectors (offset, `@`),
    subqueries, all 14 aggregation operators with their parameters, all 18 binary operators with `bool` and vector
    matching (on/ignoring, group_left/right, fill), calls of every function of the transcribed function table by
    signature (argument counts/types, variadic, string-literal parameters, `timestamp` over a selector). -/
theorem type_soundness (K : Kernel ν) (cfg : Cfg) (env : Env ν) (e : Expr) (τ : VT) (h : HasType e τ) (t : Int) :
    evalT K cfg env e t ≠ .error .internal ∧ ∀ v, evalT K cfg env e t = .ok v → v.vt = τ := by
  have hs := sound K cfg env e τ h t
  constructor
  · intro hc; rw [hc] at hs; exact hs rfl
  · intro v hv; rw [hv] at hs; exact hs

/-- **Determinism / isolation.**  The model's result is a function of the expression, the data and the query
    parameters only: there is no other input through which a concurrently evaluated query could influence it.  (The
    implementation-level content — shared pools, Go-map iteration order — is the differential's serial-vs-concurrent
    comparison.) -/
theorem eval_deterministic (K : Kernel ν) (cfg₁ cfg₂ : Cfg) (env₁ env₂ : Env ν) (e₁ e₂ : Expr) (t₁ t₂ : Int)
    (hc : cfg₁ = cfg₂) (hv : env₁ = env₂) (he : e₁ = e₂) (ht : t₁ = t₂) :
    evalT K cfg₁ env₁ e₁ t₁ = evalT K cfg₂ env₂ e₂ t₂ := by
  subst hc hv he ht; rfl

/-! ### what the type check protects against -/

/-- Trees rejected by `checkAST` that reach an internal branch, for EVERY kernel, data and time:
    `count_values(1, m)` (the parameter is not a string literal: `e.Param.(*parser.StringLiteral)`),
    `topk(m)` (nil parameter), `sum("a")` (`val.(Matrix)` on a String), `1 and 1` (set operator on scalars),
    `m + m` with many-to-many cardinality, a call of a function that is not in the table. -/
theorem checkAST_rejects_untyped_partial (K : Kernel ν) (cfg : Cfg) (env : Env ν) (t : Int) (s : Sel) :
    (typeOf (.agg .countValues false [] (.num 0) (.sel s)) = none ∧
      evalT K cfg env (.agg .countValues false [] (.num 0) (.sel s)) t = .error .internal ∨
      ∃ k, evalT K cfg env (.agg .countValues false [] (.num 0) (.sel s)) t = .error (.user k)) ∧
    (typeOf (.agg .sum false [] .nil (.str "a")) = none ∧
      evalT K cfg env (.agg .sum false [] .nil (.str "a")) t = .error .internal) ∧
    (typeOf (.bin .land false { card := .manyToMany } (.num 0) (.num 0)) = none ∧
      evalT K cfg env (.bin .land false { card := .manyToMany } (.num 0) (.num 0)) t = .error .internal) ∧
    (typeOf (.call "nosuchfn" []) = none ∧ evalT K cfg env (.call "nosuchfn" []) t = .error .internal) ∧
    (typeOf (.neg (.str "a")) = none ∧ evalT K cfg env (.neg (.str "a")) t = .error .internal) := by
  refine ⟨?_, ?_, ?_, ?_, ?_⟩
  · -- the selector may already fail with the duplicate-labelset user error; otherwise the assertion fails
    cases hd : checkDup (selVec K cfg env s t) with
    | error e =>
      right
      have := checkDup_noInt (selVec K cfg env s t)
      rw [hd] at this
      cases e with
      | internal => exact absurd rfl this
      | user k => exact ⟨k, by simp [evalT, hd, bind, Except.bind, Except.map]⟩
    | ok xs =>
      left
      refine ⟨by simp [typeOf, AggOp.paramKind], ?_⟩
      simp [evalT, hd, bind, Except.bind, Except.map, asVector, AggOp.paramKind, strArg?, stripParen, evalAgg]
  · refine ⟨by simp [typeOf], ?_⟩
    simp [evalT, bind, Except.bind, asVector]
  · refine ⟨by simp [typeOf, binType, BinOp.isSet, BinOp.isComparison], ?_⟩
    simp [evalT, bind, Except.bind, evalBin, BinOp.isSet]
  · have h : sigOf "nosuchfn" = none := by simp [sigOf, functionTable]
    exact ⟨by simp [typeOf, h], by simp [evalT, h]⟩
  · refine ⟨by simp [typeOf], ?_⟩
    simp [evalT, bind, Except.bind, evalNeg]

/-- Concrete instance of the witness with a trivial kernel: `topk(m)` without its parameter is rejected by the type
    check and evaluates to the internal error (nil dereference of the parameter). -/
theorem checkAST_rejects_untyped_witness (K : Kernel ν) (cfg : Cfg) (t : Int) :
    typeOf (.agg .topk false [] .nil (.sel ⟨"m", [], 0, .none⟩)) = none ∧
    evalT K cfg [] (.agg .topk false [] .nil (.sel ⟨"m", [], 0, .none⟩)) t = .error .internal := by
  refine ⟨by simp [typeOf, AggOp.paramKind], ?_⟩
  simp [evalT, selVec, selSeries, checkDup, hasDup, bind, Except.bind, Except.map, asVector, AggOp.paramKind]

/-! ### the hypotheses are satisfiable: well-typed trees of every value type -/

example : HasType (.num 0) .scalar := by simp [HasType, typeOf]
example : HasType (.paren (.str "v")) .string := by simp [HasType, typeOf]
example : HasType (.msel ⟨"m", [], 0, .none⟩ 60000) .matrix := by simp [HasType, typeOf]
example : HasType (.agg .countValues false [] (.paren (.str "v")) (.sel ⟨"m", [], 0, .none⟩)) .vector := by
  simp [HasType, typeOf, AggOp.paramKind]
example : HasType (.bin .add false {} (.sel ⟨"m", [], 0, .none⟩) (.num 0)) .vector := by
  simp [HasType, typeOf, binType, BinOp.isComparison, BinOp.isSet]
example : HasType (.call "rate" [.msel ⟨"m", [], 0, .none⟩ 60000]) .vector := by
  have h : sigOf "rate" = some ⟨"rate", [.matrix], 0, .vector, false⟩ := by simp [sigOf, functionTable]
  simp [HasType, typeOf, h, arityOk, argTypesOk, typesOf, nthOrLast]

end Prom.C33
