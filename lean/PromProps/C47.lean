import PromModel.Discovery.Manager
import PromModel.Suites.SdSuite
import PromProofs.DiscoveryManager
import PromProofs.DiscoveryInv
/-
  C47 — Service discovery converges to the latest target groups.

  Model: `PromModel/Discovery/Manager.lean` (transition system over the atomic actions of discovery/manager.go:
  U1 `updateGroup`, U2 trigger, S1 take trigger, S2a `allGroups` snapshot taken provider by provider (not atomic),
  S2b non-blocking hand-over with re-arming, atomic `ApplyConfig`, consumer receive/leave).  All theorems quantify over EVERY action sequence
  (`run {} acts = some s`): any number of providers, jobs, updates, reloads, any interleaving, any consumer.

  The liveness half of the statement ("once updates stop …") is proved as a safety property of quiescent states:
  `quiescent s` = no thread inside an action and no trigger outstanding.  That a quiescent state is eventually
  reached needs weak fairness of the sender's timer (S1 fires when `pending`) and a consumer that eventually
  waits; this is the stated assumption, exercised against the real timer by suite `sd`.
-/
namespace Prom.C47
open Prom.Discovery

/-- States reachable from the initial manager by any sequence of enabled actions. -/
def Reachable (s : State) : Prop := ∃ acts, run {} acts = some s

theorem reachable_inv {s : State} (h : Reachable s) : Inv s := by
  obtain ⟨acts, h⟩ := h
  exact inv_run {} inv_init acts s h

/-- The safety invariant: at every reachable state, what the consumer last received is the current
    `allGroups`, or a trigger is outstanding, or some thread is between U1 and U2 / S1 and S2. -/
theorem safety_invariant {s : State} (h : Reachable s) :
    s.delivered = allGroups s ∨ s.pending = true ∨ s.mid ≠ [] ∨ s.sender ≠ .idle := by
  have hI := reachable_inv h
  by_cases hs : s.sender = .idle
  · by_cases hp : s.pending = true
    · exact Or.inr (Or.inl hp)
    · by_cases hm : s.mid = []
      · exact Or.inl (hI.send_idle hs (by simpa using hp) hm)
      · exact Or.inr (Or.inr (Or.inl hm))
  · exact Or.inr (Or.inr (Or.inr hs))

/-- A snapshot in progress (S2a has visited some providers, `rest` are still to come; updaters may have run in
    between) or in flight (`rest = []`, not yet handed over): completing it against the current targets gives
    the current `allGroups`, unless a newer trigger exists or an updater is on its way to set one. -/
theorem snapshot_in_flight_current {s : State} (h : Reachable s) (acc : Snap) (rest : List Provider)
    (hs : s.sender = .snapping acc rest) :
    rest.foldl (agProv s.targets) acc = allGroups s ∨ s.pending = true ∨ s.mid ≠ [] := by
  have hI := reachable_inv h
  by_cases hp : s.pending = true
  · exact Or.inr (Or.inl hp)
  · by_cases hm : s.mid = []
    · exact Or.inl (hI.send_snapping acc rest hs (by simpa using hp) hm)
    · exact Or.inr (Or.inr hm)

/-- `updateGroup` folded over any history of slices leaves, under each source, the latest group sent for that
    source — unless that one has no targets, in which case the source is absent. -/
theorem fold_latest (h : Upd) (src : Src) :
    smGet (applyUpd [] h) src =
      match latest h src with
      | some g => if g.n > 0 then some g else none
      | none => none := by
  rw [smGet_applyUpd]; rfl

/-- Membership form: the groups held for a provider are exactly the latest non-empty group of every source. -/
theorem fold_latest_mem (h : Upd) (g : Group) :
    g ∈ (applyUpd [] h).map (·.2) ↔ latest h g.src = some g ∧ g.n > 0 := by
  rw [mem_values_iff _ (smWF_applyUpd [] h smWF_nil), fold_latest]
  cases hl : latest h g.src with
  | none => simp
  | some g' =>
    by_cases hn : g'.n > 0
    · simp only [hn, if_true, Option.some.injEq]
      constructor
      · intro e; subst e; exact ⟨rfl, hn⟩
      · intro e; exact e.1
    · simp only [hn, if_false]
      constructor
      · intro e; simp at e
      · intro e; have := e.1; simp at this; subst this; exact absurd e.2 hn

theorem flatMap_congr_mem {α β : Type} (l : List α) (f g : α → List β) (h : ∀ a ∈ l, f a = g a) :
    l.flatMap f = l.flatMap g := by
  induction l with
  | nil => rfl
  | cons a r ih =>
    simp only [List.flatMap_cons]
    rw [h a List.mem_cons_self, ih (fun b hb => h b (List.mem_cons_of_mem _ hb))]

/-- `allGroups` at any reachable state: a job is present iff some current provider serves it (a served job
    without targets is present with the empty list), and its groups are those of all providers serving it,
    each provider contributing the fold of everything its updater has applied. -/
theorem allGroups_spec {s : State} (h : Reachable s) (j : Job) :
    snapGet (allGroups s) j =
      if serving s.providers j = [] then none
      else some ((serving s.providers j).flatMap fun p => (applyUpd [] (s.hist p.id)).map (·.2)) := by
  have hI := reachable_inv h
  rw [allGroups_get s hI.subs_nodup j]
  by_cases he : serving s.providers j = []
  · simp [he]
  · simp only [he, if_false, Option.some.injEq]
    apply flatMap_congr_mem
    intro p hp
    have hp' := List.mem_filter.mp hp
    have hj : j ∈ p.subs := by simpa using hp'.2
    rw [hI.tgt_hist p hp'.1 j hj]

/-- MAIN: in a quiescent state the last map delivered is, for every job, the latest non-empty group of every
    source of every current provider serving the job; jobs nobody serves are absent, served jobs without
    targets are present and empty. -/
theorem quiescent_delivered_latest {s : State} (h : Reachable s) (hq : quiescent s) (j : Job) :
    snapGet s.delivered j =
      if serving s.providers j = [] then none
      else some ((serving s.providers j).flatMap fun p => (applyUpd [] (s.hist p.id)).map (·.2)) := by
  have hI := reachable_inv h
  rw [hI.send_idle hq.1 hq.2.1 hq.2.2]
  exact allGroups_spec h j

/-- The same, group by group. -/
theorem quiescent_delivered_mem {s : State} (h : Reachable s) (hq : quiescent s) (j : Job) (gs : List Group)
    (hj : snapGet s.delivered j = some gs) (g : Group) :
    g ∈ gs ↔ ∃ p ∈ s.providers, j ∈ p.subs ∧ latest (s.hist p.id) g.src = some g ∧ g.n > 0 := by
  rw [quiescent_delivered_latest h hq j] at hj
  by_cases he : serving s.providers j = []
  · simp [he] at hj
  · simp only [he, if_false, Option.some.injEq] at hj
    subst hj
    rw [List.mem_flatMap]
    constructor
    · rintro ⟨p, hp, hg⟩
      have hp' := List.mem_filter.mp hp
      exact ⟨p, hp'.1, by simpa using hp'.2, (fold_latest_mem _ g).mp hg⟩
    · rintro ⟨p, hp, hjs, hg⟩
      exact ⟨p, List.mem_filter.mpr ⟨hp, by simpa using hjs⟩, (fold_latest_mem _ g).mpr hg⟩

/-- A job is delivered (possibly empty) exactly when a current provider serves it. -/
theorem quiescent_job_present_iff {s : State} (h : Reachable s) (hq : quiescent s) (j : Job) :
    (snapGet s.delivered j).isSome ↔ ∃ p ∈ s.providers, j ∈ p.subs := by
  rw [quiescent_delivered_latest h hq j]
  by_cases he : serving s.providers j = []
  · simp only [he, if_true, Option.isSome_none, Bool.false_eq_true, false_iff]
    rintro ⟨p, hp, hj⟩
    have : p ∈ serving s.providers j := List.mem_filter.mpr ⟨hp, by simpa using hj⟩
    rw [he] at this; simp at this
  · simp only [he, if_false, Option.isSome_some, true_iff]
    cases hs : serving s.providers j with
    | nil => exact absurd hs he
    | cons p r =>
      have : p ∈ serving s.providers j := by rw [hs]; exact List.mem_cons_self
      have hp' := List.mem_filter.mp this
      exact ⟨p, hp'.1, by simpa using hp'.2⟩

/-- No update is lost while the consumer is slow: a hand-over that finds the consumer busy re-arms the trigger
    (and leaves what the consumer holds untouched), so the sender will snapshot again. -/
theorem no_update_lost_slow_consumer (s s' : State) (h : step s .s2send = some s')
    (hbusy : s.consumerReady = false) : s'.pending = true ∧ s'.delivered = s.delivered ∧ s'.sender = .idle := by
  simp only [step] at h
  cases hs : s.sender with
  | idle => rw [hs] at h; simp at h
  | took => rw [hs] at h; simp at h
  | snapping snap rest =>
    rw [hs] at h
    cases rest with
    | cons p r => simp at h
    | nil =>
      simp only [hbusy, Bool.false_eq_true, if_false, Option.some.injEq] at h
      subst h; simp

/-- … and every applied update leaves the trigger set or its updater still on the way to setting it. -/
theorem update_always_triggers (s s' : State) (pid : Pid) (u : Upd) (h : step s (.u1 pid u) = some s') :
    pid ∈ s'.mid ∧ ∀ s'', step s' (.u2 pid) = some s'' → s''.pending = true := by
  simp only [step] at h
  cases hf : findProv s pid with
  | none => rw [hf] at h; simp at h
  | some p =>
    rw [hf] at h
    by_cases hm : pid ∈ s.mid
    · simp [hm] at h
    · simp only [hm, if_false, Option.some.injEq] at h
      subst h
      refine ⟨List.mem_cons_self, ?_⟩
      intro s'' h2
      simp only [step, List.mem_cons, true_or, if_true, Option.some.injEq] at h2
      subst h2; rfl

/-- Nothing of a removed provider (or of a dropped subscription) survives in `targets`: every entry belongs
    to a current provider and one of its current subscribers.  (`ApplyConfig` + `cleaner`.) -/
theorem removed_provider_groups_gone {s : State} (h : Reachable s) (pid : Pid) (j : Job)
    (hgone : ∀ p ∈ s.providers, p.id = pid → j ∉ p.subs) : s.targets (j, pid) = none := by
  have hI := reachable_inv h
  by_cases hx : s.targets (j, pid) = none
  · exact hx
  · obtain ⟨p, hp, hid, hj⟩ := hI.noLeak j pid hx
    exact absurd hj (hgone p hp hid)

/-- Provider names are never reused, so a re-created provider starts from an empty history. -/
theorem provider_ids_unique {s : State} (h : Reachable s) :
    (s.providers.map (·.id)).Nodup ∧ ∀ p ∈ s.providers, p.id < s.lastProvider :=
  ⟨(reachable_inv h).ids_nodup, (reachable_inv h).ids_lt⟩

/-! ### canonical schedule -/

open Prom.Discovery.Suite

theorem run_snoc (s : State) (acts : List Action) (a : Action) :
    run s (acts ++ [a]) = (run s acts).bind (fun s1 => step s1 a) := by
  induction acts generalizing s with
  | nil =>
    cases h : step s a <;> simp [run, h]
  | cons b r ih =>
    simp only [List.cons_append, run]
    cases step s b with
    | none => rfl
    | some s1 => exact ih s1

theorem reachable_step {s s' : State} (a : Action) (h : Reachable s) (hs : step s a = some s') : Reachable s' := by
  obtain ⟨acts, h⟩ := h
  exact ⟨acts ++ [a], by rw [run_snoc, h]; exact hs⟩

theorem reachable_stepD {s : State} (a : Action) (h : Reachable s) : Reachable (stepD s a) := by
  unfold stepD
  cases hs : step s a with
  | none => exact h
  | some s' => exact reachable_step a h hs

/-- States between two ops of the suite's canonical schedule: reachable, nobody inside an action. -/
def Canon (s : State) : Prop := Reachable s ∧ s.sender = .idle ∧ s.mid = []

theorem canon_init : Canon {} := ⟨⟨[], rfl⟩, rfl, rfl⟩

theorem reachable_snapAll_aux (rest : List Provider) (acc : Snap) (s : State) (hs : s.sender = .snapping acc rest)
    (h : Reachable s) :
    Reachable { s with sender := .snapping (rest.foldl (agProv s.targets) acc) [] } := by
  induction rest generalizing acc s with
  | nil =>
    simp only [List.foldl_nil]
    have : { s with sender := SenderPc.snapping acc [] } = s := by rw [← hs]
    rw [this]; exact h
  | cons p r ih =>
    have hstep : step s .s2prov = some { s with sender := .snapping (agProv s.targets acc p) r } := by
      simp only [step, hs]
    have := ih (agProv s.targets acc p) _ rfl (reachable_step .s2prov h hstep)
    simpa using this

/-- The macro step `snapAll` of the suite is a sequence of `s2prov` steps. -/
theorem reachable_snapAll {s : State} (h : Reachable s) : Reachable (snapAll s) := by
  unfold snapAll
  cases hs : s.sender with
  | idle => exact h
  | took => exact h
  | snapping acc rest => exact reachable_snapAll_aux rest acc s hs h

/-- The consumer's wait in the canonical schedule ends in a quiescent state. -/
theorem deliver_quiescent {s : State} (h : Canon s) : Canon (deliver s) ∧ quiescent (deliver s) := by
  obtain ⟨hr, hs, hm⟩ := h
  have hr' : Reachable (deliver s) := by
    unfold deliver
    simp only
    split
    · exact reachable_stepD _ (reachable_snapAll (reachable_stepD _ (reachable_stepD _ (reachable_stepD _ hr))))
    · exact reachable_stepD _ (reachable_stepD _ hr)
  have hq : quiescent (deliver s) := by
    unfold deliver quiescent
    by_cases hp : s.pending = true
    · simp [stepD, step, snapAll, hp, hs, hm]
    · have hp' : s.pending = false := by simpa using hp
      simp [stepD, step, hp', hs, hm]
  exact ⟨⟨hr', hq.1, hq.2.2⟩, hq⟩

theorem canon_applyConfig {s : State} (h : Canon s) (cfg : List (Job × List Cfg)) :
    Canon (stepD s (.applyConfig cfg)) := by
  obtain ⟨hr, hs, hm⟩ := h
  refine ⟨reachable_stepD _ hr, ?_, ?_⟩
  · simp [stepD, step, applyConfig, hs]
  · simp [stepD, step, applyConfig, hm, hs]

theorem canon_update {s : State} (h : Canon s) (pid : Pid) (u : Upd) :
    Canon (stepD (stepD s (.u1 pid u)) (.u2 pid)) := by
  obtain ⟨hr, hs, hm⟩ := h
  refine ⟨reachable_stepD _ (reachable_stepD _ hr), ?_, ?_⟩
  · cases hf : findProv s pid <;> simp [stepD, step, hf, hm, hs]
  · cases hf : findProv s pid <;> simp [stepD, step, hf, hm]

theorem canon_startStatics_aux (oldLast : Nat) (ps : List Provider) {s : State} (h : Canon s) :
    Canon (ps.foldl (fun s p =>
      if p.cfg = staticCfg ∧ oldLast ≤ p.id then stepD (stepD s (.u1 p.id staticUpd)) (.u2 p.id) else s) s) := by
  induction ps generalizing s with
  | nil => exact h
  | cons p r ih =>
    simp only [List.foldl_cons]
    apply ih
    split
    · exact canon_update h _ _
    · exact h

theorem canon_startStatics (oldLast : Nat) {s : State} (h : Canon s) : Canon (startStatics oldLast s) :=
  canon_startStatics_aux oldLast s.providers h

/-- Every op of the suite keeps the model between actions … -/
theorem modelOp_canon {s : State} (h : Canon s) (op : String) : Canon (modelOp s op).1 := by
  unfold modelOp
  split
  · split
    · exact canon_startStatics _ (canon_applyConfig h _)
    · exact h
  · split
    · split
      · exact h
      · split
        · exact canon_update h _ _
        · exact h
    · exact h
  · exact h
  · exact h
  · exact (deliver_quiescent h).1
  · exact h
  · exact (deliver_quiescent h).1
  · exact h

/-- … so after a `quiesce` op the model is in a quiescent reachable state, and what it prints is — by
    `quiescent_delivered_latest` — the latest non-empty group of every source of every provider of each job. -/
theorem model_quiesce_is_quiescent {s : State} (h : Canon s) (op : String) (hop : toks op = ["quiesce"]) :
    Reachable (modelOp s op).1 ∧ quiescent (modelOp s op).1 ∧
    (modelOp s op).2 = renderSnap (modelOp s op).1.delivered := by
  have e : modelOp s op = (deliver s, renderSnap (deliver s).delivered) := by
    unfold modelOp
    rw [hop]
    first | rfl | simp | decide
  rw [e]
  exact ⟨(deliver_quiescent h).1.1, (deliver_quiescent h).2, rfl⟩

/-- State of the suite's model after a whole script. -/
def finalState (s : State) : List String → State
  | [] => s
  | op :: r => finalState (Prom.Discovery.Suite.modelOp s op).1 r

theorem finalState_canon (ops : List String) {s : State} (h : Canon s) : Canon (finalState s ops) := by
  induction ops generalizing s with
  | nil => exact h
  | cons op r ih => exact ih (modelOp_canon h op)

/-- NOT PROVED (kept visible): the suite's judge accepts the suite's model on every script, at string level.
    What is proved instead: the model's schedule is a run of the transition system that is quiescent after every
    `quiesce` (`model_quiesce_is_quiescent`, `finalState_canon`), so `quiescent_delivered_mem` describes what it
    prints in terms of `latest (hist p)`.  Missing: the simulation between the judge's per-config bookkeeping
    (`JSt.live`, keyed by config id) and the model's per-provider ghost history (keyed by provider id, one
    provider per configured config), and `renderSnap` being invariant under the two enumeration orders.
    The correspondence run checks exactly this equation on every generated script (model = impl, judge(impl) = ok). -/
def judge_accepts_model_full : Prop :=
  ∀ ops : List String, Prom.Discovery.Suite.judge ops (Prom.Discovery.Suite.model ops) = "ok"

/-! ### the hypotheses are satisfiable: a concrete run with three jobs, a shared provider, the static
    fallback, a slow consumer (failed hand-over, re-armed) and an emptied source; and a reload dropping a provider -/

def demoActs : List Action :=
  [ .applyConfig [(1, [1, 2]), (2, [1]), (3, [])],
    .u1 0 [some ⟨1, 1, 2⟩, some ⟨2, 2, 1⟩], .u2 0,
    .s1, .s2begin, .s2prov, .s2prov, .s2prov, .s2send,   -- consumer not waiting: re-armed
    .u1 1 [some ⟨1, 3, 1⟩], .u2 1,
    .receive, .s1, .s2begin, .s2prov,
    .u1 0 [some ⟨2, 4, 0⟩, none], .u2 0,          -- source 2 of provider 0 emptied in the middle of the snapshot
    .s2prov, .s2prov, .s2send,                   -- delivers a stale group for job 1 … but the trigger is set again
    .receive, .s1, .s2begin, .s2prov, .s2prov, .s2prov, .s2send ]

def demoState : State := (run {} demoActs).getD {}

theorem demo_runs : (run {} demoActs).isSome = true := by decide

theorem demo_reachable : Reachable demoState := by
  refine ⟨demoActs, ?_⟩
  unfold demoState
  cases h : run {} demoActs with
  | none => have := demo_runs; rw [h] at this; simp at this
  | some s => rfl

example : quiescent demoState := by decide
example : demoState.delivered = [(1, [⟨1, 1, 2⟩, ⟨1, 3, 1⟩]), (2, [⟨1, 1, 2⟩]), (3, [])] := by decide
/-- a hand-over that fails because the consumer is away -/
example : ∃ s, (step s .s2send).isSome = true ∧ s.consumerReady = false :=
  ⟨(run {} (demoActs.take 8)).getD {}, by decide, by decide⟩

def demo2 : List Action :=
  [ .applyConfig [(1, [1])], .u1 0 [some ⟨1, 1, 2⟩], .u2 0, .applyConfig [(1, [2])] ]
def demo2State : State := (run {} demo2).getD {}
/-- the provider of config 1 (id 0) is gone after the reload, and so are its groups -/
example : demo2State.providers.map (·.id) = [1] ∧ demo2State.targets (1, 0) = none := by decide

end Prom.C47
